/-! Specification vocabulary for bit sequences. -/
namespace Sucds.Spec

/-- number of `i < n` with `P i` -/
def cnt (P : Nat → Bool) : Nat → Nat
  | 0 => 0
  | n+1 => cnt P n + (if P n then 1 else 0)

theorem cnt_add (P : Nat → Bool) (a b : Nat) : cnt P (a + b) = cnt P a + cnt (fun i => P (a + i)) b := by
  induction b with
  | zero => simp [cnt]
  | succ b ih => rw [← Nat.add_assoc]; simp only [cnt, ih]; omega
theorem cnt_le (P : Nat → Bool) (n : Nat) : cnt P n ≤ n := by
  induction n with
  | zero => simp [cnt]
  | succ n ih => simp only [cnt]; split <;> omega
/-- ones and zeros partition the positions -/
theorem cnt_compl (P : Nat → Bool) (n : Nat) : cnt P n + cnt (fun i => !P i) n = n := by
  induction n with
  | zero => rfl
  | succ n ih =>
    simp only [cnt]
    by_cases hp : P n = true
    · simp only [hp, if_true, Bool.not_true]; simp; omega
    · have hf : P n = false := by simpa using hp
      simp only [hf, Bool.not_false, if_true]; simp; omega

theorem cnt_mono (P : Nat → Bool) {a b : Nat} (h : a ≤ b) : cnt P a ≤ cnt P b := by
  obtain ⟨d, rfl⟩ := Nat.exists_eq_add_of_le h
  rw [cnt_add]; omega
theorem cnt_congr (P Q : Nat → Bool) (n : Nat) (h : ∀ i, i < n → P i = Q i) : cnt P n = cnt Q n := by
  induction n with
  | zero => rfl
  | succ n ih => simp only [cnt]; rw [ih (fun i hi => h i (by omega)), h n (by omega)]
theorem cnt_succ_of_true (P : Nat → Bool) (n : Nat) (h : P n = true) : cnt P (n+1) = cnt P n + 1 := by
  simp [cnt, h]
theorem cnt_succ_of_false (P : Nat → Bool) (n : Nat) (h : P n = false) : cnt P (n+1) = cnt P n := by
  simp [cnt, h]

/-- `p` is the k-th position (0-based) below `n` satisfying `P` -/
def IsKth (P : Nat → Bool) (n k p : Nat) : Prop := p < n ∧ P p = true ∧ cnt P p = k

/-- strictly more `P`-positions below a larger bound that itself satisfies … : counts separate positions -/
theorem cnt_lt_of_lt (P : Nat → Bool) {p q : Nat} (h : p < q) (hp : P p = true) : cnt P p < cnt P q := by
  have h1 := cnt_mono P (show p + 1 ≤ q by omega)
  have h2 := cnt_succ_of_true P p hp
  omega

theorem isKth_unique (P : Nat → Bool) (n k p q : Nat) (hp : IsKth P n k p) (hq : IsKth P n k q) : p = q := by
  obtain ⟨_, hp2, hp3⟩ := hp
  obtain ⟨_, hq2, hq3⟩ := hq
  by_cases h1 : p < q
  · have := cnt_lt_of_lt P h1 hp2; omega
  · by_cases h2 : q < p
    · have := cnt_lt_of_lt P h2 hq2; omega
    · omega

theorem isKth_lt_cnt (P : Nat → Bool) (n k p : Nat) (h : IsKth P n k p) : k < cnt P n := by
  obtain ⟨h1, h2, h3⟩ := h
  have := cnt_lt_of_lt P h1 h2
  omega

/-- executable selection: the k-th position below n satisfying P -/
def sel (P : Nat → Bool) (n k : Nat) : Option Nat :=
  (List.range n).find? (fun p => P p && cnt P p == k)

theorem sel_succ (P : Nat → Bool) (n k : Nat) :
    sel P (n+1) k = match sel P n k with
      | some q => some q
      | none => if (P n && cnt P n == k) = true then some n else none := by
  unfold sel
  rw [List.range_succ, List.find?_append]
  cases h : List.find? (fun p => P p && cnt P p == k) (List.range n) with
  | some q => simp
  | none =>
    simp only [List.find?_cons, List.find?_nil, Option.none_or]
    cases hb : (P n && cnt P n == k) <;> simp [hb]

theorem sel_spec (P : Nat → Bool) (n k : Nat) :
    (cnt P n ≤ k → sel P n k = none) ∧ (∀ p, IsKth P n k p → sel P n k = some p) := by
  induction n with
  | zero =>
    refine ⟨fun _ => rfl, ?_⟩
    intro p ⟨h, _, _⟩; omega
  | succ n ih =>
    obtain ⟨ih1, ih2⟩ := ih
    refine ⟨?_, ?_⟩
    · intro h
      rw [sel_succ]
      by_cases hPn : P n = true
      · have := cnt_succ_of_true P n hPn
        rw [ih1 (by omega)]
        have : cnt P n ≠ k := by omega
        simp [hPn, this]
      · have hf : P n = false := by simpa using hPn
        have := cnt_succ_of_false P n hf
        rw [ih1 (by omega)]
        simp [hf]
    · intro p hp
      obtain ⟨h1, h2, h3⟩ := hp
      rw [sel_succ]
      by_cases hpn : p < n
      · rw [ih2 p ⟨hpn, h2, h3⟩]
      · have : p = n := by omega
        subst this
        rw [ih1 (by omega)]
        simp [h2, h3]

theorem sel_eq_some (P : Nat → Bool) (n k p : Nat) (h : IsKth P n k p) : sel P n k = some p :=
  (sel_spec P n k).2 p h
theorem sel_eq_none (P : Nat → Bool) (n k : Nat) (h : cnt P n ≤ k) : sel P n k = none :=
  (sel_spec P n k).1 h

end Sucds.Spec
