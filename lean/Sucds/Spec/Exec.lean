/-! Executable specifications over arrays: what the properties say, written as directly as possible.
    Used by the model driver as the oracle (`S=` column). No imports, nothing optimised beyond O(n) scans. -/
namespace Sucds.SpecX

/-- number of positions `p < i` with `a[p] = b` -/
def count (b : Bool) (a : Array Bool) (i : Nat) : Nat :=
  Nat.fold i (fun p _ n => if a[p]? = some b then n + 1 else n) 0

def access (a : Array Bool) (i : Nat) : Option Bool := a[i]?

def rank (b : Bool) (a : Array Bool) (i : Nat) : Option Nat :=
  if i ≤ a.size then some (count b a i) else none

/-- positions holding `b`, ascending -/
def positions (b : Bool) (a : Array Bool) : Array Nat :=
  Nat.fold a.size (fun p _ acc => if a[p]? = some b then acc.push p else acc) #[]

def select (b : Bool) (a : Array Bool) (k : Nat) : Option Nat := (positions b a)[k]?

/-- largest `p ≤ i` with `a[p] = b`, for `i < len` -/
def pred (b : Bool) (a : Array Bool) (i : Nat) : Option Nat :=
  if i < a.size then (List.range (i + 1)).reverse.find? (fun p => a[p]? = some b) else none
/-- smallest `p ≥ i` with `a[p] = b`, for `i < len` -/
def succ (b : Bool) (a : Array Bool) (i : Nat) : Option Nat :=
  if i < a.size then ((List.range a.size).drop i).find? (fun p => a[p]? = some b) else none

/-- bits `pos .. pos+len` as a little-endian number, `len ≤ 64`, in range -/
def getBits (a : Array Bool) (pos len : Nat) : Option Nat :=
  if len ≤ 64 ∧ pos + len ≤ a.size then
    some ((List.range len).foldl (fun n j => if a[pos + j]? = some true then n + 2^j else n) 0)
  else none
/-- 64 bits from `pos`, zero-padded beyond the end; `none` iff `pos ≥ len` -/
def getWord64 (a : Array Bool) (pos : Nat) : Option Nat :=
  if pos < a.size then
    some ((List.range 64).foldl (fun n j => if a[pos + j]? = some true then n + 2^j else n) 0)
  else none

/-! ### monotone sequences (Elias-Fano) -/
def seqRank (xs : Array Nat) (u p : Nat) : Option Nat :=
  if p ≤ u then some (xs.foldl (fun n x => if x < p then n + 1 else n) 0) else none
def seqDelta (xs : Array Nat) (k : Nat) : Option Nat :=
  match xs[k]? with
  | none => none
  | some x => some (x - (if k = 0 then 0 else xs[k-1]?.getD 0))
def seqPred (xs : Array Nat) (u p : Nat) : Option Nat :=
  if p < u then xs.foldl (fun (m : Option Nat) x => if x ≤ p then (match m with | none => some x | some y => some (max x y)) else m) none else none
def seqSucc (xs : Array Nat) (u p : Nat) : Option Nat :=
  if p < u then xs.foldl (fun (m : Option Nat) x => if x ≥ p then (match m with | none => some x | some y => some (min x y)) else m) none else none
/-- all indices in `[lo, hi)` holding `v` -/
def seqFind (xs : Array Nat) (lo hi v : Nat) : List Nat :=
  ((List.range (min hi xs.size)).drop lo).filter (fun i => xs[i]? = some v)

/-! ### integer sequences (wavelet matrix) -/
def slice (xs : Array Nat) (a b : Nat) : List Nat := (xs.toList.take b).drop a
def occ (xs : Array Nat) (a b v : Nat) : Nat := (slice xs a b).count v
/-- position of the k-th occurrence of `v` -/
def selectVal (xs : Array Nat) (k v : Nat) : Option Nat :=
  ((List.range xs.size).filter (fun i => xs[i]? = some v))[k]?

def insertSorted (x : Nat) : List Nat → List Nat
  | [] => [x]
  | y :: ys => if x ≤ y then x :: y :: ys else y :: insertSorted x ys
def sort (l : List Nat) : List Nat := l.foldr insertSorted []
def dedup : List Nat → List Nat
  | [] => []
  | [x] => [x]
  | x :: y :: r => if x = y then dedup (y :: r) else x :: dedup (y :: r)

/-- k-th smallest of `xs[a..b)`, for `b ≤ n` and `k < b - a` -/
def quantile (xs : Array Nat) (a b k : Nat) : Option Nat :=
  if b ≤ xs.size ∧ k < b - a then (sort (slice xs a b))[k]? else none

/-- values occurring in more than `k` of the (non-empty) ranges, ascending; `none` if a range ends beyond `n` -/
def intersect (xs : Array Nat) (ranges : List (Nat × Nat)) (k : Nat) : Option (List Nat) :=
  if ranges.any (fun r => xs.size < r.2) then none
  else
    let rs := ranges.filter (fun r => r.1 < r.2)
    let cands := dedup (sort (rs.flatMap fun r => slice xs r.1 r.2))
    some (cands.filter fun v => (rs.filter fun r => (slice xs r.1 r.2).contains v).length > k)

/-! ### DACs -/
/-- bit length with `bitlen 0 = 1` (`utils::needed_bits`) -/
def bitlen (x : Nat) : Nat := if x = 0 then 1 else Nat.log2 x + 1

/-- total stored bits of a split into `widths`: every level stores, for each value reaching it,
    its width plus one continuation flag (no flag on the last level) -/
def dacCost (vals : List Nat) (widths : List Nat) : Nat :=
  let rec go (ws : List Nat) (consumed : Nat) : Nat :=
    match ws with
    | [] => 0
    | [w] => w * (vals.filter fun v => consumed = 0 ∨ bitlen v > consumed).length
    | w :: rest => (w + 1) * (vals.filter fun v => consumed = 0 ∨ bitlen v > consumed).length + go rest (consumed + w)
  go widths 0

/-- a valid split of the maximum's bit length into at most `L` positive widths -/
def validSplit (vals : List Nat) (L : Nat) (widths : List Nat) : Bool :=
  widths.length ≥ 1 && widths.length ≤ L && widths.all (· > 0) && widths.sum == bitlen (vals.foldl max 0)

/-- all compositions of `n` into exactly `k` positive parts -/
def compositions : Nat → Nat → List (List Nat)
  | 0, 0 => [[]]
  | 0, _+1 => []
  | _+1, 0 => []
  | n+1, k+1 => (List.range (n + 1)).flatMap fun i => (compositions (n - i) k).map fun r => (i + 1) :: r
termination_by n k => k

/-- brute-force optimum cost (feasible for small bit lengths only) -/
def bruteOpt (vals : List Nat) (L : Nat) : Nat :=
  let n := bitlen (vals.foldl max 0)
  let all := (List.range (min L n)).flatMap fun k => compositions n (k + 1)
  all.foldl (fun m ws => min m (dacCost vals ws)) (dacCost vals [n])

end Sucds.SpecX
