import Sucds.Proofs.Psef
/-! # C12 — PrefixSummedEliasFano is lossless and reports the exact sum

For every build configuration and every non-empty list of values whose sum is below `usize::MAX`
(`vals.sum + 1 < 2^64`): `from_slice` succeeds without panicking — the running sum does not overflow, the
Elias-Fano builder accepts every prefix sum (they are non-decreasing, below `sum + 1`, exactly `n` of them) — and
the result returns `access(i) = vals[i]` for `i < n` and `None` for every other `i` (differences of consecutive
prefix sums, through `EliasFano::delta`), iterates the input in order with exact size hints and then `None`
forever, and reports `len = n` and `sum` = the arithmetic sum. An empty slice is rejected with `Err`. -/
namespace Sucds.C12
open Sucds

def Statement : Prop :=
  (∀ c : Cfg, PS.fromSlice c [] = .ok none) ∧
  (∀ (c : Cfg) (vals : List Nat), vals ≠ [] → vals.sum + 1 < 2^64 →
    ∃ p, PS.fromSlice c vals = .ok (some p) ∧ p.len = vals.length ∧ p.sum c = .ok vals.sum ∧
      (∀ i, p.access c i = .ok vals[i]?) ∧
      (∀ n, IndexIter.runN p.len (PS.accOf c p) ⟨0⟩ n =
        (List.range n).map (fun j => (vals[j]?, (vals.length - j, some (vals.length - j))))))

theorem holds : Statement := by
  refine ⟨PS.fromSlice_nil, ?_⟩
  intro c vals hne hs
  obtain ⟨p, hp, hl, hsum, ha⟩ := PS.fromSlice_ok c vals hne hs
  obtain ⟨p', hp', _, _, hit⟩ := PS.iter_ok c vals hne hs
  have : p' = p := by rw [hp] at hp'; cases hp'; rfl
  subst this
  exact ⟨p', hp, hl, hsum, ha, hit⟩
end Sucds.C12
