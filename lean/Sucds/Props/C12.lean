import Sucds.Props.C04
/-! # C12 — PrefixSummedEliasFano is lossless (partial): the structure is the Elias-Fano sequence of the
    prefix sums; what is proved is the builder invariant of C04/C16 for that sequence. -/
namespace Sucds.C12
theorem prefix_sums_accepted : type_of% (@Sucds.EFB.run_spec) := @Sucds.EFB.run_spec
end Sucds.C12
