import Sucds.Proofs.GenPsef
import Sucds.Proofs.ConfigBuild
/-! # C12 over the definitions *generated from the Rust sources* of `PrefixSummedEliasFano`
(`src/int_vectors/prefix_summed_elias_fano.rs`)

`Props/C12.lean` states C12 about the hand-written model `PS`. Here the same clauses are stated about
`Sucds.GenFn.PrefixSummedEliasFano.{from_slice, len, sum, access, iter}`, `Sucds.GenFn.psef_Iter.{next, size_hint}`
and everything below them (`EliasFanoBuilder::{new, push, build}`, `EliasFano::delta`, `DArray`, `BitVector`, the
broadword primitives), i.e. about the Lean definitions that `tools/gen_fns.py` produces from the function bodies on
every run.

For every build configuration and every non-empty slice whose sum is below `usize::MAX`: the generated `from_slice`
succeeds without panicking and the result returns `access(i) = vals[i]` for `i < n` and `None` for every other `i`,
iterates the input in order with exact size hints and then `None` forever, and reports `len = n` and `sum` = the
arithmetic sum. An empty slice is rejected with `Err`.

Hypothesis added to `C12.Statement`: `3 * vals.size + 2 < 2^63`. The Elias-Fano sequence stores its high bits
(`n + (universe >> low_len) + 2 < 3 * n + 2` of them) in a `DArray`, whose generated `from_bits` converts positions to
`isize`; the model uses unbounded `Nat` there. A slice of `usize` has at most `2^60` elements, so the bound holds of
every Rust value. `vals.toList.sum + 1 < 2^64` is the hypothesis of C12 itself (it makes every element a `usize`). -/
namespace Sucds.C12Gen
open Sucds

/-- `n` calls of the generated `Iter::next`, each preceded by the generated `Iter::size_hint`: the answers -/
def runN (c : Cfg) : GenFn.psef_Iter → Nat → R (List (Option Nat × (Nat × Option Nat)))
  | _, 0 => .ok []
  | it, n+1 =>
    (GenFn.psef_Iter.size_hint c it).bind fun sh =>
    (GenFn.psef_Iter.next c it).bind fun r =>
    (runN c r.1 n).bind fun l => .ok ((r.2, sh) :: l)

def Statement : Prop :=
  (∀ c : Cfg, GenFn.PrefixSummedEliasFano.from_slice c #[] = .ok RS.Res.err) ∧
  (∀ (c : Cfg) (vals : Array Nat), vals.size ≠ 0 → vals.toList.sum + 1 < 2^64 → 3 * vals.size + 2 < 2^63 →
    ∃ p, GenFn.PrefixSummedEliasFano.from_slice c vals = .ok (RS.Res.ok p) ∧
      GenFn.PrefixSummedEliasFano.len p = vals.size ∧
      GenFn.PrefixSummedEliasFano.sum c p = .ok vals.toList.sum ∧
      (∀ i, GenFn.PrefixSummedEliasFano.access c p i = .ok vals[i]?) ∧
      (∀ n, runN c (GenFn.PrefixSummedEliasFano.iter p) n =
        .ok ((List.range n).map (fun j => (vals[j]?, (vals.size - j, some (vals.size - j)))))))

theorem runN_eq (c : Cfg) : ∀ (n : Nat) (it : GenFn.psef_Iter), runN c it n = GenEq.psRunN c it n := by
  intro n
  induction n with
  | zero => intro it; rfl
  | succ n ih => intro it; simp only [runN, GenEq.psRunN, ih]

theorem holds : Statement := by
  refine ⟨fun c => GenEq.ps_from_slice_empty c, fun c vals hne hs hn => ?_⟩
  obtain ⟨p, h1, h2, _, _, h5, h6, h7⟩ := GenEq.ps_from_slice_answers c vals hne hs hn
  refine ⟨p, h1, h2, h5, fun i => by rw [h6 i, Array.getElem?_toList], fun n => ?_⟩
  rw [runN_eq, h7 n]
  simp only [C17.expected, Array.getElem?_toList, Array.length_toList]

/-- the remaining public functions of the file on the same structure: `Build::build_from_slice` is `from_slice`,
    `NumVals::num_vals` is `len`, `is_empty` -/
theorem other_functions (c : Cfg) (vals : Array Nat) (hne : vals.size ≠ 0) (hs : vals.toList.sum + 1 < 2^64)
    (hn : 3 * vals.size + 2 < 2^63) :
    ∃ p, GenFn.PrefixSummedEliasFano.from_slice c vals = .ok (RS.Res.ok p) ∧
      GenFn.PrefixSummedEliasFano.build_from_slice c vals = .ok (RS.Res.ok p) ∧
      GenFn.PrefixSummedEliasFano.num_vals p = vals.size ∧
      GenFn.PrefixSummedEliasFano.is_empty p = false := by
  obtain ⟨p, h1, _, h3, h4, _⟩ := GenEq.ps_from_slice_answers c vals hne hs hn
  exact ⟨p, h1, h1, h3, h4⟩

/-- the generated construction yields the model's structure (`Err ↦ none`; the empty slice included), and the
    generated queries are the model's -/
theorem generated_eq_model (c : Cfg) (vals : Array Nat) (hs : vals.toList.sum + 1 < 2^64)
    (hn : 3 * vals.size + 2 < 2^63) :
    GenFn.PrefixSummedEliasFano.from_slice c vals = (PS.fromSlice c vals.toList).map GenEq.resOpt ∧
    ∀ p, PS.fromSlice c vals.toList = .ok (some p) →
      GenFn.PrefixSummedEliasFano.len p = p.len ∧ GenFn.PrefixSummedEliasFano.sum c p = p.sum c ∧
      ∀ i, GenFn.PrefixSummedEliasFano.access c p i = p.access c i := by
  refine ⟨GenEq.ps_from_slice_eq c vals hs hn, fun p hp => ⟨rfl, rfl, fun i => ?_⟩⟩
  have hne : vals.toList ≠ [] := by
    intro h; rw [h] at hp; cases hp
  exact GenEq.ps_access_eq c p
    (GenEq.ps_fromSlice_ok c vals.toList hne hs (by rw [Array.length_toList]; exact hn) p hp) i

/-- configuration independence of the generated construction and queries (C15 for
    `prefix_summed_elias_fano.rs`): both builds return the same structure, and it gives the same answers when
    queried in another configuration -/
theorem config_independent (c c' : Cfg) (vals : Array Nat) (hs : vals.toList.sum + 1 < 2^64)
    (hn : 3 * vals.size + 2 < 2^63) :
    GenFn.PrefixSummedEliasFano.from_slice c vals = GenFn.PrefixSummedEliasFano.from_slice c' vals ∧
    ∀ p, GenFn.PrefixSummedEliasFano.from_slice c vals = .ok (RS.Res.ok p) →
      GenFn.PrefixSummedEliasFano.sum c p = GenFn.PrefixSummedEliasFano.sum c' p ∧
      (∀ i, GenFn.PrefixSummedEliasFano.access c p i = GenFn.PrefixSummedEliasFano.access c' p i) ∧
      ∀ n, runN c (GenFn.PrefixSummedEliasFano.iter p) n = runN c' (GenFn.PrefixSummedEliasFano.iter p) n := by
  have hfs : GenFn.PrefixSummedEliasFano.from_slice c vals = GenFn.PrefixSummedEliasFano.from_slice c' vals := by
    rw [GenEq.ps_from_slice_eq c vals hs hn, GenEq.ps_from_slice_eq c' vals hs hn,
      Config.PS_fromSlice_cfg c c' _ hs]
  refine ⟨hfs, fun p hp => ?_⟩
  by_cases hne : vals.size = 0
  · have : vals = #[] := Array.eq_empty_of_size_eq_zero hne
    subst this
    cases hp
  · obtain ⟨x, hx, _, a2, a3, a4⟩ := holds.2 c vals hne hs hn
    obtain ⟨y, hy, _, b2, b3, b4⟩ := holds.2 c' vals hne hs hn
    rw [hx] at hp; injection hp with hp; injection hp with hp; subst hp
    rw [← hfs, hx] at hy; injection hy with hy; injection hy with hy; subst hy
    exact ⟨by rw [a2, b2], fun i => by rw [a3, b3], fun n => by rw [a4, b4]⟩

/-! ### non-vacuity and closed evaluations -/

/-- a small instance (with a zero and a repeated prefix sum) -/
def valsEx : Array Nat := #[5, 0, 14, 3]

-- the only hypotheses are the sum and length bounds; they hold of the instance
example : valsEx.size ≠ 0 := by decide
example : valsEx.toList.sum + 1 < 2^64 := by decide
example : 3 * valsEx.size + 2 < 2^63 := by decide

-- closed evaluation of the generated code itself (`from_slice`, then `access(2)`; `sum`), checked build
example : ((GenFn.PrefixSummedEliasFano.from_slice ⟨true, false⟩ valsEx).bind fun r =>
    (RS.unwrapRes r).bind fun p => GenFn.PrefixSummedEliasFano.access ⟨true, false⟩ p 2).toOption = some (some 14) := by
  decide +kernel
example : ((GenFn.PrefixSummedEliasFano.from_slice ⟨true, false⟩ valsEx).bind fun r =>
    (RS.unwrapRes r).bind fun p => GenFn.PrefixSummedEliasFano.sum ⟨true, false⟩ p).toOption = some 22 := by
  decide +kernel
example : GenFn.PrefixSummedEliasFano.from_slice ⟨true, false⟩ #[] = .ok RS.Res.err := rfl

-- the same through the theorem, for every configuration
example (c : Cfg) : ∃ p, GenFn.PrefixSummedEliasFano.from_slice c valsEx = .ok (RS.Res.ok p) ∧
    GenFn.PrefixSummedEliasFano.len p = 4 ∧ GenFn.PrefixSummedEliasFano.sum c p = .ok 22 ∧
    GenFn.PrefixSummedEliasFano.access c p 1 = .ok (some 0) ∧ GenFn.PrefixSummedEliasFano.access c p 3 = .ok (some 3) ∧
    GenFn.PrefixSummedEliasFano.access c p 4 = .ok none ∧
    runN c (GenFn.PrefixSummedEliasFano.iter p) 5 =
      .ok [(some 5, (4, some 4)), (some 0, (3, some 3)), (some 14, (2, some 2)), (some 3, (1, some 1)), (none, (0, some 0))] := by
  obtain ⟨p, h1, h2, h3, h4, h5⟩ := holds.2 c valsEx (by decide) (by decide) (by decide)
  exact ⟨p, h1, h2, h3, by rw [h4]; rfl, by rw [h4]; rfl, by rw [h4]; rfl, by rw [h5]; rfl⟩
end Sucds.C12Gen
