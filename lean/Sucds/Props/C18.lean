import Sucds.Proofs.DacsOptWidths
/-! # C18 — DacsOpt picks level widths of minimum total size

For every build configuration, every non-empty input with values in `usize` (fewer than 2^57 of them, so that
no cost exceeds `usize::MAX`) and every level limit `1 ≤ L ≤ 64`: the model of `compute_opt_widths` (the arrays
`nums_ints`, `dp_s`, `dp_b`, the `<=` tie-break, the first strict minimum over the level count, the
reconstruction loop and its three `assert_eq!`) returns — without any assertion firing — a split of the
maximum's bit length into at most `L` positive widths whose cost is minimal among **all** such splits, for the
cost function of the property (`SpecX.dacCost`: (width + 1 continuation flag, none on the last level) ×
number of values reaching the level). -/
namespace Sucds.C18
open Sucds

def Statement : Prop :=
  ∀ (c : Cfg) (vals : List Nat), vals ≠ [] → (∀ v ∈ vals, v < 2^64) → vals.length < 2^57 →
    ∀ L, 1 ≤ L → L ≤ 64 →
      ∃ ws, DacO.optWidths c vals L = .ok ws ∧ SpecX.validSplit vals L ws = true ∧
        ∀ ws', SpecX.validSplit vals L ws' = true → SpecX.dacCost vals ws ≤ SpecX.dacCost vals ws'

theorem holds : Statement := fun c vals hne hv hn L h1 h64 => DacsOptW.optWidths_ok_spec c vals hne hv hn L h1 h64

/-- `validSplit` says what the property says: non-empty, at most `L` parts, all positive, summing to the bit length -/
theorem valid_split_meaning (vals : List Nat) (L : Nat) (ws : List Nat) :
    SpecX.validSplit vals L ws = true ↔
      (ws ≠ [] ∧ ws.length ≤ L ∧ (∀ w ∈ ws, 1 ≤ w) ∧ ws.sum = SpecX.bitlen (vals.foldl max 0)) :=
  DacsOptW.validSplit_iff vals L ws

-- the earlier hypothesis `DP.Small` was unsatisfiable (found while proving this); the bounded form is used
theorem earlier_hypothesis_was_vacuous : type_of% (@DPB.not_small) := @DPB.not_small
end Sucds.C18
