import Sucds.Proofs.DP
/-! # C18 — DacsOpt picks level widths of minimum total size (partial)

Proved over the function-level model of `compute_opt_widths`: the reconstructed split at the first strict
minimum over the level count costs no more than *every* composition of the bit length into at most `L`
positive parts (`optimal`), with the cost function of the property. Missing: the glue to the array-level
model `DacO.optWidths` (checked on every run: cost of the real widths = cost of the model's widths, and
against brute force over all compositions for bit lengths ≤ 12). -/
namespace Sucds.C18
theorem dp_optimal : type_of% (@DP.optimal) := @DP.optimal
theorem dp_lower_bound : type_of% (@DP.S_le_cost) := @DP.S_le_cost
end Sucds.C18
