import Sucds.Props.C05Gen
/-! # C06 over the `WaveletMatrix` definitions *generated from the Rust sources* (`src/char_sequences/wavelet_matrix.rs`)

`Props/C06.lean` with every model function replaced by the generated one; same setting as `C05Gen` (`gen k` is the
generated copy of `impl<B> WaveletMatrix<B>` for backing `k`; `cv` is a `CompactVector` holding the sequence `s`).
`ranges: &[Range<usize>]` is an `Array (Nat × Nat)`, the result `Vec<usize>` an `Array Nat`; the clauses read them as
lists (`.toList`).

Hypotheses added to `C06.Statement` (bounds by `usize::MAX = 2^64 - 1`, nothing else): the two bit-length bounds of
`C05Gen` for `new`; `quantile`: the range ends `a, b < 2^64` (`k` is unrestricted).  `intersect` needs none. -/
namespace Sucds.C06Gen
open Sucds Sucds.Spec Sucds.C05Gen

def Statement : Prop :=
  ∀ (c : Cfg) (k : Backing) (cv : CV) (s : List Nat), CV.Rep cv s →
    s ≠ [] → s.foldl max 0 + 1 < 2^64 → s.length < 2^63 →
    cv.len * cv.width < 2^64 → s.length * SpecX.bitlen (s.foldl max 0 + 1) < 2^64 →
    ∃ wm, (gen k).new c cv = .ok (.ok wm) ∧
      (∀ a b j, a < 2^64 → b < 2^64 → (gen k).quantile c wm (a, b) j =
        .ok (if b ≤ s.length ∧ j < b - a then (SpecX.sort ((s.take b).drop a))[j]? else none)) ∧
      (∀ (ranges : Array (Nat × Nat)) j,
        (ranges.toList.any (fun r => decide (s.length < r.2)) = true → (gen k).intersect c wm ranges j = .ok none) ∧
        (ranges.toList.any (fun r => decide (s.length < r.2)) = false →
          ∃ out : Array Nat, (gen k).intersect c wm ranges j = .ok (some out) ∧ out.toList.Pairwise (· < ·) ∧
            ∀ x, x ∈ out.toList ↔
              j < ((ranges.toList.filter fun r => decide (r.1 < r.2)).countP
                fun r => decide (x ∈ (s.take r.2).drop r.1))))

theorem holds : Statement := by
  intro c k cv s h hne hmax hn hsz hnW
  cases k with
  | r9 => exact GenEq.wm_c06 c cv s h hne hmax hn hsz hnW
  | da => exact GenEq.wm_da_c06 c cv s h hne hmax hn hsz hnW
  | bv => exact GenEq.wm_bv_c06 c cv s h hne hmax hn hsz hnW

/-- `SpecX.sort` is a sorting function: a sorted permutation of its input (as in `C06`) -/
theorem sort_is_sorting : type_of% (@Wav.sort_perm) := @Wav.sort_perm
theorem sort_is_sorted : type_of% (@Wav.sort_sorted) := @Wav.sort_sorted

/-- configuration independence: on the value built by `new` (the same in every configuration,
    `C05Gen.new_config_independent`) `quantile` and `intersect` give the same answers -/
theorem config_independent (c c' : Cfg) (k : Backing) (cv : CV) (s : List Nat) (h : CV.Rep cv s)
    (hne : s ≠ []) (hmax : s.foldl max 0 + 1 < 2^64) (hn : s.length < 2^63)
    (hsz : cv.len * cv.width < 2^64) (hnW : s.length * SpecX.bitlen (s.foldl max 0 + 1) < 2^64) :
    (gen k).new c cv = (gen k).new c' cv ∧
    ∀ wm, (gen k).new c cv = .ok (.ok wm) →
      (∀ a b j, a < 2^64 → b < 2^64 → (gen k).quantile c wm (a, b) j = (gen k).quantile c' wm (a, b) j) ∧
      (∀ ranges j, (gen k).intersect c wm ranges j = (gen k).intersect c' wm ranges j) := by
  have e := new_config_independent c c' k cv s h hne hmax hn hsz hnW
  obtain ⟨wm, h1, q1, i1⟩ := holds c k cv s h hne hmax hn hsz hnW
  obtain ⟨wm', h2, q2, i2⟩ := holds c' k cv s h hne hmax hn hsz hnW
  refine ⟨e, fun w hw => ?_⟩
  have e1 : w = wm := by rw [h1] at hw; injection hw with hw; injection hw with hw; exact hw.symm
  have e2 : wm' = wm := by rw [e, h2] at h1; injection h1 with h1; injection h1 with h1
  subst e1; subst e2
  refine ⟨fun a b j ha hb => by rw [q1 a b j ha hb, q2 a b j ha hb], fun ranges j => ?_⟩
  cases hr : ranges.toList.any (fun r => decide (s.length < r.2)) with
  | true => rw [(i1 ranges j).1 hr, (i2 ranges j).1 hr]
  | false =>
    obtain ⟨o1, a1, p1, m1⟩ := (i1 ranges j).2 hr
    obtain ⟨o2, a2, p2, m2⟩ := (i2 ranges j).2 hr
    have : o1.toList = o2.toList := Wav.eq_of_strict_sorted_mem _ _ p1 p2 (fun x => by rw [m1 x, m2 x])
    rw [a1, a2, Array.toList_inj.mp this]

/-! ### non-vacuity -/
/-- the hypotheses hold for `[3, 1, 4, 1, 5, 9, 2, 6]`: in every configuration and for every backing the generated
    pipeline succeeds; `quantile(1..7, 2)` is the third smallest of `1 4 1 5 9 2`; `quantile` of a range past the end
    and `intersect` with a range past the end are `None` -/
example (c : Cfg) (k : Backing) : ∃ cv wm, GenFn.CompactVector.from_slice c #[3, 1, 4, 1, 5, 9, 2, 6] = .ok (.ok cv) ∧
    (gen k).new c cv = .ok (.ok wm) ∧
    (gen k).quantile c wm (1, 7) 2 = .ok (some 2) ∧ (gen k).quantile c wm (1, 7) 6 = .ok none ∧
    (gen k).quantile c wm (1, 9) 0 = .ok none ∧ (gen k).intersect c wm #[(0, 3), (2, 9)] 0 = .ok none := by
  have hmax : [3, 1, 4, 1, 5, 9, 2, 6].foldl max 0 + 1 < 2^64 := by decide
  have hb := Nat.mul_le_mul_left [3, 1, 4, 1, 5, 9, 2, 6].length (Wav.bitlen_le _ hmax)
  have e : [3, 1, 4, 1, 5, 9, 2, 6].length = 8 := rfl
  obtain ⟨cv, h1, h2, h3, h4⟩ := from_slice c [3, 1, 4, 1, 5, 9, 2, 6] (by decide) hmax (by rw [e] at hb ⊢; omega)
  obtain ⟨wm, g1, gq, gi⟩ := holds c k cv _ h2 (by decide) hmax (by decide) h3 h4
  refine ⟨cv, wm, h1, g1, ?_, ?_, ?_, (gi _ 0).1 (by decide)⟩
  · rw [gq 1 7 2 (by decide) (by decide)]; exact congrArg _ (by decide)
  · rw [gq 1 7 6 (by decide) (by decide)]; rfl
  · rw [gq 1 9 0 (by decide) (by decide)]; rfl

-- closed evaluation of the generated functions (checked build, `Rank9Sel` backing): the values in both ranges
set_option maxRecDepth 100000 in
example : ((GenFn.CompactVector.from_slice ⟨true, false⟩ #[3, 1, 4, 1, 5]).bind fun r => (RS.unwrapRes r).bind fun cv =>
      ((gen .r9).new ⟨true, false⟩ cv).bind fun r => (RS.unwrapRes r).bind fun wm =>
      ((gen .r9).quantile ⟨true, false⟩ wm (0, 5) 2).bind fun a =>
      ((gen .r9).intersect ⟨true, false⟩ wm #[(0, 3), (2, 5)] 1).bind fun b => .ok (a, b)) = .ok (some 3, some #[1, 4]) := by rfl
end Sucds.C06Gen
