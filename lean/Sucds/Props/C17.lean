import Sucds.Proofs.IndexIter
/-! # C17 — iterators yield the stored sequence, stay exhausted, give truthful size hints (partial)

Proved generically for the six index iterators (BitVector, CompactVector, DacsByte, DacsOpt,
PrefixSummedEliasFano, WaveletMatrix), from the `access` specification of the container: `n` calls of
`next` yield the stored list and then `None` forever, and at every step `size_hint` is exactly the
number of remaining elements. Missing: the unary iterator (next / skip1 / skip0) and the Elias-Fano iterator. -/
namespace Sucds.C17
open Sucds Sucds.IndexIter

theorem index_iterators {α} (xs : List α) (acc : Nat → Option α) (hacc : ∀ i, i < xs.length → acc i = xs[i]?) :
    ∀ (n p : Nat), p ≤ xs.length →
      runN xs.length acc ⟨p⟩ n =
        (List.range n).map (fun j => (xs[p + j]?, (xs.length - (p + j), some (xs.length - (p + j))))) :=
  runN_spec xs acc hacc
end Sucds.C17
