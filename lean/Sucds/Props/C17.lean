import Sucds.Proofs.IndexIter
import Sucds.Proofs.UnaryIter
import Sucds.Proofs.CompactVectorFull
import Sucds.Props.C07
/-! # C17 — iterators yield the stored sequence, stay exhausted, give truthful size hints (partial)

Proved:
* the index iterators (`next` = `access(pos)` then `pos += 1`; `size_hint` = `(len − pos, Some(len − pos))`),
  generically from the `access` specification of the container: `n` calls of `next` yield the stored list and
  then `None` forever, and at every step `size_hint` is exactly the number of remaining elements —
  instantiated for BitVector (C07) and CompactVector here, for DacsByte/DacsOpt in C10/C11;
* the unary iterator: `unary_iter(p)` for every `p` (including `p = len`, `len % 64 = 0`, the empty vector) stands
  at cursor `p`; `next` yields the set positions `≥ p` in increasing order and then `None` forever; from a
  cursor established by `new`/`skip1`/`skip0`, `skip1(k)` / `skip0(k)` return the k-th set / unset position at or
  after the cursor (`None` when there is none, after which every call answers `None`) and move the cursor
  there; the `debug_assert!(buf != 0)` cannot fire.
Missing: the Elias-Fano iterator and the PrefixSummedEliasFano / WaveletMatrix instances (their `access`
theorems are in progress). Observation outside the property (mixed `next`/`skip0` is not quantified over):
`skip0(0)` directly after `next()` returns the set position `next` just yielded (`UIter.skip0_after_next`). -/
namespace Sucds.C17
open Sucds Sucds.Spec Sucds.IndexIter

theorem index_iterators {α} (xs : List α) (acc : Nat → Option α) (hacc : ∀ i, i < xs.length → acc i = xs[i]?) :
    ∀ (n p : Nat), p ≤ xs.length →
      runN xs.length acc ⟨p⟩ n =
        (List.range n).map (fun j => (xs[p + j]?, (xs.length - (p + j), some (xs.length - (p + j))))) :=
  runN_spec xs acc hacc

theorem bit_vector_iter : type_of% (@C07.iteration) := @C07.iteration
theorem compact_vector_iter : type_of% (@CV.iter_spec) := @CV.iter_spec

/-- `unary_iter(p)`: `n` calls of `next` yield the first `n` set positions `≥ p` (then `None` forever) -/
theorem unary_next (c : Cfg) (bv : BV) (h : bv.Inv) (p n : Nat) :
    UIter.nexts c bv n (UIter.new bv p) = .ok ((List.range n).map (selFrom bv.bitAt bv.len p)) :=
  UIter.nexts_new c bv h p n

theorem unary_new (bv : BV) (p : Nat) : UIter.RepAt bv (UIter.new bv p) p := UIter.new_rep bv p
theorem unary_skip1 : type_of% (@UIter.skip1_ok) := @UIter.skip1_ok
theorem unary_skip0 : type_of% (@UIter.skip0_ok) := @UIter.skip0_ok
theorem unary_done_next : type_of% (@UIter.done_next) := @UIter.done_next
theorem unary_done_skip1 : type_of% (@UIter.done_skip1) := @UIter.done_skip1
theorem unary_done_skip0 : type_of% (@UIter.done_skip0) := @UIter.done_skip0

/-- `selFrom P n cur k` is the k-th position `≥ cur` below `n` satisfying `P`: it enumerates exactly those positions -/
theorem selFrom_meaning (P : Nat → Bool) (n cur q : Nat) :
    (cur ≤ q ∧ q < n ∧ P q = true) ↔ ∃ k, selFrom P n cur k = some q := selFrom_complete P n cur q
end Sucds.C17
