import Sucds.Proofs.UnarySkips
import Sucds.Props.C04
import Sucds.Props.C05
import Sucds.Props.C07
import Sucds.Props.C09
import Sucds.Props.C10
import Sucds.Props.C11
import Sucds.Props.C12
/-! # C17 — iterators yield the stored sequence, stay exhausted, give truthful size hints

* **Index iterators** (BitVector, CompactVector, DacsByte, DacsOpt, PrefixSummedEliasFano, WaveletMatrix): the model
  of `Iter` is `IndexIter` — `next` = `access(pos)` then `pos += 1` when `pos < len`, else `None`; `size_hint` =
  `(len − pos, Some(len − pos))`. From the `access` theorem of each container: any number of `next` calls yields
  the stored elements in order and then `None` on every further call, and before each call `size_hint` is exactly
  the number of elements still to come (`expected`).
* **EliasFano::iter(k)**, every `k`: yields `x_k … x_{n−1}` then `None` forever (from C04). Its `size_hint` (and the
  unary iterator's) is the default `(0, None)`, which brackets any count.
* **BitVector::unary_iter(p)**, every `p` (so in particular every `p ≤ len`, including `p = len`, `len % 64 = 0` and
  the empty vector): `next` yields the set positions `≥ p` in increasing order and then `None` forever
  (`selFrom P n p j` is the j-th position `≥ p` below `n` satisfying `P`); **any sequence** of `skip1(k)`/`skip0(k)`
  calls returns the k-th set/unset position at or after the cursor and moves the cursor there, or `None` when there
  is none, after which every call answers `None` (`specSkips`); the `debug_assert!(buf != 0)` cannot fire. -/
namespace Sucds.C17
open Sucds Sucds.Spec Sucds.IndexIter

/-- unwrap a model answer (`panic` ↦ `none`; the access theorems show there is no panic) -/
def okv {α} (r : R (Option α)) : Option α := match r with | .ok o => o | .error _ => none

/-- what `n` calls of `next`, each preceded by `size_hint`, must produce for the stored list `xs` -/
def expected {α} (xs : List α) (n : Nat) : List (Option α × (Nat × Option Nat)) :=
  (List.range n).map (fun j => (xs[j]?, (xs.length - j, some (xs.length - j))))

theorem generic {α} (xs : List α) (acc : Nat → Option α) (hacc : ∀ i, acc i = xs[i]?) (n : Nat) :
    runN xs.length acc ⟨0⟩ n = expected xs n := by
  have := runN_spec xs acc (fun i _ => hacc i) n 0 (Nat.zero_le _)
  simpa [expected] using this

def Statement : Prop :=
  -- BitVector
  (∀ (b : BV), b.Inv → ∀ n, runN b.toList.length (fun i => okv (b.getBit i)) ⟨0⟩ n = expected b.toList n) ∧
  -- CompactVector
  (∀ (v : CV) (xs : List Nat), CV.Rep v xs → ∀ n, runN xs.length (fun i => okv (v.getInt i)) ⟨0⟩ n = expected xs n) ∧
  -- DacsByte
  (∀ (c : Cfg) (vals : List Nat), (∀ v ∈ vals, v < 2^64) →
    ∀ n, runN vals.length (fun i => okv ((DacB.fromSlice c vals).access c i)) ⟨0⟩ n = expected vals n) ∧
  -- DacsOpt
  (∀ (c : Cfg) (vals : List Nat) (ml : Option Nat), (∀ v ∈ vals, v < 2^64) → vals.length < 2^57 →
    1 ≤ ml.getD 64 ∧ ml.getD 64 ≤ 64 →
    ∃ d, DacO.fromSlice c vals ml = .ok (some d) ∧
      ∀ n, runN vals.length (fun i => okv (d.access c i)) ⟨0⟩ n = expected vals n) ∧
  -- PrefixSummedEliasFano
  (∀ (c : Cfg) (vals : List Nat), vals ≠ [] → vals.sum + 1 < 2^64 →
    ∃ p, PS.fromSlice c vals = .ok (some p) ∧
      ∀ n, runN vals.length (fun i => okv (p.access c i)) ⟨0⟩ n = expected vals n) ∧
  -- WaveletMatrix, three backings
  (∀ (c : Cfg) (k : Backing) (s : List Nat), s ≠ [] → s.foldl max 0 + 1 < 2^64 → s.length < 2^63 →
    ∃ wm, WM.new c k s = .ok (some wm) ∧
      ∀ n, runN s.length (fun i => okv (wm.access c i)) ⟨0⟩ n = expected s n) ∧
  -- EliasFano::iter(k)
  (∀ (c : Cfg) (u m : Nat) (hist : List Nat), m ≠ 0 → u < 2^64 →
    ∃ b0 b', EFB.new u m = some b0 ∧ EFB.run b0 hist = .ok (b', EFB.verdicts u m [] hist) ∧
      ∀ k, ∃ it0, ((EF.ofBuilder c b').enableRank c).iter c k = .ok it0 ∧
        ∀ t, ∃ it', EFQ.itRun c ((EF.ofBuilder c b').enableRank c) ((EFB.accepted u m [] hist).length - k + t) it0 =
          .ok (it', ((EFB.accepted u m [] hist).drop k).map some ++ List.replicate t none)) ∧
  -- unary iterator: next
  (∀ (c : Cfg) (bv : BV), bv.Inv → ∀ p n,
    UIter.nexts c bv n (UIter.new bv p) = .ok ((List.range n).map (selFrom bv.bitAt bv.len p))) ∧
  -- unary iterator: any sequence of skips
  (∀ (c : Cfg) (bv : BV), bv.Inv → ∀ p (ops : List UIter.Skip),
    UIter.runSkips c bv (UIter.new bv p) ops = .ok (UIter.specSkips bv.bitAt bv.len (some p) ops))

theorem holds : Statement := by
  refine ⟨?_, ?_, ?_, ?_, ?_, ?_, ?_, ?_, ?_⟩
  · intro b h n
    apply generic
    intro i
    rw [BV.getBit_ok b h i]
    by_cases hi : i < b.len
    · simp [okv, hi, C07.toList_getElem b i hi]
    · have : b.toList.length ≤ i := by rw [BV.toList_length]; omega
      simp [okv, hi, List.getElem?_eq_none this]
  · intro v xs h n
    apply generic
    intro i
    rw [CV.getInt_ok v xs h i]; rfl
  · intro c vals hv n
    apply generic
    intro i
    rw [DacB.access_ok c vals hv i]; rfl
  · intro c vals ml hv hn hml
    obtain ⟨d, hd, _, ha, _⟩ := (C10.holds c vals ml hv hn).2 hml
    exact ⟨d, hd, fun n => generic vals _ (fun i => by rw [ha i]; rfl) n⟩
  · intro c vals hne hs
    obtain ⟨p, hp, _, _, ha, _⟩ := C12.holds.2 c vals hne hs
    exact ⟨p, hp, fun n => generic vals _ (fun i => by rw [ha i]; rfl) n⟩
  · intro c k s hne hmax hn
    obtain ⟨wm, hw, _, _, ha, _⟩ := C05.holds c k s hne hmax hn
    exact ⟨wm, hw, fun n => generic s _ (fun i => by rw [ha i]; rfl) n⟩
  · intro c u m hist hm hu
    obtain ⟨b0, b', h1, h2, ans⟩ := C04.holds c u m hist hm hu
    exact ⟨b0, b', h1, h2, ans.iter⟩
  · intro c bv h p n
    exact UIter.nexts_new c bv h p n
  · intro c bv h p ops
    exact UIter.skips_from_new c bv h p ops

/-- `selFrom P n cur k` enumerates exactly the positions `≥ cur` below `n` satisfying `P`, in increasing order -/
theorem selFrom_meaning (P : Nat → Bool) (n cur q : Nat) :
    (cur ≤ q ∧ q < n ∧ P q = true) ↔ ∃ k, selFrom P n cur k = some q := selFrom_complete P n cur q

/-- observation outside the property (mixed `next`/`skip0` sequences are not quantified over): `skip0(0)` directly
    after `next()` returns the set position that `next` has just yielded -/
theorem observation_skip0_after_next : type_of% (@UIter.skip0_after_next) := @UIter.skip0_after_next
end Sucds.C17
