import Sucds.Proofs.GenDArray
/-! # C02 over the definitions *generated from* `darray.rs` and `darray/inner.rs`

`Sucds.GenFn.DArray.*` / `Sucds.GenFn.DArrayIndex.*` are what `tools/gen_fns.py` produces from the function bodies on
this run (the word-by-word scan of `build` with its `while let Some(l) = lsb(cur_word)` loop, `flush_cur_block` with the
dense/sparse decision and the `isize`/`u16` casts, `select` with its popcount scan, the `Rank9SelIndex` behind
`enable_rank`). The statement is C02 about those definitions: for every bit list shorter than 2^63 (positions are cast
to `isize`), every index configuration, every build configuration and every argument. -/
namespace Sucds.C02Gen
open Sucds Sucds.Spec Sucds.C02

def Statement : Prop :=
  ∀ (c : Cfg) (bs : List Bool) (rank sel1 sel0 : Bool), bs.length < 2^63 →
    ∃ x, GenFn.DArray.build_from_bits c bs rank sel1 sel0 = .ok (RS.Res.ok x) ∧
      (∀ k, GenFn.DArray.select1 c x k = .ok (sel (bitOf bs) bs.length k)) ∧
      GenFn.DArray.num_ones x = cnt (bitOf bs) bs.length ∧ GenFn.DArray.num_bits x = bs.length ∧
      (∀ i, GenFn.DArray.access c x i = .ok bs[i]?) ∧
      (sel0 = true → ∀ k, GenFn.DArray.select0 c x k = .ok (sel (fun j => !bitOf bs j) bs.length k)) ∧
      (rank = true → ∀ i, i < 2^64 →
        GenFn.DArray.rank1 c x i = .ok (if i ≤ bs.length then some (cnt (bitOf bs) i) else none)) ∧
      (rank = true → ∀ i, i < 2^64 →
        GenFn.DArray.rank0 c x i = .ok (if i ≤ bs.length then some (i - cnt (bitOf bs) i) else none))

theorem holds : Statement := by
  intro c bs rank sel1 sel0 hl
  obtain ⟨x, hb, h1, h2, h3, _, _, h6, _, _, _, h10, _, h12, h13, _⟩ := GenEq.da_generated_answers c bs hl rank sel1 sel0
  exact ⟨x, hb, h1, h2, h3, h6, h10, h12, h13⟩

/-- a disabled index answers with the documented panic -/
theorem disabled_index_panics (c : Cfg) (bs : List Bool) (sel1 : Bool) (hl : bs.length < 2^63) :
    ∃ x, GenFn.DArray.build_from_bits c bs false sel1 false = .ok (RS.Res.ok x) ∧
      (∀ k, GenFn.DArray.select0 c x k = .error .expect) ∧
      (∀ i, GenFn.DArray.rank1 c x i = .error .expect ∧ GenFn.DArray.rank0 c x i = .error .expect) := by
  obtain ⟨x, hb, _, _, _, _, _, _, _, _, _, _, h11, _, _, h14⟩ := GenEq.da_generated_answers c bs hl false sel1 false
  exact ⟨x, hb, h11 rfl, h14 rfl⟩

/-- the generated constructor is the model constructor; the queries of a well-formed structure are the model's -/
theorem generated_eq_model (c : Cfg) (bs : List Bool) (rank sel1 sel0 : Bool) (hl : bs.length < 2^63) :
    GenFn.DArray.build_from_bits c bs rank sel1 sel0 = .ok (RS.Res.ok (DA.build c (BV.fromBits bs) rank sel0)) :=
  GenEq.da_build_from_bits_eq c bs rank sel1 sel0 hl

-- non-vacuity: the only hypotheses are `bs.length < 2^63` and `i < 2^64`
example : ([true, false, false, true, true] : List Bool).length < 2^63 := by decide
end Sucds.C02Gen
