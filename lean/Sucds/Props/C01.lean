import Sucds.Proofs.Rank9Full
/-! # C01 — Rank9Sel answers access/rank/select exactly like the plain bit sequence

For every bit sequence `bs` (every length, density and alignment — no bound), every choice of select hints
`(h1, h0)`, every build configuration `c` and **every** argument (any natural number, in particular all of
`usize`): the model of `Rank9Sel` built from `bs` (`BitVector::from_bits`, `build_rank`, optional
`build_select1`/`build_select0`) never panics and returns `access(i) = bs[i]`, `rank1(i)` = ones in `bs[0..i)`,
`rank0(i) = i − rank1(i)`, `select1(k)`/`select0(k)` = position of the k-th one/zero, with `None` exactly out
of range, and the true counts. Since the right-hand sides mention neither `(h1, h0)` nor `c`, hints never
change an answer and the answers are configuration independent. -/
namespace Sucds.C01
open Sucds Sucds.Spec

/-- the bit at position `j` of the list, `false` beyond its end -/
abbrev bitOf (bs : List Bool) : Nat → Bool := fun j => bs.getD j false

def Statement : Prop :=
  ∀ (c : Cfg) (bs : List Bool) (h1 h0 : Bool),
    ∃ x, R9.build c (BV.fromBits bs) h1 h0 = .ok x ∧
      (∀ i, x.access i = .ok bs[i]?) ∧
      (∀ i, x.rank1 c i = .ok (if i ≤ bs.length then some (cnt (bitOf bs) i) else none)) ∧
      (∀ i, x.rank0 c i = .ok (if i ≤ bs.length then some (i - cnt (bitOf bs) i) else none)) ∧
      (∀ k, x.select1 c k = .ok (sel (bitOf bs) bs.length k)) ∧
      (∀ k, x.select0 c k = .ok (sel (fun j => !bitOf bs j) bs.length k)) ∧
      x.numBits = bs.length ∧ x.numOnes = .ok (cnt (bitOf bs) bs.length) ∧
      x.numZeros c = .ok (bs.length - cnt (bitOf bs) bs.length)

theorem holds : Statement := fun c bs h1 h0 => R9.build_answers c bs h1 h0

/-- hints never change any answer (and neither does the build configuration) -/
theorem hints_irrelevant (c c' : Cfg) (bs : List Bool) (h1 h0 h1' h0' : Bool) :
    ∃ x y, R9.build c (BV.fromBits bs) h1 h0 = .ok x ∧ R9.build c' (BV.fromBits bs) h1' h0' = .ok y ∧
      (∀ a, x.access a = y.access a ∧ x.rank1 c a = y.rank1 c' a ∧ x.rank0 c a = y.rank0 c' a ∧
            x.select1 c a = y.select1 c' a ∧ x.select0 c a = y.select0 c' a) := by
  obtain ⟨x, hx, a1, a2, a3, a4, a5, _⟩ := holds c bs h1 h0
  obtain ⟨y, hy, b1, b2, b3, b4, b5, _⟩ := holds c' bs h1' h0'
  exact ⟨x, y, hx, hy, fun a => ⟨by rw [a1, b1], by rw [a2, b2], by rw [a3, b3], by rw [a4, b4], by rw [a5, b5]⟩⟩

/-- `sel` means "the k-th position": `none` iff at most `k` positions qualify -/
theorem sel_none_iff (P : Nat → Bool) (n k : Nat) : sel P n k = none ↔ cnt P n ≤ k :=
  ⟨Sucds.sel_none_le P n k, sel_eq_none P n k⟩
theorem sel_some_iff (P : Nat → Bool) (n k p : Nat) : sel P n k = some p ↔ IsKth P n k p :=
  ⟨Sucds.sel_isKth P n k p, sel_eq_some P n k p⟩
end Sucds.C01
