import Sucds.Proofs.Rank9Hints
import Sucds.Model.Rank9Sel
/-! # C01 — Rank9Sel answers like the plain bit sequence (partial: everything except `select0`)

Proved here for every build configuration, every valid bit vector (any length, any alignment) and
every argument: `rank1`, `rank0` on the index built by `build_rank`; `select1` without hints and with
the hint table built by `build_select1`; `num_ones`. Missing for the full statement: `select0`
(modelled and exercised by the correspondence; proof in progress). -/
namespace Sucds.C01
open Sucds Sucds.Spec Sucds.R9Index

theorem holds_partial_rank1 (c : Cfg) (bv : BV) (h : bv.Inv) (pos : Nat) :
    (buildRank c bv).rank1 c bv pos = .ok (if pos ≤ bv.len then some (cnt bv.bitAt pos) else none) :=
  rank1_ok c bv h pos

theorem holds_partial_rank0 (c : Cfg) (bv : BV) (h : bv.Inv) (pos : Nat) :
    (buildRank c bv).rank0 c bv pos = .ok (if pos ≤ bv.len then some (cnt (fun i => !bv.bitAt i) pos) else none) :=
  rank0_ok c bv h pos

theorem holds_partial_select1_nohints (c : Cfg) (bv : BV) (h : bv.Inv) (k : Nat) :
    select1 c (buildRank c bv) bv k = .ok (sel bv.bitAt bv.len k) :=
  select1_nohints_ok c bv h k

theorem holds_partial_select1_hints (c : Cfg) (bv : BV) (h : bv.Inv) (k : Nat) :
    ∃ x, buildSelect1 (buildRank c bv) = .ok x ∧ select1 c x bv k = .ok (sel bv.bitAt bv.len k) :=
  select1_hints_ok c bv h k

/-- hints never change a `select1` answer -/
theorem hints_irrelevant_select1 (c : Cfg) (bv : BV) (h : bv.Inv) (k : Nat) :
    ∃ x, buildSelect1 (buildRank c bv) = .ok x ∧ select1 c x bv k = select1 c (buildRank c bv) bv k := by
  obtain ⟨x, e, hx⟩ := select1_hints_ok c bv h k
  exact ⟨x, e, by rw [hx, select1_nohints_ok c bv h k]⟩

-- the hypothesis `bv.Inv` is met by every vector the constructors produce
example (bs : List Bool) : (BV.fromBits bs).Inv := (BV.fromBits_spec bs).1
end Sucds.C01
