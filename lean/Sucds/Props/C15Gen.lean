import Sucds.Props.C01Gen
import Sucds.Props.C03Gen
import Sucds.Props.C04Gen
import Sucds.Props.C06Gen
import Sucds.Props.C07Gen
import Sucds.Props.C09Gen
import Sucds.Props.C10Gen
import Sucds.Props.C11Gen
import Sucds.Props.C12Gen
import Sucds.Props.C14Gen
import Sucds.Props.C16Gen
import Sucds.Props.C17Gen
import Sucds.Props.C18Gen
import Sucds.Proofs.C15GenAux
import Sucds.Proofs.ConfigBytes
/-! # C15 — results do not depend on build configuration — over the definitions *generated from the Rust sources*

`Props/C15.lean` states C15 about the hand-written model. Here it is stated about `Sucds.GenFn.*`
(`Sucds/Gen/Fns.lean`, regenerated from the function bodies on every run), where every `+ - * << >>` of the source
is a checked operation of the configuration `c : Cfg` (overflow checks + debug assertions on/off, `intrinsics` on/off)
and every `debug_assert!` a `dassert c`. For **every pair** `c c'`, one clause per structure:

* **the generated constructor returns the same value** (`ctor c … = ctor c' …`, an equation between `R (RS.Res _)`
  values: same structure, or same `Err`, or same panic) — hence the same serialized bytes and `size_in_bytes`
  (`bytes_*` below, cf. `C15.bytes_*`) and the same answers to every later query;
* **every generated query returns the same answer** on that value, for every argument in its `usize` range — because
  in both configurations it returns the specification's answer of `CxxGen.holds` (so in particular `.ok _` in *both*
  checked configurations: no overflow check and no debug assertion fires, no answer depends on wrapping arithmetic).
  `binsearch`/`binsearch_range`, which C04 pins down only up to the choice among equal values, are equal too
  (`C04Gen.config_independent`, through `Config.searchSpec`).

Each clause is the statement of the `config_independent` theorem of the corresponding `Props/CxxGen.lean` (full texts
there; summarised in the comments below), which this file only collects. The one addition is the `DArray` constructor
equation (`Proofs/C15GenAux.lean`; C02Gen has no `config_independent`).

Hypotheses: exactly those the collected theorems carry — all bounds by `usize::MAX`/`isize::MAX` (arguments `< 2^64`;
`bs.length + 1534 < 2^64` for `Rank9Sel`; `bs.length < 2^63` for `DArray`; `2 * bs.length + 2 < 2^63` for `SArray`;
`m + (u >> low_len) + 2 < 2^63` for `EliasFano`, `… + 64 < 2^64` for the builder alone; `3 * n + 2 < 2^63` and
`sum + 1 < 2^64` for `PrefixSummedEliasFano`; the bit-length bounds of `C05Gen` for `WaveletMatrix`; final length
bounds for `BitVector`/`CompactVector` histories; `n < 2^57` and `usize` values for `DacsOpt`, `n < 2^64` for
`DacsByte`; the `usize` bounds of `C17Gen` for the unary iterator). -/
namespace Sucds.C15Gen
open Sucds

def Statement : Prop :=
  -- primitives (`broadword.rs`): `popcount`, `lsb`, `msb`, `select_in_word`
  (type_of% @C14Gen.config_independent) ∧
  -- `Rank9Sel`: `build_from_bits` (every flag triple) and the `from_bits`/`select1_hints`/`select0_hints` chain;
  -- `num_ones`, `num_zeros`, `access`, `rank1`, `rank0`, `select1`, `select0`
  (type_of% @C01Gen.config_independent) ∧
  -- `DArray`: `build_from_bits` (every index configuration) …
  (∀ (c c' : Cfg) (bs : List Bool) (rank sel1 sel0 : Bool), bs.length < 2^63 →
    GenFn.DArray.build_from_bits c bs rank sel1 sel0 = GenFn.DArray.build_from_bits c' bs rank sel1 sel0) ∧
  -- … `select1`, `select0`, `rank1`, `rank0`, `access`, `num_ones`, `num_zeros` (a disabled index: the same panic)
  (type_of% @GenEq.da_config_independent) ∧
  -- `SArray`: `from_bits`, `enable_rank`; `num_zeros`, `access`, `select1` (with and without the rank index), `rank1`,
  -- `rank0`, `predecessor1`, `successor1`
  (type_of% @C03Gen.config_independent) ∧
  -- `EliasFano`: `EliasFanoBuilder::new`, any interleaving of `push`/`extend`, `build`, `enable_rank`; `select`,
  -- `delta`, `rank`, `predecessor`, `successor`, `binsearch_range`, `binsearch`, `iter(k)` + `next`
  (type_of% @C04Gen.config_independent) ∧
  -- `EliasFanoBuilder` after any push history: a further `extend`, `push`; `build` and its read-back (also before
  -- `enable_rank`)
  (type_of% @C16Gen.config_independent) ∧
  -- `WaveletMatrix<B>`, three backings: `new`; `access`, `rank_range`, `rank`, `select` …
  (type_of% @C05Gen.config_independent) ∧
  -- … `quantile`, `intersect`
  (type_of% @C06Gen.config_independent) ∧
  -- `BitVector`: `from_bits`, `from_bit`; one mutator; every history of mutators; all reads
  (type_of% @C07Gen.config_independent_ctor) ∧ (type_of% @C07Gen.config_independent_apply) ∧
  (type_of% @C07Gen.config_independent_run) ∧ (type_of% @C07Gen.config_independent_reads) ∧
  -- `CompactVector`: every constructor, every history of `push_int`/`set_int`/`extend`, `get_int`
  (type_of% @C09Gen.config_independent) ∧
  -- `DacsOpt`: `from_slice` (every `max_levels`); `access`, the iterator; and the width optimiser `compute_opt_widths`
  (type_of% @C10Gen.config_independent) ∧ (type_of% @C18Gen.config_independent) ∧
  -- `DacsByte`: `from_slice`; `access`, the iterator
  (type_of% @C11Gen.config_independent) ∧
  -- `PrefixSummedEliasFano`: `from_slice`; `sum`, `access`, the iterator
  (type_of% @C12Gen.config_independent) ∧
  -- the iterators of all containers (`size_hint` + `next` runs of any length), `unary_iter` `next`/`skip1`/`skip0` runs
  (type_of% @C17Gen.config_independent)

theorem holds : Statement :=
  ⟨@C14Gen.config_independent, @C01Gen.config_independent,
   fun c c' bs rank sel1 sel0 hl => GenEq.da_build_from_bits_cfg c c' bs rank sel1 sel0 hl, @GenEq.da_config_independent,
   @C03Gen.config_independent, @C04Gen.config_independent, @C16Gen.config_independent,
   @C05Gen.config_independent, @C06Gen.config_independent,
   @C07Gen.config_independent_ctor, @C07Gen.config_independent_apply, @C07Gen.config_independent_run,
   @C07Gen.config_independent_reads, @C09Gen.config_independent, @C10Gen.config_independent, @C18Gen.config_independent,
   @C11Gen.config_independent, @C12Gen.config_independent, @C17Gen.config_independent⟩

/-! ### the clauses spelled out for two structures (the others read the same way; see `Props/CxxGen.lean`) -/

example (c c' : Cfg) (bs : List Bool) (r h1 h0 : Bool) (hl : bs.length + 1534 < 2^64) :
    GenFn.Rank9Sel.build_from_bits c bs r h1 h0 = GenFn.Rank9Sel.build_from_bits c' bs r h1 h0 ∧
    C01Gen.viaHints c bs h1 h0 = C01Gen.viaHints c' bs h1 h0 ∧
    ∀ x, GenFn.Rank9Sel.build_from_bits c bs r h1 h0 = .ok (RS.Res.ok x) →
      GenFn.Rank9Sel.num_ones c x = GenFn.Rank9Sel.num_ones c' x ∧
      GenFn.Rank9Sel.num_zeros c x = GenFn.Rank9Sel.num_zeros c' x ∧
      ∀ a, a < 2^64 → GenFn.Rank9Sel.access c x a = GenFn.Rank9Sel.access c' x a ∧
        GenFn.Rank9Sel.rank1 c x a = GenFn.Rank9Sel.rank1 c' x a ∧
        GenFn.Rank9Sel.rank0 c x a = GenFn.Rank9Sel.rank0 c' x a ∧
        GenFn.Rank9Sel.select1 c x a = GenFn.Rank9Sel.select1 c' x a ∧
        GenFn.Rank9Sel.select0 c x a = GenFn.Rank9Sel.select0 c' x a := holds.2.1 c c' bs r h1 h0 hl
example (c c' : Cfg) (vals : Array Nat) (hs : vals.toList.sum + 1 < 2^64) (hn : 3 * vals.size + 2 < 2^63) :
    GenFn.PrefixSummedEliasFano.from_slice c vals = GenFn.PrefixSummedEliasFano.from_slice c' vals ∧
    ∀ p, GenFn.PrefixSummedEliasFano.from_slice c vals = .ok (RS.Res.ok p) →
      GenFn.PrefixSummedEliasFano.sum c p = GenFn.PrefixSummedEliasFano.sum c' p ∧
      (∀ i, GenFn.PrefixSummedEliasFano.access c p i = GenFn.PrefixSummedEliasFano.access c' p i) ∧
      ∀ n, C12Gen.runN c (GenFn.PrefixSummedEliasFano.iter p) n = C12Gen.runN c' (GenFn.PrefixSummedEliasFano.iter p) n :=
  C12Gen.config_independent c c' vals hs hn

/-! ### serialized bytes (and `size_in_bytes`) are configuration independent

The generated constructors return values of the model's types, whose serialization is `X.codec` (generated from
`serialize_into`/`size_in_bytes`, `Sucds/Gen/Codecs.lean`); a `WaveletMatrix` is read as a model value by
`C05Gen.repr`. Equal constructor results have equal bytes. -/

/-- the `Ok` values of two equal constructor calls are equal -/
theorem same_value {α : Type} {x y : R (RS.Res α)} {a b : α} (e : x = y) (hx : x = .ok (RS.Res.ok a))
    (hy : y = .ok (RS.Res.ok b)) : a = b := by
  rw [e, hy] at hx; injection hx with hx; injection hx with hx; exact hx.symm

theorem bytes_rank9sel (c c' : Cfg) (bs : List Bool) (r h1 h0 : Bool) (hl : bs.length + 1534 < 2^64) (x y : R9)
    (hx : GenFn.Rank9Sel.build_from_bits c bs r h1 h0 = .ok (RS.Res.ok x))
    (hy : GenFn.Rank9Sel.build_from_bits c' bs r h1 h0 = .ok (RS.Res.ok y)) :
    R9.codec.put x = R9.codec.put y ∧ R9.codec.size x = R9.codec.size y := by
  rw [same_value (C01Gen.config_independent c c' bs r h1 h0 hl).1 hx hy]; exact ⟨rfl, rfl⟩
theorem bytes_darray (c c' : Cfg) (bs : List Bool) (rank sel1 sel0 : Bool) (hl : bs.length < 2^63) (x y : DA)
    (hx : GenFn.DArray.build_from_bits c bs rank sel1 sel0 = .ok (RS.Res.ok x))
    (hy : GenFn.DArray.build_from_bits c' bs rank sel1 sel0 = .ok (RS.Res.ok y)) :
    DA.codec.put x = DA.codec.put y ∧ DA.codec.size x = DA.codec.size y := by
  rw [same_value (GenEq.da_build_from_bits_cfg c c' bs rank sel1 sel0 hl) hx hy]; exact ⟨rfl, rfl⟩
theorem bytes_sarray (c c' : Cfg) (bs : List Bool) (hl : 2 * bs.length + 2 < 2^63) (s s' t t' : SA)
    (hs : GenFn.SArray.from_bits c bs = .ok s) (hs' : GenFn.SArray.enable_rank c s = .ok s')
    (ht : GenFn.SArray.from_bits c' bs = .ok t) (ht' : GenFn.SArray.enable_rank c' t = .ok t') :
    SA.codec.put s = SA.codec.put t ∧ SA.codec.put s' = SA.codec.put t' := by
  obtain ⟨e, q⟩ := C03Gen.config_independent c c' bs hl
  have : t = s := by rw [e, ht] at hs; injection hs
  subst this
  have := (q t s' hs hs').1
  rw [ht'] at this; injection this with this
  rw [this]; exact ⟨rfl, rfl⟩
theorem bytes_elias_fano (c c' : Cfg) (u m : Nat) (ops : List GenEq.EFOp) (hm : m ≠ 0) (hu : u < 2^64)
    (hsz : m + (u >>> GenEq.lowLenOf u m) + 2 < 2^63) :
    ∃ b0 b' r e0 e, GenFn.EliasFanoBuilder.new c u m = .ok (RS.Res.ok b0) ∧ GenEq.efGrun c b0 ops = .ok (b', r) ∧
      GenFn.EliasFanoBuilder.build c b' = .ok e0 ∧ GenFn.EliasFano.enable_rank c e0 = .ok e ∧
      ∀ b1 b1' r1 e1 e1', GenFn.EliasFanoBuilder.new c' u m = .ok (RS.Res.ok b1) → GenEq.efGrun c' b1 ops = .ok (b1', r1) →
        GenFn.EliasFanoBuilder.build c' b1' = .ok e1 → GenFn.EliasFano.enable_rank c' e1 = .ok e1' →
        EF.codec.put e0 = EF.codec.put e1 ∧ EF.codec.put e = EF.codec.put e1' := by
  obtain ⟨b0, b', r, e0, e, h1, h1', h2, h2', h3, h3', h4, h4', _⟩ := C04Gen.config_independent c c' u m ops hm hu hsz
  refine ⟨b0, b', r, e0, e, h1, h2, h3, h4, fun b1 b1' r1 e1 e1' g1 g2 g3 g4 => ?_⟩
  rw [h1'] at g1; injection g1 with g1; injection g1 with g1; subst g1
  rw [h2'] at g2; injection g2 with g2; injection g2 with g2a g2b; subst g2a
  rw [h3'] at g3; injection g3 with g3; subst g3
  rw [h4'] at g4; injection g4 with g4; subst g4
  exact ⟨rfl, rfl⟩
theorem bytes_dacs_byte (c c' : Cfg) (vals : Array Nat) (hv : ∀ v ∈ vals, v < 2^64) (hn : vals.size < 2^64) (x y : DacB)
    (hx : GenFn.DacsByte.from_slice c vals = .ok (RS.Res.ok x)) (hy : GenFn.DacsByte.from_slice c' vals = .ok (RS.Res.ok y)) :
    DacB.codec.put x = DacB.codec.put y := by
  rw [same_value (C11Gen.config_independent c c' vals hv hn).1 hx hy]
theorem bytes_dacs_opt (c c' : Cfg) (vals : Array Nat) (ml : Option Nat) (hv : ∀ v ∈ vals, v < 2^64)
    (hn : vals.size < 2^57) (x y : DacO)
    (hx : GenFn.DacsOpt.from_slice c vals ml = .ok (RS.Res.ok x))
    (hy : GenFn.DacsOpt.from_slice c' vals ml = .ok (RS.Res.ok y)) : DacO.codec.put x = DacO.codec.put y := by
  rw [same_value (C10Gen.config_independent c c' vals ml hv hn).1 hx hy]
theorem bytes_psef (c c' : Cfg) (vals : Array Nat) (hs : vals.toList.sum + 1 < 2^64) (hn : 3 * vals.size + 2 < 2^63)
    (x y : PS) (hx : GenFn.PrefixSummedEliasFano.from_slice c vals = .ok (RS.Res.ok x))
    (hy : GenFn.PrefixSummedEliasFano.from_slice c' vals = .ok (RS.Res.ok y)) : PS.codec.put x = PS.codec.put y := by
  rw [same_value (C12Gen.config_independent c c' vals hs hn).1 hx hy]
theorem bytes_wavelet_matrix (c c' : Cfg) (k : Backing) (cv : CV) (s : List Nat) (h : CV.Rep cv s)
    (hne : s ≠ []) (hmax : s.foldl max 0 + 1 < 2^64) (hn : s.length < 2^63)
    (hsz : cv.len * cv.width < 2^64) (hnW : s.length * SpecX.bitlen (s.foldl max 0 + 1) < 2^64)
    (x y : (C05Gen.gen k).W) (hx : (C05Gen.gen k).new c cv = .ok (.ok x)) (hy : (C05Gen.gen k).new c' cv = .ok (.ok y)) :
    (WM.codec k).put (C05Gen.repr k x) = (WM.codec k).put (C05Gen.repr k y) := by
  rw [same_value (C05Gen.config_independent c c' k cv s h hne hmax hn hsz hnW).1 hx hy]

/-! ### non-vacuity: the hypotheses hold of a concrete input, and a checked and an unchecked build of the generated
code return the same structure and answer (evaluated by the kernel) -/
example : ([true, false, true, true] : List Bool).length + 1534 < 2^64 := by decide
example : GenFn.Rank9Sel.build_from_bits ⟨true, false⟩ [true, false, true, true] true true true =
    GenFn.Rank9Sel.build_from_bits ⟨false, true⟩ [true, false, true, true] true true true :=
  (holds.2.1 _ _ _ _ _ _ (by decide)).1
example : (GenFn.DacsByte.from_slice ⟨true, false⟩ #[5, 300, 70000]).toOption =
    (GenFn.DacsByte.from_slice ⟨false, true⟩ #[5, 300, 70000]).toOption := by decide +kernel
end Sucds.C15Gen
