import Sucds.Proofs.C14Msb
import Sucds.Proofs.BitVectorSelect
/-! # C14 — broadword primitives equal their mathematical definitions on every word

For every 64-bit word, every `k` and **every build configuration** (portable or `intrinsics` code,
checked or wrapping arithmetic): the model of `popcount`, `lsb`, `msb`, `select_in_word` returns
(without panicking) the number of set bits, the lowest / highest set position (`none` iff `x = 0`)
and the position of the k-th set bit (`none` iff `k ≥ popcount x`). The model is stated over the
constants and tables regenerated from `src/broadword.rs` (`Gen.*`). -/
namespace Sucds.C14
open Sucds Sucds.Broadword Sucds.Spec

/-- the full statement of C14 over the model -/
def Statement : Prop :=
  ∀ (c : Cfg) (x : BitVec 64),
    popcount c x = .ok (cnt (bitsOf x) 64) ∧
    lsb c x = .ok (sel (bitsOf x) 64 0) ∧
    msb c x = .ok (if x = 0 then none else sel (bitsOf x) 64 (cnt (bitsOf x) 64 - 1)) ∧
    ∀ k, selectInWord c x k = .ok (sel (bitsOf x) 64 k)

theorem holds : Statement :=
  fun c x => ⟨popcount_ok c x, lsb_ok c x, msb_ok c x, fun k => selectInWord_ok c x k⟩

/-- `sel` is "the k-th set position": it is `none` exactly when there are at most `k` set bits, and
    otherwise the unique position holding a set bit with exactly `k` set bits below it -/
theorem sel_meaning (P : Nat → Bool) (n k : Nat) :
    (sel P n k = none ↔ cnt P n ≤ k) ∧ (∀ p, sel P n k = some p ↔ IsKth P n k p) := by
  refine ⟨⟨Sucds.sel_none_le P n k, sel_eq_none P n k⟩, fun p => ⟨Sucds.sel_isKth P n k p, sel_eq_some P n k p⟩⟩

/-- configuration independence of the primitives (used by C15) -/
theorem config_independent (c c' : Cfg) (x : BitVec 64) (k : Nat) :
    popcount c x = popcount c' x ∧ lsb c x = lsb c' x ∧ msb c x = msb c' x ∧ selectInWord c x k = selectInWord c' x k := by
  obtain ⟨a1, a2, a3, a4⟩ := holds c x
  obtain ⟨b1, b2, b3, b4⟩ := holds c' x
  exact ⟨by rw [a1, b1], by rw [a2, b2], by rw [a3, b3], by rw [a4 k, b4 k]⟩

-- the statement has no hypotheses, so it cannot hold vacuously; a concrete instance for the reader:
-- `selectInWord ⟨true, false⟩ 0xF0F0#64 5 = .ok (some 13)` (evaluated by the driver in every run)
end Sucds.C14
