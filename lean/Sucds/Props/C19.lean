import Sucds.Proofs.SpaceBasic
import Sucds.Proofs.SpaceRank9
import Sucds.Proofs.SpaceDArray
import Sucds.Proofs.SpaceEFTop
import Sucds.Proofs.SpaceDacsTop
import Sucds.Proofs.SpaceWavelet
import Sucds.Proofs.SizeInBytes
/-! # C19 — compressed sizes stay within the documented space bounds

`size_in_bytes()` of a structure — the expression written in the Rust source, generated as `X.sizeInBytes` — equals
`Codec.size` of its generated codec (`size_in_bytes_is_codec_size`), which is the number of bytes written (C08). With
`B = 8 · size_in_bytes` and the bounds in integer form (×100 where the property has decimals), for every build
configuration and every input:
* plain bit vector: `B = 64·⌈u/64⌉ + 128 ≤ payload rounded up to 64 + 256`; compact vector: `B = 64·⌈n·w/64⌉ + 256`;
* Rank9Sel, every hint configuration: `100·B ≤ 132·u + 204800`;
* DArray with `s` select indexes and `r` rank index: `100·B ≤ u·(100 + 102·s + 26·r) + 409600`;
* EliasFano built for `n` values below `u`: `B ≤ n·⌊lg(u/n)⌋ + 7n + 8192`, `11n` with the rank index; the same for
  `EliasFano::from_bits`, SArray (`n` = set bits, `u` = length; also without any set bit) and PrefixSummedEliasFano
  (`u = sum + 1`);
* DacsByte / DacsOpt: `100·B ≤ 132·(chunk bits + flag bits stored) + 204800·levels + 12800`;
* WaveletMatrix<Rank9Sel>: `100·B ≤ width·(132·n + 204800) + 12800`.
`⌊lg x⌋` is `(msbN x).getD 0` (what `broadword::msb` returns, 0 for `x = 0`). -/
namespace Sucds.C19
open Sucds Sucds.Spec Sucds.Space Sucds.EFB

def Statement : Prop :=
  (∀ (b : BV), b.Inv → 8 * BV.codec.size b ≤ 64 * ((b.len + 63) / 64) + 256) ∧
  (∀ (v : CV) (xs : List Nat), CV.Rep v xs → 8 * CV.codec.size v ≤ 64 * ((v.len * v.width + 63) / 64) + 256) ∧
  (∀ (c : Cfg) (bv : BV), bv.Inv → ∀ h1 h0 : Bool,
    ∃ x, R9.build c bv h1 h0 = .ok x ∧ 100 * (8 * R9.codec.size x) ≤ 132 * bv.len + 204800) ∧
  (∀ (c : Cfg) (bv : BV), bv.Inv → ∀ rank sel0 : Bool,
    100 * (8 * DA.codec.size (DA.build c bv rank sel0)) ≤
      bv.len * (100 + 102 * (1 + (if sel0 then 1 else 0)) + 26 * (if rank then 1 else 0)) + 409600) ∧
  (∀ (c : Cfg) (b : EFB) (xs : List Nat), Holds b xs → b.numVals ≠ 0 → b.lowLen = (msbN (b.univ / b.numVals)).getD 0 →
    8 * EF.codec.size (EF.ofBuilder c b) ≤ b.numVals * b.lowLen + 7 * b.numVals + 8192 ∧
    8 * EF.codec.size ((EF.ofBuilder c b).enableRank c) ≤ b.numVals * b.lowLen + 11 * b.numVals + 8192) ∧
  (∀ (c : Cfg) (bv : BV), bv.Inv → bv.len < 2^64 →
    ∃ s, SA.fromBV c bv = .ok s ∧
      8 * SA.codec.size s ≤ cnt bv.bitAt bv.len * (msbN (bv.len / cnt bv.bitAt bv.len)).getD 0
        + 7 * cnt bv.bitAt bv.len + 8192 ∧
      8 * SA.codec.size (s.enableRank c) ≤ cnt bv.bitAt bv.len * (msbN (bv.len / cnt bv.bitAt bv.len)).getD 0
        + 11 * cnt bv.bitAt bv.len + 8192) ∧
  (∀ (c : Cfg) (vals : List Nat), vals ≠ [] → vals.sum + 1 < 2^64 →
    ∃ p, PS.fromSlice c vals = .ok (some p) ∧
      8 * PS.codec.size p ≤ vals.length * (msbN ((vals.sum + 1) / vals.length)).getD 0 + 7 * vals.length + 8192) ∧
  (∀ (c : Cfg) (vals : List Nat), (∀ v ∈ vals, v < 2^64) →
    100 * (8 * DacB.codec.size (DacB.fromSlice c vals)) ≤
      132 * (DacB.chunkBits (DacB.fromSlice c vals) + flagBits (DacB.fromSlice c vals).flags)
        + 204800 * (DacB.fromSlice c vals).numLevels + 12800) ∧
  (∀ (c : Cfg) (vals : List Nat) (ml : Option Nat), (∀ v ∈ vals, v < 2^64) → vals.length < 2^57 →
    ∀ d, DacO.fromSlice c vals ml = .ok (some d) →
      100 * (8 * DacO.codec.size d) ≤ 132 * (DacO.chunkBits d + flagBits d.flags) + 204800 * d.numLevels + 12800) ∧
  (∀ (c : Cfg) (seq : List Nat) (w : WM), WM.new c .r9 seq = .ok (some w) →
    100 * (8 * (WM.codec .r9).size w) ≤ w.alphWidth * (132 * seq.length + 204800) + 12800)

theorem holds : Statement :=
  ⟨bitvector_bound, compactvector_bound, rank9sel_bound, darray_bound, eliasfano_bound, sarray_bound, psef_bound,
   dacsbyte_bound, dacsopt_bound, waveletmatrix_r9_bound⟩

/-- `size_in_bytes()` as written in the source is the codec size the bounds above are stated for -/
theorem size_in_bytes_is_codec_size :
    (∀ x, BV.sizeInBytes x = BV.codec.size x) ∧ (∀ x, CV.sizeInBytes x = CV.codec.size x) ∧
    (∀ x, R9.sizeInBytes x = R9.codec.size x) ∧ (∀ x, DA.sizeInBytes x = DA.codec.size x) ∧
    (∀ x, EF.sizeInBytes x = EF.codec.size x) ∧ (∀ x, SA.sizeInBytes x = SA.codec.size x) ∧
    (∀ x, PS.sizeInBytes x = PS.codec.size x) ∧ (∀ x, DacB.sizeInBytes x = DacB.codec.size x) ∧
    (∀ x, DacO.sizeInBytes x = DacO.codec.size x) ∧ (∀ k x, WM.sizeInBytes k x = (WM.codec k).size x) :=
  ⟨BV.sizeInBytes_eq, CV.sizeInBytes_eq, R9.sizeInBytes_eq, DA.sizeInBytes_eq, EF.sizeInBytes_eq, SA.sizeInBytes_eq,
   PS.sizeInBytes_eq, DacB.sizeInBytes_eq, DacO.sizeInBytes_eq, WM.sizeInBytes_eq⟩

/-- exact sizes of the two plain vectors -/
theorem bitvector_exact (b : BV) (h : b.Inv) : 8 * BV.codec.size b = 64 * ((b.len + 63) / 64) + 128 := bitvector_bits b h
theorem compactvector_exact (v : CV) (xs : List Nat) (h : CV.Rep v xs) :
    8 * CV.codec.size v = 64 * ((v.len * v.width + 63) / 64) + 256 := compactvector_bits v xs h
/-- `EliasFano::from_bits` -/
theorem elias_fano_from_bits : type_of% (@eliasfano_fromBV_bound) := @eliasfano_fromBV_bound
/-- the builder parameters the Elias-Fano bound needs are what `new` sets and `push` keeps -/
theorem builder_parameters : type_of% (@new_params) := @new_params
end Sucds.C19
