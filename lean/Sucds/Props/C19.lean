import Sucds.Proofs.Serial
import Sucds.Proofs.Rank9Rank1
/-! # C19 — compressed sizes stay within the documented space bounds (partial)

Proved: `size_in_bytes` of a `BitVector` is `8·⌈len/64⌉ + 16` bytes (so `8·size ≤ payload rounded to 64 + 256`),
and the rank directory of `Rank9Sel` has `2·(⌈words/8⌉ + 1)` entries. The remaining bounds are evaluated on
the real `size_in_bytes()` by the correspondence on every run (worst-case families). -/
namespace Sucds.C19
open Sucds Sucds.Codec
theorem sum_map_const (l : List Nat) : (l.map fun _ => 8).sum = 8 * l.length := by
  induction l with
  | nil => simp
  | cons a t ih => simp [ih]; omega

theorem bitvector_size (b : BV) (h : b.Inv) : 8 * BV.codec.size b = 64 * ((b.len + 63) / 64) + 128 := by
  simp only [BV.codec, Codec.iso, Codec.seq, Codec.vec, Codec.u64, Codec.uint]
  have := sum_map_const b.words.toList
  simp only [Array.length_toList] at this
  rw [this, h.size]; omega
theorem bitvector_bound (b : BV) (h : b.Inv) : 8 * BV.codec.size b ≤ 64 * ((b.len + 63) / 64) + 256 := by
  rw [bitvector_size b h]; omega
theorem rank9_directory_size : type_of% (@R9Index.pairs_size) := @R9Index.pairs_size
end Sucds.C19
