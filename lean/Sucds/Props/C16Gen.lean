import Sucds.Proofs.GenEFBuilder
/-! # C16 over the definitions *generated from the Rust sources* (`src/mii_sequences/elias_fano.rs`) — builder part

`Props/C16.lean` with the model builder replaced by the generated `GenFn.EliasFanoBuilder.{new, push, extend,
universe, num_vals}`; a push history is run by `GenEq.genRun` (a fold calling the generated `push`, see `genRun_def`),
`Result<()>` verdicts are `RS.Res Unit` (`GenEq.resU true = Ok(())`, `resU false = Err`).

**Partial**: the `build()` clause of C16 (the built `EliasFano` answers `len`, `universe`, `select(k)` with the
accepted values) is *not* stated over generated functions: it needs `GenFn.EliasFanoBuilder.build = EF.ofBuilder`
(i.e. `GenFn.DArray.from_bits` / `GenFn.DArrayIndex.new` against the model's `DArray` construction) and
`GenFn.EliasFano.select = EF.select` (i.e. `GenFn.DArray.select`), and neither equivalence has been proved yet
(`Sucds/Proofs/Gen*.lean` has no theorem about them). What is proved here instead: the final generated builder
`Holds` exactly the accepted values (`EFB.Holds`: sortedness, bounds, the unary-coded high bits and the low bits),
which is the whole input of `build()`; `readback_via_model` below states the read-back through the *model's*
`build`/`select` applied to the builder produced by the *generated* functions.

Hypothesis added: `m + (u >> low_len) + 2 + 64 < 2^64` with `low_len = GenEq.lowLenOf u m = ⌊log2 (u / m)⌋` — the
length of the high-bit vector allocated by `new`, rounded up to words, is a `usize` (the code computes it with checked
additions; the model uses unbounded `Nat`). Since `u >> low_len < 2 * m`, `3 * m + 66 < 2^64` suffices (`holds_simple`). -/
namespace Sucds.C16Gen
open Sucds Sucds.Spec Sucds.EFB Sucds.EFQ
open Sucds.GenEq (genRun resU lowLenOf)

/-- the generated history runner: `push` after `push`, collecting the results -/
theorem genRun_def (c : Cfg) (b : EFB) (v : Nat) (vs : List Nat) :
    genRun c b [] = .ok (b, []) ∧
    genRun c b (v :: vs) = (GenFn.EliasFanoBuilder.push c b v).bind fun r =>
      (genRun c r.1 vs).bind fun rr => .ok (rr.1, r.2 :: rr.2) := ⟨rfl, rfl⟩

/-- "`v` is acceptable after `acc`": `≥` the last accepted value, `< u`, fewer than `m` accepted (the test of
    `C16.verdict_meaning`) -/
def Acceptable (u m : Nat) (acc : List Nat) (v : Nat) : Prop := acc.getLast?.getD 0 ≤ v ∧ v < u ∧ acc.length < m
instance (u m : Nat) (acc : List Nat) (v : Nat) : Decidable (Acceptable u m acc v) := by unfold Acceptable; infer_instance

def Statement_partial : Prop :=
  -- `new(u, 0)` is rejected
  (∀ (c : Cfg) (u : Nat), GenFn.EliasFanoBuilder.new c u 0 = .ok RS.Res.err) ∧
  -- a rejected push returns `Err` and the builder unchanged (any builder, no hypothesis)
  (∀ (c : Cfg) (b : EFB) (v : Nat), v < b.last ∨ b.univ ≤ v ∨ b.numVals ≤ b.pos →
    GenFn.EliasFanoBuilder.push c b v = .ok (b, RS.Res.err)) ∧
  (∀ (c : Cfg) (u m : Nat) (hist : List Nat), m ≠ 0 → u < 2^64 → m + (u >>> lowLenOf u m) + 2 + 64 < 2^64 →
    ∃ b0 b', GenFn.EliasFanoBuilder.new c u m = .ok (RS.Res.ok b0) ∧
      -- no panic, the verdicts are the greedy acceptance, the final builder holds exactly the accepted values
      genRun c b0 hist = .ok (b', (verdicts u m [] hist).map resU) ∧
      Holds b' (accepted u m [] hist) ∧
      GenFn.EliasFanoBuilder.universe b' = u ∧ GenFn.EliasFanoBuilder.num_vals b' = m ∧
      -- from there, a push of an unacceptable value is a no-op
      (∀ v, ¬ Acceptable u m (accepted u m [] hist) v → GenFn.EliasFanoBuilder.push c b' v = .ok (b', RS.Res.err)) ∧
      -- and `extend` is the push loop stopped at the first rejected item, keeping the earlier ones
      (∀ vs : List Nat, ∃ b'' n, n ≤ vs.length ∧
        GenFn.EliasFanoBuilder.extend c b' vs = .ok (b'', resU (decide (n = vs.length))) ∧
        Holds b'' (accepted u m [] hist ++ vs.take n) ∧
        GenFn.EliasFanoBuilder.universe b'' = u ∧ GenFn.EliasFanoBuilder.num_vals b'' = m ∧
        (∀ v, vs[n]? = some v → ¬ Acceptable u m (accepted u m [] hist ++ vs.take n) v)))

/-- rejection in terms of the builder's fields = "not acceptable" in terms of what it holds -/
theorem rejected_iff (b : EFB) (xs : List Nat) (h : Holds b xs) (v : Nat) :
    (v < b.last ∨ b.univ ≤ v ∨ b.numVals ≤ b.pos) ↔ ¬ Acceptable b.univ b.numVals xs v := by
  unfold Acceptable
  rw [h.last, h.pos]
  omega

theorem holds : Statement_partial := by
  refine ⟨GenEq.gen_new_zero, GenEq.gen_rejected_push_no_effect, ?_⟩
  intro c u m hist hm hu hsz
  obtain ⟨b0, hn, hh0, hf0, hu0, hm0⟩ := GenEq.gen_new_holds c u m hm hu hsz
  obtain ⟨b', hr, hh', hf', hu', hm'⟩ := GenEq.gen_run_spec c hist b0 [] hh0 hf0
  have hu0' : b0.univ = u := hu0
  have hm0' : b0.numVals = m := hm0
  rw [hu0'] at hr hh' hu'
  rw [hm0'] at hr hh' hm'
  refine ⟨b0, b', hn, hr, hh', hu', hm', fun v hv => ?_, fun vs => ?_⟩
  · exact GenEq.gen_rejected_push_no_effect c b' v ((rejected_iff b' _ hh' v).2 (by rw [hu', hm']; exact hv))
  · obtain ⟨b'', n, hn', he, hh'', hu'', hm'', hrej⟩ := GenEq.gen_extend_spec c vs b' _ hh' hf'
    refine ⟨b'', n, hn', he, hh'', hu''.trans hu', hm''.trans hm', fun v hv => ?_⟩
    have := (rejected_iff b'' _ hh'' v).1 (hrej v hv)
    rw [hu''.trans hu', hm''.trans hm'] at this
    exact this

/-- the same under the simple size bound `3 * m + 66 < 2^64` -/
theorem holds_simple (c : Cfg) (u m : Nat) (hist : List Nat) (hm : m ≠ 0) (hu : u < 2^64) (hm3 : 3 * m + 66 < 2^64) :
    ∃ b0 b', GenFn.EliasFanoBuilder.new c u m = .ok (RS.Res.ok b0) ∧
      genRun c b0 hist = .ok (b', (verdicts u m [] hist).map resU) ∧ Holds b' (accepted u m [] hist) ∧
      GenFn.EliasFanoBuilder.universe b' = u ∧ GenFn.EliasFanoBuilder.num_vals b' = m := by
  have := GenEq.shr_lowLen_lt u m hm
  obtain ⟨b0, b', h1, h2, h3, h4, h5, _⟩ := holds.2.2 c u m hist hm hu (by omega)
  exact ⟨b0, b', h1, h2, h3, h4, h5⟩

/-- the verdicts are the greedy acceptance (`C16.verdict_meaning`, a fact about the specification) -/
theorem verdict_meaning (u m : Nat) (acc : List Nat) (v : Nat) (vs : List Nat) :
    verdicts u m acc (v :: vs) =
      (if Acceptable u m acc v then true :: verdicts u m (acc ++ [v]) vs else false :: verdicts u m acc vs) := rfl

/-- **read-back, through the model's `build`/`select`** (not part of `Statement_partial`: `EF.ofBuilder` and
    `EF.select` are model functions): the builder produced by the *generated* `new` and `push`es, built by the
    model, has exactly the accepted values -/
theorem readback_via_model (c : Cfg) (u m : Nat) (hist : List Nat) (hm : m ≠ 0) (hu : u < 2^64)
    (hsz : m + (u >>> lowLenOf u m) + 2 + 64 < 2^64) :
    ∃ b0 b' r, GenFn.EliasFanoBuilder.new c u m = .ok (RS.Res.ok b0) ∧ genRun c b0 hist = .ok (b', r) ∧
      (EF.ofBuilder c b').len = (accepted u m [] hist).length ∧ (EF.ofBuilder c b').univ = u ∧
      (∀ k, (EF.ofBuilder c b').select c k = .ok (accepted u m [] hist)[k]?) ∧
      (∀ k, ((EF.ofBuilder c b').enableRank c).select c k = .ok (accepted u m [] hist)[k]?) := by
  obtain ⟨b0, b', h1, h2, hh', hub, _⟩ := holds.2.2 c u m hist hm hu hsz
  have hub' : b'.univ = u := hub
  have hu' : b'.univ < 2^64 := by rw [hub']; exact hu
  obtain ⟨_, a2, _⟩ := ranked_queries c b' _ hh' hu' (high_enableRank c b' _ hh')
  obtain ⟨b1, b2, _⟩ := built_queries c b' _ hh' hu' (high_ofBuilder c b' _ hh')
  exact ⟨b0, b', _, h1, h2, b1, hub', b2, a2⟩

/-- the generated builder functions are the model's (same value, same panic, every configuration) -/
theorem generated_eq_model (c : Cfg) (u m : Nat) (hu : u < 2^64) (hsz : m ≠ 0 → m + (u >>> lowLenOf u m) + 2 + 64 < 2^64) :
    GenFn.EliasFanoBuilder.new c u m = .ok (GenEq.resOpt (EFB.new u m)) ∧
    ∀ b, EFB.new u m = some b → ∀ hist,
      genRun c b hist = (EFB.run b hist).map (fun r => (r.1, r.2.map resU)) ∧
      ∀ b' r, EFB.run b hist = .ok (b', r) → ∀ vs v,
        GenFn.EliasFanoBuilder.extend c b' vs = (EFB.extend b' vs).map GenEq.resB ∧
        GenFn.EliasFanoBuilder.push c b' v = (b'.push v).map GenEq.resB := by
  refine ⟨GenEq.efb_new_eq c u m hu hsz, fun b hb hist => ?_⟩
  have hm : m ≠ 0 := by
    intro h0; subst h0; rw [new_zero] at hb; cases hb
  have hf : GenEq.Fits b := GenEq.fits_new u m b hu hb (by have := hsz hm; omega)
  obtain ⟨e1, e2⟩ := GenEq.genRun_eq c hist b hf
  exact ⟨e1, fun b' r hr vs v => ⟨GenEq.efb_extend_eq c b' (e2 b' r hr) vs, GenEq.efb_push_eq c b' (e2 b' r hr) v⟩⟩

/-- configuration independence of the generated builder: `new`, any push history, then any `extend` or `push` -/
theorem config_independent (c c' : Cfg) (u m : Nat) (hu : u < 2^64)
    (hsz : m ≠ 0 → m + (u >>> lowLenOf u m) + 2 + 64 < 2^64) :
    GenFn.EliasFanoBuilder.new c u m = GenFn.EliasFanoBuilder.new c' u m ∧
    ∀ b, GenFn.EliasFanoBuilder.new c u m = .ok (RS.Res.ok b) → ∀ hist,
      genRun c b hist = genRun c' b hist ∧
      ∀ b' r, genRun c b hist = .ok (b', r) → ∀ vs v,
        GenFn.EliasFanoBuilder.extend c b' vs = GenFn.EliasFanoBuilder.extend c' b' vs ∧
        GenFn.EliasFanoBuilder.push c b' v = GenFn.EliasFanoBuilder.push c' b' v := by
  obtain ⟨n1, g1⟩ := generated_eq_model c u m hu hsz
  obtain ⟨n2, g2⟩ := generated_eq_model c' u m hu hsz
  refine ⟨by rw [n1, n2], fun b hb hist => ?_⟩
  have hb' : EFB.new u m = some b := by
    rw [n1] at hb
    cases hnew : EFB.new u m with
    | none => rw [hnew] at hb; cases hb
    | some b1 =>
      rw [hnew] at hb
      injection hb with hb; injection hb with hb
      rw [hb]
  obtain ⟨r1, s1⟩ := g1 b hb' hist
  obtain ⟨r2, s2⟩ := g2 b hb' hist
  refine ⟨by rw [r1, r2], fun b' r hr vs v => ?_⟩
  rw [r1] at hr
  cases hrun : EFB.run b hist with
  | error e => rw [hrun] at hr; cases hr
  | ok p =>
    rw [hrun] at hr
    injection hr with hr; injection hr with hr1 hr2
    have hp : EFB.run b hist = .ok (b', p.2) := by rw [hrun, ← hr1]
    obtain ⟨x1, y1⟩ := s1 b' p.2 hp vs v
    obtain ⟨x2, y2⟩ := s2 b' p.2 hp vs v
    exact ⟨by rw [x1, x2], by rw [y1, y2]⟩

/-! ### non-vacuity -/
-- the size hypothesis on a concrete instance; a history with all three kinds of rejection
-- (5 after 7: decreasing; 12: outside the universe; the last 9: capacity 3 exhausted)
example : (3 : Nat) + (10 >>> lowLenOf 10 3) + 2 + 64 < 2^64 := by decide
example : verdicts 10 3 [] [2, 7, 5, 12, 7, 9] = [true, true, false, false, true, false] ∧
    accepted 10 3 [] [2, 7, 5, 12, 7, 9] = [2, 7, 7] := by decide
-- closed evaluation of the generated functions on that history (checked build)
example : ((GenFn.EliasFanoBuilder.new ⟨true, false⟩ 10 3).bind fun r => (RS.unwrapRes r).bind fun b0 =>
      (genRun ⟨true, false⟩ b0 [2, 7, 5, 12, 7, 9]).bind fun r => .ok (r.2, r.1.pos, r.1.last))
    = .ok ([.ok (), .ok (), .err, .err, .ok (), .err], 3, 7) := by rfl
example : GenFn.EliasFanoBuilder.new ⟨false, true⟩ 10 0 = .ok RS.Res.err := by rfl
end Sucds.C16Gen
