import Sucds.Proofs.C04GenAux
/-! # C16 over the definitions *generated from the Rust sources* (`src/mii_sequences/elias_fano.rs`)

`Props/C16.lean` with every model function replaced by the generated one: `GenFn.EliasFanoBuilder.{new, push, extend,
universe, num_vals, build}` and, for the read-back, `GenFn.EliasFano.{enable_rank, len, universe, select}`. A push
history is run by `GenEq.genRun` (a fold calling the generated `push`, see `genRun_def`); `Result<()>` verdicts are
`RS.Res Unit` (`GenEq.resU true = Ok(())`, `resU false = Err`).

Clauses, as in `Props/C16.lean` (statement and side theorems there): `new(u, 0)` is rejected; a rejected push returns
`Err` and the builder unchanged; for every `u < 2^64`, `m ≥ 1` and **every** push history: no panic, the verdicts are
the greedy acceptance, the final builder holds exactly the accepted values (`EFB.Holds`), pushing an unacceptable value
is a no-op, `extend` is the push loop stopped at the first rejected item, and `build()` — of the builder after the
history, and of the builder after a further `extend` — yields exactly the accepted values with universe `u`, read back
through `len`, `universe` and `select` (as built, and after `enable_rank()`; `ReadsBack`). Every other query of the
built sequence is in `Props/C04Gen.lean`.

Hypotheses added, with `low_len = GenEq.lowLenOf u m = ⌊log2 (u / m)⌋`:
* builder clauses: `m + (u >> low_len) + 2 + 64 < 2^64` — the length of the high-bit vector allocated by `new`,
  rounded up to words, is a `usize` (checked additions in the code, unbounded `Nat` in the model);
* `build()` clauses: `m + (u >> low_len) + 2 < 2^63` — that length is below `2^63`, because `DArray` stores bit
  positions as `isize` (the hypothesis of `C02Gen`). It implies the first bound.
Since `u >> low_len < 2 * m`, `3 * m + 2 < 2^63` implies both (`holds_simple`). -/
namespace Sucds.C16Gen
open Sucds Sucds.Spec Sucds.EFB Sucds.EFQ
open Sucds.GenEq (genRun resU lowLenOf)

/-- the generated history runner: `push` after `push`, collecting the results -/
theorem genRun_def (c : Cfg) (b : EFB) (v : Nat) (vs : List Nat) :
    genRun c b [] = .ok (b, []) ∧
    genRun c b (v :: vs) = (GenFn.EliasFanoBuilder.push c b v).bind fun r =>
      (genRun c r.1 vs).bind fun rr => .ok (rr.1, r.2 :: rr.2) := ⟨rfl, rfl⟩

/-- "`v` is acceptable after `acc`": `≥` the last accepted value, `< u`, fewer than `m` accepted (the test of
    `C16.verdict_meaning`) -/
def Acceptable (u m : Nat) (acc : List Nat) (v : Nat) : Prop := acc.getLast?.getD 0 ≤ v ∧ v < u ∧ acc.length < m
instance (u m : Nat) (acc : List Nat) (v : Nat) : Decidable (Acceptable u m acc v) := by unfold Acceptable; infer_instance

/-- `build()` of the builder `b` succeeds and yields exactly `xs` with universe `u`, read back through `len`,
    `universe`, `select` — on the sequence as built (`e0`) and after `enable_rank()` (`e`) -/
def ReadsBack (c : Cfg) (b : EFB) (u : Nat) (xs : List Nat) : Prop :=
  ∃ e0 e, GenFn.EliasFanoBuilder.build c b = .ok e0 ∧ GenFn.EliasFano.enable_rank c e0 = .ok e ∧
    GenFn.EliasFano.len e = xs.length ∧ GenFn.EliasFano.universe e = u ∧
    (∀ k, GenFn.EliasFano.select c e k = .ok xs[k]?) ∧
    GenFn.EliasFano.len e0 = xs.length ∧ GenFn.EliasFano.universe e0 = u ∧
    (∀ k, GenFn.EliasFano.select c e0 k = .ok xs[k]?)

def Statement : Prop :=
  -- `new(u, 0)` is rejected
  (∀ (c : Cfg) (u : Nat), GenFn.EliasFanoBuilder.new c u 0 = .ok RS.Res.err) ∧
  -- a rejected push returns `Err` and the builder unchanged (any builder, no hypothesis)
  (∀ (c : Cfg) (b : EFB) (v : Nat), v < b.last ∨ b.univ ≤ v ∨ b.numVals ≤ b.pos →
    GenFn.EliasFanoBuilder.push c b v = .ok (b, RS.Res.err)) ∧
  (∀ (c : Cfg) (u m : Nat) (hist : List Nat), m ≠ 0 → u < 2^64 → m + (u >>> lowLenOf u m) + 2 + 64 < 2^64 →
    ∃ b0 b', GenFn.EliasFanoBuilder.new c u m = .ok (RS.Res.ok b0) ∧
      -- no panic, the verdicts are the greedy acceptance, the final builder holds exactly the accepted values
      genRun c b0 hist = .ok (b', (verdicts u m [] hist).map resU) ∧
      Holds b' (accepted u m [] hist) ∧
      GenFn.EliasFanoBuilder.universe b' = u ∧ GenFn.EliasFanoBuilder.num_vals b' = m ∧
      -- from there, a push of an unacceptable value is a no-op
      (∀ v, ¬ Acceptable u m (accepted u m [] hist) v → GenFn.EliasFanoBuilder.push c b' v = .ok (b', RS.Res.err)) ∧
      -- `build()` yields exactly the accepted values with universe `u`
      (m + (u >>> lowLenOf u m) + 2 < 2^63 → ReadsBack c b' u (accepted u m [] hist)) ∧
      -- and `extend` is the push loop stopped at the first rejected item, keeping the earlier ones
      (∀ vs : List Nat, ∃ b'' n, n ≤ vs.length ∧
        GenFn.EliasFanoBuilder.extend c b' vs = .ok (b'', resU (decide (n = vs.length))) ∧
        Holds b'' (accepted u m [] hist ++ vs.take n) ∧
        GenFn.EliasFanoBuilder.universe b'' = u ∧ GenFn.EliasFanoBuilder.num_vals b'' = m ∧
        (∀ v, vs[n]? = some v → ¬ Acceptable u m (accepted u m [] hist ++ vs.take n) v) ∧
        (m + (u >>> lowLenOf u m) + 2 < 2^63 → ReadsBack c b'' u (accepted u m [] hist ++ vs.take n))))

/-- rejection in terms of the builder's fields = "not acceptable" in terms of what it holds -/
theorem rejected_iff (b : EFB) (xs : List Nat) (h : Holds b xs) (v : Nat) :
    (v < b.last ∨ b.univ ≤ v ∨ b.numVals ≤ b.pos) ↔ ¬ Acceptable b.univ b.numVals xs v := by
  unfold Acceptable
  rw [h.last, h.pos]
  omega

/-- the read-back of a builder reached by a generated history -/
theorem readsBack_of_good (c : Cfg) (u m : Nat) (b : EFB) (xs : List Nat) (g : GenEq.EFGood u m b xs) (hu : u < 2^64)
    (hsz : m + (u >>> lowLenOf u m) + 2 < 2^63) : ReadsBack c b u xs := by
  obtain ⟨e0, e, k1, k2, _, _, A, _, _, _, k5, k6, k7, _⟩ := GenEq.ef_good_built c c u m b xs g hu hsz
  exact ⟨e0, e, k1, k2, A.len, A.univ, A.select, k5, k6, k7⟩

theorem holds : Statement := by
  refine ⟨GenEq.gen_new_zero, GenEq.gen_rejected_push_no_effect, ?_⟩
  intro c u m hist hm hu hsz
  obtain ⟨b0, b', g', hn, hr⟩ := GenEq.ef_hist_good u m hist hm hu hsz
  have hu' : b'.univ = u := g'.univ
  have hm' : b'.numVals = m := g'.cap
  refine ⟨b0, b', hn c, hr c, g'.holds, hu', hm', fun v hv => ?_, fun h63 => readsBack_of_good c u m b' _ g' hu h63,
    fun vs => ?_⟩
  · exact GenEq.gen_rejected_push_no_effect c b' v ((rejected_iff b' _ g'.holds v).2 (by rw [hu', hm']; exact hv))
  · obtain ⟨b'', n, hn', g'', he, hrej⟩ := GenEq.ef_extend_good u m b' _ g' vs
    have hu'' : b''.univ = u := g''.univ
    have hm'' : b''.numVals = m := g''.cap
    refine ⟨b'', n, hn', he c, g''.holds, hu'', hm'', fun v hv => ?_, fun h63 => readsBack_of_good c u m b'' _ g'' hu h63⟩
    have := (rejected_iff b'' _ g''.holds v).1 (hrej v hv)
    rw [hu'', hm''] at this
    exact this

/-- the same under the simple size bound `3 * m + 2 < 2^63`: builder facts and read-back of `build()` -/
theorem holds_simple (c : Cfg) (u m : Nat) (hist : List Nat) (hm : m ≠ 0) (hu : u < 2^64) (hm3 : 3 * m + 2 < 2^63) :
    ∃ b0 b', GenFn.EliasFanoBuilder.new c u m = .ok (RS.Res.ok b0) ∧
      genRun c b0 hist = .ok (b', (verdicts u m [] hist).map resU) ∧ Holds b' (accepted u m [] hist) ∧
      GenFn.EliasFanoBuilder.universe b' = u ∧ GenFn.EliasFanoBuilder.num_vals b' = m ∧
      ReadsBack c b' u (accepted u m [] hist) := by
  have := GenEq.shr_lowLen_lt u m hm
  obtain ⟨b0, b', h1, h2, h3, h4, h5, _, h7, _⟩ := holds.2.2 c u m hist hm hu (by omega)
  exact ⟨b0, b', h1, h2, h3, h4, h5, h7 (by omega)⟩

/-- the verdicts are the greedy acceptance (`C16.verdict_meaning`, a fact about the specification) -/
theorem verdict_meaning (u m : Nat) (acc : List Nat) (v : Nat) (vs : List Nat) :
    verdicts u m acc (v :: vs) =
      (if Acceptable u m acc v then true :: verdicts u m (acc ++ [v]) vs else false :: verdicts u m acc vs) := rfl

/-- the generated builder functions are the model's (same value, same panic, every configuration) -/
theorem generated_eq_model (c : Cfg) (u m : Nat) (hu : u < 2^64) (hsz : m ≠ 0 → m + (u >>> lowLenOf u m) + 2 + 64 < 2^64) :
    GenFn.EliasFanoBuilder.new c u m = .ok (GenEq.resOpt (EFB.new u m)) ∧
    ∀ b, EFB.new u m = some b → ∀ hist,
      genRun c b hist = (EFB.run b hist).map (fun r => (r.1, r.2.map resU)) ∧
      ∀ b' r, EFB.run b hist = .ok (b', r) → ∀ vs v,
        GenFn.EliasFanoBuilder.extend c b' vs = (EFB.extend b' vs).map GenEq.resB ∧
        GenFn.EliasFanoBuilder.push c b' v = (b'.push v).map GenEq.resB ∧
        (b'.high.len < 2^63 → GenFn.EliasFanoBuilder.build c b' = .ok (EF.ofBuilder c b')) := by
  refine ⟨GenEq.efb_new_eq c u m hu hsz, fun b hb hist => ?_⟩
  have hm : m ≠ 0 := by
    intro h0; subst h0; rw [new_zero] at hb; cases hb
  have hf : GenEq.Fits b := GenEq.fits_new u m b hu hb (by have := hsz hm; omega)
  obtain ⟨e1, e2⟩ := GenEq.genRun_eq c hist b hf
  exact ⟨e1, fun b' r hr vs v => ⟨GenEq.efb_extend_eq c b' (e2 b' r hr) vs, GenEq.efb_push_eq c b' (e2 b' r hr) v,
    fun hl => GenEq.ef_build_eq c b' hl⟩⟩

/-- configuration independence of the generated builder: `new`, any push history, then `extend`, `push`, and the
    sequence `build()` + `enable_rank()` returns with what it reads back -/
theorem config_independent (c c' : Cfg) (u m : Nat) (hist : List Nat) (hm : m ≠ 0) (hu : u < 2^64)
    (hsz : m + (u >>> lowLenOf u m) + 2 + 64 < 2^64) :
    ∃ b0 b' r, GenFn.EliasFanoBuilder.new c u m = .ok (RS.Res.ok b0) ∧ GenFn.EliasFanoBuilder.new c' u m = .ok (RS.Res.ok b0) ∧
      genRun c b0 hist = .ok (b', r) ∧ genRun c' b0 hist = .ok (b', r) ∧
      (∀ vs, GenFn.EliasFanoBuilder.extend c b' vs = GenFn.EliasFanoBuilder.extend c' b' vs) ∧
      (∀ v, GenFn.EliasFanoBuilder.push c b' v = GenFn.EliasFanoBuilder.push c' b' v) ∧
      (m + (u >>> lowLenOf u m) + 2 < 2^63 →
        ∃ e0 e, GenFn.EliasFanoBuilder.build c b' = .ok e0 ∧ GenFn.EliasFanoBuilder.build c' b' = .ok e0 ∧
          GenFn.EliasFano.enable_rank c e0 = .ok e ∧ GenFn.EliasFano.enable_rank c' e0 = .ok e ∧
          (∀ k, GenFn.EliasFano.select c e k = GenFn.EliasFano.select c' e k) ∧
          (∀ k, GenFn.EliasFano.select c e0 k = GenFn.EliasFano.select c' e0 k)) := by
  obtain ⟨b0, b', g', hn, hr⟩ := GenEq.ef_hist_good u m hist hm hu hsz
  refine ⟨b0, b', _, hn c, hn c', hr c, hr c', fun vs => ?_, fun v => ?_, fun h63 => ?_⟩
  · rw [GenEq.efb_extend_eq c b' g'.fits vs, GenEq.efb_extend_eq c' b' g'.fits vs]
  · rw [GenEq.efb_push_eq c b' g'.fits v, GenEq.efb_push_eq c' b' g'.fits v]
  · obtain ⟨e0, e, k1, k2, j1, j2, A, A', _, _, _, _, s, s'⟩ := GenEq.ef_good_built c c' u m b' _ g' hu h63
    exact ⟨e0, e, k1, j1, k2, j2, fun k => by rw [A.select, A'.select], fun k => by rw [s, s']⟩

/-! ### non-vacuity -/
-- the size hypotheses on a concrete instance; a history with all three kinds of rejection
-- (5 after 7: decreasing; 12: outside the universe; the last 9: capacity 3 exhausted)
example : (3 : Nat) + (10 >>> lowLenOf 10 3) + 2 + 64 < 2^64 ∧ (3 : Nat) + (10 >>> lowLenOf 10 3) + 2 < 2^63 := by decide
example : verdicts 10 3 [] [2, 7, 5, 12, 7, 9] = [true, true, false, false, true, false] ∧
    accepted 10 3 [] [2, 7, 5, 12, 7, 9] = [2, 7, 7] := by decide
-- closed evaluation of the generated functions on that history (checked build)
example : ((GenFn.EliasFanoBuilder.new ⟨true, false⟩ 10 3).bind fun r => (RS.unwrapRes r).bind fun b0 =>
      (genRun ⟨true, false⟩ b0 [2, 7, 5, 12, 7, 9]).bind fun r => .ok (r.2, r.1.pos, r.1.last))
    = .ok ([.ok (), .ok (), .err, .err, .ok (), .err], 3, 7) := by rfl
example : GenFn.EliasFanoBuilder.new ⟨false, true⟩ 10 0 = .ok RS.Res.err := by rfl
-- … and of the generated `build()` and read-back (`Except` has no `DecidableEq`, `Option` has)
example : ((GenFn.EliasFanoBuilder.new ⟨true, false⟩ 10 3).bind fun r => (RS.unwrapRes r).bind fun b0 =>
      (genRun ⟨true, false⟩ b0 [2, 7, 5, 12, 7, 9]).bind fun r => (GenFn.EliasFanoBuilder.build ⟨true, false⟩ r.1).bind fun e0 =>
      (GenFn.EliasFano.select ⟨true, false⟩ e0 0).bind fun x0 => (GenFn.EliasFano.select ⟨true, false⟩ e0 1).bind fun x1 =>
      (GenFn.EliasFano.select ⟨true, false⟩ e0 2).bind fun x2 => (GenFn.EliasFano.select ⟨true, false⟩ e0 3).bind fun x3 =>
      .ok (GenFn.EliasFano.len e0, GenFn.EliasFano.universe e0, [x0, x1, x2, x3])).toOption
    = some (3, 10, [some 2, some 7, some 7, none]) := by decide +kernel
end Sucds.C16Gen
