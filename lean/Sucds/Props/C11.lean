import Sucds.Proofs.DacsAccess
import Sucds.Proofs.IndexIter
/-! # C11 — DacsByte is lossless for every input

For every build configuration and every list of `usize` values: the model of `DacsByte::from_slice` (always
`Ok` for `usize` input; the builder cannot panic) returns `access(i) = vals[i]` for `i < n` and `None` for
every other `i`, reports `len = n`, iterates the input in order, and has exactly `⌈bitlen(max)/8⌉` levels of
8 bits — one level for empty or all-zero input. -/
namespace Sucds.C11
open Sucds

def Statement : Prop :=
  ∀ (c : Cfg) (vals : List Nat), (∀ v ∈ vals, v < 2^64) →
    (∀ i, (DacB.fromSlice c vals).access c i = .ok vals[i]?) ∧
    (DacB.fromSlice c vals).len = .ok vals.length ∧
    (DacB.fromSlice c vals).numLevels = (if vals.isEmpty then 1 else (bitlen (vals.foldl max 0) + 7) / 8) ∧
    (DacB.fromSlice c vals).widths = List.replicate (DacB.levels vals) 8

theorem holds : Statement := fun c vals hv =>
  ⟨DacB.access_ok c vals hv, DacB.len_ok c vals hv, DacB.numLevels_ok c vals hv, DacB.widths_ok c vals hv⟩

/-- all-zero input has one level: the bit length of 0 is 1 -/
example : DacB.levels [0, 0, 0] = 1 := by decide
example : DacB.levels [] = 1 := by decide
example : DacB.levels [255, 256] = 2 := by decide

theorem iteration (vals : List Nat) (acc : Nat → Option Nat) (hacc : ∀ i, acc i = vals[i]?) (n : Nat) :
    IndexIter.runN vals.length acc ⟨0⟩ n =
      (List.range n).map (fun j => (vals[0 + j]?, (vals.length - (0 + j), some (vals.length - (0 + j))))) :=
  IndexIter.runN_spec vals acc (fun i _ => hacc i) n 0 (Nat.zero_le _)
end Sucds.C11
