import Sucds.Proofs.DacLevels
/-! # C11 — DacsByte is lossless (partial): the level walk of `access` is lossless for arbitrary widths,
    hence for eight levels of 8 bits; glue to `DacB.fromSlice`/`DacB.access` missing. -/
namespace Sucds.C11
open Sucds
theorem sum_replicate (k w : Nat) : (List.replicate k w).sum = k * w := by
  induction k with
  | zero => simp
  | succ n ih => simp [List.replicate_succ, ih, Nat.succ_mul, Nat.add_comm]

theorem walk_lossless_bytes (k : Nat) (vs : List Nat) (pos : Nat) (hk : k ≠ 0) (hp : pos < vs.length)
    (hv : ∀ v ∈ vs, v < 2^(8 * k)) : Dac.walk (List.replicate k 8) vs pos = vs[pos]! := by
  apply Dac.walk_ok _ _ _ _ hp
  · intro v hv'; have := hv v hv'; simpa [sum_replicate, Nat.mul_comm] using this
  · intro h; exact hk (by simpa using congrArg List.length h)
end Sucds.C11
