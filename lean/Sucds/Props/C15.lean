import Sucds.Proofs.ConfigQueries
import Sucds.Proofs.ConfigBytes
import Sucds.Proofs.ConfigEF
/-! # C15 — results do not depend on build configuration

A build configuration is `c : Cfg` = (overflow checks + debug assertions on/off, `intrinsics` feature on/off); every
model function whose Rust original depends on the build takes `c`. For **every pair** `c c'`:

* **Builders produce the same value** — hence the same serialized bytes and the same answers to every later
  query: `R9.build`, `DA.build`, `EF.ofBuilder`/`enableRank`, `SA.fromBV`, `DacB.fromSlice`, `DacO.fromSlice`,
  `PS.fromSlice`, `WM.new` (`Config.*_cfg`), with the byte-level corollaries `Config.bytes_*` (`codec.put` and
  `codec.size` equal). `BitVector` and `CompactVector` constructors/mutators do not depend on the build at all.
* **Queries answer the same** on in-contract workloads, for every argument: one corollary per property
  (`Config.c01` … `Config.c17`), each obtained from `Cxx.holds c` and `Cxx.holds c'` — the right-hand sides of the
  full statements do not mention the configuration. In particular every result is `.ok _` in *both* checked
  configurations: no overflow check and no debug assertion can fire, and no answer depends on wrapping arithmetic.
  `binsearch`/`binsearch_range`, which C04 only pins down up to the choice among equal values, are shown to be a
  function of the stored list alone (`Config.c04_binsearch`).
* The primitives themselves: C14 (`config_independent`).
The statement below is the conjunction of these theorems' statements (their full texts are in
`Sucds/Proofs/ConfigQueries.lean`, `ConfigBytes.lean`, `ConfigEF.lean`, `ConfigPrim.lean`, `ConfigBuild.lean`). -/
namespace Sucds.C15
open Sucds Sucds.Config

def Statement : Prop :=
  -- primitives
  (∀ (c c' : Cfg) (w k : Nat), popcountN c w = popcountN c' w ∧ selectInWordN c w k = selectInWordN c' w k ∧
      lsbW c w = lsbW c' w ∧ msbW c w = msbW c' w) ∧
  -- builders as values
  (∀ (c c' : Cfg) (bv : BV), bv.Inv → ∀ h1 h0, R9.build c bv h1 h0 = R9.build c' bv h1 h0) ∧
  (∀ (c c' : Cfg) (bv : BV) (r s0 : Bool), DA.build c bv r s0 = DA.build c' bv r s0) ∧
  (∀ (c c' : Cfg) (b : EFB), EF.ofBuilder c b = EF.ofBuilder c' b) ∧
  (∀ (c c' : Cfg) (bv : BV), SA.fromBV c bv = SA.fromBV c' bv) ∧
  (∀ (c c' : Cfg) (vals : List Nat), DacB.fromSlice c vals = DacB.fromSlice c' vals) ∧
  (∀ (c c' : Cfg) (vals : List Nat) (ml : Option Nat), DacO.fromSlice c vals ml = DacO.fromSlice c' vals ml) ∧
  (∀ (c c' : Cfg) (vals : List Nat), vals.sum + 1 < 2^64 → PS.fromSlice c vals = PS.fromSlice c' vals) ∧
  (∀ (c c' : Cfg) (k : Backing) (s : List Nat), s.foldl max 0 + 1 < 2^64 → WM.new c k s = WM.new c' k s) ∧
  -- queries, one corollary per property
  (type_of% @Config.c01) ∧ (type_of% @Config.c02) ∧ (type_of% @Config.c03) ∧ (type_of% @Config.c04) ∧
  (type_of% @Config.c04_binsearch) ∧ (type_of% @Config.c05) ∧ (type_of% @Config.c06) ∧ (type_of% @Config.c07) ∧
  (type_of% @Config.c09) ∧ (type_of% @Config.c10) ∧ (type_of% @Config.c11) ∧ (type_of% @Config.c12) ∧
  (type_of% @Config.c17)

theorem holds : Statement :=
  ⟨fun c c' w k => ⟨popcountN_cfg c c' w, selectInWordN_cfg c c' w k, lsbW_cfg c c' w, msbW_cfg c c' w⟩,
   fun c c' bv h h1 h0 => R9_build_cfg c c' bv h h1 h0,
   fun c c' bv r s0 => DA_build_cfg c c' bv r s0,
   fun c c' b => EF_ofBuilder_cfg c c' b,
   fun c c' bv => SA_fromBV_cfg c c' bv,
   fun c c' vals => DacB_fromSlice_cfg c c' vals,
   fun c c' vals ml => DacO_fromSlice_cfg c c' vals ml,
   fun c c' vals hs => PS_fromSlice_cfg c c' vals hs,
   fun c c' k s hm => WM_new_cfg c c' k s hm,
   @Config.c01, @Config.c02, @Config.c03, @Config.c04, @Config.c04_binsearch, @Config.c05, @Config.c06, @Config.c07,
   @Config.c09, @Config.c10, @Config.c11, @Config.c12, @Config.c17⟩

/-- serialized bytes (and `size_in_bytes`) are configuration independent -/
theorem bytes_rank9sel : type_of% (@Config.bytes_R9) := @Config.bytes_R9
theorem bytes_darray : type_of% (@Config.bytes_DA) := @Config.bytes_DA
theorem bytes_elias_fano : type_of% (@Config.bytes_EF) := @Config.bytes_EF
theorem bytes_sarray : type_of% (@Config.bytes_SA) := @Config.bytes_SA
theorem bytes_dacs_byte : type_of% (@Config.bytes_DacB) := @Config.bytes_DacB
theorem bytes_dacs_opt : type_of% (@Config.bytes_DacO) := @Config.bytes_DacO
theorem bytes_psef : type_of% (@Config.bytes_PS) := @Config.bytes_PS
theorem bytes_wavelet_matrix : type_of% (@Config.bytes_WM) := @Config.bytes_WM
end Sucds.C15
