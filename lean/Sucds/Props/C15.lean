import Sucds.Props.C14
import Sucds.Props.C01
import Sucds.Props.C07
/-! # C15 — results do not depend on build configuration (partial)

Every query theorem of the other properties has the form `∀ cfg, f cfg s a = .ok (spec s a)` with a
right-hand side that does not mention `cfg`; configuration independence (and freedom from overflow
panics and debug assertions) for those operations are corollaries, collected here as they are proved. -/
namespace Sucds.C15
open Sucds Sucds.Spec
theorem primitives : type_of% (@C14.config_independent) := @C14.config_independent

theorem rank9_rank1 (c c' : Cfg) (bv : BV) (h : bv.Inv) (pos : Nat) :
    (R9Index.buildRank c bv).rank1 c bv pos = (R9Index.buildRank c' bv).rank1 c' bv pos := by
  rw [R9Index.rank1_ok c bv h pos, R9Index.rank1_ok c' bv h pos]
theorem rank9_select1 (c c' : Cfg) (bv : BV) (h : bv.Inv) (k : Nat) :
    R9Index.select1 c (R9Index.buildRank c bv) bv k = R9Index.select1 c' (R9Index.buildRank c' bv) bv k := by
  rw [R9Index.select1_nohints_ok c bv h k, R9Index.select1_nohints_ok c' bv h k]
theorem bitvector_scans (c c' : Cfg) (b : BV) (h : b.Inv) (a : Nat) :
    b.rank1 c a = b.rank1 c' a ∧ b.rank0 c a = b.rank0 c' a ∧ b.select1 c a = b.select1 c' a := by
  refine ⟨?_, ?_, ?_⟩
  · rw [BV.rank1_ok c b h a, BV.rank1_ok c' b h a]
  · rw [BV.rank0_ok c b h a, BV.rank0_ok c' b h a]
  · rw [BV.select1_ok c b h a, BV.select1_ok c' b h a]
end Sucds.C15
