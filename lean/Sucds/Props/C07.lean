import Sucds.Proofs.BitVectorHistory
import Sucds.Proofs.BitVectorSelect
import Sucds.Proofs.BitVectorFromBit
import Sucds.Proofs.BitVectorSelect0
import Sucds.Proofs.BitVectorPredSucc
import Sucds.Proofs.UnaryIter
import Sucds.Proofs.IndexIter
/-! # C07 — BitVector is a faithful, canonical list of bits under any mutation history

`Valid b` is the representation invariant (`⌈len/64⌉` words, all `< 2^64`, zero padding above `len`).
* **Constructors** produce valid vectors holding the intended bits (`from_bits`, `from_bit`, `new`).
* **Histories**: from a valid vector, every sequence of `push_bit` / `push_bits` / `set_bit` / `set_bits` /
  `extend` with arbitrary operands (chunk lengths 0..=65 and beyond, garbage above the chunk length,
  positions anywhere) never panics, answers `Ok`/`Err` exactly as the list semantics `specApply` says
  (`Err` for chunk longer than 64 or range beyond the end), keeps the vector valid, refines the list
  semantics, and a rejected operation returns the vector unchanged.
* **Reads** on any valid vector, for every argument: `get_bit`, `get_bits(pos, len)` for every `(pos, len)`,
  `get_word64`, `rank1/0`, `select1/0`, `predecessor1/0`, `successor1/0`, `num_ones` and iteration equal the
  list, with `None` exactly out of range, in every build configuration.
* **Canonical**: two valid vectors holding the same bits are equal (the derived `PartialEq` is structural). -/
namespace Sucds.C07
open Sucds Sucds.Spec Sucds.BV

abbrev Valid (b : BV) : Prop := b.Inv

/-- reads of a valid vector equal the list semantics -/
structure ReadsOK (c : Cfg) (b : BV) : Prop where
  len      : b.toList.length = b.len
  get_bit  : ∀ pos, b.getBit pos = .ok (if pos < b.len then some (b.bitAt pos) else none)
  get_bits : ∀ pos len, (len ≤ 64 ∧ pos + len ≤ b.len →
                ∃ v, b.getBits pos len = .ok (some v) ∧ ∀ j, v.testBit j = (decide (j < len) && b.bitAt (pos + j))) ∧
              (¬ (len ≤ 64 ∧ pos + len ≤ b.len) → b.getBits pos len = .ok none)
  get_word64 : ∀ pos, (pos < b.len →
                ∃ v, b.getWord64 pos = .ok (some v) ∧ ∀ j, v.testBit j = (decide (j < 64) && b.bitAt (pos + j))) ∧
              (b.len ≤ pos → b.getWord64 pos = .ok none)
  rank1    : ∀ pos, b.rank1 c pos = .ok (if pos ≤ b.len then some (cnt b.bitAt pos) else none)
  rank0    : ∀ pos, b.rank0 c pos = .ok (if pos ≤ b.len then some (pos - cnt b.bitAt pos) else none)
  select1  : ∀ k, b.select1 c k = .ok (sel b.bitAt b.len k)
  select0  : ∀ k, b.select0 c k = .ok (sel (fun i => !b.bitAt i) b.len k)
  pred1    : ∀ pos, b.predecessor1 c pos = .ok (if pos < b.len then predP b.bitAt pos else none)
  pred0    : ∀ pos, b.predecessor0 c pos = .ok (if pos < b.len then predP (fun i => !b.bitAt i) pos else none)
  succ1    : ∀ pos, b.successor1 c pos = .ok (if pos < b.len then succP b.bitAt b.len pos else none)
  succ0    : ∀ pos, b.successor0 c pos = .ok (if pos < b.len then succP (fun i => !b.bitAt i) b.len pos else none)
  num_ones : b.numOnes c = .ok (cnt b.bitAt b.len)

theorem reads_ok (c : Cfg) (b : BV) (h : Valid b) : ReadsOK c b where
  len := toList_length b
  get_bit := getBit_ok b h
  get_bits pos len := ⟨fun hr => getBits_ok b h pos len hr.1 hr.2, getBits_none b pos len⟩
  get_word64 pos := ⟨getWord64_ok b h pos, getWord64_none b pos⟩
  rank1 := rank1_ok c b h
  rank0 := rank0_ok c b h
  select1 := select1_ok c b h
  select0 := select0_ok c b h
  pred1 := predecessor1_ok c b h
  pred0 := predecessor0_ok c b h
  succ1 := successor1_ok c b h
  succ0 := successor0_ok c b h
  num_ones := numOnes_ok c b h

def Statement : Prop :=
  -- constructors
  (Valid BV.new ∧ BV.new.toList = []) ∧
  (∀ xs : List Bool, Valid (fromBits xs) ∧ (fromBits xs).toList = xs) ∧
  (∀ bit len, Valid (fromBit bit len) ∧ (fromBit bit len).len = len ∧ ∀ i, (fromBit bit len).bitAt i = (decide (i < len) && bit)) ∧
  -- one operation: verdict, refinement, no effect when rejected
  (∀ (b : BV), Valid b → ∀ op : Op,
    ∃ b', b.apply op = .ok (b', (specApply b.toList op).2) ∧ Valid b' ∧ b'.toList = (specApply b.toList op).1 ∧
      ((specApply b.toList op).2 = false → b' = b)) ∧
  -- every history
  (∀ (ops : List Op) (b : BV), Valid b →
    ∃ b', run b ops = .ok b' ∧ Valid b' ∧ b'.toList = ops.foldl (fun l op => (specApply l op).1) b.toList) ∧
  -- reads
  (∀ (c : Cfg) (b : BV), Valid b → ReadsOK c b) ∧
  -- canonical equality
  (∀ a b : BV, Valid a → Valid b → a.toList = b.toList → a = b)

theorem holds : Statement :=
  ⟨⟨new_inv, new_toList⟩, fromBits_spec, fromBit_spec, apply_spec, run_spec, reads_ok, eq_of_toList⟩

/-- `toList` is the list of the stored bits: element `i` is `bitAt i` -/
theorem toList_getElem (b : BV) (i : Nat) (hi : i < b.len) : b.toList[i]? = some (b.bitAt i) := by
  simp [toList, hi]

/-- iteration (`Iter`: `next` = `access(pos)` then `pos += 1`; `size_hint` = remaining): yields the bits in
    order and then `None` forever, with exact size hints -/
theorem iteration (b : BV) (h : Valid b) (n : Nat) :
    IndexIter.runN b.toList.length (fun i => if i < b.len then some (b.bitAt i) else none) ⟨0⟩ n =
      (List.range n).map (fun j => (b.toList[0 + j]?, (b.toList.length - (0 + j), some (b.toList.length - (0 + j))))) := by
  apply IndexIter.runN_spec b.toList _ _ n 0 (Nat.zero_le _)
  intro i hi
  rw [toList_length] at hi
  simp [hi, toList_getElem b i hi]

/-- histories producing the same bits produce equal values -/
theorem canonical (ops ops' : List Op) (b0 b0' b b' : BV) (h0 : Valid b0) (h0' : Valid b0')
    (hr : run b0 ops = .ok b) (hr' : run b0' ops' = .ok b')
    (heq : ops.foldl (fun l op => (specApply l op).1) b0.toList = ops'.foldl (fun l op => (specApply l op).1) b0'.toList) :
    b = b' := run_canonical ops ops' b0 b0' b b' h0 h0' hr hr' heq

-- non-vacuity: a rejected operation in the list semantics (chunk of 65 bits), and a valid start
example : (specApply [true, false] (.pushBits 7 65)).2 = false := by decide
example : Valid (fromBits [true, false, true]) := (fromBits_spec _).1
end Sucds.C07
