import Sucds.Proofs.BitVectorHistory
import Sucds.Proofs.BitVectorSelect
import Sucds.Proofs.BitVectorFromBit
/-! # C07 — BitVector is a faithful, canonical list of bits under any mutation history (partial)

Proved: every history of `push_bit`/`push_bits`/`set_bit`/`set_bits`/`extend` from a valid vector never
panics, keeps the representation invariant and refines the list semantics, rejected operations change
nothing (`histories`); equal contents give equal values whatever the histories (`canonical`); the
constructors are valid; `get_bit`, `get_bits` for every `(pos, len)`, `get_word64`, `rank1`, `rank0`,
`select1` equal the list semantics with `None` exactly out of range. Missing for the full statement:
`select0`, `predecessor*`, `successor*` scans and the iterator. -/
namespace Sucds.C07
open Sucds Sucds.Spec Sucds.BV

theorem histories : ∀ (ops : List Op) (b : BV), b.Inv →
    ∃ b', run b ops = .ok b' ∧ b'.Inv ∧ b'.toList = ops.foldl (fun l op => (specApply l op).1) b.toList :=
  run_spec

theorem canonical (ops ops' : List Op) (b0 b0' b b' : BV) (h0 : b0.Inv) (h0' : b0'.Inv)
    (hr : run b0 ops = .ok b) (hr' : run b0' ops' = .ok b')
    (heq : ops.foldl (fun l op => (specApply l op).1) b0.toList = ops'.foldl (fun l op => (specApply l op).1) b0'.toList) :
    b = b' := run_canonical ops ops' b0 b0' b b' h0 h0' hr hr' heq

theorem from_bits (xs : List Bool) : (fromBits xs).Inv ∧ (fromBits xs).toList = xs := fromBits_spec xs

theorem get_bit (b : BV) (h : b.Inv) (pos : Nat) :
    b.getBit pos = .ok (if pos < b.len then some (b.bitAt pos) else none) := getBit_ok b h pos

theorem get_bits_in_range (b : BV) (h : b.Inv) (pos len : Nat) (hl : len ≤ 64) (hr : pos + len ≤ b.len) :
    ∃ v, b.getBits pos len = .ok (some v) ∧ ∀ j, v.testBit j = (decide (j < len) && b.bitAt (pos + j)) :=
  getBits_ok b h pos len hl hr
theorem get_bits_out_of_range (b : BV) (pos len : Nat) (h : ¬ (len ≤ 64 ∧ pos + len ≤ b.len)) :
    b.getBits pos len = .ok none := getBits_none b pos len h

theorem rank1 (c : Cfg) (b : BV) (h : b.Inv) (pos : Nat) :
    b.rank1 c pos = .ok (if pos ≤ b.len then some (cnt b.bitAt pos) else none) := rank1_ok c b h pos
theorem rank0 (c : Cfg) (b : BV) (h : b.Inv) (pos : Nat) :
    b.rank0 c pos = .ok (if pos ≤ b.len then some (pos - cnt b.bitAt pos) else none) := rank0_ok c b h pos
theorem select1 (c : Cfg) (b : BV) (h : b.Inv) (k : Nat) : b.select1 c k = .ok (sel b.bitAt b.len k) := select1_ok c b h k

-- a history with a rejected operation, from the empty vector
example : (BV.new).Inv := new_inv
end Sucds.C07
