import Sucds.Proofs.GenRank9Sel
import Sucds.Proofs.ConfigPrim
/-! # C01 over the definitions *generated from the Rust sources* of `Rank9Sel`

`Props/C01.lean` states C01 about the hand-written model `R9`. Here the same clauses are stated about
`Sucds.GenFn.Rank9Sel.*` and everything below them (`BitVector::from_bits`, `Rank9SelIndex::{new, build_select1,
build_select0, rank1, rank0, select1, select0, …}`, the broadword primitives), i.e. about the Lean definitions that
`tools/gen_fns.py` produces from the function bodies of `src/bit_vectors/rank9sel.rs`, `rank9sel/inner.rs`,
`bit_vector.rs`, `broadword.rs` on every run.

For every bit list `bs`, every flag triple of `Build::build_from_bits` (equivalently the explicit chain
`Rank9Sel::from_bits(bs)` [`.select1_hints()`] [`.select0_hints()`]), every build configuration `c` and every
`usize` argument: construction neither panics nor fails and the structure answers `access`/`rank1`/`rank0`/
`select1`/`select0`/`num_bits`/`num_ones`/`num_zeros` exactly like the plain bit sequence.

Hypotheses added to `C01.Statement` (both true of every Rust value that fits in memory):
* `bs.length + 1534 < 2^64` — the hint builders compute `block_rank0(num_blocks) + 512`-sized thresholds in checked
  `usize` arithmetic (finer bounds per function: `GenEq.rs_build_from_bits_eq`, `GenEq.hintRoom`);
* query arguments `i, k < 2^64` (they are `usize`); `access` needs none. -/
namespace Sucds.C01Gen
open Sucds Sucds.Spec
open Sucds.C01 (bitOf)

/-- the builder chain of the public API: `Rank9Sel::from_bits(bs)`, then `.select1_hints()` if `h1`, then
    `.select0_hints()` if `h0` -/
def viaHints (c : Cfg) (bs : List Bool) (h1 h0 : Bool) : R R9 :=
  (GenFn.Rank9Sel.from_bits c bs).bind fun x =>
  (if h1 then GenFn.Rank9Sel.select1_hints c x else .ok x).bind fun y =>
  if h0 then GenFn.Rank9Sel.select0_hints c y else .ok y

/-- C01 for the generated `Rank9Sel` (`r` is the `with_rank` flag of `Build::build_from_bits`) -/
def Statement : Prop :=
  ∀ (c : Cfg) (bs : List Bool) (r h1 h0 : Bool), bs.length + 1534 < 2^64 →
    ∃ x, GenFn.Rank9Sel.build_from_bits c bs r h1 h0 = .ok (RS.Res.ok x) ∧ viaHints c bs h1 h0 = .ok x ∧
      (∀ i, GenFn.Rank9Sel.access c x i = .ok bs[i]?) ∧
      (∀ i, i < 2^64 → GenFn.Rank9Sel.rank1 c x i = .ok (if i ≤ bs.length then some (cnt (bitOf bs) i) else none)) ∧
      (∀ i, i < 2^64 → GenFn.Rank9Sel.rank0 c x i = .ok (if i ≤ bs.length then some (i - cnt (bitOf bs) i) else none)) ∧
      (∀ k, k < 2^64 → GenFn.Rank9Sel.select1 c x k = .ok (sel (bitOf bs) bs.length k)) ∧
      (∀ k, k < 2^64 → GenFn.Rank9Sel.select0 c x k = .ok (sel (fun j => !bitOf bs j) bs.length k)) ∧
      GenFn.Rank9Sel.num_bits x = bs.length ∧ GenFn.Rank9Sel.num_ones c x = .ok (cnt (bitOf bs) bs.length) ∧
      GenFn.Rank9Sel.num_zeros c x = .ok (bs.length - cnt (bitOf bs) bs.length)

theorem holds : Statement := fun c bs r h1 h0 hl => by
  obtain ⟨x, g1, g2, a1, a2, a3, a4, a5, a6, _, _, a7, a8⟩ := GenEq.rank9sel_answers c bs r h1 h0 hl
  exact ⟨x, g1, g2, a1, a2, a3, a4, a5, a6, a7, a8⟩

/-- the generated construction yields the model's structure, and every generated query is the model's query
    (same value, same panic) -/
theorem generated_eq_model (c : Cfg) (bs : List Bool) (r h1 h0 : Bool) (hl : bs.length + 1534 < 2^64) :
    ∃ x, R9.build c (BV.fromBits bs) h1 h0 = .ok x ∧
      GenFn.Rank9Sel.build_from_bits c bs r h1 h0 = .ok (RS.Res.ok x) ∧ viaHints c bs h1 h0 = .ok x ∧
      GenEq.RsQueriesEq c x := GenEq.rank9sel_eq c bs r h1 h0 hl

/-- hints never change any answer, and neither do the `with_rank` flag or the build configuration -/
theorem hints_irrelevant (c c' : Cfg) (bs : List Bool) (r h1 h0 r' h1' h0' : Bool) (hl : bs.length + 1534 < 2^64) :
    ∃ x y, GenFn.Rank9Sel.build_from_bits c bs r h1 h0 = .ok (RS.Res.ok x) ∧
      GenFn.Rank9Sel.build_from_bits c' bs r' h1' h0' = .ok (RS.Res.ok y) ∧
      GenFn.Rank9Sel.num_bits x = GenFn.Rank9Sel.num_bits y ∧
      GenFn.Rank9Sel.num_ones c x = GenFn.Rank9Sel.num_ones c' y ∧
      GenFn.Rank9Sel.num_zeros c x = GenFn.Rank9Sel.num_zeros c' y ∧
      (∀ a, a < 2^64 → GenFn.Rank9Sel.access c x a = GenFn.Rank9Sel.access c' y a ∧
        GenFn.Rank9Sel.rank1 c x a = GenFn.Rank9Sel.rank1 c' y a ∧
        GenFn.Rank9Sel.rank0 c x a = GenFn.Rank9Sel.rank0 c' y a ∧
        GenFn.Rank9Sel.select1 c x a = GenFn.Rank9Sel.select1 c' y a ∧
        GenFn.Rank9Sel.select0 c x a = GenFn.Rank9Sel.select0 c' y a) := by
  obtain ⟨x, hx, _, a1, a2, a3, a4, a5, a6, a7, a8⟩ := holds c bs r h1 h0 hl
  obtain ⟨y, hy, _, b1, b2, b3, b4, b5, b6, b7, b8⟩ := holds c' bs r' h1' h0' hl
  exact ⟨x, y, hx, hy, by rw [a6, b6], by rw [a7, b7], by rw [a8, b8], fun a ha =>
    ⟨by rw [a1, b1], by rw [a2 a ha, b2 a ha], by rw [a3 a ha, b3 a ha], by rw [a4 a ha, b4 a ha],
     by rw [a5 a ha, b5 a ha]⟩⟩

/-- configuration independence of the generated construction and queries (C15 for `rank9sel.rs`): the structure
    built in one configuration, queried in another, gives the same answers -/
theorem config_independent (c c' : Cfg) (bs : List Bool) (r h1 h0 : Bool) (hl : bs.length + 1534 < 2^64) :
    GenFn.Rank9Sel.build_from_bits c bs r h1 h0 = GenFn.Rank9Sel.build_from_bits c' bs r h1 h0 ∧
    viaHints c bs h1 h0 = viaHints c' bs h1 h0 ∧
    ∀ x, GenFn.Rank9Sel.build_from_bits c bs r h1 h0 = .ok (RS.Res.ok x) →
      GenFn.Rank9Sel.num_ones c x = GenFn.Rank9Sel.num_ones c' x ∧
      GenFn.Rank9Sel.num_zeros c x = GenFn.Rank9Sel.num_zeros c' x ∧
      ∀ a, a < 2^64 → GenFn.Rank9Sel.access c x a = GenFn.Rank9Sel.access c' x a ∧
        GenFn.Rank9Sel.rank1 c x a = GenFn.Rank9Sel.rank1 c' x a ∧
        GenFn.Rank9Sel.rank0 c x a = GenFn.Rank9Sel.rank0 c' x a ∧
        GenFn.Rank9Sel.select1 c x a = GenFn.Rank9Sel.select1 c' x a ∧
        GenFn.Rank9Sel.select0 c x a = GenFn.Rank9Sel.select0 c' x a := by
  obtain ⟨x, hx, vx, a1, a2, a3, a4, a5, a6, a7, a8⟩ := holds c bs r h1 h0 hl
  obtain ⟨y, hy, vy, b1, b2, b3, b4, b5, b6, b7, b8⟩ := holds c' bs r h1 h0 hl
  -- the model's `build` is configuration independent in its result: both structures are the same
  have hxy : x = y := by
    obtain ⟨x', ex, gx, _, _⟩ := generated_eq_model c bs r h1 h0 hl
    obtain ⟨y', ey, gy, _, _⟩ := generated_eq_model c' bs r h1 h0 hl
    rw [hx] at gx; rw [hy] at gy
    injection gx with gx; injection gx with gx; injection gy with gy; injection gy with gy
    subst gx; subst gy
    rw [Config.R9_build_cfg c c' _ (BV.fromBits_spec bs).1, ey] at ex
    injection ex with ex; exact ex.symm
  subst hxy
  refine ⟨by rw [hx, hy], by rw [vx, vy], fun z hz => ?_⟩
  rw [hx] at hz; injection hz with hz; injection hz with hz; subst hz
  exact ⟨by rw [a7, b7], by rw [a8, b8], fun a ha =>
    ⟨by rw [a1, b1], by rw [a2 a ha, b2 a ha], by rw [a3 a ha, b3 a ha], by rw [a4 a ha, b4 a ha],
     by rw [a5 a ha, b5 a ha]⟩⟩

/-! ### non-vacuity and closed evaluations -/

/-- a small instance: seven bits, all hint tables, checked build -/
def bsEx : List Bool := [true, false, true, true, false, false, true]

-- the only hypotheses are the length bound and `usize` arguments; they hold of the instance
example : bsEx.length + 1534 < 2^64 := by decide
example : (4 : Nat) < 2^64 := by decide

-- closed evaluation of the generated code itself (construction with both hint tables, then `rank1(4)`)
set_option maxRecDepth 100000 in
example : (GenFn.Rank9Sel.build_from_bits ⟨true, false⟩ bsEx true true true).bind
    (fun r => match r with | .ok x => GenFn.Rank9Sel.rank1 ⟨true, false⟩ x 4 | .err => .ok none) = .ok (some 3) := by rfl

-- the same through the theorem, for every configuration and flag triple: `select1(2) = Some(3)`, `select0(2) = Some(5)`
example (c : Cfg) (r h1 h0 : Bool) : ∃ x, GenFn.Rank9Sel.build_from_bits c bsEx r h1 h0 = .ok (RS.Res.ok x) ∧
    GenFn.Rank9Sel.select1 c x 2 = .ok (some 3) ∧ GenFn.Rank9Sel.select0 c x 2 = .ok (some 5) ∧
    GenFn.Rank9Sel.select1 c x 4 = .ok none ∧ GenFn.Rank9Sel.num_ones c x = .ok 4 := by
  obtain ⟨x, hx, _, _, _, _, a4, a5, _, a7, _⟩ := holds c bsEx r h1 h0 (by decide)
  exact ⟨x, hx, by rw [a4 2 (by decide)]; rfl, by rw [a5 2 (by decide)]; rfl, by rw [a4 4 (by decide)]; rfl,
    by rw [a7]; rfl⟩
end Sucds.C01Gen
