import Sucds.Proofs.GenIterators
import Sucds.Proofs.GenCompactVector
/-! # C17 over the iterators *generated from the Rust sources* — partial (3 of 9 containers' iterators)

`Props/C17.lean` states C17 about the hand-written iterator models. Here the clauses that concern
`BitVector::iter`, `CompactVector::iter` and `BitVector::unary_iter` (`next`, `skip1`, `skip0`) are stated about
the definitions `tools/gen_fns.py` produces from `src/bit_vectors/bit_vector.rs` (`Iter`),
`src/bit_vectors/bit_vector/unary.rs` (`UnaryIter`) and `src/int_vectors/compact_vector.rs` (`Iter`):
`GenFn.bit_vector_Iter.{new, next, size_hint}`, `GenFn.compact_vector_Iter.{new, next, size_hint}`,
`GenFn.UnaryIter.{new, next, skip1, skip0}`. A generated `next(&mut self)` returns `(new self, answer)`.

The history runners (defined in `Proofs/GenIterators.lean`, equations restated below as `rfl`-examples):
* `bvRunN c it n`, `cvRunN c it n` — `n` times: `size_hint()`, then `next()`; collects `(answer, size_hint)`;
* `gNexts c n it` — the answers of `n` successive `next()` calls on a `UnaryIter`;
* `gRunSkips c it ops` — the answers of the `skip1(k)`/`skip0(k)` calls listed in `ops`, in order.

**Missing (hence `Statement_partial`)**: the clauses of `C17.Statement` for `DacsByte::iter`, `DacsOpt::iter`,
`PrefixSummedEliasFano::iter`, `WaveletMatrix::iter` (three backings) and `EliasFano::iter(k)`. Their generated
definitions exist (`GenFn.dacs_byte_Iter`, `dacs_opt_Iter`, `psef_Iter`, `wavelet_matrix_Iter_*`, `iter_Iter`) but
no equivalence theorem between the generated `access`/`select`/`next` of these containers and the model exists yet
in `Sucds/Proofs/Gen*.lean`, so nothing can be transferred.

Hypotheses added to the model clauses (those of the `GenEq` theorems, nothing else):
* `b.len < 2^64`, `v.chunks.len < 2^64`, `v.len < 2^64` — `usize` fields;
* unary iterator, a run of `n` calls from position `p`: `p + 64 * n < 2^64` and `bv.len + 64 * n ≤ 2^64` — the code
  does `self.pos += 64` on a `usize` at every word boundary *and on every call after exhaustion*, the model counts in
  unbounded `Nat`; within these bounds no such addition overflows. (So "every `p`" of C17 becomes "every `p` at
  least `64 * n` below `usize::MAX`": see `near_usize_max` at the end for what happens beyond.) `skip` arguments
  are `usize`. -/
namespace Sucds.C17Gen
open Sucds Sucds.Spec
open Sucds.GenEq (bvRunN cvRunN gNexts gRunSkips skipArg)
open Sucds.C17 (expected)

-- the runners, unfolded one step (definitions in `Proofs/GenIterators.lean`)
example (c : Cfg) (it : GenFn.bit_vector_Iter) (n : Nat) : bvRunN c it (n+1) =
    (GenFn.bit_vector_Iter.size_hint c it).bind fun sh => (GenFn.bit_vector_Iter.next c it).bind fun r =>
      (bvRunN c r.1 n).bind fun l => .ok ((r.2, sh) :: l) := rfl
example (c : Cfg) (it : GenFn.compact_vector_Iter) (n : Nat) : cvRunN c it (n+1) =
    (GenFn.compact_vector_Iter.size_hint c it).bind fun sh => (GenFn.compact_vector_Iter.next c it).bind fun r =>
      (cvRunN c r.1 n).bind fun l => .ok ((r.2, sh) :: l) := rfl
example (c : Cfg) (it : GenFn.UnaryIter) (n : Nat) : gNexts c (n+1) it =
    (GenFn.UnaryIter.next c it).bind fun r => (gNexts c n r.1).bind fun l => .ok (r.2 :: l) := rfl
example (c : Cfg) (it : GenFn.UnaryIter) (k : Nat) (ops : List UIter.Skip) : gRunSkips c it (.s1 k :: ops) =
    (GenFn.UnaryIter.skip1 c it k).bind fun s => (gRunSkips c s.1 ops).bind fun l => .ok (s.2 :: l) := rfl
example (c : Cfg) (it : GenFn.UnaryIter) (k : Nat) (ops : List UIter.Skip) : gRunSkips c it (.s0 k :: ops) =
    (GenFn.UnaryIter.skip0 c it k).bind fun s => (gRunSkips c s.1 ops).bind fun l => .ok (s.2 :: l) := rfl
example (c : Cfg) (it : GenFn.UnaryIter) : gNexts c 0 it = .ok [] ∧ gRunSkips c it [] = .ok [] := ⟨rfl, rfl⟩

/-- C17 for the generated `BitVector::iter`, `CompactVector::iter`, `BitVector::unary_iter`
    (clauses 1, 2, 8, 9 of `C17.Statement`; clauses 3–7 are missing, see the header) -/
def Statement_partial : Prop :=
  -- BitVector::iter
  (∀ (c : Cfg) (b : BV), b.Inv → b.len < 2^64 →
    ∀ n, bvRunN c (GenFn.BitVector.iter b) n = .ok (expected b.toList n)) ∧
  -- CompactVector::iter
  (∀ (c : Cfg) (v : CV) (xs : List Nat), CV.Rep v xs → v.chunks.len < 2^64 → v.len < 2^64 →
    ∀ n, cvRunN c (GenFn.CompactVector.iter v) n = .ok (expected xs n)) ∧
  -- unary iterator: next
  (∀ (c : Cfg) (bv : BV), bv.Inv → ∀ p n, p + 64 * n < 2^64 → bv.len + 64 * n ≤ 2^64 →
    gNexts c n (GenFn.BitVector.unary_iter bv p) = .ok ((List.range n).map (selFrom bv.bitAt bv.len p))) ∧
  -- unary iterator: any sequence of skips
  (∀ (c : Cfg) (bv : BV), bv.Inv → ∀ p (ops : List UIter.Skip), (∀ op, op ∈ ops → skipArg op < 2^64) →
    p + 64 * ops.length < 2^64 → bv.len + 64 * ops.length ≤ 2^64 →
    gRunSkips c (GenFn.BitVector.unary_iter bv p) ops = .ok (UIter.specSkips bv.bitAt bv.len (some p) ops))

theorem holds_partial : Statement_partial :=
  ⟨fun c b h hl n => GenEq.bv_iter_c17 c b h hl n,
   fun c v xs h hc hl n => GenEq.cv_iter_c17 c v xs h (by rw [← h.clen]; exact hc) hl n,
   fun c bv h p n hp hl => GenEq.unary_nexts_c17 c bv h p n hp hl,
   fun c bv h p ops hk hp hl => GenEq.unary_skips_c17 c bv h p ops hk hp hl⟩

/-- configuration independence of the generated iterators (C15 for these three iterators) -/
theorem config_independent (c c' : Cfg) :
    (∀ (b : BV), b.Inv → b.len < 2^64 → ∀ n,
      bvRunN c (GenFn.BitVector.iter b) n = bvRunN c' (GenFn.BitVector.iter b) n) ∧
    (∀ (v : CV) (xs : List Nat), CV.Rep v xs → v.chunks.len < 2^64 → v.len < 2^64 → ∀ n,
      cvRunN c (GenFn.CompactVector.iter v) n = cvRunN c' (GenFn.CompactVector.iter v) n) ∧
    (∀ (bv : BV), bv.Inv → ∀ p n, p + 64 * n < 2^64 → bv.len + 64 * n ≤ 2^64 →
      gNexts c n (GenFn.BitVector.unary_iter bv p) = gNexts c' n (GenFn.BitVector.unary_iter bv p)) ∧
    (∀ (bv : BV), bv.Inv → ∀ p (ops : List UIter.Skip), (∀ op, op ∈ ops → skipArg op < 2^64) →
      p + 64 * ops.length < 2^64 → bv.len + 64 * ops.length ≤ 2^64 →
      gRunSkips c (GenFn.BitVector.unary_iter bv p) ops = gRunSkips c' (GenFn.BitVector.unary_iter bv p) ops) := by
  obtain ⟨a1, a2, a3, a4⟩ := holds_partial
  exact ⟨fun b h hl n => by rw [a1 c b h hl n, a1 c' b h hl n],
    fun v xs h hc hl n => by rw [a2 c v xs h hc hl n, a2 c' v xs h hc hl n],
    fun bv h p n hp hl => by rw [a3 c bv h p n hp hl, a3 c' bv h p n hp hl],
    fun bv h p ops hk hp hl => by rw [a4 c bv h p ops hk hp hl, a4 c' bv h p ops hk hp hl]⟩

/-! ### non-vacuity and closed evaluations -/

/-- a small instance: ten bits -/
def bsEx : List Bool := [false, true, true, false, false, false, true, false, false, true]

-- the hypotheses hold of the instance (`BV.fromBits` establishes `Inv`), for a start inside the vector and 5 calls
example : (BV.fromBits bsEx).Inv ∧ (BV.fromBits bsEx).len < 2^64 ∧ 2 + 64 * 5 < 2^64 ∧
    (BV.fromBits bsEx).len + 64 * 5 ≤ 2^64 := ⟨(BV.fromBits_spec bsEx).1, by decide, by decide, by decide⟩

/-- kernel evaluation of a closed `R` value (`Except` has no `DecidableEq`; `Option` has) -/
theorem ok_of_toOption {ε α : Type} (r : Except ε α) (v : α) (h : r.toOption = some v) : r = .ok v := by
  cases r with
  | error e => cases h
  | ok a => injection h with h; rw [h]

-- closed evaluations of the generated code itself (checked build)
example : gNexts ⟨true, false⟩ 4 (GenFn.BitVector.unary_iter (BV.fromBits bsEx) 2) =
    .ok [some 2, some 6, some 9, none] := ok_of_toOption _ _ (by decide +kernel)
example : gRunSkips ⟨true, false⟩ (GenFn.BitVector.unary_iter (BV.fromBits bsEx) 0) [.s1 1, .s0 2, .s1 1, .s1 5, .s0 0] =
    .ok [some 2, some 5, some 9, none, none] := ok_of_toOption _ _ (by decide +kernel)
example : bvRunN ⟨true, false⟩ (GenFn.BitVector.iter (BV.fromBits [true, false])) 3 =
    .ok [(some true, (2, some 2)), (some false, (1, some 1)), (none, (0, some 0))] := ok_of_toOption _ _ (by decide +kernel)

-- CompactVector: the hypotheses hold of the vector the generated `from_int(5, 3, 4)` builds; its iterator yields
-- `5, 5, 5` with size hints `3, 2, 1`, then `None` with hint `0`
example (c : Cfg) : ∃ v, GenFn.CompactVector.from_int c 5 3 4 = .ok (RS.Res.ok v) ∧
    cvRunN c (GenFn.CompactVector.iter v) 4 =
      .ok [(some 5, (3, some 3)), (some 5, (2, some 2)), (some 5, (1, some 1)), (none, (0, some 0))] := by
  obtain ⟨v, hf, hr, hw⟩ := GenEq.cv_from_int_ok c 5 3 4 (by decide) (by decide) (by decide) (by decide) (by decide)
  have hlen : v.len = 3 := hr.len
  refine ⟨v, hf, ?_⟩
  rw [holds_partial.2.1 c v _ hr (by rw [hr.clen, hlen, hw]; decide) (by rw [hlen]; decide) 4]
  rfl

/-- outside the hypotheses (`p + 64 * n < 2^64` fails): on the one-bit vector `[1]`, `unary_iter(usize::MAX).next()`
    panics on overflow in a checked build and, in an unchecked build, wraps around to word 0 and answers `Some(0)`,
    a position before the start (the model answers `None`); `Proofs/GenIterators.lean` -/
theorem near_usize_max :
    (GenFn.UnaryIter.next ⟨true, false⟩ (GenFn.BitVector.unary_iter (BV.fromBits [true]) (2^64 - 1))).map
      (fun r => r.2) = .error .overflow ∧
    (GenFn.UnaryIter.next ⟨false, false⟩ (GenFn.BitVector.unary_iter (BV.fromBits [true]) (2^64 - 1))).map
      (fun r => r.2) = .ok (some 0) := ⟨by rfl, by rfl⟩
end Sucds.C17Gen
