import Sucds.Proofs.GenIterators
import Sucds.Proofs.IterNth
import Sucds.Proofs.GenCompactVector
import Sucds.Proofs.GenDacsByte
import Sucds.Proofs.GenDacsOpt
import Sucds.Proofs.GenPsef
import Sucds.Proofs.GenWavelet
import Sucds.Proofs.C04GenAux
/-! # C17 over the iterators *generated from the Rust sources*

`Props/C17.lean` states C17 about the hand-written iterator models. Here every clause is stated about the definitions
`tools/gen_fns.py` produces from the `Iter` types of the crate: `GenFn.bit_vector_Iter`, `compact_vector_Iter`,
`dacs_byte_Iter`, `dacs_opt_Iter`, `psef_Iter`, `wavelet_matrix_Iter_{Rank9Sel, DArray, BitVector}`
(`{new, next, size_hint}`), `GenFn.iter_Iter.{new, next}` (`EliasFano::iter(k)`) and
`GenFn.UnaryIter.{new, next, skip1, skip0}`. A generated `next(&mut self)` returns `(new self, answer)`.
Where C17 builds the container with a model constructor, the container here is the one the *generated* constructor
returns (`from_slice`, `WaveletMatrix::new`, `EliasFanoBuilder::new`/`push`…/`build`/`enable_rank`).

The history runners (defined next to the equivalence proofs, equations restated below as `rfl`-examples):
* `bvRunN`, `cvRunN`, `dbRunN`, `doRunN`, `psRunN`, `wmRunN`, `wm_daRunN`, `wm_bvRunN` `c it n` — `n` times:
  `size_hint()`, then `next()`; collects `(answer, size_hint)`. `n` is arbitrary, so the runs include any number of
  calls after exhaustion. What they must produce is `C17.expected xs n` (the same right-hand side as in C17);
* `efGenItRun c n it` — `n` successive `next()` calls on an `EliasFano` iterator: the final iterator and the answers;
* `gNexts c n it` — the answers of `n` successive `next()` calls on a `UnaryIter`;
* `gRunSkips c it ops` — the answers of the `skip1(k)`/`skip0(k)` calls listed in `ops`, in order.

Hypotheses added to the model clauses (those of the `GenEq` theorems — bounds by `usize::MAX`/`isize::MAX`, nothing else):
* `b.len < 2^64`, `v.chunks.len < 2^64`, `v.len < 2^64` — `usize` fields;
* `DacsByte`: the slice length is a `usize`; `PrefixSummedEliasFano`: `3 * vals.size + 2 < 2^63` and `EliasFano`:
  `m + (u >> low_len) + 2 < 2^63` — the high-bit vector is indexed by a `DArray`, which stores positions as `isize`
  (as in `C12Gen`, `C04Gen`); `WaveletMatrix`: the input `CompactVector` `cv` represents `s`, and the bit lengths
  `cv.len * cv.width` and `s.length * bitlen (max s + 1)` are `usize` (as in `C05Gen`);
* unary iterator, a run of `n` calls from position `p`: `p + 64 * n < 2^64` and `bv.len + 64 * n ≤ 2^64` — the code
  does `self.pos += 64` on a `usize` at every word boundary *and on every call after exhaustion*, the model counts in
  unbounded `Nat`; within these bounds no such addition overflows. (So "every `p`" of C17 becomes "every `p` at
  least `64 * n` below `usize::MAX`": see `near_usize_max` at the end for what happens beyond.) `skip` arguments
  are `usize`. -/
namespace Sucds.C17Gen
open Sucds Sucds.Spec Sucds.EFB
open Sucds.GenEq (bvRunN cvRunN dbRunN doRunN psRunN wmRunN wm_daRunN wm_bvRunN efGenItRun genRun resU lowLenOf
  gNexts gRunSkips skipArg)
open Sucds.C17 (expected)

-- the runners, unfolded one step (the eight `…RunN` have this same equation; definitions in `Proofs/Gen*.lean`)
example (c : Cfg) (it : GenFn.bit_vector_Iter) (n : Nat) : bvRunN c it 0 = .ok [] ∧ bvRunN c it (n+1) =
    (GenFn.bit_vector_Iter.size_hint c it).bind fun sh => (GenFn.bit_vector_Iter.next c it).bind fun r =>
      (bvRunN c r.1 n).bind fun l => .ok ((r.2, sh) :: l) := ⟨rfl, rfl⟩
example (c : Cfg) (it : GenFn.wavelet_matrix_Iter_DArray) (n : Nat) : wm_daRunN c it 0 = .ok [] ∧ wm_daRunN c it (n+1) =
    (GenFn.wavelet_matrix_Iter_DArray.size_hint c it).bind fun sh => (GenFn.wavelet_matrix_Iter_DArray.next c it).bind fun r =>
      (wm_daRunN c r.1 n).bind fun l => .ok ((r.2, sh) :: l) := ⟨rfl, rfl⟩
example (c : Cfg) (n : Nat) (it : GenFn.iter_Iter) : efGenItRun c 0 it = .ok (it, []) ∧ efGenItRun c (n+1) it =
    (efGenItRun c n it).bind fun r => (GenFn.iter_Iter.next c r.1).bind fun s => .ok (s.1, r.2 ++ [s.2]) := ⟨rfl, rfl⟩
example (c : Cfg) (it : GenFn.UnaryIter) (n : Nat) : gNexts c (n+1) it =
    (GenFn.UnaryIter.next c it).bind fun r => (gNexts c n r.1).bind fun l => .ok (r.2 :: l) := rfl
example (c : Cfg) (it : GenFn.UnaryIter) (k : Nat) (ops : List UIter.Skip) : gRunSkips c it (.s1 k :: ops) =
    (GenFn.UnaryIter.skip1 c it k).bind fun s => (gRunSkips c s.1 ops).bind fun l => .ok (s.2 :: l) := rfl
example (c : Cfg) (it : GenFn.UnaryIter) (k : Nat) (ops : List UIter.Skip) : gRunSkips c it (.s0 k :: ops) =
    (GenFn.UnaryIter.skip0 c it k).bind fun s => (gRunSkips c s.1 ops).bind fun l => .ok (s.2 :: l) := rfl
example (c : Cfg) (it : GenFn.UnaryIter) : gNexts c 0 it = .ok [] ∧ gRunSkips c it [] = .ok [] := ⟨rfl, rfl⟩

/-- C17 for the generated iterators (the nine clauses of `C17.Statement`, in the same order) -/
def Statement : Prop :=
  -- BitVector::iter
  (∀ (c : Cfg) (b : BV), b.Inv → b.len < 2^64 →
    ∀ n, bvRunN c (GenFn.BitVector.iter b) n = .ok (expected b.toList n)) ∧
  -- CompactVector::iter
  (∀ (c : Cfg) (v : CV) (xs : List Nat), CV.Rep v xs → v.chunks.len < 2^64 → v.len < 2^64 →
    ∀ n, cvRunN c (GenFn.CompactVector.iter v) n = .ok (expected xs n)) ∧
  -- DacsByte::iter
  (∀ (c : Cfg) (vals : Array Nat), (∀ v ∈ vals, v < 2^64) → vals.size < 2^64 →
    ∃ d, GenFn.DacsByte.from_slice c vals = .ok (RS.Res.ok d) ∧
      ∀ n, dbRunN c (GenFn.DacsByte.iter d) n = .ok (expected vals.toList n)) ∧
  -- DacsOpt::iter
  (∀ (c : Cfg) (vals : Array Nat) (ml : Option Nat), (∀ v ∈ vals, v < 2^64) → vals.size < 2^57 →
    1 ≤ ml.getD 64 ∧ ml.getD 64 ≤ 64 →
    ∃ d, GenFn.DacsOpt.from_slice c vals ml = .ok (RS.Res.ok d) ∧
      ∀ n, doRunN c (GenFn.DacsOpt.iter d) n = .ok (expected vals.toList n)) ∧
  -- PrefixSummedEliasFano::iter
  (∀ (c : Cfg) (vals : Array Nat), vals.size ≠ 0 → vals.toList.sum + 1 < 2^64 → 3 * vals.size + 2 < 2^63 →
    ∃ p, GenFn.PrefixSummedEliasFano.from_slice c vals = .ok (RS.Res.ok p) ∧
      ∀ n, psRunN c (GenFn.PrefixSummedEliasFano.iter p) n = .ok (expected vals.toList n)) ∧
  -- WaveletMatrix::iter, three backings
  (∀ (c : Cfg) (cv : CV) (s : List Nat), CV.Rep cv s → s ≠ [] → s.foldl max 0 + 1 < 2^64 → s.length < 2^63 →
    cv.len * cv.width < 2^64 → s.length * SpecX.bitlen (s.foldl max 0 + 1) < 2^64 →
    (∃ wm, GenFn.WaveletMatrix_Rank9Sel.new c cv = .ok (.ok wm) ∧
      ∀ n, wmRunN c (GenFn.WaveletMatrix_Rank9Sel.iter wm) n = .ok (expected s n)) ∧
    (∃ wm, GenFn.WaveletMatrix_DArray.new c cv = .ok (.ok wm) ∧
      ∀ n, wm_daRunN c (GenFn.WaveletMatrix_DArray.iter wm) n = .ok (expected s n)) ∧
    (∃ wm, GenFn.WaveletMatrix_BitVector.new c cv = .ok (.ok wm) ∧
      ∀ n, wm_bvRunN c (GenFn.WaveletMatrix_BitVector.iter wm) n = .ok (expected s n))) ∧
  -- EliasFano::iter(k)
  (∀ (c : Cfg) (u m : Nat) (hist : List Nat), m ≠ 0 → u < 2^64 → m + (u >>> lowLenOf u m) + 2 < 2^63 →
    ∃ b0 b' e0 e, GenFn.EliasFanoBuilder.new c u m = .ok (RS.Res.ok b0) ∧
      genRun c b0 hist = .ok (b', (verdicts u m [] hist).map resU) ∧
      GenFn.EliasFanoBuilder.build c b' = .ok e0 ∧ GenFn.EliasFano.enable_rank c e0 = .ok e ∧
      ∀ k, ∃ it0, GenFn.EliasFano.iter c e k = .ok it0 ∧
        ∀ t, ∃ it', efGenItRun c ((accepted u m [] hist).length - k + t) it0 =
          .ok (it', ((accepted u m [] hist).drop k).map some ++ List.replicate t none)) ∧
  -- unary iterator: next
  (∀ (c : Cfg) (bv : BV), bv.Inv → ∀ p n, p + 64 * n < 2^64 → bv.len + 64 * n ≤ 2^64 →
    gNexts c n (GenFn.BitVector.unary_iter bv p) = .ok ((List.range n).map (selFrom bv.bitAt bv.len p))) ∧
  -- unary iterator: any sequence of skips
  (∀ (c : Cfg) (bv : BV), bv.Inv → ∀ p (ops : List UIter.Skip), (∀ op, op ∈ ops → skipArg op < 2^64) →
    p + 64 * ops.length < 2^64 → bv.len + 64 * ops.length ≤ 2^64 →
    gRunSkips c (GenFn.BitVector.unary_iter bv p) ops = .ok (UIter.specSkips bv.bitAt bv.len (some p) ops))

theorem holds : Statement := by
  refine ⟨fun c b h hl n => GenEq.bv_iter_c17 c b h hl n,
    fun c v xs h hc hl n => GenEq.cv_iter_c17 c v xs h (by rw [← h.clen]; exact hc) hl n,
    fun c vals hv hn => ?_, fun c vals ml hv hn hml => ?_, fun c vals hne hs hn => ?_,
    fun c cv s h hne hmax hn hsz hnW =>
      ⟨GenEq.wm_c17 c cv s h hne hmax hn hsz hnW, GenEq.wm_da_c17 c cv s h hne hmax hn hsz hnW,
       GenEq.wm_bv_c17 c cv s h hne hmax hn hsz hnW⟩,
    fun c u m hist hm hu hsz => ?_,
    fun c bv h p n hp hl => GenEq.unary_nexts_c17 c bv h p n hp hl,
    fun c bv h p ops hk hp hl => GenEq.unary_skips_c17 c bv h p ops hk hp hl⟩
  · obtain ⟨d, a1, _, _, _, _, _, _, _, _, a10⟩ := GenEq.dacs_byte_c11 c vals hv hn
    exact ⟨d, a1, a10⟩
  · obtain ⟨d, a1, _, _, _, _, _, _, _, _, _, a11⟩ := (GenEq.dacs_opt_c10 c vals ml hv hn).2 hml
    exact ⟨d, a1, a11⟩
  · obtain ⟨p, a1, _, _, _, _, _, a7⟩ := GenEq.ps_from_slice_answers c vals hne hs hn
    exact ⟨p, a1, a7⟩
  · obtain ⟨b0, b', e0, e, h1, h2, h3, h4, A, _⟩ := GenEq.ef_generated_answers c u m hist hm hu hsz
    exact ⟨b0, b', e0, e, h1, h2, h3, h4, A.iter⟩

/-- the answers of `iter(k)` followed by `n` calls of `next()` -/
def efIterAnswers (c : Cfg) (e : EF) (k n : Nat) : R (List (Option Nat)) :=
  (GenFn.EliasFano.iter c e k).bind fun it => (efGenItRun c n it).bind fun r => .ok r.2

/-- configuration independence of the generated iterators (C15 for the iterators): a container built by the generated
    constructor in one configuration and iterated in that configuration gives the same answers and size hints as
    the container built and iterated in another (that the two containers are *equal* is `config_independent` of
    C11Gen, C10Gen, C12Gen, C05Gen, C04Gen). -/
theorem config_independent (c c' : Cfg) :
    (∀ (b : BV), b.Inv → b.len < 2^64 → ∀ n,
      bvRunN c (GenFn.BitVector.iter b) n = bvRunN c' (GenFn.BitVector.iter b) n) ∧
    (∀ (v : CV) (xs : List Nat), CV.Rep v xs → v.chunks.len < 2^64 → v.len < 2^64 → ∀ n,
      cvRunN c (GenFn.CompactVector.iter v) n = cvRunN c' (GenFn.CompactVector.iter v) n) ∧
    (∀ (vals : Array Nat), (∀ v ∈ vals, v < 2^64) → vals.size < 2^64 → ∀ d d',
      GenFn.DacsByte.from_slice c vals = .ok (RS.Res.ok d) → GenFn.DacsByte.from_slice c' vals = .ok (RS.Res.ok d') →
      ∀ n, dbRunN c (GenFn.DacsByte.iter d) n = dbRunN c' (GenFn.DacsByte.iter d') n) ∧
    (∀ (vals : Array Nat) (ml : Option Nat), (∀ v ∈ vals, v < 2^64) → vals.size < 2^57 → ∀ d d',
      GenFn.DacsOpt.from_slice c vals ml = .ok (RS.Res.ok d) → GenFn.DacsOpt.from_slice c' vals ml = .ok (RS.Res.ok d') →
      ∀ n, doRunN c (GenFn.DacsOpt.iter d) n = doRunN c' (GenFn.DacsOpt.iter d') n) ∧
    (∀ (vals : Array Nat), vals.toList.sum + 1 < 2^64 → 3 * vals.size + 2 < 2^63 → ∀ p p',
      GenFn.PrefixSummedEliasFano.from_slice c vals = .ok (RS.Res.ok p) →
      GenFn.PrefixSummedEliasFano.from_slice c' vals = .ok (RS.Res.ok p') →
      ∀ n, psRunN c (GenFn.PrefixSummedEliasFano.iter p) n = psRunN c' (GenFn.PrefixSummedEliasFano.iter p') n) ∧
    (∀ (cv : CV) (s : List Nat), CV.Rep cv s → s ≠ [] → s.foldl max 0 + 1 < 2^64 → s.length < 2^63 →
      cv.len * cv.width < 2^64 → s.length * SpecX.bitlen (s.foldl max 0 + 1) < 2^64 →
      (∀ w w', GenFn.WaveletMatrix_Rank9Sel.new c cv = .ok (.ok w) → GenFn.WaveletMatrix_Rank9Sel.new c' cv = .ok (.ok w') →
        ∀ n, wmRunN c (GenFn.WaveletMatrix_Rank9Sel.iter w) n = wmRunN c' (GenFn.WaveletMatrix_Rank9Sel.iter w') n) ∧
      (∀ w w', GenFn.WaveletMatrix_DArray.new c cv = .ok (.ok w) → GenFn.WaveletMatrix_DArray.new c' cv = .ok (.ok w') →
        ∀ n, wm_daRunN c (GenFn.WaveletMatrix_DArray.iter w) n = wm_daRunN c' (GenFn.WaveletMatrix_DArray.iter w') n) ∧
      (∀ w w', GenFn.WaveletMatrix_BitVector.new c cv = .ok (.ok w) → GenFn.WaveletMatrix_BitVector.new c' cv = .ok (.ok w') →
        ∀ n, wm_bvRunN c (GenFn.WaveletMatrix_BitVector.iter w) n = wm_bvRunN c' (GenFn.WaveletMatrix_BitVector.iter w') n)) ∧
    -- EliasFano: both configurations build the same sequence `e`; `iter(k)` on it answers the same
    (∀ (u m : Nat) (hist : List Nat), m ≠ 0 → u < 2^64 → m + (u >>> lowLenOf u m) + 2 < 2^63 →
      ∃ b0 b' e0 e, (∀ c, GenFn.EliasFanoBuilder.new c u m = .ok (RS.Res.ok b0)) ∧
        (∀ c, genRun c b0 hist = .ok (b', (verdicts u m [] hist).map resU)) ∧
        GenFn.EliasFanoBuilder.build c b' = .ok e0 ∧ GenFn.EliasFanoBuilder.build c' b' = .ok e0 ∧
        GenFn.EliasFano.enable_rank c e0 = .ok e ∧ GenFn.EliasFano.enable_rank c' e0 = .ok e ∧
        ∀ k t, efIterAnswers c e k (GenFn.EliasFano.len e - k + t) = efIterAnswers c' e k (GenFn.EliasFano.len e - k + t)) ∧
    (∀ (bv : BV), bv.Inv → ∀ p n, p + 64 * n < 2^64 → bv.len + 64 * n ≤ 2^64 →
      gNexts c n (GenFn.BitVector.unary_iter bv p) = gNexts c' n (GenFn.BitVector.unary_iter bv p)) ∧
    (∀ (bv : BV), bv.Inv → ∀ p (ops : List UIter.Skip), (∀ op, op ∈ ops → skipArg op < 2^64) →
      p + 64 * ops.length < 2^64 → bv.len + 64 * ops.length ≤ 2^64 →
      gRunSkips c (GenFn.BitVector.unary_iter bv p) ops = gRunSkips c' (GenFn.BitVector.unary_iter bv p) ops) := by
  obtain ⟨a1, a2, a3, a4, a5, a6, _, a8, a9⟩ := holds
  -- two `Ok` results of the same call are the same value
  have inj : ∀ {α : Type} {x : R (RS.Res α)} {d e : α}, x = .ok (RS.Res.ok d) → x = .ok (RS.Res.ok e) → e = d :=
    fun h1 h2 => by rw [h1] at h2; injection h2 with h2; injection h2 with h2; exact h2.symm
  refine ⟨fun b h hl n => by rw [a1 c b h hl n, a1 c' b h hl n],
    fun v xs h hc hl n => by rw [a2 c v xs h hc hl n, a2 c' v xs h hc hl n],
    fun vals hv hn d d' hd hd' n => ?_, fun vals ml hv hn d d' hd hd' n => ?_, fun vals hs hn p p' hp hp' n => ?_,
    fun cv s h hne hmax hn hsz hnW => ?_, fun u m hist hm hu hsz => ?_,
    fun bv h p n hp hl => by rw [a8 c bv h p n hp hl, a8 c' bv h p n hp hl],
    fun bv h p ops hk hp hl => by rw [a9 c bv h p ops hk hp hl, a9 c' bv h p ops hk hp hl]⟩
  · obtain ⟨x, hx, rx⟩ := a3 c vals hv hn
    obtain ⟨y, hy, ry⟩ := a3 c' vals hv hn
    rw [inj hx hd, inj hy hd', rx n, ry n]
  · by_cases hml : 1 ≤ ml.getD 64 ∧ ml.getD 64 ≤ 64
    · obtain ⟨x, hx, rx⟩ := a4 c vals ml hv hn hml
      obtain ⟨y, hy, ry⟩ := a4 c' vals ml hv hn hml
      rw [inj hx hd, inj hy hd', rx n, ry n]
    · rw [(GenEq.dacs_opt_c10 c vals ml hv hn).1 hml] at hd
      injection hd with hd; cases hd
  · by_cases hne : vals.size = 0
    · have : vals = #[] := Array.eq_empty_of_size_eq_zero hne
      subst this; cases hp
    · obtain ⟨x, hx, rx⟩ := a5 c vals hne hs hn
      obtain ⟨y, hy, ry⟩ := a5 c' vals hne hs hn
      rw [inj hx hp, inj hy hp', rx n, ry n]
  · obtain ⟨⟨x1, hx1, rx1⟩, ⟨x2, hx2, rx2⟩, ⟨x3, hx3, rx3⟩⟩ := a6 c cv s h hne hmax hn hsz hnW
    obtain ⟨⟨y1, hy1, ry1⟩, ⟨y2, hy2, ry2⟩, ⟨y3, hy3, ry3⟩⟩ := a6 c' cv s h hne hmax hn hsz hnW
    exact ⟨fun w w' hw hw' n => by rw [inj hx1 hw, inj hy1 hw', rx1 n, ry1 n],
      fun w w' hw hw' n => by rw [inj hx2 hw, inj hy2 hw', rx2 n, ry2 n],
      fun w w' hw hw' n => by rw [inj hx3 hw, inj hy3 hw', rx3 n, ry3 n]⟩
  · obtain ⟨b0, b', e0, e, _, hn, hr, k1, k2, j1, j2, A, A', _⟩ := GenEq.ef_pipeline_hist c c' u m hist hm hu hsz
    refine ⟨b0, b', e0, e, hn, hr, k1, j1, k2, j2, fun k t => ?_⟩
    obtain ⟨i0, h0, hrun⟩ := A.iter k
    obtain ⟨i0', h0', hrun'⟩ := A'.iter k
    obtain ⟨i1, h1⟩ := hrun t
    obtain ⟨i1', h1'⟩ := hrun' t
    unfold efIterAnswers
    rw [A.len, h0, h0', GenEq.bok, GenEq.bok, h1, h1']
    rfl

/-! ### non-vacuity and closed evaluations -/

/-- a small instance: ten bits -/
def bsEx : List Bool := [false, true, true, false, false, false, true, false, false, true]

-- the hypotheses hold of the instance (`BV.fromBits` establishes `Inv`), for a start inside the vector and 5 calls
example : (BV.fromBits bsEx).Inv ∧ (BV.fromBits bsEx).len < 2^64 ∧ 2 + 64 * 5 < 2^64 ∧
    (BV.fromBits bsEx).len + 64 * 5 ≤ 2^64 := ⟨(BV.fromBits_spec bsEx).1, by decide, by decide, by decide⟩

/-- kernel evaluation of a closed `R` value (`Except` has no `DecidableEq`; `Option` has) -/
theorem ok_of_toOption {ε α : Type} (r : Except ε α) (v : α) (h : r.toOption = some v) : r = .ok v := by
  cases r with
  | error e => cases h
  | ok a => injection h with h; rw [h]

-- closed evaluations of the generated code itself (checked build)
example : gNexts ⟨true, false⟩ 4 (GenFn.BitVector.unary_iter (BV.fromBits bsEx) 2) =
    .ok [some 2, some 6, some 9, none] := ok_of_toOption _ _ (by decide +kernel)
example : gRunSkips ⟨true, false⟩ (GenFn.BitVector.unary_iter (BV.fromBits bsEx) 0) [.s1 1, .s0 2, .s1 1, .s1 5, .s0 0] =
    .ok [some 2, some 5, some 9, none, none] := ok_of_toOption _ _ (by decide +kernel)
example : bvRunN ⟨true, false⟩ (GenFn.BitVector.iter (BV.fromBits [true, false])) 3 =
    .ok [(some true, (2, some 2)), (some false, (1, some 1)), (none, (0, some 0))] := ok_of_toOption _ _ (by decide +kernel)
-- `DacsByte::from_slice(&[5, 300, 70000])`, then five rounds of `size_hint(); next()`: two of them after exhaustion
example : ((GenFn.DacsByte.from_slice ⟨true, false⟩ #[5, 300, 70000]).bind fun r => (RS.unwrapRes r).bind fun d =>
      dbRunN ⟨true, false⟩ (GenFn.DacsByte.iter d) 5).toOption =
    some [(some 5, (3, some 3)), (some 300, (2, some 2)), (some 70000, (1, some 1)), (none, (0, some 0)), (none, (0, some 0))] := by
  decide +kernel

-- CompactVector: the hypotheses hold of the vector the generated `from_int(5, 3, 4)` builds; its iterator yields
-- `5, 5, 5` with size hints `3, 2, 1`, then `None` with hint `0`
example (c : Cfg) : ∃ v, GenFn.CompactVector.from_int c 5 3 4 = .ok (RS.Res.ok v) ∧
    cvRunN c (GenFn.CompactVector.iter v) 4 =
      .ok [(some 5, (3, some 3)), (some 5, (2, some 2)), (some 5, (1, some 1)), (none, (0, some 0))] := by
  obtain ⟨v, hf, hr, hw⟩ := GenEq.cv_from_int_ok c 5 3 4 (by decide) (by decide) (by decide) (by decide) (by decide)
  have hlen : v.len = 3 := hr.len
  refine ⟨v, hf, ?_⟩
  rw [holds.2.1 c v _ hr (by rw [hr.clen, hlen, hw]; decide) (by rw [hlen]; decide) 4]
  rfl

-- the hypotheses of the constructor clauses hold of concrete inputs (every configuration, through the theorem):
-- `PrefixSummedEliasFano::from_slice(&[5, 0, 14])` and `EliasFano` with pushes `1, 3, 3, 2 (refused), 17`, `iter(1)`
example (c : Cfg) : ∃ p, GenFn.PrefixSummedEliasFano.from_slice c #[5, 0, 14] = .ok (RS.Res.ok p) ∧
    psRunN c (GenFn.PrefixSummedEliasFano.iter p) 4 =
      .ok [(some 5, (3, some 3)), (some 0, (2, some 2)), (some 14, (1, some 1)), (none, (0, some 0))] := by
  obtain ⟨p, h1, h2⟩ := holds.2.2.2.2.1 c #[5, 0, 14] (by decide) (by decide) (by decide)
  exact ⟨p, h1, by rw [h2 4]; rfl⟩
example (c : Cfg) : ∃ b0 b' e0 e it0 it', GenFn.EliasFanoBuilder.new c 20 4 = .ok (RS.Res.ok b0) ∧
    genRun c b0 [1, 3, 3, 2, 17] = .ok (b', [.ok (), .ok (), .ok (), .err, .ok ()]) ∧
    GenFn.EliasFanoBuilder.build c b' = .ok e0 ∧ GenFn.EliasFano.enable_rank c e0 = .ok e ∧
    GenFn.EliasFano.iter c e 1 = .ok it0 ∧ efGenItRun c 5 it0 = .ok (it', [some 3, some 3, some 17, none, none]) := by
  obtain ⟨b0, b', e0, e, h1, h2, h3, h4, h5⟩ := holds.2.2.2.2.2.2.1 c 20 4 [1, 3, 3, 2, 17] (by decide) (by decide) (by decide)
  obtain ⟨it0, h6, h7⟩ := h5 1
  obtain ⟨it', h8⟩ := h7 2
  exact ⟨b0, b', e0, e, it0, it', h1, h2, h3, h4, h6, h8⟩

/-- outside the hypotheses (`p + 64 * n < 2^64` fails): on the one-bit vector `[1]`, `unary_iter(usize::MAX).next()`
    panics on overflow in a checked build and, in an unchecked build, wraps around to word 0 and answers `Some(0)`,
    a position before the start (the model answers `None`); `Proofs/GenIterators.lean` -/
theorem near_usize_max :
    (GenFn.UnaryIter.next ⟨true, false⟩ (GenFn.BitVector.unary_iter (BV.fromBits [true]) (2^64 - 1))).map
      (fun r => r.2) = .error .overflow ∧
    (GenFn.UnaryIter.next ⟨false, false⟩ (GenFn.BitVector.unary_iter (BV.fromBits [true]) (2^64 - 1))).map
      (fun r => r.2) = .ok (some 0) := ⟨by rfl, by rfl⟩

/-! ### Walking by hops: `Iterator::nth` (what `skip` and `step_by` call)

None of the crate's iterators overrides `nth`, so it is std's default: `k` calls of `next`, then `next`
(`IndexIter.nth`; `IndexIter.nthStd`, with std's early stop, is proved equal). For every list, start and hop:
the answer is the element `k` places further on, the iterator then stands behind it (or is exhausted and stays so),
what it yields afterwards is exactly the rest of the list, and its size hint is exact. -/
theorem nth_yields_the_element_k_places_on {α} (xs : List α) (acc : Nat → Option α) (hacc : ∀ i, acc i = xs[i]?)
    (k : Nat) (it : IndexIter.It) :
    (IndexIter.nth xs.length acc it k).1 = xs[it.pos + k]? ∧
    (IndexIter.nth xs.length acc it k).2.pos = (if it.pos + k < xs.length then it.pos + k + 1 else max it.pos xs.length) ∧
    IndexIter.nthStd xs.length acc it k = IndexIter.nth xs.length acc it k ∧
    IndexIter.sizeHint xs.length (IndexIter.nth xs.length acc it k).2 =
      (xs.length - (it.pos + k + 1), some (xs.length - (it.pos + k + 1))) ∧
    (∀ t, (IndexIter.runN xs.length acc (IndexIter.nth xs.length acc it k).2 (xs.length - (it.pos + k + 1) + t)).map (·.1) =
      (xs.drop (it.pos + k + 1)).map some ++ List.replicate t none) :=
  ⟨(IndexIter.nth_spec xs acc hacc k it).1, (IndexIter.nth_spec xs acc hacc k it).2, IndexIter.nthStd_eq_nth xs acc hacc k it,
   IndexIter.sizeHint_after_nth xs acc hacc it k, fun t => IndexIter.answers_after_nth xs acc hacc it k t⟩

/-- once a hop has overshot, the iterator is exhausted for good (every later `next` and `nth` answers `None`) -/
theorem nth_past_the_end_exhausts {α} (xs : List α) (acc : Nat → Option α) (hacc : ∀ i, acc i = xs[i]?) (it : IndexIter.It) (k : Nat)
    (h : (IndexIter.nth xs.length acc it k).1 = none) :
    IndexIter.next xs.length acc (IndexIter.nth xs.length acc it k).2 = (none, (IndexIter.nth xs.length acc it k).2) ∧
    ∀ j, IndexIter.nth xs.length acc (IndexIter.nth xs.length acc it k).2 j = (none, (IndexIter.nth xs.length acc it k).2) :=
  IndexIter.nth_none_stays xs acc hacc it k h

/-- the same over the `next` generated from `src/int_vectors/compact_vector.rs` -/
theorem generated_compact_vector_nth (c : Cfg) (cv : CV) (xs : List Nat) (h : CV.Rep cv xs) (hsz : cv.len * cv.width < 2^64)
    (hl : cv.len < 2^64) (k : Nat) :
    GenEq.cvNth c (GenFn.CompactVector.iter cv) k = .ok (⟨cv, min (k + 1) xs.length⟩, xs[k]?) :=
  GenEq.cv_iter_nth c cv xs h hsz hl k
end Sucds.C17Gen
