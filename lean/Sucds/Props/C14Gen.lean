import Sucds.Proofs.GenBroadword
/-! # C14 over the definitions *generated from the Rust sources*

`Sucds/Gen/Fns.lean` is regenerated from `/repo/src/broadword.rs`, `src/intrinsics.rs`, `src/utils.rs` on every run
(`tools/gen_fns.py`). The statement below is C14 about those generated definitions themselves — every 64-bit word,
every `k`, every build configuration — so for these functions the tie between theorem and code is the translator,
not the differential run. -/
namespace Sucds.C14Gen
open Sucds Sucds.Spec

/-- the bits of a machine word -/
def bitsN (w : Nat) : Nat → Bool := fun i => w.testBit i

/-- C14 for the generated `popcount`, `lsb`, `msb`, `select_in_word` -/
def Statement : Prop :=
  ∀ (c : Cfg) (w : Nat), w < 2^64 →
    GenFn.broadword.popcount c w = .ok (cnt (bitsN w) 64) ∧
    GenFn.broadword.lsb c w = .ok (sel (bitsN w) 64 0) ∧
    GenFn.broadword.msb c w = .ok (if w = 0 then none else sel (bitsN w) 64 (cnt (bitsN w) 64 - 1)) ∧
    ∀ k, k < 2^64 → GenFn.broadword.select_in_word c w k = .ok (sel (bitsN w) 64 k)

theorem holds : Statement := fun c w hw =>
  ⟨GenEq.popcount_cnt c w hw, GenEq.lsb_sel c w hw, GenEq.msb_sel c w hw, fun k hk => GenEq.select_in_word_sel c w k hw hk⟩

/-- the generated functions are the model functions (same value, same panic, every configuration) -/
theorem generated_eq_model (c : Cfg) (x : BitVec 64) (k : Nat) (hk : k < 2^64) :
    GenFn.broadword.popcount c x.toNat = Broadword.popcount c x ∧
    GenFn.broadword.lsb c x.toNat = Broadword.lsb c x ∧
    GenFn.broadword.msb c x.toNat = Broadword.msb c x ∧
    GenFn.broadword.select_in_word c x.toNat k = Broadword.selectInWord c x k :=
  ⟨GenEq.popcount_eq c x, GenEq.lsb_eq c x, GenEq.msb_eq c x, GenEq.select_in_word_eq c x k hk⟩

/-- configuration independence of the generated primitives (C15 for `broadword.rs`) -/
theorem config_independent (c c' : Cfg) (w k : Nat) (hw : w < 2^64) (hk : k < 2^64) :
    GenFn.broadword.popcount c w = GenFn.broadword.popcount c' w ∧ GenFn.broadword.lsb c w = GenFn.broadword.lsb c' w ∧
    GenFn.broadword.msb c w = GenFn.broadword.msb c' w ∧ GenFn.broadword.select_in_word c w k = GenFn.broadword.select_in_word c' w k := by
  obtain ⟨a1, a2, a3, a4⟩ := holds c w hw
  obtain ⟨b1, b2, b3, b4⟩ := holds c' w hw
  exact ⟨by rw [a1, b1], by rw [a2, b2], by rw [a3, b3], by rw [a4 k hk, b4 k hk]⟩

/-- `utils::needed_bits` (used by every `from_slice`) -/
theorem needed_bits (c : Cfg) (x : Nat) (hx : x < 2^64) :
    GenFn.utils.needed_bits c x = .ok (if x = 0 then 1 else Nat.log2 x + 1) := GenEq.needed_bits_spec c x hx

-- non-vacuity: the statement has no hypothesis beyond `w < 2^64`, `k < 2^64` (true of every `usize`)
example : GenFn.broadword.select_in_word ⟨true, false⟩ 0xF0F0 5 = .ok (some 13) := by
  have := (holds ⟨true, false⟩ 0xF0F0 (by decide)).2.2.2 5 (by decide)
  rw [this]; rfl
end Sucds.C14Gen
