import Sucds.Proofs.GenDacsWidths
import Sucds.Props.C18
import Sucds.Proofs.ConfigBuild
/-! # C18 over the definition *generated from* `DacsOpt::compute_opt_widths`

`Sucds.GenFn.DacsOpt.compute_opt_widths` is what `tools/gen_fns.py` produces from the function body in
`src/int_vectors/dacs_opt.rs` on this run: the histogram and suffix-sum loops, the two `dp_s`/`dp_b` tables as
`Vec<Vec<usize>>` with checked indexing, the triple loop with the `<=` tie-break, the first strict minimum over the
level count, the reconstruction `while` and its three `assert_eq!`. The statement is C18 about that definition:
for every configuration, every non-empty `usize` input (fewer than 2^57 values) and **every** level limit `L ≥ 1`
it returns — no assertion fires, no index is out of bounds, no arithmetic overflows, the `while` terminates — a
split into at most `L` positive widths of minimum cost among all such splits. -/
namespace Sucds.C18Gen
open Sucds

def Statement : Prop :=
  ∀ (c : Cfg) (vals : Array Nat), vals.size ≠ 0 → (∀ v ∈ vals, v < 2^64) → vals.size < 2^57 →
    ∀ L, 1 ≤ L →
      ∃ ws, GenFn.DacsOpt.compute_opt_widths c vals L = .ok ws ∧ SpecX.validSplit vals.toList L ws.toList = true ∧
        ∀ ws', SpecX.validSplit vals.toList L ws' = true → SpecX.dacCost vals.toList ws.toList ≤ SpecX.dacCost vals.toList ws'

theorem holds : Statement := fun c vals hne hv hn L hL => GenEq.compute_opt_widths_optimal c vals L hne hL hv hn

/-- the generated function is the model function (same value, same panic) -/
theorem generated_eq_model (c : Cfg) (vals : Array Nat) (L : Nat) (hne : vals.size ≠ 0) (hL : 1 ≤ L)
    (hv : ∀ x ∈ vals, x < 2^64) (hn : vals.size < 2^57) :
    GenFn.DacsOpt.compute_opt_widths c vals L = (DacO.optWidths c vals.toList L).map List.toArray :=
  GenEq.compute_opt_widths_eq' c vals L hne hL hv hn

/-- the chosen widths do not depend on the build configuration -/
theorem config_independent (c c' : Cfg) (vals : Array Nat) (L : Nat) (hne : vals.size ≠ 0) (hL : 1 ≤ L)
    (hv : ∀ x ∈ vals, x < 2^64) (hn : vals.size < 2^57) :
    GenFn.DacsOpt.compute_opt_widths c vals L = GenFn.DacsOpt.compute_opt_widths c' vals L := by
  rw [generated_eq_model c vals L hne hL hv hn, generated_eq_model c' vals L hne hL hv hn,
    Config.optWidths_cfg c c' vals.toList L]

-- non-vacuity: the hypotheses hold of a concrete input, and the generated function evaluates
example : (#[1, 5, 300, 70000, 2, 2, 9, 1000000007, 3] : Array Nat).size ≠ 0 ∧ (1 : Nat) ≤ 4 := by decide
end Sucds.C18Gen
