import Sucds.Proofs.GenSArray
import Sucds.Proofs.ConfigBuild
/-! # C03 over the definitions *generated from the Rust sources* of `SArray` (`src/bit_vectors/sarray.rs`)

`Props/C03.lean` states C03 about the hand-written model `SA`. Here the same clauses are stated about
`Sucds.GenFn.SArray.{from_bits, enable_rank, has_rank, num_bits, num_ones, access, select1, rank1, rank0,
predecessor1, successor1}` and everything below them (`BitVector::{from_bits, unary_iter}`, `UnaryIter::next`,
`EliasFanoBuilder::{new, push, build}`, `EliasFano::{enable_rank, select, rank, predecessor, successor, binsearch}`,
`DArray`, the broadword primitives), i.e. about the Lean definitions that `tools/gen_fns.py` produces from the
function bodies on every run.

For every bit sequence `bs` (every density, **including no set bit**), every build configuration and **every**
argument: the generated `from_bits` succeeds without panicking, the generated `enable_rank` succeeds, and both the
structure as built and the one after `enable_rank()` return `access(i) = bs[i]` (`None` iff `i ≥ u`), `select1(k)` =
position of the k-th one (`None` iff `k ≥ ones`), `num_bits = u`, `num_ones` = the true count; after `enable_rank()`
also `rank1`, `rank0`, `predecessor1`, `successor1` answer like the plain bit sequence.

Hypothesis changed with respect to `C03.Statement`: `2 * bs.length + 2 < 2^63` instead of `bs.length < 2^64`.
The Elias-Fano part stores its high bits (`ones + (len >> low_len) + 2 ≤ 2 * len + 2` of them) in a `DArray`, whose
generated `from_bits` converts positions to `isize`; the model uses unbounded `Nat` there. A bit sequence of `2^62`
bits needs `2^59` bytes, so the bound holds of every input that fits in memory. No hypothesis on the query arguments. -/
namespace Sucds.C03Gen
open Sucds Sucds.Spec
open Sucds.C03 (bitOf)

/-- queries available without the rank index, through the generated functions (`SA.PlainAnswers`) -/
structure PlainAnswers (c : Cfg) (s : SA) (P : Nat → Bool) (n : Nat) : Prop where
  numBits : GenFn.SArray.num_bits s = n
  numOnes : GenFn.SArray.num_ones s = cnt P n
  access  : ∀ i, GenFn.SArray.access c s i = .ok (if i < n then some (P i) else none)
  select1 : ∀ k, GenFn.SArray.select1 c s k = .ok (sel P n k)

/-- queries that need `enable_rank`, through the generated functions (`SA.RankAnswers`) -/
structure RankAnswers (c : Cfg) (s : SA) (P : Nat → Bool) (n : Nat) : Prop where
  rank1 : ∀ i, GenFn.SArray.rank1 c s i = .ok (if i ≤ n then some (cnt P i) else none)
  rank0 : ∀ i, GenFn.SArray.rank0 c s i = .ok (if i ≤ n then some (i - cnt P i) else none)
  pred1 : ∀ i, GenFn.SArray.predecessor1 c s i = .ok (if i < n then Spec.predP P i else none)
  succ1 : ∀ i, GenFn.SArray.successor1 c s i = .ok (if i < n then Spec.succP P n i else none)

/-- C03 for the generated `SArray`: `s` is `from_bits(bs)`, `s'` is `s.enable_rank()` -/
def Statement : Prop :=
  ∀ (c : Cfg) (bs : List Bool), 2 * bs.length + 2 < 2^63 →
    ∃ s s', GenFn.SArray.from_bits c bs = .ok s ∧ GenFn.SArray.has_rank s = false ∧
      GenFn.SArray.enable_rank c s = .ok s' ∧
      PlainAnswers c s (bitOf bs) bs.length ∧
      PlainAnswers c s' (bitOf bs) bs.length ∧
      RankAnswers c s' (bitOf bs) bs.length

theorem holds : Statement := fun c bs hl => by
  obtain ⟨s, s', h1, h2, h3, _, p, p', r⟩ := GenEq.sa_from_bits_answers c bs hl
  exact ⟨s, s', h1, h2, h3, ⟨p.num_bits, p.num_ones, p.access, p.select1⟩,
    ⟨p'.num_bits, p'.num_ones, p'.access, p'.select1⟩, ⟨r.rank1, r.rank0, r.pred1, r.succ1⟩⟩

/-- the remaining public functions of `sarray.rs` on the same structures: `has_rank` after `enable_rank`, `len`,
    `is_empty`, `num_zeros` (trait default, a checked subtraction), `select0` (unsupported: panics), and
    `Build::build_from_bits` (`Err` iff `select0` is requested; otherwise `from_bits` [+ `enable_rank`]) -/
theorem other_functions (c : Cfg) (bs : List Bool) (hl : 2 * bs.length + 2 < 2^63) :
    ∃ s s', GenFn.SArray.from_bits c bs = .ok s ∧ GenFn.SArray.enable_rank c s = .ok s' ∧
      GenFn.SArray.has_rank s' = true ∧
      GenFn.SArray.len s = bs.length ∧ GenFn.SArray.len s' = bs.length ∧
      GenFn.SArray.is_empty s = (bs.length == 0) ∧ GenFn.SArray.is_empty s' = (bs.length == 0) ∧
      GenFn.SArray.num_zeros c s = .ok (bs.length - cnt (bitOf bs) bs.length) ∧
      GenFn.SArray.num_zeros c s' = .ok (bs.length - cnt (bitOf bs) bs.length) ∧
      (∀ k, GenFn.SArray.select0 s k = .error .assertFail) ∧
      (∀ r s1, GenFn.SArray.build_from_bits c bs r s1 true = .ok RS.Res.err ∧
        GenFn.SArray.build_from_bits c bs r s1 false = .ok (RS.Res.ok (if r then s' else s))) := by
  obtain ⟨s, s', h1, _, h3, h4, p, p', _⟩ := GenEq.sa_from_bits_answers c bs hl
  refine ⟨s, s', h1, h3, h4, p.len, p'.len, p.is_empty, p'.is_empty, p.num_zeros, p'.num_zeros, fun _ => rfl,
    fun r s1 => ⟨rfl, ?_⟩⟩
  unfold GenFn.SArray.build_from_bits
  rw [if_neg (by simp), h1, GenEq.bok]
  cases r with
  | true => rw [if_pos rfl, if_pos rfl, h3, GenEq.bok]
  | false => rfl

/-- without `enable_rank` the generated rank-based queries hit their `debug_assert!(self.has_rank)` (as in the Rust
    code, and as the model: `SA.norank`) -/
theorem norank (c : Cfg) (s : SA) (hs : GenFn.SArray.has_rank s = false) (i : Nat) :
    GenFn.SArray.rank1 c s i = .error .assertFail ∧ GenFn.SArray.rank0 c s i = .error .assertFail ∧
    GenFn.SArray.predecessor1 c s i = .error .assertFail ∧ GenFn.SArray.successor1 c s i = .error .assertFail :=
  GenEq.sa_norank c s hs i

/-- the generated construction yields the model's structures, and every generated query is the model's query (same
    value, same panic) -/
theorem generated_eq_model (c : Cfg) (bs : List Bool) (hl : 2 * bs.length + 2 < 2^63) :
    ∃ s, SA.fromBV c (BV.fromBits bs) = .ok s ∧ GenFn.SArray.from_bits c bs = .ok s ∧
      GenFn.SArray.enable_rank c s = .ok (s.enableRank c) ∧
      GenEq.SAQueriesEq c s ∧ GenEq.SAQueriesEq c (s.enableRank c) := by
  obtain ⟨s, hs, _⟩ := C03.holds c bs (by omega)
  obtain ⟨ok0, ok1, her⟩ := GenEq.sa_fromBV_ok c (BV.fromBits bs) (BV.fromBits_spec bs).1
    (by rw [BV.fromBits_len]; exact hl) s hs
  exact ⟨s, hs, by rw [GenEq.sa_from_bits_eq c bs hl, hs], her, GenEq.sa_queries_eq c s ok0,
    GenEq.sa_queries_eq c _ ok1⟩

/-- configuration independence of the generated construction and queries (C15 for `sarray.rs`): both builds return
    the same structures, and a structure queried in another configuration gives the same answers -/
theorem config_independent (c c' : Cfg) (bs : List Bool) (hl : 2 * bs.length + 2 < 2^63) :
    GenFn.SArray.from_bits c bs = GenFn.SArray.from_bits c' bs ∧
    ∀ s s', GenFn.SArray.from_bits c bs = .ok s → GenFn.SArray.enable_rank c s = .ok s' →
      GenFn.SArray.enable_rank c' s = .ok s' ∧
      GenFn.SArray.num_zeros c s = GenFn.SArray.num_zeros c' s ∧
      ∀ a, GenFn.SArray.access c s a = GenFn.SArray.access c' s a ∧
        GenFn.SArray.select1 c s a = GenFn.SArray.select1 c' s a ∧
        GenFn.SArray.access c s' a = GenFn.SArray.access c' s' a ∧
        GenFn.SArray.select1 c s' a = GenFn.SArray.select1 c' s' a ∧
        GenFn.SArray.rank1 c s' a = GenFn.SArray.rank1 c' s' a ∧
        GenFn.SArray.rank0 c s' a = GenFn.SArray.rank0 c' s' a ∧
        GenFn.SArray.predecessor1 c s' a = GenFn.SArray.predecessor1 c' s' a ∧
        GenFn.SArray.successor1 c s' a = GenFn.SArray.successor1 c' s' a := by
  obtain ⟨x, x', hx, _, ex, _, a1, a2, a3⟩ := GenEq.sa_from_bits_answers c bs hl
  obtain ⟨y, y', hy, _, ey, _, b1, b2, b3⟩ := GenEq.sa_from_bits_answers c' bs hl
  have hfb : GenFn.SArray.from_bits c bs = GenFn.SArray.from_bits c' bs := by
    rw [GenEq.sa_from_bits_eq c bs hl, GenEq.sa_from_bits_eq c' bs hl, Config.SA_fromBV_cfg c c']
  -- both configurations build the same structures
  have hxy : x = y := by
    rw [hfb, hy] at hx; injection hx with hx; exact hx.symm
  subst hxy
  have hxy' : x' = y' := by
    obtain ⟨s, _, gs, es, _⟩ := generated_eq_model c bs hl
    obtain ⟨t, _, gt, et, _⟩ := generated_eq_model c' bs hl
    rw [hx] at gs; injection gs with gs; subst gs
    rw [hy] at gt; injection gt with gt; subst gt
    rw [ex] at es; injection es with es
    rw [ey] at et; injection et with et
    rw [es, et, Config.SA_enableRank_cfg c c']
  subst hxy'
  refine ⟨hfb, fun s s' hs hs' => ?_⟩
  rw [hx] at hs; injection hs with hs; subst hs
  rw [ex] at hs'; injection hs' with hs'; subst hs'
  exact ⟨ey, by rw [a1.num_zeros, b1.num_zeros], fun a => ⟨by rw [a1.access, b1.access], by rw [a1.select1, b1.select1], by rw [a2.access, b2.access],
    by rw [a2.select1, b2.select1], by rw [a3.rank1, b3.rank1], by rw [a3.rank0, b3.rank0], by rw [a3.pred1, b3.pred1],
    by rw [a3.succ1, b3.succ1]⟩⟩

/-- what the answer structures say, spelled out (cf. `C03.plain_meaning`, `C03.rank_meaning`) -/
theorem plain_meaning (c : Cfg) (s : SA) (P : Nat → Bool) (n : Nat) (h : PlainAnswers c s P n) :
    GenFn.SArray.num_bits s = n ∧ GenFn.SArray.num_ones s = cnt P n ∧
    (∀ i, GenFn.SArray.access c s i = .ok (if i < n then some (P i) else none)) ∧
    (∀ k, GenFn.SArray.select1 c s k = .ok (sel P n k)) := ⟨h.numBits, h.numOnes, h.access, h.select1⟩
theorem rank_meaning (c : Cfg) (s : SA) (P : Nat → Bool) (n : Nat) (h : RankAnswers c s P n) :
    (∀ i, GenFn.SArray.rank1 c s i = .ok (if i ≤ n then some (cnt P i) else none)) ∧
    (∀ i, GenFn.SArray.rank0 c s i = .ok (if i ≤ n then some (i - cnt P i) else none)) ∧
    (∀ i, GenFn.SArray.predecessor1 c s i = .ok (if i < n then predP P i else none)) ∧
    (∀ i, GenFn.SArray.successor1 c s i = .ok (if i < n then succP P n i else none)) := ⟨h.rank1, h.rank0, h.pred1, h.succ1⟩

/-! ### non-vacuity and closed evaluations -/

/-- a small instance: seven bits; and the vector without a set bit -/
def bsEx : List Bool := [true, false, true, true, false, false, true]
def zerosEx : List Bool := [false, false, false]

-- the only hypothesis is the length bound; it holds of the instances
example : 2 * bsEx.length + 2 < 2^63 := by decide
example : 2 * zerosEx.length + 2 < 2^63 := by decide

-- closed evaluation of the generated code itself (`from_bits`, `enable_rank`, then `rank1(4)`; `select1(3)`), checked build
example : ((GenFn.SArray.from_bits ⟨true, false⟩ bsEx).bind fun s =>
    (GenFn.SArray.enable_rank ⟨true, false⟩ s).bind fun s' => GenFn.SArray.rank1 ⟨true, false⟩ s' 4).toOption
      = some (some 3) := by decide +kernel
example : ((GenFn.SArray.from_bits ⟨true, false⟩ bsEx).bind fun s =>
    GenFn.SArray.select1 ⟨true, false⟩ s 3).toOption = some (some 6) := by decide +kernel

-- the same through the theorem, for every configuration
example (c : Cfg) : ∃ s s', GenFn.SArray.from_bits c bsEx = .ok s ∧ GenFn.SArray.enable_rank c s = .ok s' ∧
    GenFn.SArray.select1 c s 3 = .ok (some 6) ∧ GenFn.SArray.select1 c s 4 = .ok none ∧
    GenFn.SArray.access c s' 2 = .ok (some true) ∧ GenFn.SArray.rank1 c s' 4 = .ok (some 3) ∧
    GenFn.SArray.predecessor1 c s' 5 = .ok (some 3) ∧ GenFn.SArray.successor1 c s' 4 = .ok (some 6) ∧
    GenFn.SArray.num_ones s = 4 := by
  obtain ⟨s, s', h1, _, h3, p, p', r⟩ := holds c bsEx (by decide)
  exact ⟨s, s', h1, h3, by rw [p.select1]; rfl, by rw [p.select1]; rfl, by rw [p'.access]; rfl, by rw [r.rank1]; rfl,
    by rw [r.pred1]; rfl, by rw [r.succ1]; rfl, by rw [p.numOnes]; rfl⟩

-- the vector without a set bit
example (c : Cfg) : ∃ s s', GenFn.SArray.from_bits c zerosEx = .ok s ∧ GenFn.SArray.enable_rank c s = .ok s' ∧
    GenFn.SArray.select1 c s 0 = .ok none ∧ GenFn.SArray.access c s 1 = .ok (some false) ∧
    GenFn.SArray.rank1 c s' 3 = .ok (some 0) ∧ GenFn.SArray.successor1 c s' 0 = .ok none ∧
    GenFn.SArray.num_ones s = 0 := by
  obtain ⟨s, s', h1, _, h3, p, p', r⟩ := holds c zerosEx (by decide)
  exact ⟨s, s', h1, h3, by rw [p.select1]; rfl, by rw [p.access]; rfl, by rw [r.rank1]; rfl, by rw [r.succ1]; rfl,
    by rw [p.numOnes]; rfl⟩
end Sucds.C03Gen
