import Sucds.Proofs.EliasFanoHigh
import Sucds.Proofs.EliasFanoHistory
/-! # C04 — EliasFano behaves as the sorted multiset it was built from

For every universe `u < 2^64`, capacity `m ≥ 1`, **every** push history `hist` and every build configuration:
the builder never panics and keeps exactly the greedy filter `xs = accepted u m [] hist` of the history (for a
non-decreasing `hist` below `u` of length `≤ m` that is `hist` itself — `accepted_of_valid`); the sequence
built from it (`build()` then `enable_rank()`: `DArray` over the high bits with its zero index) satisfies, for
**every** argument: `select(k) = x_k`, `delta(k) = x_k − x_{k−1}` (`x_{−1} = 0`), `rank(p) = #{x < p}` for
`p ≤ u`, `predecessor(p) = max{x ≤ p}` and `successor(p) = min{x ≥ p}` for `p < u`, `iter(k)` yields
`x_k … x_{n−1}` and then `None` forever, `binsearch_range(lo..hi, v)` returns an index in the range holding
`v` iff one exists (`None` for an empty range or one ending beyond `n`), `binsearch(v)` likewise over the
whole sequence; each `None` exactly outside those domains; `len = n`, `universe = u`. No `unwrap`, overflow
check or debug assertion can fire. -/
namespace Sucds.C04
open Sucds Sucds.Spec Sucds.EFB Sucds.EFQ

/-- what the built sequence `e` must answer for the stored list `xs` and universe `u` -/
structure Answers (c : Cfg) (e : EF) (u : Nat) (xs : List Nat) : Prop where
  len      : e.len = xs.length
  univ     : e.univ = u
  select   : ∀ k, e.select c k = .ok xs[k]?
  delta    : ∀ k, e.delta c k = .ok (if k < xs.length then some (X xs k - (if k = 0 then 0 else X xs (k - 1))) else none)
  rank     : ∀ p, e.rank c p = .ok (if p ≤ u then some (rk xs p) else none)
  pred     : ∀ p, e.predecessor c p = .ok (if p < u then predV xs p else none)
  succ     : ∀ p, e.successor c p = .ok (if p < u then succV xs p else none)
  iter     : ∀ k, ∃ it0, e.iter c k = .ok it0 ∧
               ∀ t, ∃ it', itRun c e (xs.length - k + t) it0 = .ok (it', (xs.drop k).map some ++ List.replicate t none)
  bs_none  : ∀ lo hi v, (hi ≤ lo ∨ xs.length < hi) → e.binsearchRange c lo hi v = .ok none
  bs_some  : ∀ lo hi v, lo < hi → hi ≤ xs.length → ∃ r, e.binsearchRange c lo hi v = .ok r ∧
               match r with
               | some i => lo ≤ i ∧ i < hi ∧ xs[i]? = some v
               | none => ∀ i, lo ≤ i → i < hi → xs[i]? ≠ some v
  bs_all   : ∀ v, e.binsearch c v = e.binsearchRange c 0 xs.length v

def Statement : Prop :=
  ∀ (c : Cfg) (u m : Nat) (hist : List Nat), m ≠ 0 → u < 2^64 →
    ∃ b0 b', EFB.new u m = some b0 ∧ EFB.run b0 hist = .ok (b', verdicts u m [] hist) ∧
      Answers c ((EF.ofBuilder c b').enableRank c) u (accepted u m [] hist)

theorem holds : Statement := by
  intro c u m hist hm hu
  obtain ⟨b0, hn, hh, hu0, hm0⟩ := new_holds u m hm hu
  obtain ⟨b', hr, hh', hub, _⟩ := run_spec hist b0 [] hh
  rw [hu0, hm0] at hr hh'
  rw [hu0] at hub
  refine ⟨b0, b', hn, hr, ?_⟩
  have hu' : b'.univ < 2^64 := by rw [hub]; exact hu
  obtain ⟨a1, a2, a3, a4, a5, a6, a7, a8, a9, a10⟩ :=
    ranked_queries c b' _ hh' hu' (high_enableRank c b' _ hh')
  rw [hub] at a4 a5 a6
  exact ⟨a1, hub, a2, a3, a4, a5, a6, a7, a8, a9, a10⟩

/-- a valid input (non-decreasing, below `u`, at most `m` values) is accepted entirely -/
theorem accepted_of_valid (u m : Nat) : ∀ (hist acc : List Nat),
    (acc ++ hist).Pairwise (· ≤ ·) → (∀ x ∈ hist, x < u) → acc.length + hist.length ≤ m →
    accepted u m acc hist = acc ++ hist := by
  intro hist
  induction hist with
  | nil => intro acc _ _ _; simp [accepted]
  | cons v vs ih =>
    intro acc hs hb hl
    have h1 : acc.getLast?.getD 0 ≤ v := by
      cases hlast : acc.getLast? with
      | none => simp
      | some l =>
        have hmem : l ∈ acc := List.mem_of_getLast? hlast
        have := List.pairwise_append.mp hs
        simpa using this.2.2 l hmem v (by simp)
    have h2 : v < u := hb v (by simp)
    have h3 : acc.length < m := by simp at hl; omega
    simp only [accepted, h1, h2, h3, and_self, if_true]
    rw [ih (acc ++ [v]) (by simpa using hs) (fun x hx => hb x (by simp [hx])) (by simp at hl ⊢; omega)]
    simp

/-- the spec functions mean what the property says (for the sorted list the builder holds) -/
theorem rank_meaning (xs : List Nat) (p : Nat) : rk xs p = xs.countP (· < p) := rfl
theorem pred_meaning : type_of% (@predV_some_iff) := @predV_some_iff
theorem succ_meaning : type_of% (@succV_some_iff) := @succV_some_iff
end Sucds.C04
