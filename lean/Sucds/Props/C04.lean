import Sucds.Proofs.EliasFanoHistory
import Sucds.Proofs.UnaryCode
/-! # C04 — EliasFano behaves as the sorted multiset it was built from (partial)

Proved: the builder invariant for every history and `select k = x_k` for every `k` given the `select1`
answers of the high-bit index (`select_via_high_bits`); the counting lemmas of the unary code of the high
parts (`kth_one`, `cnt_eq_below`). Missing: `delta`, `rank`, `predecessor`, `successor`, `binsearch*`,
the iterator, and discharging the `select1` hypothesis by the DArray theorem (C02). -/
namespace Sucds.C04
open Sucds Sucds.Spec Sucds.EFB
theorem select_via_high_bits (b : EFB) (xs : List Nat) (h : Holds b xs) (k : Nat) :
    b.selectWith (sel b.high.bitAt b.high.len k) k = .ok xs[k]? := select_ok b xs h k
theorem builder_invariant : type_of% (@EFB.run_spec) := @EFB.run_spec
end Sucds.C04
