import Sucds.Proofs.WMr
/-! # C06 — WaveletMatrix quantile/intersect (partial): the range-mapping lemmas shared with C05
    (`step_false`, `step_true`: the image of a range under one layer is the sub-sequence with that bit). -/
namespace Sucds.C06
theorem range_maps_zero : type_of% (@WMr.step_false) := @WMr.step_false
theorem range_maps_one : type_of% (@WMr.step_true) := @WMr.step_true
end Sucds.C06
