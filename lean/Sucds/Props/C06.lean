import Sucds.Proofs.WaveletBackings
/-! # C06 — WaveletMatrix quantile and intersect equal sort / set semantics of the ranges

Same setting as C05 (every non-empty `s` with representable `alph_size`, `n < 2^63`, three backings, every
configuration, every argument): `quantile(a..b, k)` is the k-th smallest element of `s[a..b)` when `b ≤ n` and
`k < b − a` and `None` otherwise (so also for reversed ranges); `intersect(ranges, k)` is `None` iff some range
ends beyond `n`, and otherwise a strictly ascending list (hence without repeats) holding exactly the values that
occur in more than `k` of the non-empty ranges. Nothing panics. -/
namespace Sucds.C06
open Sucds Sucds.Spec Sucds.Wav

def Statement : Prop :=
  ∀ (c : Cfg) (k : Backing) (s : List Nat), s ≠ [] → s.foldl max 0 + 1 < 2^64 → s.length < 2^63 →
    ∃ wm, WM.new c k s = .ok (some wm) ∧
      (∀ a b j, wm.quantile c a b j =
        .ok (if b ≤ s.length ∧ j < b - a then (SpecX.sort ((s.take b).drop a))[j]? else none)) ∧
      (∀ ranges j,
        (ranges.any (fun r => decide (s.length < r.2)) = true → wm.intersect c ranges j = .ok none) ∧
        (ranges.any (fun r => decide (s.length < r.2)) = false →
          ∃ out, wm.intersect c ranges j = .ok (some out) ∧ out.Pairwise (· < ·) ∧
            ∀ x, x ∈ out ↔
              j < ((ranges.filter fun r => decide (r.1 < r.2)).countP fun r => decide (x ∈ (s.take r.2).drop r.1))))

theorem holds : Statement := by
  intro c k s hne hmax hn
  have hn64 : s.length < 2^64 := Nat.lt_of_lt_of_le hn (by decide)
  obtain ⟨wm, hnew, hb⟩ := new_ok c k s ((backing_ok c k).for _) hne hmax hn64
  exact ⟨wm, hnew, quantile_ok c wm s hb hn, fun ranges j => intersect_ok c wm s hb hn ranges j⟩

/-- `SpecX.sort` is a sorting function: a sorted permutation of its input -/
theorem sort_is_sorting : type_of% (@sort_perm) := @sort_perm
theorem sort_is_sorted : type_of% (@sort_sorted) := @sort_sorted
end Sucds.C06
