import Sucds.Proofs.C05GenAux
/-! # C05 over the `WaveletMatrix` definitions *generated from the Rust sources* (`src/char_sequences/wavelet_matrix.rs`)

`Props/C05.lean` with every model function replaced by the generated one.  The translator emits one copy of the
`impl<B> WaveletMatrix<B>` block per backing `B`; `gen k` selects the copy of backing `k` (`Rank9Sel`, `DArray`,
`BitVector`).  `WaveletMatrix::new` takes a `CompactVector`: the sequence `s` of the model statement is the one the
vector `cv` represents (`CV.Rep cv s`, what `CompactVector::from_slice(s)` returns — C09Gen, `from_slice` below).

Hypotheses added to `C05.Statement` (bounds by `usize::MAX = 2^64 - 1`, nothing else):
* `cv.len * cv.width < 2^64` — the bit length of the input vector is a `usize`;
* `s.length * bitlen (max s + 1) < 2^64` — the bit length of the vectors `next_zeros`/`next_ones` of `new`
  (`alph_width` bits per element) is a `usize`;
* every position / rank argument is a `usize`: `i, a, b, p, j < 2^64` (values `v` are unrestricted). -/
namespace Sucds.C05Gen
open Sucds Sucds.Spec

/-- the functions generated for one instance `WaveletMatrix<B>` (`quantile`, `intersect`: C06Gen) -/
structure Api where
  W : Type
  new : Cfg → CV → R (RS.Res W)
  alph_size : W → Nat
  len : W → R Nat
  access : Cfg → W → Nat → R (Option Nat)
  rank_range : Cfg → W → Nat × Nat → Nat → R (Option Nat)
  rank : Cfg → W → Nat → Nat → R (Option Nat)
  select : Cfg → W → Nat → Nat → R (Option Nat)
  quantile : Cfg → W → Nat × Nat → Nat → R (Option Nat)
  intersect : Cfg → W → Array (Nat × Nat) → Nat → R (Option (Array Nat))

open GenFn in
/-- the generated copy of `impl<B> WaveletMatrix<B>` for each backing -/
def gen : Backing → Api
  | .r9 => ⟨WaveletMatrix_Rank9Sel, WaveletMatrix_Rank9Sel.new, WaveletMatrix_Rank9Sel.alph_size, WaveletMatrix_Rank9Sel.len,
            WaveletMatrix_Rank9Sel.access, WaveletMatrix_Rank9Sel.rank_range, WaveletMatrix_Rank9Sel.rank,
            WaveletMatrix_Rank9Sel.select, WaveletMatrix_Rank9Sel.quantile, WaveletMatrix_Rank9Sel.intersect⟩
  | .da => ⟨WaveletMatrix_DArray, WaveletMatrix_DArray.new, WaveletMatrix_DArray.alph_size, WaveletMatrix_DArray.len,
            WaveletMatrix_DArray.access, WaveletMatrix_DArray.rank_range, WaveletMatrix_DArray.rank,
            WaveletMatrix_DArray.select, WaveletMatrix_DArray.quantile, WaveletMatrix_DArray.intersect⟩
  | .bv => ⟨WaveletMatrix_BitVector, WaveletMatrix_BitVector.new, WaveletMatrix_BitVector.alph_size, WaveletMatrix_BitVector.len,
            WaveletMatrix_BitVector.access, WaveletMatrix_BitVector.rank_range, WaveletMatrix_BitVector.rank,
            WaveletMatrix_BitVector.select, WaveletMatrix_BitVector.quantile, WaveletMatrix_BitVector.intersect⟩

/-- a generated value read as a model value: the layers wrapped by the backing's constructor of `Lay` -/
def repr : (k : Backing) → (gen k).W → WM
  | .r9 => GenEq.absR9
  | .da => GenEq.absDA
  | .bv => GenEq.absBV

def Statement : Prop :=
  ∀ (c : Cfg) (k : Backing) (cv : CV) (s : List Nat), CV.Rep cv s →
    s ≠ [] → s.foldl max 0 + 1 < 2^64 → s.length < 2^63 →
    cv.len * cv.width < 2^64 → s.length * SpecX.bitlen (s.foldl max 0 + 1) < 2^64 →
    ∃ wm, (gen k).new c cv = .ok (.ok wm) ∧
      (gen k).alph_size wm = s.foldl max 0 + 1 ∧ (gen k).len wm = .ok s.length ∧
      (∀ i, i < 2^64 → (gen k).access c wm i = .ok s[i]?) ∧
      (∀ a b v, a < 2^64 → b < 2^64 → (gen k).rank_range c wm (a, b) v =
        .ok (if b ≤ s.length then some (((s.take b).drop a).count v) else none)) ∧
      (∀ p v, p < 2^64 → (gen k).rank c wm p v = .ok (if p ≤ s.length then some ((s.take p).count v) else none)) ∧
      (∀ j v, j < 2^64 → (gen k).select c wm j v = .ok (sel (fun i => decide (s[i]? = some v)) s.length j))

theorem holds : Statement := by
  intro c k cv s h hne hmax hn hsz hnW
  cases k with
  | r9 => exact GenEq.wm_c05 c cv s h hne hmax hn hsz hnW
  | da => exact GenEq.wm_da_c05 c cv s h hne hmax hn hsz hnW
  | bv => exact GenEq.wm_bv_c05 c cv s h hne hmax hn hsz hnW

/-- `new` on an empty sequence is `Err` (`C05.new_empty`) -/
theorem new_empty (c : Cfg) (k : Backing) (cv : CV) (h : CV.Rep cv []) : (gen k).new c cv = .ok .err := by
  cases k with
  | r9 => exact (GenEq.wm_new_nil c cv h).1
  | da => exact (GenEq.wm_da_new_nil c cv h).1
  | bv => exact (GenEq.wm_bv_new_nil c cv h).1

/-- the generated constructor returns the value the model's `WM.new` returns (`repr k` reads a generated value as a
    model value: the layers wrapped by the backing's constructor) -/
theorem new_is_model (c : Cfg) (k : Backing) (cv : CV) (s : List Nat) (h : CV.Rep cv s)
    (hne : s ≠ []) (hmax : s.foldl max 0 + 1 < 2^64) (hn : s.length < 2^63)
    (hsz : cv.len * cv.width < 2^64) (hnW : s.length * SpecX.bitlen (s.foldl max 0 + 1) < 2^64) :
    ∃ wm, (gen k).new c cv = .ok (.ok wm) ∧ WM.new c k s = .ok (some (repr k wm)) := by
  cases k with
  | r9 => obtain ⟨g, h1, h2, _⟩ := GenEq.wm_new_eq c cv s h hne hmax hn hsz hnW; exact ⟨g, h1, h2⟩
  | da => obtain ⟨g, h1, h2, _⟩ := GenEq.wm_da_new_eq c cv s h hne hmax hn hsz hnW; exact ⟨g, h1, h2⟩
  | bv => obtain ⟨g, h1, h2, _⟩ := GenEq.wm_bv_new_eq c cv s h hne hmax hn hsz hnW; exact ⟨g, h1, h2⟩

/-- the generated `new` builds the same value in every configuration -/
theorem new_config_independent (c c' : Cfg) (k : Backing) (cv : CV) (s : List Nat) (h : CV.Rep cv s)
    (hne : s ≠ []) (hmax : s.foldl max 0 + 1 < 2^64) (hn : s.length < 2^63)
    (hsz : cv.len * cv.width < 2^64) (hnW : s.length * SpecX.bitlen (s.foldl max 0 + 1) < 2^64) :
    (gen k).new c cv = (gen k).new c' cv := by
  cases k with
  | r9 => exact GenEq.wm_new_cfg c c' cv s h hne hmax hn hsz hnW
  | da => exact GenEq.wm_da_new_cfg c c' cv s h hne hmax hn hsz hnW
  | bv => exact GenEq.wm_bv_new_cfg c c' cv s h hne hmax hn hsz hnW

/-- configuration independence: `new` builds the same value in every configuration, and every query on it gives
    the same answer -/
theorem config_independent (c c' : Cfg) (k : Backing) (cv : CV) (s : List Nat) (h : CV.Rep cv s)
    (hne : s ≠ []) (hmax : s.foldl max 0 + 1 < 2^64) (hn : s.length < 2^63)
    (hsz : cv.len * cv.width < 2^64) (hnW : s.length * SpecX.bitlen (s.foldl max 0 + 1) < 2^64) :
    (gen k).new c cv = (gen k).new c' cv ∧
    ∀ wm, (gen k).new c cv = .ok (.ok wm) →
      (∀ i, i < 2^64 → (gen k).access c wm i = (gen k).access c' wm i) ∧
      (∀ a b v, a < 2^64 → b < 2^64 → (gen k).rank_range c wm (a, b) v = (gen k).rank_range c' wm (a, b) v) ∧
      (∀ p v, p < 2^64 → (gen k).rank c wm p v = (gen k).rank c' wm p v) ∧
      (∀ j v, j < 2^64 → (gen k).select c wm j v = (gen k).select c' wm j v) := by
  have e := new_config_independent c c' k cv s h hne hmax hn hsz hnW
  obtain ⟨wm, h1, _, _, a1, r1, p1, s1⟩ := holds c k cv s h hne hmax hn hsz hnW
  obtain ⟨wm', h2, _, _, a2, r2, p2, s2⟩ := holds c' k cv s h hne hmax hn hsz hnW
  refine ⟨e, fun w hw => ?_⟩
  have e1 : w = wm := by rw [h1] at hw; injection hw with hw; injection hw with hw; exact hw.symm
  have e2 : wm' = wm := by rw [e, h2] at h1; injection h1 with h1; injection h1 with h1
  subst e1; subst e2
  exact ⟨fun i hi => by rw [a1 i hi, a2 i hi], fun a b v ha hb => by rw [r1 a b v ha hb, r2 a b v ha hb],
    fun p v hp => by rw [p1 p v hp, p2 p v hp], fun j v hj => by rw [s1 j v hj, s2 j v hj]⟩

/-- the usual way to obtain the input: `WaveletMatrix::new(CompactVector::from_slice(s)?)`.  One size hypothesis
    (`from_slice` rounds the bit length up to words) replaces `CV.Rep` and both bit-length bounds. -/
theorem from_slice (c : Cfg) (s : List Nat) (hne : s ≠ []) (hmax : s.foldl max 0 + 1 < 2^64)
    (hbits : s.length * SpecX.bitlen (s.foldl max 0 + 1) + 64 < 2^64) :
    ∃ cv, GenFn.CompactVector.from_slice c s.toArray = .ok (.ok cv) ∧ CV.Rep cv s ∧
      cv.len * cv.width < 2^64 ∧ s.length * SpecX.bitlen (s.foldl max 0 + 1) < 2^64 := by
  obtain ⟨cv, h1, h2, h3⟩ := GenEq.cv_from_slice_rep c s hne hmax hbits
  exact ⟨cv, h1, h2, h3, by omega⟩

/-! ### non-vacuity -/
/-- the hypotheses hold for `[3, 1, 4, 1, 5, 9, 2, 6]`: in every configuration and for every backing the generated
    pipeline succeeds and the generated queries give the expected answers -/
example (c : Cfg) (k : Backing) : ∃ cv wm, GenFn.CompactVector.from_slice c #[3, 1, 4, 1, 5, 9, 2, 6] = .ok (.ok cv) ∧
    (gen k).new c cv = .ok (.ok wm) ∧ (gen k).len wm = .ok 8 ∧ (gen k).alph_size wm = 10 ∧
    (gen k).access c wm 2 = .ok (some 4) ∧ (gen k).access c wm 8 = .ok none ∧
    (gen k).rank c wm 4 1 = .ok (some 2) ∧ (gen k).rank_range c wm (1, 7) 1 = .ok (some 2) ∧
    (gen k).select c wm 1 1 = .ok (some 3) ∧ (gen k).select c wm 0 7 = .ok none := by
  have hmax : [3, 1, 4, 1, 5, 9, 2, 6].foldl max 0 + 1 < 2^64 := by decide
  have hb := Nat.mul_le_mul_left [3, 1, 4, 1, 5, 9, 2, 6].length (Wav.bitlen_le _ hmax)
  have e : [3, 1, 4, 1, 5, 9, 2, 6].length = 8 := rfl
  obtain ⟨cv, h1, h2, h3, h4⟩ := from_slice c [3, 1, 4, 1, 5, 9, 2, 6] (by decide) hmax
    (by rw [e] at hb ⊢; omega)
  obtain ⟨wm, g1, g2, g3, ga, gr, gp, gs⟩ := holds c k cv _ h2 (by decide) hmax (by decide) h3 h4
  refine ⟨cv, wm, h1, g1, g3, g2, ?_, ?_, ?_, ?_, ?_, ?_⟩
  · rw [ga 2 (by decide)]; rfl
  · rw [ga 8 (by decide)]; rfl
  · rw [gp 4 1 (by decide)]; rfl
  · rw [gr 1 7 1 (by decide) (by decide)]; rfl
  · rw [gs 1 1 (by decide)]; exact congrArg _ (by decide)
  · rw [gs 0 7 (by decide)]; exact congrArg _ (by decide)

-- closed evaluation of the generated functions (checked build, `DArray` backing)
set_option maxRecDepth 100000 in
example : ((GenFn.CompactVector.from_slice ⟨true, false⟩ #[3, 1, 4, 1, 5]).bind fun r => (RS.unwrapRes r).bind fun cv =>
      ((gen .da).new ⟨true, false⟩ cv).bind fun r => (RS.unwrapRes r).bind fun wm =>
      ((gen .da).access ⟨true, false⟩ wm 2).bind fun a => ((gen .da).rank ⟨true, false⟩ wm 4 1).bind fun b =>
      ((gen .da).select ⟨true, false⟩ wm 1 1).bind fun d => .ok (a, b, d)) = .ok (some 4, some 2, some 3) := by rfl
end Sucds.C05Gen
