import Sucds.Proofs.C09GenAux
/-! # C09 over the definitions *generated from the Rust sources* (`src/int_vectors/compact_vector.rs`)

`Props/C09.lean` with every model function replaced by the generated one: `GenFn.CompactVector.{new, with_capacity,
from_int, from_slice, push_int, set_int, extend, get_int, access, len, width, iter}` and the generated iterator.
Constructors, operations (`CV.Ctor`, `CV.Op`) and their list semantics (`specCtor`, `specApply`, `specRun`) are the
ones of C09; `Result<()>` verdicts are `RS.Res Unit`.

Hypotheses added (true of every value the Rust code can hold; the model uses unbounded `Nat` there):
with `L` = the number of integers stored at the **end** of the history and `w` the width,
`L * w + 64 < 2^64` (the bit length rounded up to words is a `usize`; `from_int`/`from_slice` compute it for their
capacity) and `L < 2^64` (`len` is a `usize`; implied by the first bound unless `w = 0`, the `Default` vector of
`from_slice(&[])`). Nothing is assumed about rejected operations: a rejected `push_int`/`set_int` and the items
after the first misfit of an `extend` need no bound. `with_capacity(capa, w)` needs `capa * w + 64 < 2^64` when the
width is accepted (the product is computed with a checked multiplication, then rounded up to words). -/
namespace Sucds.C09Gen
open Sucds Sucds.CV

/-- `Ok(())` / `Err` -/
def resU (b : Bool) : RS.Res Unit := if b then RS.Res.ok () else RS.Res.err

/-- a constructor call through the generated functions -/
def gconstruct (c : Cfg) : Ctor → R (RS.Res CV)
  | .new w => .ok (GenFn.CompactVector.new w)
  | .fromInt val len w => GenFn.CompactVector.from_int c val len w
  | .fromSlice vals => GenFn.CompactVector.from_slice c vals.toArray

/-- one operation through the generated functions -/
def gapply (c : Cfg) (v : CV) : Op → R (CV × RS.Res Unit)
  | .pushInt x => GenFn.CompactVector.push_int c v x
  | .setInt pos x => GenFn.CompactVector.set_int c v pos x
  | .extend xs => GenFn.CompactVector.extend c v xs

/-- a history through the generated functions (the generated counterpart of `CV.run`) -/
def grun (c : Cfg) : CV → List Op → R CV
  | v, [] => .ok v
  | v, op :: ops => (gapply c v op).bind fun r => grun c r.1 ops

/-- `CV.Faithful` read through the generated accessors: `len`, `width`, `get_int`/`access` at **every** index,
    the generated iterator (`n` calls of `size_hint` then `next`), canonical equality -/
structure GFaithful (c : Cfg) (v : CV) (w : Nat) (xs : List Nat) : Prop where
  rep : Rep v xs
  len : GenFn.CompactVector.len v = xs.length
  width : GenFn.CompactVector.width v = w
  get : ∀ i, GenFn.CompactVector.get_int c v i = .ok xs[i]? ∧ GenFn.CompactVector.access c v i = .ok xs[i]?
  iter : ∀ n, GenEq.cvRunN c (GenFn.CompactVector.iter v) n =
      .ok ((List.range n).map (fun j => (xs[j]?, (xs.length - j, some (xs.length - j)))))
  canon : ∀ u, Rep u xs → u.width = w → u = v

def Statement : Prop :=
  -- `with_capacity` is `new` (the capacity is only used to reserve memory)
  (∀ (c : Cfg) (capa w : Nat), (capa * w + 64 < 2^64 ∨ ¬ (1 ≤ w ∧ w ≤ 64)) →
    GenFn.CompactVector.with_capacity c capa w = .ok (GenFn.CompactVector.new w)) ∧
  ∀ (c : Cfg) (k : Ctor), k.Small → ∀ (ops : List Op), (∀ op ∈ ops, op.Small) →
    match specCtor k with
    | none => gconstruct c k = .ok RS.Res.err
    | some (w, xs0) =>
      (specRun w xs0 ops).length * w + 64 < 2^64 → (specRun w xs0 ops).length < 2^64 →
      ∃ v0 v', gconstruct c k = .ok (RS.Res.ok v0) ∧ GFaithful c v0 w xs0 ∧
        grun c v0 ops = .ok v' ∧ GFaithful c v' w (specRun w xs0 ops) ∧
        ∀ pre op post, ops = pre ++ op :: post →
          ∃ v1 v2, grun c v0 pre = .ok v1 ∧ GFaithful c v1 w (specRun w xs0 pre) ∧
            gapply c v1 op = .ok (v2, resU (specApply w (specRun w xs0 pre) op).2) ∧
            GFaithful c v2 w (specApply w (specRun w xs0 pre) op).1 ∧
            grun c v2 post = .ok v' ∧
            ((specApply w (specRun w xs0 pre) op).2 = false → (∀ o, op ≠ .extend o) → v2 = v1)

/-! ### transfer from the model -/

theorem gfaithful_of (c : Cfg) {v : CV} {w : Nat} {xs : List Nat} (h : Faithful v w xs)
    (hsz : xs.length * w < 2^64) (hl : xs.length < 2^64) : GFaithful c v w xs := by
  have hsz' : v.len * v.width < 2^64 := by rw [h.len, h.width]; exact hsz
  refine ⟨h.rep, h.len, h.width, fun i => ⟨GenEq.cv_get_int_spec c v xs h.rep hsz' i, GenEq.cv_access_spec c v xs h.rep hsz' i⟩,
    fun n => ?_, h.canon⟩
  exact GenEq.cv_iter_c17 c v xs h.rep hsz' (by rw [h.len]; exact hl) n

/-- one generated operation = the model's, when the resulting contents have at most `L` items -/
theorem gapply_eq (c : Cfg) (v : CV) (xs : List Nat) (h : Rep v xs) (op : Op) (hs : op.Small) (L : Nat)
    (hL : (specApply v.width xs op).1.length ≤ L) (hsz : L * v.width < 2^64) (hl : L < 2^64) :
    gapply c v op = (v.apply op).map GenEq.cvRes := by
  have hb := GenEq.c09_mul_le (w := v.width) hL
  cases op with
  | pushInt x =>
    refine GenEq.c09_push_eq c v xs h x hs (fun hx => ?_)
    simp only [specApply, if_pos hx, List.length_append, List.length_singleton] at hL hb
    exact ⟨by omega, by omega⟩
  | setInt pos x =>
    have h0 := GenEq.c09_mul_le (w := v.width) (Nat.le_trans (GenEq.c09_specApply_len_le v.width xs (.setInt pos x)) hL)
    exact GenEq.cv_set_int_eq_cvRes c v h.wle (by rw [h.len]; omega) pos x
  | extend vs =>
    simp only [specApply, List.length_append] at hL hb
    exact GenEq.c09_extend_eq c v xs h vs hs (by omega) (by omega)

/-- a generated history = the model's, when the final contents have at most `L` items -/
theorem grun_eq (c : Cfg) (ops : List Op) : ∀ (v : CV) (xs : List Nat), Rep v xs → (∀ op ∈ ops, op.Small) →
    ∀ L, (specRun v.width xs ops).length ≤ L → L * v.width < 2^64 → L < 2^64 → grun c v ops = run v ops := by
  induction ops with
  | nil => intro v xs _ _ L _ _ _; rfl
  | cons op t ih =>
    intro v xs h hs L hL hsz hl
    obtain ⟨v1, ha, hr, hw, _⟩ := apply_spec v xs h op (hs op (by simp))
    have h1 := gapply_eq c v xs h op (hs op (by simp)) L
      (Nat.le_trans (GenEq.c09_specRun_len_le v.width t _) hL) hsz hl
    simp only [grun, run]
    rw [h1, ha]
    exact ih v1 _ hr (fun o ho => hs o (by simp [ho])) L (by rw [hw]; exact hL) (by rw [hw]; exact hsz) hl

/-- the generated constructors against the model's, in the accepted case -/
theorem gconstruct_ok (c : Cfg) (k : Ctor) (hk : k.Small) (w : Nat) (xs0 : List Nat) (hsp : specCtor k = some (w, xs0))
    (hsz : xs0.length * w + 64 < 2^64) (v0 : CV) (hc : construct c k = .ok (some v0)) :
    gconstruct c k = .ok (RS.Res.ok v0) := by
  cases k with
  | new width =>
    simp only [construct, Except.ok.injEq] at hc
    simp only [gconstruct, GenEq.cv_new_eq, hc]
  | fromInt val len width =>
    simp only [specCtor] at hsp
    split at hsp
    · simp only [Option.some.injEq, Prod.mk.injEq] at hsp
      obtain ⟨rfl, rfl⟩ := hsp
      rw [List.length_replicate] at hsz
      simp only [construct] at hc
      simp only [gconstruct]
      rw [GenEq.cv_from_int_eq c val len width hsz, hc]; rfl
    · cases hsp
  | fromSlice vals =>
    simp only [construct] at hc
    simp only [gconstruct]
    rw [GenEq.c09_from_slice_eq c vals hk ?_, hc]; rfl
    simp only [specCtor] at hsp
    split at hsp
    · subst_vars; decide
    · simp only [Option.some.injEq, Prod.mk.injEq] at hsp
      obtain ⟨rfl, rfl⟩ := hsp
      exact hsz

/-- the generated constructors in the rejected case (no size hypothesis) -/
theorem gconstruct_rej (c : Cfg) (k : Ctor) (hk : k.Small) (hsp : specCtor k = none) :
    gconstruct c k = .ok RS.Res.err := by
  cases k with
  | new width =>
    simp only [specCtor] at hsp
    split at hsp
    · cases hsp
    · rename_i hw
      simp only [gconstruct, GenEq.cv_new_eq, CV.new, if_neg hw]
  | fromInt val len width =>
    simp only [specCtor] at hsp
    split at hsp
    · cases hsp
    · rename_i hw
      exact GenEq.c09_from_int_rej c val len width hk hw
  | fromSlice vals =>
    simp only [specCtor] at hsp
    split at hsp <;> cases hsp

theorem holds : Statement := by
  refine ⟨fun c capa w hsz => ?_, ?_⟩
  · rcases hsz with hsz | hw
    · rw [GenEq.cv_with_capacity_eq c capa w hsz, GenEq.cv_new_eq]
    · rw [GenEq.cv_with_capacity_rej c capa w hw, GenEq.cv_new_eq, CV.new, if_neg hw]
  intro c k hk ops hs
  have hm := C09.holds c k hk ops hs
  cases hsp : specCtor k with
  | none => exact gconstruct_rej c k hk hsp
  | some p =>
    obtain ⟨w, xs0⟩ := p
    rw [hsp] at hm
    obtain ⟨v0, v', hc, hf0, hr, hf', hsplit⟩ := hm
    intro hsz hl
    have hw0 : v0.width = w := hf0.width
    -- every intermediate contents is at most as long as the final one
    have le_final : ∀ pre post, ops = pre ++ post → (specRun w xs0 pre).length ≤ (specRun w xs0 ops).length := by
      intro pre post e
      rw [e, specRun_append]
      exact GenEq.c09_specRun_len_le w post _
    have gf : ∀ {v : CV} {xs : List Nat}, Faithful v w xs → xs.length ≤ (specRun w xs0 ops).length → GFaithful c v w xs :=
      fun h hle => gfaithful_of c h (by have := GenEq.c09_mul_le (w := w) hle; omega) (by omega)
    have h00 : xs0.length ≤ (specRun w xs0 ops).length := GenEq.c09_specRun_len_le w ops xs0
    refine ⟨v0, v', gconstruct_ok c k hk w xs0 hsp (by have := GenEq.c09_mul_le (w := w) h00; omega) v0 hc,
      gf hf0 h00, ?_, gf hf' (Nat.le_refl _), ?_⟩
    · rw [grun_eq c ops v0 xs0 hf0.rep hs _ (by rw [hw0]; exact Nat.le_refl _) (by rw [hw0]; omega) hl, hr]
    · intro pre op post e
      obtain ⟨v1, v2, hr1, hf1, ha, hf2, hr2, hrej⟩ := hsplit pre op post e
      have hw1 : v1.width = w := hf1.width
      have hw2 : v2.width = w := hf2.width
      have hs' : ∀ o ∈ pre ++ op :: post, o.Small := e ▸ hs
      have l1 := le_final pre (op :: post) e
      have l2 : (specApply w (specRun w xs0 pre) op).1.length ≤ (specRun w xs0 ops).length := by
        have := le_final (pre ++ [op]) post (by rw [e, List.append_assoc]; rfl)
        rw [specRun_append] at this; exact this
      have efin : specRun w (specApply w (specRun w xs0 pre) op).1 post = specRun w xs0 ops := by
        rw [e, GenEq.c09_specRun_split]
      refine ⟨v1, v2, ?_, gf hf1 l1, ?_, gf hf2 l2, ?_, hrej⟩
      · rw [grun_eq c pre v0 xs0 hf0.rep (fun o ho => hs' o (by simp [ho])) _ (by rw [hw0]; exact l1)
          (by rw [hw0]; omega) hl, hr1]
      · rw [gapply_eq c v1 _ hf1.rep op (hs' op (by simp)) _ (by rw [hw1]; exact l2) (by rw [hw1]; omega) hl, ha]
        cases (specApply w (specRun w xs0 pre) op).2 <;> rfl
      · rw [grun_eq c post v2 _ hf2.rep (fun o ho => hs' o (by simp [ho])) _
          (by rw [hw2, efin]; exact Nat.le_refl _) (by rw [hw2]; omega) hl, hr2]

/-! ### corollaries -/

/-- configuration independence of the generated constructors, histories and reads (both sides are the list
    semantics; the vectors themselves coincide by canonical equality) -/
theorem config_independent (c c' : Cfg) (k : Ctor) (hk : k.Small) (ops : List Op) (hs : ∀ op ∈ ops, op.Small)
    (hb : ∀ w xs0, specCtor k = some (w, xs0) →
      (specRun w xs0 ops).length * w + 64 < 2^64 ∧ (specRun w xs0 ops).length < 2^64) :
    gconstruct c k = gconstruct c' k ∧
    ∀ v0, gconstruct c k = .ok (RS.Res.ok v0) → grun c v0 ops = grun c' v0 ops ∧
      ∀ v', grun c v0 ops = .ok v' → ∀ i, GenFn.CompactVector.get_int c v' i = GenFn.CompactVector.get_int c' v' i := by
  have h1 := holds.2 c k hk ops hs
  have h2 := holds.2 c' k hk ops hs
  cases hsp : specCtor k with
  | none =>
    rw [hsp] at h1 h2
    refine ⟨by rw [h1, h2], fun v0 hv0 => ?_⟩
    rw [h1] at hv0; cases hv0
  | some p =>
    obtain ⟨w, xs0⟩ := p
    rw [hsp] at h1 h2
    obtain ⟨b1, b2⟩ := hb w xs0 hsp
    obtain ⟨v0, v', hc, hf0, hr, hf', _⟩ := h1 b1 b2
    obtain ⟨u0, u', hc', hg0, hr', hg', _⟩ := h2 b1 b2
    have e0 : u0 = v0 := hf0.canon u0 hg0.rep hg0.width
    have e' : u' = v' := hf'.canon u' hg'.rep hg'.width
    subst e0; subst e'
    refine ⟨by rw [hc, hc'], fun v hv => ?_⟩
    rw [hc] at hv
    injection hv with hv; injection hv with hv
    subst hv
    refine ⟨by rw [hr, hr'], fun v'' hv'' i => ?_⟩
    rw [hr] at hv''
    injection hv'' with hv''
    subst hv''
    rw [(hf'.get i).1, (hg'.get i).1]

/-- vectors with the same width and contents are equal, whatever histories and configurations produced them
    (`C09.canonical` for the generated functions) -/
theorem canonical (c c' : Cfg) (k k' : Ctor) (hk : k.Small) (hk' : k'.Small) (ops ops' : List Op)
    (hs : ∀ op ∈ ops, op.Small) (hs' : ∀ op ∈ ops', op.Small)
    (w : Nat) (xs0 xs0' : List Nat) (h : specCtor k = some (w, xs0)) (h' : specCtor k' = some (w, xs0'))
    (hsame : specRun w xs0 ops = specRun w xs0' ops')
    (hsz : (specRun w xs0 ops).length * w + 64 < 2^64) (hl : (specRun w xs0 ops).length < 2^64) :
    ∃ v0 v0' v, gconstruct c k = .ok (RS.Res.ok v0) ∧ gconstruct c' k' = .ok (RS.Res.ok v0') ∧
      grun c v0 ops = .ok v ∧ grun c' v0' ops' = .ok v := by
  have h1 := holds.2 c k hk ops hs
  have h2 := holds.2 c' k' hk' ops' hs'
  rw [h] at h1; rw [h'] at h2
  obtain ⟨v0, v, hc, _, hr, hf, _⟩ := h1 hsz hl
  obtain ⟨v0', v', hc', _, hr', hf', _⟩ := h2 (hsame ▸ hsz) (hsame ▸ hl)
  have : v' = v := hf.canon v' (hsame ▸ hf'.rep) hf'.width
  subst this
  exact ⟨v0, v0', v', hc, hc', hr, hr'⟩

/-- the generated functions are the model functions (same value, same panic, every configuration) on a vector
    that stores `xs`, under the size bounds of the operation's result -/
theorem generated_eq_model (c : Cfg) (v : CV) (xs : List Nat) (h : Rep v xs) (hsz : xs.length * v.width < 2^64) (i : Nat) :
    GenFn.CompactVector.get_int c v i = v.getInt i ∧ GenFn.CompactVector.access c v i = v.getInt i :=
  ⟨GenEq.cv_get_int_eq c v (by rw [h.len]; exact hsz) i, GenEq.cv_access_eq c v (by rw [h.len]; exact hsz) i⟩

/-! ### non-vacuity -/
-- the hypotheses hold on a concrete history with a rejected `push_int`, a rejected `set_int` and a failed `extend`
example : specCtor (.fromInt 5 2 3) = some (3, [5, 5]) ∧
    specRun 3 [5, 5] [.pushInt 7, .pushInt 9, .setInt 0 1, .setInt 7 1, .extend [2, 8, 3]] = [1, 5, 7, 2] ∧
    (specRun 3 [5, 5] [.pushInt 7, .pushInt 9, .setInt 0 1, .setInt 7 1, .extend [2, 8, 3]]).length * 3 + 64 < 2^64 := by
  decide
-- closed evaluation of the generated functions on that history (checked build)
example : ((gconstruct ⟨true, false⟩ (.fromInt 5 2 3)).bind fun r => (RS.unwrapRes r).bind fun v0 =>
      (grun ⟨true, false⟩ v0 [.pushInt 7, .pushInt 9, .setInt 0 1, .setInt 7 1, .extend [2, 8, 3]]).bind fun v =>
      (GenFn.CompactVector.get_int ⟨true, false⟩ v 3).bind fun a => (GenFn.CompactVector.get_int ⟨true, false⟩ v 4).bind fun b =>
      .ok (GenFn.CompactVector.len v, GenFn.CompactVector.width v, a, b))
    = .ok (4, 3, some 2, none) := by rfl
example : gapply ⟨false, true⟩ ⟨BV.new, 0, 3⟩ (.pushInt 9) = .ok (⟨BV.new, 0, 3⟩, RS.Res.err) := by rfl
example : (GenFn.CompactVector.from_slice ⟨true, true⟩ #[5, 256, 0]).map (fun r => match r with
      | .ok v => some (v.width, v.len) | .err => none) = .ok (some (9, 3)) := by rfl
end Sucds.C09Gen
