import Sucds.Proofs.WMr
/-! # C05 — WaveletMatrix access/rank/select (partial): over spec-level layers (stable partitions of the
    sequence by bit), the interval `[start_d, end_d)` followed by `rank_range` holds exactly the elements
    of `s[a..b)` agreeing with `v` on the top `d` bits, hence the final width is the number of occurrences. -/
namespace Sucds.C05
theorem rank_range_counts : type_of% (@WMr.rank_range_ok) := @WMr.rank_range_ok
theorem slice_invariant : type_of% (@WMr.slice_inv) := @WMr.slice_inv
end Sucds.C05
