import Sucds.Proofs.WaveletBackings
/-! # C05 — WaveletMatrix access/rank/select equal the stored integer sequence

For every non-empty sequence `s` with `max s + 1 < 2^64` (so that `alph_size = max + 1` is representable),
`n = |s| < 2^63`, each of the three supported backings (`Rank9Sel` with both hint tables, `DArray` with rank and
select0 indexes, plain `BitVector` — `backing_ok`, from C01/C02/C07), every build configuration and **every**
argument: `WaveletMatrix::new` succeeds; `access(i) = s[i]` (`None` iff `i ≥ n`); `rank_range(a..b, v)` = number
of occurrences of `v` in `s[a..b)` and `None` iff `b > n` (empty and reversed ranges within bounds give 0);
`rank(p, v) = rank_range(0..p, v)`; `select(k, v)` = position of the k-th occurrence of `v`, `None` iff there are
at most `k`; for every `v`, including values that do not occur or exceed every stored value;
`len = n`, `alph_size = max + 1`. `new` on an empty sequence is `Err`. Nothing panics. -/
namespace Sucds.C05
open Sucds Sucds.Spec Sucds.Wav

def Statement : Prop :=
  ∀ (c : Cfg) (k : Backing) (s : List Nat), s ≠ [] → s.foldl max 0 + 1 < 2^64 → s.length < 2^63 →
    ∃ wm, WM.new c k s = .ok (some wm) ∧
      wm.alphSize = s.foldl max 0 + 1 ∧ wm.len = s.length ∧
      (∀ i, wm.access c i = .ok s[i]?) ∧
      (∀ a b v, wm.rankRange c a b v = .ok (if b ≤ s.length then some (((s.take b).drop a).count v) else none)) ∧
      (∀ p v, wm.rank c p v = .ok (if p ≤ s.length then some ((s.take p).count v) else none)) ∧
      (∀ j v, wm.select c j v = .ok (sel (fun i => decide (s[i]? = some v)) s.length j))

theorem holds : Statement := by
  intro c k s hne hmax hn
  have hn64 : s.length < 2^64 := Nat.lt_of_lt_of_le hn (by decide)
  obtain ⟨wm, hnew, hb⟩ := new_ok c k s ((backing_ok c k).for _) hne hmax hn64
  exact ⟨wm, hnew, hb.alph, hb.len, access_ok c wm s hb, rankRange_ok c wm s hb, rank_ok c wm s hb,
    select_ok c wm s hb hn⟩

theorem new_empty (c : Cfg) (k : Backing) : WM.new c k [] = .ok none := new_nil c k

/-- the three backings build correct layers in every configuration (C01, C02, C07) -/
theorem backings (c : Cfg) (k : Backing) : BackingOK c k := backing_ok c k
end Sucds.C05
