import Sucds.Proofs.GenDacsOpt
import Sucds.Proofs.ConfigBuild
/-! # C10 over the definitions *generated from the Rust sources* (`src/int_vectors/dacs_opt.rs`)

`Props/C10.lean` with every model function replaced by the generated one: `GenFn.DacsOpt.{from_slice, access, len,
num_levels, widths, iter}` and the generated iterator `GenFn.dacs_opt_Iter.{next, size_hint}`. `from_slice` runs the
generated `compute_opt_widths` (the dynamic program, see `Props/C18Gen.lean`) and the generated `build` (the per-value
level loop with its `push_int(..).unwrap()`, `push_bit`, the final `assert_eq!(x, 0)`, `Rank9Sel::new` on every flag
vector). The input is a slice, i.e. an `Array Nat`; `Result<Self>` is `RS.Res DacO`.

For every build configuration, every slice of `usize` values (fewer than 2^57 of them, as in C10) and every
`max_levels`: `from_slice` answers `Err` exactly when `max_levels ∉ 1..=64`; otherwise it succeeds without panicking and
the result returns `access(i) = vals[i]` for `i < n` and `None` for every other `usize` index, reports `len = n`, has
between 1 and `min(max_levels, 64)` levels, one width per level, for non-empty input positive widths summing to the bit
length of the maximum, and its iterator yields the input in order, then `None` forever, with exact size hints
(`C10.iteration`; `doRunN c it n` = `n` times `size_hint()` then `next()`, equation restated below).

Hypothesis added to those of C10: the index passed to `access` is a `usize` (`i < 2^64`). -/
namespace Sucds.C10Gen
open Sucds
open Sucds.GenEq (doRunN)

-- the iterator runner (definition in `Proofs/GenDacsOpt.lean`)
example (c : Cfg) (it : GenFn.dacs_opt_Iter) (n : Nat) : doRunN c it 0 = .ok [] ∧ doRunN c it (n+1) =
    (GenFn.dacs_opt_Iter.size_hint c it).bind fun sh => (GenFn.dacs_opt_Iter.next c it).bind fun r =>
      (doRunN c r.1 n).bind fun l => .ok ((r.2, sh) :: l) := ⟨rfl, rfl⟩

def Statement : Prop :=
  ∀ (c : Cfg) (vals : Array Nat) (ml : Option Nat), (∀ v ∈ vals, v < 2^64) → vals.size < 2^57 →
    (¬ (1 ≤ ml.getD 64 ∧ ml.getD 64 ≤ 64) → GenFn.DacsOpt.from_slice c vals ml = .ok RS.Res.err) ∧
    (1 ≤ ml.getD 64 ∧ ml.getD 64 ≤ 64 →
      ∃ d, GenFn.DacsOpt.from_slice c vals ml = .ok (RS.Res.ok d) ∧
        GenFn.DacsOpt.len d = .ok vals.size ∧ (∀ i, i < 2^64 → GenFn.DacsOpt.access c d i = .ok vals[i]?) ∧
        1 ≤ GenFn.DacsOpt.num_levels d ∧ GenFn.DacsOpt.num_levels d ≤ min (ml.getD 64) 64 ∧
        (GenFn.DacsOpt.widths d).size = GenFn.DacsOpt.num_levels d ∧
        (vals.size ≠ 0 → (∀ w ∈ (GenFn.DacsOpt.widths d).toList, 1 ≤ w) ∧
          (GenFn.DacsOpt.widths d).toList.sum = SpecX.bitlen (vals.toList.foldl max 0)) ∧
        -- iteration: the input in order, then `None` forever, exact size hints
        (∀ n, doRunN c (GenFn.DacsOpt.iter d) n =
          .ok ((List.range n).map fun j => (vals[j]?, (vals.size - j, some (vals.size - j))))))

theorem holds : Statement := by
  intro c vals ml hv hn
  obtain ⟨h1, h2⟩ := GenEq.dacs_opt_c10 c vals ml hv hn
  refine ⟨h1, fun hml => ?_⟩
  obtain ⟨d, a1, _, a3, a4, _, _, a7, a8, a9, a10, a11⟩ := h2 hml
  refine ⟨d, a1, a4, a3, a7, a8, a9, a10, fun n => ?_⟩
  rw [a11 n]
  simp [C17.expected]

/-- the generated functions are the model functions (same value, same panic, every configuration) -/
theorem generated_eq_model (c : Cfg) (vals : Array Nat) (ml : Option Nat) (hv : ∀ v ∈ vals, v < 2^64) (hn : vals.size < 2^57) :
    GenFn.DacsOpt.from_slice c vals ml =
      (DacO.fromSlice c vals.toList ml).map (fun o => match o with | some d => RS.Res.ok d | none => RS.Res.err) ∧
    ∀ d, GenFn.DacsOpt.from_slice c vals ml = .ok (RS.Res.ok d) → ∀ i, i < 2^64 →
      GenFn.DacsOpt.access c d i = d.access c i := by
  refine ⟨GenEq.dacs_opt_from_slice_eq c vals ml hv hn, fun d hd i hi => ?_⟩
  obtain ⟨h1, h2⟩ := GenEq.dacs_opt_c10 c vals ml hv hn
  by_cases hml : 1 ≤ ml.getD 64 ∧ ml.getD 64 ≤ 64
  · obtain ⟨d', a1, a2, a3, _⟩ := h2 hml
    rw [a1] at hd
    injection hd with hd; injection hd with hd
    subst hd
    have hv' : ∀ v ∈ vals.toList, v < 2^64 := fun v h => hv v (Array.mem_toList_iff.mp h)
    obtain ⟨d'', b1, _, b3, _⟩ := C10.holds c vals.toList ml hv' (by rw [Array.length_toList]; exact hn) |>.2 hml
    rw [a2] at b1
    injection b1 with b1; injection b1 with b1
    subst b1
    rw [a3 i hi, b3 i, Array.getElem?_toList]
  · rw [h1 hml] at hd
    injection hd with hd; cases hd

/-- configuration independence: the same structure in every build configuration, the same answers -/
theorem config_independent (c c' : Cfg) (vals : Array Nat) (ml : Option Nat) (hv : ∀ v ∈ vals, v < 2^64)
    (hn : vals.size < 2^57) :
    GenFn.DacsOpt.from_slice c vals ml = GenFn.DacsOpt.from_slice c' vals ml ∧
    ∀ d, GenFn.DacsOpt.from_slice c vals ml = .ok (RS.Res.ok d) →
      (∀ i, i < 2^64 → GenFn.DacsOpt.access c d i = GenFn.DacsOpt.access c' d i) ∧
      (∀ n, doRunN c (GenFn.DacsOpt.iter d) n = doRunN c' (GenFn.DacsOpt.iter d) n) := by
  have e : GenFn.DacsOpt.from_slice c vals ml = GenFn.DacsOpt.from_slice c' vals ml := by
    rw [GenEq.dacs_opt_from_slice_eq c vals ml hv hn, GenEq.dacs_opt_from_slice_eq c' vals ml hv hn,
      Config.DacO_fromSlice_cfg c c']
  refine ⟨e, fun d hd => ?_⟩
  have hd' := e ▸ hd
  by_cases hml : 1 ≤ ml.getD 64 ∧ ml.getD 64 ≤ 64
  · obtain ⟨d1, a1, _, a3, _, _, _, _, a8⟩ := (holds c vals ml hv hn).2 hml
    obtain ⟨d2, b1, _, b3, _, _, _, _, b8⟩ := (holds c' vals ml hv hn).2 hml
    rw [hd] at a1; injection a1 with a1; injection a1 with a1; subst a1
    rw [hd'] at b1; injection b1 with b1; injection b1 with b1; subst b1
    exact ⟨fun i hi => by rw [a3 i hi, b3 i hi], fun n => by rw [a8 n, b8 n]⟩
  · rw [(holds c vals ml hv hn).1 hml] at hd
    injection hd with hd; cases hd

/-! ### non-vacuity and closed evaluations -/
-- the hypotheses hold of a concrete input; `max_levels = 2` forces a split of the 30 bits of the maximum into 2 levels
example : (∀ v ∈ (#[1, 5, 300, 70000, 2, 2, 9, 1000000007, 3] : Array Nat), v < 2^64) ∧
    (#[1, 5, 300, 70000, 2, 2, 9, 1000000007, 3] : Array Nat).size < 2^57 := by decide
-- kernel evaluation of the generated code (checked build; `Except` has no `DecidableEq`, `Option` has)
example : ((GenFn.DacsOpt.from_slice ⟨true, false⟩ #[1, 5, 300, 70000, 2] (some 2)).bind fun r => (RS.unwrapRes r).bind fun d =>
      (GenFn.DacsOpt.access ⟨true, false⟩ d 3).bind fun a => (GenFn.DacsOpt.access ⟨true, false⟩ d 5).bind fun b =>
      (GenFn.DacsOpt.len d).bind fun n => .ok (a, b, n, GenFn.DacsOpt.num_levels d, (GenFn.DacsOpt.widths d).toList.sum)).toOption
    = some (some 70000, none, 5, 2, 17) := by decide +kernel
example : GenFn.DacsOpt.from_slice ⟨true, false⟩ #[1, 2, 3] (some 0) = .ok RS.Res.err ∧
    GenFn.DacsOpt.from_slice ⟨false, true⟩ #[1, 2, 3] (some 65) = .ok RS.Res.err := ⟨by rfl, by rfl⟩
end Sucds.C10Gen
