import Sucds.Proofs.Serial
import Sucds.Proofs.IoSchedule
/-! # C13 — truncated streams and failing I/O yield Err (partial)

Proved: `Good.pre` — decoding any strict prefix of an encoding fails — for the combinators and the
`BitVector` codec; `read_exact` over *any* schedule of short reads and `Interrupted` results returns
exactly the bytes one uninterrupted read returns, or fails when the stream is too short
(`readExact_spec`). The `std` loops themselves are modelled, not verified. -/
namespace Sucds.C13
open Sucds Sucds.Codec Sucds.Io

theorem bit_vector_prefix_fails (b : BV) (k : Nat)
    (hv : b.words.size < 256^8 ∧ (∀ w ∈ b.words.toList, w < 256^8) ∧ b.len < 256^8) (hk : k < (BV.codec.put b).length) :
    BV.codec.get ((BV.codec.put b).take k) = none := BV.codec_good.pre b k hv hk

theorem read_exact_schedule_independent : ∀ (fuel : Nat) (data : List Nat) (sched : List Ev) (want : Nat),
    sched.length + want < fuel →
    (want ≤ data.length →
      ∃ s', readExact ⟨data, sched⟩ want fuel = (some (data.take want), ⟨data.drop want, s'⟩)) ∧
    (data.length < want → ∃ r', readExact ⟨data, sched⟩ want fuel = (none, r')) := readExact_spec
end Sucds.C13
