import Sucds.Proofs.SerialStruct
import Sucds.Proofs.IoWrite
import Sucds.Proofs.SerialStream
/-! # C13 — truncated streams and failing I/O yield Err, never a panic or a bogus value

* every strict prefix of the serialization of a well-formed value fails to decode — for every structure
  codec (`prefix_fails`, from `Codec.Good.pre`; the model decoder is total, so "never a panic");
* `read_exact` over *any* schedule of short reads and `Interrupted` results returns exactly what one
  uninterrupted read returns, or fails when the stream is too short (`read_exact_schedule_independent`);
* `write_all` to a writer that accepts bytes in arbitrary pieces, reports `Interrupted` at arbitrary points
  and fails for good after `limit` bytes succeeds iff everything fits, having written exactly the buffer,
  and otherwise fails having written exactly the first `limit` bytes (`write_all_schedule_independent`).
The two `std` loops are modelled from their documentation (trusted); that the crate performs all its I/O
through them and propagates every error is what the correspondence checks on the real code, at every
truncation offset and every write-failure offset of the generated instances. -/
namespace Sucds.C13
open Sucds Sucds.Codec Sucds.Io

def Statement : Prop :=
  (∀ (b : BV) k, BV.Wf b → k < BV.codec.size b → BV.codec.get ((BV.codec.put b).take k) = none) ∧
  (∀ (x : CV) k, CV.Wf x → k < CV.codec.size x → CV.codec.get ((CV.codec.put x).take k) = none) ∧
  (∀ (x : R9) k, R9.Wf x → k < R9.codec.size x → R9.codec.get ((R9.codec.put x).take k) = none) ∧
  (∀ (x : DA) k, DA.Wf x → k < DA.codec.size x → DA.codec.get ((DA.codec.put x).take k) = none) ∧
  (∀ (x : SA) k, SA.Wf x → k < SA.codec.size x → SA.codec.get ((SA.codec.put x).take k) = none) ∧
  (∀ (x : EF) k, EF.Wf x → k < EF.codec.size x → EF.codec.get ((EF.codec.put x).take k) = none) ∧
  (∀ (x : DacB) k, DacB.Wf x → k < DacB.codec.size x → DacB.codec.get ((DacB.codec.put x).take k) = none) ∧
  (∀ (x : DacO) k, DacO.Wf x → k < DacO.codec.size x → DacO.codec.get ((DacO.codec.put x).take k) = none) ∧
  (∀ (x : PS) k, PS.Wf x → k < PS.codec.size x → PS.codec.get ((PS.codec.put x).take k) = none) ∧
  (∀ bk (x : WM) k, WM.Wf bk x → k < (WM.codec bk).size x → (WM.codec bk).get (((WM.codec bk).put x).take k) = none) ∧
  -- read_exact: the outcome depends only on the data, not on the schedule
  (∀ (fuel : Nat) (data : List Nat) (sched : List Ev) (want : Nat), sched.length + want < fuel →
    (want ≤ data.length → ∃ s', readExact ⟨data, sched⟩ want fuel = (some (data.take want), ⟨data.drop want, s'⟩)) ∧
    (data.length < want → ∃ r', readExact ⟨data, sched⟩ want fuel = (none, r'))) ∧
  -- write_all: success iff everything fits below the failure point; the bytes written are a prefix either way
  (∀ (fuel : Nat) (out : List Nat) (limit : Nat) (sched : List Ev) (buf : List Nat),
    sched.length + buf.length < fuel → out.length ≤ limit →
    (out.length + buf.length ≤ limit → ∃ s', writeAll ⟨out, limit, sched⟩ buf fuel = (true, ⟨out ++ buf, limit, s'⟩)) ∧
    (limit < out.length + buf.length →
      ∃ s', writeAll ⟨out, limit, sched⟩ buf fuel = (false, ⟨out ++ buf.take (limit - out.length), limit, s'⟩)))

/-- `serialize_into` is a sequence of `write_all` calls stopped at the first error: however the bytes are cut into
    calls and whatever the schedule, it returns `Ok` iff everything fits below the failure point (having written exactly
    the bytes), and otherwise `Err` having written exactly the first `limit` bytes — never a panic (the model is total) -/
theorem serialize_into_failing_writer : type_of% (@writeChunks_spec) := @writeChunks_spec

theorem holds : Statement :=
  ⟨fun x k h hk => Good.strict_prefix_fails BV.codec_wf_good x h k hk,
   fun x k h hk => Good.strict_prefix_fails CV.codec_good x h k hk,
   fun x k h hk => Good.strict_prefix_fails R9.codec_good x h k hk,
   fun x k h hk => Good.strict_prefix_fails DA.codec_good x h k hk,
   fun x k h hk => Good.strict_prefix_fails SA.codec_good x h k hk,
   fun x k h hk => Good.strict_prefix_fails EF.codec_good x h k hk,
   fun x k h hk => Good.strict_prefix_fails DacB.codec_good x h k hk,
   fun x k h hk => Good.strict_prefix_fails DacO.codec_good x h k hk,
   fun x k h hk => Good.strict_prefix_fails PS.codec_good x h k hk,
   fun bk x k h hk => Good.strict_prefix_fails (WM.codec_good bk) x h k hk,
   readExact_spec, writeAll_spec⟩
/-- a stream of several values written back to back and cut anywhere strictly before its end cannot be read back
    in full: one of the `deserialize_from` calls returns `Err` (the later values are never fabricated) -/
theorem truncated_stream_fails {α} {c : Codec α} {v} (h : c.Good v) (xs : List α) (hx : ∀ x ∈ xs, v x)
    (k : Nat) (hk : k < (putMany c xs).length) : getMany c xs.length ((putMany c xs).take k) = none :=
  h.stream_truncated xs hx k hk
end Sucds.C13
