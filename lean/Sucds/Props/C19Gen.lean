import Sucds.Proofs.C19GenAux
import Sucds.Proofs.Reenable
/-! # C19 over the definitions *generated from the Rust sources*: space bounds of the structures the generated
    constructors build

`Props/C19.lean` states each bound for the value of a model constructor.  Here every clause is about the value
returned by the **generated** constructor (`Sucds.GenFn.*`, `Sucds/Gen/Fns.lean`), measured by the **generated**
`size_in_bytes` (`X.sizeInBytes`, `Sucds/Gen/Codecs.lean`; `= Codec.size`, the number of bytes written — C19, C08).
`B = 8 · size_in_bytes`; bounds in integer form as in C19; `⌊lg x⌋ = (msbN x).getD 0`; `ones bits` = number of set bits.
The input of a constructor is what the Rust function takes: a bit sequence (`List Bool`, an `IntoIterator<bool>`), a
slice (`Array Nat`; `vals.toArray` where the equivalence theorem is stated for lists), a `CompactVector` holding `s`.

Hypotheses added to `C19.Statement` — bounds by `usize::MAX = 2^64 - 1` only, exactly those of the equivalence theorems:
* `BitVector::from_bits`: `len < 2^64`;  `CompactVector::from_slice / from_int`: items `< 2^64`, `len·width + 64 < 2^64`;
* `Rank9Sel::build_from_bits`: `len + 1534 < 2^64` with select0 hints, `+ 1023` with select1 hints only, `+ 0` without;
* `DArray::build_from_bits`: `len < 2^63` (block positions are stored as `isize`);
* `EliasFanoBuilder::new(u, m)` + pushes + `build` + `enable_rank`: `u < 2^64` and the high-bit vector
  `m + (u >> ⌊lg(u/m)⌋) + 2 < 2^63` (it is a `DArray`);  `EliasFano::from_bits`, `SArray::from_bits`: `2·len + 2 < 2^63`
  (same reason);  `PrefixSummedEliasFano::from_slice`: `sum + 1 < 2^64` (the universe) and `3·len + 2 < 2^63`;
* `DacsByte::from_slice`: values `< 2^64`, `len < 2^64`;  `DacsOpt::from_slice`: `len < 2^57` as in C19;
* `WaveletMatrix::<Rank9Sel>::new(cv)`: those of `C05Gen` (`max + 1 < 2^64`, `n < 2^63`, two bit lengths `< 2^64`). -/
namespace Sucds.C19Gen
open Sucds Sucds.Spec Sucds.Space Sucds.EFB
open Sucds.GenEq (genRun absR9)

/-- number of set bits of a bit sequence -/
abbrev ones (bits : List Bool) : Nat := cnt (fun j => bits.getD j false) bits.length

def Statement : Prop :=
  -- plain bit vector, compact vector
  (∀ (c : Cfg) (bits : List Bool), bits.length < 2^64 →
    ∃ b, GenFn.BitVector.from_bits c bits = .ok b ∧ 8 * BV.sizeInBytes b ≤ 64 * ((bits.length + 63) / 64) + 256) ∧
  (∀ (c : Cfg) (vals : List Nat), (∀ x ∈ vals, x < 2^64) → vals.length * CV.bitlen (vals.foldl max 0) + 64 < 2^64 →
    ∃ v, GenFn.CompactVector.from_slice c vals.toArray = .ok (.ok v) ∧
      8 * CV.sizeInBytes v ≤ 64 * ((v.len * v.width + 63) / 64) + 256) ∧
  (∀ (c : Cfg) (val len width : Nat), val < 2^64 → len * width + 64 < 2^64 →
    ∀ v, GenFn.CompactVector.from_int c val len width = .ok (.ok v) →
      8 * CV.sizeInBytes v ≤ 64 * ((v.len * v.width + 63) / 64) + 256) ∧
  -- Rank9Sel, every hint configuration
  (∀ (c : Cfg) (bits : List Bool) (r h1 h0 : Bool), bits.length + (if h0 then 1534 else if h1 then 1023 else 0) < 2^64 →
    ∃ x, GenFn.Rank9Sel.build_from_bits c bits r h1 h0 = .ok (.ok x) ∧
      100 * (8 * R9.sizeInBytes x) ≤ 132 * bits.length + 204800) ∧
  -- DArray, every index configuration
  (∀ (c : Cfg) (bits : List Bool) (rank sel1 sel0 : Bool), bits.length < 2^63 →
    ∃ x, GenFn.DArray.build_from_bits c bits rank sel1 sel0 = .ok (.ok x) ∧
      100 * (8 * DA.sizeInBytes x) ≤
        bits.length * (100 + 102 * (1 + (if sel0 then 1 else 0)) + 26 * (if rank then 1 else 0)) + 409600) ∧
  -- EliasFano: `new(u, m)`, any push history (`genRun`: `push` per item), `build()`, `enable_rank()`
  (∀ (c : Cfg) (u m : Nat) (hist : List Nat), m ≠ 0 → u < 2^64 → m + (u >>> (msbN (u / m)).getD 0) + 2 < 2^63 →
    ∃ b0 b' vs e0 e, GenFn.EliasFanoBuilder.new c u m = .ok (.ok b0) ∧ genRun c b0 hist = .ok (b', vs) ∧
      GenFn.EliasFanoBuilder.build c b' = .ok e0 ∧ GenFn.EliasFano.enable_rank c e0 = .ok e ∧
      8 * EF.sizeInBytes e0 ≤ m * (msbN (u / m)).getD 0 + 7 * m + 8192 ∧
      8 * EF.sizeInBytes e ≤ m * (msbN (u / m)).getD 0 + 11 * m + 8192) ∧
  -- SArray (also without any set bit), with and without the rank index
  (∀ (c : Cfg) (bits : List Bool), 2 * bits.length + 2 < 2^63 →
    ∃ s s', GenFn.SArray.from_bits c bits = .ok s ∧ GenFn.SArray.enable_rank c s = .ok s' ∧
      8 * SA.sizeInBytes s ≤ ones bits * (msbN (bits.length / ones bits)).getD 0 + 7 * ones bits + 8192 ∧
      8 * SA.sizeInBytes s' ≤ ones bits * (msbN (bits.length / ones bits)).getD 0 + 11 * ones bits + 8192) ∧
  -- PrefixSummedEliasFano
  (∀ (c : Cfg) (vals : Array Nat), vals.size ≠ 0 → vals.toList.sum + 1 < 2^64 → 3 * vals.size + 2 < 2^63 →
    ∃ p, GenFn.PrefixSummedEliasFano.from_slice c vals = .ok (.ok p) ∧
      8 * PS.sizeInBytes p ≤ vals.size * (msbN ((vals.toList.sum + 1) / vals.size)).getD 0 + 7 * vals.size + 8192) ∧
  -- DacsByte, DacsOpt
  (∀ (c : Cfg) (vals : Array Nat), (∀ x ∈ vals, x < 2^64) → vals.size < 2^64 →
    ∃ d, GenFn.DacsByte.from_slice c vals = .ok (.ok d) ∧
      100 * (8 * DacB.sizeInBytes d) ≤ 132 * (DacB.chunkBits d + flagBits d.flags) + 204800 * d.numLevels + 12800) ∧
  (∀ (c : Cfg) (vals : Array Nat) (ml : Option Nat), (∀ x ∈ vals, x < 2^64) → vals.size < 2^57 →
    ∀ d, GenFn.DacsOpt.from_slice c vals ml = .ok (.ok d) →
      100 * (8 * DacO.sizeInBytes d) ≤ 132 * (DacO.chunkBits d + flagBits d.flags) + 204800 * d.numLevels + 12800) ∧
  -- WaveletMatrix<Rank9Sel> (`absR9 g`: the generated value read as a model value, its layers wrapped by `Lay.r9`)
  (∀ (c : Cfg) (cv : CV) (s : List Nat), CV.Rep cv s → s.foldl max 0 + 1 < 2^64 → s.length < 2^63 →
    cv.len * cv.width < 2^64 → s.length * SpecX.bitlen (s.foldl max 0 + 1) < 2^64 →
    ∀ g, GenFn.WaveletMatrix_Rank9Sel.new c cv = .ok (.ok g) →
      100 * (8 * WM.sizeInBytes .r9 (absR9 g)) ≤
        GenFn.WaveletMatrix_Rank9Sel.alph_width g * (132 * s.length + 204800) + 12800)

theorem holds : Statement :=
  ⟨fun c bits hl => by obtain ⟨b, h1, h2⟩ := GenEq.c19_bitvector c bits hl; exact ⟨b, h1, by omega⟩,
   fun c vals hs hsz => by obtain ⟨v, h1, h2⟩ := GenEq.c19_cv_from_slice c vals hs hsz; exact ⟨v, h1, Nat.le_of_eq h2⟩,
   fun c val len width hv hsz v e => Nat.le_of_eq (GenEq.c19_cv_from_int c val len width hv hsz v e),
   GenEq.c19_rank9sel, GenEq.c19_darray, GenEq.c19_eliasfano, GenEq.c19_sarray, GenEq.c19_psef,
   GenEq.c19_dacsbyte, GenEq.c19_dacsopt, GenEq.c19_wavelet⟩

/-- exact sizes of the two plain vectors (`C19.bitvector_exact`, `compactvector_exact`) -/
theorem bitvector_exact : type_of% (@GenEq.c19_bitvector) := @GenEq.c19_bitvector
theorem compactvector_exact : type_of% (@GenEq.c19_cv_from_slice) := @GenEq.c19_cv_from_slice
/-- `EliasFano::from_bits` then `enable_rank()` (`C19.elias_fano_from_bits`): `n = ones bits`, `u = bits.length` -/
theorem elias_fano_from_bits (c : Cfg) (bits : List Bool) (hl : 2 * bits.length + 2 < 2^63)
    (e0 : EF) (he : GenFn.EliasFano.from_bits c bits = .ok (.ok e0)) :
    ∃ e, GenFn.EliasFano.enable_rank c e0 = .ok e ∧
      8 * EF.sizeInBytes e0 ≤ ones bits * (msbN (bits.length / ones bits)).getD 0 + 7 * ones bits + 8192 ∧
      8 * EF.sizeInBytes e ≤ ones bits * (msbN (bits.length / ones bits)).getD 0 + 11 * ones bits + 8192 :=
  GenEq.c19_eliasfano_from_bits c bits hl e0 he

/-- configuration independence: under the same hypotheses every generated constructor returns the same value — hence
    the same `size_in_bytes` — in every build configuration -/
def ConfigIndependent : Prop := ∀ c c' : Cfg,
  (∀ bits : List Bool, bits.length < 2^64 → GenFn.BitVector.from_bits c bits = GenFn.BitVector.from_bits c' bits) ∧
  (∀ vals : List Nat, (∀ x ∈ vals, x < 2^64) → vals.length * CV.bitlen (vals.foldl max 0) + 64 < 2^64 →
    GenFn.CompactVector.from_slice c vals.toArray = GenFn.CompactVector.from_slice c' vals.toArray) ∧
  (∀ val len width : Nat, len * width + 64 < 2^64 →
    GenFn.CompactVector.from_int c val len width = GenFn.CompactVector.from_int c' val len width) ∧
  (∀ (bits : List Bool) (r h1 h0 : Bool), bits.length + (if h0 then 1534 else if h1 then 1023 else 0) < 2^64 →
    GenFn.Rank9Sel.build_from_bits c bits r h1 h0 = GenFn.Rank9Sel.build_from_bits c' bits r h1 h0) ∧
  (∀ (bits : List Bool) (rank sel1 sel0 : Bool), bits.length < 2^63 →
    GenFn.DArray.build_from_bits c bits rank sel1 sel0 = GenFn.DArray.build_from_bits c' bits rank sel1 sel0) ∧
  (∀ (u m : Nat) (hist : List Nat), m ≠ 0 → u < 2^64 → m + (u >>> (msbN (u / m)).getD 0) + 2 < 2^63 →
    ∃ b0 b' vs e0 e,
      (GenFn.EliasFanoBuilder.new c u m = .ok (.ok b0) ∧ genRun c b0 hist = .ok (b', vs) ∧
        GenFn.EliasFanoBuilder.build c b' = .ok e0 ∧ GenFn.EliasFano.enable_rank c e0 = .ok e) ∧
      (GenFn.EliasFanoBuilder.new c' u m = .ok (.ok b0) ∧ genRun c' b0 hist = .ok (b', vs) ∧
        GenFn.EliasFanoBuilder.build c' b' = .ok e0 ∧ GenFn.EliasFano.enable_rank c' e0 = .ok e)) ∧
  (∀ bits : List Bool, 2 * bits.length + 2 < 2^63 →
    GenFn.EliasFano.from_bits c bits = GenFn.EliasFano.from_bits c' bits) ∧
  (∀ bits : List Bool, 2 * bits.length + 2 < 2^63 →
    GenFn.SArray.from_bits c bits = GenFn.SArray.from_bits c' bits ∧
    ∀ s, GenFn.SArray.from_bits c bits = .ok s → GenFn.SArray.enable_rank c s = GenFn.SArray.enable_rank c' s) ∧
  (∀ vals : Array Nat, vals.toList.sum + 1 < 2^64 → 3 * vals.size + 2 < 2^63 →
    GenFn.PrefixSummedEliasFano.from_slice c vals = GenFn.PrefixSummedEliasFano.from_slice c' vals) ∧
  (∀ vals : Array Nat, (∀ x ∈ vals, x < 2^64) → vals.size < 2^64 →
    GenFn.DacsByte.from_slice c vals = GenFn.DacsByte.from_slice c' vals) ∧
  (∀ (vals : Array Nat) (ml : Option Nat), (∀ x ∈ vals, x < 2^64) → vals.size < 2^57 →
    GenFn.DacsOpt.from_slice c vals ml = GenFn.DacsOpt.from_slice c' vals ml) ∧
  (∀ (cv : CV) (s : List Nat), CV.Rep cv s → s ≠ [] → s.foldl max 0 + 1 < 2^64 → s.length < 2^63 →
    cv.len * cv.width < 2^64 → s.length * SpecX.bitlen (s.foldl max 0 + 1) < 2^64 →
    GenFn.WaveletMatrix_Rank9Sel.new c cv = GenFn.WaveletMatrix_Rank9Sel.new c' cv)

theorem config_independent : ConfigIndependent := fun c c' =>
  ⟨GenEq.c19_cfg_bitvector c c', GenEq.c19_cfg_cv_from_slice c c', GenEq.c19_cfg_cv_from_int c c',
   GenEq.c19_cfg_rank9sel c c', GenEq.c19_cfg_darray c c', GenEq.c19_cfg_eliasfano c c',
   GenEq.c19_cfg_eliasfano_from_bits c c', GenEq.c19_cfg_sarray c c', GenEq.c19_cfg_psef c c',
   GenEq.c19_cfg_dacsbyte c c', GenEq.c19_cfg_dacsopt c c', GenEq.wm_new_cfg c c'⟩

/-! ### non-vacuity -/
-- the hypotheses hold on small inputs
example : [true, false, true, true].length + 1534 < 2^64 ∧ 2 * [true, false, true, true].length + 2 < 2^63 ∧
    (20 : Nat) + (100 >>> (msbN (100 / 20)).getD 0) + 2 < 2^63 ∧ #[3, 1, 4, 1, 5].toList.sum + 1 < 2^64 := by decide
-- closed evaluations (checked build): the generated constructor succeeds and the generated `size_in_bytes` expression
-- of its result is within the bound (`Rank9Sel` on 4 bits; `DacsByte` on 3 values, two levels)
example : (GenFn.Rank9Sel.build_from_bits ⟨true, false⟩ [true, false, true, true] true true true).map
      (fun r => match r with | .ok x => some (R9.sizeInBytes x) | .err => none) = .ok (some 106) := by rfl
example : 100 * (8 * 106) ≤ 132 * 4 + 204800 := by decide
example : ((GenFn.DacsByte.from_slice ⟨true, false⟩ #[5, 300, 7]).bind fun r => (RS.unwrapRes r).bind fun d =>
      .ok (DacB.sizeInBytes d, d.numLevels)).toOption = some (110, 2) := by decide +kernel

/-! ### Index builders applied to a structure that already has the index

`select1_hints()` / `select0_hints()` / `enable_rank()` / `enable_select0()` may be called on a structure that already
carries the index (after `build_from_bits(.., true, ..)`, after a round trip, or simply twice). Each builder recomputes
its table from data no builder touches, so it is idempotent and the builders commute: the value — hence its size and
every bound above — is what one application gives. (Seed C19-m8: a builder that *appended* to the existing table.) -/
theorem index_builders_idempotent_model (c : Cfg) :
    (∀ x y : R9, x.select1Hints = .ok y → y.select1Hints = .ok y) ∧
    (∀ x y : R9, x.select0Hints c = .ok y → y.select0Hints c = .ok y) ∧
    (∀ x : R9, x.select1Hints.bind (R9.select0Hints c) = (x.select0Hints c).bind R9.select1Hints) ∧
    (∀ x : DA, DA.enableRank c (DA.enableRank c x) = DA.enableRank c x) ∧
    (∀ x : DA, DA.enableSelect0 c (DA.enableSelect0 c x) = DA.enableSelect0 c x) ∧
    (∀ x : DA, DA.enableSelect0 c (DA.enableRank c x) = DA.enableRank c (DA.enableSelect0 c x)) ∧
    (∀ e : EF, EF.enableRank c (EF.enableRank c e) = EF.enableRank c e) ∧
    (∀ s : SA, SA.enableRank c (SA.enableRank c s) = SA.enableRank c s) :=
  ⟨fun _ _ h => R9.select1Hints_idem h, fun _ _ h => R9.select0Hints_idem c h, fun x => R9.selectHints_comm c x,
   DA.enableRank_idem c, DA.enableSelect0_idem c, DA.enable_comm c, EF.enableRank_idem c, SA.enableRank_idem c⟩

/-- the same for the builders generated from `rank9sel.rs`, `darray.rs`, `elias_fano.rs`, `sarray.rs` -/
theorem index_builders_idempotent_generated (c : Cfg) :
    (∀ x y : R9, x.bv.Inv → x.bv.len + 1023 < 2^64 → x.rs.pairs = (R9Index.buildRank c x.bv).pairs →
      GenFn.Rank9Sel.select1_hints c x = .ok y → GenFn.Rank9Sel.select1_hints c y = .ok y) ∧
    (∀ x y : R9, x.bv.Inv → x.bv.len + 1534 < 2^64 → x.rs.pairs = (R9Index.buildRank c x.bv).pairs →
      GenFn.Rank9Sel.select0_hints c x = .ok y → GenFn.Rank9Sel.select0_hints c y = .ok y) ∧
    (∀ x : DA, x.bv.Inv → x.bv.len < 2^64 →
      (GenFn.DArray.enable_rank c x).bind (GenFn.DArray.enable_rank c) = GenFn.DArray.enable_rank c x) ∧
    (∀ x : DA, x.bv.Inv → x.bv.len < 2^63 →
      (GenFn.DArray.enable_select0 c x).bind (GenFn.DArray.enable_select0 c) = GenFn.DArray.enable_select0 c x) ∧
    (∀ e : EF, e.high.bv.Inv → e.high.bv.len < 2^63 →
      (GenFn.EliasFano.enable_rank c e).bind (GenFn.EliasFano.enable_rank c) = GenFn.EliasFano.enable_rank c e) :=
  ⟨fun x y h hl hx hy => GenEq.gen_select1_hints_idem c x y h hl hx hy,
   fun x y h hl hx hy => GenEq.gen_select0_hints_idem c x y h hl hx hy,
   fun x h hl => GenEq.gen_da_enable_rank_idem c x h hl, fun x h hl => GenEq.gen_da_enable_select0_idem c x h hl,
   fun e h hl => GenEq.gen_ef_enable_rank_idem c e h hl⟩
end Sucds.C19Gen
