import Sucds.Proofs.C04GenAux
/-! # C04 over the definitions *generated from the Rust sources* (`src/mii_sequences/elias_fano.rs`, `elias_fano/iter.rs`)

`Props/C04.lean` with every model function replaced by the generated one: the sequence is built by
`GenFn.EliasFanoBuilder.{new, push, extend, build}` and `GenFn.EliasFano.enable_rank` (which run the generated
`DArray::from_bits` / `DArrayIndex::new` / `enable_select0`), and queried by `GenFn.EliasFano.{select, delta, rank,
predecessor, successor, iter, binsearch, binsearch_range, len, universe}` and `GenFn.iter_Iter.next`. A generated
`&mut self` method returns `(new self, result)`; `Result<()>` is `RS.Res Unit` (`resU true = Ok(())`, `resU false = Err`).

* clause 1 is `C04.Statement`: a push history `hist`, run by `genRun` (push after push);
* clause 2 is the same for **any interleaving of `push(v)` and `extend(vs)` calls** (`EFOp`, run by `efGrun`); the list
  semantics is `efSpecOps`: a call offers its values one by one until the first unacceptable one (`efExtended`).

The runners and the list semantics are defined in `Proofs/C04GenAux.lean` / `Proofs/GenEFBuilder.lean` /
`Proofs/GenEliasFano.lean`; their equations are restated below (all by `rfl`).

Hypothesis added to those of C04 (`m ≠ 0`, `u < 2^64`): `m + (u >> low_len) + 2 < 2^63` with
`low_len = lowLenOf u m = ⌊log2 (u / m)⌋` — the number of high bits allocated by `new` (a `usize` in the code, an
unbounded `Nat` in the model) is below `2^63`, because `DArray` stores bit positions as `isize` (the hypothesis of
`C02Gen`). Since `u >> low_len < 2 * m`, `3 * m + 2 < 2^63` suffices (`size_bound_simple`). The query arguments are
unrestricted. -/
namespace Sucds.C04Gen
open Sucds Sucds.Spec Sucds.EFB Sucds.EFQ
open Sucds.GenEq (genRun resU lowLenOf EFOp efExtended efSpecOps efGapply efGrun)

/-- `n` successive calls of the generated `Iter::next`, collecting the answers -/
abbrev itRun := GenEq.efGenItRun

/-! ### the runners and the list semantics (definitions restated) -/
example (c : Cfg) (b : EFB) (v : Nat) (vs : List Nat) :
    genRun c b [] = .ok (b, []) ∧
    genRun c b (v :: vs) = (GenFn.EliasFanoBuilder.push c b v).bind fun r =>
      (genRun c r.1 vs).bind fun rr => .ok (rr.1, r.2 :: rr.2) := ⟨rfl, rfl⟩
example (c : Cfg) (b : EFB) (v : Nat) (vs : List Nat) :
    efGapply c b (.push v) = GenFn.EliasFanoBuilder.push c b v ∧
    efGapply c b (.extend vs) = GenFn.EliasFanoBuilder.extend c b vs := ⟨rfl, rfl⟩
example (c : Cfg) (b : EFB) (op : EFOp) (ops : List EFOp) :
    efGrun c b [] = .ok (b, []) ∧
    efGrun c b (op :: ops) = (efGapply c b op).bind fun r =>
      (efGrun c r.1 ops).bind fun rr => .ok (rr.1, r.2 :: rr.2) := ⟨rfl, rfl⟩
example (c : Cfg) (n : Nat) (it : GenFn.iter_Iter) :
    itRun c 0 it = .ok (it, []) ∧
    itRun c (n+1) it = (itRun c n it).bind fun r =>
      (GenFn.iter_Iter.next c r.1).bind fun s => .ok (s.1, r.2 ++ [s.2]) := ⟨rfl, rfl⟩
/-- offering `v :: vs` to a builder holding `acc`: `v` is taken iff it is `≥` the last value, `< u` and fewer than `m`
    values are held; the first refusal ends the call -/
example (u m v : Nat) (acc vs : List Nat) :
    efExtended u m acc [] = (acc, true) ∧
    efExtended u m acc (v :: vs) =
      (if acc.getLast?.getD 0 ≤ v ∧ v < u ∧ acc.length < m then efExtended u m (acc ++ [v]) vs else (acc, false)) :=
  ⟨rfl, rfl⟩
example (u m v : Nat) (acc vs : List Nat) (ops : List EFOp) :
    efSpecOps u m acc [] = (acc, []) ∧
    efSpecOps u m acc (.push v :: ops) = ((efSpecOps u m (efExtended u m acc [v]).1 ops).1,
      (efExtended u m acc [v]).2 :: (efSpecOps u m (efExtended u m acc [v]).1 ops).2) ∧
    efSpecOps u m acc (.extend vs :: ops) = ((efSpecOps u m (efExtended u m acc vs).1 ops).1,
      (efExtended u m acc vs).2 :: (efSpecOps u m (efExtended u m acc vs).1 ops).2) := ⟨rfl, rfl, rfl⟩

/-- what the built sequence `e` must answer for the stored list `xs` and universe `u` — `C04.Answers` over the
    generated queries -/
structure Answers (c : Cfg) (e : EF) (u : Nat) (xs : List Nat) : Prop where
  len      : GenFn.EliasFano.len e = xs.length
  univ     : GenFn.EliasFano.universe e = u
  select   : ∀ k, GenFn.EliasFano.select c e k = .ok xs[k]?
  delta    : ∀ k, GenFn.EliasFano.delta c e k =
               .ok (if k < xs.length then some (X xs k - (if k = 0 then 0 else X xs (k - 1))) else none)
  rank     : ∀ p, GenFn.EliasFano.rank c e p = .ok (if p ≤ u then some (rk xs p) else none)
  pred     : ∀ p, GenFn.EliasFano.predecessor c e p = .ok (if p < u then predV xs p else none)
  succ     : ∀ p, GenFn.EliasFano.successor c e p = .ok (if p < u then succV xs p else none)
  iter     : ∀ k, ∃ it0, GenFn.EliasFano.iter c e k = .ok it0 ∧
               ∀ t, ∃ it', itRun c (xs.length - k + t) it0 = .ok (it', (xs.drop k).map some ++ List.replicate t none)
  bs_none  : ∀ lo hi v, (hi ≤ lo ∨ xs.length < hi) → GenFn.EliasFano.binsearch_range c e (lo, hi) v = .ok none
  bs_some  : ∀ lo hi v, lo < hi → hi ≤ xs.length → ∃ r, GenFn.EliasFano.binsearch_range c e (lo, hi) v = .ok r ∧
               match r with
               | some i => lo ≤ i ∧ i < hi ∧ xs[i]? = some v
               | none => ∀ i, lo ≤ i → i < hi → xs[i]? ≠ some v
  bs_all   : ∀ v, GenFn.EliasFano.binsearch c e v = GenFn.EliasFano.binsearch_range c e (0, xs.length) v

def Statement : Prop :=
  -- `C04.Statement`: `new(u, m)`, a history of pushes, `build()`, `enable_rank()`
  (∀ (c : Cfg) (u m : Nat) (hist : List Nat), m ≠ 0 → u < 2^64 → m + (u >>> lowLenOf u m) + 2 < 2^63 →
    ∃ b0 b' e0 e, GenFn.EliasFanoBuilder.new c u m = .ok (RS.Res.ok b0) ∧
      genRun c b0 hist = .ok (b', (verdicts u m [] hist).map resU) ∧
      GenFn.EliasFanoBuilder.build c b' = .ok e0 ∧ GenFn.EliasFano.enable_rank c e0 = .ok e ∧
      Answers c e u (accepted u m [] hist)) ∧
  -- the same for a history mixing `push` and `extend` calls
  (∀ (c : Cfg) (u m : Nat) (ops : List EFOp), m ≠ 0 → u < 2^64 → m + (u >>> lowLenOf u m) + 2 < 2^63 →
    ∃ b0 b' e0 e, GenFn.EliasFanoBuilder.new c u m = .ok (RS.Res.ok b0) ∧
      efGrun c b0 ops = .ok (b', (efSpecOps u m [] ops).2.map resU) ∧
      GenFn.EliasFanoBuilder.build c b' = .ok e0 ∧ GenFn.EliasFano.enable_rank c e0 = .ok e ∧
      Answers c e u (efSpecOps u m [] ops).1)

theorem answers_of {c : Cfg} {e : EF} {u : Nat} {xs : List Nat} (A : GenEq.GenAnswers c e u xs) : Answers c e u xs :=
  ⟨A.len, A.univ, A.select, A.delta, A.rank, A.pred, A.succ, A.iter, A.bs_none, A.bs_some, A.bs_all⟩

theorem holds : Statement := by
  refine ⟨fun c u m hist hm hu hsz => ?_, fun c u m ops hm hu hsz => ?_⟩
  · obtain ⟨b0, b', e0, e, _, hn, hr, k1, k2, _, _, A, _⟩ := GenEq.ef_pipeline_hist c c u m hist hm hu hsz
    exact ⟨b0, b', e0, e, hn c, hr c, k1, k2, answers_of A⟩
  · obtain ⟨b0, b', e0, e, _, hn, hr, k1, k2, _, _, A, _⟩ := GenEq.ef_pipeline_ops c c u m ops hm hu hsz
    exact ⟨b0, b', e0, e, hn c, hr c, k1, k2, answers_of A⟩

/-- a push history is the history of the corresponding `push` calls: clause 1 is an instance of clause 2 -/
theorem pushes_are_ops (c : Cfg) (u m : Nat) (b : EFB) (hist : List Nat) :
    efGrun c b (hist.map EFOp.push) = genRun c b hist ∧
    efSpecOps u m [] (hist.map EFOp.push) = (accepted u m [] hist, verdicts u m [] hist) :=
  ⟨GenEq.efGrun_pushes c hist b, GenEq.efSpecOps_pushes u m hist []⟩

/-- the size hypothesis follows from `3 * m + 2 < 2^63` -/
theorem size_bound_simple (u m : Nat) (hm : m ≠ 0) (h : 3 * m + 2 < 2^63) : m + (u >>> lowLenOf u m) + 2 < 2^63 := by
  have := GenEq.shr_lowLen_lt u m hm
  omega

/-- **configuration independence**: in two build configurations the generated pipeline produces the same builders
    and the same structure, and every generated query returns the same answer (for `binsearch`, which C04 does not
    pin down when the value is repeated, through `Config.searchSpec`) -/
theorem config_independent (c c' : Cfg) (u m : Nat) (ops : List EFOp) (hm : m ≠ 0) (hu : u < 2^64)
    (hsz : m + (u >>> lowLenOf u m) + 2 < 2^63) :
    ∃ b0 b' r e0 e,
      GenFn.EliasFanoBuilder.new c u m = .ok (RS.Res.ok b0) ∧ GenFn.EliasFanoBuilder.new c' u m = .ok (RS.Res.ok b0) ∧
      efGrun c b0 ops = .ok (b', r) ∧ efGrun c' b0 ops = .ok (b', r) ∧
      GenFn.EliasFanoBuilder.build c b' = .ok e0 ∧ GenFn.EliasFanoBuilder.build c' b' = .ok e0 ∧
      GenFn.EliasFano.enable_rank c e0 = .ok e ∧ GenFn.EliasFano.enable_rank c' e0 = .ok e ∧
      (∀ k, GenFn.EliasFano.select c e k = GenFn.EliasFano.select c' e k) ∧
      (∀ k, GenFn.EliasFano.delta c e k = GenFn.EliasFano.delta c' e k) ∧
      (∀ p, GenFn.EliasFano.rank c e p = GenFn.EliasFano.rank c' e p) ∧
      (∀ p, GenFn.EliasFano.predecessor c e p = GenFn.EliasFano.predecessor c' e p) ∧
      (∀ p, GenFn.EliasFano.successor c e p = GenFn.EliasFano.successor c' e p) ∧
      (∀ lo hi v, GenFn.EliasFano.binsearch_range c e (lo, hi) v = GenFn.EliasFano.binsearch_range c' e (lo, hi) v) ∧
      (∀ v, GenFn.EliasFano.binsearch c e v = GenFn.EliasFano.binsearch c' e v) ∧
      (∀ k t, ((GenFn.EliasFano.iter c e k).bind fun it =>
                (itRun c (GenFn.EliasFano.len e - k + t) it).bind fun r => .ok r.2) =
              ((GenFn.EliasFano.iter c' e k).bind fun it =>
                (itRun c' (GenFn.EliasFano.len e - k + t) it).bind fun r => .ok r.2)) := by
  obtain ⟨b0, b', e0, e, _, hn, hr, k1, k2, j1, j2, A, A', s, s', _⟩ := GenEq.ef_pipeline_ops c c' u m ops hm hu hsz
  refine ⟨b0, b', _, e0, e, hn c, hn c', hr c, hr c', k1, j1, k2, j2, fun k => ?_, fun k => ?_, fun p => ?_, fun p => ?_,
    fun p => ?_, fun lo hi v => ?_, fun v => ?_, fun k t => ?_⟩
  · rw [A.select, A'.select]
  · rw [A.delta, A'.delta]
  · rw [A.rank, A'.rank]
  · rw [A.pred, A'.pred]
  · rw [A.succ, A'.succ]
  · rw [s, s']
  · rw [A.bs_all, A'.bs_all, s, s']
  · obtain ⟨i0, h0, hrun⟩ := A.iter k
    obtain ⟨i0', h0', hrun'⟩ := A'.iter k
    obtain ⟨i1, h1⟩ := hrun t
    obtain ⟨i1', h1'⟩ := hrun' t
    unfold itRun
    rw [A.len, h0, h0', GenEq.bok, GenEq.bok, h1, h1']
    rfl

/-! ### meaning of the specification side (facts about lists, as in `Props/C04.lean`) -/

/-- a valid input (non-decreasing, below `u`, at most `m` values) pushed value by value is accepted entirely … -/
theorem accepted_of_valid : type_of% (@C04.accepted_of_valid) := @C04.accepted_of_valid
/-- … and so is the same input offered by `extend` -/
theorem extended_of_valid : type_of% (@GenEq.efExtended_of_valid) := @GenEq.efExtended_of_valid
theorem rank_meaning (xs : List Nat) (p : Nat) : rk xs p = xs.countP (· < p) := rfl
theorem pred_meaning : type_of% (@predV_some_iff) := @predV_some_iff
theorem succ_meaning : type_of% (@succV_some_iff) := @succV_some_iff

/-! ### non-vacuity and closed evaluations -/

-- the hypotheses hold of a concrete instance
example : (4 : Nat) ≠ 0 ∧ (20 : Nat) < 2^64 ∧ 4 + (20 >>> lowLenOf 20 4) + 2 < 2^63 := by decide
-- a history with an accepted push, an `extend` stopped at its third item (2 after 3: decreasing), a push outside the
-- universe, an accepted push, a push beyond the capacity
example : efSpecOps 20 4 [] [.push 1, .extend [3, 3, 2, 9], .push 20, .push 17, .push 18] =
    ([1, 3, 3, 17], [true, false, false, true, false]) := by decide

/-- that history, `build()`, `enable_rank()` — all generated code -/
def demo (c : Cfg) : R (List (RS.Res Unit) × EF) :=
  (GenFn.EliasFanoBuilder.new c 20 4).bind fun r => (RS.unwrapRes r).bind fun b0 =>
  (efGrun c b0 [.push 1, .extend [3, 3, 2, 9], .push 20, .push 17, .push 18]).bind fun r1 =>
  (GenFn.EliasFanoBuilder.build c r1.1).bind fun e0 => (GenFn.EliasFano.enable_rank c e0).bind fun e => .ok (r1.2, e)

-- closed evaluations by the kernel (checked build; `Except` has no `DecidableEq`, `Option` has)
example : ((demo ⟨true, false⟩).bind fun r => .ok r.1).toOption = some [.ok (), .err, .err, .ok (), .err] := by
  decide +kernel
example : ((demo ⟨true, false⟩).bind fun r => (GenFn.EliasFano.select ⟨true, false⟩ r.2 3).bind fun a =>
      (GenFn.EliasFano.rank ⟨true, false⟩ r.2 4).bind fun b => (GenFn.EliasFano.successor ⟨true, false⟩ r.2 4).bind fun s =>
      .ok (GenFn.EliasFano.len r.2, GenFn.EliasFano.universe r.2, a, b, s)).toOption
    = some (4, 20, some 17, some 3, some 17) := by
  decide +kernel
example : ((demo ⟨true, false⟩).bind fun r => (GenFn.EliasFano.iter ⟨true, false⟩ r.2 1).bind fun it =>
    (itRun ⟨true, false⟩ 4 it).bind fun s => .ok s.2).toOption = some [some 3, some 3, some 17, none] := by
  decide +kernel
end Sucds.C04Gen
