import Sucds.Proofs.SArray
import Sucds.Proofs.Rank9Full
/-! # C03 — SArray (sparse bit vector) answers every query like the plain bit sequence

For every bit sequence `bs` (length `< 2^64`, every density **including no set bit**), every build configuration
and **every** argument: `SArray::from_bits` succeeds without panicking (the Elias-Fano builder accepts every set
position yielded by `unary_iter(0)`), and both the structure as built and the one after `enable_rank()` return
`access(i) = bs[i]` (`None` iff `i ≥ u`), `select1(k)` = position of the k-th one (`None` iff `k ≥ ones`),
`num_bits = u`, `num_ones` = the true count; after `enable_rank()` also `rank1(i)` = ones in `bs[0..i)`,
`rank0(i) = i − rank1(i)` (`None` iff `i > u`), `predecessor1(i)` = largest set position `≤ i` and
`successor1(i)` = smallest set position `≥ i` (`None` iff `i ≥ u` or there is none). -/
namespace Sucds.C03
open Sucds Sucds.Spec

abbrev bitOf (bs : List Bool) : Nat → Bool := fun j => bs.getD j false

def Statement : Prop :=
  ∀ (c : Cfg) (bs : List Bool), bs.length < 2^64 →
    ∃ s, SA.fromBV c (BV.fromBits bs) = .ok s ∧ s.hasRank = false ∧
      SA.PlainAnswers c s (bitOf bs) bs.length ∧
      SA.PlainAnswers c (s.enableRank c) (bitOf bs) bs.length ∧
      SA.RankAnswers c (s.enableRank c) (bitOf bs) bs.length

theorem holds : Statement := by
  intro c bs hn
  have hinv := (BV.fromBits_spec bs).1
  have hlen : (BV.fromBits bs).len = bs.length := BV.fromBits_len bs
  have hbit : (BV.fromBits bs).bitAt = bitOf bs := funext (fun j => BV.fromBits_bitAt bs j)
  have := SA.fromBV_answers c (BV.fromBits bs) hinv (by rw [hlen]; exact hn)
  rw [hlen, hbit] at this
  exact this

/-- what the answer structures say, spelled out -/
theorem plain_meaning (c : Cfg) (s : SA) (P : Nat → Bool) (n : Nat) (h : SA.PlainAnswers c s P n) :
    s.numBits = n ∧ s.numOnes = cnt P n ∧
    (∀ i, s.access c i = .ok (if i < n then some (P i) else none)) ∧
    (∀ k, s.select1 c k = .ok (sel P n k)) := ⟨h.numBits, h.numOnes, h.access, h.select1⟩
theorem rank_meaning (c : Cfg) (s : SA) (P : Nat → Bool) (n : Nat) (h : SA.RankAnswers c s P n) :
    (∀ i, s.rank1 c i = .ok (if i ≤ n then some (cnt P i) else none)) ∧
    (∀ i, s.rank0 c i = .ok (if i ≤ n then some (i - cnt P i) else none)) ∧
    (∀ i, s.predecessor1 c i = .ok (if i < n then predP P i else none)) ∧
    (∀ i, s.successor1 c i = .ok (if i < n then succP P n i else none)) := ⟨h.rank1, h.rank0, h.pred1, h.succ1⟩
end Sucds.C03
