import Sucds.Props.C04
/-! # C03 — SArray answers like the plain bit sequence (partial): SArray is an Elias-Fano sequence over the
    positions of the set bits; what is proved is what C04 proves for that sequence (`select1`). -/
namespace Sucds.C03
theorem select1_via_elias_fano : type_of% (@Sucds.C04.select_via_high_bits) := @Sucds.C04.select_via_high_bits
end Sucds.C03
