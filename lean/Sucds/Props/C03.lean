import Sucds.Props.C04
/-! # C03 — SArray answers like the plain bit sequence (partial): SArray is an Elias-Fano sequence over the
    positions of the set bits with universe = length; every query of that sequence is proved in C04. The glue
    (the positions list is what `unary_iter(0)` yields and the builder accepts all of it) is in progress. -/
namespace Sucds.C03
theorem elias_fano_queries : Sucds.C04.Statement := Sucds.C04.holds
end Sucds.C03
