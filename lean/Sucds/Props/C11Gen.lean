import Sucds.Proofs.GenDacsByte
import Sucds.Proofs.ConfigBuild
/-! # C11 over the definitions *generated from the Rust sources* (`src/int_vectors/dacs_byte.rs`)

`Props/C11.lean` with every model function replaced by the generated one: `GenFn.DacsByte.{from_slice, access, len,
num_levels, widths, iter}` and the generated iterator `GenFn.dacs_byte_Iter.{next, size_hint}`. `from_slice` is the
generated builder: the maximum scan, `needed_bits`/`ceiled_divide` for the level count, the per-value level loop
(`u8::try_from(x & 255).unwrap()`, `push_bit`), `Rank9Sel::new` on every flag vector. The input is a slice, i.e. an
`Array Nat`; `Result<Self>` is `RS.Res DacB`.

For every build configuration and every slice of `usize` values: `from_slice` returns `Ok` without panicking, and the
result returns `access(i) = vals[i]` for `i < n` and `None` for every other `usize` index, reports `len = n`, has exactly
`⌈bitlen(max)/8⌉` levels of 8 bits — one level for empty or all-zero input — and its iterator yields the input in
order, then `None` forever, with exact size hints (`C11.iteration`; `dbRunN c it n` = `n` times `size_hint()` then
`next()`, equation restated below).

Hypotheses added to that of C11 (`usize` values): the slice length is a `usize` (`vals.size < 2^64`, true of every
slice) and so is the index passed to `access` (`i < 2^64`). -/
namespace Sucds.C11Gen
open Sucds
open Sucds.GenEq (dbRunN)

-- the iterator runner (definition in `Proofs/GenDacsByte.lean`)
example (c : Cfg) (it : GenFn.dacs_byte_Iter) (n : Nat) : dbRunN c it 0 = .ok [] ∧ dbRunN c it (n+1) =
    (GenFn.dacs_byte_Iter.size_hint c it).bind fun sh => (GenFn.dacs_byte_Iter.next c it).bind fun r =>
      (dbRunN c r.1 n).bind fun l => .ok ((r.2, sh) :: l) := ⟨rfl, rfl⟩

def Statement : Prop :=
  ∀ (c : Cfg) (vals : Array Nat), (∀ v ∈ vals, v < 2^64) → vals.size < 2^64 →
    ∃ d, GenFn.DacsByte.from_slice c vals = .ok (RS.Res.ok d) ∧
      (∀ i, i < 2^64 → GenFn.DacsByte.access c d i = .ok vals[i]?) ∧
      GenFn.DacsByte.len d = .ok vals.size ∧
      GenFn.DacsByte.num_levels d = (if vals.size = 0 then 1 else (bitlen (vals.toList.foldl max 0) + 7) / 8) ∧
      (GenFn.DacsByte.widths d).toList = List.replicate (GenFn.DacsByte.num_levels d) 8 ∧
      -- iteration: the input in order, then `None` forever, exact size hints
      (∀ n, dbRunN c (GenFn.DacsByte.iter d) n =
        .ok ((List.range n).map fun j => (vals[j]?, (vals.size - j, some (vals.size - j)))))

theorem holds : Statement := by
  intro c vals hv hn
  obtain ⟨d, a1, _, _, a4, a5, _, _, a8, a9, a10⟩ := GenEq.dacs_byte_c11 c vals hv hn
  refine ⟨d, a1, a4, a5, a8, ?_, fun n => ?_⟩
  · have hsz : (GenFn.DacsByte.widths d).toList.length = GenFn.DacsByte.num_levels d := by
      simp [GenFn.DacsByte.widths, GenFn.DacsByte.num_levels]
    rw [a9, List.length_replicate] at hsz
    rw [a9, hsz]
  · rw [a10 n]
    simp [C17.expected]

/-- the generated functions are the model functions (same value, same panic, every configuration) -/
theorem generated_eq_model (c : Cfg) (vals : Array Nat) (hv : ∀ v ∈ vals, v < 2^64) (hn : vals.size < 2^64) :
    GenFn.DacsByte.from_slice c vals = .ok (RS.Res.ok (DacB.fromSlice c vals.toList)) ∧
    ∀ i, i < 2^64 → GenFn.DacsByte.access c (DacB.fromSlice c vals.toList) i = (DacB.fromSlice c vals.toList).access c i :=
  ⟨GenEq.dacs_byte_from_slice_eq c vals hv hn,
   fun i hi => GenEq.dacs_byte_access_fromSlice_eq c vals.toList (fun v h => hv v (Array.mem_toList_iff.mp h)) i hi⟩

/-- configuration independence: the same structure in every build configuration, the same answers -/
theorem config_independent (c c' : Cfg) (vals : Array Nat) (hv : ∀ v ∈ vals, v < 2^64) (hn : vals.size < 2^64) :
    GenFn.DacsByte.from_slice c vals = GenFn.DacsByte.from_slice c' vals ∧
    ∀ d, GenFn.DacsByte.from_slice c vals = .ok (RS.Res.ok d) →
      (∀ i, i < 2^64 → GenFn.DacsByte.access c d i = GenFn.DacsByte.access c' d i) ∧
      (∀ n, dbRunN c (GenFn.DacsByte.iter d) n = dbRunN c' (GenFn.DacsByte.iter d) n) := by
  have e : GenFn.DacsByte.from_slice c vals = GenFn.DacsByte.from_slice c' vals := by
    rw [GenEq.dacs_byte_from_slice_eq c vals hv hn, GenEq.dacs_byte_from_slice_eq c' vals hv hn,
      Config.DacB_fromSlice_cfg c c']
  refine ⟨e, fun d hd => ?_⟩
  have hd' := e ▸ hd
  obtain ⟨d1, a1, a2, _, _, _, a6⟩ := holds c vals hv hn
  obtain ⟨d2, b1, b2, _, _, _, b6⟩ := holds c' vals hv hn
  rw [hd] at a1; injection a1 with a1; injection a1 with a1; subst a1
  rw [hd'] at b1; injection b1 with b1; injection b1 with b1; subst b1
  exact ⟨fun i hi => by rw [a2 i hi, b2 i hi], fun n => by rw [a6 n, b6 n]⟩

/-! ### non-vacuity and closed evaluations -/
-- the hypotheses hold of a concrete input (values of 1, 2, 3 and 4 bytes)
example : (∀ v ∈ (#[5, 300, 70000, 0, 1000000007] : Array Nat), v < 2^64) ∧
    (#[5, 300, 70000, 0, 1000000007] : Array Nat).size < 2^64 := by decide
-- kernel evaluation of the generated code (checked build; `Except` has no `DecidableEq`, `Option` has)
example : ((GenFn.DacsByte.from_slice ⟨true, false⟩ #[5, 300, 70000, 0, 1000000007]).bind fun r => (RS.unwrapRes r).bind fun d =>
      (GenFn.DacsByte.access ⟨true, false⟩ d 2).bind fun a => (GenFn.DacsByte.access ⟨true, false⟩ d 4).bind fun b =>
      (GenFn.DacsByte.access ⟨true, false⟩ d 5).bind fun x => (GenFn.DacsByte.len d).bind fun n => .ok [a, b, x, some n]).toOption
    = some [some 70000, some 1000000007, none, some 5] := by decide +kernel
example : ((GenFn.DacsByte.from_slice ⟨true, false⟩ #[5, 300, 70000, 0, 1000000007]).bind fun r => (RS.unwrapRes r).bind fun d =>
      .ok (GenFn.DacsByte.num_levels d :: (GenFn.DacsByte.widths d).toList)).toOption = some [4, 8, 8, 8, 8] := by decide +kernel
-- all-zero and empty input have one level
example : ((GenFn.DacsByte.from_slice ⟨true, false⟩ #[0, 0, 0]).bind fun r => (RS.unwrapRes r).bind fun d =>
      .ok (GenFn.DacsByte.num_levels d)).toOption = some 1 ∧
    ((GenFn.DacsByte.from_slice ⟨true, false⟩ #[]).bind fun r => (RS.unwrapRes r).bind fun d =>
      .ok (GenFn.DacsByte.num_levels d)).toOption = some 1 := by decide +kernel
end Sucds.C11Gen
