import Sucds.Proofs.Serial
/-! # C08 — serialization round-trips every structure and accounts for every byte (partial)

Proved: the codec combinators (`uint k`, `bool`, `seq`, `vec`, `opt`, `iso`) preserve `Good` =
round trip with exact consumption (hence back-to-back values are read in order) ∧ size = number of bytes
∧ every strict prefix fails; instantiated for `BitVector`. Missing: `Good` for the remaining structure
codecs (compositions of the same combinators; byte-for-byte equality with the real code is checked by
the correspondence on every run). -/
namespace Sucds.C08
open Sucds Sucds.Codec

theorem bit_vector_codec : BV.codec.Good (fun b => b.words.size < 256^8 ∧ (∀ w ∈ b.words.toList, w < 256^8) ∧ b.len < 256^8) :=
  BV.codec_good
theorem vec_preserves {α} {a : Codec α} {va} (ha : a.Good va) : type_of% (vec_good ha) := vec_good ha
theorem opt_preserves {α} {a : Codec α} {va} (ha : a.Good va) : type_of% (opt_good ha) := opt_good ha
theorem seq_preserves {α β} {a : Codec α} {b : Codec β} {va vb} (ha : a.Good va) (hb : b.Good vb) : type_of% (seq_good ha hb) := seq_good ha hb
end Sucds.C08
