import Sucds.Proofs.SerialStruct
/-! # C08 — serialization round-trips every structure and accounts for every byte

`Codec.Good c Wf` bundles, for every well-formed value `x` (every stored number fits the width it is
serialized with, i.e. `x` is a value the Rust type can hold):
* `rt  : c.get (c.put x ++ rest) = some (x, rest)` — deserializing the bytes yields a value equal to `x`
  (the derived `PartialEq` is structural, so every query answers identically) and consumes exactly the
  bytes written, whatever follows; hence values written back to back are read back in order;
* `sz  : (c.put x).length = c.size x` — `serialize_into` writes exactly `size_in_bytes()` bytes;
* `pre` — every strict prefix fails to decode (used by C13).
The codecs are the models of the `Serializable` impls, in their field order; that the real code writes
exactly these bytes is checked byte for byte by the correspondence on every run. -/
namespace Sucds.C08
open Sucds Sucds.Codec

/-- the full statement: every structure codec, every primitive, and the `Vec`/`Option` wrappers -/
def Statement : Prop :=
  BV.codec.Good BV.Wf ∧ CV.codec.Good CV.Wf ∧ R9.codec.Good R9.Wf ∧ DA.codec.Good DA.Wf ∧
  SA.codec.Good SA.Wf ∧ EF.codec.Good EF.Wf ∧ DacB.codec.Good DacB.Wf ∧ DacO.codec.Good DacO.Wf ∧
  PS.codec.Good PS.Wf ∧ (∀ k, (WM.codec k).Good (WM.Wf k)) ∧
  (∀ k, (uint k).Good (fun n => n < 256^k)) ∧ Codec.i64.Good (fun x => -(2^63 : Int) ≤ x ∧ x < 2^63) ∧
  Codec.bool.Good (fun _ => True) ∧
  (∀ {α} (a : Codec α) (va : α → Prop), a.Good va → (vec a).Good (fun xs => xs.length < 256^8 ∧ ∀ x ∈ xs, va x)) ∧
  (∀ {α} (a : Codec α) (va : α → Prop), a.Good va → (opt a).Good (fun o => ∀ x, o = some x → va x))

theorem holds : Statement :=
  ⟨BV.codec_wf_good, CV.codec_good, R9.codec_good, DA.codec_good, SA.codec_good, EF.codec_good,
   DacB.codec_good, DacO.codec_good, PS.codec_good, WM.codec_good, uint_good, i64_good, bool_good,
   fun _ _ ha => vec_good ha, fun _ _ ha => opt_good ha⟩

/-- values written back to back into one stream are read back in order -/
theorem back_to_back {α β} {a : Codec α} {b : Codec β} {va vb} (ha : a.Good va) (hb : b.Good vb)
    (x : α) (y : β) (hx : va x) (hy : vb y) (rest : List Nat) :
    ∃ r, a.get (a.put x ++ (b.put y ++ rest)) = some (x, r) ∧ b.get r = some (y, rest) :=
  Good.back_to_back ha hb x y hx hy rest

-- non-vacuity: a concrete well-formed value
example : BV.Wf ⟨#[5], 3⟩ := by
  refine ⟨⟨by decide, ?_⟩, by decide⟩
  intro w hw; simp at hw; subst hw; decide
end Sucds.C08
