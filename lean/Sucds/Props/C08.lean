import Sucds.Proofs.SerialStruct
import Sucds.Proofs.SizeInBytes
import Sucds.Proofs.SerialStream
/-! # C08 — serialization round-trips every structure and accounts for every byte

`Codec.Good c Wf` bundles, for every well-formed value `x` (every stored number fits the width it is
serialized with, i.e. `x` is a value the Rust type can hold):
* `rt  : c.get (c.put x ++ rest) = some (x, rest)` — deserializing the bytes yields a value equal to `x`
  (the derived `PartialEq` is structural, so every query answers identically) and consumes exactly the
  bytes written, whatever follows; hence values written back to back are read back in order;
* `sz  : (c.put x).length = c.size x` — `serialize_into` writes exactly `size_in_bytes()` bytes;
* `pre` — every strict prefix fails to decode (used by C13).
The structure codecs (`X.codec`) and the `size_in_bytes` expressions (`X.sizeInBytes`) are **generated from the
Rust sources** on every run by `tools/gen_codecs.py` (`Sucds/Gen/Codecs.lean`): the struct fields and their types, the
order in which `serialize_into` writes them, the order and types with which `deserialize_from` reads them (the two
orders must agree: `X.orders_agree`), and the `size_in_bytes` sum as written. `size_in_bytes_exact` shows that
expression equals the number of bytes written. The generic `Option`/`Vec`/primitive impls are the hand-written
combinators; that the real code writes exactly these bytes is also checked byte for byte by the correspondence. -/
namespace Sucds.C08
open Sucds Sucds.Codec

/-- the full statement: every structure codec, every primitive, and the `Vec`/`Option` wrappers -/
def Statement : Prop :=
  BV.codec.Good BV.Wf ∧ CV.codec.Good CV.Wf ∧ R9.codec.Good R9.Wf ∧ DA.codec.Good DA.Wf ∧
  SA.codec.Good SA.Wf ∧ EF.codec.Good EF.Wf ∧ DacB.codec.Good DacB.Wf ∧ DacO.codec.Good DacO.Wf ∧
  PS.codec.Good PS.Wf ∧ (∀ k, (WM.codec k).Good (WM.Wf k)) ∧
  (∀ k, (uint k).Good (fun n => n < 256^k)) ∧ Codec.i64.Good (fun x => -(2^63 : Int) ≤ x ∧ x < 2^63) ∧
  Codec.bool.Good (fun _ => True) ∧
  (∀ {α} (a : Codec α) (va : α → Prop), a.Good va → (vec a).Good (fun xs => xs.length < 256^8 ∧ ∀ x ∈ xs, va x)) ∧
  (∀ {α} (a : Codec α) (va : α → Prop), a.Good va → (opt a).Good (fun o => ∀ x, o = some x → va x))

theorem holds : Statement :=
  ⟨BV.codec_wf_good, CV.codec_good, R9.codec_good, DA.codec_good, SA.codec_good, EF.codec_good,
   DacB.codec_good, DacO.codec_good, PS.codec_good, WM.codec_good, uint_good, i64_good, bool_good,
   fun _ _ ha => vec_good ha, fun _ _ ha => opt_good ha⟩

/-- `serialize_into` writes exactly `size_in_bytes()` bytes — with `size_in_bytes` the expression written in the source -/
theorem size_in_bytes_exact :
    (∀ x : BV, BV.Wf x → (BV.codec.put x).length = BV.sizeInBytes x) ∧
    (∀ x : CV, CV.Wf x → (CV.codec.put x).length = CV.sizeInBytes x) ∧
    (∀ x : R9, R9.Wf x → (R9.codec.put x).length = R9.sizeInBytes x) ∧
    (∀ x : DA, DA.Wf x → (DA.codec.put x).length = DA.sizeInBytes x) ∧
    (∀ x : SA, SA.Wf x → (SA.codec.put x).length = SA.sizeInBytes x) ∧
    (∀ x : EF, EF.Wf x → (EF.codec.put x).length = EF.sizeInBytes x) ∧
    (∀ x : DacB, DacB.Wf x → (DacB.codec.put x).length = DacB.sizeInBytes x) ∧
    (∀ x : DacO, DacO.Wf x → (DacO.codec.put x).length = DacO.sizeInBytes x) ∧
    (∀ x : PS, PS.Wf x → (PS.codec.put x).length = PS.sizeInBytes x) ∧
    (∀ k (x : WM), WM.Wf k x → ((WM.codec k).put x).length = WM.sizeInBytes k x) :=
  ⟨fun x _ => by rw [BV.sizeInBytes_eq]; exact BV.codec_wf_good.sz x,
   fun x _ => by rw [CV.sizeInBytes_eq]; exact CV.codec_good.sz x,
   fun x _ => by rw [R9.sizeInBytes_eq]; exact R9.codec_good.sz x,
   fun x _ => by rw [DA.sizeInBytes_eq]; exact DA.codec_good.sz x,
   fun x _ => by rw [SA.sizeInBytes_eq]; exact SA.codec_good.sz x,
   fun x _ => by rw [EF.sizeInBytes_eq]; exact EF.codec_good.sz x,
   fun x _ => by rw [DacB.sizeInBytes_eq]; exact DacB.codec_good.sz x,
   fun x _ => by rw [DacO.sizeInBytes_eq]; exact DacO.codec_good.sz x,
   fun x _ => by rw [PS.sizeInBytes_eq]; exact PS.codec_good.sz x,
   fun k x _ => by rw [WM.sizeInBytes_eq]; exact (WM.codec_good k).sz x⟩

/-- values written back to back into one stream are read back in order -/
theorem back_to_back {α β} {a : Codec α} {b : Codec β} {va vb} (ha : a.Good va) (hb : b.Good vb)
    (x : α) (y : β) (hx : va x) (hy : vb y) (rest : List Nat) :
    ∃ r, a.get (a.put x ++ (b.put y ++ rest)) = some (x, r) ∧ b.get r = some (y, rest) :=
  Good.back_to_back ha hb x y hx hy rest

/-- … at any length: `n` values serialized one after another into one stream (`putMany` = a loop of
`serialize_into`) are read back by `n` successive `deserialize_from` calls (`getMany`) in order, consuming exactly
the bytes written, whatever follows; and the stream is exactly the sum of their `size_in_bytes()` long -/
theorem stream_roundtrip {α} {c : Codec α} {v} (h : c.Good v) (xs : List α) (hx : ∀ x ∈ xs, v x) (rest : List Nat) :
    getMany c xs.length (putMany c xs ++ rest) = some (xs, rest) ∧ (putMany c xs).length = (xs.map c.size).sum :=
  ⟨h.stream_roundtrip xs hx rest, h.stream_length xs⟩

/-- reading only the first `m` values of such a stream yields exactly those and leaves the reader at the first byte
    of value `m`: no call consumes a byte of its successor -/
theorem stream_partial_read {α} {c : Codec α} {v} (h : c.Good v) (xs : List α) (hx : ∀ x ∈ xs, v x)
    (m : Nat) (hm : m ≤ xs.length) (rest : List Nat) :
    getMany c m (putMany c xs ++ rest) = some (xs.take m, putMany c (xs.drop m) ++ rest) :=
  h.stream_partial xs hx m hm rest

-- instantiated for a structure of the crate: any list of well-formed Rank9Sel values
example (xs : List R9) (hx : ∀ x ∈ xs, R9.Wf x) (rest : List Nat) :
    getMany R9.codec xs.length (putMany R9.codec xs ++ rest) = some (xs, rest) :=
  (stream_roundtrip R9.codec_good xs hx rest).1

-- non-vacuity: a concrete well-formed value
example : BV.Wf ⟨#[5], 3⟩ := by
  refine ⟨⟨by decide, ?_⟩, by decide⟩
  intro w hw; simp at hw; subst hw; decide
end Sucds.C08
