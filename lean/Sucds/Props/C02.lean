import Sucds.Proofs.Rank9Rank1
import Sucds.Model.DArray
/-! # C02 — DArray select (and optional rank/select0) (partial): the optional rank index of a DArray is the
    Rank9 index, so `rank1`/`rank0` after `enable_rank` are proved for every configuration and argument.
    Missing: the dense/sparse `select` (modelled; exercised by the correspondence incl. its inventories). -/
namespace Sucds.C02
open Sucds Sucds.Spec
theorem rank1_after_enable_rank (c : Cfg) (bv : BV) (h : bv.Inv) (pos : Nat) :
    ((DA.fromBV c bv).enableRank c).rank1 c pos = .ok (if pos ≤ bv.len then some (cnt bv.bitAt pos) else none) := by
  simp only [DA.rank1, DA.enableRank, DA.fromBV]
  exact R9Index.rank1_ok c bv h pos
theorem rank0_after_enable_rank (c : Cfg) (bv : BV) (h : bv.Inv) (pos : Nat) :
    ((DA.fromBV c bv).enableRank c).rank0 c pos = .ok (if pos ≤ bv.len then some (cnt (fun i => !bv.bitAt i) pos) else none) := by
  simp only [DA.rank0, DA.enableRank, DA.fromBV]
  exact R9Index.rank0_ok c bv h pos
end Sucds.C02
