import Sucds.Proofs.DArray
import Sucds.Proofs.Rank9Full
/-! # C02 — DArray select (and optional rank/select0) equals the plain bit sequence

For every bit sequence (any mix of dense and sparse blocks, any size of the final partial block, any
sub-block alignment — no bound), every index configuration, every build configuration and **every** argument:
the model of `DArray` (`DArrayIndex::build` over ones, optionally over zeros, optional Rank9 index) never
panics on the enabled operations and returns `select1(k)` = position of the k-th one (`None` iff
`k ≥ ones`), after `enable_select0` the same for zeros, after `enable_rank` `access`/`rank1`/`rank0` = the
true prefix counts with `None` iff the position exceeds the length; `num_ones` is the true count. The answers
do not depend on which other indexes are enabled (the right-hand sides do not mention them). A disabled
index answers with the documented panic (`expect`). -/
namespace Sucds.C02
open Sucds Sucds.Spec

abbrev bitOf (bs : List Bool) : Nat → Bool := fun j => bs.getD j false

def Statement : Prop :=
  ∀ (c : Cfg) (bs : List Bool) (rank sel0 : Bool),
    let x := DA.build c (BV.fromBits bs) rank sel0
    (∀ k, x.select1 c k = .ok (sel (bitOf bs) bs.length k)) ∧
    x.numOnes = cnt (bitOf bs) bs.length ∧ x.numBits = bs.length ∧
    (∀ i, x.access i = .ok bs[i]?) ∧
    (sel0 = true → ∀ k, x.select0 c k = .ok (sel (fun j => !bitOf bs j) bs.length k)) ∧
    (rank = true → ∀ i, x.rank1 c i = .ok (if i ≤ bs.length then some (cnt (bitOf bs) i) else none)) ∧
    (rank = true → ∀ i, x.rank0 c i = .ok (if i ≤ bs.length then some (i - cnt (bitOf bs) i) else none))

theorem cnt_not (P : Nat → Bool) (i : Nat) : cnt (fun j => !P j) i = i - cnt P i := by
  have := cnt_compl P i; omega

theorem holds : Statement := by
  intro c bs rank sel0
  have hinv := (BV.fromBits_spec bs).1
  have hlen : (BV.fromBits bs).len = bs.length := BV.fromBits_len bs
  have hbit : (BV.fromBits bs).bitAt = bitOf bs := funext (fun j => BV.fromBits_bitAt bs j)
  obtain ⟨h1, h2, h3, _, h5, h6, _, h8, h9, _⟩ := DA.build_answers c (BV.fromBits bs) hinv rank sel0
  simp only [hlen, hbit] at h1 h2 h3 h5 h6 h8 h9
  refine ⟨h1, h2, h3, ?_, h6, h8, ?_⟩
  · intro i
    rw [h5 i]
    by_cases hi : i < bs.length
    · simp [hi, bitOf, List.getD_eq_getElem?_getD, List.getElem?_eq_getElem hi]
    · simp [hi, List.getElem?_eq_none (Nat.le_of_not_lt hi)]
  · intro hr i
    rw [h9 hr i, cnt_not]
end Sucds.C02
