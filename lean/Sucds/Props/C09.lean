import Sucds.Proofs.CompactVectorHistory
/-! # C09 — CompactVector is a faithful fixed-width integer list under any history (partial)

Proved: `new` accepts exactly widths `1..=64`; every history of `push_int`/`set_int`/`extend` never panics
and refines the list semantics (misfits and out-of-range positions rejected without effect, `extend`
keeps the prefix before the first misfit), after which `get_int i` is the i-th element for *every* `i`.
Missing for the full statement: `from_int`, `from_slice`, iteration, canonical equality. -/
namespace Sucds.C09
open Sucds Sucds.CV

theorem histories : ∀ (ops : List Op) (v : CV) (xs : List Nat), Rep v xs → (∀ op ∈ ops, op.Small) →
    ∃ v', run v ops = .ok v' ∧ v'.width = v.width ∧
      Rep v' (ops.foldl (fun l op => (specApply v.width l op).1) xs) ∧
      ∀ i, v'.getInt i = .ok (ops.foldl (fun l op => (specApply v.width l op).1) xs)[i]? := run_spec

theorem new_accepts (w : Nat) (h1 : 1 ≤ w) (h2 : w ≤ 64) : ∃ v, new w = some v ∧ Rep v [] ∧ v.width = w := new_rep w h1 h2
theorem new_rejects (w : Nat) (h : w < 1 ∨ 64 < w) : new w = none := new_rej w h
end Sucds.C09
