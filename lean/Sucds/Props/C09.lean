import Sucds.Proofs.CompactVectorFull
/-! # C09 — CompactVector is a faithful fixed-width integer list under any history

For every constructor (`new w`, `from_int val len w`, `from_slice vals`; `with_capacity` is `new`, capacity is
not modelled), every history of `push_int` / `set_int` / `extend` with operands in `usize`, and every build
configuration: the constructor answers `Err` exactly for widths outside `1..=64` / values that do not fit
(`specCtor`), nothing panics, and the vector is *faithful* to the list semantics at every point of the
history — `len`, declared `width` (`from_slice`: bit length of the maximum), `get_int i` = i-th element for
**every** `i` (no bound: positions whose bit offset would overflow answer `None`), iteration with exact size
hints, and canonical equality (any vector with the same width and contents is the same value). Every single
operation's `Ok`/`Err` verdict equals the list semantics, a rejected `push_int`/`set_int` returns the vector
unchanged, a failed `extend` keeps the items before the first misfit. -/
namespace Sucds.C09
open Sucds Sucds.CV

def Statement : Prop :=
  ∀ (c : Cfg) (k : Ctor), k.Small → ∀ (ops : List Op), (∀ op ∈ ops, op.Small) →
    match specCtor k with
    | none => construct c k = .ok none
    | some (w, xs0) =>
      ∃ v0 v', construct c k = .ok (some v0) ∧ Faithful v0 w xs0 ∧
        run v0 ops = .ok v' ∧ Faithful v' w (specRun w xs0 ops) ∧
        ∀ pre op post, ops = pre ++ op :: post →
          ∃ v1 v2, run v0 pre = .ok v1 ∧ Faithful v1 w (specRun w xs0 pre) ∧
            v1.apply op = .ok (v2, (specApply w (specRun w xs0 pre) op).2) ∧
            Faithful v2 w (specApply w (specRun w xs0 pre) op).1 ∧
            run v2 post = .ok v' ∧
            ((specApply w (specRun w xs0 pre) op).2 = false → (∀ o, op ≠ .extend o) → v2 = v1)

theorem holds : Statement := fun c k hk ops hs => full_spec c k hk ops hs

/-- vectors with the same width and contents are equal, whatever histories and configurations produced them -/
theorem canonical (c c' : Cfg) (k k' : Ctor) (hk : k.Small) (hk' : k'.Small) (ops ops' : List Op)
    (hs : ∀ op ∈ ops, op.Small) (hs' : ∀ op ∈ ops', op.Small)
    (w : Nat) (xs0 xs0' : List Nat) (h : specCtor k = some (w, xs0)) (h' : specCtor k' = some (w, xs0'))
    (hsame : specRun w xs0 ops = specRun w xs0' ops') :
    ∃ v0 v0' v, construct c k = .ok (some v0) ∧ construct c' k' = .ok (some v0') ∧
      run v0 ops = .ok v ∧ run v0' ops' = .ok v :=
  full_eq c c' k k' hk hk' ops ops' hs hs' w xs0 xs0' h h' hsame

/-- what `Faithful` gives for reads: every index, including the ones whose bit offset would overflow -/
theorem get_int_everywhere (v : CV) (w : Nat) (xs : List Nat) (h : Faithful v w xs) (i : Nat) :
    v.getInt i = .ok xs[i]? := h.get i

-- non-vacuity: a history with a rejected operation (width 3: 9 does not fit), checked by evaluation
example : specRun 3 [] [.pushInt 5, .pushInt 9, .setInt 0 7] = [7] := by decide
end Sucds.C09
