import Sucds.Proofs.DacsAccess
import Sucds.Proofs.DacsOptWidths
import Sucds.Proofs.IndexIter
/-! # C10 — DacsOpt is lossless and respects the level limit for every input

For every build configuration, every list of `usize` values (fewer than 2^57 of them) and every
`max_levels`: `from_slice` answers `Err` exactly when `max_levels ∉ 1..=64` (checked before anything else);
otherwise it succeeds without panicking — none of the `assert!`s of `compute_opt_widths`/`build` can fire,
every `push_int` fits — and the result returns `access(i) = vals[i]` for `i < n` and `None` for every other
`i`, reports `len = n`, iterates the input in order, has between 1 and `min(max_levels, 64)` levels and, for
non-empty input, positive level widths summing to the bit length of the maximum. -/
namespace Sucds.C10
open Sucds

def Statement : Prop :=
  ∀ (c : Cfg) (vals : List Nat) (ml : Option Nat), (∀ v ∈ vals, v < 2^64) → vals.length < 2^57 →
    (¬ (1 ≤ ml.getD 64 ∧ ml.getD 64 ≤ 64) → DacO.fromSlice c vals ml = .ok none) ∧
    (1 ≤ ml.getD 64 ∧ ml.getD 64 ≤ 64 →
      ∃ d, DacO.fromSlice c vals ml = .ok (some d) ∧
        d.len = .ok vals.length ∧ (∀ i, d.access c i = .ok vals[i]?) ∧
        1 ≤ d.widths.length ∧ d.widths.length ≤ min (ml.getD 64) 64 ∧
        (vals ≠ [] → (∀ w ∈ d.widths, 1 ≤ w) ∧ d.widths.sum = SpecX.bitlen (vals.foldl max 0)))

theorem holds : Statement := by
  intro c vals ml hv hn
  refine ⟨?_, ?_⟩
  · intro hbad
    unfold DacO.fromSlice
    have : ml.getD 64 < 1 ∨ 64 < ml.getD 64 := by omega
    rw [if_pos this]
  · intro hml
    by_cases hne : vals = []
    · subst hne
      refine ⟨DacO.default, ?_, rfl, ?_, ?_, ?_, fun h => absurd rfl h⟩
      · unfold DacO.fromSlice
        have : ¬ (ml.getD 64 < 1 ∨ 64 < ml.getD 64) := by omega
        rw [if_neg this]; rfl
      · intro i; rw [DacO.default_access]; simp
      · decide
      · show 1 ≤ min (ml.getD 64) 64; omega
    · obtain ⟨ws, hopt, hwne, hwlen, hwpos, hwsum, _⟩ := DacO.optWidths_ok c vals hne hv hn (ml.getD 64) hml.1 hml.2
      have hmax : vals.foldl max 0 < 2^64 := DacsOptW.maxv_lt vals hv
      have hsum64 : ws.sum ≤ 64 := by rw [hwsum]; exact DacsOptW.bitlen_le_64 _ hmax
      have hfit : ∀ v ∈ vals, v < 2^ws.sum := by
        intro v hvm
        rw [hwsum]
        have h1 : v ≤ vals.foldl max 0 := (DacsOptW.foldl_max_ge vals 0).2 v hvm
        exact Nat.lt_of_lt_of_le (DacsOptW.lt_two_pow_bitlen v)
          (Nat.pow_le_pow_right (by decide) (DacsOptW.bitlen_mono h1))
      obtain ⟨d, hd, _, hw, hl, ha⟩ := DacO.fromSlice_ok_of_widths c vals ml ws hml hne hopt hwne hwpos hsum64 hfit
      refine ⟨d, hd, hl, ha, ?_, ?_, fun _ => ⟨?_, ?_⟩⟩
      · rw [hw]; exact List.length_pos_iff.mpr hwne
      · rw [hw]; exact hwlen
      · rw [hw]; exact hwpos
      · rw [hw]; exact hwsum

/-- iteration: the index iterator over a lossless structure yields the input then `None` forever, exact hints -/
theorem iteration (vals : List Nat) (acc : Nat → Option Nat) (hacc : ∀ i, acc i = vals[i]?) (n : Nat) :
    IndexIter.runN vals.length acc ⟨0⟩ n =
      (List.range n).map (fun j => (vals[0 + j]?, (vals.length - (0 + j), some (vals.length - (0 + j))))) :=
  IndexIter.runN_spec vals acc (fun i _ => hacc i) n 0 (Nat.zero_le _)
end Sucds.C10
