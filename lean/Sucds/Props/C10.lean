import Sucds.Proofs.DP
import Sucds.Proofs.DacLevels
/-! # C10 — DacsOpt is lossless and respects the level limit (partial)

Proved: (a) the dynamic program as written (`scan` with the `usize::MAX` initialisation and the `<=`
update, first strict minimum over the level count) — along its own reconstruction path the table entry
is the true cost, the three `assert_eq!` of the reconstruction cannot fire (`recon_full`); (b) the level
walk of `access` is lossless for arbitrary positive widths (`walk_ok`). Missing: the glue between the
array-level model (`DacO.optWidths`, `DacO.build`, `DacO.access`) and these function-level results. -/
namespace Sucds.C10
open Sucds

theorem walk_lossless : ∀ (ws : List Nat) (vs : List Nat) (pos : Nat), ws ≠ [] → pos < vs.length →
    (∀ v ∈ vs, v < 2^ws.sum) → Dac.walk ws vs pos = vs[pos]! := Dac.walk_ok

theorem reconstruction_asserts_hold : type_of% (@DP.recon_full) := @DP.recon_full
end Sucds.C10
