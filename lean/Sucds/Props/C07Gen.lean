import Sucds.Proofs.GenBitVectorRW
import Sucds.Proofs.GenBitVectorScan
import Sucds.Props.C07
/-! # C07 over the `BitVector` definitions *generated from the Rust sources*

`Sucds.GenFn.BitVector.*` (`Sucds/Gen/Fns.lean`) is regenerated from `src/bit_vectors/bit_vector.rs` on every run.
The statement below is `C07.Statement` with every model function replaced by the generated one; the tie between
theorem and code is the translator plus the equivalence theorems `Sucds.GenEq.*`
(`Proofs/GenBitVectorRW.lean`, `Proofs/GenBitVectorScan.lean`).

Hypotheses added to `C07.Statement` (all are bounds by `usize::MAX = 2^64 - 1`, nothing else):
* a `usize` argument is `< 2^64` (`get_word64`, `rank1/0`, `select1/0`: the position / rank argument);
* constructors: `from_bits` of a list shorter than `2^64`, `from_bit` of `len + 64 < 2^64` (`words_for` computes `len + 63`);
* one mutator: `b.len + room op < 2^64`, `room` = the bits the operation may append (`set_bits`: 1, because its range
  check is `pos.saturating_add(len)`; see `GenEq.set_bits_differs_at_usize_max`); a history: final length `+ 1 < 2^64`;
* reads: `b.len + 63 < 2^64` (needed by `select0` only: `GenEq.select0_overflows_near_usize_max`; the others need less). -/
namespace Sucds.C07Gen
open Sucds Sucds.Spec Sucds.BV
open Sucds.GenFn (BitVector.new BitVector.from_bit BitVector.from_bits BitVector.push_bit BitVector.push_bits
  BitVector.set_bit BitVector.set_bits BitVector.extend BitVector.get_bit BitVector.get_bits BitVector.get_word64
  BitVector.rank1 BitVector.rank0 BitVector.select1 BitVector.select0 BitVector.predecessor1 BitVector.predecessor0
  BitVector.successor1 BitVector.successor0 BitVector.num_ones BitVector.len)

abbrev Valid (b : BV) : Prop := b.Inv

/-- `Result<()>` as the verdict of the list semantics -/
def verdict : RS.Res Unit → Bool
  | .ok _ => true
  | .err => false

/-- one mutator of the generated code (`&mut self` methods return the new `self` first) -/
def genApply (c : Cfg) (b : BV) : Op → R (BV × Bool)
  | .pushBit x => (BitVector.push_bit c b x).bind fun r => .ok (r.1, true)
  | .pushBits bits len => (BitVector.push_bits c b bits len).bind fun r => .ok (r.1, verdict r.2)
  | .setBit pos x => (BitVector.set_bit c b pos x).bind fun r => .ok (r.1, verdict r.2)
  | .setBits pos bits len => (BitVector.set_bits c b pos bits len).bind fun r => .ok (r.1, verdict r.2)
  | .extend xs => (BitVector.extend c b xs).bind fun r => .ok (r.1, true)

/-- a history of mutators of the generated code -/
def genRun (c : Cfg) : BV → List Op → R BV
  | b, [] => .ok b
  | b, op :: ops => (genApply c b op).bind fun r => genRun c r.1 ops

/-- room below `2^64` an operation needs: the bits it may append (`set_bits`: `len ≠ usize::MAX`) -/
def room : Op → Nat
  | .pushBit _ => 1
  | .pushBits _ len => if len ≤ 64 then len else 0
  | .setBit _ _ => 0
  | .setBits _ _ _ => 1
  | .extend bs => bs.length

/-- the contents after a history, in the list semantics -/
abbrev specRun (l : List Bool) (ops : List Op) : List Bool := ops.foldl (fun l op => (specApply l op).1) l

/-- reads of the generated code equal the list semantics (`C07.ReadsOK` with the generated functions) -/
structure GenReadsOK (c : Cfg) (b : BV) : Prop where
  len      : b.toList.length = BitVector.len b
  get_bit  : ∀ pos, BitVector.get_bit c b pos = .ok (if pos < b.len then some (b.bitAt pos) else none)
  get_bits : ∀ pos len, (len ≤ 64 ∧ pos + len ≤ b.len →
                ∃ v, BitVector.get_bits c b pos len = .ok (some v) ∧ ∀ j, v.testBit j = (decide (j < len) && b.bitAt (pos + j))) ∧
              (¬ (len ≤ 64 ∧ pos + len ≤ b.len) → BitVector.get_bits c b pos len = .ok none)
  get_word64 : ∀ pos, pos < 2^64 → (pos < b.len →
                ∃ v, BitVector.get_word64 c b pos = .ok (some v) ∧ ∀ j, v.testBit j = (decide (j < 64) && b.bitAt (pos + j))) ∧
              (b.len ≤ pos → BitVector.get_word64 c b pos = .ok none)
  rank1    : ∀ pos, pos < 2^64 → BitVector.rank1 c b pos = .ok (if pos ≤ b.len then some (cnt b.bitAt pos) else none)
  rank0    : ∀ pos, pos < 2^64 → BitVector.rank0 c b pos = .ok (if pos ≤ b.len then some (pos - cnt b.bitAt pos) else none)
  select1  : ∀ k, k < 2^64 → BitVector.select1 c b k = .ok (sel b.bitAt b.len k)
  select0  : ∀ k, k < 2^64 → BitVector.select0 c b k = .ok (sel (fun i => !b.bitAt i) b.len k)
  pred1    : ∀ pos, BitVector.predecessor1 c b pos = .ok (if pos < b.len then predP b.bitAt pos else none)
  pred0    : ∀ pos, BitVector.predecessor0 c b pos = .ok (if pos < b.len then predP (fun i => !b.bitAt i) pos else none)
  succ1    : ∀ pos, BitVector.successor1 c b pos = .ok (if pos < b.len then succP b.bitAt b.len pos else none)
  succ0    : ∀ pos, BitVector.successor0 c b pos = .ok (if pos < b.len then succP (fun i => !b.bitAt i) b.len pos else none)
  num_ones : BitVector.num_ones c b = .ok (cnt b.bitAt b.len)

def Statement : Prop :=
  -- constructors
  (Valid BitVector.new ∧ BitVector.new.toList = []) ∧
  (∀ (c : Cfg) (xs : List Bool), xs.length < 2^64 →
    ∃ b, BitVector.from_bits c xs = .ok b ∧ Valid b ∧ b.toList = xs) ∧
  (∀ (c : Cfg) bit len, len + 64 < 2^64 →
    ∃ b, BitVector.from_bit c bit len = .ok b ∧ Valid b ∧ BitVector.len b = len ∧ ∀ i, b.bitAt i = (decide (i < len) && bit)) ∧
  -- one operation: verdict, refinement, no effect when rejected
  (∀ (c : Cfg) (b : BV), Valid b → ∀ op : Op, b.len + room op < 2^64 →
    ∃ b', genApply c b op = .ok (b', (specApply b.toList op).2) ∧ Valid b' ∧ b'.toList = (specApply b.toList op).1 ∧
      ((specApply b.toList op).2 = false → b' = b)) ∧
  -- every history
  (∀ (c : Cfg) (ops : List Op) (b : BV), Valid b → (specRun b.toList ops).length + 1 < 2^64 →
    ∃ b', genRun c b ops = .ok b' ∧ Valid b' ∧ b'.toList = specRun b.toList ops) ∧
  -- reads
  (∀ (c : Cfg) (b : BV), Valid b → b.len + 63 < 2^64 → GenReadsOK c b) ∧
  -- canonical equality
  (∀ a b : BV, Valid a → Valid b → a.toList = b.toList → a = b)

/-! ### generated mutators = model mutators -/

theorem unres (x : R (BV × Bool)) : ((x.map GenEq.resOf).bind fun r => .ok (r.1, verdict r.2)) = x := by
  rcases x with e | ⟨b1, ok⟩
  · rfl
  · cases ok <;> rfl

theorem genApply_eq (c : Cfg) (b : BV) (h : Valid b) (op : Op) (hb : b.len + room op < 2^64) :
    genApply c b op = b.apply op := by
  cases op with
  | pushBit x => simp only [genApply, apply]; rw [GenEq.push_bit_eq c b h x hb]; rfl
  | extend xs => simp only [genApply, apply]; rw [GenEq.extend_eq c b h xs hb]; rfl
  | setBit pos x => simp only [genApply, apply]; rw [GenEq.set_bit_eq_resOf]; exact unres _
  | setBits pos bits len =>
    simp only [genApply, apply]; rw [GenEq.set_bits_eq_resOf c b pos bits len (.inr hb)]; exact unres _
  | pushBits bits len =>
    simp only [genApply, apply]
    by_cases hl : len ≤ 64
    · simp only [room, if_pos hl] at hb
      rw [GenEq.push_bits_eq_resOf c b h bits len hb]
      exact unres (.ok (b.pushBits bits len))
    · rw [GenEq.push_bits_rej c b bits len (by omega), pushBits_rej b bits len (by omega)]; rfl

theorem specApply_length (l : List Bool) (op : Op) :
    l.length ≤ (specApply l op).1.length ∧ l.length + room op ≤ (specApply l op).1.length + 1 := by
  cases op with
  | pushBit x => simp [specApply, room]
  | extend xs => simp [specApply, room]
  | setBit pos x => simp only [specApply, room]; split <;> simp
  | setBits pos bits len => simp only [specApply, room]; split <;> simp [bitsOfN_length] <;> omega
  | pushBits bits len => simp only [specApply, room]; split <;> simp [bitsOfN_length] <;> omega

theorem specRun_length : ∀ (ops : List Op) (l : List Bool), l.length ≤ (specRun l ops).length
  | [], _ => Nat.le_refl _
  | op :: t, l => Nat.le_trans (specApply_length l op).1 (specRun_length t _)

theorem genRun_eq (c : Cfg) : ∀ (ops : List Op) (b : BV), Valid b → (specRun b.toList ops).length + 1 < 2^64 →
    genRun c b ops = run b ops
  | [], _, _, _ => rfl
  | op :: t, b, h, hb => by
    obtain ⟨b1, ha, hi, ht, _⟩ := apply_spec b h op
    have h1 := specRun_length t (specApply b.toList op).1
    have h2 := (specApply_length b.toList op).2
    have hlen := toList_length b
    have hb' : (specRun (specApply b.toList op).1 t).length + 1 < 2^64 := hb
    simp only [genRun, run]
    rw [genApply_eq c b h op (by omega), ha]
    exact genRun_eq c t b1 hi (by rw [ht]; exact hb')

theorem reads_ok (c : Cfg) (b : BV) (h : Valid b) (hl : b.len + 63 < 2^64) : GenReadsOK c b :=
  have m := C07.reads_ok c b h
  have s := GenEq.scans_ok c b h hl
  { len := m.len
    get_bit := fun pos => by rw [GenEq.get_bit_eq]; exact m.get_bit pos
    get_bits := fun pos len => by rw [GenEq.get_bits_eq c b (by omega)]; exact m.get_bits pos len
    get_word64 := fun pos hp => by rw [GenEq.get_word64_eq c b pos hp]; exact m.get_word64 pos
    rank1 := s.rank1, rank0 := s.rank0, select1 := s.select1, select0 := s.select0
    pred1 := s.pred1, pred0 := s.pred0, succ1 := s.succ1, succ0 := s.succ0, num_ones := s.num_ones }

theorem holds : Statement :=
  ⟨⟨new_inv, new_toList⟩,
   fun c xs hx => ⟨_, GenEq.from_bits_eq c xs hx, fromBits_spec xs⟩,
   fun c bit len hn => ⟨_, GenEq.from_bit_eq c bit len hn, fromBit_spec bit len⟩,
   fun c b h op hb => by rw [genApply_eq c b h op hb]; exact apply_spec b h op,
   fun c ops b h hb => by rw [genRun_eq c ops b h hb]; exact run_spec ops b h,
   reads_ok, eq_of_toList⟩

/-- histories of the generated code producing the same bits produce equal values (any two configurations) -/
theorem canonical (c c' : Cfg) (ops ops' : List Op) (b0 b0' b b' : BV) (h0 : Valid b0) (h0' : Valid b0')
    (hb : (specRun b0.toList ops).length + 1 < 2^64) (hb' : (specRun b0'.toList ops').length + 1 < 2^64)
    (hr : genRun c b0 ops = .ok b) (hr' : genRun c' b0' ops' = .ok b')
    (heq : specRun b0.toList ops = specRun b0'.toList ops') : b = b' := by
  rw [genRun_eq c ops b0 h0 hb] at hr; rw [genRun_eq c' ops' b0' h0' hb'] at hr'
  exact run_canonical ops ops' b0 b0' b b' h0 h0' hr hr' heq

/-- a vector built by a history equals the one built by `from_bits` from the resulting list -/
theorem canonical_from_bits (c c' : Cfg) (ops : List Op) (b0 b b' : BV) (h0 : Valid b0)
    (hb : (specRun b0.toList ops).length + 1 < 2^64)
    (hr : genRun c b0 ops = .ok b) (hr' : BitVector.from_bits c' (specRun b0.toList ops) = .ok b') : b = b' := by
  obtain ⟨b1, e1, v1, t1⟩ := holds.2.2.2.2.1 c ops b0 h0 hb
  obtain ⟨b2, e2, v2, t2⟩ := holds.2.1 c' _ (by omega : (specRun b0.toList ops).length < 2^64)
  rw [hr] at e1; rw [hr'] at e2; cases e1; cases e2
  exact eq_of_toList _ _ v1 v2 (by rw [t1, t2])

/-! ### configuration independence (C15 for `bit_vector.rs`) -/

theorem config_independent_ctor (c c' : Cfg) (xs : List Bool) (bit : Bool) (len : Nat)
    (hx : xs.length < 2^64) (hn : len + 64 < 2^64) :
    BitVector.from_bits c xs = BitVector.from_bits c' xs ∧ BitVector.from_bit c bit len = BitVector.from_bit c' bit len := by
  rw [GenEq.from_bits_eq c xs hx, GenEq.from_bits_eq c' xs hx, GenEq.from_bit_eq c bit len hn, GenEq.from_bit_eq c' bit len hn]
  exact ⟨rfl, rfl⟩

theorem config_independent_apply (c c' : Cfg) (b : BV) (h : Valid b) (op : Op) (hb : b.len + room op < 2^64) :
    genApply c b op = genApply c' b op := by rw [genApply_eq c b h op hb, genApply_eq c' b h op hb]

theorem config_independent_run (c c' : Cfg) (ops : List Op) (b : BV) (h : Valid b)
    (hb : (specRun b.toList ops).length + 1 < 2^64) : genRun c b ops = genRun c' b ops := by
  rw [genRun_eq c ops b h hb, genRun_eq c' ops b h hb]

theorem config_independent_reads (c c' : Cfg) (b : BV) (h : Valid b) (hl : b.len + 63 < 2^64) :
    (∀ pos, BitVector.get_bit c b pos = BitVector.get_bit c' b pos) ∧
    (∀ pos len, BitVector.get_bits c b pos len = BitVector.get_bits c' b pos len) ∧
    (∀ pos, pos < 2^64 → BitVector.get_word64 c b pos = BitVector.get_word64 c' b pos ∧
      BitVector.rank1 c b pos = BitVector.rank1 c' b pos ∧ BitVector.rank0 c b pos = BitVector.rank0 c' b pos ∧
      BitVector.select1 c b pos = BitVector.select1 c' b pos ∧ BitVector.select0 c b pos = BitVector.select0 c' b pos) ∧
    (∀ pos, BitVector.predecessor1 c b pos = BitVector.predecessor1 c' b pos ∧
      BitVector.predecessor0 c b pos = BitVector.predecessor0 c' b pos ∧
      BitVector.successor1 c b pos = BitVector.successor1 c' b pos ∧
      BitVector.successor0 c b pos = BitVector.successor0 c' b pos) ∧
    BitVector.num_ones c b = BitVector.num_ones c' b := by
  have s := GenEq.scans_ok c b h hl
  have s' := GenEq.scans_ok c' b h hl
  refine ⟨fun pos => by rw [GenEq.get_bit_eq, GenEq.get_bit_eq],
    fun pos len => by rw [GenEq.get_bits_eq c b (by omega), GenEq.get_bits_eq c' b (by omega)],
    fun pos hp => ⟨by rw [GenEq.get_word64_eq c b pos hp, GenEq.get_word64_eq c' b pos hp],
      by rw [s.rank1 pos hp, s'.rank1 pos hp], by rw [s.rank0 pos hp, s'.rank0 pos hp],
      by rw [s.select1 pos hp, s'.select1 pos hp], by rw [s.select0 pos hp, s'.select0 pos hp]⟩,
    fun pos => ⟨by rw [s.pred1, s'.pred1], by rw [s.pred0, s'.pred0], by rw [s.succ1, s'.succ1], by rw [s.succ0, s'.succ0]⟩,
    by rw [s.num_ones, s'.num_ones]⟩

/-! ### non-vacuity and closed evaluations -/

/-- a history with accepted and rejected operations of every kind (70-bit start, 65-bit chunk rejected, …) -/
def demoOps : List Op :=
  [.pushBit true, .pushBits 0xABCD 16, .pushBits 7 65, .setBit 3 true, .setBit 500 true,
   .setBits 60 0xFF 8, .setBits 80 1 10, .extend [true, false, true]]

-- the hypotheses hold on a concrete non-trivial instance: a valid 70-bit start, 90 bits at the end
example : Valid (fromBit false 70) := (fromBit_spec false 70).1
example : (specRun (fromBit false 70).toList demoOps).length + 1 < 2^64 := by decide
example : (fromBit false 70).len + 63 < 2^64 := by decide
example : (fromBit false 70).len + room (.pushBits 7 65) < 2^64 := by decide
-- the list semantics rejects the 65-bit chunk and the out-of-range writes, accepts the others
example : demoOps.map (fun op => (specApply (fromBit false 70).toList op).2) =
    [true, true, false, true, false, true, false, true] := by decide
-- closed evaluations of the generated code (overflow-checked build)
example : BitVector.from_bits ⟨true, true⟩ [true, false, true, true] = .ok ⟨#[13], 4⟩ := rfl
example : (genRun ⟨true, true⟩ BitVector.new [.pushBits 5 3, .pushBits 9 65, .setBit 1 true, .extend [true]]) =
    .ok ⟨#[15], 4⟩ := rfl
example : BitVector.get_bits ⟨true, true⟩ ⟨#[15], 4⟩ 1 3 = .ok (some 7) := rfl
example : genApply ⟨true, true⟩ ⟨#[15], 4⟩ (.setBits 2 0 3) = .ok (⟨#[15], 4⟩, false) := rfl
end Sucds.C07Gen
