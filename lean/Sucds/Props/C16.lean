import Sucds.Props.C04
/-! # C16 — EliasFanoBuilder accepts exactly the valid pushes and builds what it accepted

* `EliasFanoBuilder::new(u, 0)` is rejected.
* For every universe `u < 2^64`, capacity `m ≥ 1`, **every** history of pushes and every build configuration:
  the builder never panics; the verdict of each push is `true` iff the value is `≥` the last accepted one,
  `< u`, and fewer than `m` values were accepted so far (`verdicts`, the greedy acceptance); a rejected push
  returns the builder unchanged (`rejected_push_no_effect`), so it has no effect on later behaviour;
  `extend` is the same loop stopped at the first rejected item, keeping the earlier ones (`extend_spec`);
  `build()` yields exactly the accepted values with universe `u` — read back through `len`, `universe` and
  `select` (and every other query of C04). -/
namespace Sucds.C16
open Sucds Sucds.Spec Sucds.EFB Sucds.EFQ

def Statement : Prop :=
  (∀ u, EFB.new u 0 = none) ∧
  (∀ (c : Cfg) (u m : Nat) (hist : List Nat), m ≠ 0 → u < 2^64 →
    ∃ b0 b', EFB.new u m = some b0 ∧ EFB.run b0 hist = .ok (b', verdicts u m [] hist) ∧
      ((EF.ofBuilder c b').enableRank c).len = (accepted u m [] hist).length ∧
      ((EF.ofBuilder c b').enableRank c).univ = u ∧
      (∀ k, ((EF.ofBuilder c b').enableRank c).select c k = .ok (accepted u m [] hist)[k]?) ∧
      (EF.ofBuilder c b').len = (accepted u m [] hist).length ∧ (EF.ofBuilder c b').univ = u ∧
      (∀ k, (EF.ofBuilder c b').select c k = .ok (accepted u m [] hist)[k]?))

theorem holds : Statement := by
  refine ⟨new_zero, ?_⟩
  intro c u m hist hm hu
  obtain ⟨b0, hn, hh, hu0, hm0⟩ := new_holds u m hm hu
  obtain ⟨b', hr, hh', hub, _⟩ := run_spec hist b0 [] hh
  rw [hu0, hm0] at hr hh'
  rw [hu0] at hub
  have hu' : b'.univ < 2^64 := by rw [hub]; exact hu
  obtain ⟨a1, a2, _⟩ := ranked_queries c b' _ hh' hu' (high_enableRank c b' _ hh')
  obtain ⟨b1, b2, _⟩ := built_queries c b' _ hh' hu' (high_ofBuilder c b' _ hh')
  exact ⟨b0, b', hn, hr, a1, hub, a2, b1, hub, b2⟩

/-- a rejected push returns `Err` and the builder unchanged -/
theorem rejected_push_no_effect (b : EFB) (v : Nat) (h : v < b.last ∨ b.univ ≤ v ∨ b.numVals ≤ b.pos) :
    b.push v = .ok (b, false) := push_rej b v h

/-- the verdicts are the greedy acceptance: `true` iff `≥ last accepted`, `< u`, fewer than `m` accepted -/
theorem verdict_meaning (u m : Nat) (acc : List Nat) (v : Nat) (vs : List Nat) :
    verdicts u m acc (v :: vs) =
      (if acc.getLast?.getD 0 ≤ v ∧ v < u ∧ acc.length < m then true :: verdicts u m (acc ++ [v]) vs
       else false :: verdicts u m acc vs) := rfl

/-- `extend` = the push loop stopped at the first rejected item (earlier items are kept) -/
theorem extend_spec : ∀ (vs : List Nat) (b : EFB) (xs : List Nat), Holds b xs →
    ∃ b' n, n ≤ vs.length ∧ EFB.extend b vs = .ok (b', decide (n = vs.length)) ∧
      Holds b' (xs ++ vs.take n) ∧ b'.univ = b.univ ∧ b'.numVals = b.numVals ∧
      (∀ v, vs[n]? = some v → v < b'.last ∨ b'.univ ≤ v ∨ b'.numVals ≤ b'.pos) := by
  intro vs
  induction vs with
  | nil => intro b xs h; exact ⟨b, 0, Nat.le_refl _, rfl, by simpa using h, rfl, rfl, fun v hv => by simp at hv⟩
  | cons v vs ih =>
    intro b xs h
    by_cases hacc : b.last ≤ v ∧ v < b.univ ∧ b.pos < b.numVals
    · obtain ⟨b1, hp, hh1, hu1, hm1, _⟩ := push_holds b xs h v hacc.1 hacc.2.1 hacc.2.2
      obtain ⟨b', n, hn, he, hh', hu', hm', hrej⟩ := ih b1 (xs ++ [v]) hh1
      refine ⟨b', n + 1, by simp; omega, ?_, by simpa [List.take_succ_cons] using hh', by rw [hu', hu1], by rw [hm', hm1], ?_⟩
      · simp only [EFB.extend, hp, Except.bind, if_true]
        rw [he]; simp
      · intro w hw; simp at hw; exact hrej w hw
    · have hrej : v < b.last ∨ b.univ ≤ v ∨ b.numVals ≤ b.pos := by omega
      refine ⟨b, 0, Nat.zero_le _, ?_, by simpa using h, rfl, rfl, ?_⟩
      · simp only [EFB.extend, push_rej b v hrej, Except.bind]; simp
      · intro w hw; simp at hw; subst hw; exact hrej
end Sucds.C16
