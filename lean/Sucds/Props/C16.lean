import Sucds.Proofs.EliasFanoHistory
/-! # C16 — EliasFanoBuilder accepts exactly the valid pushes and builds what it accepted (partial)

Proved: `new(u, 0)` is rejected; for every `(u, m)` with `m ≥ 1` and every push history the builder never
panics, its verdicts are exactly the greedy acceptance (`≥ last`, `< u`, fewer than `m` accepted), a
rejected push has no effect on what follows, and `select` reads back exactly the accepted values given
the `select1` answers of the high-bit index. Missing: `build` (the `DArray` over the high bits, C02) and
`extend` as the same loop stopped at the first rejection. -/
namespace Sucds.C16
open Sucds Sucds.Spec Sucds.EFB

theorem new_zero_rejected (u : Nat) : new u 0 = none := new_zero u

theorem histories (u m : Nat) (hm : m ≠ 0) (hu : u < 2^64) (hist : List Nat) :
    ∃ b0 b', new u m = some b0 ∧ run b0 hist = .ok (b', verdicts u m [] hist) ∧
      ∀ k, b'.selectWith (sel b'.high.bitAt b'.high.len k) k = .ok (accepted u m [] hist)[k]? :=
  run_select u m hm hu hist
end Sucds.C16
