import Sucds.Model.EliasFanoFull
import Sucds.Model.CompactVector
/-! Models of `DacsByte`, `DacsOpt` and `PrefixSummedEliasFano` (`src/int_vectors/*.rs`) for `T = usize`. -/
namespace Sucds

/-- `utils::needed_bits` -/
def neededBits (c : Cfg) (x : Nat) : Nat := match msbW c x with | some n => n + 1 | none => 1

/-- `CompactVector::from_slice(vals)` for `usize` values: `none` = `Err` (the `?` on `with_capacity`) -/
def CV.fromSlice (c : Cfg) (vals : List Nat) : R (Option CV) :=
  if vals.isEmpty then .ok (some CV.default)
  else match CV.new (neededBits c (vals.foldl max 0)) with
    | none => .ok none
    | some v0 => (v0.extend vals).bind fun r =>
        if r.2 then .ok (some r.1) else .error .unwrapNone        -- `push_int(x).unwrap()`

/-- value-level push loop shared by both DACs builders: splits `x` along `widths`, returns the chunk
    for every level reached and the continuation flag pushed on it (`none` on the last level) -/
def dacSplit (widths : List Nat) (x : Nat) : List (Nat × Option Bool) :=
  match widths with
  | [] => []
  | [w] => [(x &&& ((1 <<< w) - 1), none)]
  | w :: ws =>
    if x >>> w = 0 then [(x &&& ((1 <<< w) - 1), some false)]
    else (x &&& ((1 <<< w) - 1), some true) :: dacSplit ws (x >>> w)

structure DacB where
  data : Array (Array Nat)      -- Vec<Vec<u8>>
  flags : Array R9
deriving DecidableEq, Repr, Inhabited

namespace DacB
def default : DacB := ⟨#[#[]], #[]⟩

/-- one value of the main loop of `from_slice` -/
def pushVal (data : Array (Array Nat)) (flags : Array BV) (j : Nat) : List (Nat × Option Bool) → Array (Array Nat) × Array BV
  | [] => (data, flags)
  | (ch, fl) :: rest =>
    let data := data.modify j (fun d => d.push ch)
    match fl with
    | none => (data, flags)
    | some b => pushVal data (flags.modify j (fun f => f.pushBit b)) (j + 1) rest

/-- `DacsByte::from_slice` for `usize` values (always `Ok`) -/
def fromSlice (c : Cfg) (vals : List Nat) : DacB :=
  if vals.isEmpty then default
  else
    let maxv := vals.foldl max 0
    let numLevels := (neededBits c maxv + Gen.DACB_LEVEL_WIDTH - 1) / Gen.DACB_LEVEL_WIDTH
    if numLevels = 1 then ⟨#[vals.toArray.map (· % 256)], #[]⟩
    else
      let widths := List.replicate numLevels Gen.DACB_LEVEL_WIDTH
      let r := vals.foldl (fun (s : Array (Array Nat) × Array BV) x => pushVal s.1 s.2 0 (dacSplit widths x))
        (Array.replicate numLevels #[], Array.replicate (numLevels - 1) BV.new)
      ⟨r.1, r.2.map (R9.new c)⟩

def len (d : DacB) : R Nat := match d.data[0]? with | some l => .ok l.size | none => .error .oob
def numLevels (d : DacB) : Nat := d.data.size

/-- the level walk of `access` -/
def walk (c : Cfg) (d : DacB) : Nat → Nat → Nat → Nat → R Nat
  | _, _, x, 0 => .ok x
  | j, pos, x, fuel+1 =>
    match d.data[j]? with
    | none => .error .oob
    | some lv => match lv[pos]? with
      | none => .error .oob
      | some b =>
        let x := x ||| ((b <<< (j * Gen.DACB_LEVEL_WIDTH)) % 2^64)
        if j = d.numLevels - 1 then .ok x
        else match d.flags[j]? with
          | none => .error .oob
          | some f => (unwrapO (f.access pos)).bind fun bit =>
            if !bit then .ok x
            else (unwrapO (f.rank1 c pos)).bind fun p => walk c d (j + 1) p x fuel

def access (c : Cfg) (d : DacB) (pos : Nat) : R (Option Nat) :=
  d.len.bind fun n => if n ≤ pos then .ok none else (walk c d 0 pos 0 d.numLevels).bind fun x => .ok (some x)
def widths (d : DacB) : List Nat := List.replicate d.numLevels Gen.DACB_LEVEL_WIDTH
end DacB

structure DacO where
  data : Array CV
  flags : Array R9
deriving DecidableEq, Repr, Inhabited

namespace DacO
def default : DacO := ⟨#[CV.default], #[]⟩

/-! ### `compute_opt_widths` -/

/-- `nums_ints`: number of values with more than `j` bits, `j = 0..=numBits` -/
def numsInts (c : Cfg) (vals : List Nat) (numBits : Nat) : Array Nat :=
  let hist := vals.foldl (fun (h : Array Nat) x => h.modify (neededBits c x - 1) (· + 1)) (Array.replicate (numBits + 1) 0)
  (List.range numBits).reverse.foldl (fun (h : Array Nat) j => h.set! j (wordAt h j + wordAt h (j + 1))) hist

/-- the innermost loop `for b in 1..=num_bits - j` with the `<=` update; state = (dp_s[j][r], dp_b[j][r]) -/
def scanB (N : Array Nat) (prev : Nat → Nat) (j numBits : Nat) : Nat → Nat × Nat → Nat × Nat
  | 0, st => st
  | n+1, st =>
    let st := scanB N prev j numBits n st
    let b := n + 1
    let cst := (b + 1) * wordAt N j + prev (j + b)
    if cst ≤ st.1 then (cst, b) else st

/-- tables `dp_s`, `dp_b` as arrays of rows indexed `[r][j]` -/
def dpTables (N : Array Nat) (numBits maxLevels : Nat) : Array (Array Nat) × Array (Array Nat) :=
  let s0 := (Array.range (numBits + 1)).map fun j => if j < numBits then (numBits - j) * wordAt N j else 0
  let b0 := (Array.range (numBits + 1)).map fun j => if j < numBits then numBits - j else 0
  (List.range (maxLevels - 1)).foldl (fun (t : Array (Array Nat) × Array (Array Nat)) _ =>
      let prev := t.1.back!
      let row := (Array.range (numBits + 1)).map fun j =>
        if j < numBits then scanB N (fun i => wordAt prev i) j numBits (numBits - j) (2^64 - 1, 0) else (0, 0)
      (t.1.push (row.map (·.1)), t.2.push (row.map (·.2))))
    (#[s0], #[b0])

/-- `min_level_idx`: first index attaining the minimum of `dp_s[0][·]` -/
def minLevel (S : Array (Array Nat)) (maxLevels : Nat) : Nat :=
  (List.range maxLevels).foldl (fun m r => if r ≠ 0 ∧ wordAt (S[r]?.getD #[]) 0 < wordAt (S[m]?.getD #[]) 0 then r else m) 0

/-- the reconstruction loop; returns the widths and the final `(j, r)` for the asserts -/
def recon (B : Array (Array Nat)) (numBits numLevels : Nat) : Nat → Nat → Array Nat → Nat → R (Array Nat × Nat × Nat)
  | j, r, ws, 0 => .ok (ws, j, r)
  | j, r, ws, fuel+1 =>
    if j < numBits then
      if r < ws.size then
        let w := wordAt (B[numLevels - r - 1]?.getD #[]) j
        recon B numBits numLevels (j + w) (r + 1) (ws.set! r w) fuel
      else .error .oob
    else .ok (ws, j, r)

/-- `compute_opt_widths` (non-empty input) -/
def optWidths (c : Cfg) (vals : List Nat) (maxLevels : Nat) : R (List Nat) :=
  let maxv := vals.foldl max 0
  let numBits := neededBits c maxv
  let maxLevels := min maxLevels numBits
  let N := numsInts c vals numBits
  let t := dpTables N numBits maxLevels
  let numLevels := minLevel t.1 maxLevels + 1
  (recon t.2 numBits numLevels 0 0 (Array.replicate numLevels 0) (numBits + 1)).bind fun r =>
    if r.2.1 ≠ numBits then .error .assertFail
    else if r.2.2 ≠ numLevels then .error .assertFail
    else if r.1.toList.sum ≠ numBits then .error .assertFail
    else .ok r.1.toList

/-! ### `build` -/

def pushVal (data : Array CV) (flags : Array BV) (j : Nat) : List (Nat × Option Bool) → R (Array CV × Array BV)
  | [] => .ok (data, flags)
  | (ch, fl) :: rest =>
    match data[j]? with
    | none => .error .oob
    | some cv =>
      (cv.pushInt ch).bind fun r =>
        if !r.2 then .error .unwrapNone
        else
          let data := data.set! j r.1
          match fl with
          | none => .ok (data, flags)
          | some b => pushVal data (flags.modify j (fun f => f.pushBit b)) (j + 1) rest

def pushAll (widths : List Nat) : List Nat → Array CV × Array BV → R (Array CV × Array BV)
  | [], s => .ok s
  | x :: xs, s => (pushVal s.1 s.2 0 (dacSplit widths x)).bind fun s' => pushAll widths xs s'

def build (c : Cfg) (vals : List Nat) (widths : List Nat) : R DacO :=
  match widths.mapM CV.new with
  | none => .error .unwrapNone
  | some cvs =>
    (pushAll widths vals (cvs.toArray, Array.replicate (widths.length - 1) BV.new)).bind fun r =>
      .ok ⟨r.1, r.2.map (R9.new c)⟩

/-- `DacsOpt::from_slice` for `usize` values: `none` = `Err` -/
def fromSlice (c : Cfg) (vals : List Nat) (maxLevels : Option Nat) : R (Option DacO) :=
  let ml := maxLevels.getD 64
  if ml < 1 ∨ 64 < ml then .ok none
  else if vals.isEmpty then .ok (some default)
  else (optWidths c vals ml).bind fun ws => (build c vals ws).bind fun d => .ok (some d)

def len (d : DacO) : R Nat := match d.data[0]? with | some l => .ok l.len | none => .error .oob
def numLevels (d : DacO) : Nat := d.data.size
def widths (d : DacO) : List Nat := d.data.toList.map (·.width)

def walk (c : Cfg) (d : DacO) : Nat → Nat → Nat → Nat → Nat → R Nat
  | _, _, x, _, 0 => .ok x
  | j, pos, x, width, fuel+1 =>
    match d.data[j]? with
    | none => .error .oob
    | some lv =>
      (unwrapO (lv.getInt pos)).bind fun v =>
      (cshl c v width).bind fun sv =>
        let x := x ||| sv
        if j = d.numLevels - 1 then .ok x
        else match d.flags[j]? with
          | none => .error .oob
          | some f => (unwrapO (f.access pos)).bind fun bit =>
            if !bit then .ok x
            else (unwrapO (f.rank1 c pos)).bind fun p => walk c d (j + 1) p x (width + lv.width) fuel

def access (c : Cfg) (d : DacO) (pos : Nat) : R (Option Nat) :=
  d.len.bind fun n => if n ≤ pos then .ok none else (walk c d 0 pos 0 0 d.numLevels).bind fun x => .ok (some x)
end DacO

/-- `PrefixSummedEliasFano` -/
structure PS where
  ef : EF
deriving DecidableEq, Repr, Inhabited

namespace PS
def sumAll (c : Cfg) : List Nat → Nat → R Nat
  | [], acc => .ok acc
  | x :: xs, acc => (cadd c acc x).bind fun s => sumAll c xs s

def pushSums (c : Cfg) (b : EFB) : List Nat → Nat → R (Option EFB)
  | [], _ => .ok (some b)
  | x :: xs, cur => (cadd c cur x).bind fun s => (b.push s).bind fun r => if r.2 then pushSums c r.1 xs s else .ok none

/-- `from_slice` for `usize` values: `none` = `Err` -/
def fromSlice (c : Cfg) (vals : List Nat) : R (Option PS) :=
  if vals.isEmpty then .ok none
  else (sumAll c vals 0).bind fun u => (cadd c u 1).bind fun u1 =>
    match EFB.new u1 vals.length with
    | none => .ok none
    | some b => (pushSums c b vals 0).bind fun r => match r with
      | none => .ok none
      | some b => .ok (some ⟨EF.ofBuilder c b⟩)
def len (p : PS) : Nat := p.ef.len
def sum (c : Cfg) (p : PS) : R Nat := csub c p.ef.univ 1
def access (c : Cfg) (p : PS) (pos : Nat) : R (Option Nat) := p.ef.delta c pos
end PS
end Sucds
