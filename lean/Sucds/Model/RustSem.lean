import Sucds.Model.Prim
/-! Semantics of the Rust subset that `tools/gen_fns.py` translates (`Sucds/Gen/Fns.lean`).

    A `usize` is a `Nat` (kept `< 2^64` by every operation); `+ - * << >>` are the checked operations of
    `Model/Prim.lean` (panic in checked builds, wrap otherwise); `Vec<T>`/slices are `Array`; indexing panics
    out of bounds; `debug_assert!` is `dassert`; `for`/`while`/`loop` are the structurally recursive
    combinators below (`while`/`loop` get an iteration budget of `2^64`; exhausting it is the error
    `Panic.fuel`, so a theorem `f … = .ok v` about a translated function includes its termination).

    This file is hand-written and part of the trusted base of the translator. -/
namespace Sucds.RS
open Sucds

/-- `Result<T>` with the error value forgotten (messages are outside every claim) -/
inductive Res (α : Type) where
  | ok (a : α)
  | err
deriving Repr, DecidableEq, Inhabited

def MAX : Nat := 2^64 - 1

@[inline] def wrappingMul (a b : Nat) : Nat := (a * b) % 2^64
@[inline] def wrappingAdd (a b : Nat) : Nat := (a + b) % 2^64
@[inline] def wrappingSub (a b : Nat) : Nat := (a + 2^64 - b) % 2^64
/-- `a.wrapping_shl(s)`: the shift amount is taken modulo 64 -/
@[inline] def wrappingShl (a s : Nat) : Nat := (a <<< (s % 64)) % 2^64
@[inline] def wrappingShr (a s : Nat) : Nat := a >>> (s % 64)
@[inline] def saturatingAdd (a b : Nat) : Nat := if a + b < 2^64 then a + b else 2^64 - 1
@[inline] def saturatingSub (a b : Nat) : Nat := a - b
/-- `a << k` for a literal `k < 64` (cannot panic) -/
@[inline] def shlConst (a k : Nat) : Nat := (a <<< k) % 2^64
@[inline] def b2u (b : Bool) : Nat := if b then 1 else 0

@[inline] def cdiv (a b : Nat) : R Nat := if b = 0 then .error .divZero else .ok (a / b)
@[inline] def crem (a b : Nat) : R Nat := if b = 0 then .error .divZero else .ok (a % b)

/-- `n as isize` (two's complement reinterpretation) -/
@[inline] def isizeOfUsize (n : Nat) : Int := if n < 2^63 then (n : Int) else (n : Int) - 2^64
/-- `i as usize` -/
@[inline] def usizeOfIsize (i : Int) : Nat := (i % 2^64).toNat
@[inline] def inRangeI (i : Int) : Bool := decide (-(2^63 : Int) ≤ i) && decide (i < 2^63)
/-- two's complement wrap of an `isize` result -/
@[inline] def wrapI (i : Int) : Int := isizeOfUsize (usizeOfIsize i)
@[inline] def iadd (c : Cfg) (a b : Int) : R Int :=
  if inRangeI (a + b) then .ok (a + b) else if c.checked then .error .overflow else .ok (wrapI (a + b))
@[inline] def isub (c : Cfg) (a b : Int) : R Int :=
  if inRangeI (a - b) then .ok (a - b) else if c.checked then .error .overflow else .ok (wrapI (a - b))
@[inline] def ineg (c : Cfg) (a : Int) : R Int :=
  if inRangeI (-a) then .ok (-a) else if c.checked then .error .overflow else .ok (wrapI (-a))

/-- `x.count_ones()` (core intrinsic, by its meaning) -/
def countOnes (x : Nat) : Nat := (List.range 64).countP (fun i => x.testBit i)
/-- `x.trailing_zeros()`: 64 for 0 -/
def trailingZeros (x : Nat) : Nat := ((List.range 64).find? (fun i => x.testBit i)).getD 64
/-- `x.leading_zeros()`: 64 for 0 -/
def leadingZeros (x : Nat) : Nat :=
  match (List.range 64).reverse.find? (fun i => x.testBit i) with
  | some i => 63 - i
  | none => 64

/-- `v[i]` -/
@[inline] def index {α} (v : Array α) (i : Nat) : R α :=
  match v[i]? with
  | some x => .ok x
  | none => .error .oob
/-- `v[i] = x` -/
@[inline] def setIndex {α} (v : Array α) (i : Nat) (x : α) : R (Array α) :=
  if i < v.size then .ok (v.setIfInBounds i x) else .error .oob
/-- `&v[lo..hi]` -/
@[inline] def slice {α} (v : Array α) (lo hi : Nat) : R (Array α) :=
  if lo ≤ hi ∧ hi ≤ v.size then .ok (v.extract lo hi) else .error .oob
/-- `Option::unwrap` -/
@[inline] def unwrap {α} : Option α → R α
  | some x => .ok x
  | none => .error .unwrapNone
/-- `Result::unwrap` / `expect` -/
@[inline] def unwrapRes {α} : Res α → R α
  | .ok x => .ok x
  | .err => .error .unwrapNone
/-- `Option::expect` -/
@[inline] def expect {α} : Option α → R α
  | some x => .ok x
  | none => .error .expect
/-- index of the last element (`last_mut().unwrap()`, `last().unwrap()`) -/
@[inline] def lastIndex {α} (v : Array α) : R Nat :=
  if v.size = 0 then .error .unwrapNone else .ok (v.size - 1)
@[inline] def assert (b : Bool) : R Unit := if b then .ok () else .error .assertFail

/-- `for i in lo..hi { body }` without `break`/`return`: the state is threaded through `hi - lo` iterations -/
def forCount {σ} (body : Nat → σ → R σ) : Nat → Nat → σ → R σ
  | _, 0, s => .ok s
  | i, n+1, s => (body i s).bind fun s' => forCount body (i+1) n s'
@[inline] def forRange {σ} (lo hi : Nat) (init : σ) (body : Nat → σ → R σ) : R σ :=
  forCount body lo (hi - lo) init

/-- `for i in (lo..hi).step_by(step)` without `break`/`return` (`step_by(0)` panics) -/
@[inline] def forStep {σ} (lo hi step : Nat) (init : σ) (body : Nat → σ → R σ) : R σ :=
  if step = 0 then .error .assertFail
  else forCount (fun j s => body (lo + (j - lo) * step) s) lo ((hi - lo + step - 1) / step) init

/-- `for i in (lo..hi).rev()` -/
@[inline] def forRangeRev {σ} (lo hi : Nat) (init : σ) (body : Nat → σ → R σ) : R σ :=
  forCount (fun j s => body (hi - 1 - (j - lo)) s) lo (hi - lo) init
/-- `v.iter().enumerate()` -/
@[inline] def enumerate {α} (xs : List α) : List (Nat × α) := (List.range xs.length).zip xs
/-- `v.iter().sum::<usize>()` (overflow is a panic in checked builds) -/
def sum (c : Cfg) (v : Array Nat) : R Nat := v.toList.foldlM (fun acc x => cadd c acc x) 0

/-- `for x in list { body }` without `break`/`return` -/
def forList {α σ} (body : α → σ → R σ) : List α → σ → R σ
  | [], s => .ok s
  | x :: xs, s => (body x s).bind fun s' => forList body xs s'

/-- result of one loop iteration when the body may `break` or `return` -/
inductive Step (σ ρ : Type) where
  | next (s : σ)     -- fall through / `continue`
  | brk (s : σ)      -- `break`
  | ret (r : ρ)      -- `return r` from the enclosing function

/-- result of a whole loop: the final state, or an early function return -/
inductive Exit (σ ρ : Type) where
  | done (s : σ)
  | ret (r : ρ)

def forCountB {σ ρ} (body : Nat → σ → R (Step σ ρ)) : Nat → Nat → σ → R (Exit σ ρ)
  | _, 0, s => .ok (.done s)
  | i, n+1, s => (body i s).bind fun r => match r with
    | .next s' => forCountB body (i+1) n s'
    | .brk s' => .ok (.done s')
    | .ret v => .ok (.ret v)
@[inline] def forRangeB {σ ρ} (lo hi : Nat) (init : σ) (body : Nat → σ → R (Step σ ρ)) : R (Exit σ ρ) :=
  forCountB body lo (hi - lo) init

def forListB {α σ ρ} (body : α → σ → R (Step σ ρ)) : List α → σ → R (Exit σ ρ)
  | [], s => .ok (.done s)
  | x :: xs, s => (body x s).bind fun r => match r with
    | .next s' => forListB body xs s'
    | .brk s' => .ok (.done s')
    | .ret v => .ok (.ret v)

/-- iteration budget of `while`/`loop` -/
def FUEL : Nat := 2^64

/-- `while cond { body }` without `break`/`return` -/
def whileFuel {σ} (cond : σ → R Bool) (body : σ → R σ) : Nat → σ → R σ
  | 0, _ => .error .fuel
  | n+1, s => (cond s).bind fun b => if b then (body s).bind fun s' => whileFuel cond body n s' else .ok s
@[inline] def whileLoop {σ} (init : σ) (cond : σ → R Bool) (body : σ → R σ) : R σ :=
  whileFuel cond body FUEL init

/-- `loop { body }` / `while` with `break`/`return` (the condition is part of the body) -/
def loopFuel {σ ρ} (body : σ → R (Step σ ρ)) : Nat → σ → R (Exit σ ρ)
  | 0, _ => .error .fuel
  | n+1, s => (body s).bind fun r => match r with
    | .next s' => loopFuel body n s'
    | .brk s' => .ok (.done s')
    | .ret v => .ok (.ret v)
@[inline] def loopB {σ ρ} (init : σ) (body : σ → R (Step σ ρ)) : R (Exit σ ρ) :=
  loopFuel body FUEL init

end Sucds.RS
