import Sucds.Model.CompactVector
/-! Model of `src/serial.rs` / `src/serial/primitive.rs`: byte-level codecs. A byte is a `Nat < 256`.
    `get` returns the value and the unread rest; `none` is `Err` (`read_exact` hit the end). -/
namespace Sucds

structure Codec (α : Type) where
  put : α → List Nat
  get : List Nat → Option (α × List Nat)
  size : α → Nat

namespace Codec

/-- little-endian bytes of `n`, `k` of them -/
def leBytes (n : Nat) : Nat → List Nat
  | 0 => []
  | k+1 => n % 256 :: leBytes (n / 256) k
def ofLe : List Nat → Nat
  | [] => 0
  | b :: bs => b + 256 * ofLe bs

/-- fixed-width unsigned primitive of `k` bytes (`to_le_bytes` / `from_le_bytes`) -/
def uint (k : Nat) : Codec Nat where
  put n := leBytes n k
  get s := if s.length < k then none else some (ofLe (s.take k), s.drop k)
  size _ := k
def u8 := uint 1
def u16 := uint 2
def u64 := uint 8

/-- `bool` as one byte, read back as `x != 0` -/
def bool : Codec Bool where
  put b := [if b then 1 else 0]
  get s := match s with
    | [] => none
    | x :: r => some (x != 0, r)
  size _ := 1

/-- fields written one after the other -/
def seq {α β} (a : Codec α) (b : Codec β) : Codec (α × β) where
  put x := a.put x.1 ++ b.put x.2
  get s := match a.get s with
    | none => none
    | some (x, r) => match b.get r with
      | none => none
      | some (y, r') => some ((x, y), r')
  size x := a.size x.1 + b.size x.2

def getN {α} (a : Codec α) : Nat → List Nat → Option (List α × List Nat)
  | 0, s => some ([], s)
  | n+1, s => match a.get s with
    | none => none
    | some (x, r) => match getN a n r with
      | none => none
      | some (xs, r') => some (x :: xs, r')

/-- `Vec<S>`: 8-byte length prefix, then the elements -/
def vec {α} (a : Codec α) : Codec (List α) where
  put xs := leBytes xs.length 8 ++ (xs.map a.put).flatten
  get s := match u64.get s with
    | none => none
    | some (n, r) => getN a n r
  size xs := 8 + (xs.map a.size).sum

/-- `Option<S>`: tag byte, then the payload if any -/
def opt {α} (a : Codec α) : Codec (Option α) where
  put
    | none => [0]
    | some x => 1 :: a.put x
  get s := match bool.get s with
    | none => none
    | some (false, r) => some (none, r)
    | some (true, r) => match a.get r with
      | none => none
      | some (x, r') => some (some x, r')
  size
    | none => 1
    | some x => 1 + a.size x

/-- a structure seen through its tuple of fields -/
def iso {α β} (a : Codec α) (f : α → β) (g : β → α) : Codec β where
  put y := a.put (g y)
  get s := (a.get s).map fun p => (f p.1, p.2)
  size y := a.size (g y)

/-- `isize`/`i64`: two's complement little endian -/
def i64 : Codec Int where
  put x := leBytes (x % 2^64).toNat 8
  get s := if s.length < 8 then none else
    let n := ofLe (s.take 8)
    some (if n ≥ 2^63 then (n : Int) - 2^64 else (n : Int), s.drop 8)
  size _ := 8

/-- `Vec<S>` held as an `Array` -/
def arr {α} (a : Codec α) : Codec (Array α) := iso (vec a) List.toArray Array.toList

/-- round trip with exact consumption, byte count, and failure on every strict prefix -/
structure Good {α} (c : Codec α) (valid : α → Prop) : Prop where
  rt  : ∀ x rest, valid x → c.get (c.put x ++ rest) = some (x, rest)
  sz  : ∀ x, (c.put x).length = c.size x
  pre : ∀ x k, valid x → k < (c.put x).length → c.get ((c.put x).take k) = none

end Codec

-- the codecs of the crate's structures (`BV.codec`, `CV.codec`, `R9.codec`, …) are GENERATED from the
-- `Serializable` impls of the Rust sources by tools/gen_codecs.py into `Sucds/Gen/Codecs.lean`.

end Sucds
