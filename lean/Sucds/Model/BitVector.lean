import Sucds.Model.Prim
import Sucds.Model.Broadword
/-! Model of `src/bit_vectors/bit_vector.rs` (constructors, mutators, chunk reads).
    `get_bits`/`set_bits` are modelled *after* repair F1 (range end computed without overflow);
    the pre-repair versions are `getBits0`/`setBits0` and reproduce defect D1. -/
namespace Sucds

/-- total word access: 0 beyond the end (proof-side accessor) -/
def wordAt (ws : Array Nat) (i : Nat) : Nat := ws[i]?.getD 0
/-- `ws[i]` as the code does it: panics when out of bounds -/
def idx (ws : Array Nat) (i : Nat) : R Nat :=
  match ws[i]? with
  | some w => .ok w
  | none => .error .oob

structure BV where
  words : Array Nat
  len : Nat
deriving DecidableEq, Repr, Inhabited

namespace BV
def MAXW : Nat := 2^64 - 1
/-- Rust `!w` -/
def NOT (m : Nat) : Nat := 2^64 - (m + 1)
def b2w (x : Bool) : Nat := if x then 1 else 0
def mask (len : Nat) : Nat := if len < 64 then (1 <<< len) - 1 else MAXW
def wordsFor (n : Nat) : Nat := (n + 63) / 64

def new : BV := ⟨#[], 0⟩

/-- `from_bit` -/
def fromBit (bit : Bool) (len : Nat) : BV :=
  let ws := Array.replicate (wordsFor len) (if bit then MAXW else 0)
  let shift := len % 64
  if shift ≠ 0 then ⟨ws.modify (ws.size - 1) (fun w => w &&& ((1 <<< shift) - 1)), len⟩ else ⟨ws, len⟩

/-- `push_bit` -/
def pushBit (b : BV) (x : Bool) : BV :=
  let p := b.len % 64
  if p = 0 then ⟨b.words.push (b2w x), b.len + 1⟩
  else ⟨b.words.modify (b.words.size - 1) (fun w => w ||| (b2w x <<< p)), b.len + 1⟩

/-- `from_bits` / `extend` -/
def extend (b : BV) (xs : List Bool) : BV := xs.foldl pushBit b
def fromBits (xs : List Bool) : BV := extend new xs

/-- `get_bit` / `access` -/
def getBit (b : BV) (pos : Nat) : R (Option Bool) :=
  if pos < b.len then (idx b.words (pos / 64)).bind fun w => .ok (some (((w >>> (pos % 64)) &&& 1) == 1))
  else .ok none

/-- `set_bit`: `Err` ↦ `(b, false)` -/
def setBit (b : BV) (pos : Nat) (bit : Bool) : R (BV × Bool) :=
  if b.len ≤ pos then .ok (b, false)
  else (idx b.words (pos / 64)).bind fun w =>
    .ok (⟨b.words.set! (pos / 64) ((w &&& NOT (1 <<< (pos % 64))) ||| (b2w bit <<< (pos % 64))), b.len⟩, true)

/-- two-word read shared by `get_bits` -/
def join (w0 w1 shift len : Nat) : Nat :=
  if shift + len ≤ 64 then (w0 >>> shift) &&& mask len
  else (w0 >>> shift) ||| (((w1 <<< (64 - shift)) % 2^64) &&& mask len)

def getBitsCore (b : BV) (pos len : Nat) : R (Option Nat) :=
  if len = 0 then .ok (some 0)
  else (idx b.words (pos / 64)).bind fun w0 =>
    if pos % 64 + len ≤ 64 then .ok (some (join w0 0 (pos % 64) len))
    else (idx b.words (pos / 64 + 1)).bind fun w1 => .ok (some (join w0 w1 (pos % 64) len))

/-- `get_bits` as in the pinned tree: `pos + len` is computed before the check (D1) -/
def getBits0 (c : Cfg) (b : BV) (pos len : Nat) : R (Option Nat) :=
  if 64 < len then .ok none
  else (cadd c pos len).bind fun e => if b.len < e then .ok none else getBitsCore b pos len

/-- `get_bits` after repair F1 -/
def getBits (b : BV) (pos len : Nat) : R (Option Nat) :=
  if 64 < len ∨ b.len < len ∨ b.len - len < pos then .ok none else getBitsCore b pos len

/-- first/second word of a chunk write -/
def wr0 (w0 bits len p : Nat) : Nat := (w0 &&& NOT ((mask len <<< p) % 2^64)) ||| ((bits <<< p) % 2^64)
def wr1 (w1 bits len stored : Nat) : Nat := (w1 &&& NOT (mask len >>> stored)) ||| (bits >>> stored)

/-- `set_bits` after repair F1: `Err` ↦ `(b, false)` -/
def setBits (b : BV) (pos bits len : Nat) : R (BV × Bool) :=
  if 64 < len then .ok (b, false)
  else if b.len < len ∨ b.len - len < pos then .ok (b, false)
  else if len = 0 then .ok (b, true)
  else
    let bits := bits &&& mask len
    (idx b.words (pos / 64)).bind fun w0 =>
    let ws := b.words.set! (pos / 64) (wr0 w0 bits len (pos % 64))
    if 64 - pos % 64 < len then
      (idx ws (pos / 64 + 1)).bind fun w1 =>
        .ok (⟨ws.set! (pos / 64 + 1) (wr1 w1 bits len (64 - pos % 64)), b.len⟩, true)
    else .ok (⟨ws, b.len⟩, true)

/-- `push_bits`: `Err` ↦ `(b, false)` -/
def pushBits (b : BV) (bits len : Nat) : BV × Bool :=
  if 64 < len then (b, false)
  else if len = 0 then (b, true)
  else
    let bits := bits &&& mask len
    let p := b.len % 64
    if p = 0 then (⟨b.words.push bits, b.len + len⟩, true)
    else
      let ws := b.words.modify (b.words.size - 1) (fun w => w ||| ((bits <<< p) % 2^64))
      if len > 64 - p then (⟨ws.push (bits >>> (64 - p)), b.len + len⟩, true)
      else (⟨ws, b.len + len⟩, true)

/-- `get_word64` -/
def getWord64 (b : BV) (pos : Nat) : R (Option Nat) :=
  if b.len ≤ pos then .ok none
  else (idx b.words (pos / 64)).bind fun w0 =>
    if pos % 64 ≠ 0 ∧ pos / 64 + 1 < b.words.size then
      (idx b.words (pos / 64 + 1)).bind fun w1 =>
        .ok (some ((w0 >>> (pos % 64)) ||| ((w1 <<< (64 - pos % 64)) % 2^64)))
    else .ok (some (w0 >>> (pos % 64)))

/-- the bit at position `i` (false beyond the stored words) -/
def bitAt (b : BV) (i : Nat) : Bool := (wordAt b.words (i / 64)).testBit (i % 64)
/-- abstraction to the list of bits -/
def toList (b : BV) : List Bool := (List.range b.len).map b.bitAt

/-- representation invariant -/
structure Inv (b : BV) : Prop where
  size : b.words.size = (b.len + 63) / 64
  lt : ∀ i, wordAt b.words i < 2^64
  pad : ∀ i, b.len ≤ i → b.bitAt i = false
end BV
end Sucds
