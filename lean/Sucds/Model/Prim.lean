/-! Build configurations, panics and checked/wrapping `usize` arithmetic. -/
namespace Sucds

inductive Panic
  | overflow      -- arithmetic overflow check (debug profile)
  | oob           -- slice/Vec index out of bounds
  | unwrapNone    -- `Option::unwrap()` on `None`
  | debugAssert   -- `debug_assert!` (debug profile)
  | assertFail    -- `assert!`/`assert_eq!`
  | expect        -- `expect(..)` on a missing index
  | divZero       -- division or remainder by zero
  | fuel          -- a translated `while`/`loop` exceeded its iteration budget (2^64): non-termination
deriving Repr, DecidableEq, Inhabited

/-- the four real builds: `checked` = overflow checks + debug assertions (cargo debug profile);
    `intrinsics` = the cargo feature -/
structure Cfg where
  checked : Bool
  intrinsics : Bool
deriving Repr, DecidableEq, Inhabited

abbrev R := Except Panic

def W : Nat := 2^64

@[inline] def cadd (c : Cfg) (a b : Nat) : R Nat :=
  if a + b < 2^64 then .ok (a + b) else if c.checked then .error .overflow else .ok ((a + b) % 2^64)
@[inline] def csub (c : Cfg) (a b : Nat) : R Nat :=
  if b ≤ a then .ok (a - b) else if c.checked then .error .overflow else .ok ((a + 2^64 - b) % 2^64)
@[inline] def cmul (c : Cfg) (a b : Nat) : R Nat :=
  if a * b < 2^64 then .ok (a * b) else if c.checked then .error .overflow else .ok ((a * b) % 2^64)
/-- `a << s` on usize: bits shifted out are dropped; `s ≥ 64` is an overflow in checked builds and
    masked to `s % 64` otherwise -/
@[inline] def cshl (c : Cfg) (a s : Nat) : R Nat :=
  if s < 64 then .ok ((a <<< s) % 2^64) else if c.checked then .error .overflow else .ok ((a <<< (s % 64)) % 2^64)
@[inline] def cshr (c : Cfg) (a s : Nat) : R Nat :=
  if s < 64 then .ok (a >>> s) else if c.checked then .error .overflow else .ok (a >>> (s % 64))
@[inline] def dassert (c : Cfg) (b : Bool) : R Unit :=
  if c.checked && !b then .error .debugAssert else .ok ()
/-- Rust `!w` on a 64-bit word -/
@[inline] def wnot (w : Nat) : Nat := 2^64 - 1 - w % 2^64

theorem cadd_ok (c : Cfg) {a b : Nat} (h : a + b < 2^64) : cadd c a b = .ok (a + b) := by simp [cadd, h]
theorem csub_ok (c : Cfg) {a b : Nat} (h : b ≤ a) : csub c a b = .ok (a - b) := by simp [csub, h]
theorem cmul_ok (c : Cfg) {a b : Nat} (h : a * b < 2^64) : cmul c a b = .ok (a * b) := by simp [cmul, h]
theorem cshl_ok (c : Cfg) {a s : Nat} (h : s < 64) : cshl c a s = .ok ((a <<< s) % 2^64) := by simp [cshl, h]
theorem cshr_ok (c : Cfg) {a s : Nat} (h : s < 64) : cshr c a s = .ok (a >>> s) := by simp [cshr, h]
theorem dassert_ok (c : Cfg) {b : Bool} (h : b = true) : dassert c b = .ok () := by simp [dassert, h]

end Sucds
