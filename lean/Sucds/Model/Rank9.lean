import Sucds.Model.BitVector
import Sucds.Model.Broadword
/-! Model of `src/bit_vectors/rank9sel/inner.rs` (`Rank9SelIndex`). -/
namespace Sucds

/-- total wrappers of the broadword primitives on `Nat` words (the error branches are unreachable:
    `C14.popcount_ok`, `C14.selectInWord_ok`) -/
def popcountN (c : Cfg) (w : Nat) : Nat :=
  match Broadword.popcount c (BitVec.ofNat 64 w) with
  | .ok n => n
  | .error _ => 0
def selectInWordN (c : Cfg) (w k : Nat) : Option Nat :=
  match Broadword.selectInWord c (BitVec.ofNat 64 w) k with
  | .ok r => r
  | .error _ => none

structure R9Index where
  len : Nat
  pairs : Array Nat            -- block_rank_pairs
  sel1 : Option (Array Nat)    -- select1_hints
  sel0 : Option (Array Nat)    -- select0_hints
deriving DecidableEq, Repr, Inhabited

namespace R9Index

/-- loop state of `build_rank` -/
structure St where
  nextRank : Nat
  curSub : Nat
  subranks : Nat
  out : Array Nat

/-- body of `for i in 0..bv.num_words()` -/
def step (c : Cfg) (s : St) (i w : Nat) : St :=
  let pop := popcountN c w
  let shift := i % Gen.R9_BLOCK_LEN
  let subranks := if shift ≠ 0 then (s.subranks <<< 9) ||| s.curSub else s.subranks
  let nextRank := s.nextRank + pop
  let curSub := s.curSub + pop
  if shift = Gen.R9_BLOCK_LEN - 1 then ⟨nextRank, 0, 0, (s.out.push subranks).push nextRank⟩
  else ⟨nextRank, curSub, subranks, s.out⟩

def run (c : Cfg) (ws : Array Nat) : Nat → St → Nat → St
  | _, s, 0 => s
  | i, s, fuel+1 => if i < ws.size then run c ws (i+1) (step c s i (wordAt ws i)) fuel else s

/-- the padding loop `for _ in 0..left { subranks <<= 9; subranks |= cur_subrank }` -/
def pad (sub cur : Nat) : Nat → Nat
  | 0 => sub
  | n+1 => pad ((sub <<< 9) ||| cur) cur n

/-- `build_rank` -/
def buildRank (c : Cfg) (bv : BV) : R9Index :=
  let s := run c bv.words 0 ⟨0, 0, 0, #[0]⟩ bv.words.size
  let left := Gen.R9_BLOCK_LEN - bv.words.size % Gen.R9_BLOCK_LEN
  let out := s.out.push (pad s.subranks s.curSub left)
  let out := if bv.words.size % Gen.R9_BLOCK_LEN ≠ 0 then (out.push s.nextRank).push 0 else out
  ⟨bv.len, out, none, none⟩

def numOnes (x : R9Index) : R Nat := idx x.pairs (x.pairs.size - 2)
def numBlocks (x : R9Index) : Nat := x.pairs.size / 2 - 1
def blockRank (x : R9Index) (block : Nat) : R Nat := idx x.pairs (block * 2)
def subBlockRanks (x : R9Index) (block : Nat) : R Nat := idx x.pairs (block * 2 + 1)
def subBlockRank (x : R9Index) (subBpos : Nat) : R Nat :=
  (x.blockRank (subBpos / Gen.R9_BLOCK_LEN)).bind fun br =>
  (x.subBlockRanks (subBpos / Gen.R9_BLOCK_LEN)).bind fun sr =>
  .ok (br + ((sr >>> ((7 - subBpos % Gen.R9_BLOCK_LEN) * 9)) &&& 0x1FF))

/-- `rank1` -/
def rank1 (c : Cfg) (x : R9Index) (bv : BV) (pos : Nat) : R (Option Nat) :=
  if bv.len < pos then .ok none
  else if pos = bv.len then x.numOnes.bind fun n => .ok (some n)
  else (x.subBlockRank (pos / 64)).bind fun r =>
    if pos % 64 ≠ 0 then
      (idx bv.words (pos / 64)).bind fun w => .ok (some (r + popcountN c ((w <<< (64 - pos % 64)) % 2^64)))
    else .ok (some r)

/-- `rank0` -/
def rank0 (c : Cfg) (x : R9Index) (bv : BV) (pos : Nat) : R (Option Nat) :=
  (x.rank1 c bv pos).bind fun r => match r with
    | none => .ok none
    | some r1 => (csub c pos r1).bind fun z => .ok (some z)

end R9Index
end Sucds
