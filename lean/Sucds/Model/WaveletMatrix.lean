import Sucds.Model.Dacs
/-! Model of `WaveletMatrix<B>` (`src/char_sequences/wavelet_matrix.rs`) for the three supported
    backings, after repairs F8 (values `≥ alph_size` are absent), F9 (`select` rejects `k ≥ len` first)
    and F11 (range end checked before emptiness in `rank_range`). -/
namespace Sucds

/-- a layer: one of the three `B`s -/
inductive Lay
  | r9 (x : R9)
  | da (x : DA)
  | bv (x : BV)
deriving DecidableEq, Repr, Inhabited

inductive Backing | r9 | da | bv
deriving DecidableEq, Repr, Inhabited

namespace Lay
/-- `B::build_from_bits(bv.iter(), true, true, true)` -/
def build (c : Cfg) (k : Backing) (bv : BV) : R Lay :=
  match k with
  | .r9 => (R9.build c bv true true).bind fun x => .ok (.r9 x)
  | .da => .ok (.da (DA.build c bv true true))
  | .bv => .ok (.bv bv)
def access (l : Lay) (p : Nat) : R (Option Bool) :=
  match l with | .r9 x => x.access p | .da x => x.access p | .bv x => x.getBit p
def rank1 (c : Cfg) (l : Lay) (p : Nat) : R (Option Nat) :=
  match l with | .r9 x => x.rank1 c p | .da x => x.rank1 c p | .bv x => x.rank1 c p
def rank0 (c : Cfg) (l : Lay) (p : Nat) : R (Option Nat) :=
  match l with | .r9 x => x.rank0 c p | .da x => x.rank0 c p | .bv x => x.rank0 c p
def select1 (c : Cfg) (l : Lay) (k : Nat) : R (Option Nat) :=
  match l with | .r9 x => x.select1 c k | .da x => x.select1 c k | .bv x => x.select1 c k
def select0 (c : Cfg) (l : Lay) (k : Nat) : R (Option Nat) :=
  match l with | .r9 x => x.select0 c k | .da x => x.select0 c k | .bv x => x.select0 c k
def numBits (l : Lay) : Nat :=
  match l with | .r9 x => x.numBits | .da x => x.numBits | .bv x => x.len
def numOnes (c : Cfg) (l : Lay) : R Nat :=
  match l with | .r9 x => x.numOnes | .da x => .ok x.numOnes | .bv x => x.numOnes c
def numZeros (c : Cfg) (l : Lay) : R Nat := (l.numOnes c).bind fun n => csub c l.numBits n
end Lay

structure WM where
  layers : Array Lay
  alphSize : Nat
deriving DecidableEq, Repr, Inhabited

namespace WM
/-- `get_msb` -/
def getMsb (val pos width : Nat) : Bool := ((val >>> (width - pos - 1)) &&& 1) == 1

/-- the per-depth loop of `new`; the intermediate `CompactVector`s are abstracted to lists of values -/
def buildLayers (c : Cfg) (k : Backing) (width : Nat) : Nat → List Nat → List Nat → Array Lay → Nat → R (Array Lay)
  | _, _, _, acc, 0 => .ok acc
  | depth, zeros, ones, acc, fuel+1 =>
    if depth < width then
      let shift := width - depth - 1
      let seq := zeros ++ ones
      let bit := fun (v : Nat) => ((v >>> shift) &&& 1) == 1
      (Lay.build c k (BV.fromBits (seq.map bit))).bind fun l =>
      buildLayers c k width (depth + 1) (seq.filter (fun v => !bit v)) (seq.filter bit) (acc.push l) fuel
    else .ok acc

/-- `WaveletMatrix::new(seq)`: `none` = `Err` (empty input) -/
def new (c : Cfg) (k : Backing) (seq : List Nat) : R (Option WM) :=
  if seq.isEmpty then .ok none
  else (cadd c (seq.foldl max 0) 1).bind fun alphSize =>
    let width := neededBits c alphSize
    (buildLayers c k width 0 seq [] #[] width).bind fun ls => .ok (some ⟨ls, alphSize⟩)

def len (w : WM) : Nat := match w.layers[0]? with | some l => l.numBits | none => 0
def alphWidth (w : WM) : Nat := w.layers.size

def accessLoop (c : Cfg) : List Lay → Nat → Nat → R Nat
  | [], _, val => .ok val
  | l :: ls, pos, val =>
    (unwrapO (l.access pos)).bind fun b =>
      if b then
        (unwrapO (l.rank1 c pos)).bind fun r => (l.numZeros c).bind fun z => (cadd c r z).bind fun p =>
          accessLoop c ls p ((val <<< 1) % 2^64 ||| 1)
      else (unwrapO (l.rank0 c pos)).bind fun p => accessLoop c ls p ((val <<< 1) % 2^64)

/-- `access` -/
def access (c : Cfg) (w : WM) (pos : Nat) : R (Option Nat) :=
  if w.len ≤ pos then .ok none else (accessLoop c w.layers.toList pos 0).bind fun v => .ok (some v)

def rankLoop (c : Cfg) (width val : Nat) : List Lay → Nat → Nat → Nat → R (Nat × Nat)
  | [], _, s, e => .ok (s, e)
  | l :: ls, depth, s, e =>
    if getMsb val depth width then
      (unwrapO (l.rank1 c s)).bind fun rs => (unwrapO (l.rank1 c e)).bind fun re => (l.numZeros c).bind fun z =>
      (cadd c rs z).bind fun s' => (cadd c re z).bind fun e' => rankLoop c width val ls (depth + 1) s' e'
    else
      (unwrapO (l.rank0 c s)).bind fun s' => (unwrapO (l.rank0 c e)).bind fun e' => rankLoop c width val ls (depth + 1) s' e'

/-- `rank_range` (after F8, F11) -/
def rankRange (c : Cfg) (w : WM) (a b val : Nat) : R (Option Nat) :=
  if w.len < b then .ok none
  else if b ≤ a ∨ w.alphSize ≤ val then .ok (some 0)
  else (rankLoop c w.alphWidth val w.layers.toList 0 a b).bind fun se => .ok (some (se.2 - se.1))

def rank (c : Cfg) (w : WM) (pos val : Nat) : R (Option Nat) := rankRange c w 0 pos val

/-- `select_helper`, recursion on the remaining layers -/
def selectHelper (c : Cfg) (width val : Nat) : List Lay → Nat → Nat → Nat → R (Option Nat)
  | [], _, k, pos => (cadd c pos k).bind fun r => .ok (some r)
  | l :: ls, depth, k, pos =>
    if getMsb val depth width then
      (l.numZeros c).bind fun zeros =>
      (unwrapO (l.rank1 c pos)).bind fun r => (cadd c r zeros).bind fun pos' =>
      (selectHelper c width val ls (depth + 1) k pos').bind fun r => match r with
        | none => .ok none
        | some k' => (csub c k' zeros).bind fun kk => l.select1 c kk
    else
      (unwrapO (l.rank0 c pos)).bind fun pos' =>
      (selectHelper c width val ls (depth + 1) k pos').bind fun r => match r with
        | none => .ok none
        | some k' => l.select0 c k'

/-- `select` (after F8, F9) -/
def select (c : Cfg) (w : WM) (k val : Nat) : R (Option Nat) :=
  if w.len ≤ k ∨ w.alphSize ≤ val then .ok none
  else selectHelper c w.alphWidth val w.layers.toList 0 k 0

def quantileLoop (c : Cfg) : List Lay → Nat → Nat → Nat → Nat → R Nat
  | [], val, _, _, _ => .ok val
  | l :: ls, val, k, s, e =>
    (unwrapO (l.rank0 c s)).bind fun zs => (unwrapO (l.rank0 c e)).bind fun ze =>
    (csub c ze zs).bind fun zeros =>
      if k < zeros then quantileLoop c ls ((val <<< 1) % 2^64) k zs ze
      else
        (l.numZeros c).bind fun nz =>
        (cadd c nz s).bind fun t1 => (csub c t1 zs).bind fun s' =>
        (cadd c nz e).bind fun t2 => (csub c t2 ze).bind fun e' =>
        quantileLoop c ls ((val <<< 1) % 2^64 ||| 1) (k - zeros) s' e'

/-- `quantile` -/
def quantile (c : Cfg) (w : WM) (a b k : Nat) : R (Option Nat) :=
  if b - a ≤ k then .ok none                 -- `range.len() <= k` (`len` of a reversed range is 0)
  else if w.len < b then .ok none
  else (quantileLoop c w.layers.toList 0 k a b).bind fun v => .ok (some v)

/-- the per-range loop of `intersect_helper`: `none` = a range ends beyond the layer -/
def splitRanges (c : Cfg) (l : Lay) : List (Nat × Nat) → List (Nat × Nat) → List (Nat × Nat) → R (Option (List (Nat × Nat) × List (Nat × Nat)))
  | [], zr, or => .ok (some (zr.reverse, or.reverse))
  | (s, e) :: rs, zr, or =>
    if l.numBits < e then .ok none
    else if e ≤ s then splitRanges c l rs zr or
    else
      (unwrapO (l.rank0 c s)).bind fun zs => (unwrapO (l.rank0 c e)).bind fun ze =>
      (l.numZeros c).bind fun nz =>
      (cadd c nz s).bind fun t1 => (csub c t1 zs).bind fun os =>
      (cadd c nz e).bind fun t2 => (csub c t2 ze).bind fun oe =>
      (csub c ze zs).bind fun dz => (csub c oe os).bind fun d1 =>
      splitRanges c l rs (if dz > 0 then (zs, ze) :: zr else zr) (if d1 > 0 then (os, oe) :: or else or)

/-- `intersect_helper` -/
def intersectHelper (c : Cfg) (k : Nat) : List Lay → List (Nat × Nat) → Nat → R (Option (List Nat))
  | [], _, pre => .ok (some [pre])
  | l :: ls, ranges, pre =>
    (splitRanges c l ranges [] []).bind fun sp => match sp with
      | none => .ok none
      | some (zr, or) =>
        (if zr.length > k then intersectHelper c k ls zr ((pre <<< 1) % 2^64) else .ok (some [])).bind fun r0 =>
        match r0 with
        | none => .ok none
        | some z =>
          (if or.length > k then intersectHelper c k ls or ((pre <<< 1) % 2^64 ||| 1) else .ok (some [])).bind fun r1 =>
          match r1 with
          | none => .ok none
          | some o => .ok (some (z ++ o))

def intersect (c : Cfg) (w : WM) (ranges : List (Nat × Nat)) (k : Nat) : R (Option (List Nat)) :=
  intersectHelper c k w.layers.toList ranges 0
end WM
end Sucds
