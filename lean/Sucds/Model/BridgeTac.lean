import Sucds.Model.RustSem
/-! Lemmas and the closing tactic used by the *bridge* theorems of `Sucds/Gen/Current.lean`.

When the translation of a function from the current sources differs textually from the pinned translation
(`Sucds/Gen/FnsPinned.txt`, the text the equivalence proofs were written against), `tools/gen_fns.py` emits the fresh
translation in namespace `Sucds.GenFnNow` and tries to prove it equal to the pinned one with `bridge_close`. If Lean
accepts the proof, the rewrite was behaviour-preserving *for every input and configuration* and the pinned definition
(hence every theorem about it) is a statement about the current code; if not, the fresh text replaces the pinned one
in `Gen/Fns.lean` and the equivalence proofs are re-checked against it as usual. -/
namespace Sucds.Bridge
open Sucds

theorem and_1 (p : Nat) : p &&& 1 = p % 2 := Nat.and_two_pow_sub_one_eq_mod p 1
theorem and_7 (p : Nat) : p &&& 7 = p % 8 := Nat.and_two_pow_sub_one_eq_mod p 3
theorem and_31 (p : Nat) : p &&& 31 = p % 32 := Nat.and_two_pow_sub_one_eq_mod p 5
theorem and_63 (p : Nat) : p &&& 63 = p % 64 := Nat.and_two_pow_sub_one_eq_mod p 6
theorem and_255 (p : Nat) : p &&& 255 = p % 256 := Nat.and_two_pow_sub_one_eq_mod p 8
theorem and_511 (p : Nat) : p &&& 511 = p % 512 := Nat.and_two_pow_sub_one_eq_mod p 9
theorem and_1023 (p : Nat) : p &&& 1023 = p % 1024 := Nat.and_two_pow_sub_one_eq_mod p 10
theorem shr_1 (p : Nat) : p >>> 1 = p / 2 := by simp [Nat.shiftRight_eq_div_pow]
theorem shr_3 (p : Nat) : p >>> 3 = p / 8 := by simp [Nat.shiftRight_eq_div_pow]
theorem shr_5 (p : Nat) : p >>> 5 = p / 32 := by simp [Nat.shiftRight_eq_div_pow]
theorem shr_6 (p : Nat) : p >>> 6 = p / 64 := by simp [Nat.shiftRight_eq_div_pow]
theorem shr_9 (p : Nat) : p >>> 9 = p / 512 := by simp [Nat.shiftRight_eq_div_pow]
theorem shr_10 (p : Nat) : p >>> 10 = p / 1024 := by simp [Nat.shiftRight_eq_div_pow]
theorem bind_ok' {α β} (v : α) (f : α → R β) : (Except.ok v : R α).bind f = f v := rfl
theorem bind_pure {α} (m : R α) : (m.bind fun x => .ok x) = m := by cases m <;> rfl
theorem bind_assoc' {α β γ} (m : R α) (f : α → R β) (g : β → R γ) : (m.bind f).bind g = m.bind fun x => (f x).bind g := by
  cases m <;> rfl

end Sucds.Bridge

/-- normalisation set: power-of-two masks and shifts, monad laws -/
macro "bridge_norm" : tactic => `(tactic| simp only [Sucds.Bridge.and_1, Sucds.Bridge.and_7, Sucds.Bridge.and_31, Sucds.Bridge.and_63,
  Sucds.Bridge.and_255, Sucds.Bridge.and_511, Sucds.Bridge.and_1023, Sucds.Bridge.shr_1, Sucds.Bridge.shr_3, Sucds.Bridge.shr_5,
  Sucds.Bridge.shr_6, Sucds.Bridge.shr_9, Sucds.Bridge.shr_10, Sucds.Bridge.bind_ok', Sucds.Bridge.bind_pure, Sucds.Bridge.bind_assoc'])

/-- one attempt at a goal `new term = pinned term` without looking under binders. `rfl` is tried only up to reducible
    transparency: the loops carry a budget of `2^64` and must never be unfolded by a definitional-equality check. -/
macro "bridge_step" : tactic => `(tactic| first
  | with_reducible rfl
  | (bridge_norm; done)
  | (bridge_norm; with_reducible rfl)
  | ((repeat' split) <;> first | with_reducible rfl | omega | (simp_all <;> first | done | with_reducible rfl | omega))
  | ((repeat' split) <;> (try bridge_norm) <;> first | with_reducible rfl | omega | (simp_all <;> first | done | with_reducible rfl | omega)))

/-- closes a goal `new body = pinned body` after both definitions were unfolded: directly, or after descending into the
    arguments of the outermost application (loop bodies are lambdas: `congr` + `funext`) up to three levels -/
macro "bridge_close" : tactic => `(tactic| first
  | bridge_step
  | (congr 1 <;> (try (funext _)) <;> bridge_step)
  | (congr 1 <;> (try (funext _)) <;> congr 1 <;> (try (funext _)) <;> bridge_step)
  | (congr 1 <;> (try (funext _)) <;> congr 1 <;> (try (funext _)) <;> congr 1 <;> (try (funext _)) <;> bridge_step)
  | (congr 2 <;> (try (funext _)) <;> bridge_step)
  | (congr 3 <;> (try (funext _)) <;> bridge_step))
