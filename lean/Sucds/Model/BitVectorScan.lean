import Sucds.Model.Rank9
/-! Model of the linear scans of `bit_vector.rs`: `rank1`, `rank0`, `select1`, `select0`. -/
namespace Sucds
namespace BV

/-- `for &w in &self.words[..wpos] { r += popcount(w) }` -/
def sumPop (c : Cfg) (ws : Array Nat) : Nat → Nat
  | 0 => 0
  | i+1 => sumPop c ws i + popcountN c (wordAt ws i)

/-- `rank1` -/
def rank1 (c : Cfg) (b : BV) (pos : Nat) : R (Option Nat) :=
  if b.len < pos then .ok none
  else if b.words.size < pos / 64 then .error .oob          -- `&self.words[..wpos]`
  else
    let r := sumPop c b.words (pos / 64)
    if pos % 64 ≠ 0 then
      (idx b.words (pos / 64)).bind fun w => .ok (some (r + popcountN c ((w <<< (64 - pos % 64)) % 2^64)))
    else .ok (some r)

/-- `rank0` -/
def rank0 (c : Cfg) (b : BV) (pos : Nat) : R (Option Nat) :=
  (b.rank1 c pos).bind fun r => match r with
    | none => .ok none
    | some r1 => (csub c pos r1).bind fun z => .ok (some z)

/-- the `while wpos < self.words.len()` loop of `select1`/`select0` over the words mapped by `f`
    (`f = id` for ones, `f = !` for zeros): returns the word index where it stops and the rank before it -/
def selLoop (c : Cfg) (f : Nat → Nat) (ws : Array Nat) (k : Nat) : Nat → Nat → Nat → Nat × Nat
  | wpos, cur, 0 => (wpos, cur)
  | wpos, cur, fuel+1 =>
    if wpos < ws.size then
      let cnt := popcountN c (f (wordAt ws wpos))
      if k < cur + cnt then (wpos, cur) else selLoop c f ws k (wpos + 1) (cur + cnt) fuel
    else (wpos, cur)

/-- `select1` -/
def select1 (c : Cfg) (b : BV) (k : Nat) : R (Option Nat) :=
  let (wpos, cur) := selLoop c id b.words k 0 0 b.words.size
  if wpos = b.words.size then .ok none
  else match selectInWordN c (wordAt b.words wpos) (k - cur) with
    | none => .error .unwrapNone
    | some p => .ok (some (wpos * 64 + p))

/-- `select0` -/
def select0 (c : Cfg) (b : BV) (k : Nat) : R (Option Nat) :=
  let (wpos, cur) := selLoop c wnot b.words k 0 0 b.words.size
  if wpos = b.words.size then .ok none
  else match selectInWordN c (wnot (wordAt b.words wpos)) (k - cur) with
    | none => .error .unwrapNone
    | some p => .ok (if wpos * 64 + p < b.len then some (wpos * 64 + p) else none)

end BV
end Sucds
