import Sucds.Gen.Consts
import Sucds.Model.Prim
/-! Model of `src/broadword.rs` and `src/intrinsics.rs`. Words are `BitVec 64`; every `+ - *` of the
    source is a checked operation (panics on overflow when `cfg.checked`, wraps otherwise); the
    `wrapping_*` calls of the source are plain `BitVec` operations. -/
namespace Sucds.Broadword
open Sucds

@[inline] def badd (c : Cfg) (a b : BitVec 64) : R (BitVec 64) :=
  if a.toNat + b.toNat < 2^64 then .ok (a + b) else if c.checked then .error .overflow else .ok (a + b)
@[inline] def bsub (c : Cfg) (a b : BitVec 64) : R (BitVec 64) :=
  if b.toNat ≤ a.toNat then .ok (a - b) else if c.checked then .error .overflow else .ok (a - b)
@[inline] def bmul (c : Cfg) (a b : BitVec 64) : R (BitVec 64) :=
  if a.toNat * b.toNat < 2^64 then .ok (a * b) else if c.checked then .error .overflow else .ok (a * b)

theorem badd_ok (c : Cfg) {a b : BitVec 64} (h : a.toNat + b.toNat < 2^64) : badd c a b = .ok (a + b) := by simp [badd, h]
theorem bsub_ok (c : Cfg) {a b : BitVec 64} (h : b.toNat ≤ a.toNat) : bsub c a b = .ok (a - b) := by simp [bsub, h]
theorem bmul_ok (c : Cfg) {a b : BitVec 64} (h : a.toNat * b.toNat < 2^64) : bmul c a b = .ok (a * b) := by simp [bmul, h]

def ONES_STEP_4 : BitVec 64 := BitVec.ofNat 64 Gen.ONES_STEP_4
def ONES_STEP_8 : BitVec 64 := BitVec.ofNat 64 Gen.ONES_STEP_8
def ONES_STEP_9 : BitVec 64 := BitVec.ofNat 64 Gen.ONES_STEP_9
def MSBS_STEP_8 : BitVec 64 := BitVec.ofNat 64 Gen.MSBS_STEP_8
def MSBS_STEP_9 : BitVec 64 := BitVec.ofNat 64 Gen.MSBS_STEP_9
def INV_COUNT_STEP_9 : BitVec 64 := BitVec.ofNat 64 Gen.INV_COUNT_STEP_9
def DEBRUIJN64 : BitVec 64 := BitVec.ofNat 64 Gen.DEBRUIJN64
def selectInByte : Array Nat := Gen.SELECT_IN_BYTE.toArray
def debruijnMapping : Array Nat := Gen.DEBRUIJN64_MAPPING.toArray

/-- `uleq_step_9` (the subtraction cannot borrow: every field of the minuend has its top bit set) -/
def uleqStep9 (c : Cfg) (x y : BitVec 64) : R (BitVec 64) :=
  (bsub c (y ||| MSBS_STEP_9) (x &&& ~~~MSBS_STEP_9)).bind fun d =>
  .ok ((((d ||| (x ^^^ y)) ^^^ (x &&& ~~~y)) &&& MSBS_STEP_9) >>> 8)

/-- `byte_counts` -/
def byteCounts (c : Cfg) (x : BitVec 64) : R (BitVec 64) :=
  (bsub c x ((x &&& (0xa#64 * ONES_STEP_4)) >>> 1)).bind fun x1 =>
  (badd c (x1 &&& (3#64 * ONES_STEP_4)) ((x1 >>> 2) &&& (3#64 * ONES_STEP_4))).bind fun x2 =>
  (badd c x2 (x2 >>> 4)).bind fun x3 =>
  .ok (x3 &&& (0x0f#64 * ONES_STEP_8))

/-- `bytes_sum` (`wrapping_mul`) -/
def bytesSum (x : BitVec 64) : BitVec 64 := (ONES_STEP_8 * x) >>> 56

/-- what `usize::count_ones` returns (core intrinsic, modelled by its meaning) -/
def countOnes (x : BitVec 64) : Nat := (List.range 64).countP (fun i => x.getLsbD i)

/-- `popcount` -/
def popcount (c : Cfg) (x : BitVec 64) : R Nat :=
  if c.intrinsics then .ok (countOnes x)
  else (byteCounts c x).bind fun y => .ok (bytesSum y).toNat

/-- portable `place`: `((geq >> 7).wrapping_mul(ONES_STEP_8) >> 53) & !0x7` -/
def placePortable (geq : BitVec 64) : BitVec 64 := (((geq >>> 7) * ONES_STEP_8) >>> 53) &&& ~~~0x7#64

/-- the `place` block of `select_in_word` (both feature variants) -/
def selPlaceM (c : Cfg) (geq : BitVec 64) : R Nat :=
  if c.intrinsics then (popcount c geq).bind fun p => cmul c p 8
  else .ok (placePortable geq).toNat

/-- `usize >> place` / `<< …`: a shift amount ≥ 64 is an overflow in checked builds, masked otherwise -/
def shiftAmount (c : Cfg) (s : Nat) : R (BitVec 64) :=
  if s < 64 then .ok (BitVec.ofNat 64 s) else if c.checked then .error .overflow else .ok (BitVec.ofNat 64 (s % 64))

/-- `select_in_word` after the popcount guard, given `byte_sums` -/
def selectTail (c : Cfg) (x : BitVec 64) (k : Nat) (byteSums : BitVec 64) : R (Option Nat) :=
  (bmul c (BitVec.ofNat 64 k) ONES_STEP_8).bind fun kStep8 =>          -- k * ONES_STEP_8
  (bsub c (kStep8 ||| MSBS_STEP_8) byteSums).bind fun d =>
  (selPlaceM c (d &&& MSBS_STEP_8)).bind fun place =>
  (shiftAmount c place).bind fun placeB =>
  (bsub c (BitVec.ofNat 64 k) (((byteSums <<< 8) >>> placeB) &&& 0xFF#64)).bind fun byteRank =>
  match selectInByte[(((x >>> placeB) &&& 0xFF#64) ||| (byteRank <<< 8)).toNat]? with
  | none => .error .oob
  | some t => (cadd c place t).bind fun sel => .ok (some sel)

/-- `select_in_word` -/
def selectInWord (c : Cfg) (x : BitVec 64) (k : Nat) : R (Option Nat) :=
  (popcount c x).bind fun pc =>
  if pc ≤ k then .ok none
  else (byteCounts c x).bind fun bc => selectTail c x k (ONES_STEP_8 * bc)    -- wrapping_mul

/-- `bit_position` -/
def bitPosition (c : Cfg) (x : BitVec 64) : R Nat :=
  (popcount c x).bind fun pc =>
  (dassert c (pc == 1)).bind fun _ =>
  match debruijnMapping[((DEBRUIJN64 * x) >>> 58).toNat]? with   -- wrapping_mul
  | none => .error .oob
  | some v => .ok v

def msbIsolate (x : BitVec 64) : BitVec 64 :=
  let x := x ||| (x >>> 1)
  let x := x ||| (x >>> 2)
  let x := x ||| (x >>> 4)
  let x := x ||| (x >>> 8)
  let x := x ||| (x >>> 16)
  let x := x ||| (x >>> 32)
  x ^^^ (x >>> 1)

/-- `lsb` -/
def lsb (c : Cfg) (x : BitVec 64) : R (Option Nat) :=
  if c.intrinsics then
    .ok (if x = 0 then none else (List.range 64).find? (fun i => x.getLsbD i))          -- trailing_zeros
  else if x = 0 then .ok none
  else (bitPosition c (x &&& (0xFFFFFFFFFFFFFFFF#64 * x))).bind fun p => .ok (some p)   -- wrapping_mul

/-- `msb` -/
def msb (c : Cfg) (x : BitVec 64) : R (Option Nat) :=
  if c.intrinsics then
    .ok (if x = 0 then none else (List.range 64).reverse.find? (fun i => x.getLsbD i))  -- 63 - leading_zeros
  else if x = 0 then .ok none
  else (bitPosition c (msbIsolate x)).bind fun p => .ok (some p)

end Sucds.Broadword
