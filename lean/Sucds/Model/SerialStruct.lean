import Sucds.Model.Serial
import Sucds.Model.WaveletMatrix
/-! Codecs of every serializable structure, in the field order of its `Serializable` impl. -/
namespace Sucds
open Codec

/-- `isize`/`i64`: two's complement little endian -/
def Codec.i64 : Codec Int where
  put x := leBytes (x % 2^64).toNat 8
  get s := if s.length < 8 then none else
    let n := ofLe (s.take 8)
    some (if n ≥ 2^63 then (n : Int) - 2^64 else (n : Int), s.drop 8)
  size _ := 8

/-- `Vec<S>` held as an `Array` -/
def Codec.arr {α} (a : Codec α) : Codec (Array α) := iso (vec a) List.toArray Array.toList

def R9Index.codec : Codec R9Index :=
  iso (seq u64 (seq (arr u64) (seq (opt (arr u64)) (opt (arr u64)))))
    (fun p => ⟨p.1, p.2.1, p.2.2.1, p.2.2.2⟩) (fun x => (x.len, x.pairs, x.sel1, x.sel0))

def R9.codec : Codec R9 := iso (seq BV.codec R9Index.codec) (fun p => ⟨p.1, p.2⟩) (fun x => (x.bv, x.rs))

def DAIndex.codec : Codec DAIndex :=
  iso (seq (arr Codec.i64) (seq (arr u16) (seq (arr u64) (seq u64 Codec.bool))))
    (fun p => ⟨p.1, p.2.1, p.2.2.1, p.2.2.2.1, p.2.2.2.2⟩)
    (fun x => (x.blockInv, x.subInv, x.overflow, x.numPos, x.overOne))

def DA.codec : Codec DA :=
  iso (seq BV.codec (seq DAIndex.codec (seq (opt DAIndex.codec) (opt R9Index.codec))))
    (fun p => ⟨p.1, p.2.1, p.2.2.1, p.2.2.2⟩) (fun x => (x.bv, x.s1, x.s0, x.r9))

def EF.codec : Codec EF :=
  iso (seq DA.codec (seq BV.codec (seq u64 u64)))
    (fun p => ⟨p.1, p.2.1, p.2.2.1, p.2.2.2⟩) (fun x => (x.high, x.low, x.lowLen, x.univ))

def SA.codec : Codec SA :=
  iso (seq (opt EF.codec) (seq u64 (seq u64 Codec.bool)))
    (fun p => ⟨p.1, p.2.1, p.2.2.1, p.2.2.2⟩) (fun x => (x.ef, x.numBits, x.numOnes, x.hasRank))

def DacB.codec : Codec DacB :=
  iso (seq (arr (arr u8)) (arr R9.codec)) (fun p => ⟨p.1, p.2⟩) (fun x => (x.data, x.flags))

def DacO.codec : Codec DacO :=
  iso (seq (arr CV.codec) (arr R9.codec)) (fun p => ⟨p.1, p.2⟩) (fun x => (x.data, x.flags))

def PS.codec : Codec PS := iso EF.codec (fun e => ⟨e⟩) (fun p => p.ef)

/-- layers of one backing kind; a layer of another kind cannot occur in a well-formed value -/
def Lay.codec (k : Backing) : Codec Lay :=
  match k with
  | .r9 => iso R9.codec Lay.r9 (fun l => match l with | .r9 x => x | _ => default)
  | .da => iso DA.codec Lay.da (fun l => match l with | .da x => x | _ => default)
  | .bv => iso BV.codec Lay.bv (fun l => match l with | .bv x => x | _ => default)

def WM.codec (k : Backing) : Codec WM :=
  iso (seq (arr (Lay.codec k)) u64) (fun p => ⟨p.1, p.2⟩) (fun w => (w.layers, w.alphSize))

end Sucds
