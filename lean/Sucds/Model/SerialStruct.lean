import Sucds.Gen.Codecs
/-! The codecs of every serializable structure are generated from the Rust sources (`Sucds/Gen/Codecs.lean`, by
    tools/gen_codecs.py): field order of `serialize_into`/`deserialize_from`, field types, `size_in_bytes`. The generic
    `Option<S>`/`Vec<S>`/primitive impls of `src/serial.rs` and `src/serial/primitive.rs` are the hand-written
    combinators of `Sucds/Model/Serial.lean`. -/
