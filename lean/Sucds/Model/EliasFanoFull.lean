import Sucds.Model.EliasFano
import Sucds.Model.DArray
/-! Model of `EliasFano` (`src/mii_sequences/elias_fano.rs`, `elias_fano/iter.rs`), after repairs
    F7 (`binsearch_range` checks the range end) and F10 (no `debug_assert_ne!` on empty sequences). -/
namespace Sucds

structure EF where
  high : DA
  low : BV
  lowLen : Nat
  univ : Nat
deriving DecidableEq, Repr, Inhabited

def unwrapO {α} (r : R (Option α)) : R α :=
  r.bind fun o => match o with
    | some v => .ok v
    | none => .error .unwrapNone

namespace EF
def default (c : Cfg) : EF := ⟨DA.fromBV c BV.new, BV.new, 0, 0⟩

/-- `EliasFanoBuilder::build`: `DArray::from_bits(self.high_bits.iter())` -/
def ofBuilder (c : Cfg) (b : EFB) : EF :=
  ⟨DA.fromBV c (BV.fromBits b.high.toList), b.low, b.lowLen, b.univ⟩

def enableRank (c : Cfg) (e : EF) : EF := { e with high := e.high.enableSelect0 c }
def hasRank (e : EF) : Bool := e.high.s0.isSome
def len (e : EF) : Nat := e.high.numOnes

/-- `select` -/
def select (c : Cfg) (e : EF) (k : Nat) : R (Option Nat) :=
  if e.len ≤ k then .ok none
  else
    (unwrapO (e.high.select1 c k)).bind fun hp =>
    (unwrapO (e.low.getBits (k * e.lowLen) e.lowLen)).bind fun lv =>
    (csub c hp k).bind fun d =>
    (cshl c d e.lowLen).bind fun hi => .ok (some (hi ||| lv))

/-- `delta` -/
def delta (c : Cfg) (e : EF) (k : Nat) : R (Option Nat) :=
  if e.len ≤ k then .ok none
  else
    (unwrapO (e.high.select1 c k)).bind fun hv =>
    (unwrapO (e.low.getBits (k * e.lowLen) e.lowLen)).bind fun lv =>
    if k ≠ 0 then
      (csub c hv 1).bind fun hv1 =>
      (unwrapO (e.high.bv.predecessor1 c hv1)).bind fun pr =>
      (csub c hv pr).bind fun d1 =>
      (csub c d1 1).bind fun d2 =>
      (cshl c d2 e.lowLen).bind fun hi =>
      (cadd c hi lv).bind fun s =>
      (unwrapO (e.low.getBits ((k - 1) * e.lowLen) e.lowLen)).bind fun pl =>
      (csub c s pl).bind fun x => .ok (some x)
    else
      (csub c hv k).bind fun d =>
      (cshl c d e.lowLen).bind fun hi => .ok (some (hi ||| lv))

/-- the backward scan of `rank` -/
def rankLoop (e : EF) (lPos : Nat) : Nat → Nat → Nat → R Nat
  | _, rank, 0 => .ok rank
  | hPos, rank, fuel+1 =>
    if hPos = 0 then .ok rank
    else (unwrapO (e.high.access (hPos - 1))).bind fun bit =>
      if !bit then .ok rank
      else if rank = 0 then .error .overflow      -- `rank - 1` (unreachable: a one below `h_pos` is an element)
      else (unwrapO (e.low.getBits ((rank - 1) * e.lowLen) e.lowLen)).bind fun lv =>
        if lv ≥ lPos then rankLoop e lPos (hPos - 1) (rank - 1) fuel else .ok rank

/-- `rank` (needs `enable_rank`) -/
def rank (c : Cfg) (e : EF) (pos : Nat) : R (Option Nat) :=
  if e.univ < pos then .ok none
  else if e.univ = pos then .ok (some e.len)
  else
    let hRank := pos >>> e.lowLen
    (unwrapO (e.high.select0 c hRank)).bind fun hPos =>
    (csub c hPos hRank).bind fun rk =>
    (rankLoop e (pos &&& ((1 <<< e.lowLen) - 1)) hPos rk (e.len + 1)).bind fun r => .ok (some r)

/-- `predecessor` -/
def predecessor (c : Cfg) (e : EF) (pos : Nat) : R (Option Nat) :=
  if e.univ ≤ pos then .ok none
  else (unwrapO (e.rank c (pos + 1))).bind fun i =>
    if i > 0 then (unwrapO (e.select c (i - 1))).bind fun v => .ok (some v) else .ok none

/-- `successor` -/
def successor (c : Cfg) (e : EF) (pos : Nat) : R (Option Nat) :=
  if e.univ ≤ pos then .ok none
  else (unwrapO (e.rank c pos)).bind fun i =>
    if i < e.len then (unwrapO (e.select c i)).bind fun v => .ok (some v) else .ok none

/-- `elias_fano::iter::Iter` -/
structure It where
  k : Nat
  high : Option UIter
  lowBuf : Nat
  lowMask : Nat
  chunksInWord : Nat
  chunksAvail : Nat
deriving Repr, Inhabited

def iter (c : Cfg) (e : EF) (k : Nat) : R It :=
  (dassert c (decide (e.lowLen < 64))).bind fun _ =>
  let ca := if e.lowLen ≠ 0 then (64 / e.lowLen, 0) else (0, e.len)
  (if k < e.len then
      (unwrapO (e.high.select1 c k)).bind fun pos => .ok (some (UIter.new e.high.bv pos))
    else .ok none).bind fun hi =>
  .ok ⟨k, hi, 0, (1 <<< e.lowLen) - 1, ca.1, ca.2⟩

def It.next (c : Cfg) (e : EF) (it : It) : R (It × Option Nat) :=
  let high := if it.k = e.len then none else it.high
  match high with
  | none => .ok ({ it with high := none }, none)
  | some hi =>
    (if it.chunksAvail = 0 then
        (unwrapO (e.low.getWord64 (it.k * e.lowLen))).bind fun w =>
        (csub c it.chunksInWord 1).bind fun a => .ok (w, a)
      else .ok (it.lowBuf, it.chunksAvail - 1)).bind fun ba =>
    (UIter.next c e.high.bv hi).bind fun hn =>
    match hn.2 with
    | none => .error .unwrapNone
    | some h =>
      (csub c h it.k).bind fun d =>
      (cshl c d e.lowLen).bind fun hv =>
      .ok (⟨it.k + 1, some hn.1, ba.1 >>> e.lowLen, it.lowMask, it.chunksInWord, ba.2⟩, some (hv ||| (ba.1 &&& it.lowMask)))

/-- binary phase of `binsearch_range`: `inl i` = found, `inr (lo, hi)` = window for the linear scan -/
def binPhase (c : Cfg) (e : EF) (val : Nat) : Nat → Nat → Nat → R (Sum Nat (Nat × Nat))
  | lo, hi, 0 => .ok (.inr (lo, hi))
  | lo, hi, fuel+1 =>
    if hi - lo > Gen.EF_LINEAR_SCAN_THRESHOLD then
      let mi := (lo + hi) / 2
      (unwrapO (e.select c mi)).bind fun x =>
        if val = x then .ok (.inl mi)
        else if val < x then binPhase c e val lo mi fuel
        else binPhase c e val (mi + 1) hi fuel
    else .ok (.inr (lo, hi))

def scanPhase (c : Cfg) (e : EF) (val : Nat) : Nat → It → Nat → R (Option Nat)
  | _, _, 0 => .ok none
  | i, it, n+1 =>
    (It.next c e it).bind fun r =>
      match r.2 with
      | none => .error .unwrapNone
      | some x => if val = x then .ok (some i) else scanPhase c e val (i + 1) r.1 n

/-- `binsearch_range` (after F7) -/
def binsearchRange (c : Cfg) (e : EF) (lo hi val : Nat) : R (Option Nat) :=
  if hi ≤ lo ∨ e.len < hi then .ok none
  else (binPhase c e val lo hi 65).bind fun r =>
    match r with
    | .inl i => .ok (some i)
    | .inr (lo, hi) => (iter c e lo).bind fun it => scanPhase c e val lo it (hi - lo)

def binsearch (c : Cfg) (e : EF) (val : Nat) : R (Option Nat) := binsearchRange c e 0 e.len val

/-- `EliasFano::from_bits`: `none` = `Err` -/
def pushAll (b : EFB) : List Nat → R (Option EFB)
  | [] => .ok (some b)
  | x :: xs => (b.push x).bind fun r => if r.2 then pushAll r.1 xs else .ok none

def fromBV (c : Cfg) (bv : BV) : R (Option EF) :=
  if bv.len = 0 then .ok none
  else
    let m := BV.sumPop c bv.words bv.words.size
    if m = 0 then .ok none
    else match EFB.new bv.len m with
      | none => .ok none
      | some b =>
        (pushAll b ((List.range bv.len).filter bv.bitAt)).bind fun r =>
          match r with
          | none => .ok none
          | some b => .ok (some (ofBuilder c b))
end EF

/-- `EliasFanoBuilder::extend`: stops at the first rejected item -/
def EFB.extend (b : EFB) : List Nat → R (EFB × Bool)
  | [] => .ok (b, true)
  | x :: xs => (b.push x).bind fun r => if r.2 then EFB.extend r.1 xs else .ok (r.1, false)

/-- `SArray` (`src/bit_vectors/sarray.rs`, after repair F5) -/
structure SA where
  ef : Option EF
  numBits : Nat
  numOnes : Nat
  hasRank : Bool
deriving DecidableEq, Repr, Inhabited

namespace SA
/-- positions yielded by `bv.unary_iter(0)` -/
def unaryAll (c : Cfg) (bv : BV) : Nat → UIter → Array Nat → R (Array Nat)
  | 0, _, acc => .ok acc
  | fuel+1, it, acc => (UIter.next c bv it).bind fun r =>
    match r.2 with
    | none => .ok acc
    | some p => unaryAll c bv fuel r.1 (acc.push p)

def fromBV (c : Cfg) (bv : BV) : R SA :=
  let ones := BV.sumPop c bv.words bv.words.size
  if ones ≠ 0 then
    match EFB.new bv.len ones with
    | none => .error .unwrapNone
    | some b =>
      (unaryAll c bv (bv.len + 1) (UIter.new bv 0) #[]).bind fun ps =>
      (EF.pushAll b ps.toList).bind fun r =>
        match r with
        | none => .error .unwrapNone
        | some b => .ok ⟨some (EF.ofBuilder c b), bv.len, ones, false⟩
  else .ok ⟨none, bv.len, ones, false⟩

def enableRank (c : Cfg) (s : SA) : SA := { s with ef := s.ef.map (EF.enableRank c), hasRank := true }

def access (c : Cfg) (s : SA) (pos : Nat) : R (Option Bool) :=
  if s.numBits ≤ pos then .ok none
  else match s.ef with
    | none => .ok (some false)
    | some e => (e.binsearch c pos).bind fun r => .ok (some r.isSome)

def rank1 (c : Cfg) (s : SA) (pos : Nat) : R (Option Nat) :=
  if !s.hasRank then .error .assertFail
  else if s.numBits < pos then .ok none
  else match s.ef with
    | none => .ok (some 0)
    | some e => e.rank c pos

def rank0 (c : Cfg) (s : SA) (pos : Nat) : R (Option Nat) :=
  (s.rank1 c pos).bind fun r => match r with
    | none => .ok none
    | some r1 => (csub c pos r1).bind fun z => .ok (some z)

def select1 (c : Cfg) (s : SA) (k : Nat) : R (Option Nat) :=
  match s.ef with
  | none => .ok none
  | some e => e.select c k

def predecessor1 (c : Cfg) (s : SA) (pos : Nat) : R (Option Nat) :=
  if !s.hasRank then .error .assertFail
  else match s.ef with
    | none => .ok none
    | some e => e.predecessor c pos

def successor1 (c : Cfg) (s : SA) (pos : Nat) : R (Option Nat) :=
  if !s.hasRank then .error .assertFail
  else match s.ef with
    | none => .ok none
    | some e => e.successor c pos
end SA
end Sucds
