import Sucds.Model.Rank9Select
import Sucds.Model.BitVectorPred
/-! Model of `Rank9Sel` (`src/bit_vectors/rank9sel.rs`): a bit vector with its `Rank9SelIndex`. -/
namespace Sucds

structure R9 where
  bv : BV
  rs : R9Index
deriving DecidableEq, Repr, Inhabited

namespace R9
def new (c : Cfg) (bv : BV) : R9 := ⟨bv, R9Index.buildRank c bv⟩
def select1Hints (x : R9) : R R9 := x.rs.buildSelect1.bind fun rs => .ok ⟨x.bv, rs⟩
def select0Hints (c : Cfg) (x : R9) : R R9 := (x.rs.buildSelect0 c).bind fun rs => .ok ⟨x.bv, rs⟩
/-- `Rank9Sel::new(bv)` followed by the requested hint builders (also `Build::build_from_bits`) -/
def build (c : Cfg) (bv : BV) (h1 h0 : Bool) : R R9 :=
  (if h1 then (new c bv).select1Hints else .ok (new c bv)).bind fun x =>
  if h0 then x.select0Hints c else .ok x
def access (x : R9) (pos : Nat) : R (Option Bool) := x.bv.getBit pos
def rank1 (c : Cfg) (x : R9) (pos : Nat) := x.rs.rank1 c x.bv pos
def rank0 (c : Cfg) (x : R9) (pos : Nat) := x.rs.rank0 c x.bv pos
def select1 (c : Cfg) (x : R9) (k : Nat) := x.rs.select1 c x.bv k
def select0 (c : Cfg) (x : R9) (k : Nat) := x.rs.select0 c x.bv k
def numBits (x : R9) : Nat := x.bv.len
def numOnes (x : R9) : R Nat := x.rs.numOnes
def numZeros (c : Cfg) (x : R9) : R Nat := x.numOnes.bind fun n => csub c x.numBits n
end R9
end Sucds
