import Sucds.Model.Rank9
/-! Model of `Rank9SelIndex::select1` (`src/bit_vectors/rank9sel/inner.rs`). -/
namespace Sucds
namespace R9Index

/-- the `while b - a > 1` binary search; `rk` is `block_rank` (select1) or `block_rank0` (select0) -/
def searchBlock (rk : Nat → R Nat) (k : Nat) : Nat → Nat → Nat → R Nat
  | a, _, 0 => .ok a
  | a, b, fuel+1 =>
    if b - a > 1 then
      (rk (a + (b - a) / 2)).bind fun v =>
        if v ≤ k then searchBlock rk k (a + (b - a) / 2) b fuel else searchBlock rk k a (a + (b - a) / 2) fuel
    else .ok a

/-- the initial window: the whole directory, or the hint window when hints are present -/
def window1 (x : R9Index) (k : Nat) : R (Nat × Nat) :=
  match x.sel1 with
  | none => .ok (0, x.numBlocks)
  | some hints =>
    let chunk := k / Gen.R9_SELECT_ONES_PER_HINT
    (if chunk ≠ 0 then idx hints (chunk - 1) else .ok 0).bind fun a =>
    (idx hints chunk).bind fun hb => .ok (a, hb + 1)

/-- in-block step: which of the 8 words of the block holds the answer (`sub_block_offset`) and the rank
    consumed before it -/
def inBlock (c : Cfg) (subRanks r : Nat) : R (Nat × Nat) :=
  (cmul c r Gen.ONES_STEP_9).bind fun rip =>
  (Broadword.uleqStep9 c (BitVec.ofNat 64 subRanks) (BitVec.ofNat 64 rip)).bind fun u =>
  let off := (((u * Broadword.ONES_STEP_9) >>> 54) &&& 0x7#64).toNat       -- wrapping_mul
  .ok (off, (subRanks >>> (((7 - off) * 9) % 64)) &&& 0x1FF)                  -- wrapping_mul(9), shift

/-- body of the loop of `build_select1`: state = (hints so far, `cur_ones_threshold`) -/
def hintStep (x : R9Index) (st : Array Nat × Nat) (i : Nat) : R (Array Nat × Nat) :=
  (x.blockRank (i + 1)).bind fun v =>
  if v > st.2 then .ok (st.1.push i, st.2 + Gen.R9_SELECT_ONES_PER_HINT) else .ok st

def hintLoop (x : R9Index) : Nat → Nat → Array Nat × Nat → R (Array Nat × Nat)
  | _, 0, st => .ok st
  | i, fuel+1, st => (hintStep x st i).bind fun st' => hintLoop x (i + 1) fuel st'

/-- `build_select1` -/
def buildSelect1 (x : R9Index) : R R9Index :=
  (hintLoop x 0 x.numBlocks (#[], Gen.R9_SELECT_ONES_PER_HINT)).bind fun st =>
  .ok { x with sel1 := some (st.1.push x.numBlocks) }

/-- `select1` -/
def select1 (c : Cfg) (x : R9Index) (bv : BV) (k : Nat) : R (Option Nat) :=
  x.numOnes.bind fun n =>
  if n ≤ k then .ok none
  else
    (x.window1 k).bind fun w =>
    (searchBlock x.blockRank k w.1 w.2 (x.numBlocks + 1)).bind fun block =>
    (dassert c (decide (block < x.numBlocks))).bind fun _ =>
    (x.blockRank block).bind fun cur =>
    (dassert c (decide (cur ≤ k))).bind fun _ =>
    (csub c k cur).bind fun r =>
    (x.subBlockRanks block).bind fun sr =>
    (inBlock c sr r).bind fun oi =>
    (dassert c (decide (cur + oi.2 ≤ k))).bind fun _ =>
    (idx bv.words (block * Gen.R9_BLOCK_LEN + oi.1)).bind fun word =>
    match selectInWordN c word (k - (cur + oi.2)) with
    | none => .error .unwrapNone
    | some p => .ok (some ((block * Gen.R9_BLOCK_LEN + oi.1) * 64 + p))

/-! ### the zero side -/

/-- `block_rank0` -/
def blockRank0 (c : Cfg) (x : R9Index) (t : Nat) : R Nat :=
  (x.blockRank t).bind fun r => csub c (t * Gen.R9_BLOCK_LEN * 64) r

/-- `num_zeros` -/
def numZeros (c : Cfg) (x : R9Index) : R Nat := x.numOnes.bind fun n => csub c x.len n

def hintStep0 (c : Cfg) (x : R9Index) (st : Array Nat × Nat) (i : Nat) : R (Array Nat × Nat) :=
  (x.blockRank0 c (i + 1)).bind fun v =>
  if v > st.2 then .ok (st.1.push i, st.2 + Gen.R9_SELECT_ZEROS_PER_HINT) else .ok st

def hintLoop0 (c : Cfg) (x : R9Index) : Nat → Nat → Array Nat × Nat → R (Array Nat × Nat)
  | _, 0, st => .ok st
  | i, fuel+1, st => (hintStep0 c x st i).bind fun st' => hintLoop0 c x (i + 1) fuel st'

/-- `build_select0` -/
def buildSelect0 (c : Cfg) (x : R9Index) : R R9Index :=
  (hintLoop0 c x 0 x.numBlocks (#[], Gen.R9_SELECT_ZEROS_PER_HINT)).bind fun st =>
  .ok { x with sel0 := some (st.1.push x.numBlocks) }

def window0 (x : R9Index) (k : Nat) : R (Nat × Nat) :=
  match x.sel0 with
  | none => .ok (0, x.numBlocks)
  | some hints =>
    let chunk := k / Gen.R9_SELECT_ZEROS_PER_HINT
    (if chunk ≠ 0 then idx hints (chunk - 1) else .ok 0).bind fun a =>
    (idx hints chunk).bind fun hb => .ok (a, hb + 1)

/-- `select0` -/
def select0 (c : Cfg) (x : R9Index) (bv : BV) (k : Nat) : R (Option Nat) :=
  (x.numZeros c).bind fun n =>
  if n ≤ k then .ok none
  else
    (x.window0 k).bind fun w =>
    (searchBlock (x.blockRank0 c) k w.1 w.2 (x.numBlocks + 1)).bind fun block =>
    (dassert c (decide (block < x.numBlocks))).bind fun _ =>
    (x.blockRank0 c block).bind fun cur =>
    (dassert c (decide (cur ≤ k))).bind fun _ =>
    (csub c k cur).bind fun r =>
    (x.subBlockRanks block).bind fun sr =>
    (csub c (64 * Gen.INV_COUNT_STEP_9) sr).bind fun sr0 =>
    (inBlock c sr0 r).bind fun oi =>
    (dassert c (decide (cur + oi.2 ≤ k))).bind fun _ =>
    (idx bv.words (block * Gen.R9_BLOCK_LEN + oi.1)).bind fun word =>
    match selectInWordN c (wnot word) (k - (cur + oi.2)) with
    | none => .error .unwrapNone
    | some p => .ok (some ((block * Gen.R9_BLOCK_LEN + oi.1) * 64 + p))

end R9Index
end Sucds
