import Sucds.Model.BitVectorScan
/-! Model of `predecessor1/0`, `successor1/0` of `bit_vector.rs` and of `UnaryIter`
    (`bit_vector/unary.rs`, after repairs F3: `new` past the last word, F4: a failed skip clears the buffer). -/
namespace Sucds

/-- total wrappers of `broadword::lsb` / `msb` on `Nat` words (error branches unreachable: `C14.lsb_ok`, `msb_ok`) -/
def lsbW (c : Cfg) (w : Nat) : Option Nat :=
  match Broadword.lsb c (BitVec.ofNat 64 w) with
  | .ok r => r
  | .error _ => none
def msbW (c : Cfg) (w : Nat) : Option Nat :=
  match Broadword.msb c (BitVec.ofNat 64 w) with
  | .ok r => r
  | .error _ => none

namespace BV

/-- the backward loop of `predecessor1/0` (`f = id` / `wnot`) -/
def predLoop (c : Cfg) (f : Nat → Nat) (ws : Array Nat) : Nat → Nat → Nat → R (Option Nat)
  | block, word, 0 => match msbW c word with
    | some r => .ok (some (block * 64 + r))
    | none => .ok none
  | block, word, fuel+1 =>
    match msbW c word with
    | some r => .ok (some (block * 64 + r))
    | none =>
      if block = 0 then .ok none
      else (idx ws (block - 1)).bind fun w => predLoop c f ws (block - 1) (f w) fuel

def predecessor (c : Cfg) (f : Nat → Nat) (b : BV) (pos : Nat) : R (Option Nat) :=
  if b.len ≤ pos then .ok none
  else (idx b.words (pos / 64)).bind fun w =>
    let shift := 64 - pos % 64 - 1
    predLoop c f b.words (pos / 64) ((((f w) <<< shift) % 2^64) >>> shift) (pos / 64)

def predecessor1 (c : Cfg) (b : BV) (pos : Nat) := predecessor c id b pos
def predecessor0 (c : Cfg) (b : BV) (pos : Nat) := predecessor c wnot b pos

/-- the forward loop of `successor1/0` -/
def succLoop (c : Cfg) (f : Nat → Nat) (b : BV) : Nat → Nat → Nat → R (Option Nat)
  | block, word, 0 => match lsbW c word with
    | some r => .ok (if block * 64 + r < b.len then some (block * 64 + r) else none)
    | none => .ok none
  | block, word, fuel+1 =>
    match lsbW c word with
    | some r => .ok (if block * 64 + r < b.len then some (block * 64 + r) else none)
    | none =>
      if block + 1 = b.words.size then .ok none
      else (idx b.words (block + 1)).bind fun w => succLoop c f b (block + 1) (f w) fuel

def successor (c : Cfg) (f : Nat → Nat) (b : BV) (pos : Nat) : R (Option Nat) :=
  if b.len ≤ pos then .ok none
  else (idx b.words (pos / 64)).bind fun w =>
    let shift := pos % 64
    succLoop c f b (pos / 64) ((((f w) >>> shift) <<< shift) % 2^64) b.words.size

def successor1 (c : Cfg) (b : BV) (pos : Nat) := successor c id b pos
def successor0 (c : Cfg) (b : BV) (pos : Nat) := successor c wnot b pos

/-- `num_ones` = `rank1(len).unwrap()` -/
def numOnes (c : Cfg) (b : BV) : R Nat :=
  (b.rank1 c b.len).bind fun r => match r with
    | some n => .ok n
    | none => .error .unwrapNone
end BV

/-- `UnaryIter` -/
structure UIter where
  pos : Nat
  buf : Nat
deriving Repr, DecidableEq, Inhabited

namespace UIter
def shlMax (s : Nat) : Nat := (BV.MAXW <<< (s % 64)) % 2^64     -- usize::MAX.wrapping_shl(s)

/-- `UnaryIter::new` (after F3: a word index past the end reads 0) -/
def new (bv : BV) (pos : Nat) : UIter := ⟨pos, wordAt bv.words (pos / 64) &&& shlMax (pos % 64)⟩

/-- the refill loop of `next`: returns the advanced position and the first non-zero buffer, or `none` -/
def nextLoop (bv : BV) : Nat → Nat → Nat → Nat × Option Nat
  | pos, buf, 0 => if buf = 0 then (pos, none) else (pos, some buf)
  | pos, buf, fuel+1 =>
    if buf ≠ 0 then (pos, some buf)
    else if bv.words.size ≤ (pos + 64) / 64 then (pos + 64, none)
    else nextLoop bv (pos + 64) (wordAt bv.words ((pos + 64) / 64)) fuel

/-- `next` -/
def next (c : Cfg) (bv : BV) (it : UIter) : R (UIter × Option Nat) :=
  match nextLoop bv it.pos it.buf (bv.words.size + 1) with
  | (pos, none) => .ok (⟨pos, it.buf⟩, none)
  | (pos, some buf) =>
    match lsbW c buf with
    | none => .error .unwrapNone
    | some p =>
      let np := pos / 64 * 64 + p            -- (self.pos & !(WORD_LEN - 1)) + pos_in_word
      .ok (⟨np, buf &&& (buf - 1)⟩, some np)

/-- the loop of `skip1`/`skip0` (`f = id`/`wnot`): `(pos, skipped, some buf)` at the break, `none` buffer on exhaustion -/
def skipLoop (c : Cfg) (f : Nat → Nat) (bv : BV) (k : Nat) : Nat → Nat → Nat → Nat → Nat × Nat × Option Nat
  | pos, skipped, buf, 0 => (pos, skipped, if skipped + popcountN c buf > k then some buf else none)
  | pos, skipped, buf, fuel+1 =>
    let w := popcountN c buf
    if skipped + w > k then (pos, skipped, some buf)
    else if bv.words.size ≤ (pos + 64) / 64 then (pos + 64, skipped + w, none)
    else skipLoop c f bv k (pos + 64) (skipped + w) (f (wordAt bv.words ((pos + 64) / 64))) fuel

/-- `skip1` (after F4) -/
def skip1 (c : Cfg) (bv : BV) (it : UIter) (k : Nat) : R (UIter × Option Nat) :=
  match skipLoop c id bv k it.pos 0 it.buf (bv.words.size + 1) with
  | (pos, _, none) => .ok (⟨pos, 0⟩, none)
  | (pos, skipped, some buf) =>
    (dassert c (buf != 0)).bind fun _ =>
    match selectInWordN c buf (k - skipped) with
    | none => .error .unwrapNone
    | some p =>
      let np := pos / 64 * 64 + p
      .ok (⟨np, buf &&& shlMax p⟩, some np)

/-- `skip0` (after F4) -/
def skip0 (c : Cfg) (bv : BV) (it : UIter) (k : Nat) : R (UIter × Option Nat) :=
  match skipLoop c wnot bv k it.pos 0 (wnot it.buf &&& shlMax (it.pos % 64)) (bv.words.size + 1) with
  | (pos, _, none) => .ok (⟨pos, 0⟩, none)
  | (pos, skipped, some buf) =>
    (dassert c (buf != 0)).bind fun _ =>
    match selectInWordN c buf (k - skipped) with
    | none => .error .unwrapNone
    | some p =>
      let np := pos / 64 * 64 + p
      .ok (⟨np, wnot buf &&& shlMax p⟩, if np < bv.len then some np else none)
end UIter
end Sucds
