import Sucds.Model.Rank9Sel
/-! Model of `DArray` and `DArrayIndex` (`src/bit_vectors/darray.rs`, `darray/inner.rs`). -/
namespace Sucds

structure DAIndex where
  blockInv : Array Int        -- block_inventory (isize)
  subInv : Array Nat          -- subblock_inventory (u16)
  overflow : Array Nat        -- overflow_positions
  numPos : Nat
  overOne : Bool
deriving DecidableEq, Repr, Inhabited

namespace DAIndex

/-- `get_word_over_one` / `get_word_over_zero` -/
def getWord (overOne : Bool) (bv : BV) (i : Nat) : R Nat :=
  (idx bv.words i).bind fun w => .ok (if overOne then w else wnot w)

structure BSt where
  cur : Array Nat
  blockInv : Array Int
  subInv : Array Nat
  overflow : Array Nat
  numPos : Nat
deriving Inhabited

/-- pushes one entry per `SUBBLOCK_LEN` positions: `for i in (0..len).step_by(SUBBLOCK_LEN)` -/
def subPush (cur : Array Nat) (first : Nat) (dense : Bool) (sub : Array Nat) : Nat → Nat → Array Nat
  | _, 0 => sub
  | i, fuel+1 =>
    if i < cur.size then
      subPush cur first dense (sub.push (if dense then (wordAt cur i - first) % 65536 else 65535)) (i + Gen.DA_SUBBLOCK_LEN) fuel
    else sub

/-- `flush_cur_block` -/
def flush (s : BSt) : BSt :=
  let first := wordAt s.cur 0
  let last := wordAt s.cur (s.cur.size - 1)
  if last - first < Gen.DA_MAX_IN_BLOCK_DISTANCE then
    { s with cur := #[], blockInv := s.blockInv.push (Int.ofNat first),
             subInv := subPush s.cur first true s.subInv 0 s.cur.size }
  else
    { s with cur := #[], blockInv := s.blockInv.push (-(Int.ofNat (s.overflow.size + 1))),
             overflow := s.overflow ++ s.cur,
             subInv := subPush s.cur first false s.subInv 0 s.cur.size }

/-- the `while let Some(l) = broadword::lsb(cur_word)` loop over one word -/
def wordLoop (c : Cfg) (numBits : Nat) : Nat → Nat → BSt → Nat → BSt
  | _, _, s, 0 => s
  | curPos, curWord, s, fuel+1 =>
    match lsbW c curWord with
    | none => s
    | some l =>
      let curPos := curPos + l
      let curWord := curWord >>> l
      if curPos ≥ numBits then s
      else
        let s := { s with cur := s.cur.push curPos }
        let s := if s.cur.size = Gen.DA_BLOCK_LEN then flush s else s
        wordLoop c numBits (curPos + 1) (curWord >>> 1) { s with numPos := s.numPos + 1 } fuel

def buildLoop (c : Cfg) (bv : BV) (overOne : Bool) : Nat → BSt → Nat → BSt
  | _, s, 0 => s
  | i, s, fuel+1 =>
    if i < bv.words.size then
      let w := wordAt bv.words i
      buildLoop c bv overOne (i + 1) (wordLoop c bv.len (i * 64) (if overOne then w else wnot w) s 65) fuel
    else s

/-- `DArrayIndex::build` -/
def build (c : Cfg) (bv : BV) (overOne : Bool) : DAIndex :=
  let s := buildLoop c bv overOne 0 ⟨#[], #[], #[], #[], 0⟩ bv.words.size
  let s := if s.cur.size ≠ 0 then flush s else s
  ⟨s.blockInv, s.subInv, s.overflow, s.numPos, overOne⟩

/-- the popcount scan of `select` -/
def scan (c : Cfg) (x : DAIndex) (bv : BV) : Nat → Nat → Nat → Nat → R (Nat × Nat × Nat)
  | wi, word, rem, 0 => .ok (wi, word, rem)
  | wi, word, rem, fuel+1 =>
    let pc := popcountN c word
    if rem < pc then .ok (wi, word, rem)
    else (getWord x.overOne bv (wi + 1)).bind fun w => scan c x bv (wi + 1) w (rem - pc) fuel

/-- `DArrayIndex::select` -/
def select (c : Cfg) (x : DAIndex) (bv : BV) (k : Nat) : R (Option Nat) :=
  if x.numPos ≤ k then .ok none
  else match x.blockInv[k / Gen.DA_BLOCK_LEN]? with
    | none => .error .oob
    | some bp =>
      if bp < 0 then
        (idx x.overflow ((-bp - 1).toNat + k % Gen.DA_BLOCK_LEN)).bind fun p => .ok (some p)
      else
        (idx x.subInv (k / Gen.DA_SUBBLOCK_LEN)).bind fun so =>
        let start := bp.toNat + so
        if k % Gen.DA_SUBBLOCK_LEN = 0 then .ok (some start)
        else
          (getWord x.overOne bv (start / 64)).bind fun w0 =>
          (scan c x bv (start / 64) (w0 &&& ((BV.MAXW <<< (start % 64)) % 2^64)) (k % Gen.DA_SUBBLOCK_LEN)
              (bv.words.size + 1)).bind fun r =>
          match selectInWordN c r.2.1 r.2.2 with
          | none => .error .unwrapNone
          | some p => .ok (some (64 * r.1 + p))
end DAIndex

structure DA where
  bv : BV
  s1 : DAIndex
  s0 : Option DAIndex
  r9 : Option R9Index
deriving DecidableEq, Repr, Inhabited

namespace DA
def fromBV (c : Cfg) (bv : BV) : DA := ⟨bv, DAIndex.build c bv true, none, none⟩
def enableRank (c : Cfg) (x : DA) : DA := { x with r9 := some (R9Index.buildRank c x.bv) }
def enableSelect0 (c : Cfg) (x : DA) : DA := { x with s0 := some (DAIndex.build c x.bv false) }
def build (c : Cfg) (bv : BV) (rank sel0 : Bool) : DA :=
  let x := fromBV c bv
  let x := if rank then x.enableRank c else x
  if sel0 then x.enableSelect0 c else x
def access (x : DA) (pos : Nat) : R (Option Bool) := x.bv.getBit pos
def rank1 (c : Cfg) (x : DA) (pos : Nat) : R (Option Nat) :=
  match x.r9 with | none => .error .expect | some r => r.rank1 c x.bv pos
def rank0 (c : Cfg) (x : DA) (pos : Nat) : R (Option Nat) :=
  match x.r9 with | none => .error .expect | some r => r.rank0 c x.bv pos
def select1 (c : Cfg) (x : DA) (k : Nat) : R (Option Nat) := x.s1.select c x.bv k
def select0 (c : Cfg) (x : DA) (k : Nat) : R (Option Nat) :=
  match x.s0 with | none => .error .expect | some s => s.select c x.bv k
def numBits (x : DA) : Nat := x.bv.len
def numOnes (x : DA) : Nat := x.s1.numPos
def numZeros (c : Cfg) (x : DA) : R Nat := csub c x.numBits x.numOnes
end DA
end Sucds
