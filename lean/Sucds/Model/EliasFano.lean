import Sucds.Model.BitVector
/-! Model of `EliasFanoBuilder` (`src/mii_sequences/elias_fano.rs`) and of `EliasFano::select` given the
    select1 answers of the high-bit index. -/
namespace Sucds

structure EFB where
  high : BV
  low : BV
  univ : Nat
  numVals : Nat
  pos : Nat
  last : Nat
  lowLen : Nat
deriving Repr, Inhabited

namespace EFB
/-- `floor(lg x)` for `x > 0` (what `broadword::msb` returns — C14), `none` for 0 -/
def msbN (x : Nat) : Option Nat := if x = 0 then none else some (Nat.log2 x)

/-- `EliasFanoBuilder::new`: `Err` ↦ `none` -/
def new (univ numVals : Nat) : Option EFB :=
  if numVals = 0 then none
  else
    let lowLen := (msbN (univ / numVals)).getD 0
    some ⟨BV.fromBit false ((numVals + 1) + (univ >>> lowLen) + 1), BV.new, univ, numVals, 0, 0, lowLen⟩

/-- the low part of `push`: `low_bits.push_bits(val & low_mask, low_len)` when `low_len != 0`; `none` = `Err` -/
def pushLow (b : EFB) (val : Nat) : Option BV :=
  if b.lowLen ≠ 0 then
    match b.low.pushBits (val &&& ((1 <<< b.lowLen) - 1)) b.lowLen with
    | (l, true) => some l
    | (_, false) => none
  else some b.low

/-- `push`: `Err` ↦ `(b, false)`; the two `unwrap`s are panics if they fail -/
def push (b : EFB) (val : Nat) : R (EFB × Bool) :=
  if val < b.last then .ok (b, false)
  else if b.univ ≤ val then .ok (b, false)
  else if b.numVals ≤ b.pos then .ok (b, false)
  else
    match pushLow b val with
    | none => .error .unwrapNone
    | some l =>
      (b.high.setBit ((val >>> b.lowLen) + b.pos) true).bind fun r =>
        match r with
        | (_, false) => .error .unwrapNone
        | (h, true) => .ok (⟨h, l, b.univ, b.numVals, b.pos + 1, val, b.lowLen⟩, true)

/-- `EliasFano::select` given what `high_bits.select1(k)` answered -/
def selectWith (b : EFB) (sel1 : Option Nat) (k : Nat) : R (Option Nat) :=
  if b.pos ≤ k then .ok none
  else match sel1 with
    | none => .error .unwrapNone
    | some hp =>
      (b.low.getBits (k * b.lowLen) b.lowLen).bind fun lo => match lo with
        | none => .error .unwrapNone
        | some lv => .ok (some (((hp - k) <<< b.lowLen) ||| lv))
end EFB
end Sucds
