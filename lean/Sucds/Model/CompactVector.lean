import Sucds.Model.BitVector
/-! Model of `src/int_vectors/compact_vector.rs`. `get_int` is modelled after repair F6 (index checked
    before the bit offset is computed); `getInt0` is the pinned-tree version (defects D6, D7). -/
namespace Sucds

structure CV where
  chunks : BV
  len : Nat
  width : Nat
deriving DecidableEq, Repr, Inhabited

namespace CV
/-- `Default` -/
def default : CV := ⟨BV.new, 0, 0⟩
/-- `new` / `with_capacity` (capacity is not modelled): `Err` ↦ `none` -/
def new (width : Nat) : Option CV := if 1 ≤ width ∧ width ≤ 64 then some ⟨BV.new, 0, width⟩ else none
/-- the fit test `width != 64 && val >> width != 0` -/
def misfit (width val : Nat) : Bool := width != 64 && (val >>> width != 0)

/-- `get_int` as in the pinned tree -/
def getInt0 (c : Cfg) (v : CV) (pos : Nat) : R (Option Nat) :=
  (cmul c pos v.width).bind fun p => v.chunks.getBits0 c p v.width
/-- `get_int` after repair F6 -/
def getInt (v : CV) (pos : Nat) : R (Option Nat) :=
  if v.len ≤ pos then .ok none else v.chunks.getBits (pos * v.width) v.width

/-- `push_int`: `Err` ↦ `(v, false)`; the `unwrap` on `push_bits` is a panic if it fails -/
def pushInt (v : CV) (val : Nat) : R (CV × Bool) :=
  if misfit v.width val then .ok (v, false)
  else match v.chunks.pushBits val v.width with
    | (_, false) => .error .unwrapNone
    | (ch, true) => .ok (⟨ch, v.len + 1, v.width⟩, true)

/-- `set_int` -/
def setInt (v : CV) (pos val : Nat) : R (CV × Bool) :=
  if v.len ≤ pos then .ok (v, false)
  else if misfit v.width val then .ok (v, false)
  else (v.chunks.setBits (pos * v.width) val v.width).bind fun r =>
    match r with
    | (_, false) => .error .unwrapNone
    | (ch, true) => .ok (⟨ch, v.len, v.width⟩, true)

/-- `extend`: stops at the first misfit, keeping what was pushed -/
def extend (v : CV) : List Nat → R (CV × Bool)
  | [] => .ok (v, true)
  | x :: xs => (v.pushInt x).bind fun r => if r.2 then extend r.1 xs else .ok (r.1, false)

/-- `CompactVector::from_int(val, len, width)`: `none` = `Err`; the two `unwrap`s are panics if they fail -/
def fromInt (val len width : Nat) : R (Option CV) :=
  if ¬ (1 ≤ width ∧ width ≤ 64) then .ok none
  else if decide (width < 64) && (val >>> width != 0) then .ok none
  else match new width with
    | none => .error .unwrapNone                                  -- `with_capacity(len, width).unwrap()`
    | some v0 => (v0.extend (List.replicate len val)).bind fun r =>
        if r.2 then .ok (some r.1) else .error .unwrapNone        -- `push_int(val).unwrap()`

/-- `xs` is what the vector stores -/
structure Rep (v : CV) (xs : List Nat) : Prop where
  len : v.len = xs.length
  inv : v.chunks.Inv
  clen : v.chunks.len = v.len * v.width
  wle : v.width ≤ 64
  vals : ∀ i, i < v.len → ∀ j, (xs[i]?.getD 0).testBit j = (decide (j < v.width) && v.chunks.bitAt (i * v.width + j))
end CV
end Sucds
