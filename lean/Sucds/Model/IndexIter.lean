/-! Model of the six index-based iterators (`Iter` of `BitVector`, `CompactVector`, `DacsByte`, `DacsOpt`,
    `PrefixSummedEliasFano`, `WaveletMatrix`): `next` = `access(pos)` then `pos += 1` while `pos < len`;
    `size_hint` after repair F2 = `(len - pos, Some(len - pos))`. -/
namespace Sucds.IndexIter

structure It where
  pos : Nat

/-- `next()` over a container of length `len` whose `access(i)` is `acc i` -/
def next {α} (len : Nat) (acc : Nat → Option α) (it : It) : Option α × It :=
  if it.pos < len then (acc it.pos, ⟨it.pos + 1⟩) else (none, it)
/-- `size_hint()` after repair F2 -/
def sizeHint (len : Nat) (it : It) : Nat × Option Nat := (len - it.pos, some (len - it.pos))
/-- `size_hint()` in the pinned tree (D2) -/
def sizeHint0 (len : Nat) (it : It) : Nat × Option Nat := (len, some len)

/-- answers of `n` successive `next()` calls together with the size hint seen before each call -/
def runN {α} (len : Nat) (acc : Nat → Option α) : It → Nat → List (Option α × (Nat × Option Nat))
  | _, 0 => []
  | it, n+1 => ((next len acc it).1, sizeHint len it) :: runN len acc (next len acc it).2 n

end Sucds.IndexIter
