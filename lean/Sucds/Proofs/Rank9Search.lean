import Sucds.Proofs.Rank9Dir
import Sucds.Model.Rank9Select
set_option linter.unusedSimpArgs false
set_option linter.unusedVariables false
namespace Sucds
open Spec
namespace R9Index

/-- The binary search, for any rank function `rk` that returns `F t` on the probed midpoints: started
    on a window `a < b` with `F a ≤ k < F b` and enough fuel it returns `blk ∈ [a, b)` with
    `F blk ≤ k < F (blk + 1)`. Only midpoints strictly inside the window are read. -/
theorem searchBlockG_ok (rk : Nat → R Nat) (F : Nat → Nat) (k : Nat) :
    ∀ (fuel a b : Nat), a < b → (∀ t, a < t → t < b → rk t = .ok (F t)) → b - a ≤ fuel →
      F a ≤ k → k < F b →
      ∃ blk, searchBlock rk k a b fuel = .ok blk ∧ a ≤ blk ∧ blk < b ∧ F blk ≤ k ∧ k < F (blk + 1) := by
  intro fuel
  induction fuel with
  | zero => intro a b hab _ hf; omega
  | succ fuel ih =>
    intro a b hab hrk hf hlo hhi
    unfold searchBlock
    by_cases hgap : b - a > 1
    · rw [if_pos hgap]
      have hm1 : a < a + (b - a) / 2 := by omega
      have hm2 : a + (b - a) / 2 < b := by omega
      rw [hrk _ hm1 hm2]
      simp only [Except.bind]
      by_cases hv : F (a + (b - a) / 2) ≤ k
      · rw [if_pos hv]
        obtain ⟨blk, e, h1, h2, h3, h4⟩ := ih (a + (b - a) / 2) b hm2
          (fun t h1 h2 => hrk t (by omega) h2) (by omega) hv hhi
        exact ⟨blk, e, by omega, h2, h3, h4⟩
      · rw [if_neg hv]
        obtain ⟨blk, e, h1, h2, h3, h4⟩ := ih a (a + (b - a) / 2) hm1
          (fun t h1 h2 => hrk t h1 (by omega)) (by omega) hlo (by omega)
        exact ⟨blk, e, h1, by omega, h3, h4⟩
    · rw [if_neg hgap]
      have : b = a + 1 := by omega
      subst this
      exact ⟨a, rfl, Nat.le_refl _, by omega, hlo, hhi⟩

/-- the search over one-counts: window end `num_blocks + 1` allowed (last hint entry) -/
theorem searchBlock_ok (c : Cfg) (bv : BV) (h : bv.Inv) (k : Nat)
    (fuel a b : Nat) (hab : a < b) (hb : b ≤ (buildRank c bv).numBlocks + 1) (hf : b - a ≤ fuel)
    (hlo : prefixPop c bv.words (8 * a) ≤ k) (hhi : k < prefixPop c bv.words (8 * b)) :
    ∃ blk, searchBlock (buildRank c bv).blockRank k a b fuel = .ok blk ∧ a ≤ blk ∧ blk < b ∧
      prefixPop c bv.words (8 * blk) ≤ k ∧ k < prefixPop c bv.words (8 * (blk + 1)) :=
  searchBlockG_ok _ (fun t => prefixPop c bv.words (8 * t)) k fuel a b hab
    (fun t _ h2 => blockRank_ok c bv h t (by omega)) hf hlo hhi

end R9Index
end Sucds
