import Sucds.Proofs.SpaceWavelet
import Sucds.Proofs.DacsAccess
/-! # C19, part 4d — DACs: `8·size_in_bytes ≤ Σ_levels (1.32·(chunk + flag bits on the level) + 2048) + 128`.

A level stores its chunks (`Vec<u8>` for `DacsByte`, a `CompactVector` for `DacsOpt`) and, except the last
one, a `Rank9Sel` (no hint tables) over one flag bit per chunk. The chunks cost their payload plus a
constant, the flags at most `1.25·bits + 600`. -/
set_option linter.unusedSimpArgs false
set_option linter.unusedVariables false
namespace Sucds
namespace Space
open Codec Dac

theorem sum_le_sum {α : Type} (f g : α → Nat) : ∀ (l : List α), (∀ x ∈ l, f x ≤ g x) →
    (l.map f).sum ≤ (l.map g).sum := by
  intro l
  induction l with
  | nil => intro _; simp
  | cons a t ih =>
    intro h
    have h1 := h a (by simp)
    have h2 := ih (fun x hx => h x (by simp [hx]))
    simp only [List.map_cons, List.sum_cons]
    omega

theorem sum_affine {α : Type} (f : α → Nat) (a b : Nat) (l : List α) :
    (l.map fun x => a * f x + b).sum = a * (l.map f).sum + b * l.length := by
  induction l with
  | nil => simp
  | cons x t ih =>
    simp only [List.map_cons, List.sum_cons, List.length_cons, ih, Nat.mul_add, Nat.mul_succ]; omega

theorem sum_scale {α : Type} (f : α → Nat) (a : Nat) (l : List α) :
    (l.map fun x => a * f x).sum = a * (l.map f).sum := by
  have := sum_affine f a 0 l
  simpa using this

/-- **a `Rank9Sel` without hint tables** (the flag vectors of the DACs): `B ≤ 1.32·u + 600` -/
theorem rank9_new_bound (c : Cfg) (bv : BV) (h : bv.Inv) :
    100 * (8 * R9.codec.size (R9.new c bv)) ≤ 132 * bv.len + 60000 := by
  rw [R9.codec_size, BV.codec_size]
  show 100 * (8 * (16 + 8 * bv.words.size + R9Index.codec.size (R9Index.buildRank c bv))) ≤ _
  have h1 := rank_index_bits c bv h
  have h2 := numBlocks_le c bv h
  have h3 := h.size
  omega

/-- the flag structures of a DACs: `Rank9Sel::new` over valid bit vectors -/
def FlagsOK (c : Cfg) (flags : Array R9) : Prop := ∀ x ∈ flags.toList, ∃ bv, bv.Inv ∧ x = R9.new c bv

/-- flag bits stored -/
def flagBits (flags : Array R9) : Nat := (flags.toList.map fun x => x.bv.len).sum

theorem flags_cost (c : Cfg) (flags : Array R9) (hf : FlagsOK c flags) :
    800 * (flags.toList.map R9.codec.size).sum ≤ 132 * flagBits flags + 60000 * flags.size := by
  have := sum_le_sum (fun x => 800 * R9.codec.size x) (fun x => 132 * x.bv.len + 60000) flags.toList (by
    intro x hx
    obtain ⟨bv, hi, rfl⟩ := hf x hx
    have := rank9_new_bound c bv hi
    show 800 * R9.codec.size (R9.new c bv) ≤ 132 * bv.len + 60000
    omega)
  rw [sum_scale, sum_affine, Array.length_toList] at this
  exact this

/-! ### `DacsByte` -/

/-- `DacsByte::size_in_bytes` -/
theorem DacB.codec_size (d : DacB) :
    DacB.codec.size d = 16 + (d.data.toList.map fun a => 8 + a.size).sum + (d.flags.toList.map R9.codec.size).sum := by
  show (arr (arr u8)).size d.data + (arr R9.codec).size d.flags = _
  rw [arr_size, arr_size]
  have : (d.data.toList.map (arr u8).size) = d.data.toList.map fun a => 8 + a.size := by
    apply List.map_congr_left
    intro a _
    rw [arr_u8_size]; omega
  rw [this]; omega

/-- chunk bits stored by a `DacsByte` (8 per chunk) -/
def DacB.chunkBits (d : DacB) : Nat := (d.data.toList.map fun a => 8 * a.size).sum

/-- **DacsByte**, any structure whose flag vectors are `Rank9Sel::new` of valid vectors -/
theorem dacsbyte_bits (c : Cfg) (d : DacB) (hf : FlagsOK c d.flags) :
    100 * (8 * DacB.codec.size d) ≤
      132 * (DacB.chunkBits d + flagBits d.flags) + 6400 * d.data.size + 60000 * d.flags.size + 12800 := by
  have h1 := flags_cost c d.flags hf
  have h2 : (d.data.toList.map fun a => 8 + a.size).sum * 8 = DacB.chunkBits d + 64 * d.data.size := by
    unfold DacB.chunkBits
    rw [← Array.length_toList]
    generalize d.data.toList = L
    induction L with
    | nil => rfl
    | cons a t ih => simp only [List.map_cons, List.sum_cons, List.length_cons]; omega
  rw [DacB.codec_size]
  omega

/-- what `DacsByte::from_slice` builds: one flag vector less than levels, all valid -/
theorem DacB.fromSlice_flags (c : Cfg) (vals : List Nat) (hv : ∀ v ∈ vals, v < 2^64) :
    FlagsOK c (DacB.fromSlice c vals).flags ∧
    (DacB.fromSlice c vals).flags.size + 1 = (DacB.fromSlice c vals).data.size ∧
    (DacB.fromSlice c vals).data.size = Sucds.DacB.levels vals := by
  cases he : vals.isEmpty with
  | true =>
    have : vals = [] := by simpa using he
    subst this
    refine ⟨?_, rfl, rfl⟩
    intro x hx
    exact absurd hx (by simp [DacB.fromSlice, DacB.default])
  | false =>
    have hmax := foldl_max_lt (2^64) vals 0 (by decide) hv
    have hG : Gen.DACB_LEVEL_WIDTH = 8 := rfl
    have hn : Sucds.DacB.levels vals = (neededBits c (vals.foldl max 0) + Gen.DACB_LEVEL_WIDTH - 1) / Gen.DACB_LEVEL_WIDTH := by
      unfold Sucds.DacB.levels
      rw [he, neededBits_eq c _ hmax, hG]
      simp only [Bool.false_eq_true, if_false]
      omega
    rw [Sucds.DacB.fromSlice_unfold c vals he (Sucds.DacB.levels vals) hn]
    by_cases h1 : Sucds.DacB.levels vals = 1
    · rw [if_pos h1]
      refine ⟨?_, rfl, by rw [h1]; rfl⟩
      intro x hx
      simp at hx
    · rw [if_neg h1, hG]
      have hne : List.replicate (Sucds.DacB.levels vals) 8 ≠ [] := by
        have := (Sucds.DacB.levels_bounds vals hv).1
        intro h
        have := congrArg List.length h
        simp at this; omega
      have hd := Sucds.DacB.DRep.init (List.replicate (Sucds.DacB.levels vals) 8)
      have hf := FRep.init (List.replicate (Sucds.DacB.levels vals) 8)
      rw [List.length_replicate] at hd hf
      have := Sucds.DacB.foldl_spec (List.replicate (Sucds.DacB.levels vals) 8) hne vals [] _ _ hd hf
      rw [List.nil_append] at this
      obtain ⟨hd', hf'⟩ := this
      have hds := hd'.dsize
      have hfs := hf'.fsize
      rw [List.length_replicate] at hds hfs
      have hl1 := (Sucds.DacB.levels_bounds vals hv).1
      refine ⟨?_, by simp only [Array.size_map]; omega, hds⟩
      intro x hx
      simp only [Array.toList_map, List.mem_map] at hx
      obtain ⟨bv, hbv, rfl⟩ := hx
      obtain ⟨i, hi, hget⟩ := List.mem_iff_getElem.mp hbv
      rw [Array.length_toList] at hi
      obtain ⟨bv', h1', h2', _⟩ := hf'.flags i (by rw [List.length_replicate]; omega)
      have : bv' = bv := by
        rw [Array.getElem?_eq_getElem hi] at h1'
        simp only [Option.some.injEq] at h1'
        rw [← h1', ← hget]; simp
      subst this
      exact ⟨bv', h2', rfl⟩

/-- **DacsByte** (C19): `from_slice` of 64-bit values gives `levels` levels and
    `100·(8·size_in_bytes) ≤ 132·(chunk bits + flag bits) + 204800·levels + 12800`,
    i.e. `B ≤ Σ_levels (1.32·(bits stored on the level) + 2048) + 128`. -/
theorem dacsbyte_bound (c : Cfg) (vals : List Nat) (hv : ∀ v ∈ vals, v < 2^64) :
    100 * (8 * DacB.codec.size (DacB.fromSlice c vals)) ≤
      132 * (DacB.chunkBits (DacB.fromSlice c vals) + flagBits (DacB.fromSlice c vals).flags)
        + 204800 * (DacB.fromSlice c vals).numLevels + 12800 := by
  obtain ⟨hf, hs, _⟩ := DacB.fromSlice_flags c vals hv
  have := dacsbyte_bits c _ hf
  unfold DacB.numLevels
  omega

/-! ### `DacsOpt` -/

/-- `DacsOpt::size_in_bytes` -/
theorem DacO.codec_size (d : DacO) :
    DacO.codec.size d = 16 + (d.data.toList.map CV.codec.size).sum + (d.flags.toList.map R9.codec.size).sum := by
  show (arr CV.codec).size d.data + (arr R9.codec).size d.flags = _
  rw [arr_size, arr_size]; omega

/-- chunk bits stored by a `DacsOpt` (`width` per chunk on each level) -/
def DacO.chunkBits (d : DacO) : Nat := (d.data.toList.map fun v => v.len * v.width).sum

/-- the levels of a `DacsOpt` are well-formed compact vectors -/
def DataOK (data : Array CV) : Prop := ∀ v ∈ data.toList, ∃ xs, CV.Rep v xs

/-- **DacsOpt**, any structure with well-formed levels and flag vectors -/
theorem dacsopt_bits (c : Cfg) (d : DacO) (hd : DataOK d.data) (hf : FlagsOK c d.flags) :
    100 * (8 * DacO.codec.size d) ≤
      132 * (DacO.chunkBits d + flagBits d.flags) + 32000 * d.data.size + 60000 * d.flags.size + 12800 := by
  have h1 := flags_cost c d.flags hf
  have h2 := sum_le_sum (fun v => 8 * CV.codec.size v) (fun v => 1 * (v.len * v.width) + 320) d.data.toList (by
    intro v hv
    obtain ⟨xs, hr⟩ := hd v hv
    have := compactvector_bits v xs hr
    show 8 * CV.codec.size v ≤ 1 * (v.len * v.width) + 320
    generalize v.len * v.width = p at this ⊢
    omega)
  rw [sum_scale, sum_affine, Array.length_toList] at h2
  rw [DacO.codec_size]
  unfold DacO.chunkBits
  omega

/-- **DacsOpt::build** (C19): for every split `ws` of at most 64 bits into positive widths, `build` succeeds and
    `100·(8·size_in_bytes) ≤ 132·(chunk bits + flag bits) + 204800·levels + 12800`. -/
theorem dacsopt_build_bound (c : Cfg) (vals ws : List Nat) (hne : ws ≠ []) (hpos : ∀ w ∈ ws, 1 ≤ w)
    (hsum : ws.sum ≤ 64) :
    ∃ d, DacO.build c vals ws = .ok d ∧ d.numLevels = ws.length ∧
      100 * (8 * DacO.codec.size d) ≤
        132 * (DacO.chunkBits d + flagBits d.flags) + 204800 * d.numLevels + 12800 := by
  have hrange : ∀ w ∈ ws, 1 ≤ w ∧ w ≤ 64 := fun w hw => ⟨hpos w hw, Nat.le_trans (Sucds.DacO.mem_le_sum ws w hw) hsum⟩
  obtain ⟨r, hr, hd, hf⟩ := Sucds.DacO.pushAll_spec ws hne vals [] _ _ (Sucds.DacO.DRep.init ws hrange) (FRep.init ws)
  have h0 : 0 < ws.length := List.length_pos_iff.mpr hne
  have hdata : DataOK r.1 := by
    intro v hv
    obtain ⟨i, hi, hget⟩ := List.mem_iff_getElem.mp hv
    rw [Array.length_toList] at hi
    obtain ⟨cv, g1, _, g3⟩ := hd.data i (by rw [← hd.dsize]; exact hi)
    have : cv = v := by
      rw [Array.getElem?_eq_getElem hi] at g1
      simp only [Option.some.injEq] at g1
      rw [← g1, ← hget]; simp
    subst this
    exact ⟨_, g3⟩
  have hflags : FlagsOK c (r.2.map (R9.new c)) := by
    intro x hx
    simp only [Array.toList_map, List.mem_map] at hx
    obtain ⟨bv, hbv, rfl⟩ := hx
    obtain ⟨i, hi, hget⟩ := List.mem_iff_getElem.mp hbv
    rw [Array.length_toList] at hi
    obtain ⟨bv', h1', h2', _⟩ := hf.flags i (by have := hf.fsize; omega)
    have : bv' = bv := by
      rw [Array.getElem?_eq_getElem hi] at h1'
      simp only [Option.some.injEq] at h1'
      rw [← h1', ← hget]; simp
    subst this
    exact ⟨bv', h2', rfl⟩
  refine ⟨⟨r.1, r.2.map (R9.new c)⟩, ?_, hd.dsize, ?_⟩
  · unfold DacO.build
    rw [Sucds.DacO.mapM_new ws hrange]
    simp only []
    rw [hr]; rfl
  · have := dacsopt_bits c ⟨r.1, r.2.map (R9.new c)⟩ hdata hflags
    have hfs := hf.fsize
    have hds := hd.dsize
    unfold DacO.numLevels
    simp only [Array.size_map] at this ⊢
    omega

end Space
end Sucds
