import Sucds.Proofs.WaveletBase
/-! Wavelet matrix, part 2: `access`. -/
set_option linter.unusedSimpArgs false
set_option linter.unusedVariables false
namespace Sucds.Wav
open Sucds Sucds.Spec WMr L

theorem unwrapO_some {α} (v : α) : unwrapO (.ok (some v) : R (Option α)) = .ok v := rfl

/-! ### where an element goes under the stable partition -/

theorem filter_length_nbit (sh : Nat) (S : List Nat) : (S.filter (nbitOf sh)).length = S.countP (nbitOf sh) := by
  rw [List.countP_eq_length_filter]

theorem part_getElem_zero (sh : Nat) (S : List Nat) (p : Nat) (hp : p < S.length) (hb : bitOf sh S[p] = false) :
    (part sh S)[(S.take p).countP (nbitOf sh)]? = some S[p] := by
  have hf : nbitOf sh S[p] = true := by simp only [nbitOf, bitOf] at hb ⊢; simp [hb]
  obtain ⟨h, e⟩ := filter_getElem_count (nbitOf sh) S p hp hf
  simp only [part]
  rw [List.getElem?_append_left h, List.getElem?_eq_getElem h, e]

theorem part_getElem_one (sh : Nat) (S : List Nat) (p : Nat) (hp : p < S.length) (hb : bitOf sh S[p] = true) :
    (part sh S)[S.countP (nbitOf sh) + (S.take p).countP (bitOf sh)]? = some S[p] := by
  obtain ⟨h, e⟩ := filter_getElem_count (bitOf sh) S p hp hb
  simp only [part]
  rw [List.getElem?_append_right (by rw [filter_length_nbit]; omega), filter_length_nbit,
    Nat.add_sub_cancel_left, List.getElem?_eq_getElem h, e]

theorem shl1 (v : Nat) (h : 2 * v < 2 ^ 64) : (v <<< 1) % 2 ^ 64 = 2 * v := by
  rw [Nat.shiftLeft_eq, Nat.mod_eq_of_lt (by omega)]; omega
theorem shl1_or (v : Nat) (h : 2 * v < 2 ^ 64) : ((v <<< 1) % 2 ^ 64 ||| 1) = 2 * v + 1 := by
  rw [Nat.mod_eq_of_lt (by rw [Nat.shiftLeft_eq]; omega),
    ← Nat.shiftLeft_add_eq_or_of_lt (by decide : 1 < 2 ^ 1), Nat.shiftLeft_eq]; omega

/-- `val < 2^(64-(m+1))` gives room for one more bit -/
theorem room (val m : Nat) (hm : m + 1 ≤ 64) (hv : val < 2 ^ (64 - (m + 1))) :
    2 * val + 1 < 2 ^ (64 - m) ∧ 2 * val + 1 < 2 ^ 64 := by
  have e : 64 - m = (64 - (m + 1)) + 1 := by omega
  have h1 : 2 ^ (64 - m) = 2 * 2 ^ (64 - (m + 1)) := by rw [e, Nat.pow_succ]; omega
  have h2 : 2 ^ (64 - m) ≤ 2 ^ 64 := Nat.pow_le_pow_right (by decide) (by omega)
  omega

theorem arith1 (v P r : Nat) : (2 * v + 1) * P + r = v * (P * 2) + (P + r) := by
  rw [Nat.add_mul, Nat.one_mul, Nat.mul_comm 2 v, Nat.mul_assoc, Nat.mul_comm 2 P]; omega
theorem arith0 (v P r : Nat) : 2 * v * P + r = v * (P * 2) + (0 + r) := by
  rw [Nat.mul_comm 2 v, Nat.mul_assoc, Nat.mul_comm 2 P]; omega

theorem accessLoop_ok (c : Cfg) : ∀ (ls : List Lay) (S : List Nat) (pos val : Nat),
    Chain c ls S → S.length < 2 ^ 64 → (hp : pos < S.length) → ls.length ≤ 64 → val < 2 ^ (64 - ls.length) →
    WM.accessLoop c ls pos val = .ok (val * 2 ^ ls.length + S[pos] % 2 ^ ls.length)
  | [], S, pos, val, _, _, hp, _, _ => by simp [WM.accessLoop, Nat.mod_one]
  | l :: ls, S, pos, val, hc, hn, hp, hm, hv => by
    have hd := hc.head
    simp only [List.length_cons] at hm hv ⊢
    obtain ⟨hr1, hr2⟩ := room val ls.length hm hv
    have hlen : (part ls.length S).length = S.length := part_length _ _
    rw [WM.accessLoop, hd.access, List.getElem?_eq_getElem hp, Option.map_some, unwrapO_some, bind_ok]
    have hmod := mod_succ_bit S[pos] ls.length
    by_cases hb : bitOf ls.length S[pos] = true
    · have hb' : S[pos].testBit ls.length = true := hb
      have hle : (S.take pos).countP (bitOf ls.length) ≤ S.countP (bitOf ls.length) := count_le_take _ _ _
      have hsp := countP_split ls.length S
      have hg := part_getElem_one ls.length S pos hp hb
      have hlt : S.countP (nbitOf ls.length) + (S.take pos).countP (bitOf ls.length) < (part ls.length S).length := by
        by_cases h : S.countP (nbitOf ls.length) + (S.take pos).countP (bitOf ls.length) < (part ls.length S).length
        · exact h
        · rw [List.getElem?_eq_none (by omega)] at hg; cases hg
      rw [List.getElem?_eq_getElem hlt] at hg
      simp only [hb, if_true]
      rw [hd.rank1, if_pos (by omega), unwrapO_some, bind_ok, hd.numZeros, bind_ok,
        cadd_ok c (by omega), bind_ok, shl1_or val (by omega)]
      rw [Nat.add_comm ((S.take pos).countP (bitOf ls.length))]
      rw [accessLoop_ok c ls (part ls.length S) _ (2 * val + 1) hc.tail (by omega) hlt (by omega) hr1]
      rw [Option.some.inj hg, hmod, hb', if_pos rfl, Nat.pow_succ]
      congr 1
      exact arith1 _ _ _
    · have hb0 : bitOf ls.length S[pos] = false := by simpa using hb
      have hb' : S[pos].testBit ls.length = false := hb0
      have hg := part_getElem_zero ls.length S pos hp hb0
      have hlt : (S.take pos).countP (nbitOf ls.length) < (part ls.length S).length := by
        by_cases h : (S.take pos).countP (nbitOf ls.length) < (part ls.length S).length
        · exact h
        · rw [List.getElem?_eq_none (by omega)] at hg; cases hg
      rw [List.getElem?_eq_getElem hlt] at hg
      simp only [hb0, Bool.false_eq_true, if_false]
      rw [hd.rank0, if_pos (by omega), unwrapO_some, bind_ok, shl1 val (by omega)]
      rw [accessLoop_ok c ls (part ls.length S) _ (2 * val) hc.tail (by omega) hlt (by omega) (by omega)]
      rw [Option.some.inj hg, hmod, hb', if_neg (by simp), Nat.pow_succ]
      congr 1
      exact arith0 _ _ _

/-- **`access`**: the stored value, `None` beyond the end; no panic -/
theorem access_ok (c : Cfg) (wm : WM) (s : List Nat) (h : Built c wm s) (i : Nat) :
    wm.access c i = .ok s[i]? := by
  unfold WM.access
  rw [h.len]
  by_cases hi : s.length ≤ i
  · simp [hi, List.getElem?_eq_none hi]
  · have hi' : i < s.length := by omega
    simp only [hi, if_false]
    rw [accessLoop_ok c _ s i 0 h.chain h.nlt hi' h.width_le (Nat.pow_pos (by decide)), bind_ok,
      List.getElem?_eq_getElem hi', Nat.zero_mul, Nat.zero_add,
      Nat.mod_eq_of_lt (h.elem_lt _ (List.getElem_mem hi'))]

end Sucds.Wav
