import Sucds.Proofs.GenWaveletPipeline
import Sucds.Proofs.ConfigBuild
/-! # Helpers for `Props/C05Gen.lean`, `C06Gen.lean`: the generated `WaveletMatrix::<B>::new` builds the same value in
    every configuration (from `wm_*_new_eq`, the model's `Config.WM_new_cfg`, and injectivity of the abstraction) -/
set_option linter.unusedVariables false
namespace Sucds.GenEq
open Sucds Sucds.Spec

theorem absR9_inj (x y : GenFn.WaveletMatrix_Rank9Sel) (h : absR9 x = absR9 y) : x = y := by
  obtain ⟨lx, ax⟩ := x; obtain ⟨ly, ay⟩ := y
  simp only [absR9, WM.mk.injEq] at h
  obtain ⟨h1, h2⟩ := h
  rw [Array.map_inj_right (fun a b e => by injection e)] at h1
  subst h1; subst h2; rfl

theorem absDA_inj (x y : GenFn.WaveletMatrix_DArray) (h : absDA x = absDA y) : x = y := by
  obtain ⟨lx, ax⟩ := x; obtain ⟨ly, ay⟩ := y
  simp only [absDA, WM.mk.injEq] at h
  obtain ⟨h1, h2⟩ := h
  rw [Array.map_inj_right (fun a b e => by injection e)] at h1
  subst h1; subst h2; rfl

theorem absBV_inj (x y : GenFn.WaveletMatrix_BitVector) (h : absBV x = absBV y) : x = y := by
  obtain ⟨lx, ax⟩ := x; obtain ⟨ly, ay⟩ := y
  simp only [absBV, WM.mk.injEq] at h
  obtain ⟨h1, h2⟩ := h
  rw [Array.map_inj_right (fun a b e => by injection e)] at h1
  subst h1; subst h2; rfl

section
variable (c c' : Cfg) (cv : CV) (s : List Nat) (h : CV.Rep cv s)
  (hne : s ≠ []) (hmax : s.foldl max 0 + 1 < 2^64) (hn : s.length < 2^63)
  (hsz : cv.len * cv.width < 2^64) (hnW : s.length * SpecX.bitlen (s.foldl max 0 + 1) < 2^64)
include h hne hmax hn hsz hnW

theorem wm_new_cfg : GenFn.WaveletMatrix_Rank9Sel.new c cv = GenFn.WaveletMatrix_Rank9Sel.new c' cv := by
  obtain ⟨g, h1, m1, _⟩ := wm_new_eq c cv s h hne hmax hn hsz hnW
  obtain ⟨g', h2, m2, _⟩ := wm_new_eq c' cv s h hne hmax hn hsz hnW
  rw [Config.WM_new_cfg c c' .r9 s hmax, m2] at m1
  injection m1 with m1; injection m1 with m1
  rw [h1, h2, absR9_inj g' g m1]

theorem wm_da_new_cfg : GenFn.WaveletMatrix_DArray.new c cv = GenFn.WaveletMatrix_DArray.new c' cv := by
  obtain ⟨g, h1, m1, _⟩ := wm_da_new_eq c cv s h hne hmax hn hsz hnW
  obtain ⟨g', h2, m2, _⟩ := wm_da_new_eq c' cv s h hne hmax hn hsz hnW
  rw [Config.WM_new_cfg c c' .da s hmax, m2] at m1
  injection m1 with m1; injection m1 with m1
  rw [h1, h2, absDA_inj g' g m1]

theorem wm_bv_new_cfg : GenFn.WaveletMatrix_BitVector.new c cv = GenFn.WaveletMatrix_BitVector.new c' cv := by
  obtain ⟨g, h1, m1, _⟩ := wm_bv_new_eq c cv s h hne hmax hn hsz hnW
  obtain ⟨g', h2, m2, _⟩ := wm_bv_new_eq c' cv s h hne hmax hn hsz hnW
  rw [Config.WM_new_cfg c c' .bv s hmax, m2] at m1
  injection m1 with m1; injection m1 with m1
  rw [h1, h2, absBV_inj g' g m1]
end
end Sucds.GenEq
