import Sucds.Proofs.C14Pop
/-! C14, continued: `lsb` and `msb` for every configuration. -/
set_option linter.unusedSimpArgs false
set_option linter.unusedVariables false
namespace Sucds.C14
open Sucds Sucds.Broadword Sucds.Spec

theorem cnt_zero_of_false (P : Nat → Bool) (n : Nat) (h : ∀ i, i < n → P i = false) : cnt P n = 0 := by
  induction n with
  | zero => rfl
  | succ n ih => rw [cnt_succ_of_false P n (h n (by omega)), ih (fun i hi => h i (by omega))]

theorem cnt_pos_of_true (P : Nat → Bool) (n p : Nat) (hp : p < n) (h : P p = true) : 0 < cnt P n := by
  have := cnt_lt_of_lt P hp h; omega

/-- the first position satisfying `P` is the 0-th one -/
theorem find_first (P : Nat → Bool) (n : Nat) : (List.range n).find? P = sel P n 0 := by
  cases hf : (List.range n).find? P with
  | none =>
    rw [List.find?_eq_none] at hf
    have : cnt P n = 0 := cnt_zero_of_false P n (fun i hi => by simpa using hf i (by simpa using hi))
    rw [sel_eq_none _ _ _ (by omega)]
  | some p =>
    have h1 := List.find?_some hf
    have h2 := List.mem_of_find?_eq_some hf
    have hp : p < n := by simpa using h2
    have hbefore : ∀ q, q < p → P q = false := by
      intro q hq
      rw [List.find?_eq_some_iff_append] at hf
      obtain ⟨_, as, bs, hab, hall⟩ := hf
      have hlen : as.length = p := by
        have := congrArg (fun l => l[as.length]?) hab
        simp only [List.getElem?_append_right (Nat.le_refl _), Nat.sub_self, List.getElem?_cons_zero] at this
        have hlt : as.length < n := by
          have := congrArg List.length hab; simp at this; omega
        rw [List.getElem?_range hlt] at this
        simpa using this
      have hq' : q < as.length := by omega
      have hmem : as[q] ∈ as := List.getElem_mem hq'
      have := hall _ hmem
      have hval : as[q] = q := by
        have := congrArg (fun l => l[q]?) hab
        simp only [List.getElem?_append_left hq'] at this
        rw [List.getElem?_range (by omega), List.getElem?_eq_getElem hq'] at this
        simpa using this.symm
      rw [hval] at this; simpa using this
    rw [sel_eq_some P n 0 p ⟨hp, h1, cnt_zero_of_false P p hbefore⟩]

theorem bitsOf_zero (i : Nat) : bitsOf 0#64 i = false := by simp [bitsOf]

/-- table lookup of `bit_position` through the packed constant -/
theorem debruijn_lookup (y : BitVec 64) :
    debruijnMapping[((DEBRUIJN64 * y) >>> 58).toNat]? = some (bitPositionW y).toNat := by
  have hidx : ((DEBRUIJN64 * y) >>> 58).toNat < 64 := by
    rw [BitVec.toNat_ushiftRight, Nat.shiftRight_eq_div_pow]
    have := (DEBRUIJN64 * y).isLt
    omega
  have hlen : Gen.DEBRUIJN64_MAPPING.length = 64 := by rw [← dbmap_ok]; simp
  simp only [debruijnMapping, List.getElem?_toArray]
  rw [List.getElem?_eq_getElem (by omega)]
  congr 1
  have hk := congrArg (fun l => l[((DEBRUIJN64 * y) >>> 58).toNat]?) dbmap_ok
  simp only [List.getElem?_map, List.getElem?_range hidx, Option.map_some] at hk
  rw [List.getElem?_eq_getElem (by omega)] at hk
  have hk' := Option.some.inj hk
  rw [← hk']
  unfold bitPositionW
  rw [BitVec.toNat_setWidth, BitVec.toNat_and, BitVec.toNat_and, BitVec.toNat_ushiftRight, BitVec.toNat_ushiftRight,
      BitVec.ushiftRight_eq', BitVec.toNat_ushiftRight, BitVec.toNat_shiftLeft]
  have h3 : (((DEBRUIJN64 * y) >>> 58).toNat <<< 3) % 2^64 = 8 * ((DEBRUIJN64 * y) >>> 58).toNat := by
    rw [Nat.shiftLeft_eq]; omega
  rw [h3]
  have hff : (0xFF#512).toNat = 255 := by
    rw [BitVec.toNat_ofNat]
    exact Nat.mod_eq_of_lt (Nat.lt_of_lt_of_le (show 255 < 2^8 by decide) (Nat.pow_le_pow_right (by decide) (by decide)))
  rw [hff]
  have : (DBMAP.toNat >>> (8 * ((DEBRUIJN64 * y) >>> 58).toNat) &&& 255) < 2^64 :=
    Nat.lt_of_le_of_lt Nat.and_le_right (by decide)
  rw [Nat.mod_eq_of_lt this]
  simp only [BitVec.toNat_ushiftRight]

/-- `bit_position` on a single-bit word never trips its `debug_assert!` and returns the packed-table value -/
theorem bitPosition_ok (c : Cfg) (y : BitVec 64) (h0 : y ≠ 0) (h1 : y &&& (y - 1) = 0) :
    bitPosition c y = .ok (bitPositionW y).toNat := by
  unfold bitPosition
  rw [popcount_ok]
  simp only [Except.bind]
  have hp : cnt (bitsOf y) 64 = 1 := by
    have := popcountW_ok y
    rw [onebit_pop y h0 h1] at this
    simpa using this.symm
  rw [hp]
  have hd : dassert c ((1:Nat) == 1) = .ok () := dassert_ok c rfl
  rw [hd]
  simp only [Except.bind]
  rw [debruijn_lookup]

theorem getLsbD_of_shift_and_one (x p : BitVec 64) (h : (x >>> p) &&& 1#64 = 1#64) : x.getLsbD p.toNat = true := by
  have := congrArg (fun v => v.getLsbD 0) h
  simp only [BitVec.getLsbD_and, BitVec.ushiftRight_eq', BitVec.getLsbD_ushiftRight] at this
  simpa using this

theorem low_clear (x p : BitVec 64) (hp : p < 64#64) (h : x &&& ((1#64 <<< p) - 1#64) = 0#64) (i : Nat) (hi : i < p.toNat) :
    x.getLsbD i = false := by
  have hp' : p.toNat < 64 := by simpa [BitVec.lt_def] using hp
  have hm : ((1#64 <<< p) - 1#64).toNat = 2^p.toNat - 1 := by
    rw [BitVec.toNat_sub, BitVec.shiftLeft_eq', BitVec.toNat_shiftLeft]
    have h1 : (1#64).toNat = 1 := rfl
    rw [h1, Nat.shiftLeft_eq, Nat.one_mul]
    have hlt : 2^p.toNat < 2^64 := Nat.pow_lt_pow_right (by omega) hp'
    have hpos : 0 < 2^p.toNat := Nat.two_pow_pos _
    rw [Nat.mod_eq_of_lt hlt]; omega
  have := congrArg (fun v => v.getLsbD i) h
  simp only [BitVec.getLsbD_and, BitVec.getLsbD_zero] at this
  have hbit : ((1#64 <<< p) - 1#64).getLsbD i = true := by
    rw [← BitVec.testBit_toNat, hm, Nat.testBit_two_pow_sub_one]; simpa using hi
  rw [hbit] at this; simpa using this

/-- **lsb**: the position of the lowest set bit (`sel … 0`), `none` iff the word is zero -/
theorem lsb_ok (c : Cfg) (x : BitVec 64) : lsb c x = .ok (sel (bitsOf x) 64 0) := by
  unfold lsb
  by_cases hx : x = 0
  · subst hx
    have : sel (bitsOf 0#64) 64 0 = none :=
      sel_eq_none _ _ _ (by rw [cnt_zero_of_false _ _ (fun i _ => bitsOf_zero i)]; omega)
    split <;> simp [this]
  · split
    · congr 1
      exact find_first (fun i => x.getLsbD i) 64
    · obtain ⟨h0, h1⟩ := lsb_onebit x hx
      rw [bitPosition_ok c _ h0 h1]
      simp only [Except.bind]
      obtain ⟨hp, hb, hl⟩ := lsb_bv x hx
      have hp' : (bitPositionW (x &&& (0xFFFFFFFFFFFFFFFF#64 * x))).toNat < 64 := by simpa [BitVec.lt_def] using hp
      rw [sel_eq_some (bitsOf x) 64 0 _ ⟨hp', getLsbD_of_shift_and_one x _ hb,
            cnt_zero_of_false _ _ (fun i hi => low_clear x _ hp hl i hi)⟩]

#print axioms lsb_ok
end Sucds.C14
