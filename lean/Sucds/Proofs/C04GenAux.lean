import Sucds.Proofs.GenEliasFano
import Sucds.Proofs.ConfigEF
/-! # Helper lemmas for `Props/C04Gen.lean` and `Props/C16Gen.lean`

* histories mixing `push(v)` and `extend(vs)` through the generated builder (`EFOp`, `efGrun`) and their list
  semantics (`efExtended`, `efSpecOps`); `ef_grun_spec`: the generated history never panics, answers the specified
  verdicts and ends in a builder holding the specified list — the *same* builder in every configuration;
* `ef_built_cfg`: `build()` + `enable_rank()` of such a builder in two configurations: same structure, the
  specification's answers in both, `binsearch_range` pinned down (`Config.searchSpec`);
* `ef_pipeline_ops`, `ef_pipeline_hist`: the whole generated pipeline, for two configurations at once. -/
set_option linter.unusedSimpArgs false
set_option linter.unusedVariables false
namespace Sucds.GenEq
open Sucds Sucds.Spec Sucds.EFB

/-- one builder call: `push(v)` or `extend(vs)` -/
inductive EFOp where
  | push (v : Nat)
  | extend (vs : List Nat)

/-- the values a call offers to the builder -/
def EFOp.items : EFOp → List Nat
  | .push v => [v]
  | .extend vs => vs

/-- what offering `vs` to a builder holding `acc` does: the values are appended one by one until the first
    unacceptable one (`<` the last accepted, `≥ u`, or capacity `m` reached); the flag says whether all were taken.
    A `push(v)` is the case `vs = [v]`. -/
def efExtended (u m : Nat) : List Nat → List Nat → List Nat × Bool
  | acc, [] => (acc, true)
  | acc, v :: vs =>
    if acc.getLast?.getD 0 ≤ v ∧ v < u ∧ acc.length < m then efExtended u m (acc ++ [v]) vs else (acc, false)

/-- list semantics of a history of calls: final contents and the verdict of each call -/
def efSpecOps (u m : Nat) : List Nat → List EFOp → List Nat × List Bool
  | acc, [] => (acc, [])
  | acc, op :: ops =>
    ((efSpecOps u m (efExtended u m acc op.items).1 ops).1,
     (efExtended u m acc op.items).2 :: (efSpecOps u m (efExtended u m acc op.items).1 ops).2)

/-- one call through the generated functions -/
def efGapply (c : Cfg) (b : EFB) : EFOp → R (EFB × RS.Res Unit)
  | .push v => GenFn.EliasFanoBuilder.push c b v
  | .extend vs => GenFn.EliasFanoBuilder.extend c b vs

/-- a history through the generated functions, collecting the results -/
def efGrun (c : Cfg) : EFB → List EFOp → R (EFB × List (RS.Res Unit))
  | b, [] => .ok (b, [])
  | b, op :: ops => (efGapply c b op).bind fun r => (efGrun c r.1 ops).bind fun rr => .ok (rr.1, r.2 :: rr.2)

/-! ### a push history is a history of `push` calls -/

theorem efSpecOps_pushes (u m : Nat) : ∀ (hist acc : List Nat),
    efSpecOps u m acc (hist.map EFOp.push) = (accepted u m acc hist, verdicts u m acc hist) := by
  intro hist
  induction hist with
  | nil => intro acc; rfl
  | cons v vs ih =>
    intro acc
    simp only [List.map_cons, efSpecOps, EFOp.items, efExtended, accepted, verdicts]
    by_cases h : acc.getLast?.getD 0 ≤ v ∧ v < u ∧ acc.length < m
    · simp only [if_pos h, ih]
    · simp only [if_neg h, ih]

theorem efGrun_pushes (c : Cfg) : ∀ (hist : List Nat) (b : EFB), efGrun c b (hist.map EFOp.push) = genRun c b hist := by
  intro hist
  induction hist with
  | nil => intro b; rfl
  | cons v vs ih =>
    intro b
    simp only [List.map_cons, efGrun, genRun, efGapply, ih]

/-- a valid input (non-decreasing, below `u`, within the capacity) is taken entirely -/
theorem efExtended_of_valid (u m : Nat) : ∀ (vs acc : List Nat),
    (acc ++ vs).Pairwise (· ≤ ·) → (∀ x ∈ vs, x < u) → acc.length + vs.length ≤ m →
    efExtended u m acc vs = (acc ++ vs, true) := by
  intro vs
  induction vs with
  | nil => intro acc _ _ _; simp [efExtended]
  | cons v vs ih =>
    intro acc hs hb hl
    have h1 : acc.getLast?.getD 0 ≤ v := by
      cases hlast : acc.getLast? with
      | none => simp
      | some l =>
        have hmem : l ∈ acc := List.mem_of_getLast? hlast
        have := List.pairwise_append.mp hs
        simpa using this.2.2 l hmem v (by simp)
    have h2 : v < u := hb v (by simp)
    have h3 : acc.length < m := by simp at hl; omega
    simp only [efExtended, h1, h2, h3, and_self, if_true]
    rw [ih (acc ++ [v]) (by simpa using hs) (fun x hx => hb x (by simp [hx])) (by simp at hl ⊢; omega)]
    simp

/-! ### the model's `extend` computes `efExtended` -/

theorem extend_fun : ∀ (vs : List Nat) (b : EFB) (xs : List Nat), Holds b xs →
    ∃ b', EFB.extend b vs = .ok (b', (efExtended b.univ b.numVals xs vs).2) ∧
      Holds b' (efExtended b.univ b.numVals xs vs).1 ∧ b'.univ = b.univ ∧ b'.numVals = b.numVals := by
  intro vs
  induction vs with
  | nil => intro b xs h; exact ⟨b, rfl, h, rfl, rfl⟩
  | cons v vs ih =>
    intro b xs h
    by_cases hacc : xs.getLast?.getD 0 ≤ v ∧ v < b.univ ∧ xs.length < b.numVals
    · obtain ⟨b1, hp, hh1, hu1, hm1, _⟩ :=
        push_holds b xs h v (by rw [h.last]; exact hacc.1) hacc.2.1 (by rw [h.pos]; exact hacc.2.2)
      obtain ⟨b', he, hh', hu', hm'⟩ := ih b1 (xs ++ [v]) hh1
      rw [hu1, hm1] at he hh'
      refine ⟨b', ?_, ?_, hu'.trans hu1, hm'.trans hm1⟩
      · simp only [EFB.extend, efExtended, if_pos hacc]
        rw [hp, EFQ.bind_ok]
        simp only [if_true]
        exact he
      · simp only [efExtended, if_pos hacc]; exact hh'
    · have hrej : v < b.last ∨ b.univ ≤ v ∨ b.numVals ≤ b.pos := by rw [h.last, h.pos]; omega
      refine ⟨b, ?_, ?_, rfl, rfl⟩
      · simp only [EFB.extend, efExtended, if_neg hacc]
        rw [push_rej b v hrej, EFQ.bind_ok]
        simp
      · simp only [efExtended, if_neg hacc]; exact h

/-- the model's `push` computes `efExtended … [v]` -/
theorem push_fun (b : EFB) (xs : List Nat) (h : Holds b xs) (v : Nat) :
    ∃ b', b.push v = .ok (b', (efExtended b.univ b.numVals xs [v]).2) ∧
      Holds b' (efExtended b.univ b.numVals xs [v]).1 := by
  by_cases hacc : xs.getLast?.getD 0 ≤ v ∧ v < b.univ ∧ xs.length < b.numVals
  · obtain ⟨b1, hp, hh1, _⟩ :=
      push_holds b xs h v (by rw [h.last]; exact hacc.1) hacc.2.1 (by rw [h.pos]; exact hacc.2.2)
    refine ⟨b1, ?_, ?_⟩
    · simp only [efExtended, if_pos hacc]; exact hp
    · simp only [efExtended, if_pos hacc]; exact hh1
  · have hrej : v < b.last ∨ b.univ ≤ v ∨ b.numVals ≤ b.pos := by rw [h.last, h.pos]; omega
    refine ⟨b, ?_, ?_⟩
    · simp only [efExtended, if_neg hacc]; exact push_rej b v hrej
    · simp only [efExtended, if_neg hacc]; exact h

/-! ### generated histories -/

/-- the invariant of a generated history started by `new(u, m)` -/
structure EFGood (u m : Nat) (b : EFB) (xs : List Nat) : Prop where
  holds : Holds b xs
  fits : Fits b
  univ : b.univ = u
  cap : b.numVals = m
  lowLen : b.lowLen = lowLenOf u m

theorem ef_gapply_spec (u m : Nat) (b : EFB) (xs : List Nat) (g : EFGood u m b xs) (op : EFOp) :
    ∃ b', EFGood u m b' (efExtended u m xs op.items).1 ∧
      ∀ c, efGapply c b op = .ok (b', resU (efExtended u m xs op.items).2) := by
  obtain ⟨hh, hf, hu, hm, hl⟩ := g
  cases op with
  | push v =>
    obtain ⟨b', hp, hh'⟩ := push_fun b xs hh v
    obtain ⟨f1, f2, f3⟩ := fits_push b hf v b' _ hp
    have hl' := (Space.push_params b b' v _ hp).2.2
    rw [hu, hm] at hp hh'
    refine ⟨b', ⟨hh', f1, f2.trans hu, f3.trans hm, hl'.trans hl⟩, fun c => ?_⟩
    show GenFn.EliasFanoBuilder.push c b v = _
    rw [efb_push_eq c b hf v, hp]
    show Except.ok (resB _) = _
    unfold resB resU
    rfl
  | extend vs =>
    obtain ⟨b', he, hh', hu', hm'⟩ := extend_fun vs b xs hh
    obtain ⟨f1, f2⟩ := efb_extend_fits vs b b' _ hf he
    rw [hu, hm] at he hh'
    refine ⟨b', ⟨hh', f1, hu'.trans hu, hm'.trans hm, f2.trans hl⟩, fun c => ?_⟩
    show GenFn.EliasFanoBuilder.extend c b vs = _
    rw [efb_extend_eq c b hf vs, he]
    show Except.ok (resB _) = _
    unfold resB resU
    rfl

/-- **any history of `push`/`extend` calls through the generated builder**: no panic, the specified verdicts, a final
    builder — the same in every configuration — holding the specified list -/
theorem ef_grun_spec (u m : Nat) : ∀ (ops : List EFOp) (b : EFB) (xs : List Nat), EFGood u m b xs →
    ∃ b', EFGood u m b' (efSpecOps u m xs ops).1 ∧
      ∀ c, efGrun c b ops = .ok (b', (efSpecOps u m xs ops).2.map resU) := by
  intro ops
  induction ops with
  | nil => intro b xs g; exact ⟨b, g, fun _ => rfl⟩
  | cons op ops ih =>
    intro b xs g
    obtain ⟨b1, g1, h1⟩ := ef_gapply_spec u m b xs g op
    obtain ⟨b', g', h'⟩ := ih b1 _ g1
    refine ⟨b', g', fun c => ?_⟩
    show (efGapply c b op).bind _ = _
    rw [h1 c, bok]
    show (efGrun c b1 ops).bind _ = _
    rw [h' c, bok]
    rfl

/-- the generated `new(u, m)`: the same empty builder in every configuration -/
theorem ef_new_good (u m : Nat) (hm : m ≠ 0) (hu : u < 2^64) (hsz : m + (u >>> lowLenOf u m) + 2 + 64 < 2^64) :
    ∃ b0, EFGood u m b0 [] ∧ ∀ c, GenFn.EliasFanoBuilder.new c u m = .ok (RS.Res.ok b0) := by
  obtain ⟨b0, hn, hh, hu0, hm0⟩ := new_holds u m hm hu
  refine ⟨b0, ⟨hh, fits_new u m b0 hu hn (by omega), hu0, hm0, efb_new_lowLen u m b0 hn⟩, fun c => ?_⟩
  rw [efb_new_eq c u m hu (fun _ => hsz), hn]; rfl

/-- `extend(vs)` on a builder reached by a generated history, in the vocabulary of `C16.extend_spec`: the loop stops at
    the first rejected item `vs[n]`, keeping `vs.take n` -/
theorem ef_extend_good (u m : Nat) (b : EFB) (xs : List Nat) (g : EFGood u m b xs) (vs : List Nat) :
    ∃ b' n, n ≤ vs.length ∧ EFGood u m b' (xs ++ vs.take n) ∧
      (∀ c, GenFn.EliasFanoBuilder.extend c b vs = .ok (b', resU (decide (n = vs.length)))) ∧
      (∀ v, vs[n]? = some v → v < b'.last ∨ b'.univ ≤ v ∨ b'.numVals ≤ b'.pos) := by
  obtain ⟨hh, hf, hu, hm, hl⟩ := g
  obtain ⟨b', n, hn, he, hh', hu', hm', hrej⟩ := C16.extend_spec vs b xs hh
  obtain ⟨f1, f2⟩ := efb_extend_fits vs b b' _ hf he
  refine ⟨b', n, hn, ⟨hh', f1, hu'.trans hu, hm'.trans hm, f2.trans hl⟩, fun c => ?_, hrej⟩
  rw [efb_extend_eq c b hf vs, he]; rfl

/-- `new(u, m)` and a push history (`genRun`): the same builders in every configuration, under the size bound that
    `new` needs (the high-bit length rounded up to words is a `usize`) -/
theorem ef_hist_good (u m : Nat) (hist : List Nat) (hm : m ≠ 0) (hu : u < 2^64)
    (hsz : m + (u >>> lowLenOf u m) + 2 + 64 < 2^64) :
    ∃ b0 b', EFGood u m b' (accepted u m [] hist) ∧
      (∀ c, GenFn.EliasFanoBuilder.new c u m = .ok (RS.Res.ok b0)) ∧
      (∀ c, genRun c b0 hist = .ok (b', (verdicts u m [] hist).map resU)) := by
  obtain ⟨b0, g0, hn⟩ := ef_new_good u m hm hu hsz
  obtain ⟨b', g', hr⟩ := ef_grun_spec u m (hist.map EFOp.push) b0 [] g0
  simp only [efSpecOps_pushes, efGrun_pushes] at g' hr
  exact ⟨b0, b', g', hn, hr⟩

/-! ### `build()` + `enable_rank()` in two configurations -/

/-- for a builder holding `xs`: the generated `build()` and `enable_rank()` return the same structures in the two
    configurations, the generated queries return the specification's answers in both, and `binsearch_range`
    returns the same index (`Config.searchSpec`, a function of the stored list) -/
theorem ef_built_cfg (c c' : Cfg) (b : EFB) (xs : List Nat) (h : Holds b xs) (hu : b.univ < 2^64)
    (hl : b.high.len < 2^63) (hf : xs.length * b.lowLen < 2^64) :
    ∃ e0 e, GenFn.EliasFanoBuilder.build c b = .ok e0 ∧ GenFn.EliasFano.enable_rank c e0 = .ok e ∧
      GenFn.EliasFanoBuilder.build c' b = .ok e0 ∧ GenFn.EliasFano.enable_rank c' e0 = .ok e ∧
      GenAnswers c e b.univ xs ∧ GenAnswers c' e b.univ xs ∧
      (∀ lo hi v, GenFn.EliasFano.binsearch_range c e (lo, hi) v = .ok (Config.searchSpec xs v lo hi)) ∧
      (∀ lo hi v, GenFn.EliasFano.binsearch_range c' e (lo, hi) v = .ok (Config.searchSpec xs v lo hi)) ∧
      GenFn.EliasFano.len e0 = xs.length ∧ GenFn.EliasFano.universe e0 = b.univ ∧
      (∀ k, GenFn.EliasFano.select c e0 k = .ok xs[k]?) ∧ (∀ k, GenFn.EliasFano.select c' e0 k = .ok xs[k]?) := by
  have e0eq : EF.ofBuilder c' b = EF.ofBuilder c b := Config.EF_ofBuilder_cfg c' c b
  have eeq : (EF.ofBuilder c' b).enableRank c' = (EF.ofBuilder c b).enableRank c := by
    rw [Config.EF_ofBuilder_cfg c' c, Config.EF_enableRank_cfg c' c]
  obtain ⟨x0, x, k1, k2, k3, _, k5, k6, k7, _⟩ := ef_built_answers c b xs h hu hl hf
  obtain ⟨y0, y, j1, j2, j3, _, _, _, j7, _⟩ := ef_built_answers c' b xs h hu hl hf
  have hx0 : x0 = EF.ofBuilder c b := by
    rw [ef_build_eq c b hl] at k1; injection k1 with k1; exact k1.symm
  have hy0 : y0 = EF.ofBuilder c b := by
    rw [ef_build_eq c' b hl, e0eq] at j1; injection j1 with j1; exact j1.symm
  have hbv : (EF.ofBuilder c b).high.bv = b.high := EFQ.ofBuilder_bv c b h.hinv
  have hx : x = (EF.ofBuilder c b).enableRank c := by
    rw [hx0, ef_enable_rank_eq c _ (by rw [hbv]; exact h.hinv) (by rw [hbv]; exact hl)] at k2
    injection k2 with k2; exact k2.symm
  have hy : y = (EF.ofBuilder c b).enableRank c := by
    rw [hy0, ef_enable_rank_eq c' _ (by rw [hbv]; exact h.hinv) (by rw [hbv]; exact hl),
      Config.EF_enableRank_cfg c' c] at j2
    injection j2 with j2; exact j2.symm
  subst hx0
  subst hx
  rw [hy0] at j1 j2 j7
  rw [hy] at j2 j3
  have ok1 := efok_enableRank c b xs h hu hl hf
  have ok2 := efok_enableRank c' b xs h hu hl hf
  rw [eeq] at ok2
  have S := EFQ.setting_enableRank c b xs h hu (EFQ.high_enableRank c b xs h)
  have S' := EFQ.setting_enableRank c' b xs h hu (EFQ.high_enableRank c' b xs h)
  rw [eeq] at S'
  refine ⟨_, _, k1, k2, j1, j2, k3, j3, fun lo hi v => ?_, fun lo hi v => ?_, k5, k6, k7, j7⟩
  · rw [ef_binsearch_range_eq c _ ok1]; exact Config.binsearchRange_spec S lo hi v
  · rw [ef_binsearch_range_eq c' _ ok2]; exact Config.binsearchRange_spec S' lo hi v

/-! ### the whole generated pipeline -/

/-- what a builder reached by a generated history is built into, in two configurations -/
theorem ef_good_built (c c' : Cfg) (u m : Nat) (b : EFB) (xs : List Nat) (g : EFGood u m b xs) (hu : u < 2^64)
    (hsz : m + (u >>> lowLenOf u m) + 2 < 2^63) :
    ∃ e0 e, GenFn.EliasFanoBuilder.build c b = .ok e0 ∧ GenFn.EliasFano.enable_rank c e0 = .ok e ∧
      GenFn.EliasFanoBuilder.build c' b = .ok e0 ∧ GenFn.EliasFano.enable_rank c' e0 = .ok e ∧
      GenAnswers c e u xs ∧ GenAnswers c' e u xs ∧
      (∀ lo hi v, GenFn.EliasFano.binsearch_range c e (lo, hi) v = .ok (Config.searchSpec xs v lo hi)) ∧
      (∀ lo hi v, GenFn.EliasFano.binsearch_range c' e (lo, hi) v = .ok (Config.searchSpec xs v lo hi)) ∧
      GenFn.EliasFano.len e0 = xs.length ∧ GenFn.EliasFano.universe e0 = u ∧
      (∀ k, GenFn.EliasFano.select c e0 k = .ok xs[k]?) ∧ (∀ k, GenFn.EliasFano.select c' e0 k = .ok xs[k]?) := by
  obtain ⟨hh, hf, hub, hmb, hll⟩ := g
  obtain ⟨g1, g2⟩ := efb_built_bounds b xs u m hh hf hub hmb hll hsz
  have := ef_built_cfg c c' b xs hh (by rw [hub]; exact hu) g1 g2
  rw [hub] at this
  exact this

/-- `new(u, m)`, any history of `push`/`extend` calls, `build()`, `enable_rank()` — all generated code, in two
    configurations at once: same builders, same structures, the specification's answers -/
theorem ef_pipeline_ops (c c' : Cfg) (u m : Nat) (ops : List EFOp) (hm : m ≠ 0) (hu : u < 2^64)
    (hsz : m + (u >>> lowLenOf u m) + 2 < 2^63) :
    ∃ b0 b' e0 e, EFGood u m b' (efSpecOps u m [] ops).1 ∧
      (∀ c, GenFn.EliasFanoBuilder.new c u m = .ok (RS.Res.ok b0)) ∧
      (∀ c, efGrun c b0 ops = .ok (b', (efSpecOps u m [] ops).2.map resU)) ∧
      GenFn.EliasFanoBuilder.build c b' = .ok e0 ∧ GenFn.EliasFano.enable_rank c e0 = .ok e ∧
      GenFn.EliasFanoBuilder.build c' b' = .ok e0 ∧ GenFn.EliasFano.enable_rank c' e0 = .ok e ∧
      GenAnswers c e u (efSpecOps u m [] ops).1 ∧ GenAnswers c' e u (efSpecOps u m [] ops).1 ∧
      (∀ lo hi v, GenFn.EliasFano.binsearch_range c e (lo, hi) v =
        .ok (Config.searchSpec (efSpecOps u m [] ops).1 v lo hi)) ∧
      (∀ lo hi v, GenFn.EliasFano.binsearch_range c' e (lo, hi) v =
        .ok (Config.searchSpec (efSpecOps u m [] ops).1 v lo hi)) ∧
      GenFn.EliasFano.len e0 = (efSpecOps u m [] ops).1.length ∧ GenFn.EliasFano.universe e0 = u ∧
      (∀ k, GenFn.EliasFano.select c e0 k = .ok (efSpecOps u m [] ops).1[k]?) ∧
      (∀ k, GenFn.EliasFano.select c' e0 k = .ok (efSpecOps u m [] ops).1[k]?) := by
  obtain ⟨b0, g0, hn⟩ := ef_new_good u m hm hu (by omega)
  obtain ⟨b', g', hr⟩ := ef_grun_spec u m ops b0 [] g0
  obtain ⟨e0, e, k⟩ := ef_good_built c c' u m b' _ g' hu hsz
  exact ⟨b0, b', e0, e, g', hn, hr, k⟩

/-- the same for a push history (`genRun`), with the vocabulary of `Props/C04.lean` -/
theorem ef_pipeline_hist (c c' : Cfg) (u m : Nat) (hist : List Nat) (hm : m ≠ 0) (hu : u < 2^64)
    (hsz : m + (u >>> lowLenOf u m) + 2 < 2^63) :
    ∃ b0 b' e0 e, EFGood u m b' (accepted u m [] hist) ∧
      (∀ c, GenFn.EliasFanoBuilder.new c u m = .ok (RS.Res.ok b0)) ∧
      (∀ c, genRun c b0 hist = .ok (b', (verdicts u m [] hist).map resU)) ∧
      GenFn.EliasFanoBuilder.build c b' = .ok e0 ∧ GenFn.EliasFano.enable_rank c e0 = .ok e ∧
      GenFn.EliasFanoBuilder.build c' b' = .ok e0 ∧ GenFn.EliasFano.enable_rank c' e0 = .ok e ∧
      GenAnswers c e u (accepted u m [] hist) ∧ GenAnswers c' e u (accepted u m [] hist) ∧
      (∀ lo hi v, GenFn.EliasFano.binsearch_range c e (lo, hi) v =
        .ok (Config.searchSpec (accepted u m [] hist) v lo hi)) ∧
      (∀ lo hi v, GenFn.EliasFano.binsearch_range c' e (lo, hi) v =
        .ok (Config.searchSpec (accepted u m [] hist) v lo hi)) ∧
      GenFn.EliasFano.len e0 = (accepted u m [] hist).length ∧ GenFn.EliasFano.universe e0 = u ∧
      (∀ k, GenFn.EliasFano.select c e0 k = .ok (accepted u m [] hist)[k]?) ∧
      (∀ k, GenFn.EliasFano.select c' e0 k = .ok (accepted u m [] hist)[k]?) := by
  have h := ef_pipeline_ops c c' u m (hist.map EFOp.push) hm hu hsz
  simp only [efSpecOps_pushes, efGrun_pushes] at h
  exact h

end Sucds.GenEq
