import Sucds.Proofs.BitVectorPredSucc
/-! The unary iterator (`bit_vector/unary.rs`): `new`, `next`, `skip1`, `skip0`. -/
set_option linter.unusedSimpArgs false
set_option linter.unusedVariables false
namespace Sucds

namespace Spec

/-- the `k`-th position `≥ cur` below `n` satisfying `P` -/
def selFrom (P : Nat → Bool) (n cur k : Nat) : Option Nat := sel (fun i => decide (cur ≤ i) && P i) n k

theorem sel_lt_sel (P : Nat → Bool) (n k a b : Nat) (ha : sel P n k = some a) (hb : sel P n (k + 1) = some b) : a < b := by
  obtain ⟨_, _, a3⟩ := sel_isKth _ _ _ _ ha
  obtain ⟨_, _, b3⟩ := sel_isKth _ _ _ _ hb
  by_cases h : a < b
  · exact h
  · have := cnt_mono P (show b ≤ a by omega); omega

/-- `selFrom` enumerates exactly the positions in `[cur, n)` satisfying `P` -/
theorem selFrom_complete (P : Nat → Bool) (n cur q : Nat) :
    (cur ≤ q ∧ q < n ∧ P q = true) ↔ ∃ k, selFrom P n cur k = some q := by
  constructor
  · intro ⟨h1, h2, h3⟩
    exact ⟨cnt (fun i => decide (cur ≤ i) && P i) q, sel_eq_some _ n _ q ⟨h2, by simp [h1, h3], rfl⟩⟩
  · intro ⟨k, hk⟩
    obtain ⟨h1, h2, _⟩ := sel_isKth _ _ _ _ hk
    simp only [Bool.and_eq_true, decide_eq_true_eq] at h2
    exact ⟨h2.1, h1, h2.2⟩

/-- after the first position `q ≥ cur`, the `k`-th position `≥ q + 1` is the `(k+1)`-th position `≥ cur` -/
theorem selFrom_succ (P : Nat → Bool) (n cur q k : Nat) (h : selFrom P n cur 0 = some q) :
    selFrom P n (q + 1) k = selFrom P n cur (k + 1) := by
  unfold selFrom at h ⊢
  obtain ⟨h1, h2, h3⟩ := sel_isKth _ _ _ _ h
  have h2' := h2
  simp only [Bool.and_eq_true, decide_eq_true_eq] at h2'
  have hbelow : ∀ i, i < q → (decide (cur ≤ i) && P i) = false :=
    fun i hi => ScanB.false_of_cnt_zero (fun i => decide (cur ≤ i) && P i) q h3 i hi
  have hcnt : ∀ m, cnt (fun i => decide (cur ≤ i) && P i) m
      = cnt (fun i => decide (q + 1 ≤ i) && P i) m + (if q < m then 1 else 0) := by
    intro m
    induction m with
    | zero => simp [cnt]
    | succ m ih =>
      by_cases hm : m < q
      · have e1 := hbelow m hm
        have e2 : (decide (q + 1 ≤ m) && P m) = false := by
          have : ¬ (q + 1 ≤ m) := by omega
          simp [this]
        rw [cnt_succ_of_false _ m e1, cnt_succ_of_false _ m e2, ih, if_neg (by omega), if_neg (by omega)]
      · by_cases hmq : m = q
        · subst hmq
          have e2 : (decide (m + 1 ≤ m) && P m) = false := by
            have : ¬ (m + 1 ≤ m) := by omega
            simp [this]
          rw [cnt_succ_of_true _ m h2, cnt_succ_of_false _ m e2, ih, if_neg (by omega), if_pos (by omega)]
        · have e : (decide (cur ≤ m) && P m) = (decide (q + 1 ≤ m) && P m) := by
            have a1 : cur ≤ m := by omega
            have a2 : q + 1 ≤ m := by omega
            simp [a1, a2]
          have i1 : (if q < m then 1 else 0) = 1 := if_pos (by omega)
          have i2 : (if q < m + 1 then 1 else 0) = 1 := if_pos (by omega)
          rw [i2]; rw [i1] at ih
          cases hS : (decide (q + 1 ≤ m) && P m) with
          | true => rw [cnt_succ_of_true _ m (e.trans hS), cnt_succ_of_true _ m hS, ih]
          | false => rw [cnt_succ_of_false _ m (e.trans hS), cnt_succ_of_false _ m hS, ih]
  cases hs : sel (fun i => decide (cur ≤ i) && P i) n (k + 1) with
  | none =>
    have := sel_none_le _ _ _ hs
    rw [hcnt n, if_pos h1] at this
    exact sel_eq_none _ _ _ (by omega)
  | some r =>
    obtain ⟨r1, r2, r3⟩ := sel_isKth _ _ _ _ hs
    have hqr : q < r := by
      by_cases hqr : q < r
      · exact hqr
      · have := cnt_mono (fun i => decide (cur ≤ i) && P i) (show r ≤ q by omega); omega
    rw [hcnt r, if_pos hqr] at r3
    have r2' := r2
    simp only [Bool.and_eq_true, decide_eq_true_eq] at r2'
    exact sel_eq_some _ _ _ _ ⟨r1, by simp [r2'.2]; omega, by omega⟩

theorem selFrom_none_succ (P : Nat → Bool) (n cur k : Nat) (h : selFrom P n cur 0 = none) : selFrom P n cur k = none := by
  unfold selFrom at h ⊢
  have := sel_none_le _ _ _ h
  exact sel_eq_none _ _ _ (by omega)

end Spec

open Spec

namespace ScanB

/-! ### more word facts -/

theorem shlMax_lt (s : Nat) : UIter.shlMax s < 2^64 := Nat.mod_lt _ (by decide)

theorem shlMax_testBit (s j : Nat) (hs : s < 64) (hj : j < 64) : (UIter.shlMax s).testBit j = decide (s ≤ j) := by
  unfold UIter.shlMax BV.MAXW
  rw [Nat.mod_eq_of_lt hs, Nat.testBit_mod_two_pow, Nat.testBit_shiftLeft, Nat.testBit_two_pow_sub_one]
  by_cases h : s ≤ j
  · have e1 : j - s < 64 := by omega
    simp [h, hj, e1]
  · simp [h]

theorem eq_zero_of_bits (x : Nat) (hx : x < 2^64) (h : ∀ j, j < 64 → x.testBit j = false) : x = 0 := by
  apply Nat.eq_of_testBit_eq
  intro j
  rw [Nat.zero_testBit]
  by_cases hj : j < 64
  · exact h j hj
  · exact Nat.testBit_lt_two_pow (Nat.lt_of_lt_of_le hx (Nat.pow_le_pow_right (by decide) (by omega)))

theorem popcountN_zero (c : Cfg) : popcountN c 0 = 0 := by
  rw [popcountN_eq c 0 (by decide)]
  exact C14.cnt_zero_of_false _ _ (fun i _ => Nat.zero_testBit i)

/-- `x & (x - 1)` clears the lowest set bit -/
theorem clear_lsb (x p : Nat) (hp : x.testBit p = true) (hlow : ∀ j, j < p → x.testBit j = false) (j : Nat) :
    (x &&& (x - 1)).testBit j = (x.testBit j && decide (j ≠ p)) := by
  have hmod : x % 2^(p+1) = 2^p := by
    apply Nat.eq_of_testBit_eq
    intro i
    rw [Nat.testBit_mod_two_pow, Nat.testBit_two_pow]
    by_cases h1 : i < p
    · have : ¬ p = i := by omega
      simp [hlow i h1, this]
    · by_cases h2 : i = p
      · subst h2; simp [hp]
      · have a1 : ¬ i < p + 1 := by omega
        have a2 : ¬ p = i := by omega
        simp [a1, a2]
  have hx : x = 2^(p+1) * (x / 2^(p+1)) + 2^p := by
    have := Nat.div_add_mod x (2^(p+1))
    rw [hmod] at this; exact this.symm
  have hpos : 0 < 2^p := Nat.two_pow_pos p
  have hlt : 2^p < 2^(p+1) := Nat.pow_lt_pow_right (by decide) (by omega)
  have hx1 : x - 1 = 2^(p+1) * (x / 2^(p+1)) + (2^p - 1) := by omega
  have b1 : x.testBit j = if j < p + 1 then (2^p).testBit j else (x / 2^(p+1)).testBit (j - (p+1)) := by
    conv => lhs; rw [hx]
    exact Nat.testBit_two_pow_mul_add _ hlt j
  have b2 : (x - 1).testBit j = if j < p + 1 then (2^p - 1).testBit j else (x / 2^(p+1)).testBit (j - (p+1)) := by
    rw [hx1]
    exact Nat.testBit_two_pow_mul_add _ (by omega) j
  rw [Nat.testBit_and, b1, b2]
  by_cases hj : j < p + 1
  · rw [if_pos hj, if_pos hj, Nat.testBit_two_pow, Nat.testBit_two_pow_sub_one]
    by_cases hjp : j = p
    · subst hjp; simp
    · have a1 : ¬ p = j := by omega
      simp [a1]
  · rw [if_neg hj, if_neg hj]
    have : j ≠ p := by omega
    simp [this]

end ScanB

namespace UIter
open ScanB

/-! ### the loops -/

theorem nextLoop_none_buf (bv : BV) (fuel pos buf pos' : Nat) (h : nextLoop bv pos buf fuel = (pos', none)) : buf = 0 := by
  by_cases hb : buf = 0
  · exact hb
  · cases fuel with
    | zero => simp only [nextLoop] at h; rw [if_neg hb] at h; cases h
    | succ fuel => simp only [nextLoop] at h; rw [if_pos hb] at h; cases h

/-- the refill loop of `next` over a predicate `S` describing the buffer and the following words -/
theorem nextLoop_spec (bv : BV) (hlt : ∀ i, wordAt bv.words i < 2^64) (S : Nat → Bool) :
    ∀ (fuel pos buf : Nat), bv.words.size < pos / 64 + fuel → buf < 2^64 →
    (∀ j, j < 64 → buf.testBit j = S (64 * (pos / 64) + j)) →
    (∀ w, pos / 64 < w → ∀ j, j < 64 → (wordAt bv.words w).testBit j = S (64 * w + j)) →
    (∀ i, i < 64 * (pos / 64) → S i = false) →
    (∀ pos', nextLoop bv pos buf fuel = (pos', none) →
      bv.words.size ≤ pos' / 64 ∧ ∀ i, i < 64 * (pos' / 64) → S i = false) ∧
    (∀ pos' buf', nextLoop bv pos buf fuel = (pos', some buf') →
      buf' ≠ 0 ∧ buf' < 2^64 ∧ (∀ j, j < 64 → buf'.testBit j = S (64 * (pos' / 64) + j)) ∧
        ∀ i, i < 64 * (pos' / 64) → S i = false) := by
  intro fuel
  induction fuel with
  | zero =>
    intro pos buf hfuel hbuf hbits hwords hbelow
    simp only [nextLoop]
    by_cases hb : buf = 0
    · rw [if_pos hb]
      refine ⟨fun pos' h => ?_, fun pos' buf' h => (by cases h)⟩
      cases h
      exact ⟨by omega, hbelow⟩
    · rw [if_neg hb]
      refine ⟨fun pos' h => (by cases h), fun pos' buf' h => ?_⟩
      cases h
      exact ⟨hb, hbuf, hbits, hbelow⟩
  | succ fuel ih =>
    intro pos buf hfuel hbuf hbits hwords hbelow
    simp only [nextLoop]
    by_cases hb : buf ≠ 0
    · rw [if_pos hb]
      refine ⟨fun pos' h => (by cases h), fun pos' buf' h => ?_⟩
      cases h
      exact ⟨hb, hbuf, hbits, hbelow⟩
    · rw [if_neg hb]
      have hb0 : buf = 0 := by simpa using hb
      have e : (pos + 64) / 64 = pos / 64 + 1 := by omega
      have hbelow' : ∀ i, i < 64 * (pos / 64 + 1) → S i = false := by
        intro i hi
        by_cases hi' : i < 64 * (pos / 64)
        · exact hbelow i hi'
        · have := hbits (i - 64 * (pos / 64)) (by omega)
          rw [hb0, Nat.zero_testBit, show 64 * (pos / 64) + (i - 64 * (pos / 64)) = i by omega] at this
          exact this.symm
      by_cases hsz : bv.words.size ≤ (pos + 64) / 64
      · rw [if_pos hsz]
        refine ⟨fun pos' h => ?_, fun pos' buf' h => (by cases h)⟩
        cases h
        rw [e]
        exact ⟨by omega, hbelow'⟩
      · rw [if_neg hsz]
        apply ih (pos + 64) _ (by omega) (hlt _)
        · intro j hj; exact hwords _ (by omega) j hj
        · intro w hw j hj; exact hwords w (by omega) j hj
        · rw [e]; exact hbelow'

/-- the loop of `skip1`/`skip0` over a predicate `S` describing the buffer and the following (mapped) words -/
theorem skipLoop_spec (c : Cfg) (f : Nat → Nat) (bv : BV) (hf : ∀ i, f (wordAt bv.words i) < 2^64)
    (S : Nat → Bool) (k : Nat) :
    ∀ (fuel pos skipped buf : Nat), bv.words.size < pos / 64 + fuel → buf < 2^64 →
    (∀ j, j < 64 → buf.testBit j = S (64 * (pos / 64) + j)) →
    (∀ w, pos / 64 < w → ∀ j, j < 64 → (f (wordAt bv.words w)).testBit j = S (64 * w + j)) →
    skipped = cnt S (64 * (pos / 64)) → skipped ≤ k →
    (∀ pos' sk', skipLoop c f bv k pos skipped buf fuel = (pos', sk', none) →
      bv.words.size ≤ pos' / 64 ∧ cnt S (64 * (pos' / 64)) ≤ k) ∧
    (∀ pos' sk' buf', skipLoop c f bv k pos skipped buf fuel = (pos', sk', some buf') →
      buf' < 2^64 ∧ (∀ j, j < 64 → buf'.testBit j = S (64 * (pos' / 64) + j)) ∧
        sk' = cnt S (64 * (pos' / 64)) ∧ sk' ≤ k ∧ k < sk' + popcountN c buf') := by
  intro fuel
  induction fuel with
  | zero =>
    intro pos skipped buf hfuel hbuf hbits hwords hsk hle
    simp only [skipLoop]
    by_cases hk : skipped + popcountN c buf > k
    · rw [if_pos hk]
      refine ⟨fun pos' sk' h => (by cases h), fun pos' sk' buf' h => ?_⟩
      cases h
      exact ⟨hbuf, hbits, hsk, hle, hk⟩
    · rw [if_neg hk]
      refine ⟨fun pos' sk' h => ?_, fun pos' sk' buf' h => (by cases h)⟩
      cases h
      exact ⟨by omega, by omega⟩
  | succ fuel ih =>
    intro pos skipped buf hfuel hbuf hbits hwords hsk hle
    simp only [skipLoop]
    by_cases hk : skipped + popcountN c buf > k
    · rw [if_pos hk]
      refine ⟨fun pos' sk' h => (by cases h), fun pos' sk' buf' h => ?_⟩
      cases h
      exact ⟨hbuf, hbits, hsk, hle, hk⟩
    · rw [if_neg hk]
      have e : (pos + 64) / 64 = pos / 64 + 1 := by omega
      have hstep := cnt_word c S (pos / 64) buf hbuf hbits
      by_cases hsz : bv.words.size ≤ (pos + 64) / 64
      · rw [if_pos hsz]
        refine ⟨fun pos' sk' h => ?_, fun pos' sk' buf' h => (by cases h)⟩
        cases h
        rw [e, hstep]
        exact ⟨by omega, by omega⟩
      · rw [if_neg hsz]
        apply ih (pos + 64) _ _ (by omega) (hf _)
        · intro j hj; exact hwords _ (by omega) j hj
        · intro w hw j hj; exact hwords w (by omega) j hj
        · rw [e, hstep, hsk]
        · omega

/-! ### representation predicates -/

/-- `it` stands at the abstract cursor `cur`: the buffer holds exactly the set bits of the current word
    (word `it.pos / 64`) at positions `≥ cur`, and `cur` lies in `[it.pos, end of the current word]`.
    Hence the positions `next`/`skip1` will still yield are exactly the set positions `≥ cur`. -/
structure Rep (bv : BV) (it : UIter) (cur : Nat) : Prop where
  lt : it.buf < 2^64
  lo : it.pos ≤ cur
  hi : cur ≤ 64 * (it.pos / 64) + 64
  bits : ∀ j, j < 64 →
    it.buf.testBit j = (decide (cur ≤ 64 * (it.pos / 64) + j) && bv.bitAt (64 * (it.pos / 64) + j))

/-- `Rep` and the stored position *is* the cursor — what `skip0` needs, because it recovers the cursor
    from `it.pos % 64`. Holds after `new`, `skip1`, `skip0`; after `next` only `Rep` holds. -/
def RepAt (bv : BV) (it : UIter) (cur : Nat) : Prop := Rep bv it cur ∧ it.pos = cur

/-- exhausted: empty buffer at or beyond the end; every later call answers `none` -/
def Done (bv : BV) (it : UIter) : Prop := it.buf = 0 ∧ bv.len ≤ it.pos

theorem RepAt.rep {bv : BV} {it : UIter} {cur : Nat} (h : RepAt bv it cur) : Rep bv it cur := h.1

/-- `new` at any position (in particular `p ≤ len`, `p = len`, `len % 64 = 0`, the empty vector) -/
theorem new_rep (bv : BV) (p : Nat) : RepAt bv (UIter.new bv p) p := by
  refine ⟨⟨?_, Nat.le_refl _, ?_, ?_⟩, rfl⟩
  · exact Nat.and_lt_two_pow _ (shlMax_lt _)
  · show p ≤ 64 * (p / 64) + 64
    omega
  · intro j hj
    show (wordAt bv.words (p / 64) &&& shlMax (p % 64)).testBit j
        = (decide (p ≤ 64 * (p / 64) + j) && bv.bitAt (64 * (p / 64) + j))
    rw [Nat.testBit_and, shlMax_testBit _ j (by omega) hj, BV.word_testBit bv _ j hj, Bool.and_comm]
    congr 1
    apply decide_eq_decide.mpr; omega

/-! ### `next` -/

theorem next_ok (c : Cfg) (bv : BV) (h : bv.Inv) (it : UIter) (cur : Nat) (hr : Rep bv it cur) :
    ∃ it', it.next c bv = .ok (it', selFrom bv.bitAt bv.len cur 0) ∧
      (∀ q, selFrom bv.bitAt bv.len cur 0 = some q → Rep bv it' (q + 1) ∧ it'.pos = q) ∧
      (selFrom bv.bitAt bv.len cur 0 = none → Done bv it') := by
  have hsz := h.size
  obtain ⟨hA, hB⟩ := nextLoop_spec bv h.lt (fun i => decide (cur ≤ i) && bv.bitAt i) (bv.words.size + 1)
    it.pos it.buf (by omega) hr.lt hr.bits
    (fun w hw j hj => by
      rw [BV.word_testBit bv w j hj]
      have : decide (cur ≤ 64 * w + j) = true := by simp; have := hr.hi; omega
      simp only [this, Bool.true_and])
    (fun i hi => by
      have : ¬ cur ≤ i := by have := hr.lo; omega
      simp [this])
  unfold next selFrom
  cases hl : nextLoop bv it.pos it.buf (bv.words.size + 1) with
  | mk pos' ob =>
    cases ob with
    | none =>
      simp only []
      obtain ⟨a1, a2⟩ := hA pos' hl
      have hnone : sel (fun i => decide (cur ≤ i) && bv.bitAt i) bv.len 0 = none := by
        apply sel_eq_none
        rw [C14.cnt_zero_of_false _ _ (fun i hi => a2 i (by omega))]
        exact Nat.le_refl _
      rw [hnone]
      refine ⟨_, rfl, fun q hq => (by cases hq), fun _ => ⟨nextLoop_none_buf bv _ _ _ _ hl, ?_⟩⟩
      show bv.len ≤ pos'
      omega
    | some buf' =>
      simp only []
      obtain ⟨b1, b2, b3, b4⟩ := hB pos' buf' hl
      cases hm : lsbW c buf' with
      | none =>
        exact absurd (eq_zero_of_bits buf' b2 (lsbW_none c buf' b2 hm)) b1
      | some p =>
        simp only []
        obtain ⟨p1, p2, p3⟩ := lsbW_some c buf' p b2 hm
        have hS := b3 p p1
        rw [p2] at hS
        have hS' := hS.symm
        simp only [Bool.and_eq_true, decide_eq_true_eq] at hS'
        have enp : pos' / 64 * 64 + p = 64 * (pos' / 64) + p := by omega
        rw [enp]
        have hlen : 64 * (pos' / 64) + p < bv.len := by
          by_cases hq : 64 * (pos' / 64) + p < bv.len
          · exact hq
          · have := h.pad _ (show bv.len ≤ 64 * (pos' / 64) + p by omega)
            rw [this] at hS'; exact absurd hS'.2 (by simp)
        have hcnt : cnt (fun i => decide (cur ≤ i) && bv.bitAt i) (64 * (pos' / 64) + p) = 0 := by
          apply C14.cnt_zero_of_false
          intro i hi
          by_cases hi' : i < 64 * (pos' / 64)
          · exact b4 i hi'
          · have := b3 (i - 64 * (pos' / 64)) (by omega)
            rw [p3 _ (by omega), show 64 * (pos' / 64) + (i - 64 * (pos' / 64)) = i by omega] at this
            exact this.symm
        have hsel : sel (fun i => decide (cur ≤ i) && bv.bitAt i) bv.len 0 = some (64 * (pos' / 64) + p) :=
          sel_eq_some _ _ _ _ ⟨hlen, hS.symm, hcnt⟩
        rw [hsel]
        refine ⟨_, rfl, fun q hq => ?_, fun hq => by cases hq⟩
        cases hq
        have eB : (64 * (pos' / 64) + p) / 64 = pos' / 64 := by omega
        refine ⟨⟨Nat.lt_of_le_of_lt Nat.and_le_left b2, Nat.le_succ _, ?_, ?_⟩, rfl⟩
        · show 64 * (pos' / 64) + p + 1 ≤ 64 * ((64 * (pos' / 64) + p) / 64) + 64
          omega
        · intro j hj
          show (buf' &&& (buf' - 1)).testBit j
            = (decide (64 * (pos' / 64) + p + 1 ≤ 64 * ((64 * (pos' / 64) + p) / 64) + j)
                && bv.bitAt (64 * ((64 * (pos' / 64) + p) / 64) + j))
          rw [eB, clear_lsb buf' p p2 p3 j]
          by_cases hjp : j < p
          · have : ¬ (64 * (pos' / 64) + p + 1 ≤ 64 * (pos' / 64) + j) := by omega
            simp [p3 j hjp, this]
          · by_cases hjp' : j = p
            · subst hjp'
              have : ¬ (64 * (pos' / 64) + j + 1 ≤ 64 * (pos' / 64) + j) := by omega
              simp [this]
            · have g1 : 64 * (pos' / 64) + p + 1 ≤ 64 * (pos' / 64) + j := by omega
              have g2 : cur ≤ 64 * (pos' / 64) + j := by omega
              rw [b3 j hj]
              simp [g1, g2, hjp']

/-! ### `skip1` -/

theorem pop_pos_ne_zero (c : Cfg) (buf : Nat) (h : 0 < popcountN c buf) : (buf != 0) = true := by
  cases hb : (buf != 0) with
  | true => rfl
  | false =>
    have : buf = 0 := by simpa using hb
    rw [this, popcountN_zero] at h; omega

theorem skip1_ok (c : Cfg) (bv : BV) (h : bv.Inv) (it : UIter) (cur k : Nat) (hr : Rep bv it cur) :
    ∃ it', it.skip1 c bv k = .ok (it', selFrom bv.bitAt bv.len cur k) ∧
      (∀ q, selFrom bv.bitAt bv.len cur k = some q → RepAt bv it' q) ∧
      (selFrom bv.bitAt bv.len cur k = none → Done bv it') := by
  have hsz := h.size
  have hbelow : ∀ i, i < 64 * (it.pos / 64) → (decide (cur ≤ i) && bv.bitAt i) = false := fun i hi => by
    have : ¬ cur ≤ i := by have := hr.lo; omega
    simp [this]
  obtain ⟨hA, hB⟩ := skipLoop_spec c id bv h.lt (fun i => decide (cur ≤ i) && bv.bitAt i) k (bv.words.size + 1)
    it.pos 0 it.buf (by omega) hr.lt hr.bits
    (fun w hw j hj => by
      show (wordAt bv.words w).testBit j = _
      rw [BV.word_testBit bv w j hj]
      have : decide (cur ≤ 64 * w + j) = true := by simp; have := hr.hi; omega
      simp only [this, Bool.true_and])
    (C14.cnt_zero_of_false _ _ hbelow).symm (Nat.zero_le _)
  unfold skip1 selFrom
  cases hl : skipLoop c id bv k it.pos 0 it.buf (bv.words.size + 1) with
  | mk pos' rest =>
    cases rest with
    | mk sk' ob =>
    cases ob with
    | none =>
      simp only []
      obtain ⟨a1, a2⟩ := hA pos' sk' hl
      have hnone : sel (fun i => decide (cur ≤ i) && bv.bitAt i) bv.len k = none :=
        sel_eq_none _ _ _ (Nat.le_trans (cnt_mono _ (by omega)) a2)
      rw [hnone]
      refine ⟨_, rfl, fun q hq => (by cases hq), fun _ => ⟨rfl, ?_⟩⟩
      show bv.len ≤ pos'
      omega
    | some buf' =>
      simp only []
      obtain ⟨b1, b2, b3, b4, b5⟩ := hB pos' sk' buf' hl
      rw [dassert_ok c (pop_pos_ne_zero c buf' (by omega)), R9Index.bind_ok]
      subst b3
      obtain ⟨p, hp, p1, hS, hcnt⟩ := sel_word c (fun i => decide (cur ≤ i) && bv.bitAt i) (pos' / 64) buf' k b1 b2 b4 b5
      rw [hp]
      simp only []
      have hS' := hS
      simp only [Bool.and_eq_true, decide_eq_true_eq] at hS'
      have enp : pos' / 64 * 64 + p = 64 * (pos' / 64) + p := by omega
      rw [enp]
      have hlen : 64 * (pos' / 64) + p < bv.len := by
        by_cases hq : 64 * (pos' / 64) + p < bv.len
        · exact hq
        · have := h.pad _ (show bv.len ≤ 64 * (pos' / 64) + p by omega)
          rw [this] at hS'; exact absurd hS'.2 (by simp)
      have hsel : sel (fun i => decide (cur ≤ i) && bv.bitAt i) bv.len k = some (64 * (pos' / 64) + p) :=
        sel_eq_some _ _ _ _ ⟨hlen, hS, hcnt⟩
      rw [hsel]
      refine ⟨_, rfl, fun q hq => ?_, fun hq => (by cases hq)⟩
      cases hq
      have eB : (64 * (pos' / 64) + p) / 64 = pos' / 64 := by omega
      refine ⟨⟨Nat.lt_of_le_of_lt Nat.and_le_left b1, Nat.le_refl _, ?_, ?_⟩, rfl⟩
      · show 64 * (pos' / 64) + p ≤ 64 * ((64 * (pos' / 64) + p) / 64) + 64
        omega
      · intro j hj
        show (buf' &&& shlMax p).testBit j
          = (decide (64 * (pos' / 64) + p ≤ 64 * ((64 * (pos' / 64) + p) / 64) + j)
              && bv.bitAt (64 * ((64 * (pos' / 64) + p) / 64) + j))
        rw [eB, Nat.testBit_and, shlMax_testBit p j p1 hj, b2 j hj]
        by_cases hpj : p ≤ j
        · have g1 : 64 * (pos' / 64) + p ≤ 64 * (pos' / 64) + j := by omega
          have g2 : cur ≤ 64 * (pos' / 64) + j := by omega
          simp [hpj, g1, g2]
        · have g1 : ¬ (64 * (pos' / 64) + p ≤ 64 * (pos' / 64) + j) := by omega
          simp [hpj, g1]

/-! ### `skip0` -/

theorem skip0_ok (c : Cfg) (bv : BV) (h : bv.Inv) (it : UIter) (cur k : Nat) (hr : RepAt bv it cur) :
    ∃ it', it.skip0 c bv k = .ok (it', selFrom (fun i => !bv.bitAt i) bv.len cur k) ∧
      (∀ q, selFrom (fun i => !bv.bitAt i) bv.len cur k = some q → RepAt bv it' q) ∧
      (selFrom (fun i => !bv.bitAt i) bv.len cur k = none → Done bv it') := by
  have hsz := h.size
  obtain ⟨hr, hpc⟩ := hr
  have hbelow : ∀ i, i < 64 * (it.pos / 64) → (decide (cur ≤ i) && !bv.bitAt i) = false := fun i hi => by
    have : ¬ cur ≤ i := by have := hr.lo; omega
    simp [this]
  obtain ⟨hA, hB⟩ := skipLoop_spec c wnot bv (fun i => wnot_lt _) (fun i => decide (cur ≤ i) && !bv.bitAt i) k
    (bv.words.size + 1) it.pos 0 (wnot it.buf &&& shlMax (it.pos % 64)) (by omega)
    (Nat.and_lt_two_pow _ (shlMax_lt _))
    (fun j hj => by
      rw [Nat.testBit_and, shlMax_testBit _ j (Nat.mod_lt _ (by decide)) hj, wnot_testBit _ j hr.lt hj, hr.bits j hj]
      by_cases hpj : it.pos % 64 ≤ j
      · have g : cur ≤ 64 * (it.pos / 64) + j := by omega
        simp [hpj, g]
      · have g : ¬ cur ≤ 64 * (it.pos / 64) + j := by omega
        simp [hpj, g])
    (fun w hw j hj => by
      rw [wnot_testBit _ j (h.lt w) hj, BV.word_testBit bv w j hj]
      have : decide (cur ≤ 64 * w + j) = true := by simp; have := hr.hi; omega
      simp only [this, Bool.true_and])
    (C14.cnt_zero_of_false _ _ hbelow).symm (Nat.zero_le _)
  unfold skip0 selFrom
  cases hl : skipLoop c wnot bv k it.pos 0 (wnot it.buf &&& shlMax (it.pos % 64)) (bv.words.size + 1) with
  | mk pos' rest =>
    cases rest with
    | mk sk' ob =>
    cases ob with
    | none =>
      simp only []
      obtain ⟨a1, a2⟩ := hA pos' sk' hl
      have hnone : sel (fun i => decide (cur ≤ i) && !bv.bitAt i) bv.len k = none :=
        sel_eq_none _ _ _ (Nat.le_trans (cnt_mono _ (by omega)) a2)
      rw [hnone]
      refine ⟨_, rfl, fun q hq => (by cases hq), fun _ => ⟨rfl, ?_⟩⟩
      show bv.len ≤ pos'
      omega
    | some buf' =>
      simp only []
      obtain ⟨b1, b2, b3, b4, b5⟩ := hB pos' sk' buf' hl
      rw [dassert_ok c (pop_pos_ne_zero c buf' (by omega)), R9Index.bind_ok]
      subst b3
      obtain ⟨p, hp, p1, hS, hcnt⟩ := sel_word c (fun i => decide (cur ≤ i) && !bv.bitAt i) (pos' / 64) buf' k b1 b2 b4 b5
      rw [hp]
      simp only []
      have hS' := hS
      simp only [Bool.and_eq_true, decide_eq_true_eq] at hS'
      have enp : pos' / 64 * 64 + p = 64 * (pos' / 64) + p := by omega
      rw [enp, ← sel_of_kth (fun i => decide (cur ≤ i) && !bv.bitAt i) bv.len k (64 * (pos' / 64) + p) hS hcnt]
      have eB : (64 * (pos' / 64) + p) / 64 = pos' / 64 := by omega
      have hbits : ∀ j, j < 64 → (wnot buf' &&& shlMax p).testBit j
          = (decide (64 * (pos' / 64) + p ≤ 64 * (pos' / 64) + j) && bv.bitAt (64 * (pos' / 64) + j)) := by
        intro j hj
        rw [Nat.testBit_and, shlMax_testBit p j p1 hj, wnot_testBit _ j b1 hj, b2 j hj]
        by_cases hpj : p ≤ j
        · have g1 : 64 * (pos' / 64) + p ≤ 64 * (pos' / 64) + j := by omega
          have g2 : cur ≤ 64 * (pos' / 64) + j := by omega
          simp [hpj, g1, g2]
        · have g1 : ¬ (64 * (pos' / 64) + p ≤ 64 * (pos' / 64) + j) := by omega
          simp [hpj, g1]
      have hlt' : wnot buf' &&& shlMax p < 2^64 := Nat.and_lt_two_pow _ (shlMax_lt _)
      refine ⟨_, rfl, fun q hq => ?_, fun hq => ?_⟩
      · rw [sel_of_kth (fun i => decide (cur ≤ i) && !bv.bitAt i) bv.len k (64 * (pos' / 64) + p) hS hcnt] at hq
        by_cases hlen : 64 * (pos' / 64) + p < bv.len
        · rw [if_pos hlen] at hq
          cases hq
          refine ⟨⟨hlt', Nat.le_refl _, ?_, ?_⟩, rfl⟩
          · show 64 * (pos' / 64) + p ≤ 64 * ((64 * (pos' / 64) + p) / 64) + 64
            omega
          · intro j hj
            show (wnot buf' &&& shlMax p).testBit j
              = (decide (64 * (pos' / 64) + p ≤ 64 * ((64 * (pos' / 64) + p) / 64) + j)
                  && bv.bitAt (64 * ((64 * (pos' / 64) + p) / 64) + j))
            rw [eB]; exact hbits j hj
        · rw [if_neg hlen] at hq; cases hq
      · rw [sel_of_kth (fun i => decide (cur ≤ i) && !bv.bitAt i) bv.len k (64 * (pos' / 64) + p) hS hcnt] at hq
        by_cases hlen : 64 * (pos' / 64) + p < bv.len
        · rw [if_pos hlen] at hq; cases hq
        · refine ⟨?_, ?_⟩
          · show wnot buf' &&& shlMax p = 0
            apply eq_zero_of_bits _ hlt'
            intro j hj
            rw [hbits j hj]
            by_cases hpj : p ≤ j
            · rw [h.pad _ (show bv.len ≤ 64 * (pos' / 64) + j by omega), Bool.and_false]
            · have g1 : ¬ (64 * (pos' / 64) + p ≤ 64 * (pos' / 64) + j) := by omega
              simp [g1]
          · show bv.len ≤ 64 * (pos' / 64) + p
            omega

/-- **`skip0` from any `Rep` state** (what the code does when `it.pos ≠ cur`, i.e. directly after `next`):
    the positions in `[it.pos, cur)` — among them the set bit just returned by `next` — are counted as zeros. -/
theorem skip0_gen (c : Cfg) (bv : BV) (h : bv.Inv) (it : UIter) (cur k : Nat) (hr : Rep bv it cur) :
    ∃ it', it.skip0 c bv k = .ok (it', selFrom (fun i => decide (i < cur) || !bv.bitAt i) bv.len it.pos k) ∧
      (∀ q, selFrom (fun i => decide (i < cur) || !bv.bitAt i) bv.len it.pos k = some q →
        Rep bv it' (max cur q) ∧ it'.pos = q) ∧
      (selFrom (fun i => decide (i < cur) || !bv.bitAt i) bv.len it.pos k = none → Done bv it') := by
  have hsz := h.size
  have hlo := hr.lo
  have hhi := hr.hi
  have hbelow : ∀ i, i < 64 * (it.pos / 64) →
      (decide (it.pos ≤ i) && (decide (i < cur) || !bv.bitAt i)) = false := fun i hi => by
    have : ¬ it.pos ≤ i := by omega
    simp [this]
  obtain ⟨hA, hB⟩ := skipLoop_spec c wnot bv (fun i => wnot_lt _)
    (fun i => decide (it.pos ≤ i) && (decide (i < cur) || !bv.bitAt i)) k
    (bv.words.size + 1) it.pos 0 (wnot it.buf &&& shlMax (it.pos % 64)) (by omega)
    (Nat.and_lt_two_pow _ (shlMax_lt _))
    (fun j hj => by
      rw [Nat.testBit_and, shlMax_testBit _ j (Nat.mod_lt _ (by decide)) hj, wnot_testBit _ j hr.lt hj, hr.bits j hj]
      by_cases hpj : it.pos % 64 ≤ j
      · have g : it.pos ≤ 64 * (it.pos / 64) + j := by omega
        by_cases hc : cur ≤ 64 * (it.pos / 64) + j
        · have g2 : ¬ 64 * (it.pos / 64) + j < cur := by omega
          simp [hpj, g, hc, g2]
        · have g2 : 64 * (it.pos / 64) + j < cur := by omega
          simp [hpj, g, hc, g2]
      · have g : ¬ it.pos ≤ 64 * (it.pos / 64) + j := by omega
        simp [hpj, g])
    (fun w hw j hj => by
      rw [wnot_testBit _ j (h.lt w) hj, BV.word_testBit bv w j hj]
      have g1 : it.pos ≤ 64 * w + j := by omega
      have g2 : ¬ 64 * w + j < cur := by omega
      simp [g1, g2])
    (C14.cnt_zero_of_false _ _ hbelow).symm (Nat.zero_le _)
  unfold skip0 selFrom
  cases hl : skipLoop c wnot bv k it.pos 0 (wnot it.buf &&& shlMax (it.pos % 64)) (bv.words.size + 1) with
  | mk pos' rest =>
    cases rest with
    | mk sk' ob =>
    cases ob with
    | none =>
      simp only []
      obtain ⟨a1, a2⟩ := hA pos' sk' hl
      have hnone : sel (fun i => decide (it.pos ≤ i) && (decide (i < cur) || !bv.bitAt i)) bv.len k = none :=
        sel_eq_none _ _ _ (Nat.le_trans (cnt_mono _ (by omega)) a2)
      rw [hnone]
      refine ⟨_, rfl, fun q hq => (by cases hq), fun _ => ⟨rfl, ?_⟩⟩
      show bv.len ≤ pos'
      omega
    | some buf' =>
      simp only []
      obtain ⟨b1, b2, b3, b4, b5⟩ := hB pos' sk' buf' hl
      rw [dassert_ok c (pop_pos_ne_zero c buf' (by omega)), R9Index.bind_ok]
      subst b3
      obtain ⟨p, hp, p1, hS, hcnt⟩ := sel_word c (fun i => decide (it.pos ≤ i) && (decide (i < cur) || !bv.bitAt i))
        (pos' / 64) buf' k b1 b2 b4 b5
      rw [hp]
      simp only []
      have hS' := hS
      simp only [Bool.and_eq_true, decide_eq_true_eq] at hS'
      have hpn := hS'.1
      have enp : pos' / 64 * 64 + p = 64 * (pos' / 64) + p := by omega
      rw [enp, ← sel_of_kth _ bv.len k (64 * (pos' / 64) + p) hS hcnt]
      have eB : (64 * (pos' / 64) + p) / 64 = pos' / 64 := by omega
      have hbits : ∀ j, j < 64 → (wnot buf' &&& shlMax p).testBit j
          = (decide (max cur (64 * (pos' / 64) + p) ≤ 64 * (pos' / 64) + j) && bv.bitAt (64 * (pos' / 64) + j)) := by
        intro j hj
        rw [Nat.testBit_and, shlMax_testBit p j p1 hj, wnot_testBit _ j b1 hj, b2 j hj]
        by_cases hpj : p ≤ j
        · have g1 : it.pos ≤ 64 * (pos' / 64) + j := by omega
          by_cases hc : cur ≤ 64 * (pos' / 64) + j
          · have g2 : ¬ 64 * (pos' / 64) + j < cur := by omega
            have g3 : max cur (64 * (pos' / 64) + p) ≤ 64 * (pos' / 64) + j := by omega
            simp [hpj, g1, g2, g3]
          · have g2 : 64 * (pos' / 64) + j < cur := by omega
            have g3 : ¬ max cur (64 * (pos' / 64) + p) ≤ 64 * (pos' / 64) + j := by omega
            simp [hpj, g1, g2, g3]
        · have g3 : ¬ max cur (64 * (pos' / 64) + p) ≤ 64 * (pos' / 64) + j := by omega
          simp [hpj, g3]
      have hlt' : wnot buf' &&& shlMax p < 2^64 := Nat.and_lt_two_pow _ (shlMax_lt _)
      refine ⟨_, rfl, fun q hq => ?_, fun hq => ?_⟩
      · rw [sel_of_kth _ bv.len k (64 * (pos' / 64) + p) hS hcnt] at hq
        by_cases hlen : 64 * (pos' / 64) + p < bv.len
        · rw [if_pos hlen] at hq
          cases hq
          refine ⟨⟨hlt', ?_, ?_, ?_⟩, rfl⟩
          · show 64 * (pos' / 64) + p ≤ max cur (64 * (pos' / 64) + p)
            omega
          · show max cur (64 * (pos' / 64) + p) ≤ 64 * ((64 * (pos' / 64) + p) / 64) + 64
            omega
          · intro j hj
            show (wnot buf' &&& shlMax p).testBit j
              = (decide (max cur (64 * (pos' / 64) + p) ≤ 64 * ((64 * (pos' / 64) + p) / 64) + j)
                  && bv.bitAt (64 * ((64 * (pos' / 64) + p) / 64) + j))
            rw [eB]; exact hbits j hj
        · rw [if_neg hlen] at hq; cases hq
      · rw [sel_of_kth _ bv.len k (64 * (pos' / 64) + p) hS hcnt] at hq
        by_cases hlen : 64 * (pos' / 64) + p < bv.len
        · rw [if_pos hlen] at hq; cases hq
        · refine ⟨?_, ?_⟩
          · show wnot buf' &&& shlMax p = 0
            apply eq_zero_of_bits _ hlt'
            intro j hj
            rw [hbits j hj]
            by_cases hpj : p ≤ j
            · rw [h.pad _ (show bv.len ≤ 64 * (pos' / 64) + j by omega), Bool.and_false]
            · have g1 : ¬ (max cur (64 * (pos' / 64) + p) ≤ 64 * (pos' / 64) + j) := by omega
              simp [g1]
          · show bv.len ≤ 64 * (pos' / 64) + p
            omega

/-- **the requested `next`-then-`skip0` behaviour fails on every input**: whenever `next` returns the set
    position `q`, an immediately following `skip0 0` returns the same `q` — a set bit — instead of the first
    unset position after `q`. -/
theorem skip0_after_next (c : Cfg) (bv : BV) (h : bv.Inv) (it it' : UIter) (cur q : Nat) (hr : Rep bv it cur)
    (hn : it.next c bv = .ok (it', some q)) :
    ∃ it'', it'.skip0 c bv 0 = .ok (it'', some q) ∧ bv.bitAt q = true := by
  obtain ⟨it0, e, h1, _⟩ := next_ok c bv h it cur hr
  rw [e] at hn
  have hn' := Except.ok.inj hn
  have e1 : it0 = it' := congrArg Prod.fst hn'
  have e2 : selFrom bv.bitAt bv.len cur 0 = some q := congrArg Prod.snd hn'
  subst e1
  obtain ⟨hrep, hpos⟩ := h1 q e2
  obtain ⟨q1, q2, _⟩ := sel_isKth _ _ _ _ e2
  simp only [Bool.and_eq_true, decide_eq_true_eq] at q2
  obtain ⟨it'', e3, _, _⟩ := skip0_gen c bv h it0 (q + 1) 0 hrep
  refine ⟨it'', ?_, q2.2⟩
  rw [e3, hpos]
  congr 2
  unfold selFrom
  apply sel_eq_some
  refine ⟨q1, by simp, ?_⟩
  apply C14.cnt_zero_of_false
  intro i hi
  have : ¬ q ≤ i := by omega
  simp [this]

/-! ### exhausted iterators stay exhausted -/

theorem done_next (c : Cfg) (bv : BV) (h : bv.Inv) (it : UIter) (hd : Done bv it) :
    ∃ it', it.next c bv = .ok (it', none) ∧ Done bv it' := by
  have hsz := h.size
  obtain ⟨pos, buf⟩ := it
  obtain ⟨hb, hlen⟩ := hd
  simp only at hb hlen
  subst hb
  have hc : bv.words.size ≤ (pos + 64) / 64 := by omega
  have hl : nextLoop bv pos 0 (bv.words.size + 1) = (pos + 64, none) := by
    simp only [nextLoop]
    rw [if_neg (by simp), if_pos hc]
  unfold next
  simp only [hl]
  exact ⟨_, rfl, rfl, by show bv.len ≤ pos + 64; omega⟩

theorem done_skip1 (c : Cfg) (bv : BV) (h : bv.Inv) (it : UIter) (k : Nat) (hd : Done bv it) :
    ∃ it', it.skip1 c bv k = .ok (it', none) ∧ Done bv it' := by
  have hsz := h.size
  obtain ⟨pos, buf⟩ := it
  obtain ⟨hb, hlen⟩ := hd
  simp only at hb hlen
  subst hb
  have hc : bv.words.size ≤ (pos + 64) / 64 := by omega
  have hl : skipLoop c id bv k pos 0 0 (bv.words.size + 1) = (pos + 64, 0 + popcountN c 0, none) := by
    simp only [skipLoop]
    rw [if_neg (by rw [popcountN_zero]; omega), if_pos hc]
  unfold skip1
  simp only [hl]
  exact ⟨_, rfl, rfl, by show bv.len ≤ pos + 64; omega⟩

theorem done_skip0 (c : Cfg) (bv : BV) (h : bv.Inv) (it : UIter) (k : Nat) (hd : Done bv it) :
    ∃ it', it.skip0 c bv k = .ok (it', none) ∧ Done bv it' := by
  have hsz := h.size
  obtain ⟨pos, buf⟩ := it
  obtain ⟨hb, hlen⟩ := hd
  simp only at hb hlen
  subst hb
  have hc : bv.words.size ≤ (pos + 64) / 64 := by omega
  unfold skip0
  simp only []
  generalize hB0 : wnot 0 &&& shlMax (pos % 64) = B0
  have hB0lt : B0 < 2^64 := by rw [← hB0]; exact Nat.and_lt_two_pow _ (shlMax_lt _)
  have hB0bits : ∀ j, j < 64 → B0.testBit j = decide (pos % 64 ≤ j) := by
    intro j hj
    rw [← hB0, Nat.testBit_and, shlMax_testBit _ j (Nat.mod_lt _ (by decide)) hj, wnot_testBit 0 j (by decide) hj,
        Nat.zero_testBit]
    simp
  by_cases hk : 0 + popcountN c B0 > k
  · have hl : skipLoop c wnot bv k pos 0 B0 (bv.words.size + 1) = (pos, 0, some B0) := by
      simp only [skipLoop]
      rw [if_pos hk]
    simp only [hl]
    rw [dassert_ok c (pop_pos_ne_zero c B0 (by omega)), R9Index.bind_ok]
    obtain ⟨p, hp, p1, hS, _⟩ := sel_word c (fun i => B0.testBit i) 0 B0 k hB0lt
      (fun j hj => by rw [Nat.mul_zero, Nat.zero_add]) (by simp [cnt]) (by simp only [Nat.mul_zero, cnt]; omega)
    simp only [Nat.mul_zero, cnt, Nat.zero_add] at hp hS
    rw [Nat.sub_zero] at hp
    rw [Nat.sub_zero, hp]
    simp only []
    have hpp : pos % 64 ≤ p := by
      rw [hB0bits p p1] at hS; simpa using hS
    rw [if_neg (show ¬ pos / 64 * 64 + p < bv.len by omega)]
    refine ⟨_, rfl, ?_, ?_⟩
    · show wnot B0 &&& shlMax p = 0
      apply eq_zero_of_bits _ (Nat.and_lt_two_pow _ (shlMax_lt _))
      intro j hj
      rw [Nat.testBit_and, shlMax_testBit p j p1 hj, wnot_testBit _ j hB0lt hj, hB0bits j hj]
      by_cases hpj : p ≤ j
      · have : pos % 64 ≤ j := by omega
        simp [this]
      · simp [hpj]
    · show bv.len ≤ pos / 64 * 64 + p
      omega
  · have hl : skipLoop c wnot bv k pos 0 B0 (bv.words.size + 1) = (pos + 64, 0 + popcountN c B0, none) := by
      simp only [skipLoop]
      rw [if_neg hk, if_pos hc]
    simp only [hl]
    exact ⟨_, rfl, rfl, by show bv.len ≤ pos + 64; omega⟩

/-! ### iterating `next` -/

/-- the answers of `n` successive calls of `next` -/
def nexts (c : Cfg) (bv : BV) : Nat → UIter → R (List (Option Nat))
  | 0, _ => .ok []
  | n+1, it => (it.next c bv).bind fun r => (nexts c bv n r.1).bind fun l => .ok (r.2 :: l)

theorem nexts_done (c : Cfg) (bv : BV) (h : bv.Inv) (n : Nat) (it : UIter) (hd : Done bv it) :
    nexts c bv n it = .ok (List.replicate n none) := by
  induction n generalizing it with
  | zero => rfl
  | succ n ih =>
    obtain ⟨it', e, hd'⟩ := done_next c bv h it hd
    simp only [nexts]
    rw [e, R9Index.bind_ok]
    simp only []
    rw [ih it' hd', R9Index.bind_ok]
    rfl

theorem nexts_rep (c : Cfg) (bv : BV) (h : bv.Inv) (n : Nat) (it : UIter) (cur : Nat) (hr : Rep bv it cur) :
    nexts c bv n it = .ok ((List.range n).map (selFrom bv.bitAt bv.len cur)) := by
  induction n generalizing it cur with
  | zero => rfl
  | succ n ih =>
    obtain ⟨it', e, h1, h2⟩ := next_ok c bv h it cur hr
    simp only [nexts]
    rw [e, R9Index.bind_ok]
    simp only []
    rw [List.range_succ_eq_map, List.map_cons, List.map_map]
    cases hs : selFrom bv.bitAt bv.len cur 0 with
    | none =>
      rw [nexts_done c bv h n it' (h2 hs), R9Index.bind_ok]
      congr 2
      apply List.ext_getElem
      · simp
      · intro i hi1 hi2
        simp [selFrom_none_succ bv.bitAt bv.len cur (i + 1) hs]
    | some q =>
      rw [ih it' (q + 1) (h1 q hs).1, R9Index.bind_ok]
      congr 2
      apply List.map_congr_left
      intro i _
      exact selFrom_succ bv.bitAt bv.len cur q i hs

/-- **iteration**: `n` calls of `next` from `new bv p` answer with the `0`-th, `1`-st, … set position `≥ p`
    (increasing by `sel_lt_sel`, exhaustive by `selFrom_complete`), and `none` once these are used up -/
theorem nexts_new (c : Cfg) (bv : BV) (h : bv.Inv) (p n : Nat) :
    nexts c bv n (UIter.new bv p) = .ok ((List.range n).map (selFrom bv.bitAt bv.len p)) :=
  nexts_rep c bv h n _ p (new_rep bv p).rep

end UIter
end Sucds
