import Sucds.Proofs.DArrayLoop
/-! DArray, part 3: the filtered position list is indexed by `sel`. -/
set_option linter.unusedSimpArgs false
set_option linter.unusedVariables false
namespace Sucds
open Spec
namespace DAProof

theorem filter_range_length (P : Nat → Bool) (M : Nat) : ((List.range M).filter P).length = cnt P M := by
  rw [← List.countP_eq_length_filter, C14.countP_range]

theorem filter_range_getElem? (P : Nat → Bool) (M k : Nat) : ((List.range M).filter P)[k]? = sel P M k := by
  induction M with
  | zero => simp [sel]
  | succ M ih =>
    rw [List.range_succ, List.filter_append, List.getElem?_append, sel_succ, ← ih, filter_range_length]
    by_cases hk : k < cnt P M
    · rw [if_pos hk]
      have : k < ((List.range M).filter P).length := by rw [filter_range_length]; exact hk
      rw [List.getElem?_eq_getElem this]
    · rw [if_neg hk]
      have : ((List.range M).filter P).length ≤ k := by rw [filter_range_length]; omega
      rw [List.getElem?_eq_none this]
      simp only []
      cases hP : P M with
      | false => simp [hP]
      | true =>
        by_cases he : cnt P M = k
        · simp [hP, he]
        · have : k - cnt P M ≠ 0 := by omega
          simp [hP, he, this]

/-- the `k`-th position below `M` satisfying `P` (0 if there is none) -/
def nth (P : Nat → Bool) (M k : Nat) : Nat := (sel P M k).getD 0

theorem nth_isKth (P : Nat → Bool) (M k : Nat) (hk : k < cnt P M) : IsKth P M k (nth P M k) := by
  unfold nth
  cases hs : sel P M k with
  | none => have := sel_none_le _ _ _ hs; omega
  | some p => exact sel_isKth _ _ _ _ hs

theorem sel_eq_nth (P : Nat → Bool) (M k : Nat) (hk : k < cnt P M) : sel P M k = some (nth P M k) :=
  sel_eq_some _ _ _ _ (nth_isKth P M k hk)

theorem nth_mono (P : Nat → Bool) (M a b : Nat) (hab : a ≤ b) (hb : b < cnt P M) : nth P M a ≤ nth P M b := by
  obtain ⟨ha1, ha2, ha3⟩ := nth_isKth P M a (by omega)
  obtain ⟨hb1, hb2, hb3⟩ := nth_isKth P M b hb
  by_cases hq : nth P M a ≤ nth P M b
  · exact hq
  · have := cnt_lt_of_lt P (show nth P M b < nth P M a by omega) hb2
    omega

theorem filter_range_eq_map (P : Nat → Bool) (M : Nat) :
    (List.range M).filter P = (List.range' 0 (cnt P M)).map (nth P M) := by
  apply List.ext_getElem?
  intro k
  rw [filter_range_getElem?, List.getElem?_map]
  by_cases hk : k < cnt P M
  · rw [List.getElem?_range' hk, sel_eq_nth P M k hk]; simp
  · rw [List.getElem?_eq_none (by simp; omega), sel_eq_none P M k (by omega)]; rfl

theorem plist_eq_map (bv : BV) (o : Bool) :
    plist bv o 0 bv.len = (List.range' 0 (cnt (Pb bv o) bv.len)).map (nth (Pb bv o) bv.len) := by
  unfold plist
  rw [← List.range_eq_range', filter_range_eq_map]

end DAProof
end Sucds
