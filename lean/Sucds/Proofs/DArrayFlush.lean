import Sucds.Proofs.DArrayNth
/-! DArray, part 4: what `flush` writes, and the invariant of the build fold. -/
set_option linter.unusedSimpArgs false
set_option linter.unusedVariables false
namespace Sucds
open Spec
namespace DAProof

/-- later arrays keep earlier entries -/
abbrev Ext {α : Type} (a a' : Array α) : Prop := ∀ (i : Nat) (v : α), a[i]? = some v → a'[i]? = some v

theorem Ext.refl {α : Type} (a : Array α) : Ext a a := fun _ _ h => h
theorem Ext.trans {α : Type} {a b c : Array α} (h1 : Ext a b) (h2 : Ext b c) : Ext a c := fun i v h => h2 i v (h1 i v h)

theorem lt_of_getElem?_some {α : Type} (a : Array α) (i : Nat) (v : α) (h : a[i]? = some v) : i < a.size := by
  by_cases hi : i < a.size
  · exact hi
  · rw [Array.getElem?_eq_none (by omega)] at h; cases h

theorem Ext.push {α : Type} (a : Array α) (x : α) : Ext a (a.push x) := by
  intro i v h
  have := lt_of_getElem?_some a i v h
  rw [Array.getElem?_push, if_neg (by omega)]; exact h

theorem Ext.append {α : Type} (a b : Array α) : Ext a (a ++ b) := by
  intro i v h
  have := lt_of_getElem?_some a i v h
  rw [Array.getElem?_append, if_pos this]; exact h

theorem hS : Gen.DA_SUBBLOCK_LEN = 32 := rfl
theorem hB : Gen.DA_BLOCK_LEN = 1024 := rfl
theorem hD : Gen.DA_MAX_IN_BLOCK_DISTANCE = 65536 := rfl

theorem subPush_spec (cur : Array Nat) (first : Nat) (dense : Bool) : ∀ (fuel i : Nat) (sub : Array Nat),
    cur.size ≤ i + 32 * fuel →
    Ext sub (DAIndex.subPush cur first dense sub i fuel) ∧
    (DAIndex.subPush cur first dense sub i fuel).size = sub.size + (cur.size - i + 31) / 32 ∧
    ∀ t, i + 32 * t < cur.size → (DAIndex.subPush cur first dense sub i fuel)[sub.size + t]?
        = some (if dense then (wordAt cur (i + 32 * t) - first) % 65536 else 65535) := by
  intro fuel
  induction fuel with
  | zero =>
    intro i sub hf
    simp only [DAIndex.subPush]
    refine ⟨Ext.refl _, by omega, fun t ht => by omega⟩
  | succ fuel ih =>
    intro i sub hf
    simp only [DAIndex.subPush]
    by_cases hi : i < cur.size
    · rw [if_pos hi, hS]
      obtain ⟨e1, e2, e3⟩ := ih (i + 32) (sub.push (if dense then (wordAt cur i - first) % 65536 else 65535)) (by omega)
      refine ⟨Ext.trans (Ext.push _ _) e1, ?_, ?_⟩
      · rw [e2, Array.size_push]; omega
      · intro t ht
        cases t with
        | zero =>
          simp only [Nat.add_zero, Nat.mul_zero]
          apply e1
          rw [Array.getElem?_push, if_pos rfl]
        | succ t =>
          have := e3 t (by omega)
          rw [Array.size_push] at this
          rw [show sub.size + (t + 1) = sub.size + 1 + t by omega, this,
              show i + 32 + 32 * t = i + 32 * (t + 1) by omega]
    · rw [if_neg hi]
      refine ⟨Ext.refl _, by omega, fun t ht => by omega⟩

/-- what the index must hold for block `j` made of `n` positions `f (1024 j) … f (1024 j + n - 1)` -/
def BlockOK (f : Nat → Nat) (bi : Array Int) (si ov : Array Nat) (j n : Nat) : Prop :=
  if f (1024 * j + (n - 1)) - f (1024 * j) < 65536 then
    bi[j]? = some (Int.ofNat (f (1024 * j))) ∧
      ∀ t, 32 * t < n → si[32 * j + t]? = some (f (1024 * j + 32 * t) - f (1024 * j))
  else
    ∃ o, bi[j]? = some (-(Int.ofNat (o + 1))) ∧ ∀ t, t < n → ov[o + t]? = some (f (1024 * j + t))

theorem BlockOK.mono {f : Nat → Nat} {bi bi' : Array Int} {si si' ov ov' : Array Nat} {j n : Nat}
    (h1 : Ext bi bi') (h2 : Ext si si') (h3 : Ext ov ov') (h : BlockOK f bi si ov j n) : BlockOK f bi' si' ov' j n := by
  unfold BlockOK at h ⊢
  split
  · rename_i hd
    rw [if_pos hd] at h
    exact ⟨h1 _ _ h.1, fun t ht => h2 _ _ (h.2 t ht)⟩
  · rename_i hd
    rw [if_neg hd] at h
    obtain ⟨o, ho1, ho2⟩ := h
    exact ⟨o, h1 _ _ ho1, fun t ht => h3 _ _ (ho2 t ht)⟩

theorem flush_spec (f : Nat → Nat) (s : DAIndex.BSt) (j n : Nat) (hn0 : 0 < n) (hn : n ≤ 1024)
    (hmono : ∀ a b, a ≤ b → b < n → f (1024 * j + a) ≤ f (1024 * j + b))
    (hcur : s.cur.size = n) (hcurv : ∀ t, t < n → wordAt s.cur t = f (1024 * j + t))
    (hbi : s.blockInv.size = j) (hsi : s.subInv.size = 32 * j) :
    (DAIndex.flush s).cur = #[] ∧ (DAIndex.flush s).numPos = s.numPos ∧
    Ext s.blockInv (DAIndex.flush s).blockInv ∧ Ext s.subInv (DAIndex.flush s).subInv ∧
    Ext s.overflow (DAIndex.flush s).overflow ∧
    (DAIndex.flush s).blockInv.size = j + 1 ∧ (DAIndex.flush s).subInv.size = 32 * j + (n + 31) / 32 ∧
    BlockOK f (DAIndex.flush s).blockInv (DAIndex.flush s).subInv (DAIndex.flush s).overflow j n := by
  have hfirst : wordAt s.cur 0 = f (1024 * j) := hcurv 0 hn0
  have hlast : wordAt s.cur (s.cur.size - 1) = f (1024 * j + (n - 1)) := by rw [hcur]; exact hcurv (n - 1) (by omega)
  by_cases hd : f (1024 * j + (n - 1)) - f (1024 * j) < 65536
  · have hd' : wordAt s.cur (s.cur.size - 1) - wordAt s.cur 0 < Gen.DA_MAX_IN_BLOCK_DISTANCE := by
      rw [hfirst, hlast, hD]; exact hd
    unfold DAIndex.flush
    simp only []
    rw [if_pos hd']
    simp only []
    obtain ⟨e1, e2, e3⟩ := subPush_spec s.cur (wordAt s.cur 0) true s.cur.size 0 s.subInv (by omega)
    refine ⟨trivial, trivial, Ext.push _ _, e1, Ext.refl _, by rw [Array.size_push, hbi], ?_, ?_⟩
    · rw [e2, hsi, hcur, Nat.sub_zero]
    · unfold BlockOK
      rw [if_pos hd]
      refine ⟨by rw [Array.getElem?_push, if_pos hbi.symm, hfirst], ?_⟩
      intro t ht
      have := e3 t (by omega)
      rw [hsi, if_pos rfl, Nat.zero_add, hcurv _ ht] at this
      rw [this, hfirst]
      have h1 := hmono (32 * t) (n - 1) (by omega) (by omega)
      have h2 := hmono 0 (32 * t) (by omega) (by omega)
      rw [Nat.add_zero] at h2
      rw [Nat.mod_eq_of_lt (by omega)]
  · have hd' : ¬ wordAt s.cur (s.cur.size - 1) - wordAt s.cur 0 < Gen.DA_MAX_IN_BLOCK_DISTANCE := by
      rw [hfirst, hlast, hD]; exact hd
    unfold DAIndex.flush
    simp only []
    rw [if_neg hd']
    simp only []
    obtain ⟨e1, e2, e3⟩ := subPush_spec s.cur (wordAt s.cur 0) false s.cur.size 0 s.subInv (by omega)
    refine ⟨trivial, trivial, Ext.push _ _, e1, Ext.append _ _, by rw [Array.size_push, hbi], ?_, ?_⟩
    · rw [e2, hsi, hcur, Nat.sub_zero]
    · unfold BlockOK
      rw [if_neg hd]
      refine ⟨s.overflow.size, by rw [Array.getElem?_push, if_pos hbi.symm], ?_⟩
      intro t ht
      rw [Array.getElem?_append, if_neg (by omega), Nat.add_sub_cancel_left, ← hcurv t ht]
      unfold wordAt
      rw [Array.getElem?_eq_getElem (by omega)]; rfl

end DAProof
end Sucds
