import Sucds.Model.Rank9
import Sucds.Proofs.C14Pop
import Sucds.Proofs.BitVector
set_option linter.unusedSimpArgs false
set_option linter.unusedVariables false
namespace Sucds
open Spec

/-! ### the broadword wrappers, by C14 -/
theorem bitsOf_ofNat (w i : Nat) (hw : w < 2^64) : Broadword.bitsOf (BitVec.ofNat 64 w) i = (decide (i < 64) && w.testBit i) := by
  unfold Broadword.bitsOf
  rw [BitVec.getLsbD_ofNat]

theorem popcountN_eq (c : Cfg) (w : Nat) (hw : w < 2^64) : popcountN c w = cnt (fun i => w.testBit i) 64 := by
  unfold popcountN
  rw [C14.popcount_ok]
  exact cnt_congr _ _ 64 (fun i hi => by rw [bitsOf_ofNat w i hw]; simp [hi])

theorem popcountN_le (c : Cfg) (w : Nat) (hw : w < 2^64) : popcountN c w ≤ 64 := by
  rw [popcountN_eq c w hw]; exact cnt_le _ 64

namespace R9Index

/-- number of set bits in the first `i` words -/
def prefixPop (c : Cfg) (ws : Array Nat) : Nat → Nat
  | 0 => 0
  | i+1 => prefixPop c ws i + popcountN c (wordAt ws i)

theorem prefixPop_mono (c : Cfg) (ws : Array Nat) {i j : Nat} (h : i ≤ j) : prefixPop c ws i ≤ prefixPop c ws j := by
  induction j with
  | zero => have : i = 0 := by omega
            subst this; exact Nat.le_refl _
  | succ j ih =>
    by_cases hij : i = j + 1
    · subst hij; exact Nat.le_refl _
    · have := ih (by omega); simp only [prefixPop]; omega

theorem prefixPop_le (c : Cfg) (ws : Array Nat) (hw : ∀ i, wordAt ws i < 2^64) (i k : Nat) :
    prefixPop c ws (i + k) ≤ prefixPop c ws i + 64 * k := by
  induction k with
  | zero => simp
  | succ k ih =>
    rw [show i + (k+1) = i + k + 1 by omega]
    simp only [prefixPop]
    have := popcountN_le c (wordAt ws (i + k)) (hw _)
    omega

def packTo (e : Nat → Nat) : Nat → Nat
  | 0 => 0
  | k+1 => packTo e k * 512 + e (k+1)

/-- in-block prefix count -/
def inBlk (c : Cfg) (ws : Array Nat) (b j : Nat) : Nat := prefixPop c ws (8*b + j) - prefixPop c ws (8*b)

theorem inBlk_lt (c : Cfg) (ws : Array Nat) (hw : ∀ i, wordAt ws i < 2^64) (b j : Nat) (hj : j ≤ 7) : inBlk c ws b j < 512 := by
  unfold inBlk
  have := prefixPop_le c ws hw (8*b) j
  omega

/-- the directory entries produced for the first `b` full blocks -/
def specList (c : Cfg) (ws : Array Nat) : Nat → List Nat
  | 0 => [0]
  | b+1 => specList c ws b ++ [packTo (inBlk c ws b) 7, prefixPop c ws (8*(b+1))]

theorem specList_length (c : Cfg) (ws : Array Nat) (b : Nat) : (specList c ws b).length = 2 * b + 1 := by
  induction b with
  | zero => rfl
  | succ b ih => simp [specList, ih]; omega

def Inv (c : Cfg) (ws : Array Nat) (i : Nat) (s : St) : Prop :=
  s.nextRank = prefixPop c ws i ∧ s.curSub = inBlk c ws (i/8) (i%8) ∧
  s.subranks = packTo (inBlk c ws (i/8)) (i%8 - 1) ∧ s.out.toList = specList c ws (i/8)

theorem shl_or (a x : Nat) (hx : x < 512) : (a <<< 9) ||| x = a * 512 + x := by
  rw [← Nat.shiftLeft_add_eq_or_of_lt (by simpa using hx), Nat.shiftLeft_eq]

theorem hB : Gen.R9_BLOCK_LEN = 8 := rfl

theorem inv_step (c : Cfg) (ws : Array Nat) (hw : ∀ i, wordAt ws i < 2^64) (i : Nat) (s : St) (h : Inv c ws i s) :
    Inv c ws (i+1) (step c s i (wordAt ws i)) := by
  obtain ⟨h1, h2, h3, h4⟩ := h
  have hpp : prefixPop c ws (i+1) = prefixPop c ws i + popcountN c (wordAt ws i) := rfl
  have hdm : 8 * (i / 8) + i % 8 = i := Nat.div_add_mod i 8
  have hlt := inBlk_lt c ws hw (i/8) (i%8) (by omega)
  have hmono : prefixPop c ws (8 * (i/8)) ≤ prefixPop c ws i := prefixPop_mono c ws (by omega)
  unfold step
  simp only [hB]
  by_cases h7 : i % 8 = 7
  · have hb : (i+1) / 8 = i / 8 + 1 := by omega
    have hr : (i+1) % 8 = 0 := by omega
    simp only [h7, if_true, ne_eq, not_false_eq_true, show (7:Nat) ≠ 0 by decide, show (8:Nat) - 1 = 7 by rfl]
    refine ⟨?_, ?_, ?_, ?_⟩
    · simp only []; rw [h1, hpp]
    · simp only [hb, hr]; unfold inBlk; simp
    · simp only [hb, hr]; rfl
    · simp only [hb, Array.toList_push, h4, specList, List.append_assoc, List.cons_append, List.nil_append]
      rw [shl_or _ _ (by rw [h2]; exact hlt), h3, h2, h7, h1]
      have : 8 * (i / 8 + 1) = i + 1 := by omega
      rw [this, hpp]
      rfl
  · have hb : (i+1) / 8 = i / 8 := by omega
    have hr : (i+1) % 8 = i % 8 + 1 := by omega
    have h7' : ¬ (i % 8 = 8 - 1) := by omega
    simp only [h7', if_false]
    refine ⟨?_, ?_, ?_, ?_⟩
    · simp only []; rw [h1, hpp]
    · simp only [hb, hr, h2]; unfold inBlk
      rw [show 8 * (i/8) + (i % 8 + 1) = i + 1 by omega, hpp, hdm]; omega
    · simp only [hb, hr]
      by_cases h0 : i % 8 = 0
      · simp only [h0, ne_eq, not_true_eq_false, if_false, h3]
      · simp only [ne_eq, h0, not_false_eq_true, if_true]
        rw [shl_or _ _ (by rw [h2]; exact hlt), h3, h2]
        have : i % 8 + 1 - 1 = (i % 8 - 1) + 1 := by omega
        rw [this]; simp only [packTo]
        have e : i % 8 - 1 + 1 = i % 8 := by omega
        rw [e]
    · simp only [hb, h4]

theorem inv_run (c : Cfg) (ws : Array Nat) (hw : ∀ i, wordAt ws i < 2^64) (fuel i : Nat) (s : St) (h : Inv c ws i s)
    (hf : ws.size ≤ i + fuel) (hi : i ≤ ws.size) : Inv c ws ws.size (run c ws i s fuel) := by
  induction fuel generalizing i s with
  | zero => have : i = ws.size := by omega
            subst this; simpa [run] using h
  | succ f ih =>
    unfold run
    split
    · exact ih (i+1) _ (inv_step c ws hw i s h) (by omega) (by omega)
    · have : i = ws.size := by omega
      subst this; exact h

theorem inv_init (c : Cfg) (ws : Array Nat) : Inv c ws 0 ⟨0, 0, 0, #[0]⟩ := by
  refine ⟨rfl, ?_, rfl, rfl⟩
  simp [inBlk]

theorem packTo_congr (e e' : Nat → Nat) (k : Nat) (h : ∀ j, 1 ≤ j → j ≤ k → e j = e' j) : packTo e k = packTo e' k := by
  induction k with
  | zero => rfl
  | succ k ih =>
    simp only [packTo]
    rw [ih (fun j h1 h2 => h j h1 (by omega)), h (k+1) (by omega) (by omega)]

/-- counters `e 1 .. e k`, then `tot` repeated -/
def ext (e : Nat → Nat) (k tot : Nat) : Nat → Nat := fun j => if j ≤ k then e j else tot

/-- the padding loop fills the remaining counters of the last block with the block total -/
theorem pad_spec (tot : Nat) (ht : tot < 512) (n : Nat) : ∀ (e : Nat → Nat) (k : Nat),
    pad (packTo e k) tot n = packTo (ext e k tot) (k + n) := by
  induction n with
  | zero =>
    intro e k
    simp only [pad, Nat.add_zero]
    exact packTo_congr _ _ k (fun j _ h2 => by simp [ext, h2])
  | succ n ih =>
    intro e k
    simp only [pad]
    rw [shl_or _ _ ht]
    have e1 : packTo e k * 512 + tot = packTo (ext e k tot) (k+1) := by
      simp only [packTo]
      rw [packTo_congr (ext e k tot) e k (fun j _ h2 => by simp [ext, h2])]
      have : ¬ (k + 1 ≤ k) := by omega
      simp [ext, this]
    rw [e1, ih (ext e k tot) (k+1)]
    rw [show k + 1 + n = k + (n + 1) by omega]
    apply packTo_congr
    intro j _ _
    simp only [ext]
    by_cases hj : j ≤ k
    · have : j ≤ k + 1 := by omega
      simp [hj, this]
    · by_cases hj1 : j ≤ k + 1
      · simp [hj, hj1]
      · simp [hj, hj1]

end R9Index
end Sucds
