import Sucds.Proofs.Lst
namespace WMr
open L

def bitOf (sh x : Nat) : Bool := x.testBit sh
def nbitOf (sh x : Nat) : Bool := !x.testBit sh

/-- one wavelet-matrix step: stable partition, zeros first -/
def part (sh : Nat) (S : List Nat) : List Nat := S.filter (nbitOf sh) ++ S.filter (bitOf sh)

theorem part_length (sh : Nat) (S : List Nat) : (part sh S).length = S.length := by
  simp only [part, List.length_append]
  have := List.length_eq_countP_add_countP (bitOf sh) (l := S)
  simp only [List.countP_eq_length_filter] at this
  have e : (fun a => decide ¬ bitOf sh a = true) = nbitOf sh := by
    funext a; simp [nbitOf, bitOf]
  rw [e] at this; omega

theorem count_le_take (f : Nat → Bool) (l : List Nat) (p : Nat) : (l.take p).countP f ≤ l.countP f :=
  List.Sublist.countP_le (List.take_sublist _ _)

/-- zero side: the zeros of S[st..en) are the slice [rank0 st, rank0 en) of the partitioned sequence -/
theorem step_false (sh : Nat) (S : List Nat) (st en : Nat) (hle : st ≤ en) :
    ((part sh S).take ((S.take en).countP (nbitOf sh))).drop ((S.take st).countP (nbitOf sh))
      = ((S.take en).drop st).filter (nbitOf sh) := by
  have hle2 : (S.take en).countP (nbitOf sh) ≤ (S.filter (nbitOf sh)).length := by
    rw [← List.countP_eq_length_filter]; exact count_le_take _ _ _
  rw [filter_slice (nbitOf sh) S st en hle]
  simp only [part]
  rw [List.take_append_of_le_length hle2]

/-- one side: shifted by the number of zeros -/
theorem step_true (sh : Nat) (S : List Nat) (st en : Nat) (hle : st ≤ en) :
    ((part sh S).take (S.countP (nbitOf sh) + (S.take en).countP (bitOf sh))).drop
        (S.countP (nbitOf sh) + (S.take st).countP (bitOf sh))
      = ((S.take en).drop st).filter (bitOf sh) := by
  rw [filter_slice (bitOf sh) S st en hle]
  simp only [part]
  have hZ : (S.filter (nbitOf sh)).length = S.countP (nbitOf sh) := by rw [List.countP_eq_length_filter]
  rw [← hZ, List.take_append, List.drop_append]
  simp

/-- the sequence order at depth d (S₀ = s) -/
def seqAt (w : Nat) (s : List Nat) : Nat → List Nat
  | 0 => s
  | d+1 => part (w - 1 - d) (seqAt w s d)

theorem seqAt_length (w : Nat) (s : List Nat) (d : Nat) : (seqAt w s d).length = s.length := by
  induction d with
  | zero => rfl
  | succ d ih => simp only [seqAt, part_length, ih]

/-- position mapping of `rank_range` for one layer, in terms of the layer's rank0/rank1/num_zeros -/
def stepPos (w : Nat) (s : List Nat) (v d p : Nat) : Nat :=
  if bitOf (w - 1 - d) v then
    (seqAt w s d).countP (nbitOf (w - 1 - d)) + ((seqAt w s d).take p).countP (bitOf (w - 1 - d))
  else ((seqAt w s d).take p).countP (nbitOf (w - 1 - d))

def walk (w : Nat) (s : List Nat) (v : Nat) : Nat → Nat → Nat
  | 0, p => p
  | d+1, p => stepPos w s v d (walk w s v d p)

/-- x agrees with v on the top d of the w low bits -/
def agree (w v d x : Nat) : Bool := (List.range d).all (fun t => bitOf (w - 1 - t) x == bitOf (w - 1 - t) v)

theorem agree_succ (w v d x : Nat) : agree w v (d+1) x = (agree w v d x && (bitOf (w - 1 - d) x == bitOf (w - 1 - d) v)) := by
  simp [agree, List.range_succ, List.all_append]

/-- the slice [walk a, walk b) at depth d is exactly the sub-sequence of s[a..b) agreeing with v on d bits -/
theorem slice_inv (w : Nat) (s : List Nat) (v a b : Nat) (hab : a ≤ b) (d : Nat) :
    walk w s v d a ≤ walk w s v d b ∧
    ((seqAt w s d).take (walk w s v d b)).drop (walk w s v d a) = ((s.take b).drop a).filter (agree w v d) := by
  induction d with
  | zero =>
    refine ⟨hab, ?_⟩
    have : agree w v 0 = fun _ => true := by funext x; simp [agree]
    simp only [walk, seqAt, this]
    exact (List.filter_eq_self.mpr (fun _ _ => rfl)).symm
  | succ d ih =>
    obtain ⟨hle, hsl⟩ := ih
    have hfilt : ((s.take b).drop a).filter (agree w v (d+1)) =
        (((s.take b).drop a).filter (agree w v d)).filter (fun x => bitOf (w - 1 - d) x == bitOf (w - 1 - d) v) := by
      rw [List.filter_filter]
      congr 1; funext x; rw [agree_succ, Bool.and_comm]
    rw [hfilt, ← hsl]
    by_cases hb : bitOf (w - 1 - d) v = true
    · have e1 : (fun x => bitOf (w - 1 - d) x == bitOf (w - 1 - d) v) = bitOf (w - 1 - d) := by
        funext x; rw [hb]; cases bitOf (w - 1 - d) x <;> rfl
      have hmono := count_take_le (bitOf (w - 1 - d)) (seqAt w s d) hle
      refine ⟨by simp only [walk, stepPos, hb, if_true]; omega, ?_⟩
      rw [e1, ← step_true (w - 1 - d) (seqAt w s d) _ _ hle]
      simp only [walk, stepPos, hb, if_true, seqAt]
    · have hb' : bitOf (w - 1 - d) v = false := by simpa using hb
      have e1 : (fun x => bitOf (w - 1 - d) x == bitOf (w - 1 - d) v) = nbitOf (w - 1 - d) := by
        funext x; rw [hb']; simp [nbitOf, bitOf]
      have hmono := count_take_le (nbitOf (w - 1 - d)) (seqAt w s d) hle
      refine ⟨by simp only [walk, stepPos, hb']; simpa using hmono, ?_⟩
      rw [e1, ← step_false (w - 1 - d) (seqAt w s d) _ _ hle]
      simp only [walk, stepPos, hb', seqAt]; simp

theorem walk_le (w : Nat) (s : List Nat) (v : Nat) (d p : Nat) (hp : p ≤ s.length) : walk w s v d p ≤ s.length := by
  induction d with
  | zero => exact hp
  | succ d ih =>
    simp only [walk, stepPos]
    have hlen := seqAt_length w s d
    have hsplit := List.length_eq_countP_add_countP (bitOf (w - 1 - d)) (l := seqAt w s d)
    have e : (fun a => decide ¬ bitOf (w - 1 - d) a = true) = nbitOf (w - 1 - d) := by
      funext a; simp [nbitOf, bitOf]
    rw [e] at hsplit
    split
    · have h2 := count_le_take (bitOf (w - 1 - d)) (seqAt w s d) (walk w s v d p)
      omega
    · have h2 := count_le_take (nbitOf (w - 1 - d)) (seqAt w s d) (walk w s v d p)
      have := List.countP_le_length (p := nbitOf (w - 1 - d)) (l := seqAt w s d)
      omega

/-- rank_range: the width of the final slice is the number of elements of s[a..b) agreeing with v on all w bits -/
theorem rank_range_ok (w : Nat) (s : List Nat) (v a b : Nat) (hab : a ≤ b) (hb : b ≤ s.length) :
    walk w s v w b - walk w s v w a = (((s.take b).drop a).filter (agree w v w)).length := by
  obtain ⟨hle, hsl⟩ := slice_inv w s v a b hab w
  rw [← hsl, List.length_drop, List.length_take]
  have := walk_le w s v w b hb
  rw [seqAt_length]; omega

end WMr
