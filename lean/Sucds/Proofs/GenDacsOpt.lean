import Sucds.Gen.Fns
import Sucds.Proofs.GenDacsByte
import Sucds.Proofs.GenDacsWidths
import Sucds.Proofs.GenBitVectorScan
import Sucds.Proofs.GenCompactVector
import Sucds.Proofs.C09GenAux
import Sucds.Proofs.GenRank9Sel
import Sucds.Proofs.GenIterators
import Sucds.Proofs.DacsAccess
import Sucds.Proofs.DacsOptWidths
import Sucds.Props.C10
import Sucds.Props.C18
/-! # The functions generated from `src/int_vectors/dacs_opt.rs` agree with the model `DacO`

`Sucds.GenFn.DacsOpt.{from_slice, build_from_slice, build, default, access, len, num_vals, is_empty, num_levels, widths,
iter}` and `Sucds.GenFn.dacs_opt_Iter.{new, next, size_hint}` (generated) versus `Sucds.DacO.{fromSlice, build, default,
access, len, numLevels, widths}` (hand-written model, `Sucds/Model/Dacs.lean`) and the index-iterator model `IndexIter`.
`compute_opt_widths` is `GenDacsWidths.compute_opt_widths_eq'`.

* `dacs_opt_build_eq`: `build` = model for every valid split (non-empty, positive widths, sum ≤ 64, covering all values)
  — the only way `from_slice` calls this private function; both code paths (single-level shortcut, general loop).
* `dacs_opt_from_slice_eq`: `from_slice` = model, including `Err` for `max_levels ∉ 1..=64`.
* `dacs_opt_access_eq`: `access` = `DacO.access` on every structure satisfying `DacOInv` (implied by the invariant
  `DacO.Rep` of the C10 proofs), every `usize` index.
* `dacs_opt_c10`, `dacs_opt_c18`: the right-hand sides of `Props/C10.lean`, of the `DacsOpt` clause of `Props/C17.lean`
  and of `Props/C18.lean`, stated for the generated functions.

Outside the hypotheses of `dacs_opt_build_eq` the private `build` and the model differ, as expected (see the end of the
file): the code asserts that the widths cover the value and pushes the unmasked value in the single-level shortcut; the
model masks every chunk. -/
set_option linter.unusedSimpArgs false
set_option linter.unusedVariables false
namespace Sucds.GenEq
open Sucds Sucds.Dac

/-! ## `DacsOpt`: accessors -/
theorem dacs_opt_default_eq : GenFn.DacsOpt.default = DacO.default := rfl

theorem dacs_opt_len_eq (d : DacO) : GenFn.DacsOpt.len d = d.len := by
  unfold GenFn.DacsOpt.len DacO.len RS.index
  cases d.data[0]? <;> rfl
theorem dacs_opt_num_vals_eq (d : DacO) : GenFn.DacsOpt.num_vals d = d.len := dacs_opt_len_eq d
theorem dacs_opt_is_empty_eq (d : DacO) : GenFn.DacsOpt.is_empty d = d.len.bind fun n => .ok (n == 0) := by
  unfold GenFn.DacsOpt.is_empty
  rw [dacs_opt_len_eq]
theorem dacs_opt_num_levels_eq (d : DacO) : GenFn.DacsOpt.num_levels d = d.numLevels := rfl
theorem dacs_opt_widths_eq (d : DacO) : (GenFn.DacsOpt.widths d).toList = d.widths := by
  unfold GenFn.DacsOpt.widths DacO.widths
  rw [Array.toList_map]; rfl
theorem dacs_opt_iter_eq (d : DacO) : GenFn.DacsOpt.iter d = ⟨d, 0⟩ := rfl
theorem dacs_opt_iter_new_eq (d : DacO) : GenFn.dacs_opt_Iter.new d = ⟨d, 0⟩ := rfl

/-! ## `DacsOpt::access` -/

/-- what `access` needs of the structure: every level is a compact vector of width at most 64 whose bit length fits
    a `usize`, the accumulated shift `64 * levels` fits a `usize`, and a flag vector built by `Rank9Sel::new` from a
    well-formed bit vector sits under every level but the last.  Implied by the representation invariant `DacO.Rep`
    of the model proofs, hence true of every `from_slice`/`build` result. -/
structure DacOInv (c : Cfg) (d : DacO) : Prop where
  levels : d.data.size * 64 < 2^64
  data : ∀ (j : Nat) (cv : CV), d.data[j]? = some cv → cv.width ≤ 64 ∧ cv.len * cv.width < 2^64
  flags : ∀ j, j + 1 < d.data.size → ∃ bv, d.flags[j]? = some (R9.new c bv) ∧ bv.Inv

/-- the body of the level loop of `access`, as generated -/
def dacoAccBody (c : Cfg) (self : DacO) : Nat → Nat × Nat × Nat → R (RS.Step (Nat × Nat × Nat) (Option Nat)) := fun j st =>
  let x := st.1
  let pos1 := st.2.1
  let width := st.2.2
  (RS.index self.data j).bind fun t1 =>
  (GenFn.CompactVector.access c t1 pos1).bind fun t2 =>
  (RS.unwrap t2).bind fun t3 =>
  (cshl c t3 width).bind fun t4 =>
  let x1 := (x ||| t4)
  (csub c (GenFn.DacsOpt.num_levels self) 1).bind fun t5 =>
  (if (j == t5) then .ok true else
    (RS.index self.flags j).bind fun t6 =>
    (GenFn.Rank9Sel.access c t6 pos1).bind fun t7 =>
    (RS.unwrap t7).bind fun t8 =>
    .ok (!t8) : R _).bind fun b =>
  if b = true then
    .ok (.brk (x1, pos1, width))
  else
    (RS.index self.flags j).bind fun t9 =>
    (GenFn.Rank9Sel.rank1 c t9 pos1).bind fun t10 =>
    (RS.unwrap t10).bind fun t11 =>
    (RS.index self.data j).bind fun t12 =>
    (cadd c width (GenFn.CompactVector.width t12)).bind fun width1 =>
    .ok (.next (x1, t11, width1))

def dacoAccTail (ex : RS.Exit (Nat × Nat × Nat) (Option Nat)) : R (Option Nat) :=
  match ex with
    | .ret rv => .ok rv
    | .done st1 => .ok (some st1.1)

theorem dacs_opt_access_unfold (c : Cfg) (d : DacO) (pos : Nat) :
    GenFn.DacsOpt.access c d pos =
      (GenFn.DacsOpt.len d).bind fun t =>
        if t ≤ pos then .ok none
        else (RS.forCountB (dacoAccBody c d) 0 (d.data.size - 0) (0, pos, 0)).bind dacoAccTail := rfl

/-- the level loop is the model's `walk` -/
theorem daco_walk_eq (c : Cfg) (d : DacO) (h : DacOInv c d) :
    ∀ (fuel j pos x width : Nat), j + fuel = d.data.size → pos < 2^64 → width ≤ 64 * j →
      (RS.forCountB (dacoAccBody c d) j fuel (x, pos, width)).bind dacoAccTail
        = (DacO.walk c d j pos x width fuel).bind fun x => .ok (some x) := by
  intro fuel
  induction fuel with
  | zero => intro j pos x width _ _ _; rfl
  | succ fuel ih =>
    intro j pos x width hj hpos hwd
    have hlev := h.levels
    rw [forCountB_succ]
    unfold DacO.walk
    conv => lhs; arg 1; arg 1; unfold dacoAccBody
    have hnl : d.numLevels = d.data.size := rfl
    simp only [GenFn.DacsOpt.num_levels, GenFn.CompactVector.width]
    cases hd : d.data[j]? with
    | none => rw [index_none _ _ hd]; rfl
    | some lv =>
      obtain ⟨hw64, hsz⟩ := h.data j lv hd
      rw [index_some _ _ _ hd, bok, cv_access_eq c lv hsz pos]
      simp only []
      rw [unwrapO_bind]
      cases hg : lv.getInt pos with
      | error e => rfl
      | ok o =>
        cases o with
        | none => rfl
        | some v =>
          rw [bok, bok, db_unwrap_some, bok, bok]
          cases hs : cshl c v width with
          | error e => rfl
          | ok sv =>
            rw [bok, bok, csub_ok c (by omega : 1 ≤ d.data.size), bok]
            by_cases hlast : j = d.numLevels - 1
            · have e : (j == d.data.size - 1) = true := by simp [hlast, hnl]
              rw [if_pos hlast, e, if_pos rfl, bok, if_pos rfl, bok]
              rfl
            · have e : (j == d.data.size - 1) = false := by rw [hnl] at hlast; simp [hlast]
              rw [if_neg hlast, e, if_neg (by simp)]
              obtain ⟨bv, hfl, hinv⟩ := h.flags j (by omega)
              rw [index_some _ _ _ hfl, bok, hfl]
              simp only []
              rw [rs_access_eq, unwrapO_bind]
              cases ha : (R9.new c bv).access pos with
              | error e => rfl
              | ok o =>
                cases o with
                | none => rfl
                | some bit =>
                  cases bit with
                  | false => rfl
                  | true =>
                    simp only [bok, db_unwrap_some, Bool.not_true, Bool.false_eq_true, if_false]
                    rw [rs_rank1_eq c (R9.new c bv) hinv rfl pos hpos, unwrapO_bind]
                    have hr : (R9.new c bv).rank1 c pos
                        = .ok (if pos ≤ bv.len then some (Spec.cnt bv.bitAt pos) else none) :=
                      R9Index.rank1_ok c bv hinv pos
                    rw [hr]
                    by_cases hp : pos ≤ bv.len
                    · rw [if_pos hp]
                      simp only [bok, db_unwrap_some]
                      rw [cadd_ok c (by omega : width + lv.width < 2^64), bok, bok]
                      have hc : Spec.cnt bv.bitAt pos ≤ pos := Spec.cnt_le _ _
                      exact ih (j + 1) _ _ _ (by omega) (by omega) (by omega)
                    · rw [if_neg hp]; rfl

/-- **`DacsOpt::access`**: generated = model, on every structure satisfying the invariant, every `usize` index -/
theorem dacs_opt_access_eq (c : Cfg) (d : DacO) (h : DacOInv c d) (pos : Nat) (hpos : pos < 2^64) :
    GenFn.DacsOpt.access c d pos = d.access c pos := by
  rw [dacs_opt_access_unfold, dacs_opt_len_eq]
  unfold DacO.access
  cases d.len with
  | error e => rfl
  | ok n =>
    rw [bok, bok]
    by_cases hn : n ≤ pos
    · rw [if_pos hn, if_pos hn]
    · rw [if_neg hn, if_neg hn, Nat.sub_zero]
      exact daco_walk_eq c d h d.data.size 0 pos 0 0 (by omega) hpos (by omega)

theorem mul_le_2_63 {a w : Nat} (ha : a ≤ 2^57) (hw : w ≤ 64) : a * w ≤ 2^63 :=
  calc a * w ≤ 2^57 * 64 := Nat.mul_le_mul ha hw
    _ = 2^63 := by decide

theorem daco_inv_of_rep (c : Cfg) (ws vs : List Nat) (d : DacO) (hr : DacO.Rep c ws vs d) (h64 : ws.length ≤ 64)
    (hn : vs.length ≤ 2^57) : DacOInv c d := by
  refine ⟨by rw [hr.dsize]; omega, ?_, ?_⟩
  · intro j cv hcv
    have hj : j < ws.length := by rw [← hr.dsize]; exact get_lt_size _ _ _ hcv
    obtain ⟨cv', h1, h2, h3⟩ := hr.data j hj
    rw [hcv] at h1; cases h1
    refine ⟨h3.wle, ?_⟩
    have hl : cv.len ≤ 2^57 := by
      rw [h3.len, List.length_map]
      exact Nat.le_trans (lev_length_le ws vs j) hn
    have := mul_le_2_63 hl h3.wle
    omega
  · intro j hj
    obtain ⟨bv, h1, h2, _⟩ := hr.flags j (by rw [← hr.dsize]; exact hj)
    exact ⟨bv, h1, h2⟩

/-! ## `dacs_opt::Iter` -/
open Sucds.IndexIter

def doAbs (it : GenFn.dacs_opt_Iter) : It := ⟨it.pos⟩

theorem daco_iter_next_eq (c : Cfg) (it : GenFn.dacs_opt_Iter) (xs : List Nat) (hI : DacOInv c it.seq)
    (hlen : it.seq.len = .ok xs.length) (hacc : ∀ i, it.seq.access c i = .ok xs[i]?) (hl : xs.length < 2^64) :
    GenFn.dacs_opt_Iter.next c it =
      .ok (⟨it.seq, (IndexIter.next xs.length (fun i => C17.okv (it.seq.access c i)) (doAbs it)).2.pos⟩,
           (IndexIter.next xs.length (fun i => C17.okv (it.seq.access c i)) (doAbs it)).1) := by
  obtain ⟨d, pos⟩ := it
  simp only [] at hI hlen hacc
  show ((GenFn.DacsOpt.len d).bind fun t => (if pos < t then
      (GenFn.DacsOpt.access c d pos).bind fun t1 => (RS.unwrap t1).bind fun x => (cadd c pos 1).bind fun p =>
        .ok ((⟨d, p⟩ : GenFn.dacs_opt_Iter), some x)
    else .ok (⟨d, pos⟩, none) : R _).bind fun j => .ok (j.1, j.2)) = _
  unfold IndexIter.next doAbs
  rw [dacs_opt_len_eq, hlen, bok]
  by_cases hp : pos < xs.length
  · rw [if_pos hp, if_pos hp, dacs_opt_access_eq c d hI pos (by omega), hacc pos, List.getElem?_eq_getElem hp, bok,
      db_unwrap_some, bok, cadd_ok c (by omega), bok, bok]
    simp only [C17.okv, hacc pos, List.getElem?_eq_getElem hp]
  · rw [if_neg hp, if_neg hp, bok]

theorem daco_iter_size_hint_eq (c : Cfg) (it : GenFn.dacs_opt_Iter) (n : Nat) (hlen : it.seq.len = .ok n)
    (hp : it.pos ≤ n) :
    GenFn.dacs_opt_Iter.size_hint c it = .ok (IndexIter.sizeHint n (doAbs it)) := by
  unfold GenFn.dacs_opt_Iter.size_hint IndexIter.sizeHint doAbs
  rw [dacs_opt_len_eq, hlen, bok, csub_ok c hp, bok]

/-- `n` calls of the generated `next`, each preceded by the generated `size_hint` -/
def doRunN (c : Cfg) : GenFn.dacs_opt_Iter → Nat → R (List (Option Nat × (Nat × Option Nat)))
  | _, 0 => .ok []
  | it, n+1 =>
    (GenFn.dacs_opt_Iter.size_hint c it).bind fun sh =>
    (GenFn.dacs_opt_Iter.next c it).bind fun r =>
    (doRunN c r.1 n).bind fun l => .ok ((r.2, sh) :: l)

theorem daco_iter_runN (c : Cfg) (d : DacO) (xs : List Nat) (hI : DacOInv c d)
    (hlen : d.len = .ok xs.length) (hacc : ∀ i, d.access c i = .ok xs[i]?) (hl : xs.length < 2^64) :
    ∀ (n pos : Nat), pos ≤ xs.length →
      doRunN c ⟨d, pos⟩ n = .ok (runN xs.length (fun i => C17.okv (d.access c i)) ⟨pos⟩ n) := by
  intro n
  induction n with
  | zero => intro pos _; rfl
  | succ n ih =>
    intro pos hp
    simp only [doRunN, runN]
    rw [daco_iter_size_hint_eq c ⟨d, pos⟩ xs.length hlen hp, bok, daco_iter_next_eq c ⟨d, pos⟩ xs hI hlen hacc hl, bok]
    simp only [doAbs]
    rw [ih _ (indexNext_pos_le xs.length _ ⟨pos⟩ hp), bok]

/-- C17 for the generated `DacsOpt::iter` on any lossless structure satisfying the invariant -/
theorem daco_iter_expected (c : Cfg) (d : DacO) (xs : List Nat) (hI : DacOInv c d)
    (hlen : d.len = .ok xs.length) (hacc : ∀ i, d.access c i = .ok xs[i]?) (hl : xs.length < 2^64) (n : Nat) :
    doRunN c (GenFn.DacsOpt.iter d) n = .ok (C17.expected xs n) := by
  rw [dacs_opt_iter_eq, daco_iter_runN c d xs hI hlen hacc hl n 0 (Nat.zero_le _)]
  rw [C17.generic xs _ (fun i => by rw [hacc i]; rfl) n]

/-! ## `DacsOpt::build` -/

/-- the body of the level loop for one value, as generated (`nw` = `widths.len()`) -/
def dacoPushBody (c : Cfg) (nw : Nat) :
    Nat × Nat → Array CV × Nat × Array BV → R (RS.Step (Array CV × Nat × Array BV) Empty) := fun it st3 =>
  let data6 := st3.1
  let x3 := st3.2.1
  let flags2 := st3.2.2
  let j := it.1
  let width := it.2
  (cshl c 1 width).bind fun t5 =>
  (csub c t5 1).bind fun mask =>
  (RS.index data6 j).bind fun self_ =>
  ((GenFn.CompactVector.push_int c self_ (x3 &&& mask))).bind fun r1 =>
  (RS.setIndex data6 j r1.1).bind fun arr =>
  (RS.unwrapRes r1.2).bind fun _ =>
  (cshr c x3 width).bind fun x4 =>
  (csub c nw 1).bind fun t6 =>
  if j = t6 then
    (RS.assert (x4 == 0)).bind fun _ =>
    .ok (.brk (arr, x4, flags2))
  else
    if x4 = 0 then
      (RS.index flags2 j).bind fun self_1 =>
      ((GenFn.BitVector.push_bit c self_1 false)).bind fun r2 =>
      (RS.setIndex flags2 j r2.1).bind fun arr1 =>
      .ok (.brk (arr, x4, arr1))
    else
      (RS.index flags2 j).bind fun self_2 =>
      ((GenFn.BitVector.push_bit c self_2 true)).bind fun r3 =>
      (RS.setIndex flags2 j r3.1).bind fun arr2 =>
      .ok (.next (arr, x4, arr2))

def dacoPushTail (ex : RS.Exit (Array CV × Nat × Array BV) Empty) : R (Array CV × Array BV) :=
  match ex with
    | .ret rv => nomatch rv
    | .done st4 =>
      let data7 := st4.1
      let x5 := st4.2.1
      let flags3 := st4.2.2
      .ok (data7, flags3)

/-- the body of the loop over the values, as generated -/
def dacoValBody (c : Cfg) (widths : Array Nat) : Nat → Array CV × Array BV → R (Array CV × Array BV) := fun x1 st2 =>
  let data5 := st2.1
  let flags1 := st2.2
  (RS.unwrap (some x1)).bind fun x2 =>
  (RS.forListB (ρ := Empty) (dacoPushBody c widths.size) (RS.enumerate widths.toList) (data5, x2, flags1)).bind dacoPushTail

/-- the single-level shortcut, as generated -/
def dacoSingle (c : Cfg) (vals widths : Array Nat) : R (RS.Res DacO) :=
  (RS.index widths 0).bind fun t =>
  (GenFn.CompactVector.with_capacity c vals.size t).bind fun t1 =>
  (RS.unwrapRes t1).bind fun data =>
  (RS.forList
    (fun x data1 =>
      (RS.unwrap (some x)).bind fun t2 =>
      ((GenFn.CompactVector.push_int c data1 t2)).bind fun r =>
      let data2 := r.1
      (RS.unwrapRes r.2).bind fun _ =>
      .ok data2)
    vals.toList data).bind fun data3 =>
  .ok (RS.Res.ok ({ data := #[data3], flags := #[] } : Sucds.DacO))

/-- the general case, as generated -/
def dacoMulti (c : Cfg) (vals widths : Array Nat) : R (RS.Res DacO) :=
  (Array.mapM (fun w =>
      RS.unwrapRes (GenFn.CompactVector.new w)) widths).bind fun data4 =>
  (csub c widths.size 1).bind fun t4 =>
  let flags := (Array.replicate t4 ({ words := #[], len := 0 } : Sucds.BV))
  (RS.forList (dacoValBody c widths) vals.toList (data4, flags)).bind fun st5 =>
  let data8 := st5.1
  let flags4 := st5.2
  (Array.mapM (fun x__ =>
      (GenFn.Rank9Sel.new c x__)) flags4).bind fun flags5 =>
  .ok (RS.Res.ok ({ data := data8, flags := flags5 } : Sucds.DacO))

theorem dacs_opt_build_unfold (c : Cfg) (vals widths : Array Nat) :
    GenFn.DacsOpt.build c vals widths =
      (RS.assert (!(vals.size == 0))).bind fun _ =>
      (RS.assert (!(widths.size == 0))).bind fun _ =>
      if widths.size = 1 then dacoSingle c vals widths else dacoMulti c vals widths := rfl

theorem forListB_cons {α σ ρ : Type} (body : α → σ → R (RS.Step σ ρ)) (x : α) (xs : List α) (s : σ) :
    RS.forListB body (x :: xs) s = (body x s).bind fun r => match r with
      | .next s' => RS.forListB body xs s'
      | .brk s' => .ok (.done s')
      | .ret v => .ok (.ret v) := rfl

theorem enum_cons (j k : Nat) (w : Nat) (rest : List Nat) :
    (List.range' j (k + 1)).zip (w :: rest) = (j, w) :: (List.range' (j + 1) k).zip rest := by
  rw [List.range'_succ, List.zip_cons_cons]

/-- the level loop for one value is the model's `pushVal` on the chunks of `dacSplit` (same value, same panic) -/
theorem daco_push_loop (c : Cfg) (n : Nat) :
    ∀ (rest : List Nat) (w j y : Nat) (data : Array CV) (flags : Array BV), j + (rest.length + 1) = n →
      data.size = n → flags.size = n - 1 →
      (∀ w' ∈ w :: rest, w' < 64) →
      (∀ i, j ≤ i → i < n → ∃ cv, data[i]? = some cv ∧ CVInv cv ∧ cv.len * cv.width + cv.width < 2^64) →
      (∀ i, j ≤ i → i + 1 < n → ∃ bv, flags[i]? = some bv ∧ bv.Inv ∧ bv.len + 1 < 2^64) →
      y < 2^((w :: rest).sum) →
      (RS.forListB (dacoPushBody c n) ((List.range' j (rest.length + 1)).zip (w :: rest)) (data, y, flags)).bind
          dacoPushTail
        = DacO.pushVal data flags j (dacSplit (w :: rest) y) := by
  intro rest
  induction rest with
  | nil =>
    intro w j y data flags hj hd hf hws hdi hfi hy
    rw [List.length_nil] at hj
    have hw : w < 64 := hws w (by simp)
    obtain ⟨cv, hcv, hci, hcsz⟩ := hdi j (Nat.le_refl _) (by omega)
    have hjd : j < data.size := get_lt_size _ _ _ hcv
    have hz : y >>> w = 0 := shr_eq_zero_of_lt y w (by simpa using hy)
    rw [enum_cons, forListB_cons]
    conv => lhs; arg 1; arg 1; unfold dacoPushBody
    simp only []
    rw [cshl_ok c hw, bok, Nat.mod_eq_of_lt (one_shl_lt w hw), csub_ok c (one_shl_pos w), bok,
      index_some _ _ _ hcv, bok, cv_push_int_eq_cvRes c cv hci hcsz]
    simp only [dacSplit, DacO.pushVal]
    rw [hcv]
    simp only []
    cases hp : cv.pushInt (y &&& ((1 <<< w) - 1)) with
    | error e => rfl
    | ok r =>
      rcases r with ⟨cv', fl⟩
      cases fl with
      | false =>
        simp only [Except.map, cvRes, bok]
        rw [setIndex_ok _ _ _ hjd, bok]
        rfl
      | true =>
        simp only [Except.map, cvRes, bok, if_true]
        rw [setIndex_ok _ _ _ hjd, bok, unwrapRes_ok, bok, cshr_ok c hw, bok, csub_ok c (by omega : 1 ≤ n), bok,
          if_pos (by omega), hz, Cow.assert_ok (0 == 0) rfl, bok, bok]
        rfl
  | cons w' rest ih =>
    intro w j y data flags hj hd hf hws hdi hfi hy
    rw [List.length_cons] at hj
    have hw : w < 64 := hws w (by simp)
    obtain ⟨cv, hcv, hci, hcsz⟩ := hdi j (Nat.le_refl _) (by omega)
    obtain ⟨bv, hbv, hinv, hlen⟩ := hfi j (Nat.le_refl _) (by omega)
    have hjd : j < data.size := get_lt_size _ _ _ hcv
    have hjf : j < flags.size := get_lt_size _ _ _ hbv
    have hy' : y >>> w < 2^((w' :: rest).sum) := shr_lt_of_lt y w _ (by rw [← List.sum_cons]; exact hy)
    rw [List.length_cons, enum_cons, forListB_cons]
    conv => lhs; arg 1; arg 1; unfold dacoPushBody
    simp only []
    rw [cshl_ok c hw, bok, Nat.mod_eq_of_lt (one_shl_lt w hw), csub_ok c (one_shl_pos w), bok,
      index_some _ _ _ hcv, bok, cv_push_int_eq_cvRes c cv hci hcsz, dacSplit_cons2]
    by_cases hz : y >>> w = 0
    · rw [if_pos hz]
      simp only [DacO.pushVal]
      rw [hcv]
      simp only []
      cases hp : cv.pushInt (y &&& ((1 <<< w) - 1)) with
      | error e => rfl
      | ok r =>
        rcases r with ⟨cv', fl⟩
        cases fl with
        | false =>
          simp only [Except.map, cvRes, bok]
          rw [setIndex_ok _ _ _ hjd, bok]
          rfl
        | true =>
          simp only [Except.map, cvRes, bok, if_true]
          rw [setIndex_ok _ _ _ hjd, bok, unwrapRes_ok, bok, cshr_ok c hw, bok, csub_ok c (by omega : 1 ≤ n), bok,
            if_neg (by omega), if_pos hz, index_some _ _ _ hbv, bok, push_bit_eq c bv hinv false hlen, bok,
            setIndex_ok _ _ _ hjf, bok, bok]
          simp only []
          rw [set!_eq_modify_of_get flags j (fun f => f.pushBit false) bv hbv]
          rfl
    · rw [if_neg hz]
      simp only [DacO.pushVal]
      rw [hcv]
      simp only []
      cases hp : cv.pushInt (y &&& ((1 <<< w) - 1)) with
      | error e => rfl
      | ok r =>
        rcases r with ⟨cv', fl⟩
        cases fl with
        | false =>
          simp only [Except.map, cvRes, bok]
          rw [setIndex_ok _ _ _ hjd, bok]
          rfl
        | true =>
          simp only [Except.map, cvRes, bok, if_true]
          rw [setIndex_ok _ _ _ hjd, bok, unwrapRes_ok, bok, cshr_ok c hw, bok, csub_ok c (by omega : 1 ≤ n), bok,
            if_neg (by omega), if_neg hz, index_some _ _ _ hbv, bok, push_bit_eq c bv hinv true hlen, bok,
            setIndex_ok _ _ _ hjf, bok, bok]
          simp only []
          rw [set!_eq_modify_of_get flags j (fun f => f.pushBit true) bv hbv]
          have hih := ih w' (j + 1) (y >>> w) (data.set! j cv') (flags.modify j (fun f => f.pushBit true))
            (by omega) (by rw [size_set!]; exact hd) (by rw [Array.size_modify]; exact hf)
            (fun w'' hw'' => hws w'' (by simp [List.mem_cons] at hw'' ⊢; rcases hw'' with h | h <;> simp [h]))
            (by
              intro i hji hin
              obtain ⟨cv2, g1, g2, g3⟩ := hdi i (by omega) hin
              refine ⟨cv2, ?_, g2, g3⟩
              rw [Array.set!_eq_setIfInBounds, Array.getElem?_setIfInBounds, if_neg (by omega)]; exact g1)
            (by
              intro i hji hin
              obtain ⟨bv', h1, h2, h3⟩ := hfi i (by omega) hin
              refine ⟨bv', ?_, h2, h3⟩
              rw [Array.getElem?_modify, if_neg (by omega)]; exact h1)
            hy'
          exact hih

theorem pushAll_single (ws : List Nat) (x : Nat) (s r : Array CV × Array BV) (h : DacO.pushAll ws [x] s = .ok r) :
    DacO.pushVal s.1 s.2 0 (dacSplit ws x) = .ok r := by
  simp only [DacO.pushAll] at h
  cases hp : DacO.pushVal s.1 s.2 0 (dacSplit ws x) with
  | error e => rw [hp] at h; cases h
  | ok r' => rw [hp] at h; exact h

/-- a level during the build is a well-formed compact vector no longer than the number of values pushed so far -/
theorem drep_level (ws pre : List Nat) (data : Array CV) (hd : DacO.DRep ws (lev ws pre) data)
    (hw : ∀ w ∈ ws, 1 ≤ w ∧ w ≤ 64) (i : Nat) (hi : i < ws.length) :
    ∃ cv, data[i]? = some cv ∧ CVInv cv ∧ cv.len ≤ pre.length := by
  obtain ⟨cv, h1, h2, h3⟩ := hd.data i hi
  refine ⟨cv, h1, CVInv.of_rep h3 ?_, ?_⟩
  · rw [h2, wd_eq ws i hi]; exact (hw _ (List.getElem_mem hi)).1
  · rw [h3.len, List.length_map]; exact lev_length_le ws pre i

/-- the loop over the values is the model's `pushAll` -/
theorem daco_vals_loop (c : Cfg) (widths : Array Nat) (hn2 : 2 ≤ widths.size)
    (hw : ∀ w ∈ widths.toList, 1 ≤ w ∧ w < 64) :
    ∀ (xs pre : List Nat) (data : Array CV) (flags : Array BV),
      DacO.DRep widths.toList (lev widths.toList pre) data → FRep widths.toList (lev widths.toList pre) flags →
      (∀ x ∈ xs, x < 2^widths.toList.sum) → pre.length + xs.length ≤ 2^57 →
      RS.forList (dacoValBody c widths) xs (data, flags) = DacO.pushAll widths.toList xs (data, flags) := by
  have hlen : widths.toList.length = widths.size := Array.length_toList
  have hne : widths.toList ≠ [] := by
    intro h; rw [h] at hlen; simp at hlen; omega
  have hw' : ∀ w ∈ widths.toList, 1 ≤ w ∧ w ≤ 64 := fun w h => ⟨(hw w h).1, by have := (hw w h).2; omega⟩
  intro xs
  induction xs with
  | nil => intro _ _ _ _ _ _ _; rfl
  | cons x t ih =>
    intro pre data flags hd hf hx hl
    rw [List.length_cons] at hl
    have hds := hd.dsize
    have hfs := hf.fsize
    rw [hlen] at hds hfs
    obtain ⟨r, hr, hs1, hs2⟩ := DacO.pushAll_spec widths.toList hne [x] pre data flags hd hf
    have hpv := pushAll_single _ x (data, flags) r hr
    have hbody : dacoValBody c widths x (data, flags) = DacO.pushVal data flags 0 (dacSplit widths.toList x) := by
      unfold dacoValBody
      simp only []
      rw [db_unwrap_some, bok]
      unfold RS.enumerate
      rw [List.range_eq_range']
      cases hws : widths.toList with
      | nil => exact absurd hws hne
      | cons w rest =>
        rw [hws] at hlen
        have hstep := daco_push_loop c widths.size rest w 0 x data flags (by rw [← hlen]; simp) hds hfs
          (fun w' h' => (hw w' (by rw [hws]; exact h')).2)
          (by
            intro i _ hin
            obtain ⟨cv, h1, h2, h3⟩ := drep_level _ pre data hd hw' i (by rw [hws, hlen]; exact hin)
            refine ⟨cv, h1, h2, ?_⟩
            have := mul_le_2_63 (a := cv.len + 1) (by omega) h2.wle
            rw [Nat.add_mul, Nat.one_mul] at this
            omega)
          (by
            intro i _ hin
            obtain ⟨bv, h1, h2, h3⟩ := frep_flag _ pre flags hf i (by rw [hws, hlen]; exact hin)
            exact ⟨bv, h1, h2, by omega⟩)
          (by rw [← hws]; exact hx x (by simp))
        rw [List.length_cons, hstep]
    rw [forList_cons, hbody, DacO.pushAll, hpv, bok, bok]
    exact ih (pre ++ [x]) _ _ hs1 hs2 (fun y hy => hx y (by simp [hy]))
      (by rw [List.length_append, List.length_singleton]; omega)

/-- with a single level the model's generic loop is `extend` on the only compact vector (the mask is the identity) -/
theorem pushAll_one (w : Nat) : ∀ (xs : List Nat) (cv : CV) (fl : Array BV), (∀ x ∈ xs, x < 2^w) →
    DacO.pushAll [w] xs (#[cv], fl) =
      ((cv.extend xs).bind fun r => if r.2 then .ok r.1 else .error .unwrapNone).bind fun cv' => .ok (#[cv'], fl) := by
  intro xs
  induction xs with
  | nil => intro cv fl _; rfl
  | cons x t ih =>
    intro cv fl hx
    have hxw : x &&& ((1 <<< w) - 1) = x := by rw [mask_eq_mod, Nat.mod_eq_of_lt (hx x (by simp))]
    simp only [DacO.pushAll, dacSplit, DacO.pushVal, CV.extend]
    rw [hxw]
    have h0 : (#[cv] : Array CV)[0]? = some cv := rfl
    rw [h0]
    simp only []
    cases hp : cv.pushInt x with
    | error e => rfl
    | ok r =>
      rcases r with ⟨cv', b⟩
      cases b with
      | false => rfl
      | true =>
        simp only [bok, Bool.not_true, Bool.false_eq_true, if_false, if_true]
        exact ih cv' fl (fun y hy => hx y (by simp [hy]))

theorem mem_add_len_le_sum (ws : List Nat) (hpos : ∀ w ∈ ws, 1 ≤ w) : ∀ w ∈ ws, w + (ws.length - 1) ≤ ws.sum := by
  induction ws with
  | nil => intro w h; simp at h
  | cons a t ih =>
    intro w h
    have hlen : t.length ≤ t.sum := by
      clear ih h
      induction t with
      | nil => simp
      | cons b u ihu =>
        have := hpos b (by simp)
        have := ihu (fun w hw => hpos w (by simp [List.mem_cons] at hw ⊢; rcases hw with h | h <;> simp [h]))
        simp only [List.length_cons, List.sum_cons]; omega
    rw [List.sum_cons, List.length_cons]
    rcases List.mem_cons.mp h with rfl | h'
    · omega
    · have := ih (fun w hw => hpos w (by simp [hw])) w h'
      have := hpos a (by simp)
      omega

/-- **`DacsOpt::build`**: generated = model (always `Ok` when the model does not panic), for every valid split of at
    most 64 bits into positive widths that covers all values — the only way `from_slice` calls it -/
theorem dacs_opt_build_eq (c : Cfg) (vals widths : Array Nat) (hne : vals.size ≠ 0) (hwne : widths.size ≠ 0)
    (hpos : ∀ w ∈ widths.toList, 1 ≤ w) (hsum : widths.toList.sum ≤ 64)
    (hv : ∀ x ∈ vals.toList, x < 2^widths.toList.sum) (hn : vals.size < 2^57) :
    GenFn.DacsOpt.build c vals widths = (DacO.build c vals.toList widths.toList).map RS.Res.ok := by
  have hlen : widths.toList.length = widths.size := Array.length_toList
  have hvl : vals.toList.length = vals.size := Array.length_toList
  have hrange : ∀ w ∈ widths.toList, 1 ≤ w ∧ w ≤ 64 :=
    fun w hw => ⟨hpos w hw, Nat.le_trans (DacO.mem_le_sum _ w hw) hsum⟩
  have hv64 : ∀ x ∈ vals.toList, x < 2^64 := fun x hx =>
    Nat.lt_of_lt_of_le (hv x hx) (Nat.pow_le_pow_right (by decide) hsum)
  have hne' : widths.toList ≠ [] := by
    intro h; rw [h] at hlen; simp at hlen; omega
  rw [dacs_opt_build_unfold, Cow.assert_ok _ (by simp [hne]), bok, Cow.assert_ok _ (by simp [hwne]), bok]
  unfold DacO.build
  rw [DacO.mapM_new _ hrange]
  simp only []
  by_cases h1 : widths.size = 1
  · rw [if_pos h1]
    cases hws : widths.toList with
    | nil => exact absurd hws hne'
    | cons w rest =>
      rw [hws] at hlen
      cases rest with
      | cons _ _ => simp at hlen; omega
      | nil =>
        have hw := hrange w (by rw [hws]; simp)
        have hw0 : widths[0]? = some w := by rw [← Array.getElem?_toList, hws]; rfl
        have hxw : ∀ x ∈ vals.toList, x < 2^w := by
          intro x hx; have := hv x hx; rw [hws] at this; simpa using this
        have hcap := mul_le_2_63 (Nat.le_of_lt hn) hw.2
        unfold dacoSingle
        rw [index_some _ _ _ hw0, bok, cv_with_capacity_eq c vals.size w (by omega), bok]
        unfold CV.new
        rw [if_pos hw]
        simp only []
        rw [unwrapRes_ok, bok]
        refine Eq.trans (congrArg (fun z => Except.bind z _)
          (c09_push_all_loop c _ (fun _ _ => rfl) vals.toList ⟨BV.new, 0, w⟩ [] (new_rep_of w hw.1 hw.2) hv64
            (by rw [List.length_nil, Nat.zero_add, hvl]; show vals.size * w < 2^64; omega)
            (by rw [List.length_nil, Nat.zero_add, hvl]; omega))) ?_
        have hm := pushAll_one w vals.toList ⟨BV.new, 0, w⟩ #[] hxw
        have e1 : ([w].map fun w => (⟨BV.new, 0, w⟩ : CV)).toArray = #[(⟨BV.new, 0, w⟩ : CV)] := rfl
        have e2 : Array.replicate ([w].length - 1) BV.new = #[] := rfl
        rw [e1, e2, hm]
        cases (⟨BV.new, 0, w⟩ : CV).extend vals.toList with
        | error e => rfl
        | ok r =>
          rcases r with ⟨cv', b⟩
          cases b with
          | false => rfl
          | true => simp [Except.bind, Except.map]
  · rw [if_neg h1]
    have hn2 : 2 ≤ widths.size := by omega
    have hw63 : ∀ w ∈ widths.toList, 1 ≤ w ∧ w < 64 := by
      intro w hw
      have := mem_add_len_le_sum _ hpos w hw
      have := hpos w hw
      omega
    unfold dacoMulti
    rw [array_mapM_ok _ (fun w => (⟨BV.new, 0, w⟩ : CV)) widths (by
      intro w hw
      have := hrange w (Array.mem_toList_iff.mpr hw)
      rw [cv_new_eq]
      unfold CV.new
      rw [if_pos this]; rfl), bok, csub_ok c (by omega : 1 ≤ widths.size), bok]
    simp only []
    have ed : widths.map (fun w => (⟨BV.new, 0, w⟩ : CV)) = (widths.toList.map fun w => (⟨BV.new, 0, w⟩ : CV)).toArray := by
      rw [← Array.toList_map, Array.toArray_toList]
    rw [ed, show ({ words := #[], len := 0 } : BV) = BV.new from rfl, ← hlen]
    have hd0 := DacO.DRep.init widths.toList hrange
    have hf0 := FRep.init widths.toList
    rw [daco_vals_loop c widths hn2 hw63 vals.toList [] _ _ hd0 hf0 hv (by rw [List.length_nil, Nat.zero_add, hvl]; omega)]
    obtain ⟨r, hr, hs1, hs2⟩ := DacO.pushAll_spec widths.toList hne' vals.toList [] _ _ hd0 hf0
    rw [List.nil_append] at hs1 hs2
    rw [hr, bok, bok]
    rw [array_mapM_ok _ (R9.new c) r.2 (by
      intro bv hbv
      obtain ⟨i, hi⟩ := Array.getElem?_of_mem hbv
      have his := get_lt_size _ _ _ hi
      have hfs := hs2.fsize
      obtain ⟨bv', g1, g2, g3⟩ := frep_flag _ vals.toList r.2 hs2 i (by omega)
      rw [hi] at g1
      cases g1
      exact rs_new_eq c bv g2 (by omega)), bok]
    rfl

/-! ## `DacsOpt::from_slice` -/

theorem unit_loop {ρ : Type} (body : Nat → Unit → R (RS.Step Unit ρ)) (hbody : ∀ x u, body x u = .ok (.next ())) :
    ∀ (l : List Nat), RS.forListB body l () = .ok (.done ()) := by
  intro l
  induction l with
  | nil => rfl
  | cons x t ih => rw [forListB_cons, hbody, bok]; exact ih

/-- **`DacsOpt::from_slice`**: generated = model, including the `Err` for `max_levels ∉ 1..=64` -/
theorem dacs_opt_from_slice_eq (c : Cfg) (vals : Array Nat) (ml : Option Nat) (hv : ∀ x ∈ vals, x < 2^64)
    (hn : vals.size < 2^57) :
    GenFn.DacsOpt.from_slice c vals ml =
      (DacO.fromSlice c vals.toList ml).map fun o => match o with | some d => RS.Res.ok d | none => RS.Res.err := by
  unfold GenFn.DacsOpt.from_slice DacO.fromSlice
  simp only []
  by_cases hml : 1 ≤ ml.getD 64 ∧ ml.getD 64 ≤ 64
  · have hg : (decide (1 ≤ ml.getD 64) && decide (ml.getD 64 ≤ 64)) = true := by simp [hml]
    rw [if_neg (not_not_intro hg), if_neg (show ¬ (ml.getD 64 < 1 ∨ 64 < ml.getD 64) by omega)]
    by_cases h0 : vals.size = 0
    · have : vals = #[] := Array.eq_empty_of_size_eq_zero h0
      subst this; rfl
    · have hv' : ∀ v ∈ vals.toList, v < 2^64 := fun v h => hv v (Array.mem_toList_iff.mp h)
      have hne' : vals.toList ≠ [] := by
        intro h; apply h0; rw [← Array.length_toList, h]; rfl
      have hn' : vals.toList.length < 2^57 := by rw [Array.length_toList]; exact hn
      rw [if_neg (by simp [h0]), toList_ne_nil vals h0]
      simp only [Bool.false_eq_true, if_false]
      rw [unit_loop _ (fun _ _ => rfl), bok]
      simp only []
      rw [compute_opt_widths_eq' c vals _ h0 hml.1 hv hn]
      obtain ⟨ws, hopt, hwne, hwlen, hwpos, hwsum, _⟩ :=
        DacO.optWidths_ok c vals.toList hne' hv' hn' (ml.getD 64) hml.1 hml.2
      have hmax : vals.toList.foldl max 0 < 2^64 := DacsOptW.maxv_lt _ hv'
      have hsum64 : ws.sum ≤ 64 := by rw [hwsum]; exact DacsOptW.bitlen_le_64 _ hmax
      have hfit : ∀ v ∈ vals.toList, v < 2^ws.sum := by
        intro v hvm
        rw [hwsum]
        have h1 : v ≤ vals.toList.foldl max 0 := (DacsOptW.foldl_max_ge vals.toList 0).2 v hvm
        exact Nat.lt_of_lt_of_le (DacsOptW.lt_two_pow_bitlen v)
          (Nat.pow_le_pow_right (by decide) (DacsOptW.bitlen_mono h1))
      rw [hopt]
      simp only [Except.map, bok]
      rw [dacs_opt_build_eq c vals ws.toArray h0
        (by intro h; apply hwne; simpa using h) hwpos hsum64 hfit hn]
      show Except.map RS.Res.ok (DacO.build c vals.toList ws) = _
      cases DacO.build c vals.toList ws <;> rfl
  · have hg : ¬ (decide (1 ≤ ml.getD 64) && decide (ml.getD 64 ≤ 64)) = true := by
      simp only [Bool.and_eq_true, decide_eq_true_eq]; exact hml
    rw [if_pos hg, if_pos (show ml.getD 64 < 1 ∨ 64 < ml.getD 64 by omega)]
    rfl

theorem dacs_opt_build_from_slice_eq (c : Cfg) (vals : Array Nat) (hv : ∀ x ∈ vals, x < 2^64) (hn : vals.size < 2^57) :
    GenFn.DacsOpt.build_from_slice c vals =
      (DacO.fromSlice c vals.toList none).map fun o => match o with | some d => RS.Res.ok d | none => RS.Res.err :=
  dacs_opt_from_slice_eq c vals none hv hn

/-! ## C10 (and the `DacsOpt` clause of C17) for the generated functions -/

theorem daco_inv_default (c : Cfg) : DacOInv c DacO.default := by
  refine ⟨by decide, ?_, ?_⟩
  · intro j cv h
    have hj : j < DacO.default.data.size := get_lt_size _ _ _ h
    have : j = 0 := by
      have : DacO.default.data.size = 1 := rfl
      omega
    subst this
    have : cv = CV.default := by
      have h' : DacO.default.data[0]? = some CV.default := rfl
      rw [h'] at h; exact (Option.some.inj h).symm
    subst this
    exact ⟨by decide, by decide⟩
  · intro j hj
    have : DacO.default.data.size = 1 := rfl
    omega

/-- the model's `from_slice` result with everything `C10` says about it, plus the invariant `access` needs -/
theorem daco_fromSlice_facts (c : Cfg) (vals : List Nat) (ml : Option Nat) (hv : ∀ v ∈ vals, v < 2^64)
    (hn : vals.length < 2^57) (hml : 1 ≤ ml.getD 64 ∧ ml.getD 64 ≤ 64) :
    ∃ d, DacO.fromSlice c vals ml = .ok (some d) ∧ DacOInv c d ∧
      d.len = .ok vals.length ∧ (∀ i, d.access c i = .ok vals[i]?) ∧
      1 ≤ d.widths.length ∧ d.widths.length ≤ min (ml.getD 64) 64 ∧ d.numLevels = d.widths.length ∧
      (vals ≠ [] → (∀ w ∈ d.widths, 1 ≤ w) ∧ d.widths.sum = SpecX.bitlen (vals.foldl max 0)) := by
  by_cases hne : vals = []
  · subst hne
    refine ⟨DacO.default, ?_, daco_inv_default c, rfl, ?_, ?_, ?_, rfl, fun h => absurd rfl h⟩
    · unfold DacO.fromSlice
      have : ¬ (ml.getD 64 < 1 ∨ 64 < ml.getD 64) := by omega
      rw [if_neg this]; rfl
    · intro i; rw [DacO.default_access]; simp
    · decide
    · show 1 ≤ min (ml.getD 64) 64; omega
  · obtain ⟨ws, hopt, hwne, hwlen, hwpos, hwsum, _⟩ := DacO.optWidths_ok c vals hne hv hn (ml.getD 64) hml.1 hml.2
    have hmax : vals.foldl max 0 < 2^64 := DacsOptW.maxv_lt vals hv
    have hsum64 : ws.sum ≤ 64 := by rw [hwsum]; exact DacsOptW.bitlen_le_64 _ hmax
    have hfit : ∀ v ∈ vals, v < 2^ws.sum := by
      intro v hvm
      rw [hwsum]
      have h1 : v ≤ vals.foldl max 0 := (DacsOptW.foldl_max_ge vals 0).2 v hvm
      exact Nat.lt_of_lt_of_le (DacsOptW.lt_two_pow_bitlen v)
        (Nat.pow_le_pow_right (by decide) (DacsOptW.bitlen_mono h1))
    obtain ⟨d, hd, hrep, hw, hl, ha⟩ := DacO.fromSlice_ok_of_widths c vals ml ws hml hne hopt hwne hwpos hsum64 hfit
    refine ⟨d, hd, daco_inv_of_rep c ws vals d hrep (by omega) (by omega), hl, ha, ?_, ?_, ?_, fun _ => ⟨?_, ?_⟩⟩
    · rw [hw]; exact List.length_pos_iff.mpr hwne
    · rw [hw]; exact hwlen
    · rw [hw]; exact hrep.dsize
    · rw [hw]; exact hwpos
    · rw [hw]; exact hwsum

/-- **C10 for the generated `DacsOpt`**: for every build configuration, every slice of fewer than `2^57` `usize` values
    and every `max_levels`: the generated `from_slice` answers `Err` exactly when `max_levels ∉ 1..=64`; otherwise it
    returns `Ok(d)` without panicking (no `assert!` of `compute_opt_widths`/`build` fires, every `push_int` fits, no
    arithmetic overflows), `d` is the model's result, and on `d` the generated `access` returns `vals[i]` for `i < n` and
    `None` for every other `usize` index, `len`/`num_vals` report `n`, the number of levels is between 1 and
    `min(max_levels, 64)` and equals the number of widths, for non-empty input the widths are positive and sum to the
    bit length of the maximum, and the generated iterator yields the input in order, then `None` forever, with exact
    size hints. -/
theorem dacs_opt_c10 (c : Cfg) (vals : Array Nat) (ml : Option Nat) (hv : ∀ x ∈ vals, x < 2^64) (hn : vals.size < 2^57) :
    (¬ (1 ≤ ml.getD 64 ∧ ml.getD 64 ≤ 64) → GenFn.DacsOpt.from_slice c vals ml = .ok RS.Res.err) ∧
    (1 ≤ ml.getD 64 ∧ ml.getD 64 ≤ 64 →
      ∃ d, GenFn.DacsOpt.from_slice c vals ml = .ok (RS.Res.ok d) ∧
        DacO.fromSlice c vals.toList ml = .ok (some d) ∧
        (∀ i, i < 2^64 → GenFn.DacsOpt.access c d i = .ok vals[i]?) ∧
        GenFn.DacsOpt.len d = .ok vals.size ∧
        GenFn.DacsOpt.num_vals d = .ok vals.size ∧
        GenFn.DacsOpt.is_empty d = .ok (vals.size == 0) ∧
        1 ≤ GenFn.DacsOpt.num_levels d ∧ GenFn.DacsOpt.num_levels d ≤ min (ml.getD 64) 64 ∧
        (GenFn.DacsOpt.widths d).size = GenFn.DacsOpt.num_levels d ∧
        (vals.size ≠ 0 → (∀ w ∈ (GenFn.DacsOpt.widths d).toList, 1 ≤ w) ∧
          (GenFn.DacsOpt.widths d).toList.sum = SpecX.bitlen (vals.toList.foldl max 0)) ∧
        ∀ n, doRunN c (GenFn.DacsOpt.iter d) n = .ok (C17.expected vals.toList n)) := by
  have hv' : ∀ v ∈ vals.toList, v < 2^64 := fun v h => hv v (Array.mem_toList_iff.mp h)
  have hn' : vals.toList.length < 2^57 := by rw [Array.length_toList]; exact hn
  have heq := dacs_opt_from_slice_eq c vals ml hv hn
  refine ⟨?_, ?_⟩
  · intro hbad
    rw [heq, (C10.holds c vals.toList ml hv' hn').1 hbad]; rfl
  · intro hml
    obtain ⟨d, hd, hI, hl, ha, hw1, hw2, hnl, hw3⟩ := daco_fromSlice_facts c vals.toList ml hv' hn' hml
    rw [Array.length_toList] at hl
    refine ⟨d, by rw [heq, hd]; rfl, hd, ?_, ?_, ?_, ?_, ?_, ?_, ?_, ?_, ?_⟩
    · intro i hi
      rw [dacs_opt_access_eq c d hI i hi, ha i, Array.getElem?_toList]
    · rw [dacs_opt_len_eq, hl]
    · rw [dacs_opt_num_vals_eq, hl]
    · rw [dacs_opt_is_empty_eq, hl]; rfl
    · rw [dacs_opt_num_levels_eq, hnl]; exact hw1
    · rw [dacs_opt_num_levels_eq, hnl]; exact hw2
    · rw [dacs_opt_num_levels_eq, hnl, ← dacs_opt_widths_eq, Array.length_toList]
    · intro h0
      have hne' : vals.toList ≠ [] := by
        intro h; apply h0; rw [← Array.length_toList, h]; rfl
      rw [dacs_opt_widths_eq]
      exact hw3 hne'
    · intro n
      rw [← Array.length_toList] at hl
      exact daco_iter_expected c d vals.toList hI hl ha (by omega) n

/-- **C18 for the generated `DacsOpt::from_slice`**: the level widths of the returned structure are a cost-minimal
    valid split (predicate and cost function of `Props/C18.lean`) -/
theorem dacs_opt_c18 (c : Cfg) (vals : Array Nat) (ml : Option Nat) (hne : vals.size ≠ 0) (hv : ∀ x ∈ vals, x < 2^64)
    (hn : vals.size < 2^57) (hml : 1 ≤ ml.getD 64 ∧ ml.getD 64 ≤ 64) :
    ∃ d, GenFn.DacsOpt.from_slice c vals ml = .ok (RS.Res.ok d) ∧
      SpecX.validSplit vals.toList (ml.getD 64) (GenFn.DacsOpt.widths d).toList = true ∧
      ∀ ws', SpecX.validSplit vals.toList (ml.getD 64) ws' = true →
        SpecX.dacCost vals.toList (GenFn.DacsOpt.widths d).toList ≤ SpecX.dacCost vals.toList ws' := by
  have hv' : ∀ v ∈ vals.toList, v < 2^64 := fun v h => hv v (Array.mem_toList_iff.mp h)
  have hn' : vals.toList.length < 2^57 := by rw [Array.length_toList]; exact hn
  have hne' : vals.toList ≠ [] := by
    intro h; apply hne; rw [← Array.length_toList, h]; rfl
  obtain ⟨ws, hopt, hvalid, hmin⟩ := C18.holds c vals.toList hne' hv' hn' (ml.getD 64) hml.1 hml.2
  obtain ⟨hwne, hwlen, hwpos, hwsum⟩ := (C18.valid_split_meaning _ _ _).1 hvalid
  have hmax : vals.toList.foldl max 0 < 2^64 := DacsOptW.maxv_lt _ hv'
  have hsum64 : ws.sum ≤ 64 := by rw [hwsum]; exact DacsOptW.bitlen_le_64 _ hmax
  have hfit : ∀ v ∈ vals.toList, v < 2^ws.sum := by
    intro v hvm
    rw [hwsum]
    have h1 : v ≤ vals.toList.foldl max 0 := (DacsOptW.foldl_max_ge vals.toList 0).2 v hvm
    exact Nat.lt_of_lt_of_le (DacsOptW.lt_two_pow_bitlen v)
      (Nat.pow_le_pow_right (by decide) (DacsOptW.bitlen_mono h1))
  obtain ⟨d, hd, _, hw, _, _⟩ := DacO.fromSlice_ok_of_widths c vals.toList ml ws hml hne' hopt hwne hwpos hsum64 hfit
  refine ⟨d, by rw [dacs_opt_from_slice_eq c vals ml hv hn, hd]; rfl, ?_, ?_⟩
  · rw [dacs_opt_widths_eq, hw]; exact hvalid
  · intro ws' h'
    rw [dacs_opt_widths_eq, hw]; exact hmin ws' h'

/-! ### outside the hypotheses of `dacs_opt_build_eq` (expected, recorded for completeness)

    `build` is private and `from_slice` only passes it the split returned by `compute_opt_widths`, whose widths sum to
    the bit length of the maximum.  Called directly with widths that do not cover a value, the code panics (the
    single-level shortcut pushes the unmasked value, `push_int(..).unwrap()`; the general loop ends with
    `assert_eq!(x, 0)`), while the model masks every chunk and succeeds:
    `#eval GenFn.DacsOpt.build ⟨true,false⟩ #[70000] #[8, 8]` is `error assertFail`, `DacO.build ⟨true,false⟩ [70000] [8, 8]`
    is `ok`.  With a width of 64 in a multi-level split (sum > 64) `1 << 64` overflows in a checked build. -/
theorem build_uncovered_value_gen : GenFn.DacsOpt.build ⟨true, false⟩ #[300] #[8] = .error .unwrapNone := rfl
theorem build_uncovered_value_model : (DacO.build ⟨true, false⟩ [300] [8]).toBool = true := rfl

end Sucds.GenEq
