import Sucds.Proofs.C14Msb
import Sucds.Proofs.Rank9Full
import Sucds.Model.Dacs
/-! C15, part A (1): the broadword primitives, `needed_bits`, the Rank9 index builders and the
    DArray index builders produce the same *values* in every build configuration. -/
set_option linter.unusedSimpArgs false
set_option linter.unusedVariables false
namespace Sucds.Config
open Sucds

theorem bind_ok {α β} (v : α) (f : α → R β) : (Except.ok v : R α).bind f = f v := rfl

/-! ### primitives -/

theorem popcountN_cfg (c c' : Cfg) (w : Nat) : popcountN c w = popcountN c' w := by
  unfold popcountN; rw [C14.popcount_ok c, C14.popcount_ok c']

theorem selectInWordN_cfg (c c' : Cfg) (w k : Nat) : selectInWordN c w k = selectInWordN c' w k := by
  unfold selectInWordN; rw [C14.selectInWord_ok c, C14.selectInWord_ok c']

theorem lsbW_cfg (c c' : Cfg) (w : Nat) : lsbW c w = lsbW c' w := by
  unfold lsbW; rw [C14.lsb_ok c, C14.lsb_ok c']

theorem msbW_cfg (c c' : Cfg) (w : Nat) : msbW c w = msbW c' w := by
  unfold msbW; rw [C14.msb_ok c, C14.msb_ok c']

theorem popcountN_fun (c c' : Cfg) : popcountN c = popcountN c' := funext (popcountN_cfg c c')
theorem selectInWordN_fun (c c' : Cfg) : selectInWordN c = selectInWordN c' :=
  funext fun w => funext fun k => selectInWordN_cfg c c' w k
theorem lsbW_fun (c c' : Cfg) : lsbW c = lsbW c' := funext (lsbW_cfg c c')
theorem msbW_fun (c c' : Cfg) : msbW c = msbW c' := funext (msbW_cfg c c')

theorem neededBits_cfg (c c' : Cfg) (x : Nat) : neededBits c x = neededBits c' x := by
  unfold neededBits; rw [msbW_cfg c c']
theorem neededBits_fun (c c' : Cfg) : neededBits c = neededBits c' := funext (neededBits_cfg c c')

/-! ### Rank9 -/

theorem r9_step_cfg (c c' : Cfg) (s : R9Index.St) (i w : Nat) : R9Index.step c s i w = R9Index.step c' s i w := by
  unfold R9Index.step; rw [popcountN_cfg c c']

theorem r9_run_cfg (c c' : Cfg) (ws : Array Nat) (fuel : Nat) :
    ∀ (i : Nat) (s : R9Index.St), R9Index.run c ws i s fuel = R9Index.run c' ws i s fuel := by
  induction fuel with
  | zero => intro i s; rfl
  | succ fuel ih =>
    intro i s
    unfold R9Index.run
    rw [r9_step_cfg c c', ih]

/-- `build_rank` -/
theorem buildRank_cfg (c c' : Cfg) (bv : BV) : R9Index.buildRank c bv = R9Index.buildRank c' bv := by
  unfold R9Index.buildRank; rw [r9_run_cfg c c']

theorem R9_new_cfg (c c' : Cfg) (bv : BV) : R9.new c bv = R9.new c' bv := by
  unfold R9.new; rw [buildRank_cfg c c']
theorem R9_new_fun (c c' : Cfg) : R9.new c = R9.new c' := funext (R9_new_cfg c c')

theorem prefixPop_cfg (c c' : Cfg) (ws : Array Nat) (i : Nat) : R9Index.prefixPop c ws i = R9Index.prefixPop c' ws i := by
  induction i with
  | zero => rfl
  | succ i ih => unfold R9Index.prefixPop; rw [ih, popcountN_cfg c c']

theorem prefixZ_cfg (c c' : Cfg) (ws : Array Nat) (i : Nat) : R9Index.prefixZ c ws i = R9Index.prefixZ c' ws i := by
  unfold R9Index.prefixZ; rw [prefixPop_cfg c c']

theorem hintLoop0_cfg (c c' : Cfg) (bv : BV) (h : bv.Inv) (x : R9Index)
    (hx : x.pairs = (R9Index.buildRank c bv).pairs) (fuel : Nat) :
    ∀ (i : Nat) (st : Array Nat × Nat), i + fuel ≤ (R9Index.buildRank c bv).numBlocks →
      R9Index.hintLoop0 c x i fuel st = R9Index.hintLoop0 c' x i fuel st := by
  induction fuel with
  | zero => intro i st _; rfl
  | succ fuel ih =>
    intro i st hi
    have hx' : x.pairs = (R9Index.buildRank c' bv).pairs := by rw [hx, buildRank_cfg c c']
    have hnb : (R9Index.buildRank c' bv).numBlocks = (R9Index.buildRank c bv).numBlocks := by
      rw [buildRank_cfg c c']
    unfold R9Index.hintLoop0 R9Index.hintStep0
    rw [R9Index.blockRank0_ok c bv h x hx (i + 1) (by omega),
        R9Index.blockRank0_ok c' bv h x hx' (i + 1) (by omega), prefixZ_cfg c c']
    simp only [bind_ok]
    split
    · rw [bind_ok, bind_ok]; exact ih _ _ (by omega)
    · rw [bind_ok, bind_ok]; exact ih _ _ (by omega)

/-- `build_select0` on any index that carries the directory of `build_rank` (in particular after
    `build_select1`): the checked subtractions of `block_rank0` never underflow, so the hint table is
    the same in every configuration -/
theorem buildSelect0_cfg (c c' : Cfg) (bv : BV) (h : bv.Inv) (x : R9Index)
    (hx : x.pairs = (R9Index.buildRank c bv).pairs) :
    R9Index.buildSelect0 c x = R9Index.buildSelect0 c' x := by
  unfold R9Index.buildSelect0
  rw [hintLoop0_cfg c c' bv h x hx x.numBlocks 0 _
    (by rw [R9Index.numBlocks_congr x _ hx]; omega)]

/-- `Rank9Sel::new` + optional hint tables -/
theorem R9_build_cfg (c c' : Cfg) (bv : BV) (h : bv.Inv) (h1 h0 : Bool) :
    R9.build c bv h1 h0 = R9.build c' bv h1 h0 := by
  obtain ⟨rs1, e1, hp, _, _, _⟩ := R9.stage1_ok c bv h h1
  have e1' := e1
  rw [R9_new_cfg c c'] at e1'
  unfold R9.build
  rw [e1, e1', bind_ok, bind_ok]
  cases h0 with
  | false => rfl
  | true =>
    simp only [if_true]
    unfold R9.select0Hints
    simp only []
    rw [buildSelect0_cfg c c' bv h rs1 hp]

/-! ### DArray -/

theorem wordLoop_cfg (c c' : Cfg) (numBits : Nat) (fuel : Nat) :
    ∀ (curPos curWord : Nat) (s : DAIndex.BSt),
      DAIndex.wordLoop c numBits curPos curWord s fuel = DAIndex.wordLoop c' numBits curPos curWord s fuel := by
  induction fuel with
  | zero => intro _ _ _; rfl
  | succ fuel ih =>
    intro curPos curWord s
    unfold DAIndex.wordLoop
    rw [lsbW_cfg c c']
    simp only [ih]

theorem da_buildLoop_cfg (c c' : Cfg) (bv : BV) (o : Bool) (fuel : Nat) :
    ∀ (i : Nat) (s : DAIndex.BSt), DAIndex.buildLoop c bv o i s fuel = DAIndex.buildLoop c' bv o i s fuel := by
  induction fuel with
  | zero => intro _ _; rfl
  | succ fuel ih =>
    intro i s
    unfold DAIndex.buildLoop
    simp only [wordLoop_cfg c c', ih]

/-- `DArrayIndex::build` -/
theorem DAIndex_build_cfg (c c' : Cfg) (bv : BV) (o : Bool) : DAIndex.build c bv o = DAIndex.build c' bv o := by
  unfold DAIndex.build; rw [da_buildLoop_cfg c c']

theorem DA_fromBV_cfg (c c' : Cfg) (bv : BV) : DA.fromBV c bv = DA.fromBV c' bv := by
  unfold DA.fromBV; rw [DAIndex_build_cfg c c']

theorem DA_enableRank_cfg (c c' : Cfg) (x : DA) : x.enableRank c = x.enableRank c' := by
  unfold DA.enableRank; rw [buildRank_cfg c c']

theorem DA_enableSelect0_cfg (c c' : Cfg) (x : DA) : x.enableSelect0 c = x.enableSelect0 c' := by
  unfold DA.enableSelect0; rw [DAIndex_build_cfg c c']

/-- `DArray::from_bits` + optional `enable_rank` / `enable_select0` -/
theorem DA_build_cfg (c c' : Cfg) (bv : BV) (r s0 : Bool) : DA.build c bv r s0 = DA.build c' bv r s0 := by
  unfold DA.build
  simp only [DA_fromBV_cfg c c', DA_enableRank_cfg c c', DA_enableSelect0_cfg c c']

end Sucds.Config
