import Sucds.Model.EliasFanoFull
import Sucds.Proofs.EliasFanoHistory
import Sucds.Proofs.BitVectorMore
import Sucds.Proofs.BitVectorChunks
/-! Elias-Fano queries (`src/mii_sequences/elias_fano.rs`), part 1: the hypotheses on the components
    (`HighOK`), the setting (`Setting`), the shape of the high/low parts, `len`, `select`, `delta`. -/
set_option linter.unusedSimpArgs false
set_option linter.unusedVariables false
namespace Sucds
namespace EFQ
open BV Spec EFB

theorem bind_ok {α β} (v : α) (f : α → R β) : (Except.ok v : R α).bind f = f v := rfl
theorem unwrapO_some {α} (v : α) : unwrapO (.ok (some v) : R (Option α)) = .ok v := rfl

/-! ### `predP`: the largest `p ≤ i` with `P p` -/

/-- the largest `p ≤ i` with `P p` -/
def predP (P : Nat → Bool) : Nat → Option Nat
  | 0 => if P 0 then some 0 else none
  | i+1 => if P (i+1) then some (i+1) else predP P i

theorem predP_some_iff (P : Nat → Bool) (i p : Nat) :
    predP P i = some p ↔ p ≤ i ∧ P p = true ∧ ∀ q, p < q → q ≤ i → P q = false := by
  induction i with
  | zero =>
    unfold predP
    by_cases h0 : P 0 = true
    · simp only [h0, if_true, Option.some.injEq]
      constructor
      · intro h; subst h; exact ⟨Nat.le_refl _, h0, fun q h1 h2 => by omega⟩
      · intro ⟨h, _, _⟩; omega
    · have hf : P 0 = false := by simpa using h0
      simp only [hf, Bool.false_eq_true, if_false]
      constructor
      · intro h; cases h
      · intro ⟨h1, h2, _⟩
        have : p = 0 := by omega
        subst this; exact absurd h2 h0
  | succ i ih =>
    unfold predP
    by_cases h0 : P (i+1) = true
    · simp only [h0, if_true, Option.some.injEq]
      constructor
      · intro h; subst h; exact ⟨Nat.le_refl _, h0, fun q h1 h2 => by omega⟩
      · intro ⟨h1, h2, h3⟩
        by_cases hp : p = i + 1
        · exact hp.symm
        · have := h3 (i+1) (by omega) (Nat.le_refl _)
          rw [h0] at this; cases this
    · have hf : P (i+1) = false := by simpa using h0
      simp only [hf, Bool.false_eq_true, if_false]
      rw [ih]
      constructor
      · intro ⟨h1, h2, h3⟩
        refine ⟨by omega, h2, ?_⟩
        intro q hq1 hq2
        by_cases hq : q = i + 1
        · rw [hq]; exact hf
        · exact h3 q hq1 (by omega)
      · intro ⟨h1, h2, h3⟩
        have : p ≠ i + 1 := by intro hh; rw [hh] at h2; exact absurd h2 h0
        exact ⟨by omega, h2, fun q hq1 hq2 => h3 q hq1 (by omega)⟩

theorem predP_none_iff (P : Nat → Bool) (i : Nat) : predP P i = none ↔ ∀ q, q ≤ i → P q = false := by
  induction i with
  | zero =>
    unfold predP
    by_cases h0 : P 0 = true
    · simp only [h0, if_true]
      constructor
      · intro h; cases h
      · intro h; have := h 0 (Nat.le_refl _); rw [h0] at this; cases this
    · have hf : P 0 = false := by simpa using h0
      simp only [hf, Bool.false_eq_true, if_false, true_iff]
      intro q hq
      have : q = 0 := by omega
      rw [this]; exact hf
  | succ i ih =>
    unfold predP
    by_cases h0 : P (i+1) = true
    · simp only [h0, if_true]
      constructor
      · intro h; cases h
      · intro h; have := h (i+1) (Nat.le_refl _); rw [h0] at this; cases this
    · have hf : P (i+1) = false := by simpa using h0
      simp only [hf, Bool.false_eq_true, if_false]
      rw [ih]
      constructor
      · intro h q hq
        by_cases hq' : q = i + 1
        · rw [hq']; exact hf
        · exact h q (by omega)
      · intro h q hq; exact h q (by omega)

/-! ### the unary iterator, run `n` steps -/

/-- `n` successive calls of `UnaryIter::next`, collecting the answers -/
def unaryRun (c : Cfg) (bv : BV) : Nat → UIter → R (UIter × List (Option Nat))
  | 0, it => .ok (it, [])
  | n+1, it => (unaryRun c bv n it).bind fun r =>
      (UIter.next c bv r.1).bind fun s => .ok (s.1, r.2 ++ [s.2])

/-- what Elias-Fano needs from the bit vector `hb` (the high bits) and its DArray `d` -/
structure HighOK (c : Cfg) (d : DA) (hb : BV) : Prop where
  bv      : d.bv = hb
  inv     : hb.Inv
  numOnes : d.numOnes = cnt hb.bitAt hb.len
  access  : ∀ i, d.access i = .ok (if i < hb.len then some (hb.bitAt i) else none)
  select1 : ∀ k, d.select1 c k = .ok (sel hb.bitAt hb.len k)
  select0 : d.s0.isSome → ∀ k, d.select0 c k = .ok (sel (fun i => !hb.bitAt i) hb.len k)
  pred1   : ∀ p, hb.predecessor1 c p = .ok (if p < hb.len then predP hb.bitAt p else none)
  /-- the unary iterator started at a set position `p`: as long as ones remain (`rank p + n ≤ numOnes`),
      `n` calls of `next` succeed and yield the ones number `rank p`, `rank p + 1`, … in order -/
  unary   : ∀ p, p < hb.len → hb.bitAt p = true → ∀ n, cnt hb.bitAt p + n ≤ cnt hb.bitAt hb.len →
              ∃ it', unaryRun c hb n (UIter.new hb p) =
                .ok (it', (List.range n).map fun j => sel hb.bitAt hb.len (cnt hb.bitAt p + j))

/-- `access` follows from `bv` and `inv` (`DA.access` is `get_bit` of the stored vector) -/
theorem access_of_bv (d : DA) (hb : BV) (h1 : d.bv = hb) (h2 : hb.Inv) (i : Nat) :
    d.access i = .ok (if i < hb.len then some (hb.bitAt i) else none) := by
  unfold DA.access; rw [h1]; exact getBit_ok hb h2 i

/-- the stored vector of a built structure is the builder's high-bit vector -/
theorem ofBuilder_bv (c : Cfg) (b : EFB) (h : b.high.Inv) : (EF.ofBuilder c b).high.bv = b.high := by
  show BV.fromBits b.high.toList = b.high
  exact eq_of_toList _ _ (fromBits_spec _).1 h (fromBits_spec _).2
theorem enableRank_bv (c : Cfg) (b : EFB) (h : b.high.Inv) :
    ((EF.ofBuilder c b).enableRank c).high.bv = b.high := ofBuilder_bv c b h

/-- the setting of all query theorems: `e` stores what the builder `b` holds after accepting `xs` -/
structure Setting (c : Cfg) (e : EF) (b : EFB) (xs : List Nat) : Prop where
  holds  : Holds b xs
  ulim   : b.univ < 2^64
  low    : e.low = b.low
  lowLen : e.lowLen = b.lowLen
  univ   : e.univ = b.univ
  high   : HighOK c e.high b.high

theorem setting_ofBuilder (c : Cfg) (b : EFB) (xs : List Nat) (h : Holds b xs) (hu : b.univ < 2^64)
    (hh : HighOK c (EF.ofBuilder c b).high b.high) : Setting c (EF.ofBuilder c b) b xs :=
  ⟨h, hu, rfl, rfl, rfl, hh⟩
theorem setting_enableRank (c : Cfg) (b : EFB) (xs : List Nat) (h : Holds b xs) (hu : b.univ < 2^64)
    (hh : HighOK c ((EF.ofBuilder c b).enableRank c).high b.high) :
    Setting c ((EF.ofBuilder c b).enableRank c) b xs :=
  ⟨h, hu, rfl, rfl, rfl, hh⟩
theorem enableRank_s0 (c : Cfg) (b : EFB) : ((EF.ofBuilder c b).enableRank c).high.s0.isSome = true := rfl

/-! ### shape of the stored data -/

/-- the k-th value (0 beyond the end) -/
def X (xs : List Nat) (k : Nat) : Nat := xs[k]?.getD 0
/-- position of the k-th one in the high bits -/
def hp (b : EFB) (xs : List Nat) (k : Nat) : Nat := (X xs k >>> b.lowLen) + k

theorem getElem?_X (xs : List Nat) (k : Nat) (hk : k < xs.length) : xs[k]? = some (X xs k) := by
  unfold X; rw [List.getElem?_eq_getElem hk]; rfl

theorem X_mem (xs : List Nat) (k : Nat) (hk : k < xs.length) : X xs k ∈ xs := by
  unfold X; rw [List.getElem?_eq_getElem hk]; exact List.getElem_mem hk

theorem X_le (xs : List Nat) (hs : xs.Pairwise (· ≤ ·)) (i j : Nat) (hij : i ≤ j) (hj : j < xs.length) :
    X xs i ≤ X xs j := by
  by_cases h : i = j
  · subst h; exact Nat.le_refl _
  · exact sorted_getD_le xs hs i j (by omega) hj

theorem mem_X (xs : List Nat) (x : Nat) (hx : x ∈ xs) : ∃ k, k < xs.length ∧ X xs k = x := by
  obtain ⟨i, hi, he⟩ := List.mem_iff_getElem.mp hx
  exact ⟨i, hi, by unfold X; rw [List.getElem?_eq_getElem hi]; exact he⟩

section
variable {c : Cfg} {e : EF} {b : EFB} {xs : List Nat}

theorem X_lt (S : Setting c e b xs) (k : Nat) (hk : k < xs.length) : X xs k < b.univ :=
  S.holds.bound _ (X_mem xs k hk)

theorem le_hp (b : EFB) (xs : List Nat) (k : Nat) : k ≤ hp b xs k := Nat.le_add_left _ _
theorem hp_sub (b : EFB) (xs : List Nat) (k : Nat) : hp b xs k - k = X xs k >>> b.lowLen := Nat.add_sub_cancel ..

theorem hp_mono (S : Setting c e b xs) (i j : Nat) (hij : i < j) (hj : j < xs.length) : hp b xs i < hp b xs j := by
  have := sorted_getD_le xs S.holds.sorted i j hij hj
  have : X xs i >>> b.lowLen ≤ X xs j >>> b.lowLen := by
    rw [Nat.shiftRight_eq_div_pow, Nat.shiftRight_eq_div_pow]; exact Nat.div_le_div_right this
  unfold hp; omega

theorem hp_ones (S : Setting c e b xs) (q : Nat) :
    b.high.bitAt q = true ↔ ∃ k, k < xs.length ∧ hp b xs k = q := S.holds.ones q

theorem hp_lt_len (S : Setting c e b xs) (k : Nat) (hk : k < xs.length) : hp b xs k < b.high.len := by
  have h := S.holds
  rw [h.hlen]
  have := X_lt S k hk
  have : X xs k >>> b.lowLen ≤ b.univ >>> b.lowLen := by
    rw [Nat.shiftRight_eq_div_pow, Nat.shiftRight_eq_div_pow]; exact Nat.div_le_div_right (by omega)
  have := h.cap; have := h.pos
  unfold hp; omega

theorem hp_kth (S : Setting c e b xs) (k : Nat) (hk : k < xs.length) :
    IsKth b.high.bitAt b.high.len k (hp b xs k) :=
  UnaryCode.kth_one xs.length (hp b xs) b.high.bitAt (hp_mono S) (hp_ones S) k hk b.high.len (hp_lt_len S k hk)

theorem sel1 (S : Setting c e b xs) (k : Nat) (hk : k < xs.length) :
    sel b.high.bitAt b.high.len k = some (hp b xs k) := sel_eq_some _ _ _ _ (hp_kth S k hk)

/-- the ones of the high bits below any bound are the code positions below it -/
theorem cnt_high (S : Setting c e b xs) (m : Nat) :
    cnt b.high.bitAt m = (List.range xs.length).countP (fun k => decide (hp b xs k < m)) :=
  UnaryCode.cnt_eq_below xs.length (hp b xs) b.high.bitAt (hp_mono S) (hp_ones S) m

theorem cnt_len (S : Setting c e b xs) : cnt b.high.bitAt b.high.len = xs.length := by
  rw [cnt_high S]
  have : (List.range xs.length).countP (fun k => decide (hp b xs k < b.high.len)) = (List.range xs.length).length := by
    rw [List.countP_eq_length]
    intro k hk
    have hk' : k < xs.length := by simpa using hk
    simpa using hp_lt_len S k hk'
  rw [this]; simp

/-- **len** -/
theorem len_eq (S : Setting c e b xs) : e.len = xs.length := by
  unfold EF.len; rw [S.high.numOnes]; exact cnt_len S

/-- the low chunk of the k-th value -/
theorem low_ok (S : Setting c e b xs) (k : Nat) (hk : k < xs.length) :
    b.low.getBits (k * b.lowLen) b.lowLen = .ok (some (X xs k % 2 ^ b.lowLen)) := by
  have h := S.holds
  have hr : k * b.lowLen + b.lowLen ≤ b.low.len := by
    rw [h.llen]
    calc k * b.lowLen + b.lowLen = (k + 1) * b.lowLen := by rw [Nat.add_mul, Nat.one_mul]
      _ ≤ xs.length * b.lowLen := Nat.mul_le_mul_right _ (by omega)
  obtain ⟨lv, hlv, hbits⟩ := getBits_ok b.low h.linv (k * b.lowLen) b.lowLen (by have := h.llt; omega) hr
  rw [hlv]
  congr 2
  apply Nat.eq_of_testBit_eq
  intro j
  rw [hbits j, Nat.testBit_mod_two_pow]
  by_cases hj : j < b.lowLen
  · have := h.lows k hk j hj
    simp only [hj, decide_true, Bool.true_and]; exact this
  · simp [hj]

/-! ### arithmetic of the split `x = (x >> l) << l | (x mod 2^l)` -/

theorem shl_le (x l : Nat) : (x >>> l) <<< l ≤ x := by
  rw [Nat.shiftLeft_eq, Nat.shiftRight_eq_div_pow]; exact Nat.div_mul_le_self _ _

theorem split_or (x l : Nat) : ((x >>> l) <<< l) ||| (x % 2 ^ l) = x := by
  rw [← Nat.shiftLeft_add_eq_or_of_lt (Nat.mod_lt _ (Nat.two_pow_pos l)), Nat.shiftLeft_eq,
    Nat.shiftRight_eq_div_pow]
  exact Nat.div_add_mod' _ _

theorem split_add (x l : Nat) : ((x >>> l) <<< l) + (x % 2 ^ l) = x := by
  rw [Nat.shiftLeft_eq, Nat.shiftRight_eq_div_pow]; exact Nat.div_add_mod' _ _

/-- the tail of `select` / `delta(0)` / the iterator: `((hp k − k) << l) | low = x_k` without overflow -/
theorem assemble (S : Setting c e b xs) (k : Nat) (hk : k < xs.length) :
    ((csub c (hp b xs k) k).bind fun d =>
      (cshl c d b.lowLen).bind fun hi => (.ok (some (hi ||| (X xs k % 2 ^ b.lowLen))) : R (Option Nat)))
      = .ok (some (X xs k)) := by
  have hl := S.holds.llt
  have hx := X_lt S k hk
  have hu := S.ulim
  rw [csub_ok c (le_hp b xs k), bind_ok, cshl_ok c hl, bind_ok]
  have e1 := hp_sub b xs k
  have := shl_le (X xs k) b.lowLen
  rw [e1, Nat.mod_eq_of_lt (by omega), split_or]

/-- **select**: the k-th value, `none` iff `k ≥ len`; nothing overflows, no `unwrap` fails -/
theorem select_ok (S : Setting c e b xs) (k : Nat) : e.select c k = .ok xs[k]? := by
  unfold EF.select
  rw [len_eq S, S.low, S.lowLen]
  by_cases hk : xs.length ≤ k
  · simp [hk, List.getElem?_eq_none hk]
  · have hk' : k < xs.length := by omega
    simp only [hk, if_false]
    rw [S.high.select1, sel1 S k hk', unwrapO_some, bind_ok, low_ok S k hk', unwrapO_some, bind_ok,
      getElem?_X xs k hk']
    exact assemble S k hk'

/-! ### delta -/

/-- the previous one in the high bits -/
theorem pred_high (S : Setting c e b xs) (k : Nat) (hk : k + 1 < xs.length) :
    predP b.high.bitAt (hp b xs (k + 1) - 1) = some (hp b xs k) := by
  rw [predP_some_iff]
  have hm := hp_mono S k (k+1) (by omega) hk
  refine ⟨by omega, (hp_ones S _).mpr ⟨k, by omega, rfl⟩, ?_⟩
  intro q hq1 hq2
  cases hb : b.high.bitAt q with
  | false => rfl
  | true =>
    obtain ⟨j, hj, hjq⟩ := (hp_ones S q).mp hb
    exfalso
    by_cases h1 : j ≤ k
    · by_cases h2 : j = k
      · subst h2; omega
      · have := hp_mono S j k (by omega) (by omega); omega
    · by_cases h2 : j = k + 1
      · subst h2; omega
      · have := hp_mono S (k+1) j (by omega) hj; omega

theorem delta_arith (A hk hk1 lk lk1 : Nat) (hA : 0 < A) (h1 : lk < A) (h2 : lk1 < A)
    (hle : hk1 * A + lk1 ≤ hk * A + lk) :
    hk1 ≤ hk ∧ lk1 ≤ (hk - hk1) * A + lk ∧ (hk - hk1) * A + lk - lk1 = (hk * A + lk) - (hk1 * A + lk1) := by
  have h0 : hk1 ≤ hk := by
    apply Nat.le_of_not_lt
    intro hlt
    have : (hk + 1) * A ≤ hk1 * A := Nat.mul_le_mul_right _ hlt
    rw [Nat.add_mul] at this
    omega
  refine ⟨h0, ?_⟩
  rw [Nat.sub_mul]
  have h3 : hk1 * A ≤ hk * A := Nat.mul_le_mul_right _ h0
  by_cases he : hk1 = hk
  · subst he; omega
  · have : (hk1 + 1) * A ≤ hk * A := Nat.mul_le_mul_right _ (by omega)
    rw [Nat.add_mul] at this
    omega

/-- **delta**: `x_k − x_{k−1}` (`x_0` for `k = 0`), `none` iff `k ≥ len`; no `csub`/`cadd`/`cshl` overflows -/
theorem delta_ok (S : Setting c e b xs) (k : Nat) :
    e.delta c k = .ok (if k < xs.length then some (X xs k - (if k = 0 then 0 else X xs (k - 1))) else none) := by
  unfold EF.delta
  rw [len_eq S, S.low, S.lowLen]
  by_cases hk : xs.length ≤ k
  · have : ¬ k < xs.length := by omega
    simp [hk, this]
  · have hk' : k < xs.length := by omega
    simp only [hk, hk', if_false, if_true]
    rw [S.high.select1, sel1 S k hk', unwrapO_some, bind_ok, low_ok S k hk', unwrapO_some, bind_ok]
    by_cases h0 : k = 0
    · subst h0
      simp only [ne_eq, not_true_eq_false, if_false, if_true, Nat.sub_zero]
      exact assemble S 0 hk'
    · obtain ⟨k1, rfl⟩ : ∃ k1, k = k1 + 1 := ⟨k - 1, by omega⟩
      simp only [ne_eq, h0, not_false_eq_true, if_true, if_false, Nat.add_sub_cancel]
      have hl := S.holds.llt
      have hx := X_lt S (k1+1) hk'
      have hu := S.ulim
      have hm := hp_mono S k1 (k1+1) (by omega) hk'
      have hlen := hp_lt_len S (k1+1) hk'
      rw [csub_ok c (by omega), bind_ok, S.high.bv, S.high.pred1]
      have hlt : hp b xs (k1 + 1) - 1 < b.high.len := by omega
      simp only [hlt, if_true]
      rw [pred_high S k1 hk', unwrapO_some, bind_ok, csub_ok c (by omega), bind_ok, csub_ok c (by omega), bind_ok,
        cshl_ok c hl, bind_ok]
      -- arithmetic
      have hsorted := X_le xs S.holds.sorted k1 (k1+1) (by omega) hk'
      have e1 : hp b xs (k1 + 1) - hp b xs k1 - 1 = (X xs (k1+1) >>> b.lowLen) - (X xs k1 >>> b.lowLen) := by
        unfold hp; omega
      rw [e1, Nat.shiftLeft_eq]
      have sa1 := split_add (X xs (k1+1)) b.lowLen
      have sa0 := split_add (X xs k1) b.lowLen
      rw [Nat.shiftLeft_eq] at sa1 sa0
      have hA := Nat.two_pow_pos b.lowLen
      have hr1 := Nat.mod_lt (X xs (k1+1)) hA
      have hr0 := Nat.mod_lt (X xs k1) hA
      obtain ⟨a1, a2, a3⟩ := delta_arith (2 ^ b.lowLen) (X xs (k1+1) >>> b.lowLen) (X xs k1 >>> b.lowLen)
        (X xs (k1+1) % 2 ^ b.lowLen) (X xs k1 % 2 ^ b.lowLen) hA hr1 hr0 (by omega)
      have hsub : (X xs (k1+1) >>> b.lowLen - X xs k1 >>> b.lowLen) * 2 ^ b.lowLen ≤ X xs (k1+1) >>> b.lowLen * 2 ^ b.lowLen :=
        Nat.mul_le_mul_right _ (Nat.sub_le _ _)
      rw [Nat.mod_eq_of_lt (by omega), cadd_ok c (by omega), bind_ok, low_ok S k1 (by omega),
        unwrapO_some, bind_ok, csub_ok c a2, bind_ok, a3, sa1, sa0]

end
end EFQ
end Sucds
