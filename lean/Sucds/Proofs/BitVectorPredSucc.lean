import Sucds.Model.BitVectorPred
import Sucds.Proofs.BitVectorSelect0
import Sucds.Proofs.C14Msb
import Sucds.Proofs.Rank9Select1
/-! `predecessor1/0`, `successor1/0`, `num_ones` of the linear-scan bit vector. -/
set_option linter.unusedSimpArgs false
set_option linter.unusedVariables false
namespace Sucds

namespace Spec

/-- the largest `p ≤ i` with `P p` -/
def predP (P : Nat → Bool) : Nat → Option Nat
  | 0 => if P 0 then some 0 else none
  | i+1 => if P (i+1) then some (i+1) else predP P i

theorem predP_some_spec (P : Nat → Bool) (i p : Nat) (h : predP P i = some p) :
    p ≤ i ∧ P p = true ∧ ∀ q, p < q → q ≤ i → P q = false := by
  induction i with
  | zero =>
    simp only [predP] at h
    split at h
    · cases h; exact ⟨Nat.le_refl _, by assumption, fun q h1 h2 => by omega⟩
    · cases h
  | succ i ih =>
    simp only [predP] at h
    split at h
    · cases h; exact ⟨Nat.le_refl _, by assumption, fun q h1 h2 => by omega⟩
    · rename_i hP
      obtain ⟨h1, h2, h3⟩ := ih h
      refine ⟨by omega, h2, fun q hq1 hq2 => ?_⟩
      by_cases hq : q = i + 1
      · subst hq; simpa using hP
      · exact h3 q hq1 (by omega)

theorem predP_none_spec (P : Nat → Bool) (i : Nat) (h : predP P i = none) : ∀ q, q ≤ i → P q = false := by
  induction i with
  | zero =>
    simp only [predP] at h
    split at h
    · cases h
    · rename_i hP
      intro q hq
      have : q = 0 := by omega
      subst this; simpa using hP
  | succ i ih =>
    simp only [predP] at h
    split at h
    · cases h
    · rename_i hP
      intro q hq
      by_cases hq' : q = i + 1
      · subst hq'; simpa using hP
      · exact ih h q (by omega)

/-- `predP P i = some p` iff `p` is the largest position `≤ i` satisfying `P` -/
theorem predP_eq_some (P : Nat → Bool) (i p : Nat) :
    predP P i = some p ↔ p ≤ i ∧ P p = true ∧ ∀ q, p < q → q ≤ i → P q = false := by
  constructor
  · exact predP_some_spec P i p
  · intro ⟨h1, h2, h3⟩
    cases hp : predP P i with
    | none => have := predP_none_spec P i hp p h1; rw [this] at h2; cases h2
    | some p' =>
      obtain ⟨g1, g2, g3⟩ := predP_some_spec P i p' hp
      by_cases hlt : p < p'
      · have := h3 p' hlt g1; rw [this] at g2; cases g2
      · by_cases hgt : p' < p
        · have := g3 p hgt h1; rw [this] at h2; cases h2
        · have : p' = p := by omega
          rw [this]

/-- `predP P i = none` iff no position `≤ i` satisfies `P` -/
theorem predP_eq_none (P : Nat → Bool) (i : Nat) : predP P i = none ↔ ∀ q, q ≤ i → P q = false := by
  constructor
  · exact predP_none_spec P i
  · intro h
    cases hp : predP P i with
    | none => rfl
    | some p =>
      obtain ⟨g1, g2, _⟩ := predP_some_spec P i p hp
      rw [h p g1] at g2; cases g2

/-- positions in `(m, i]` without `P` do not matter -/
theorem predP_skip (P : Nat → Bool) (m i : Nat) (hmi : m ≤ i) (h : ∀ q, m < q → q ≤ i → P q = false) :
    predP P i = predP P m := by
  cases hm : predP P m with
  | none =>
    rw [predP_eq_none] at hm ⊢
    intro q hq
    by_cases hqm : q ≤ m
    · exact hm q hqm
    · exact h q (by omega) hq
  | some p =>
    rw [predP_eq_some] at hm ⊢
    obtain ⟨h1, h2, h3⟩ := hm
    refine ⟨by omega, h2, fun q hq1 hq2 => ?_⟩
    by_cases hqm : q ≤ m
    · exact h3 q hq1 hqm
    · exact h q (by omega) hq2

theorem predP_congr (P Q : Nat → Bool) (i : Nat) (h : ∀ q, q ≤ i → P q = Q q) : predP P i = predP Q i := by
  cases hq : predP Q i with
  | none =>
    rw [predP_eq_none] at hq ⊢
    intro q hqi; rw [h q hqi]; exact hq q hqi
  | some p =>
    rw [predP_eq_some] at hq ⊢
    obtain ⟨h1, h2, h3⟩ := hq
    exact ⟨h1, by rw [h p h1]; exact h2, fun q hq1 hq2 => by rw [h q hq2]; exact h3 q hq1 hq2⟩

/-- the smallest `p ≥ i` with `P p` among the next `d` positions -/
def succAux (P : Nat → Bool) : Nat → Nat → Option Nat
  | _, 0 => none
  | i, d+1 => if P i then some i else succAux P (i+1) d

/-- the smallest `p` with `i ≤ p < n` and `P p` -/
def succP (P : Nat → Bool) (n i : Nat) : Option Nat := succAux P i (n - i)

theorem succAux_some_spec (P : Nat → Bool) (d i p : Nat) (h : succAux P i d = some p) :
    i ≤ p ∧ p < i + d ∧ P p = true ∧ ∀ q, i ≤ q → q < p → P q = false := by
  induction d generalizing i with
  | zero => simp only [succAux] at h; cases h
  | succ d ih =>
    simp only [succAux] at h
    split at h
    · cases h; exact ⟨Nat.le_refl _, by omega, by assumption, fun q h1 h2 => by omega⟩
    · rename_i hP
      obtain ⟨h1, h2, h3, h4⟩ := ih (i + 1) h
      refine ⟨by omega, by omega, h3, fun q hq1 hq2 => ?_⟩
      by_cases hq : q = i
      · subst hq; simpa using hP
      · exact h4 q (by omega) hq2

theorem succAux_none_spec (P : Nat → Bool) (d i : Nat) (h : succAux P i d = none) :
    ∀ q, i ≤ q → q < i + d → P q = false := by
  induction d generalizing i with
  | zero => intro q h1 h2; omega
  | succ d ih =>
    simp only [succAux] at h
    split at h
    · cases h
    · rename_i hP
      intro q hq1 hq2
      by_cases hq : q = i
      · subst hq; simpa using hP
      · exact ih (i + 1) h q (by omega) (by omega)

theorem succP_some_spec (P : Nat → Bool) (n i p : Nat) (h : succP P n i = some p) :
    i ≤ p ∧ p < n ∧ P p = true ∧ ∀ q, i ≤ q → q < p → P q = false := by
  obtain ⟨h1, h2, h3, h4⟩ := succAux_some_spec P (n - i) i p h
  exact ⟨h1, by omega, h3, h4⟩

theorem succP_none_spec (P : Nat → Bool) (n i : Nat) (h : succP P n i = none) :
    ∀ q, i ≤ q → q < n → P q = false := by
  intro q h1 h2
  exact succAux_none_spec P (n - i) i h q h1 (by omega)

/-- `succP P n i = some p` iff `p` is the smallest position in `[i, n)` satisfying `P` -/
theorem succP_eq_some (P : Nat → Bool) (n i p : Nat) :
    succP P n i = some p ↔ i ≤ p ∧ p < n ∧ P p = true ∧ ∀ q, i ≤ q → q < p → P q = false := by
  constructor
  · exact succP_some_spec P n i p
  · intro ⟨h1, h2, h3, h4⟩
    cases hp : succP P n i with
    | none => have := succP_none_spec P n i hp p h1 h2; rw [this] at h3; cases h3
    | some p' =>
      obtain ⟨g1, g2, g3, g4⟩ := succP_some_spec P n i p' hp
      by_cases hlt : p < p'
      · have := g4 p h1 hlt; rw [this] at h3; cases h3
      · by_cases hgt : p' < p
        · have := h4 p' g1 hgt; rw [this] at g3; cases g3
        · have : p' = p := by omega
          rw [this]

/-- `succP P n i = none` iff no position in `[i, n)` satisfies `P` -/
theorem succP_eq_none (P : Nat → Bool) (n i : Nat) :
    succP P n i = none ↔ ∀ q, i ≤ q → q < n → P q = false := by
  constructor
  · exact succP_none_spec P n i
  · intro h
    cases hp : succP P n i with
    | none => rfl
    | some p =>
      obtain ⟨g1, g2, g3, _⟩ := succP_some_spec P n i p hp
      rw [h p g1 g2] at g3; cases g3

/-- positions in `[i, m)` without `P` do not matter -/
theorem succP_skip (P : Nat → Bool) (n i m : Nat) (him : i ≤ m) (h : ∀ q, i ≤ q → q < m → P q = false) :
    succP P n i = succP P n m := by
  cases hm : succP P n m with
  | none =>
    rw [succP_eq_none] at hm ⊢
    intro q hq1 hq2
    by_cases hqm : q < m
    · exact h q hq1 hqm
    · exact hm q (by omega) hq2
  | some p =>
    rw [succP_eq_some] at hm ⊢
    obtain ⟨h1, h2, h3, h4⟩ := hm
    refine ⟨by omega, h2, h3, fun q hq1 hq2 => ?_⟩
    by_cases hqm : q < m
    · exact h q hq1 hqm
    · exact h4 q (by omega) hq2

/-- the successor is the 0-th position `≥ i` below `n` satisfying `P` -/
theorem succP_eq_sel (P : Nat → Bool) (n i : Nat) :
    succP P n i = sel (fun q => decide (i ≤ q) && P q) n 0 := by
  cases hs : succP P n i with
  | none =>
    rw [succP_eq_none] at hs
    rw [sel_eq_none]
    rw [C14.cnt_zero_of_false]
    · exact Nat.le_refl _
    · intro q hq
      by_cases hiq : i ≤ q
      · simp [hs q hiq hq]
      · simp [hiq]
  | some p =>
    rw [succP_eq_some] at hs
    obtain ⟨h1, h2, h3, h4⟩ := hs
    rw [sel_eq_some _ n 0 p ⟨h2, by simp [h1, h3], ?_⟩]
    apply C14.cnt_zero_of_false
    intro q hq
    by_cases hiq : i ≤ q
    · simp [h4 q hiq hq]
    · simp [hiq]

end Spec

open Spec

namespace ScanB

/-! ### `lsb` / `msb` of a word, as facts about its bits -/

theorem lsbW_eq (c : Cfg) (w : Nat) (hw : w < 2^64) : lsbW c w = sel (fun i => w.testBit i) 64 0 := by
  unfold lsbW
  rw [C14.lsb_ok]
  exact sel_congr _ _ 64 0 (fun i hi => by rw [bitsOf_ofNat w i hw]; simp [hi])

theorem ofNat_ne_zero (w : Nat) (hw : w < 2^64) (h0 : w ≠ 0) : BitVec.ofNat 64 w ≠ 0 := by
  intro h
  have := congrArg BitVec.toNat h
  rw [BitVec.toNat_ofNat, Nat.mod_eq_of_lt hw] at this
  exact h0 this

theorem msbW_eq (c : Cfg) (w : Nat) (hw : w < 2^64) :
    msbW c w = if w = 0 then none else sel (fun i => w.testBit i) 64 (cnt (fun i => w.testBit i) 64 - 1) := by
  unfold msbW
  rw [C14.msb_ok]
  by_cases h0 : w = 0
  · subst h0; simp
  · rw [if_neg (ofNat_ne_zero w hw h0), if_neg h0]
    have hc : cnt (Broadword.bitsOf (BitVec.ofNat 64 w)) 64 = cnt (fun i => w.testBit i) 64 :=
      cnt_congr _ _ 64 (fun i hi => by rw [bitsOf_ofNat w i hw]; simp [hi])
    simp only [hc]
    exact sel_congr _ _ 64 _ (fun i hi => by rw [bitsOf_ofNat w i hw]; simp [hi])

theorem false_of_cnt_zero (P : Nat → Bool) (n : Nat) (h : cnt P n = 0) (q : Nat) (hq : q < n) : P q = false := by
  cases hP : P q with
  | false => rfl
  | true => have := C14.cnt_pos_of_true P n q hq hP; omega

theorem lsbW_some (c : Cfg) (w r : Nat) (hw : w < 2^64) (h : lsbW c w = some r) :
    r < 64 ∧ w.testBit r = true ∧ ∀ j, j < r → w.testBit j = false := by
  rw [lsbW_eq c w hw] at h
  obtain ⟨h1, h2, h3⟩ := sel_isKth _ _ _ _ h
  exact ⟨h1, h2, fun j hj => false_of_cnt_zero _ r h3 j hj⟩

theorem lsbW_none (c : Cfg) (w : Nat) (hw : w < 2^64) (h : lsbW c w = none) : ∀ j, j < 64 → w.testBit j = false := by
  rw [lsbW_eq c w hw] at h
  have := sel_none_le _ _ _ h
  exact fun j hj => false_of_cnt_zero (fun i => w.testBit i) 64 (by omega) j hj

theorem msbW_some (c : Cfg) (w r : Nat) (hw : w < 2^64) (h : msbW c w = some r) :
    r < 64 ∧ w.testBit r = true ∧ ∀ j, r < j → j < 64 → w.testBit j = false := by
  rw [msbW_eq c w hw] at h
  by_cases h0 : w = 0
  · rw [if_pos h0] at h; cases h
  · rw [if_neg h0] at h
    have hk := sel_isKth _ _ _ _ h
    have hlt := isKth_lt_cnt _ _ _ _ hk
    obtain ⟨h1, h2, h3⟩ := hk
    refine ⟨h1, h2, fun j hj1 hj2 => ?_⟩
    cases hP : w.testBit j with
    | false => rfl
    | true =>
      exfalso
      have e1 := cnt_succ_of_true (fun i => w.testBit i) r h2
      have e2 := cnt_mono (fun i => w.testBit i) (show r + 1 ≤ j by omega)
      have e3 := cnt_lt_of_lt (fun i => w.testBit i) hj2 hP
      omega

theorem msbW_none (c : Cfg) (w : Nat) (hw : w < 2^64) (h : msbW c w = none) : ∀ j, j < 64 → w.testBit j = false := by
  rw [msbW_eq c w hw] at h
  by_cases h0 : w = 0
  · subst h0; intro j _; exact Nat.zero_testBit j
  · rw [if_neg h0] at h
    have := sel_none_le _ _ _ h
    exact fun j hj => false_of_cnt_zero (fun i => w.testBit i) 64 (by omega) j hj

end ScanB

namespace BV
open ScanB

/-! ### predecessor -/

/-- the backward loop: `word` holds the bits of word `block` at positions `≤ i` -/
theorem predLoop_spec (c : Cfg) (f : Nat → Nat) (b : BV) (hf : ∀ i, f (wordAt b.words i) < 2^64) :
    ∀ (fuel block word i : Nat), block ≤ fuel → block ≤ b.words.size → i / 64 = block → word < 2^64 →
    (∀ j, j < 64 → word.testBit j = (fbit f b (64 * block + j) && decide (64 * block + j ≤ i))) →
    predLoop c f b.words block word fuel = .ok (predP (fbit f b) i) := by
  intro fuel
  induction fuel with
  | zero =>
    intro block word i hbf hbs hib hw hbits
    have hb0 : block = 0 := by omega
    subst hb0
    unfold predLoop
    cases hm : msbW c word with
    | none =>
      simp only []
      have hz := msbW_none c word hw hm
      rw [(predP_eq_none _ _).mpr]
      intro q hq
      have h1 := hbits q (by omega)
      rw [hz q (by omega)] at h1
      have : decide (64 * 0 + q ≤ i) = true := by simp; omega
      rw [this, Bool.and_true, Nat.mul_zero, Nat.zero_add] at h1
      exact h1.symm
    | some r =>
      simp only []
      obtain ⟨hr1, hr2, hr3⟩ := msbW_some c word r hw hm
      have h1 := hbits r hr1
      rw [hr2] at h1
      have h1' := h1.symm
      rw [Bool.and_eq_true, decide_eq_true_eq] at h1'
      have hp : predP (fbit f b) i = some (0 * 64 + r) := by
        rw [predP_eq_some]
        refine ⟨by omega, by rw [Nat.mul_comm]; exact h1'.1, ?_⟩
        intro q hq1 hq2
        have h2 := hbits q (by omega)
        rw [hr3 q (by omega) (by omega)] at h2
        have : decide (64 * 0 + q ≤ i) = true := by simp; omega
        rw [this, Bool.and_true, Nat.mul_zero, Nat.zero_add] at h2
        exact h2.symm
      rw [hp]
  | succ fuel ih =>
    intro block word i hbf hbs hib hw hbits
    unfold predLoop
    cases hm : msbW c word with
    | none =>
      simp only []
      have hz := msbW_none c word hw hm
      have hnone : ∀ q, 64 * block ≤ q → q ≤ i → fbit f b q = false := by
        intro q hq1 hq2
        have h1 := hbits (q - 64 * block) (by omega)
        rw [hz _ (by omega), show 64 * block + (q - 64 * block) = q by omega] at h1
        have : decide (q ≤ i) = true := by simp; omega
        rw [this, Bool.and_true] at h1
        exact h1.symm
      by_cases hb0 : block = 0
      · rw [if_pos hb0]
        rw [(predP_eq_none _ _).mpr]
        intro q hq
        exact hnone q (by omega) hq
      · rw [if_neg hb0, idx_ok _ _ (by omega), R9Index.bind_ok]
        rw [ih (block - 1) (f (wordAt b.words (block - 1))) (64 * block - 1) (by omega) (by omega) (by omega) (hf _)]
        · rw [predP_skip (fbit f b) (64 * block - 1) i (by omega) (fun q hq1 hq2 => hnone q (by omega) hq2)]
        · intro j hj
          rw [fbit_word f b (block - 1) j hj]
          have : decide (64 * (block - 1) + j ≤ 64 * block - 1) = true := by simp; omega
          rw [this, Bool.and_true]
    | some r =>
      simp only []
      obtain ⟨hr1, hr2, hr3⟩ := msbW_some c word r hw hm
      have h1 := hbits r hr1
      rw [hr2] at h1
      have h1' := h1.symm
      rw [Bool.and_eq_true, decide_eq_true_eq] at h1'
      have hp : predP (fbit f b) i = some (block * 64 + r) := by
        rw [predP_eq_some]
        refine ⟨by omega, by rw [Nat.mul_comm]; exact h1'.1, ?_⟩
        intro q hq1 hq2
        have h2 := hbits (q - 64 * block) (by omega)
        rw [hr3 _ (by omega) (by omega), show 64 * block + (q - 64 * block) = q by omega] at h2
        have : decide (q ≤ i) = true := by simp; omega
        rw [this, Bool.and_true] at h2
        exact h2.symm
      rw [hp]

theorem predecessor_spec (c : Cfg) (f : Nat → Nat) (b : BV) (h : b.Inv) (hf : ∀ i, f (wordAt b.words i) < 2^64)
    (pos : Nat) : predecessor c f b pos = .ok (if pos < b.len then predP (fbit f b) pos else none) := by
  have hsz := h.size
  unfold predecessor
  by_cases hle : b.len ≤ pos
  · rw [if_pos hle, if_neg (by omega)]
  · rw [if_neg hle, if_pos (by omega), idx_ok _ _ (by omega), R9Index.bind_ok]
    apply predLoop_spec c f b hf (pos / 64) (pos / 64) _ pos (Nat.le_refl _) (by omega) rfl
    · exact Nat.lt_of_le_of_lt (Nat.shiftRight_le _ _) (Nat.mod_lt _ (by decide))
    · intro j hj
      rw [Nat.testBit_shiftRight, Nat.testBit_mod_two_pow, Nat.testBit_shiftLeft, Nat.add_sub_cancel_left,
          fbit_word f b (pos / 64) j hj]
      have e1 : decide (64 - pos % 64 - 1 + j < 64) = decide (64 * (pos / 64) + j ≤ pos) := by
        apply decide_eq_decide.mpr; omega
      have e2 : decide (64 - pos % 64 - 1 + j ≥ 64 - pos % 64 - 1) = true := by simp
      rw [e1, e2, Bool.true_and, Bool.and_comm]

/-- **predecessor1**: the largest set position `≤ pos`; `none` when there is none or `pos ≥ len` -/
theorem predecessor1_ok (c : Cfg) (b : BV) (h : b.Inv) (pos : Nat) :
    b.predecessor1 c pos = .ok (if pos < b.len then predP b.bitAt pos else none) := by
  unfold predecessor1
  rw [predecessor_spec c id b h (fun i => h.lt i) pos, fbit_id]

/-- **predecessor0**: the largest unset position `≤ pos`; `none` when there is none or `pos ≥ len` -/
theorem predecessor0_ok (c : Cfg) (b : BV) (h : b.Inv) (pos : Nat) :
    b.predecessor0 c pos = .ok (if pos < b.len then predP (fun i => !b.bitAt i) pos else none) := by
  unfold predecessor0
  rw [predecessor_spec c wnot b h (fun i => wnot_lt _) pos, fbit_wnot b h]

/-! ### successor -/

/-- the forward loop: `word` holds the bits of word `block` at positions `≥ i` -/
theorem succLoop_spec (c : Cfg) (f : Nat → Nat) (b : BV) (hlen : b.len ≤ 64 * b.words.size)
    (hf : ∀ i, f (wordAt b.words i) < 2^64) :
    ∀ (fuel block word i : Nat), block < b.words.size → b.words.size ≤ block + fuel → i / 64 = block → word < 2^64 →
    (∀ j, j < 64 → word.testBit j = (fbit f b (64 * block + j) && decide (i ≤ 64 * block + j))) →
    succLoop c f b block word fuel = .ok (succP (fbit f b) b.len i) := by
  intro fuel
  induction fuel with
  | zero => intro block word i h1 h2; omega
  | succ fuel ih =>
    intro block word i hbs hbf hib hw hbits
    unfold succLoop
    cases hm : lsbW c word with
    | none =>
      simp only []
      have hz := lsbW_none c word hw hm
      have hnone : ∀ q, i ≤ q → q < 64 * (block + 1) → fbit f b q = false := by
        intro q hq1 hq2
        have h1 := hbits (q - 64 * block) (by omega)
        rw [hz _ (by omega), show 64 * block + (q - 64 * block) = q by omega] at h1
        have : decide (i ≤ q) = true := by simp; omega
        rw [this, Bool.and_true] at h1
        exact h1.symm
      by_cases hb0 : block + 1 = b.words.size
      · rw [if_pos hb0]
        rw [(succP_eq_none _ _ _).mpr]
        intro q hq1 hq2
        exact hnone q hq1 (by omega)
      · rw [if_neg hb0, idx_ok _ _ (by omega), R9Index.bind_ok]
        rw [ih (block + 1) (f (wordAt b.words (block + 1))) (64 * (block + 1)) (by omega) (by omega) (by omega) (hf _)]
        · rw [succP_skip (fbit f b) b.len i (64 * (block + 1)) (by omega) hnone]
        · intro j hj
          rw [fbit_word f b (block + 1) j hj]
          have : decide (64 * (block + 1) ≤ 64 * (block + 1) + j) = true := by simp
          rw [this, Bool.and_true]
    | some r =>
      simp only []
      obtain ⟨hr1, hr2, hr3⟩ := lsbW_some c word r hw hm
      have h1 := hbits r hr1
      rw [hr2] at h1
      have h1' := h1.symm
      rw [Bool.and_eq_true, decide_eq_true_eq] at h1'
      have hbelow : ∀ q, i ≤ q → q < 64 * block + r → fbit f b q = false := by
        intro q hq1 hq2
        have h2 := hbits (q - 64 * block) (by omega)
        rw [hr3 _ (by omega), show 64 * block + (q - 64 * block) = q by omega] at h2
        have : decide (i ≤ q) = true := by simp; omega
        rw [this, Bool.and_true] at h2
        exact h2.symm
      rw [Nat.mul_comm block 64]
      by_cases hlt : 64 * block + r < b.len
      · rw [if_pos hlt, (succP_eq_some _ _ _ _).mpr ⟨h1'.2, hlt, h1'.1, hbelow⟩]
      · rw [if_neg hlt, (succP_eq_none _ _ _).mpr (fun q hq1 hq2 => hbelow q hq1 (by omega))]

theorem successor_spec (c : Cfg) (f : Nat → Nat) (b : BV) (h : b.Inv) (hf : ∀ i, f (wordAt b.words i) < 2^64)
    (pos : Nat) : successor c f b pos = .ok (if pos < b.len then succP (fbit f b) b.len pos else none) := by
  have hsz := h.size
  unfold successor
  by_cases hle : b.len ≤ pos
  · rw [if_pos hle, if_neg (by omega)]
  · rw [if_neg hle, if_pos (by omega), idx_ok _ _ (by omega), R9Index.bind_ok]
    apply succLoop_spec c f b (by omega) hf b.words.size (pos / 64) _ pos (by omega) (by omega) rfl
    · exact Nat.mod_lt _ (by decide)
    · intro j hj
      rw [Nat.testBit_mod_two_pow, Nat.testBit_shiftLeft, Nat.testBit_shiftRight]
      by_cases hjs : pos % 64 ≤ j
      · rw [show pos % 64 + (j - pos % 64) = j by omega, fbit_word f b (pos / 64) j hj]
        have e1 : decide (pos ≤ 64 * (pos / 64) + j) = true := by simp; omega
        have e2 : decide (j ≥ pos % 64) = true := by simp; omega
        have e3 : decide (j < 64) = true := by simp; omega
        rw [e1, e2, e3, Bool.true_and, Bool.true_and, Bool.and_true]
      · have e1 : decide (pos ≤ 64 * (pos / 64) + j) = false := by simp; omega
        have e2 : decide (j ≥ pos % 64) = false := by simp; omega
        rw [e1, e2, Bool.and_false, Bool.false_and, Bool.and_false]

/-- **successor1**: the smallest set position in `[pos, len)`; `none` when there is none or `pos ≥ len` -/
theorem successor1_ok (c : Cfg) (b : BV) (h : b.Inv) (pos : Nat) :
    b.successor1 c pos = .ok (if pos < b.len then succP b.bitAt b.len pos else none) := by
  unfold successor1
  rw [successor_spec c id b h (fun i => h.lt i) pos, fbit_id]

/-- **successor0**: the smallest unset position in `[pos, len)`; `none` when there is none or `pos ≥ len` -/
theorem successor0_ok (c : Cfg) (b : BV) (h : b.Inv) (pos : Nat) :
    b.successor0 c pos = .ok (if pos < b.len then succP (fun i => !b.bitAt i) b.len pos else none) := by
  unfold successor0
  rw [successor_spec c wnot b h (fun i => wnot_lt _) pos, fbit_wnot b h]

/-- **num_ones**: the number of set bits; the `unwrap` cannot fail -/
theorem numOnes_ok (c : Cfg) (b : BV) (h : b.Inv) : b.numOnes c = .ok (cnt b.bitAt b.len) := by
  unfold numOnes
  rw [rank1_ok c b h b.len, if_pos (Nat.le_refl _), R9Index.bind_ok]

end BV
end Sucds
