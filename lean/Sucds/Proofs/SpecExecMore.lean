import Sucds.Proofs.SpecExecSeq
import Sucds.Proofs.WaveletIntersect
/-! The executable specification computes the proof-level vocabulary: part 3, the remaining oracles of the
    driver (`quantile`, `intersect`, `dedup`, `validSplit`, `compositions`, `bruteOpt`, last position). -/
set_option linter.unusedSimpArgs false
set_option linter.unusedVariables false
namespace Sucds.SpecX
open Sucds Sucds.Spec

/-! ### last set position (oracle of `msb`) -/

theorem positions_back? (b : Bool) (a : Array Bool) :
    (positions b a).back? = ((List.range a.size).filter (fun p => a[p]? = some b)).getLast? := by
  rw [← Array.getLast?_toList, positions_toList]

theorem positions_true_back? (a : Array Bool) : (positions true a).back? = (SA.ones (P a) a.size).getLast? := by
  rw [← Array.getLast?_toList, positions_true]

/-! ### `quantile` -/

theorem slice_nil (xs : Array Nat) (a b : Nat) (h : b ≤ a) : slice xs a b = [] := by
  apply List.eq_nil_of_length_eq_zero
  rw [slice_length]; omega

/-- **quantile**: defined iff `b ≤ n` and `k < b - a`; the value is the `k`-th smallest of `xs[a..b)` in the
    counting sense (`Wav.IsQuant`: at most `k` elements are smaller, more than `k` are not larger) -/
theorem quantile_some_iff (xs : Array Nat) (a b k q : Nat) :
    quantile xs a b k = some q ↔ (b ≤ xs.size ∧ k < b - a) ∧ Wav.IsQuant (slice xs a b) k q := by
  constructor
  · intro h
    unfold quantile at h
    by_cases hc : b ≤ xs.size ∧ k < b - a
    · rw [if_pos hc] at h
      refine ⟨hc, ?_⟩
      have hlen : (sort (slice xs a b)).length = (slice xs a b).length := (sort_perm _).length_eq
      have hk : k < (sort (slice xs a b)).length := by
        rw [hlen, slice_length]; omega
      rw [List.getElem?_eq_getElem hk] at h
      have hq : (sort (slice xs a b))[k] = q := Option.some.inj h
      rw [← hq]
      exact (Wav.sorted_kth _ (sort_sorted _) k hk).perm (sort_perm _)
    · rw [if_neg hc] at h; cases h
  · intro ⟨hc, hq⟩
    exact quantile_of_isQuant xs a b k q hc.1 hc.2 hq

theorem quantile_none_iff (xs : Array Nat) (a b k : Nat) :
    quantile xs a b k = none ↔ ¬ (b ≤ xs.size ∧ k < b - a) := by
  unfold quantile
  by_cases hc : b ≤ xs.size ∧ k < b - a
  · rw [if_pos hc]
    have hlen : (sort (slice xs a b)).length = (slice xs a b).length := (sort_perm _).length_eq
    have hk : k < (sort (slice xs a b)).length := by
      rw [hlen, slice_length]; omega
    rw [List.getElem?_eq_getElem hk]
    simp [hc]
  · rw [if_neg hc]; simp [hc]

/-! ### `dedup`, `intersect` -/

theorem dedup_mem (L : List Nat) (z : Nat) : z ∈ dedup L ↔ z ∈ L := Wav.dedup_mem L z
theorem dedup_strict (L : List Nat) (h : L.Pairwise (· ≤ ·)) : (dedup L).Pairwise (· < ·) := Wav.dedup_strict L h

theorem intersect_none_iff (xs : Array Nat) (ranges : List (Nat × Nat)) (k : Nat) :
    intersect xs ranges k = none ↔ ∃ r ∈ ranges, xs.size < r.2 := by
  unfold intersect
  by_cases h : (ranges.any fun r => decide (xs.size < r.2)) = true
  · rw [if_pos h]
    rw [List.any_eq_true] at h
    obtain ⟨r, hr, hlt⟩ := h
    simp only [true_iff]
    exact ⟨r, hr, by simpa using hlt⟩
  · rw [if_neg h]
    simp only [List.any_eq_true, not_exists, not_and] at h
    constructor
    · intro hh; cases hh
    · intro ⟨r, hr, hlt⟩
      exact absurd (by simpa using hlt) (h r hr)

/-- **intersect**: when every range ends within the sequence the result is the strictly ascending list of the
    values that occur in more than `k` of the ranges (an empty range `a ≥ b` contains nothing) -/
theorem intersect_some (xs : Array Nat) (ranges : List (Nat × Nat)) (k : Nat)
    (h : ∀ r ∈ ranges, r.2 ≤ xs.size) :
    ∃ L, intersect xs ranges k = some L ∧ L.Pairwise (· < ·) ∧
      ∀ v, v ∈ L ↔ k < ranges.countP (fun r => (slice xs r.1 r.2).contains v) := by
  have hany : ¬ (ranges.any fun r => decide (xs.size < r.2)) = true := by
    rw [List.any_eq_true]
    intro ⟨r, hr, hlt⟩
    have := h r hr
    have : xs.size < r.2 := by simpa using hlt
    omega
  unfold intersect
  rw [if_neg hany]
  refine ⟨_, rfl, ?_, ?_⟩
  · exact List.Pairwise.filter _ (dedup_strict _ (sort_sorted _))
  · intro v
    have hcount : ((ranges.filter fun r => decide (r.1 < r.2)).filter fun r => (slice xs r.1 r.2).contains v).length
        = ranges.countP (fun r => (slice xs r.1 r.2).contains v) := by
      rw [List.filter_filter, List.countP_eq_length_filter]
      congr 1
      apply filter_congr_mem
      intro r _
      by_cases hr : r.1 < r.2
      · simp [hr]
      · rw [slice_nil xs r.1 r.2 (by omega)]; simp
    rw [List.mem_filter, hcount]
    simp only [gt_iff_lt, decide_eq_true_eq]
    constructor
    · intro ⟨_, hk⟩; exact hk
    · intro hk
      refine ⟨?_, hk⟩
      rw [dedup_mem, (sort_perm _).mem_iff, List.mem_flatMap]
      rw [← hcount] at hk
      obtain ⟨r, hr⟩ := List.exists_mem_of_length_pos (Nat.lt_of_le_of_lt (Nat.zero_le _) hk)
      rw [List.mem_filter] at hr
      exact ⟨r, hr.1, List.contains_iff_mem.mp hr.2⟩

/-! ### DACs: `validSplit`, `compositions`, `bruteOpt` -/

theorem validSplit_iff (vals : List Nat) (L : Nat) (ws : List Nat) :
    validSplit vals L ws = true ↔
      1 ≤ ws.length ∧ ws.length ≤ L ∧ (∀ w ∈ ws, 0 < w) ∧ ws.sum = bitlen (vals.foldl max 0) := by
  unfold validSplit
  simp only [Bool.and_eq_true, decide_eq_true_eq, List.all_eq_true, beq_iff_eq, ge_iff_le, gt_iff_lt]
  constructor
  · intro ⟨⟨⟨h1, h2⟩, h3⟩, h4⟩; exact ⟨h1, h2, h3, h4⟩
  · intro ⟨h1, h2, h3, h4⟩; exact ⟨⟨⟨h1, h2⟩, h3⟩, h4⟩

theorem length_le_sum : ∀ (ws : List Nat), (∀ w ∈ ws, 0 < w) → ws.length ≤ ws.sum
  | [], _ => by simp
  | w :: r, h => by
    have := h w List.mem_cons_self
    have := length_le_sum r (fun x hx => h x (List.mem_cons_of_mem _ hx))
    simp only [List.length_cons, List.sum_cons]; omega

/-- `compositions n k` lists exactly the splits of `n` into `k` positive parts -/
theorem mem_compositions : ∀ (k n : Nat) (ws : List Nat),
    ws ∈ compositions n k ↔ ws.length = k ∧ (∀ w ∈ ws, 0 < w) ∧ ws.sum = n
  | 0, 0, ws => by
    rw [compositions]
    simp only [List.mem_singleton]
    constructor
    · intro h; subst h; simp
    · intro ⟨h, _, _⟩; exact List.eq_nil_of_length_eq_zero h
  | 0, n+1, ws => by
    rw [compositions]
    simp only [List.not_mem_nil, false_iff]
    intro ⟨h, _, hs⟩
    rw [List.eq_nil_of_length_eq_zero h] at hs
    simp at hs
  | k+1, 0, ws => by
    rw [compositions]
    simp only [List.not_mem_nil, false_iff]
    intro ⟨h, hp, hs⟩
    have := length_le_sum ws hp
    omega
  | k+1, n+1, ws => by
    rw [compositions, List.mem_flatMap]
    constructor
    · intro ⟨i, hi, hw⟩
      rw [List.mem_range] at hi
      rw [List.mem_map] at hw
      obtain ⟨r, hr, he⟩ := hw
      rw [mem_compositions k (n - i) r] at hr
      obtain ⟨h1, h2, h3⟩ := hr
      subst he
      refine ⟨by simp [h1], ?_, by simp only [List.sum_cons]; omega⟩
      intro w hw
      rcases List.mem_cons.mp hw with rfl | hw
      · omega
      · exact h2 w hw
    · intro ⟨h1, h2, h3⟩
      cases ws with
      | nil => simp at h1
      | cons w r =>
        have hw := h2 w List.mem_cons_self
        simp only [List.sum_cons] at h3
        simp only [List.length_cons] at h1
        refine ⟨w - 1, List.mem_range.mpr (by omega), ?_⟩
        rw [List.mem_map]
        refine ⟨r, ?_, by congr 1; omega⟩
        rw [mem_compositions k (n - (w - 1)) r]
        exact ⟨by omega, fun x hx => h2 x (List.mem_cons_of_mem _ hx), by omega⟩

theorem foldl_min_spec {α : Type} (f : α → Nat) : ∀ (l : List α) (m : Nat),
    l.foldl (fun m x => min m (f x)) m ≤ m ∧
    (∀ x ∈ l, l.foldl (fun m x => min m (f x)) m ≤ f x) ∧
    (l.foldl (fun m x => min m (f x)) m = m ∨ ∃ x ∈ l, l.foldl (fun m x => min m (f x)) m = f x)
  | [], m => by simp
  | y :: t, m => by
    obtain ⟨h1, h2, h3⟩ := foldl_min_spec f t (min m (f y))
    rw [List.foldl_cons]
    refine ⟨by omega, ?_, ?_⟩
    · intro x hx
      rcases List.mem_cons.mp hx with rfl | hx
      · omega
      · exact h2 x hx
    · rcases h3 with h3 | ⟨x, hx, h3⟩
      · by_cases hm : m ≤ f y
        · left; omega
        · right; exact ⟨y, List.mem_cons_self, by omega⟩
      · right; exact ⟨x, List.mem_cons_of_mem _ hx, h3⟩

/-- the candidates enumerated by `bruteOpt` are exactly the valid splits -/
theorem mem_bruteOpt_candidates (vals : List Nat) (L : Nat) (ws : List Nat) :
    ws ∈ ((List.range (min L (bitlen (vals.foldl max 0)))).flatMap fun k =>
            compositions (bitlen (vals.foldl max 0)) (k + 1))
      ↔ validSplit vals L ws = true := by
  rw [validSplit_iff, List.mem_flatMap]
  constructor
  · intro ⟨k, hk, hw⟩
    rw [List.mem_range] at hk
    rw [mem_compositions] at hw
    obtain ⟨h1, h2, h3⟩ := hw
    exact ⟨by omega, by omega, h2, h3⟩
  · intro ⟨h1, h2, h3, h4⟩
    have := length_le_sum ws h3
    refine ⟨ws.length - 1, List.mem_range.mpr (by omega), ?_⟩
    rw [mem_compositions]
    exact ⟨by omega, h3, h4⟩

theorem bitlen_pos (x : Nat) : 1 ≤ bitlen x := by unfold bitlen; split <;> omega

/-- **bruteOpt** (the oracle for the optimal DACs cost): for `L ≥ 1` it is the minimum of `dacCost` over all
    valid splits — attained, and a lower bound -/
theorem bruteOpt_spec (vals : List Nat) (L : Nat) (hL : 1 ≤ L) :
    (∃ ws, validSplit vals L ws = true ∧ dacCost vals ws = bruteOpt vals L) ∧
    (∀ ws, validSplit vals L ws = true → bruteOpt vals L ≤ dacCost vals ws) := by
  have hone : validSplit vals L [bitlen (vals.foldl max 0)] = true := by
    rw [validSplit_iff]
    have := bitlen_pos (vals.foldl max 0)
    refine ⟨by simp, by simpa using hL, ?_, by simp⟩
    intro w hw
    rw [List.mem_singleton] at hw
    omega
  obtain ⟨h1, h2, h3⟩ := foldl_min_spec (dacCost vals)
    ((List.range (min L (bitlen (vals.foldl max 0)))).flatMap fun k =>
      compositions (bitlen (vals.foldl max 0)) (k + 1))
    (dacCost vals [bitlen (vals.foldl max 0)])
  have hdef : bruteOpt vals L =
      ((List.range (min L (bitlen (vals.foldl max 0)))).flatMap fun k =>
        compositions (bitlen (vals.foldl max 0)) (k + 1)).foldl
        (fun m ws => min m (dacCost vals ws)) (dacCost vals [bitlen (vals.foldl max 0)]) := rfl
  rw [hdef]
  constructor
  · rcases h3 with h3 | ⟨ws, hws, h3⟩
    · exact ⟨_, hone, h3.symm⟩
    · exact ⟨ws, (mem_bruteOpt_candidates vals L ws).mp hws, h3.symm⟩
  · intro ws hws
    exact h2 ws ((mem_bruteOpt_candidates vals L ws).mpr hws)

/-- for `L = 0` no split is valid and `bruteOpt` falls back to the single-level cost -/
theorem bruteOpt_zero (vals : List Nat) : bruteOpt vals 0 = dacCost vals [bitlen (vals.foldl max 0)] := by
  unfold bruteOpt
  simp

/-- **bitlen**: the number of binary digits, `1` for `0` -/
theorem bitlen_spec (x : Nat) : x < 2 ^ bitlen x ∧ (x ≠ 0 → 2 ^ (bitlen x - 1) ≤ x) := by
  unfold bitlen
  by_cases h : x = 0
  · subst h; simp
  · rw [if_neg h]
    refine ⟨Nat.lt_log2_self, fun _ => ?_⟩
    rw [Nat.add_sub_cancel]
    exact Nat.log2_self_le h

end Sucds.SpecX
