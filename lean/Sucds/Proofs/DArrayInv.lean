import Sucds.Proofs.DArrayFlush
/-! DArray, part 5: invariant of the build fold and the content of the finished index. -/
set_option linter.unusedSimpArgs false
set_option linter.unusedVariables false
namespace Sucds
open Spec
namespace DAProof

/-- state after the first `m` positions `f 0 … f (m-1)` were pushed -/
structure SInv (f : Nat → Nat) (m : Nat) (s : DAIndex.BSt) : Prop where
  np : s.numPos = m
  csz : s.cur.size = m % 1024
  cur : ∀ t, t < m % 1024 → wordAt s.cur t = f (1024 * (m / 1024) + t)
  bsz : s.blockInv.size = m / 1024
  ssz : s.subInv.size = 32 * (m / 1024)
  blk : ∀ j, j < m / 1024 → BlockOK f s.blockInv s.subInv s.overflow j 1024

theorem SInv.init (f : Nat → Nat) : SInv f 0 ⟨#[], #[], #[], #[], 0⟩ :=
  ⟨rfl, rfl, fun t ht => by omega, rfl, rfl, fun j hj => by omega⟩

theorem SInv.step (f : Nat → Nat) (M : Nat) (hmono : ∀ a b, a ≤ b → b < M → f a ≤ f b) (m : Nat) (hm : m < M)
    (s : DAIndex.BSt) (h : SInv f m s) : SInv f (m + 1) (pushOne s (f m)) := by
  obtain ⟨np, csz, cur, bsz, ssz, blk⟩ := h
  have hdm : 1024 * (m / 1024) + m % 1024 = m := Nat.div_add_mod m 1024
  have hcur' : ∀ t, t < m % 1024 + 1 → wordAt (s.cur.push (f m)) t = f (1024 * (m / 1024) + t) := by
    intro t ht
    rw [wordAt_push, csz]
    by_cases he : t = m % 1024
    · rw [if_pos he, he, hdm]
    · rw [if_neg he]; exact cur t (by omega)
  unfold pushOne
  simp only [Array.size_push, csz]
  by_cases hfull : m % 1024 + 1 = Gen.DA_BLOCK_LEN
  · rw [if_pos hfull]
    rw [hB] at hfull
    have hq : (m + 1) / 1024 = m / 1024 + 1 := by omega
    have hr : (m + 1) % 1024 = 0 := by omega
    obtain ⟨f1, f2, f3, f4, f5, f6, f7, f8⟩ := flush_spec f { s with cur := s.cur.push (f m) } (m / 1024) 1024
      (by omega) (by omega) (fun a b hab hb => hmono _ _ (by omega) (by omega))
      (by simp only [Array.size_push, csz]; omega) (fun t ht => hcur' t (by omega)) bsz ssz
    refine ⟨?_, ?_, ?_, ?_, ?_, ?_⟩
    · show (DAIndex.flush _).numPos + 1 = m + 1
      rw [f2]; simp only [np]
    · simp only [f1, hr]; rfl
    · intro t ht; omega
    · simp only [f6, hq]
    · simp only [f7, hq]; omega
    · intro j hj
      by_cases hjl : j < m / 1024
      · exact BlockOK.mono f3 f4 f5 (blk j hjl)
      · have : j = m / 1024 := by omega
        subst this; exact f8
  · rw [if_neg hfull]
    rw [hB] at hfull
    have hq : (m + 1) / 1024 = m / 1024 := by omega
    have hr : (m + 1) % 1024 = m % 1024 + 1 := by omega
    refine ⟨?_, ?_, ?_, ?_, ?_, ?_⟩
    · simp only [np]
    · simp only [Array.size_push, csz, hr]
    · intro t ht; rw [hq]; exact hcur' t (by omega)
    · simp only [bsz, hq]
    · simp only [ssz, hq]
    · intro j hj; exact blk j (by omega)

theorem SInv.pushAll (f : Nat → Nat) (M : Nat) (hmono : ∀ a b, a ≤ b → b < M → f a ≤ f b) :
    ∀ (n m : Nat) (s : DAIndex.BSt), m + n ≤ M → SInv f m s → SInv f (m + n) (pushAll s ((List.range' m n).map f)) := by
  intro n
  induction n with
  | zero => intro m s _ h; exact h
  | succ n ih =>
    intro m s hmn h
    rw [List.range'_succ, List.map_cons, pushAll_cons, show m + (n + 1) = m + 1 + n by omega]
    exact ih (m + 1) _ (by omega) (SInv.step f M hmono m (by omega) s h)

/-- content of the finished index over the positions `f 0 < … < f (M-1)` -/
structure FInv (f : Nat → Nat) (M : Nat) (x : DAIndex) : Prop where
  np : x.numPos = M
  blk : ∀ j, 1024 * j < M → BlockOK f x.blockInv x.subInv x.overflow j (min 1024 (M - 1024 * j))

theorem FInv.final (f : Nat → Nat) (M : Nat) (hmono : ∀ a b, a ≤ b → b < M → f a ≤ f b)
    (s : DAIndex.BSt) (h : SInv f M s) (o : Bool) :
    FInv f M (let s' := if s.cur.size ≠ 0 then DAIndex.flush s else s
              ⟨s'.blockInv, s'.subInv, s'.overflow, s'.numPos, o⟩) := by
  obtain ⟨np, csz, cur, bsz, ssz, blk⟩ := h
  have hdm : 1024 * (M / 1024) + M % 1024 = M := Nat.div_add_mod M 1024
  simp only []
  by_cases hc : s.cur.size ≠ 0
  · rw [if_pos hc]
    obtain ⟨f1, f2, f3, f4, f5, f6, f7, f8⟩ := flush_spec f s (M / 1024) (M % 1024)
      (by omega) (by omega) (fun a b hab hb => hmono _ _ (by omega) (by omega)) csz cur bsz ssz
    refine ⟨by simp only [f2, np], ?_⟩
    intro j hj
    by_cases hjl : j < M / 1024
    · rw [show min 1024 (M - 1024 * j) = 1024 by omega]
      exact BlockOK.mono f3 f4 f5 (blk j hjl)
    · have : j = M / 1024 := by omega
      subst this
      rw [show min 1024 (M - 1024 * (M / 1024)) = M % 1024 by omega]
      exact f8
  · rw [if_neg hc]
    refine ⟨np, ?_⟩
    intro j hj
    rw [show min 1024 (M - 1024 * j) = 1024 by omega]
    exact blk j (by omega)

end DAProof
end Sucds
