import Sucds.Proofs.GenRank9Build
import Sucds.Proofs.GenRank9Query
import Sucds.Proofs.GenBitVectorRW
/-! # The `Rank9Sel` wrapper generated from `src/bit_vectors/rank9sel.rs` agrees with the model `R9`

`Sucds.GenFn.Rank9Sel.{new, select1_hints, select0_hints, from_bits, build_from_bits, bit_vector, rs_index, len,
is_empty, num_bits, num_ones, num_zeros, access, rank1, rank0, select1, select0}` (generated) versus
`Sucds.R9.{new, select1Hints, select0Hints, build, access, rank1, rank0, select1, select0, numBits, numOnes,
numZeros}` (hand-written model, `Sucds/Model/Rank9Sel.lean`). The wrapper only forwards to `BitVector` and
`Rank9SelIndex`; their equivalences are `GenBitVectorRW` (`from_bits_eq`, `access_eq`), `GenRank9Build`
(`r9_new_eq`, `select1_hints_eq`, `select0_hints_eq`) and `GenRank9Query` (`r9_rank1_eq`, …, `R9Inv`, `build_inv`).

Bounds (all are "a length computation fits a `usize`"): `new`/`from_bits` need `len < 2^64`; `select1_hints` needs
`len + 1023 < 2^64` (the threshold `cur_ones_threshold += 512` runs one step past the number of ones);
`select0_hints` needs `len + 1534 < 2^64` (`block_rank0` of the last, padded block plus one threshold step);
`select0` needs `len + 511 < 2^64`; everything else needs nothing beyond `usize` arguments. -/
set_option linter.unusedVariables false
namespace Sucds.GenEq
open Sucds Sucds.Spec Sucds.R9Index

/-! ## Constructors -/

/-- **`Rank9Sel::new`** -/
theorem rs_new_eq (c : Cfg) (bv : BV) (h : bv.Inv) (hl : bv.len < 2^64) :
    GenFn.Rank9Sel.new c bv = .ok (R9.new c bv) := by
  unfold GenFn.Rank9Sel.new R9.new
  rw [r9_new_eq c bv h hl, bok]

/-- **`Rank9Sel::select1_hints`** on any structure whose directory is the one of `build_rank` -/
theorem rs_select1_hints_eq (c : Cfg) (x : R9) (h : x.bv.Inv) (hl : x.bv.len + 1023 < 2^64)
    (hx : x.rs.pairs = (buildRank c x.bv).pairs) :
    GenFn.Rank9Sel.select1_hints c x = x.select1Hints := by
  unfold GenFn.Rank9Sel.select1_hints R9.select1Hints
  rw [select1_hints_eq c x.bv h hl x.rs hx]

/-- **`Rank9Sel::select0_hints`** on any structure whose directory is the one of `build_rank` -/
theorem rs_select0_hints_eq (c : Cfg) (x : R9) (h : x.bv.Inv) (hl : x.bv.len + 1534 < 2^64)
    (hx : x.rs.pairs = (buildRank c x.bv).pairs) :
    GenFn.Rank9Sel.select0_hints c x = x.select0Hints c := by
  unfold GenFn.Rank9Sel.select0_hints R9.select0Hints
  rw [select0_hints_eq c x.bv h hl x.rs hx]

/-- **`Rank9Sel::from_bits`** -/
theorem rs_from_bits_eq (c : Cfg) (bs : List Bool) (hl : bs.length < 2^64) :
    GenFn.Rank9Sel.from_bits c bs = .ok (R9.new c (BV.fromBits bs)) := by
  unfold GenFn.Rank9Sel.from_bits
  rw [from_bits_eq c bs hl, bok]
  exact rs_new_eq c _ (BV.fromBits_spec bs).1 (by rw [BV.fromBits_len]; exact hl)

/-- the bound on the length that the requested hint builders need -/
def hintRoom (h1 h0 : Bool) : Nat := if h0 then 1534 else if h1 then 1023 else 0
theorem hintRoom_le (h1 h0 : Bool) : hintRoom h1 h0 ≤ 1534 := by cases h1 <;> cases h0 <;> decide
theorem hintRoom_one (h0 : Bool) : 1023 ≤ hintRoom true h0 := by cases h0 <;> decide
theorem hintRoom_zero (h1 : Bool) : hintRoom h1 true = 1534 := by cases h1 <;> rfl

/-- the builder chain `new(bv)`, then `select1_hints()` if `h1`, then `select0_hints()` if `h0`, as generated,
    is the model's `R9.build` (same value, same panic) -/
theorem rs_chain_eq (c : Cfg) (bv : BV) (h : bv.Inv) (h1 h0 : Bool) (hl : bv.len + hintRoom h1 h0 < 2^64) :
    ((GenFn.Rank9Sel.new c bv).bind fun x =>
      (if h1 = true then GenFn.Rank9Sel.select1_hints c x else .ok x : R _).bind fun y =>
      (if h0 = true then GenFn.Rank9Sel.select0_hints c y else .ok y : R _)) = R9.build c bv h1 h0 := by
  rw [rs_new_eq c bv h (by omega), bok]
  unfold R9.build
  obtain ⟨rs1, e1, hp, _, _, _⟩ := R9.stage1_ok c bv h h1
  have s1 : (if h1 = true then GenFn.Rank9Sel.select1_hints c (R9.new c bv) else .ok (R9.new c bv) : R _)
      = .ok ⟨bv, rs1⟩ := by
    rw [← e1]
    cases h1 with
    | false => rfl
    | true =>
      rw [if_pos rfl, if_pos rfl]
      have := hintRoom_one h0
      exact rs_select1_hints_eq c (R9.new c bv) h (by show bv.len + 1023 < 2^64; omega) rfl
  rw [s1, e1, bok, bok]
  cases h0 with
  | false => rfl
  | true =>
    rw [if_pos rfl, if_pos rfl]
    exact rs_select0_hints_eq c ⟨bv, rs1⟩ h (by rw [hintRoom_zero] at hl; exact hl) hp

/-- **`Rank9Sel::build_from_bits`** (`impl Build`; the `with_rank` flag is ignored by the code) -/
theorem rs_build_from_bits_eq (c : Cfg) (bs : List Bool) (r h1 h0 : Bool) (hl : bs.length + hintRoom h1 h0 < 2^64) :
    GenFn.Rank9Sel.build_from_bits c bs r h1 h0 = (R9.build c (BV.fromBits bs) h1 h0).map RS.Res.ok := by
  have hinv := (BV.fromBits_spec bs).1
  have hlen := BV.fromBits_len bs
  have hch := rs_chain_eq c (BV.fromBits bs) hinv h1 h0 (by rw [hlen]; exact hl)
  rw [rs_new_eq c _ hinv (by omega), bok] at hch
  unfold GenFn.Rank9Sel.build_from_bits
  rw [rs_from_bits_eq c bs (by omega), bok]
  cases e1 : (if h1 = true then GenFn.Rank9Sel.select1_hints c (R9.new c (BV.fromBits bs))
      else .ok (R9.new c (BV.fromBits bs)) : R _) with
  | error p => rw [e1] at hch; rw [← hch]; rfl
  | ok y =>
    rw [e1, bok] at hch
    rw [bok, hch]
    cases R9.build c (BV.fromBits bs) h1 h0 <;> rfl

/-! ## Accessors -/

theorem rs_bit_vector_eq (x : R9) : GenFn.Rank9Sel.bit_vector x = x.bv := rfl
theorem rs_rs_index_eq (x : R9) : GenFn.Rank9Sel.rs_index x = x.rs := rfl
theorem rs_len_eq (x : R9) : GenFn.Rank9Sel.len x = x.numBits := rfl
theorem rs_num_bits_eq (x : R9) : GenFn.Rank9Sel.num_bits x = x.numBits := rfl
theorem rs_is_empty_eq (x : R9) : GenFn.Rank9Sel.is_empty x = (x.numBits == 0) := rfl

/-- **`Rank9Sel::access`** (no hypothesis) -/
theorem rs_access_eq (c : Cfg) (x : R9) (pos : Nat) : GenFn.Rank9Sel.access c x pos = x.access pos :=
  access_eq c x.bv pos

/-- **`Rank9Sel::num_ones`**: only needs the sentinel pair of the directory -/
theorem rs_num_ones_eq (c : Cfg) (x : R9) (h2 : 2 ≤ x.rs.pairs.size) : GenFn.Rank9Sel.num_ones c x = x.numOnes :=
  r9_num_ones_eq c x.rs h2

/-- **`Rank9Sel::num_zeros`** (the trait default `num_bits() - num_ones()`) -/
theorem rs_num_zeros_eq (c : Cfg) (x : R9) (h2 : 2 ≤ x.rs.pairs.size) :
    GenFn.Rank9Sel.num_zeros c x = x.numZeros c := by
  unfold GenFn.Rank9Sel.num_zeros R9.numZeros
  rw [rs_num_ones_eq c x h2]
  rfl

/-- **`Rank9Sel::rank1`** -/
theorem rs_rank1_eq (c : Cfg) (x : R9) (h : x.bv.Inv) (hx : x.rs.pairs = (buildRank c x.bv).pairs)
    (pos : Nat) (hpos : pos < 2^64) : GenFn.Rank9Sel.rank1 c x pos = x.rank1 c pos :=
  r9_rank1_eq c x.bv h x.rs hx pos hpos

/-- **`Rank9Sel::rank0`** -/
theorem rs_rank0_eq (c : Cfg) (x : R9) (h : x.bv.Inv) (hx : x.rs.pairs = (buildRank c x.bv).pairs)
    (pos : Nat) (hpos : pos < 2^64) : GenFn.Rank9Sel.rank0 c x pos = x.rank0 c pos :=
  r9_rank0_eq c x.bv h x.rs hx pos hpos

/-- **`Rank9Sel::select1`** under the invariant of `R9.build` -/
theorem rs_select1_eq (c : Cfg) (x : R9) (h : x.bv.Inv) (hl : x.bv.len < 2^64) (hx : R9Inv c x.bv x.rs)
    (k : Nat) (hk : k < 2^64) : GenFn.Rank9Sel.select1 c x k = x.select1 c k :=
  r9_select1_eq c x.bv h hl x.rs hx.pairs hx.win1 k hk

/-- **`Rank9Sel::select0`** under the invariant of `R9.build` -/
theorem rs_select0_eq (c : Cfg) (x : R9) (h : x.bv.Inv) (hl : x.bv.len + 511 < 2^64) (hx : R9Inv c x.bv x.rs)
    (k : Nat) (hk : k < 2^64) : GenFn.Rank9Sel.select0 c x k = x.select0 c k :=
  r9_select0_eq c x.bv h hl x.rs hx.pairs hx.len hx.win0 k hk

/-- every query of the generated wrapper equals the model's query -/
structure RsQueriesEq (c : Cfg) (x : R9) : Prop where
  bit_vector : GenFn.Rank9Sel.bit_vector x = x.bv
  rs_index : GenFn.Rank9Sel.rs_index x = x.rs
  len : GenFn.Rank9Sel.len x = x.numBits
  is_empty : GenFn.Rank9Sel.is_empty x = (x.numBits == 0)
  num_bits : GenFn.Rank9Sel.num_bits x = x.numBits
  num_ones : GenFn.Rank9Sel.num_ones c x = x.numOnes
  num_zeros : GenFn.Rank9Sel.num_zeros c x = x.numZeros c
  access : ∀ pos, GenFn.Rank9Sel.access c x pos = x.access pos
  rank1 : ∀ pos, pos < 2^64 → GenFn.Rank9Sel.rank1 c x pos = x.rank1 c pos
  rank0 : ∀ pos, pos < 2^64 → GenFn.Rank9Sel.rank0 c x pos = x.rank0 c pos
  select1 : ∀ k, k < 2^64 → GenFn.Rank9Sel.select1 c x k = x.select1 c k
  select0 : ∀ k, k < 2^64 → GenFn.Rank9Sel.select0 c x k = x.select0 c k

/-- all queries at once, on a structure satisfying the invariant of `R9.build` -/
theorem rs_queries_eq (c : Cfg) (x : R9) (h : x.bv.Inv) (hl : x.bv.len + 511 < 2^64) (hx : R9Inv c x.bv x.rs) :
    RsQueriesEq c x :=
  have h2 := pairs_size_ge c x.bv h x.rs hx.pairs
  ⟨rfl, rfl, rfl, rfl, rfl, rs_num_ones_eq c x h2, rs_num_zeros_eq c x h2, rs_access_eq c x,
    rs_rank1_eq c x h hx.pairs, rs_rank0_eq c x h hx.pairs,
    rs_select1_eq c x h (by omega) hx, rs_select0_eq c x h hl hx⟩

/-! ## Main theorem -/

/-- **`Rank9Sel` generated = model.** For every bit list whose length leaves the room the hint builders need,
    every combination of flags and every build configuration: `build_from_bits` (and the equivalent explicit chain
    `from_bits(bs)` [`.select1_hints()`] [`.select0_hints()`]) succeeds with exactly the structure `x` the model's
    `R9.build` produces, and every query of `x` through the generated wrapper equals the model's query. -/
theorem rank9sel_eq (c : Cfg) (bs : List Bool) (r h1 h0 : Bool) (hl : bs.length + 1534 < 2^64) :
    ∃ x, R9.build c (BV.fromBits bs) h1 h0 = .ok x ∧
      GenFn.Rank9Sel.build_from_bits c bs r h1 h0 = .ok (RS.Res.ok x) ∧
      ((GenFn.Rank9Sel.from_bits c bs).bind fun x =>
        (if h1 = true then GenFn.Rank9Sel.select1_hints c x else .ok x : R _).bind fun y =>
        (if h0 = true then GenFn.Rank9Sel.select0_hints c y else .ok y : R _)) = .ok x ∧
      RsQueriesEq c x := by
  have hinv := (BV.fromBits_spec bs).1
  have hlen := BV.fromBits_len bs
  have hroom : bs.length + hintRoom h1 h0 < 2^64 := by have := hintRoom_le h1 h0; omega
  obtain ⟨rs, e, hI⟩ := build_inv c (BV.fromBits bs) hinv h1 h0
  refine ⟨_, e, ?_, ?_, ?_⟩
  · rw [rs_build_from_bits_eq c bs r h1 h0 hroom, e]; rfl
  · have := rs_chain_eq c (BV.fromBits bs) hinv h1 h0 (by rw [hlen]; exact hroom)
    rw [rs_new_eq c _ hinv (by omega), ← rs_from_bits_eq c bs (by omega), e] at this
    exact this
  · exact rs_queries_eq c ⟨BV.fromBits bs, rs⟩ hinv (by show (BV.fromBits bs).len + 511 < 2^64; omega) hI

/-- the structure built by the generated code answers according to the bits (`C01`'s right-hand sides) -/
theorem rank9sel_answers (c : Cfg) (bs : List Bool) (r h1 h0 : Bool) (hl : bs.length + 1534 < 2^64) :
    ∃ x, GenFn.Rank9Sel.build_from_bits c bs r h1 h0 = .ok (RS.Res.ok x) ∧
      ((GenFn.Rank9Sel.from_bits c bs).bind fun x =>
        (if h1 = true then GenFn.Rank9Sel.select1_hints c x else .ok x : R _).bind fun y =>
        (if h0 = true then GenFn.Rank9Sel.select0_hints c y else .ok y : R _)) = .ok x ∧
      (∀ i, GenFn.Rank9Sel.access c x i = .ok bs[i]?) ∧
      (∀ i, i < 2^64 → GenFn.Rank9Sel.rank1 c x i = .ok (if i ≤ bs.length then some (cnt (C01.bitOf bs) i) else none)) ∧
      (∀ i, i < 2^64 → GenFn.Rank9Sel.rank0 c x i = .ok (if i ≤ bs.length then some (i - cnt (C01.bitOf bs) i) else none)) ∧
      (∀ k, k < 2^64 → GenFn.Rank9Sel.select1 c x k = .ok (sel (C01.bitOf bs) bs.length k)) ∧
      (∀ k, k < 2^64 → GenFn.Rank9Sel.select0 c x k = .ok (sel (fun j => !C01.bitOf bs j) bs.length k)) ∧
      GenFn.Rank9Sel.num_bits x = bs.length ∧ GenFn.Rank9Sel.len x = bs.length ∧
      GenFn.Rank9Sel.is_empty x = (bs.length == 0) ∧
      GenFn.Rank9Sel.num_ones c x = .ok (cnt (C01.bitOf bs) bs.length) ∧
      GenFn.Rank9Sel.num_zeros c x = .ok (bs.length - cnt (C01.bitOf bs) bs.length) := by
  obtain ⟨x, e, g1, g2, q⟩ := rank9sel_eq c bs r h1 h0 hl
  obtain ⟨y, ey, a1, a2, a3, a4, a5, a6, a7, a8⟩ := C01.holds c bs h1 h0
  rw [e] at ey; injection ey with ey; subst ey
  refine ⟨x, g1, g2, ?_, ?_, ?_, ?_, ?_, ?_, ?_, ?_, ?_, ?_⟩
  · intro i; rw [q.access, a1]
  · intro i hi; rw [q.rank1 i hi, a2]
  · intro i hi; rw [q.rank0 i hi, a3]
  · intro k hk; rw [q.select1 k hk, a4]
  · intro k hk; rw [q.select0 k hk, a5]
  · rw [q.num_bits, a6]
  · rw [q.len, a6]
  · rw [q.is_empty, a6]
  · rw [q.num_ones, a7]
  · rw [q.num_zeros, a8]

end Sucds.GenEq
