import Sucds.Gen.Fns
import Sucds.Proofs.BitVector
import Sucds.Proofs.BitVectorChunks
import Sucds.Proofs.BitVectorWrites
/-! Agreement of the *generated* `BitVector` constructors, mutators and chunk reads
    (`Sucds.GenFn.BitVector.*`, from `src/bit_vectors/bit_vector.rs`) with the hand-written model `BV`. -/
set_option linter.unusedSimpArgs false
set_option linter.unusedVariables false
namespace Sucds.GenEq
open Sucds BV

/-! ### bridging lemmas: `RS` library vs the model's primitives -/
theorem bind_ok {ε α β : Type} (v : α) (f : α → Except ε β) : (Except.ok v : Except ε α).bind f = f v := rfl
theorem bind_err {ε α β : Type} (e : ε) (f : α → Except ε β) : (Except.error e : Except ε α).bind f = .error e := rfl

theorem index_eq (v : Array Nat) (i : Nat) : RS.index v i = idx v i := by
  unfold RS.index idx; cases v[i]? <;> rfl
theorem b2u_eq (x : Bool) : RS.b2u x = b2w x := rfl
theorem MAX_eq : RS.MAX = MAXW := rfl
theorem wnot_eq_NOT (t : Nat) (ht : t < 2^64) : wnot t = NOT t := by
  unfold wnot NOT; rw [Nat.mod_eq_of_lt ht]; omega
theorem setIndex_ok {α : Type} (v : Array α) (i : Nat) (x : α) (h : i < v.size) :
    RS.setIndex v i x = .ok (v.set! i x) := by
  unfold RS.setIndex; rw [if_pos h]; rfl
theorem setIndex_oob {α : Type} (v : Array α) (i : Nat) (x : α) (h : v.size ≤ i) :
    RS.setIndex v i x = .error .oob := by
  unfold RS.setIndex; rw [if_neg (by omega)]
theorem size_set! {α : Type} (v : Array α) (i : Nat) (x : α) : (v.set! i x).size = v.size := by
  rw [Array.set!_eq_setIfInBounds, Array.size_setIfInBounds]
theorem set!_set! {α : Type} (v : Array α) (i : Nat) (x y : α) : (v.set! i x).set! i y = v.set! i y := by
  simp only [Array.set!_eq_setIfInBounds, Array.setIfInBounds_setIfInBounds]
theorem idx_set!_same (v : Array Nat) (i x : Nat) (h : i < v.size) : idx (v.set! i x) i = .ok x := by
  unfold idx; rw [Array.set!_eq_setIfInBounds, Array.getElem?_setIfInBounds]; simp [h]
/-- the two outcomes of `ws[i]` -/
theorem idx_cases (v : Array Nat) (i : Nat) :
    (i < v.size ∧ idx v i = .ok (wordAt v i)) ∨ (v.size ≤ i ∧ idx v i = .error .oob) := by
  by_cases h : i < v.size
  · exact .inl ⟨h, idx_ok v i h⟩
  · exact .inr ⟨by omega, idx_oob v i (by omega)⟩
theorem lastIndex_ok {α : Type} (v : Array α) (h : v.size ≠ 0) : RS.lastIndex v = .ok (v.size - 1) := by
  unfold RS.lastIndex; rw [if_neg h]
/-- read–modify–write of the last word is the model's `modify` -/
theorem set!_last_eq_modify (v : Array Nat) (f : Nat → Nat) (h : v.size ≠ 0) :
    v.set! (v.size - 1) (f (wordAt v (v.size - 1))) = v.modify (v.size - 1) f := by
  apply Array.ext_getElem?
  intro j
  rw [Array.set!_eq_setIfInBounds, Array.getElem?_setIfInBounds, Array.getElem?_modify]
  by_cases hj : v.size - 1 = j
  · subst hj
    have : v.size - 1 < v.size := by omega
    simp [wordAt, this]
  · simp [hj]
theorem one_shl_lt (p : Nat) (hp : p < 64) : 1 <<< p < 2^64 := by
  rw [Nat.one_shiftLeft]; exact Nat.pow_lt_pow_right (by omega) hp
theorem one_shl_pos (p : Nat) : 1 ≤ 1 <<< p := by
  rw [Nat.one_shiftLeft]; exact Nat.one_le_two_pow
theorem b2w_shl_lt (x : Bool) (p : Nat) (hp : p < 64) : b2w x <<< p < 2^64 := by
  cases x
  · simp [b2w]
  · simp only [b2w, if_true]; exact one_shl_lt p hp
/-- the mask computation `if len < 64 { (1 << len) - 1 } else { MAX }` -/
theorem mask_gen (c : Cfg) (len : Nat) :
    ((if len < 64 then (cshl c 1 len).bind fun t => csub c t 1 else .ok RS.MAX : R Nat))
      = .ok (mask len) := by
  unfold mask
  by_cases hl : len < 64
  · rw [if_pos hl, if_pos hl, cshl_ok c hl, bind_ok, Nat.mod_eq_of_lt (one_shl_lt len hl), csub_ok c (one_shl_pos len)]
  · rw [if_neg hl, if_neg hl]; rfl

/-! ### trivial accessors -/
@[simp] theorem new_eq : GenFn.BitVector.new = BV.new := rfl
@[simp] theorem len_eq (b : BV) : GenFn.BitVector.len b = b.len := rfl
@[simp] theorem is_empty_eq (b : BV) : GenFn.BitVector.is_empty b = (b.len == 0) := rfl
@[simp] theorem words_eq (b : BV) : GenFn.BitVector.words b = b.words := rfl
@[simp] theorem num_words_eq (b : BV) : GenFn.BitVector.num_words b = b.words.size := rfl
@[simp] theorem num_bits_eq (b : BV) : GenFn.BitVector.num_bits b = b.len := rfl

theorem words_for_eq (c : Cfg) (n : Nat) (hn : n + 64 < 2^64) :
    GenFn.BitVector.words_for c n = .ok (wordsFor n) := by
  unfold GenFn.BitVector.words_for wordsFor
  rw [cadd_ok c hn, bind_ok, csub_ok c (by omega), bind_ok]
  rfl
theorem with_capacity_eq (c : Cfg) (capa : Nat) (hn : capa + 64 < 2^64) :
    GenFn.BitVector.with_capacity c capa = .ok BV.new := by
  unfold GenFn.BitVector.with_capacity
  rw [words_for_eq c capa hn, bind_ok]; rfl

/-! ### single-bit reads -/
theorem get_bit_eq (c : Cfg) (b : BV) (pos : Nat) : GenFn.BitVector.get_bit c b pos = b.getBit pos := by
  unfold GenFn.BitVector.get_bit getBit
  simp only [GenFn.bit_vector.WORD_LEN]
  by_cases hp : pos < b.len
  · rw [if_pos hp, if_pos hp, index_eq]
    rcases idx_cases b.words (pos / 64) with ⟨_, hi⟩ | ⟨_, hi⟩
    · rw [hi, bind_ok, bind_ok, cshr_ok c (Nat.mod_lt _ (by decide)), bind_ok]
    · rw [hi]; rfl
  · rw [if_neg hp, if_neg hp]
theorem access_eq (c : Cfg) (b : BV) (pos : Nat) : GenFn.BitVector.access c b pos = b.getBit pos :=
  get_bit_eq c b pos

theorem get_word64_eq (c : Cfg) (b : BV) (pos : Nat) (hp : pos < 2^64) :
    GenFn.BitVector.get_word64 c b pos = b.getWord64 pos := by
  unfold GenFn.BitVector.get_word64 getWord64
  simp only [GenFn.bit_vector.WORD_LEN]
  by_cases hq : b.len ≤ pos
  · rw [if_pos hq, if_pos hq]
  · rw [if_neg hq, if_neg hq, index_eq]
    have hsh : pos % 64 < 64 := Nat.mod_lt _ (by decide)
    have hblk : pos / 64 + 1 < 2^64 := by omega
    rcases idx_cases b.words (pos / 64) with ⟨_, hi⟩ | ⟨_, hi⟩
    · rw [hi, bind_ok, bind_ok, cshr_ok c hsh, bind_ok]
      by_cases hs : pos % 64 = 0
      · have e : (pos % 64 != 0) = false := by simp [hs]
        rw [e]
        simp only [Bool.false_eq_true, if_false, bind_ok, hs, ne_eq, not_true_eq_false, false_and]
      · have e : (pos % 64 != 0) = true := by simp [hs]
        rw [e, if_pos rfl, cadd_ok c hblk, bind_ok, bind_ok]
        by_cases hw : pos / 64 + 1 < b.words.size
        · rw [if_pos (decide_eq_true hw), if_pos ⟨hs, hw⟩, bind_ok, index_eq]
          rcases idx_cases b.words (pos / 64 + 1) with ⟨_, hj⟩ | ⟨_, hj⟩
          · rw [hj, bind_ok, bind_ok, csub_ok c (Nat.le_of_lt hsh), bind_ok,
              cshl_ok c (by omega : 64 - pos % 64 < 64), bind_ok, bind_ok]
          · rw [hj]; rfl
        · rw [if_neg (by simp [hw]), if_neg (by simp [hw]), bind_ok]
    · rw [hi]; rfl

/-! ### single-bit write -/
/-- result conversion: the model's `Bool` flag vs `Result<()>` -/
def resOf (r : BV × Bool) : BV × RS.Res Unit := (r.1, if r.2 then RS.Res.ok () else RS.Res.err)

/-- `v[i] &= !m; v[i] |= x` as the generated code does it (two read–modify–writes) -/
theorem rmw2 {β : Type} (v : Array Nat) (i m x : Nat) (hm : m < 2^64) (k : Array Nat → R β) :
    ((RS.index v i).bind fun w => (RS.setIndex v i (w &&& wnot m)).bind fun arr =>
      (RS.index arr i).bind fun w1 => (RS.setIndex arr i (w1 ||| x)).bind fun arr1 => k arr1)
    = (idx v i).bind fun w => k (v.set! i ((w &&& NOT m) ||| x)) := by
  rw [index_eq]
  rcases idx_cases v i with ⟨hlt, hi⟩ | ⟨_, hi⟩
  · rw [hi, bind_ok, bind_ok, setIndex_ok v i _ hlt, bind_ok, index_eq, idx_set!_same v i _ hlt, bind_ok,
      setIndex_ok _ i _ (by rw [size_set!]; exact hlt), bind_ok, set!_set!, wnot_eq_NOT m hm]
  · rw [hi]; rfl

theorem set_bit_eq_resOf (c : Cfg) (b : BV) (pos : Nat) (bit : Bool) :
    GenFn.BitVector.set_bit c b pos bit = (b.setBit pos bit).map resOf := by
  unfold GenFn.BitVector.set_bit GenFn.BitVector.len setBit
  simp only [GenFn.bit_vector.WORD_LEN]
  by_cases hq : b.len ≤ pos
  · rw [if_pos hq, if_pos hq]; rfl
  · have hsh : pos % 64 < 64 := Nat.mod_lt _ (by decide)
    rw [if_neg hq, if_neg hq, cshl_ok c hsh, bind_ok, Nat.mod_eq_of_lt (one_shl_lt _ hsh)]
    simp only [cshl_ok c hsh, bind_ok, b2u_eq, Nat.mod_eq_of_lt (b2w_shl_lt bit _ hsh)]
    refine (rmw2 b.words (pos / 64) (1 <<< (pos % 64)) (b2w bit <<< (pos % 64)) (one_shl_lt _ hsh)
      (fun arr1 => .ok ((⟨arr1, b.len⟩ : BV), RS.Res.ok ()))).trans ?_
    rcases idx_cases b.words (pos / 64) with ⟨_, hi⟩ | ⟨_, hi⟩ <;> rw [hi] <;> rfl

theorem set_bit_eq (c : Cfg) (b : BV) (pos : Nat) (bit : Bool) :
    GenFn.BitVector.set_bit c b pos bit
      = (b.setBit pos bit).map fun r => (r.1, if r.2 then RS.Res.ok () else RS.Res.err) :=
  set_bit_eq_resOf c b pos bit

/-! ### chunk reads -/
/-- the range check `self.len() < pos.saturating_add(len)` against the model's overflow-free check.
    Needs `pos + len` not to saturate, or `b.len` to be below `usize::MAX`. -/
theorem sat_check (b : BV) (pos len : Nat) (hs : pos + len < 2^64 ∨ b.len + 1 < 2^64) :
    (b.len < RS.saturatingAdd pos len) ↔ (b.len < len ∨ b.len - len < pos) := by
  unfold RS.saturatingAdd
  split <;> omega

theorem get_bits_eq_of (c : Cfg) (b : BV) (pos len : Nat) (hs : pos + len < 2^64 ∨ b.len + 1 < 2^64) :
    GenFn.BitVector.get_bits c b pos len = b.getBits pos len := by
  unfold GenFn.BitVector.get_bits GenFn.BitVector.len getBits
  simp only [GenFn.bit_vector.WORD_LEN]
  have hsat := sat_check b pos len hs
  by_cases hc : 64 < len ∨ b.len < RS.saturatingAdd pos len
  · have hc' : 64 < len ∨ b.len < len ∨ b.len - len < pos := by
      rcases hc with h | h
      · exact .inl h
      · exact .inr (hsat.1 h)
    rw [if_pos hc, if_pos hc']
  · have hc' : ¬ (64 < len ∨ b.len < len ∨ b.len - len < pos) := by
      intro h; apply hc
      rcases h with h | h
      · exact .inl h
      · exact .inr (hsat.2 h)
    rw [if_neg hc, if_neg hc']
    have hl64 : len ≤ 64 := by omega
    have hsh : pos % 64 < 64 := Nat.mod_lt _ (by decide)
    have hr : pos + len ≤ b.len := by omega
    have hp : pos < 2^64 := by omega
    unfold getBitsCore join
    by_cases h0 : len = 0
    · rw [if_pos h0, if_pos h0]
    · rw [if_neg h0, if_neg h0, mask_gen, bind_ok, cadd_ok c (by omega : pos % 64 + len < 2^64), bind_ok]
      by_cases hle : pos % 64 + len ≤ 64
      · rw [if_pos hle, index_eq]
        rcases idx_cases b.words (pos / 64) with ⟨_, hi⟩ | ⟨_, hi⟩
        · rw [hi, bind_ok, bind_ok, cshr_ok c hsh, bind_ok, bind_ok, if_pos hle, if_pos hle]
        · rw [hi]; rfl
      · rw [if_neg hle, index_eq]
        rcases idx_cases b.words (pos / 64) with ⟨_, hi⟩ | ⟨_, hi⟩
        · rw [hi, bind_ok, bind_ok, cshr_ok c hsh, bind_ok, cadd_ok c (by omega : pos / 64 + 1 < 2^64), bind_ok,
            if_neg hle, index_eq]
          rcases idx_cases b.words (pos / 64 + 1) with ⟨_, hj⟩ | ⟨_, hj⟩
          · rw [hj, bind_ok, bind_ok, csub_ok c (Nat.le_of_lt hsh), bind_ok,
              cshl_ok c (by omega : 64 - pos % 64 < 64), bind_ok, bind_ok, if_neg hle]
          · rw [hj]; rfl
        · rw [hi]; rfl

theorem get_bits_eq (c : Cfg) (b : BV) (hl : b.len + 1 < 2^64) (pos len : Nat) :
    GenFn.BitVector.get_bits c b pos len = b.getBits pos len :=
  get_bits_eq_of c b pos len (.inr hl)

/-! ### chunk write -/
theorem set_bits_eq_resOf (c : Cfg) (b : BV) (pos bits len : Nat) (hs : pos + len < 2^64 ∨ b.len + 1 < 2^64) :
    GenFn.BitVector.set_bits c b pos bits len = (b.setBits pos bits len).map resOf := by
  unfold GenFn.BitVector.set_bits GenFn.BitVector.len setBits
  simp only [GenFn.bit_vector.WORD_LEN]
  have hsat := sat_check b pos len hs
  by_cases h64 : 64 < len
  · rw [if_pos h64, if_pos h64]; rfl
  rw [if_neg h64, if_neg h64]
  by_cases hc : b.len < RS.saturatingAdd pos len
  · rw [if_pos hc, if_pos (hsat.1 hc)]; rfl
  rw [if_neg hc, if_neg (fun h => hc (hsat.2 h))]
  by_cases h0 : len = 0
  · rw [if_pos h0, if_pos h0]; rfl
  rw [if_neg h0, if_neg h0]
  have hc' : ¬ (b.len < len ∨ b.len - len < pos) := fun h => hc (hsat.2 h)
  have hl64 : len ≤ 64 := by omega
  have hsh : pos % 64 < 64 := Nat.mod_lt _ (by decide)
  have hr : pos + len ≤ b.len := by omega
  have hp : pos < 2^64 := by omega
  have hmod : ∀ x, x % 2^64 < 2^64 := fun x => Nat.mod_lt _ (by decide)
  rw [mask_gen, bind_ok]
  simp only [cshl_ok c hsh, csub_ok c (Nat.le_of_lt hsh), bind_ok]
  rcases idx_cases b.words (pos / 64) with ⟨hlt, hi⟩ | ⟨_, hi⟩
  · rw [rmw2 _ _ _ _ (hmod _), hi, bind_ok, bind_ok]
    by_cases hst : 64 - pos % 64 < len
    · rw [if_pos hst, if_pos hst]
      have hst64 : 64 - pos % 64 < 64 := by omega
      simp only [cshr_ok c hst64, cadd_ok c (by omega : pos / 64 + 1 < 2^64), bind_ok]
      have hm : mask len >>> (64 - pos % 64) < 2^64 :=
        Nat.lt_of_le_of_lt (Nat.shiftRight_le _ _) (mask_lt len hl64)
      rw [rmw2 _ _ _ _ hm]
      rcases idx_cases (b.words.set! (pos / 64) (wr0 (wordAt b.words (pos / 64)) (bits &&& mask len) len (pos % 64)))
        (pos / 64 + 1) with ⟨_, hj⟩ | ⟨_, hj⟩
      · unfold wr0 at hj ⊢
        rw [hj, bind_ok, bind_ok, bind_ok]; rfl
      · unfold wr0 at hj ⊢
        rw [hj]; rfl
    · rw [if_neg hst, if_neg hst, bind_ok]; rfl
  · rw [index_eq, hi]; rfl

theorem set_bits_eq_of (c : Cfg) (b : BV) (pos bits len : Nat) (hs : pos + len < 2^64 ∨ b.len + 1 < 2^64) :
    GenFn.BitVector.set_bits c b pos bits len
      = (b.setBits pos bits len).map fun r => (r.1, if r.2 then RS.Res.ok () else RS.Res.err) :=
  set_bits_eq_resOf c b pos bits len hs

theorem set_bits_eq (c : Cfg) (b : BV) (hl : b.len + 1 < 2^64) (pos bits len : Nat) :
    GenFn.BitVector.set_bits c b pos bits len
      = (b.setBits pos bits len).map fun r => (r.1, if r.2 then RS.Res.ok () else RS.Res.err) :=
  set_bits_eq_resOf c b pos bits len (.inr hl)

/-! ### pushes -/
/-- `*v.last_mut().unwrap() |= x` style update of the last word -/
theorem rmw_last {β : Type} (v : Array Nat) (f : Nat → Nat) (h : v.size ≠ 0) (k : Array Nat → R β) :
    ((RS.index v (v.size - 1)).bind fun w => (RS.setIndex v (v.size - 1) (f w)).bind fun arr => k arr)
    = k (v.modify (v.size - 1) f) := by
  have hlt : v.size - 1 < v.size := by omega
  rw [index_eq, idx_ok v _ hlt, bind_ok, setIndex_ok v _ _ hlt, bind_ok, set!_last_eq_modify v f h]

theorem size_ne_zero (b : BV) (h : b.Inv) (hp : b.len % 64 ≠ 0) : b.words.size ≠ 0 := by
  have := h.size; omega

theorem push_bit_eq (c : Cfg) (b : BV) (h : b.Inv) (x : Bool) (hov : b.len + 1 < 2^64) :
    GenFn.BitVector.push_bit c b x = .ok (b.pushBit x, ()) := by
  unfold GenFn.BitVector.push_bit pushBit
  simp only [GenFn.bit_vector.WORD_LEN]
  by_cases hp : b.len % 64 = 0
  · rw [if_pos hp, if_pos hp, bind_ok]
    simp only []
    rw [cadd_ok c hov, bind_ok]; rfl
  · have hsh : b.len % 64 < 64 := Nat.mod_lt _ (by decide)
    rw [if_neg hp, if_neg hp, lastIndex_ok _ (size_ne_zero b h hp), bind_ok, cshl_ok c hsh, bind_ok,
      rmw_last b.words (fun w => w ||| (RS.b2u x <<< (b.len % 64)) % 2^64) (size_ne_zero b h hp), bind_ok]
    simp only []
    rw [cadd_ok c hov, bind_ok, b2u_eq, Nat.mod_eq_of_lt (b2w_shl_lt x _ hsh)]

theorem push_bits_rej (c : Cfg) (b : BV) (bits len : Nat) (h64 : 64 < len) :
    GenFn.BitVector.push_bits c b bits len = .ok (b, RS.Res.err) := by
  unfold GenFn.BitVector.push_bits
  simp only [GenFn.bit_vector.WORD_LEN]
  rw [if_pos h64]

theorem push_bits_eq_resOf (c : Cfg) (b : BV) (h : b.Inv) (bits len : Nat) (hov : b.len + len < 2^64) :
    GenFn.BitVector.push_bits c b bits len = .ok (resOf (b.pushBits bits len)) := by
  unfold GenFn.BitVector.push_bits pushBits
  simp only [GenFn.bit_vector.WORD_LEN]
  by_cases h64 : 64 < len
  · rw [if_pos h64, if_pos h64]; rfl
  rw [if_neg h64, if_neg h64]
  by_cases h0 : len = 0
  · rw [if_pos h0, if_pos h0]; rfl
  rw [if_neg h0, if_neg h0, mask_gen, bind_ok]
  by_cases hp : b.len % 64 = 0
  · rw [if_pos hp, if_pos hp, bind_ok]
    simp only []
    rw [cadd_ok c hov, bind_ok]; rfl
  · have hsh : b.len % 64 < 64 := Nat.mod_lt _ (by decide)
    have hne := size_ne_zero b h hp
    rw [if_neg hp, if_neg hp, lastIndex_ok _ hne, bind_ok, cshl_ok c hsh, bind_ok,
      rmw_last b.words (fun w => w ||| ((bits &&& mask len) <<< (b.len % 64)) % 2^64) hne,
      csub_ok c (Nat.le_of_lt hsh), bind_ok]
    by_cases hgt : len > 64 - b.len % 64
    · rw [if_pos hgt, if_pos hgt, bind_ok,
        cshr_ok c (by omega : 64 - b.len % 64 < 64), bind_ok, bind_ok, bind_ok]
      simp only []
      rw [cadd_ok c hov, bind_ok]; rfl
    · rw [if_neg hgt, if_neg hgt, bind_ok, bind_ok]
      simp only []
      rw [cadd_ok c hov, bind_ok]; rfl

theorem push_bits_eq (c : Cfg) (b : BV) (h : b.Inv) (bits len : Nat) (hov : b.len + len < 2^64) :
    GenFn.BitVector.push_bits c b bits len
      = .ok (let r := b.pushBits bits len; (r.1, if r.2 then RS.Res.ok () else RS.Res.err)) :=
  push_bits_eq_resOf c b h bits len hov

/-! ### constructors -/
theorem from_bit_eq (c : Cfg) (bit : Bool) (len : Nat) (hn : len + 64 < 2^64) :
    GenFn.BitVector.from_bit c bit len = .ok (BV.fromBit bit len) := by
  unfold GenFn.BitVector.from_bit fromBit
  simp only [GenFn.bit_vector.WORD_LEN]
  rw [words_for_eq c len hn, bind_ok]
  by_cases hs : len % 64 = 0
  · rw [if_neg (not_not_intro hs), if_neg (not_not_intro hs), bind_ok]; rfl
  · have hsh : len % 64 < 64 := Nat.mod_lt _ (by decide)
    have hne : (Array.replicate (wordsFor len) (if bit = true then RS.MAX else 0)).size ≠ 0 := by
      rw [Array.size_replicate]; unfold wordsFor; omega
    rw [if_pos hs, if_pos hs, cshl_ok c hsh, bind_ok, Nat.mod_eq_of_lt (one_shl_lt _ hsh),
      csub_ok c (one_shl_pos _), bind_ok, lastIndex_ok _ hne, bind_ok,
      rmw_last _ (fun w => w &&& (1 <<< (len % 64) - 1)) hne, bind_ok]
    rfl

/-- the loop of `from_bits` / `extend`: pushing the bits one by one -/
theorem push_loop (c : Cfg) (xs : List Bool) : ∀ (b : BV), b.Inv → b.len + xs.length < 2^64 →
    RS.forList (fun x s => (GenFn.BitVector.push_bit c s x).bind fun r => .ok r.1) xs b = .ok (b.extend xs) := by
  induction xs with
  | nil => intro b _ _; rfl
  | cons x t ih =>
    intro b h hov
    rw [List.length_cons] at hov
    unfold RS.forList
    rw [push_bit_eq c b h x (by omega), bind_ok, bind_ok]
    simp only []
    rw [ih (b.pushBit x) (pushBit_inv b h x) (by rw [pushBit_len]; omega)]
    rfl

theorem extend_eq (c : Cfg) (b : BV) (h : b.Inv) (xs : List Bool) (hov : b.len + xs.length < 2^64) :
    GenFn.BitVector.extend c b xs = .ok (b.extend xs, ()) := by
  unfold GenFn.BitVector.extend
  rw [push_loop c xs b h hov, bind_ok]

theorem from_bits_eq (c : Cfg) (xs : List Bool) (hov : xs.length < 2^64) :
    GenFn.BitVector.from_bits c xs = .ok (BV.fromBits xs) := by
  unfold GenFn.BitVector.from_bits
  simp only [new_eq]
  rw [push_loop c xs BV.new new_inv (by show 0 + xs.length < 2^64; omega), bind_ok]
  rfl

theorem build_from_bits_eq (c : Cfg) (xs : List Bool) (r s0 s1 : Bool) (hov : xs.length < 2^64) :
    GenFn.BitVector.build_from_bits c xs r s0 s1 = .ok (RS.Res.ok (BV.fromBits xs)) := by
  unfold GenFn.BitVector.build_from_bits
  rw [from_bits_eq c xs hov, bind_ok]

/-! ### findings: where the generated code and the model part ways

    `get_bits`/`set_bits` check the range with `pos.saturating_add(len)`; the model checks `pos + len ≤ b.len`
    exactly. The two agree unless `b.len = usize::MAX` and `pos + len` saturates: then the code accepts a range
    that ends one bit (or more) beyond the vector. (Such a vector has `2^58` words; no `#eval` is possible, hence
    the theorems.) -/
theorem get_bits_differs_at_usize_max (c : Cfg) (b : BV) (h : b.Inv) (hl : b.len = 2^64 - 1) :
    GenFn.BitVector.get_bits c b (2^64 - 1) 1 = .ok (some 0) ∧ b.getBits (2^64 - 1) 1 = .ok none := by
  constructor
  · unfold GenFn.BitVector.get_bits GenFn.BitVector.len
    simp only [GenFn.bit_vector.WORD_LEN]
    have hsat : RS.saturatingAdd (2^64 - 1) 1 = 2^64 - 1 := by unfold RS.saturatingAdd; rfl
    have hc : ¬ (64 < 1 ∨ b.len < RS.saturatingAdd (2^64 - 1) 1) := by rw [hsat, hl]; omega
    have hsz : (2^64 - 1) / 64 < b.words.size := by have := h.size; omega
    have hpad := h.pad (2^64 - 1) (by omega)
    unfold bitAt at hpad
    have hm : (2^64 - 1) % 64 = 63 := by omega
    rw [if_neg hc, if_neg (by omega : ¬ (1 = 0)), mask_gen, bind_ok, hm,
      cadd_ok c (by omega : 63 + 1 < 2^64), bind_ok, if_pos (by omega : 63 + 1 ≤ 64), index_eq,
      idx_ok _ _ hsz, bind_ok, cshr_ok c (by omega : 63 < 64), bind_ok, bind_ok]
    rw [hm, Nat.testBit] at hpad
    have : wordAt b.words ((2^64 - 1) / 64) >>> 63 &&& mask 1 = 0 := by
      have e : mask 1 = 1 := rfl
      rw [e, Nat.and_comm]
      simpa using hpad
    rw [this]
  · apply getBits_none; omega

theorem set_bits_differs_at_usize_max (c : Cfg) (b : BV) (h : b.Inv) (hl : b.len = 2^64 - 1) (bits : Nat) :
    (∃ b', GenFn.BitVector.set_bits c b (2^64 - 1) bits 1 = .ok (b', RS.Res.ok ()))
    ∧ b.setBits (2^64 - 1) bits 1 = .ok (b, false) := by
  constructor
  · unfold GenFn.BitVector.set_bits GenFn.BitVector.len
    simp only [GenFn.bit_vector.WORD_LEN]
    have hsat : RS.saturatingAdd (2^64 - 1) 1 = 2^64 - 1 := by unfold RS.saturatingAdd; rfl
    have hc : ¬ (b.len < RS.saturatingAdd (2^64 - 1) 1) := by rw [hsat, hl]; omega
    have hsz : (2^64 - 1) / 64 < b.words.size := by have := h.size; omega
    have hm : (2^64 - 1) % 64 = 63 := by omega
    rw [if_neg (by omega : ¬ (64 < 1)), if_neg hc, if_neg (by omega : ¬ (1 = 0)), mask_gen, bind_ok, hm]
    simp only [cshl_ok c (by omega : 63 < 64), csub_ok c (by omega : 63 ≤ 64), bind_ok]
    rw [rmw2 _ _ _ _ (Nat.mod_lt _ (by decide)), idx_ok _ _ hsz, bind_ok,
      if_neg (by omega : ¬ (64 - 63 < 1)), bind_ok]
    exact ⟨_, rfl⟩
  · apply setBits_rej; omega

/-- `words_for` computes `n + 64 - 1`: a checked build panics for `n + 64 ≥ 2^64` although `(n + 63) / 64` is
    representable, so `from_bit`/`with_capacity` need `len + 64 < 2^64` (not `len + 63 < 2^64`). -/
theorem from_bit_overflow_checked (bit : Bool) :
    GenFn.BitVector.from_bit ⟨true, false⟩ bit (2^64 - 64) = .error .overflow := by
  cases bit <;> rfl

end Sucds.GenEq
