import Sucds.Proofs.WaveletQuantile
/-! Wavelet matrix, part 5: `select`. -/
set_option linter.unusedSimpArgs false
set_option linter.unusedVariables false
namespace Sucds.Wav
open Sucds Sucds.Spec WMr L

/-! ### more about `sel` -/

theorem sel_isKth (P : Nat → Bool) (n k p : Nat) (h : sel P n k = some p) : IsKth P n k p := by
  unfold sel at h
  have h1 := List.find?_some h
  have h2 := List.mem_of_find?_eq_some h
  simp only [Bool.and_eq_true, beq_iff_eq] at h1
  exact ⟨by simpa using h2, h1.1, h1.2⟩

theorem exists_isKth (P : Nat → Bool) (n k : Nat) (h : k < cnt P n) : ∃ p, IsKth P n k p := by
  induction n with
  | zero => simp [cnt] at h
  | succ m ih =>
    by_cases hk : k < cnt P m
    · obtain ⟨p, hp1, hp2, hp3⟩ := ih hk
      exact ⟨p, by omega, hp2, hp3⟩
    · by_cases hPm : P m = true
      · have := cnt_succ_of_true P m hPm
        exact ⟨m, by omega, hPm, by omega⟩
      · have hf : P m = false := by simpa using hPm
        have := cnt_succ_of_false P m hf
        omega

theorem sel_congr (P Q : Nat → Bool) (n k : Nat) (h : ∀ i, i < n → P i = Q i) : sel P n k = sel Q n k := by
  have hc := cnt_congr P Q n h
  by_cases hk : k < cnt P n
  · obtain ⟨p, hp1, hp2, hp3⟩ := exists_isKth P n k hk
    rw [sel_eq_some P n k p ⟨hp1, hp2, hp3⟩,
      sel_eq_some Q n k p ⟨hp1, by rw [← h p hp1]; exact hp2,
        by rw [← cnt_congr P Q p (fun i hi => h i (by omega))]; exact hp3⟩]
  · rw [sel_eq_none P n k (by omega), sel_eq_none Q n k (by omega)]

/-- the executable spec's "k-th of the filtered positions" is `sel` -/
theorem filter_range_getElem (P : Nat → Bool) (n k : Nat) : ((List.range n).filter P)[k]? = sel P n k := by
  induction n with
  | zero => simp [sel]
  | succ n ih =>
    have hlen : ((List.range n).filter P).length = cnt P n := by
      rw [← List.countP_eq_length_filter, C14.countP_range]
    rw [List.range_succ, List.filter_append, sel_succ]
    by_cases hk : k < cnt P n
    · rw [List.getElem?_append_left (by omega), ih]
      obtain ⟨p, hp⟩ := exists_isKth P n k hk
      rw [sel_eq_some P n k p hp]
    · rw [List.getElem?_append_right (by omega), hlen, sel_eq_none P n k (by omega)]
      by_cases hPn : P n = true
      · by_cases hkk : cnt P n = k
        · simp [hPn, hkk]
        · have : k - cnt P n ≠ 0 := by omega
          simp [hPn, hkk, this]
      · have hf : P n = false := by simpa using hPn
        simp [hf]

/-! ### index predicates of list predicates -/

/-- position `j` of `S` holds an element satisfying `f` -/
def ip (f : Nat → Bool) (S : List Nat) : Nat → Bool := fun j => (S.map f).getD j false

theorem ip_lt (f : Nat → Bool) (S : List Nat) (p : Nat) (hp : p < S.length) : ip f S p = f S[p] := by
  simp only [ip, getD_map_false, List.getElem?_eq_getElem hp]
theorem ip_of_getElem? (f : Nat → Bool) (S : List Nat) (p x : Nat) (h : S[p]? = some x) : ip f S p = f x := by
  simp only [ip, getD_map_false, h]
theorem cnt_ip (f : Nat → Bool) (S : List Nat) (i : Nat) : cnt (ip f S) i = (S.take i).countP f := cnt_map f S i
theorem cnt_ip_all (f : Nat → Bool) (S : List Nat) : cnt (ip f S) S.length = S.countP f := by
  rw [cnt_ip, List.take_length]

/-! ### `select1` / `select0` of a layer, at list level -/

theorem LayS.select1_hit {c l sh S} (hd : LayS c l sh S) (p : Nat) (hp : p < S.length) (hb : bitOf sh S[p] = true) :
    l.select1 c ((S.take p).countP (bitOf sh)) = .ok (some p) := by
  rw [hd.select1]
  congr 1
  have hP : ip (bitOf sh) S p = true := by rw [ip_lt _ _ _ hp]; exact hb
  exact sel_eq_some _ _ _ p ⟨hp, hP, cnt_map _ _ _⟩

theorem LayS.select1_miss {c l sh S} (hd : LayS c l sh S) (k : Nat) (hk : S.countP (bitOf sh) ≤ k) :
    l.select1 c k = .ok none := by
  rw [hd.select1]
  congr 1
  exact sel_eq_none _ _ _ (by rw [cnt_map, List.take_length]; exact hk)

theorem cnt_not_ip (sh : Nat) (S : List Nat) (i : Nat) (hi : i ≤ S.length) :
    cnt (fun j => !(S.map (bitOf sh)).getD j false) i = (S.take i).countP (nbitOf sh) := by
  have h1 := cnt_compl (fun j => (S.map (bitOf sh)).getD j false) i
  have h2 := cnt_map (bitOf sh) S i
  have h3 := countP_split sh (S.take i)
  rw [List.length_take] at h3
  omega

theorem LayS.select0_hit {c l sh S} (hd : LayS c l sh S) (p : Nat) (hp : p < S.length) (hb : bitOf sh S[p] = false) :
    l.select0 c ((S.take p).countP (nbitOf sh)) = .ok (some p) := by
  rw [hd.select0]
  congr 1
  refine sel_eq_some _ _ _ p ⟨hp, ?_, cnt_not_ip sh S p (by omega)⟩
  have := ip_lt (bitOf sh) S p hp
  simp only [ip] at this
  show (!(S.map (bitOf sh)).getD p false) = true
  rw [this, hb]; rfl

theorem LayS.select0_miss {c l sh S} (hd : LayS c l sh S) (k : Nat) (hk : S.countP (nbitOf sh) ≤ k) :
    l.select0 c k = .ok none := by
  rw [hd.select0]
  congr 1
  exact sel_eq_none _ _ _ (by rw [cnt_not_ip sh S S.length (Nat.le_refl _), List.take_length]; exact hk)

/-! ### prefixes of the partitioned sequence -/

theorem take_part_one (sh : Nat) (S : List Nat) (i : Nat) :
    (part sh S).take (S.countP (nbitOf sh) + (S.take i).countP (bitOf sh)) =
      S.filter (nbitOf sh) ++ (S.take i).filter (bitOf sh) := by
  simp only [part]
  rw [← filter_length_nbit, List.take_length_add_append, ← filter_take]

theorem take_part_zero (sh : Nat) (S : List Nat) (i : Nat) :
    (part sh S).take ((S.take i).countP (nbitOf sh)) = (S.take i).filter (nbitOf sh) := by
  simp only [part]
  rw [List.take_append_of_le_length (by rw [filter_length_nbit]; exact count_le_take _ _ _), ← filter_take]

theorem cnt_part_one (sh v : Nat) (hb : bitOf sh v = true) (S : List Nat) (i : Nat) :
    cnt (ip (lowEq sh v) (part sh S)) (S.countP (nbitOf sh) + (S.take i).countP (bitOf sh)) =
      (S.filter (nbitOf sh)).countP (lowEq sh v) + cnt (ip (lowEq (sh + 1) v) S) i := by
  rw [cnt_ip, cnt_ip, take_part_one, List.countP_append, List.countP_filter (l := S.take i), lowEq_one _ _ hb]

theorem cnt_part_zero (sh v : Nat) (hb : bitOf sh v = false) (S : List Nat) (i : Nat) :
    cnt (ip (lowEq sh v) (part sh S)) ((S.take i).countP (nbitOf sh)) = cnt (ip (lowEq (sh + 1) v) S) i := by
  rw [cnt_ip, cnt_ip, take_part_zero, List.countP_filter, lowEq_nil _ _ hb]

/-! ### `select_helper` -/

/-- what the recursive call returns: the bottom of the recursion answers `pos + k` even beyond the end -/
def selRes (v : Nat) (ls : List Lay) (S : List Nat) (pos k : Nat) : Option Nat :=
  if ls = [] then some (pos + k)
  else sel (ip (lowEq ls.length v) S) S.length (cnt (ip (lowEq ls.length v) S) pos + k)

theorem selRes_approx (v : Nat) (ls : List Lay) (S : List Nat) (pos k : Nat) (hpos : pos ≤ S.length) :
    selRes v ls S pos k = sel (ip (lowEq ls.length v) S) S.length (cnt (ip (lowEq ls.length v) S) pos + k) ∨
    (sel (ip (lowEq ls.length v) S) S.length (cnt (ip (lowEq ls.length v) S) pos + k) = none ∧
      ∃ p, selRes v ls S pos k = some p ∧ S.length ≤ p) := by
  unfold selRes
  by_cases hl : ls = []
  · subst hl
    simp only [if_true, List.length_nil]
    have hall : ∀ (T : List Nat), T.countP (lowEq 0 v) = T.length := by
      intro T; rw [List.countP_eq_length]; intro x _; exact lowEq_zero v x
    have hc : ∀ i, i ≤ S.length → cnt (ip (lowEq 0 v) S) i = i := by
      intro i hi; rw [cnt_ip, hall, List.length_take]; omega
    rw [hc pos hpos]
    by_cases hlt : pos + k < S.length
    · left
      rw [sel_eq_some _ _ _ (pos + k) ⟨hlt, by rw [ip_lt _ _ _ hlt]; exact lowEq_zero _ _, hc _ (by omega)⟩]
    · right
      exact ⟨sel_eq_none _ _ _ (by rw [hc _ (Nat.le_refl _)]; omega), pos + k, rfl, by omega⟩
  · left; simp only [hl, if_false]

theorem selectHelper_ok (c : Cfg) (width v : Nat) : ∀ (ls : List Lay) (S : List Nat) (depth k pos : Nat),
    Chain c ls S → S.length < 2 ^ 63 → depth + ls.length = width → pos ≤ S.length → k < S.length →
    WM.selectHelper c width v ls depth k pos = .ok (selRes v ls S pos k)
  | [], S, depth, k, pos, _, hn, _, hpos, hk => by
    rw [WM.selectHelper, cadd_ok c (by omega), bind_ok]; rfl
  | l :: ls, S, depth, k, pos, hc, hn, hw, hpos, hk => by
    have hd := hc.head
    simp only [List.length_cons] at hw
    have hlen : (part ls.length S).length = S.length := part_length _ _
    have hsh : width - depth - 1 = ls.length := by omega
    have hsp := countP_split ls.length S
    have hspp := countP_split ls.length (S.take pos)
    rw [List.length_take] at hspp
    have hnz : S.countP (nbitOf ls.length) ≤ S.length := List.countP_le_length
    have hgoal : selRes v (l :: ls) S pos k = sel (ip (lowEq (ls.length + 1) v) S) S.length
        (cnt (ip (lowEq (ls.length + 1) v) S) pos + k) := by simp [selRes]
    rw [hgoal, WM.selectHelper, getMsb_eq, hsh]
    by_cases hbit : bitOf ls.length v = true
    · simp only [hbit, if_true]
      have hle := count_le_take (bitOf ls.length) S pos
      have hpos' : S.countP (nbitOf ls.length) + (S.take pos).countP (bitOf ls.length) ≤ (part ls.length S).length := by
        omega
      rw [hd.numZeros, bind_ok, hd.rank1, if_pos hpos, unwrapO_some, bind_ok, cadd_ok c (by omega), bind_ok,
        Nat.add_comm ((S.take pos).countP (bitOf ls.length)),
        selectHelper_ok c width v ls (part ls.length S) (depth + 1) k _ hc.tail (by omega) (by omega) hpos' (by omega),
        bind_ok]
      have happ := selRes_approx v ls (part ls.length S) _ k hpos'
      have hcp := cnt_part_one ls.length v hbit S pos
      generalize selRes v ls (part ls.length S) (S.countP (nbitOf ls.length) + (S.take pos).countP (bitOf ls.length)) k
        = r' at happ
      rw [hcp, hlen] at happ
      by_cases hit : cnt (ip (lowEq (ls.length + 1) v) S) pos + k < cnt (ip (lowEq (ls.length + 1) v) S) S.length
      · obtain ⟨p, hp1, hp2, hp3⟩ := exists_isKth _ _ _ hit
        rw [sel_eq_some _ _ _ p ⟨hp1, hp2, hp3⟩]
        rw [ip_lt _ _ _ hp1, lowEq_succ, hbit] at hp2
        have hbp : bitOf ls.length S[p] = true := by
          cases hx : bitOf ls.length S[p] <;> simp [hx] at hp2 ⊢
        have hgp : lowEq ls.length v S[p] = true := by
          simp only [hbp] at hp2; simpa using hp2
        have hg := part_getElem_one ls.length S p hp1 hbp
        have hlt : S.countP (nbitOf ls.length) + (S.take p).countP (bitOf ls.length) < S.length := by
          by_cases h : S.countP (nbitOf ls.length) + (S.take p).countP (bitOf ls.length) < S.length
          · exact h
          · rw [List.getElem?_eq_none (by omega)] at hg; cases hg
        have hk' : IsKth (ip (lowEq ls.length v) (part ls.length S)) S.length
            ((S.filter (nbitOf ls.length)).countP (lowEq ls.length v) + cnt (ip (lowEq (ls.length + 1) v) S) pos + k)
            (S.countP (nbitOf ls.length) + (S.take p).countP (bitOf ls.length)) :=
          ⟨hlt, by rw [ip_of_getElem? _ _ _ _ hg]; exact hgp,
            by rw [cnt_part_one ls.length v hbit S p, hp3]; omega⟩
        rw [sel_eq_some _ _ _ _ hk'] at happ
        have hr' : r' = some (S.countP (nbitOf ls.length) + (S.take p).countP (bitOf ls.length)) := by
          rcases happ with h | ⟨h, _⟩
          · exact h
          · cases h
        rw [hr']
        simp only
        rw [csub_ok c (by omega), bind_ok, Nat.add_sub_cancel_left]
        exact hd.select1_hit p hp1 hbp
      · rw [sel_eq_none _ _ _ (by omega)]
        have hall : cnt (ip (lowEq ls.length v) (part ls.length S)) S.length =
            (S.filter (nbitOf ls.length)).countP (lowEq ls.length v) + cnt (ip (lowEq (ls.length + 1) v) S) S.length := by
          have := cnt_part_one ls.length v hbit S S.length
          rw [List.take_length] at this
          rw [← this]; congr 1; omega
        rw [sel_eq_none _ _ _ (by rw [hall]; omega)] at happ
        rcases happ with h | ⟨_, p', h, hp'⟩
        · rw [h]
        · rw [h]
          simp only
          rw [csub_ok c (by omega), bind_ok]
          exact hd.select1_miss _ (by omega)
    · have hbit0 : bitOf ls.length v = false := by simpa using hbit
      simp only [hbit0, Bool.false_eq_true, if_false]
      have hle := count_le_take (nbitOf ls.length) S pos
      have hpos' : (S.take pos).countP (nbitOf ls.length) ≤ (part ls.length S).length := by omega
      rw [hd.rank0, if_pos hpos, unwrapO_some, bind_ok,
        selectHelper_ok c width v ls (part ls.length S) (depth + 1) k _ hc.tail (by omega) (by omega) hpos' (by omega),
        bind_ok]
      have happ := selRes_approx v ls (part ls.length S) _ k hpos'
      have hcp := cnt_part_zero ls.length v hbit0 S pos
      generalize selRes v ls (part ls.length S) ((S.take pos).countP (nbitOf ls.length)) k = r' at happ
      rw [hcp, hlen] at happ
      by_cases hit : cnt (ip (lowEq (ls.length + 1) v) S) pos + k < cnt (ip (lowEq (ls.length + 1) v) S) S.length
      · obtain ⟨p, hp1, hp2, hp3⟩ := exists_isKth _ _ _ hit
        rw [sel_eq_some _ _ _ p ⟨hp1, hp2, hp3⟩]
        rw [ip_lt _ _ _ hp1, lowEq_succ, hbit0] at hp2
        have hbp : bitOf ls.length S[p] = false := by
          cases hx : bitOf ls.length S[p] <;> simp [hx] at hp2 ⊢
        have hgp : lowEq ls.length v S[p] = true := by
          simp only [hbp] at hp2; simpa using hp2
        have hg := part_getElem_zero ls.length S p hp1 hbp
        have hlt : (S.take p).countP (nbitOf ls.length) < S.length := by
          by_cases h : (S.take p).countP (nbitOf ls.length) < S.length
          · exact h
          · rw [List.getElem?_eq_none (by omega)] at hg; cases hg
        have hk' : IsKth (ip (lowEq ls.length v) (part ls.length S)) S.length
            (cnt (ip (lowEq (ls.length + 1) v) S) pos + k) ((S.take p).countP (nbitOf ls.length)) :=
          ⟨hlt, by rw [ip_of_getElem? _ _ _ _ hg]; exact hgp, by rw [cnt_part_zero ls.length v hbit0 S p, hp3]⟩
        rw [sel_eq_some _ _ _ _ hk'] at happ
        have hr' : r' = some ((S.take p).countP (nbitOf ls.length)) := by
          rcases happ with h | ⟨h, _⟩
          · exact h
          · cases h
        rw [hr']
        exact hd.select0_hit p hp1 hbp
      · rw [sel_eq_none _ _ _ (by omega)]
        -- whatever comes back lies at or beyond the zero part
        have hz : ∀ k', r' = some k' → S.countP (nbitOf ls.length) ≤ k' := by
          intro k' hk'
          rcases happ with h | ⟨_, p', h, hp'⟩
          · rw [hk'] at h
            obtain ⟨q1, q2, q3⟩ := sel_isKth _ _ _ _ h.symm
            have hZ := cnt_part_zero ls.length v hbit0 S S.length
            rw [List.take_length] at hZ
            by_cases hlt : k' < S.countP (nbitOf ls.length)
            · have := cnt_lt_of_lt _ hlt q2
              omega
            · omega
          · rw [hk'] at h; cases h; omega
        cases hr : r' with
        | none => rfl
        | some k' => exact hd.select0_miss k' (hz k' hr)

/-- **`select`**: the position of the `k`-th occurrence of `v`, `None` if there are at most `k`; no panic
    (needs `2·n < 2^64`: the bottom of the recursion computes `pos + k`) -/
theorem select_ok (c : Cfg) (wm : WM) (s : List Nat) (h : Built c wm s) (hn : s.length < 2 ^ 63) (k v : Nat) :
    wm.select c k v = .ok (sel (fun i => decide (s[i]? = some v)) s.length k) := by
  unfold WM.select
  rw [h.len]
  by_cases hz : s.length ≤ k ∨ wm.alphSize ≤ v
  · simp only [hz, if_true]
    congr 1; symm
    apply sel_eq_none
    rcases hz with hz | hz
    · exact Nat.le_trans (cnt_le _ _) hz
    · rw [C14.cnt_zero_of_false]
      · omega
      · intro i hi
        have hx := (foldl_max_ge s 0).2 s[i] (List.getElem_mem hi)
        rw [h.alph] at hz
        simp only [List.getElem?_eq_getElem hi, Option.some.injEq, decide_eq_false_iff_not]
        omega
  · simp only [hz, if_false]
    have hk : k < s.length := by omega
    have hv : v < wm.alphSize := by omega
    have hne : wm.layers.toList ≠ [] := by
      intro e
      have := h.width; rw [e] at this
      have := bitlen_pos (s.foldl max 0 + 1); simp at *; omega
    rw [selectHelper_ok c wm.alphWidth v wm.layers.toList s 0 k 0 h.chain hn (by simp [WM.alphWidth])
      (Nat.zero_le _) hk]
    simp only [selRes, hne, if_false, cnt, Nat.zero_add]
    congr 1
    apply sel_congr
    intro i hi
    rw [ip_lt _ _ _ hi, lowEq_eq _ _ _ (Nat.lt_of_lt_of_le hv h.alph_le) (h.elem_lt _ (List.getElem_mem hi)),
      List.getElem?_eq_getElem hi]
    by_cases e : s[i] = v <;> simp [e]

/-- in the terms of the executable spec of the test driver -/
theorem select_spec (c : Cfg) (wm : WM) (s : List Nat) (h : Built c wm s) (hn : s.length < 2 ^ 63) (k v : Nat) :
    wm.select c k v = .ok (SpecX.selectVal s.toArray k v) := by
  rw [select_ok c wm s h hn, ← filter_range_getElem]
  simp [SpecX.selectVal]

end Sucds.Wav
