import Sucds.Model.Dacs
import Sucds.Proofs.EliasFanoQueriesMain
import Sucds.Proofs.EliasFanoHigh
import Sucds.Proofs.IndexIter
/-! `PrefixSummedEliasFano` (`src/int_vectors/prefix_summed_elias_fano.rs`) is lossless: `from_slice` of a
    non-empty slice whose sum is below `usize::MAX` never panics, never fails, and the result answers
    `len`, `sum`, `access` and the iterator exactly as the input slice does. -/
set_option linter.unusedSimpArgs false
set_option linter.unusedVariables false
namespace Sucds
namespace PS
open EFB EFQ

theorem bind_ok {α β} (v : α) (f : α → R β) : (Except.ok v : R α).bind f = f v := rfl

/-- the running sums `cur + x₀, cur + x₀ + x₁, …` that `from_slice` pushes -/
def psums : Nat → List Nat → List Nat
  | _, [] => []
  | cur, x :: xs => (cur + x) :: psums (cur + x) xs

theorem psums_length : ∀ (vals : List Nat) (cur : Nat), (psums cur vals).length = vals.length
  | [], _ => rfl
  | x :: xs, cur => by simp [psums, psums_length xs]

/-- consecutive running sums differ by the stored value -/
theorem psums_step : ∀ (vals : List Nat) (cur k : Nat), k < vals.length →
    X (psums cur vals) k = (if k = 0 then cur else X (psums cur vals) (k - 1)) + vals[k]?.getD 0
  | [], _, _, hk => by simp at hk
  | x :: xs, cur, 0, _ => by simp [psums, X]
  | x :: xs, cur, k + 1, hk => by
    have hk' : k < xs.length := by simpa using hk
    have ih := psums_step xs (cur + x) k hk'
    have e1 : X (psums cur (x :: xs)) (k + 1) = X (psums (cur + x) xs) k := by simp [psums, X]
    rw [e1, ih]
    cases k with
    | zero => simp [psums, X]
    | succ j => simp [psums, X]

/-- the first loop of `from_slice` (`universe += x`) does not overflow -/
theorem sumAll_ok (c : Cfg) : ∀ (vals : List Nat) (acc : Nat), acc + vals.sum < 2^64 →
    sumAll c vals acc = .ok (acc + vals.sum)
  | [], acc, _ => by simp [sumAll]
  | x :: xs, acc, h => by
    have h' : acc + x + xs.sum < 2^64 := by simp only [List.sum_cons] at h; omega
    unfold sumAll
    rw [cadd_ok c (by omega : acc + x < 2^64), bind_ok, sumAll_ok c xs (acc + x) h']
    simp only [List.sum_cons, Nat.add_assoc]

/-- the second loop of `from_slice`: every running sum is accepted by the builder -/
theorem pushSums_ok (c : Cfg) : ∀ (vals : List Nat) (b : EFB) (xs : List Nat) (cur : Nat),
    Holds b xs → b.last = cur → cur + vals.sum < b.univ → b.univ ≤ 2^64 → b.pos + vals.length ≤ b.numVals →
    ∃ b', pushSums c b vals cur = .ok (some b') ∧ Holds b' (xs ++ psums cur vals) ∧ b'.univ = b.univ
  | [], b, xs, cur, h, _, _, _, _ => ⟨b, rfl, by simpa [psums] using h, rfl⟩
  | x :: vs, b, xs, cur, h, hl, hs, hu, hc => by
    simp only [List.sum_cons, List.length_cons] at hs hc
    obtain ⟨b1, hp, hh, hu1, hm1, _⟩ :=
      push_holds b xs h (cur + x) (by omega) (by omega) (by omega)
    have hlast : b1.last = cur + x := by rw [hh.last]; simp
    have hpos : b1.pos = b.pos + 1 := by rw [hh.pos, h.pos]; simp
    obtain ⟨b', hr, hh', hu'⟩ := pushSums_ok c vs b1 (xs ++ [cur + x]) (cur + x) hh hlast
      (by rw [hu1]; omega) (by rw [hu1]; exact hu) (by rw [hpos, hm1]; omega)
    refine ⟨b', ?_, ?_, by rw [hu', hu1]⟩
    · unfold pushSums
      rw [cadd_ok c (by omega : cur + x < 2^64), bind_ok, hp, bind_ok]
      simp only [if_true]
      exact hr
    · simpa [psums, List.append_assoc] using hh'

/-- `from_slice(&[])` is an `Err` -/
theorem fromSlice_nil (c : Cfg) : PS.fromSlice c [] = .ok none := rfl

/-- what `from_slice` builds: the Elias-Fano sequence of the running sums over the universe `sum + 1` -/
theorem fromSlice_built (c : Cfg) (vals : List Nat) (hne : vals ≠ []) (hs : vals.sum + 1 < 2^64) :
    ∃ b, PS.fromSlice c vals = .ok (some ⟨EF.ofBuilder c b⟩) ∧ Holds b (psums 0 vals) ∧ b.univ = vals.sum + 1 := by
  have hemp : vals.isEmpty = false := by cases vals with
    | nil => exact absurd rfl hne
    | cons _ _ => rfl
  have hm : vals.length ≠ 0 := by cases vals with
    | nil => exact absurd rfl hne
    | cons _ _ => simp
  obtain ⟨b0, hn, hh0, hu0, hm0⟩ := new_holds (vals.sum + 1) vals.length hm hs
  obtain ⟨b, hr, hh, hub⟩ := pushSums_ok c vals b0 [] 0 hh0 hh0.last (by rw [hu0]; omega) (by rw [hu0]; omega)
    (by rw [hh0.pos, hm0]; simp)
  refine ⟨b, ?_, by simpa using hh, by rw [hub, hu0]⟩
  unfold PS.fromSlice
  rw [hemp]
  have hsum := sumAll_ok c vals 0 (by omega)
  rw [Nat.zero_add] at hsum
  simp only [Bool.false_eq_true, if_false]
  rw [hsum, bind_ok, cadd_ok c hs, bind_ok]
  simp only [hn]
  rw [hr, bind_ok]

/-- **lossless**: for a non-empty slice whose sum is below `usize::MAX`, `from_slice` succeeds without
    panic, and `len`, `sum`, `access` give back exactly the input -/
theorem fromSlice_ok (c : Cfg) (vals : List Nat) (hne : vals ≠ []) (hs : vals.sum + 1 < 2^64) :
    ∃ p, PS.fromSlice c vals = .ok (some p) ∧ p.len = vals.length ∧ p.sum c = .ok vals.sum ∧
      ∀ i, p.access c i = .ok vals[i]? := by
  obtain ⟨b, hf, hh, hu⟩ := fromSlice_built c vals hne hs
  have hu' : b.univ < 2^64 := by rw [hu]; exact hs
  obtain ⟨q1, _, q3, _⟩ := built_queries c b (psums 0 vals) hh hu' (high_ofBuilder c b _ hh)
  refine ⟨⟨EF.ofBuilder c b⟩, hf, ?_, ?_, ?_⟩
  · show (EF.ofBuilder c b).len = vals.length
    rw [q1, psums_length]
  · show csub c b.univ 1 = .ok vals.sum
    rw [hu, csub_ok c (by omega : 1 ≤ vals.sum + 1)]
    rfl
  · intro i
    show (EF.ofBuilder c b).delta c i = .ok vals[i]?
    rw [q3 i, psums_length]
    by_cases hi : i < vals.length
    · have hstep := psums_step vals 0 i hi
      have hget : vals[i]? = some (vals[i]?.getD 0) := by
        rw [List.getElem?_eq_getElem hi]; rfl
      rw [if_pos hi, hget]
      congr 2
      rw [hstep]
      by_cases h0 : i = 0
      · simp [h0]
      · simp only [h0, if_false]; omega
    · rw [if_neg hi, List.getElem?_eq_none (by omega)]

/-- the `Option` answer of `access` (panics, which `fromSlice_ok` excludes, read as `none`) -/
def accOf (c : Cfg) (p : PS) (i : Nat) : Option Nat :=
  match p.access c i with
  | .ok o => o
  | .error _ => none

/-- **iteration**: the iterator over the built sequence yields the input values in order, then `None`
    on every further call, with an exact `size_hint` before each call -/
theorem iter_ok (c : Cfg) (vals : List Nat) (hne : vals ≠ []) (hs : vals.sum + 1 < 2^64) :
    ∃ p, PS.fromSlice c vals = .ok (some p) ∧ p.len = vals.length ∧
      (∀ i, accOf c p i = vals[i]?) ∧
      ∀ n, IndexIter.runN p.len (accOf c p) ⟨0⟩ n =
        (List.range n).map (fun j => (vals[j]?, (vals.length - j, some (vals.length - j)))) := by
  obtain ⟨p, hf, hl, _, ha⟩ := fromSlice_ok c vals hne hs
  have hacc : ∀ i, accOf c p i = vals[i]? := by
    intro i; unfold accOf; rw [ha i]
  refine ⟨p, hf, hl, hacc, ?_⟩
  intro n
  rw [hl]
  have := IndexIter.runN_spec vals (accOf c p) (fun i _ => hacc i) n 0 (Nat.zero_le _)
  simpa only [Nat.zero_add] using this

end PS
end Sucds
