import Sucds.Model.EliasFano
import Sucds.Proofs.BitVectorFromBit
import Sucds.Proofs.UnaryCode
set_option linter.unusedSimpArgs false
set_option linter.unusedVariables false
namespace Sucds
namespace EFB
open BV Spec

/-- what a builder holds after accepting `xs` -/
structure Holds (b : EFB) (xs : List Nat) : Prop where
  pos : b.pos = xs.length
  cap : b.pos ≤ b.numVals
  last : b.last = xs.getLast?.getD 0
  sorted : xs.Pairwise (· ≤ ·)
  bound : ∀ x ∈ xs, x < b.univ
  llt : b.lowLen < 64
  hinv : b.high.Inv
  hlen : b.high.len = b.numVals + (b.univ >>> b.lowLen) + 2
  ones : ∀ q, b.high.bitAt q = true ↔ ∃ k, k < xs.length ∧ (xs[k]?.getD 0 >>> b.lowLen) + k = q
  linv : b.low.Inv
  llen : b.low.len = xs.length * b.lowLen
  lows : ∀ k, k < xs.length → ∀ j, j < b.lowLen → b.low.bitAt (k * b.lowLen + j) = (xs[k]?.getD 0).testBit j

theorem msbN_lt (x : Nat) (hx : x < 2^64) : (msbN x).getD 0 < 64 := by
  unfold msbN
  split
  · simp
  · rename_i h0
    simp only [Option.getD_some]
    exact (Nat.log2_lt h0).mpr hx

theorem new_holds (u m : Nat) (hm : m ≠ 0) (hu : u < 2^64) :
    ∃ b, new u m = some b ∧ Holds b [] ∧ b.univ = u ∧ b.numVals = m := by
  unfold new
  simp only [hm, if_false]
  have hl : (msbN (u / m)).getD 0 < 64 := msbN_lt _ (Nat.lt_of_le_of_lt (Nat.div_le_self _ _) hu)
  obtain ⟨hfi, hfl, hfb⟩ := fromBit_spec false ((m + 1) + (u >>> (msbN (u / m)).getD 0) + 1)
  refine ⟨_, rfl, ?_, rfl, rfl⟩
  exact {
    pos := rfl
    cap := Nat.zero_le _
    last := rfl
    sorted := List.Pairwise.nil
    bound := by intro x hx; simp at hx
    llt := hl
    hinv := hfi
    hlen := by
      show (fromBit false ((m + 1) + (u >>> (msbN (u / m)).getD 0) + 1)).len = m + (u >>> (msbN (u / m)).getD 0) + 2
      rw [hfl]; omega
    ones := by
      intro q
      show (fromBit false ((m + 1) + (u >>> (msbN (u / m)).getD 0) + 1)).bitAt q = true ↔ _
      rw [hfb]; simp
    linv := new_inv
    llen := by show BV.new.len = 0 * _; rw [Nat.zero_mul]; rfl
    lows := by intro k hk; simp at hk }

end EFB
end Sucds
