import Sucds.Proofs.Rank9Hints
/-! `Rank9SelIndex::select0`: the zero side of the Rank9 directory (basic facts, the in-word step on
    the complemented word, the packed zero counters). -/
set_option linter.unusedSimpArgs false
set_option linter.unusedVariables false
namespace Sucds
open Spec
namespace R9Index

/-- number of unset bits in the first `i` 64-bit words (words beyond the end count as all-zero, as the
    directory does for the padding of the last block) -/
def prefixZ (c : Cfg) (ws : Array Nat) (i : Nat) : Nat := 64 * i - prefixPop c ws i

theorem prefixPop_le64 (c : Cfg) (ws : Array Nat) (hw : ∀ i, wordAt ws i < 2^64) (i : Nat) :
    prefixPop c ws i ≤ 64 * i := by
  have := prefixPop_le c ws hw 0 i
  rw [Nat.zero_add] at this
  have h0 : prefixPop c ws 0 = 0 := rfl
  omega

theorem prefixZ_add (c : Cfg) (ws : Array Nat) (hw : ∀ i, wordAt ws i < 2^64) (i k : Nat) :
    prefixZ c ws i ≤ prefixZ c ws (i + k) ∧ prefixZ c ws (i + k) ≤ prefixZ c ws i + 64 * k := by
  unfold prefixZ
  have h1 := prefixPop_le c ws hw i k
  have h2 := prefixPop_mono c ws (show i ≤ i + k by omega)
  have h3 := prefixPop_le64 c ws hw i
  have h4 := prefixPop_le64 c ws hw (i + k)
  omega

theorem prefixZ_mono (c : Cfg) (ws : Array Nat) (hw : ∀ i, wordAt ws i < 2^64) {i j : Nat} (h : i ≤ j) :
    prefixZ c ws i ≤ prefixZ c ws j := by
  obtain ⟨d, rfl⟩ := Nat.exists_eq_add_of_le h
  exact (prefixZ_add c ws hw i d).1

theorem prefixZ_succ (c : Cfg) (ws : Array Nat) (hw : ∀ i, wordAt ws i < 2^64) (i : Nat) :
    prefixZ c ws (i + 1) = prefixZ c ws i + (64 - popcountN c (wordAt ws i)) := by
  unfold prefixZ
  have hs : prefixPop c ws (i + 1) = prefixPop c ws i + popcountN c (wordAt ws i) := rfl
  have h3 := prefixPop_le64 c ws hw i
  have h4 := popcountN_le c (wordAt ws i) (hw i)
  omega

/-- the zero counts are what the bits say -/
theorem prefixZ_eq (c : Cfg) (bv : BV) (h : bv.Inv) (i : Nat) :
    prefixZ c bv.words i = cnt (fun j => !bv.bitAt j) (64 * i) := by
  unfold prefixZ
  rw [prefixPop_eq c bv h]
  have := cnt_compl bv.bitAt (64 * i)
  omega

/-- all zeros of the vector lie in its words -/
theorem zeros_le_prefixZ (c : Cfg) (bv : BV) (h : bv.Inv) :
    cnt (fun j => !bv.bitAt j) bv.len ≤ prefixZ c bv.words bv.words.size := by
  rw [prefixZ_eq c bv h]
  have hsz := h.size
  exact cnt_mono _ (by omega)

/-! ### the complemented word -/
theorem wnot_lt (w : Nat) : wnot w < 2^64 := by unfold wnot; omega

theorem wnot_testBit (w i : Nat) (hw : w < 2^64) : (wnot w).testBit i = (decide (i < 64) && !w.testBit i) := by
  unfold wnot
  rw [Nat.mod_eq_of_lt hw, show 2^64 - 1 - w = 2^64 - (w + 1) by omega]
  exact Nat.testBit_two_pow_sub_succ hw i

end R9Index

/-- the word holding the `k`-th unset bit yields its position (select in the complemented word) -/
theorem BV.word_sel0 (c : Cfg) (b : BV) (h : b.Inv) (wpos k : Nat)
    (hlo : R9Index.prefixZ c b.words wpos ≤ k) (hhi : k < R9Index.prefixZ c b.words (wpos + 1))
    (hk : k < cnt (fun i => !b.bitAt i) b.len) :
    ∃ p, selectInWordN c (wnot (wordAt b.words wpos)) (k - R9Index.prefixZ c b.words wpos) = some p ∧
      sel (fun i => !b.bitAt i) b.len k = some (64 * wpos + p) := by
  have hstep := R9Index.prefixZ_succ c b.words h.lt wpos
  rw [selectInWordN_eq c _ _ (R9Index.wnot_lt _)]
  rw [sel_congr (fun i => (wnot (wordAt b.words wpos)).testBit i) (fun i => !(wordAt b.words wpos).testBit i) 64 _
    (fun i hi => by rw [R9Index.wnot_testBit _ _ (h.lt wpos)]; simp [hi])]
  have hword : cnt (fun i => !(wordAt b.words wpos).testBit i) 64 = 64 - popcountN c (wordAt b.words wpos) := by
    have := cnt_compl (fun i => (wordAt b.words wpos).testBit i) 64
    rw [popcountN_eq c _ (h.lt wpos)]
    omega
  cases hs : sel (fun i => !(wordAt b.words wpos).testBit i) 64 (k - R9Index.prefixZ c b.words wpos) with
  | none =>
    have := sel_none_le _ _ _ hs
    rw [hword] at this; omega
  | some p =>
    obtain ⟨hp1, hp2, hp3⟩ := sel_isKth _ _ _ _ hs
    refine ⟨p, rfl, ?_⟩
    have hbit : (!b.bitAt (64 * wpos + p)) = true := by rw [← BV.word_testBit b wpos p hp1]; exact hp2
    have hcnt : cnt (fun i => !b.bitAt i) (64 * wpos + p) = k := by
      rw [cnt_add, ← R9Index.prefixZ_eq c b h,
          cnt_congr (fun i => !b.bitAt (64 * wpos + i)) (fun i => !(wordAt b.words wpos).testBit i) p
            (fun i hi => by rw [BV.word_testBit b wpos i (by omega)]), hp3]
      omega
    have hpl : 64 * wpos + p < b.len := by
      by_cases hq : 64 * wpos + p < b.len
      · exact hq
      · have := cnt_mono (fun i => !b.bitAt i) (show b.len ≤ 64 * wpos + p by omega)
        omega
    exact sel_eq_some (fun i => !b.bitAt i) b.len k (64 * wpos + p) ⟨hpl, hbit, hcnt⟩

namespace R9Index

/-! ### the packed zero counters -/

/-- field-wise subtraction of packed counters: no borrow when every field of the subtrahend is
    at most the corresponding field of the minuend -/
theorem packTo_sub (g e : Nat → Nat) (k : Nat) (hle : ∀ j, 1 ≤ j → j ≤ k → e j ≤ g j) :
    packTo e k ≤ packTo g k ∧ packTo g k - packTo e k = packTo (fun j => g j - e j) k := by
  induction k with
  | zero => exact ⟨Nat.le_refl _, rfl⟩
  | succ k ih =>
    obtain ⟨i1, i2⟩ := ih (fun j h1 h2 => hle j h1 (by omega))
    have hk := hle (k + 1) (by omega) (Nat.le_refl _)
    simp only [packTo]
    generalize packTo g k = A at i1 i2 ⊢
    generalize packTo e k = B at i1 i2 ⊢
    generalize packTo (fun j => g j - e j) k = D at i2 ⊢
    omega

/-- `64 * INV_COUNT_STEP_9` holds the counter `64·j` in field `j` -/
theorem inv_count_pack : 64 * Gen.INV_COUNT_STEP_9 = packTo (fun j => 64 * j) 7 := by decide

/-- the counters word of the zeros: `64 * INV_COUNT_STEP_9 - sub_block_ranks` -/
theorem zero_counters (e : Nat → Nat) (hle : ∀ j, 1 ≤ j → j ≤ 7 → e j ≤ 64 * j) :
    packTo e 7 ≤ 64 * Gen.INV_COUNT_STEP_9 ∧
      64 * Gen.INV_COUNT_STEP_9 - packTo e 7 = packTo (fun j => 64 * j - e j) 7 := by
  rw [inv_count_pack]
  exact packTo_sub (fun j => 64 * j) e 7 hle

theorem inBlk_le (c : Cfg) (ws : Array Nat) (hw : ∀ i, wordAt ws i < 2^64) (b j : Nat) : inBlk c ws b j ≤ 64 * j := by
  unfold inBlk
  have := prefixPop_le c ws hw (8 * b) j
  omega

/-! ### reading the directory on the zero side -/

theorem numBlocks_congr (x y : R9Index) (hxy : x.pairs = y.pairs) : x.numBlocks = y.numBlocks := by
  unfold numBlocks; rw [hxy]

/-- `block_rank0(t)`: the number of unset bits before block `t`, for every `t ≤ num_blocks` -/
theorem blockRank0_ok (c : Cfg) (bv : BV) (h : bv.Inv) (x : R9Index) (hx : x.pairs = (buildRank c bv).pairs)
    (t : Nat) (ht : t ≤ (buildRank c bv).numBlocks) :
    x.blockRank0 c t = .ok (prefixZ c bv.words (8 * t)) := by
  unfold blockRank0
  rw [blockRank_congr x _ hx, blockRank_ok c bv h t ht, bind_ok, hB]
  have := prefixPop_le64 c bv.words h.lt (8 * t)
  rw [csub_ok c (by omega)]
  unfold prefixZ
  congr 1; omega

/-- `num_zeros` -/
theorem numZeros_ok (c : Cfg) (bv : BV) (h : bv.Inv) (x : R9Index) (hx : x.pairs = (buildRank c bv).pairs)
    (hlen : x.len = bv.len) :
    x.numZeros c = .ok (cnt (fun i => !bv.bitAt i) bv.len) := by
  have hsz := h.size
  have htot : cnt bv.bitAt (64 * bv.words.size) = cnt bv.bitAt bv.len := by
    have hsplit := cnt_add bv.bitAt bv.len (64 * bv.words.size - bv.len)
    rw [show bv.len + (64 * bv.words.size - bv.len) = 64 * bv.words.size by omega] at hsplit
    rw [hsplit, C14.cnt_zero_of_false _ _ (fun i _ => h.pad (bv.len + i) (by omega))]; omega
  have e1 : x.numOnes = (buildRank c bv).numOnes := by unfold numOnes; rw [hx]
  unfold numZeros
  rw [e1, numOnes_ok c bv h, bind_ok, hlen, prefixPop_eq c bv h, htot, csub_ok c (cnt_le _ _)]
  have := cnt_compl bv.bitAt bv.len
  congr 1; omega

/-- **select0 from any valid window**: whatever the hint table contains, if the window it produces
    brackets the `k`-th zero (`a < b ≤ num_blocks + 1`, `rank0(a) ≤ k < rank0(b)`), `select0` returns the
    position of the `k`-th unset bit; and `none` iff there are at most `k` — never a panic, in either
    arithmetic mode and with either broadword variant. The padding words of the last block count as
    zeros in the directory; the guard `k < num_zeros` keeps the search inside the vector. -/
theorem select0_window_ok (c : Cfg) (bv : BV) (h : bv.Inv) (k : Nat) (x : R9Index)
    (hx : x.pairs = (buildRank c bv).pairs) (hlen : x.len = bv.len)
    (hwin : k < cnt (fun i => !bv.bitAt i) bv.len → ∃ a b, window0 x k = .ok (a, b) ∧ a < b ∧
      b ≤ (buildRank c bv).numBlocks + 1 ∧ prefixZ c bv.words (8 * a) ≤ k ∧ k < prefixZ c bv.words (8 * b)) :
    select0 c x bv k = .ok (sel (fun i => !bv.bitAt i) bv.len k) := by
  have hsz := h.size
  have hnb := numBlocks_eq c bv h
  have e2 : x.numBlocks = (buildRank c bv).numBlocks := numBlocks_congr x _ hx
  have e4 : ∀ t, x.subBlockRanks t = (buildRank c bv).subBlockRanks t := fun t => by unfold subBlockRanks; rw [hx]
  have hsdm : 8 * (bv.words.size / 8) + bv.words.size % 8 = bv.words.size := Nat.div_add_mod _ 8
  have hcov : bv.words.size ≤ 8 * (buildRank c bv).numBlocks := by rw [hnb]; split <;> omega
  have hZ := zeros_le_prefixZ c bv h
  unfold select0
  rw [numZeros_ok c bv h x hx hlen, bind_ok]
  by_cases hk : cnt (fun i => !bv.bitAt i) bv.len ≤ k
  · rw [if_pos hk, sel_eq_none _ _ _ hk]
  · rw [if_neg hk]
    have hk' : k < cnt (fun i => !bv.bitAt i) bv.len := by omega
    obtain ⟨a, b, hw, hab, hbn, hloa, hhib⟩ := hwin hk'
    rw [hw, bind_ok, e2]
    obtain ⟨blk, hs, _, hb2', hlo, hhi'⟩ := searchBlockG_ok (x.blockRank0 c) (fun t => prefixZ c bv.words (8 * t)) k
      ((buildRank c bv).numBlocks + 1) a b hab
      (fun t _ h2 => blockRank0_ok c bv h x hx t (by omega)) (by omega) hloa hhib
    have hlo : prefixZ c bv.words (8 * blk) ≤ k := hlo
    have hhi : k < prefixZ c bv.words (8 * (blk + 1)) := hhi'
    -- the block found is a real block: the `k`-th zero lies inside the words
    have hb2 : blk < (buildRank c bv).numBlocks := by
      by_cases hq : blk < (buildRank c bv).numBlocks
      · exact hq
      · exfalso
        have := prefixZ_mono c bv.words h.lt (show bv.words.size ≤ 8 * blk by omega)
        omega
    rw [hs, bind_ok]
    rw [dassert_ok c (by simpa using hb2), bind_ok]
    rw [blockRank0_ok c bv h x hx blk (by omega), bind_ok]
    rw [dassert_ok c (by simpa using hlo), bind_ok]
    rw [csub_ok c hlo, bind_ok]
    rw [e4, subBlockRanks_ok c bv h blk hb2, bind_ok]
    -- the counters word of the zeros
    obtain ⟨hzle, hzeq⟩ := zero_counters (inBlk c bv.words blk) (fun j _ _ => inBlk_le c bv.words h.lt blk j)
    rw [csub_ok c hzle, bind_ok, hzeq]
    -- the in-block step
    have hblk8 := (prefixZ_add c bv.words h.lt (8 * blk) 8).2
    rw [show 8 * blk + 8 = 8 * (blk + 1) by omega] at hblk8
    have hpk : packTo (fun j => 64 * j - inBlk c bv.words blk j) 7
        = packTo (fun j => if j ≤ 7 then 64 * j - inBlk c bv.words blk j else 0) 7 :=
      packTo_congr _ _ 7 (fun j _ h2 => by simp [h2])
    obtain ⟨off, hoff, hin, hle, hlt⟩ := inBlock_ok c (fun j => if j ≤ 7 then 64 * j - inBlk c bv.words blk j else 0)
      (fun j => by
        by_cases hj : j ≤ 7
        · simp only [hj, if_true]; omega
        · simp [hj])
      (fun i j hi hij hj => by
        have hi7 : i ≤ 7 := by omega
        simp only [hi7, hj, if_true]
        unfold inBlk
        have q1 := prefixPop_mono c bv.words (show 8 * blk ≤ 8 * blk + i by omega)
        have q2 := prefixPop_mono c bv.words (show 8 * blk + i ≤ 8 * blk + j by omega)
        have q3 := prefixPop_le c bv.words h.lt (8 * blk + i) (j - i)
        rw [show 8 * blk + i + (j - i) = 8 * blk + j by omega] at q3
        have q4 := prefixPop_le c bv.words h.lt (8 * blk) i
        omega)
      (k - prefixZ c bv.words (8 * blk)) (by omega)
    rw [hpk, hin, bind_ok]
    -- the value consumed before the chosen word is the zero count up to it
    have p0 := prefixPop_le64 c bv.words h.lt (8 * blk)
    have p1 := prefixPop_mono c bv.words (show 8 * blk ≤ 8 * blk + off by omega)
    have p2 := prefixPop_le c bv.words h.lt (8 * blk) off
    have hval : prefixZ c bv.words (8 * blk) + (if off = 0 then 0 else (if off ≤ 7 then 64 * off - inBlk c bv.words blk off else 0))
        = prefixZ c bv.words (8 * blk + off) := by
      by_cases h0 : off = 0
      · subst h0; simp
      · simp only [h0, if_false, hoff, if_true]; unfold inBlk prefixZ; omega
    rw [hval]
    have hlo' : prefixZ c bv.words (8 * blk + off) ≤ k := by
      by_cases h0 : off = 0
      · subst h0; simpa using hlo
      · have := hle (by omega)
        simp only [hoff, if_true] at this
        rw [← hval]; simp only [h0, if_false, hoff, if_true]; omega
    have hhi2 : k < prefixZ c bv.words (8 * blk + off + 1) := by
      by_cases h7 : off < 7
      · have := hlt h7
        have h71 : off + 1 ≤ 7 := by omega
        simp only [h71, if_true] at this
        have p3 := prefixPop_mono c bv.words (show 8 * blk ≤ 8 * blk + (off + 1) by omega)
        have p4 := prefixPop_le c bv.words h.lt (8 * blk) (off + 1)
        rw [show 8 * blk + off + 1 = 8 * blk + (off + 1) by omega]
        unfold inBlk at this; unfold prefixZ at this hlo ⊢; omega
      · have : off = 7 := by omega
        subst this
        rw [show 8 * blk + 7 + 1 = 8 * (blk + 1) by omega]; exact hhi
    rw [dassert_ok c (by simpa using hlo'), bind_ok]
    -- the chosen word exists
    have hwin : blk * 8 + off < bv.words.size := by
      by_cases hq : blk * 8 + off < bv.words.size
      · exact hq
      · exfalso
        have := prefixZ_mono c bv.words h.lt (show bv.words.size ≤ 8 * blk + off by omega)
        omega
    rw [hB, idx_ok _ _ hwin, bind_ok]
    obtain ⟨p, hp, hsel⟩ := BV.word_sel0 c bv h (8 * blk + off) k hlo' hhi2 hk'
    rw [show blk * 8 + off = 8 * blk + off by omega, hp, hsel]
    simp only []
    congr 2; omega

/-- **select0 without hints** (window = the whole directory) -/
theorem select0_nohints_ok (c : Cfg) (bv : BV) (h : bv.Inv) (k : Nat) :
    select0 c (buildRank c bv) bv k = .ok (sel (fun i => !bv.bitAt i) bv.len k) := by
  apply select0_window_ok c bv h k (buildRank c bv) rfl rfl
  intro hk
  have hnb := numBlocks_eq c bv h
  have hsdm : 8 * (bv.words.size / 8) + bv.words.size % 8 = bv.words.size := Nat.div_add_mod _ 8
  have hcover : bv.words.size ≤ 8 * (buildRank c bv).numBlocks := by rw [hnb]; split <;> omega
  have hZ := zeros_le_prefixZ c bv h
  have hm := prefixZ_mono c bv.words h.lt hcover
  have h0 : prefixZ c bv.words (8 * 0) = 0 := by simp [prefixZ]
  have hnb0 : 0 < (buildRank c bv).numBlocks := by
    cases hz : (buildRank c bv).numBlocks with
    | zero => rw [hz] at hm; omega
    | succ n => omega
  exact ⟨0, (buildRank c bv).numBlocks, rfl, hnb0, Nat.le_succ _, by omega, by omega⟩

end R9Index
end Sucds
