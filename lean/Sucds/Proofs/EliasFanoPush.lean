import Sucds.Proofs.EliasFano
set_option linter.unusedSimpArgs false
set_option linter.unusedVariables false
namespace Sucds
namespace EFB
open BV Spec

theorem push_rej (b : EFB) (v : Nat) (h : v < b.last ∨ b.univ ≤ v ∨ b.numVals ≤ b.pos) : b.push v = .ok (b, false) := by
  unfold push
  by_cases h1 : v < b.last
  · simp [h1]
  · by_cases h2 : b.univ ≤ v
    · simp [h1, h2]
    · have h3 : b.numVals ≤ b.pos := by omega
      simp [h1, h2, h3]

theorem le_getLast_of_sorted (xs : List Nat) (hs : xs.Pairwise (· ≤ ·)) (x : Nat) (hx : x ∈ xs) : x ≤ xs.getLast?.getD 0 := by
  induction xs generalizing x with
  | nil => simp at hx
  | cons a t ih =>
    cases t with
    | nil => simp at hx; subst hx; simp
    | cons c t' =>
      rw [List.pairwise_cons] at hs
      have hlast : (a :: c :: t').getLast?.getD 0 = (c :: t').getLast?.getD 0 := by simp [List.getLast?_cons_cons]
      rw [hlast]
      rcases List.mem_cons.mp hx with rfl | hx'
      · have hc := hs.1 c (by simp)
        exact Nat.le_trans hc (ih hs.2 c (by simp))
      · exact ih hs.2 x hx'

theorem mask_and_testBit (v l j : Nat) : (v &&& ((1 <<< l) - 1)).testBit j = (decide (j < l) && v.testBit j) := by
  rw [Nat.testBit_and, Nat.one_shiftLeft, Nat.testBit_two_pow_sub_one, Bool.and_comm]

/-- an accepted push appends the value -/
theorem push_holds (b : EFB) (xs : List Nat) (h : Holds b xs) (v : Nat) (h1 : b.last ≤ v) (h2 : v < b.univ)
    (h3 : b.pos < b.numVals) : ∃ b', b.push v = .ok (b', true) ∧ Holds b' (xs ++ [v]) ∧
      b'.univ = b.univ ∧ b'.numVals = b.numVals ∧ b'.lowLen = b.lowLen := by
  unfold push
  have g1 : ¬ v < b.last := by omega
  have g2 : ¬ b.univ ≤ v := by omega
  have g3 : ¬ b.numVals ≤ b.pos := by omega
  simp only [g1, g2, g3, if_false]
  -- the low part
  have hlow : ∃ l, pushLow b v = some l ∧ l.Inv ∧ l.len = (xs.length + 1) * b.lowLen ∧
      ∀ i, l.bitAt i = if i < b.low.len then b.low.bitAt i
        else (decide (i < b.low.len + b.lowLen) && (v &&& ((1 <<< b.lowLen) - 1)).testBit (i - b.low.len)) := by
    by_cases hl0 : b.lowLen ≠ 0
    · obtain ⟨p1, p2, p3, p4⟩ := pushBits_ok b.low h.linv (v &&& ((1 <<< b.lowLen) - 1)) b.lowLen (by have := h.llt; omega)
      cases hpb : b.low.pushBits (v &&& ((1 <<< b.lowLen) - 1)) b.lowLen with
      | mk l ok =>
        rw [hpb] at p1 p2 p3 p4
        simp only at p1 p2 p3 p4
        subst p1
        refine ⟨l, by simp [pushLow, hl0, hpb], p2, ?_, p4⟩
        rw [p3, h.llen, Nat.add_mul, Nat.one_mul]
    · have hl0' : b.lowLen = 0 := by omega
      refine ⟨b.low, by simp [pushLow, hl0], h.linv, ?_, ?_⟩
      · rw [h.llen, hl0']; simp
      · intro i
        by_cases hi : i < b.low.len
        · simp [hi]
        · have := h.linv.pad i (by omega)
          simp [hi, this, hl0']
  obtain ⟨l, hle, hlinv, hllen, hlbits⟩ := hlow
  rw [hle]
  simp only []
  -- the high part
  have hq0 : (v >>> b.lowLen) + b.pos < b.high.len := by
    rw [h.hlen]
    have : v >>> b.lowLen ≤ b.univ >>> b.lowLen := by
      rw [Nat.shiftRight_eq_div_pow, Nat.shiftRight_eq_div_pow]
      exact Nat.div_le_div_right (by omega)
    omega
  obtain ⟨hi', hset, hhinv, hhlen, hhbits⟩ := setBit_ok b.high h.hinv ((v >>> b.lowLen) + b.pos) true hq0
  rw [hset]
  simp only [Except.bind]
  refine ⟨_, rfl, ?_, rfl, rfl, rfl⟩
  have hxl : xs.length = b.pos := h.pos.symm
  exact {
    pos := by show b.pos + 1 = (xs ++ [v]).length; simp [h.pos]
    cap := by show b.pos + 1 ≤ b.numVals; omega
    last := by show v = (xs ++ [v]).getLast?.getD 0; simp
    sorted := by
      rw [List.pairwise_append]
      refine ⟨h.sorted, List.pairwise_singleton _ _, ?_⟩
      intro x hx y hy
      simp at hy; subst hy
      have := le_getLast_of_sorted xs h.sorted x hx
      rw [← h.last] at this; omega
    bound := by
      intro x hx
      show x < b.univ
      rcases List.mem_append.mp hx with hx | hx
      · exact h.bound x hx
      · simp at hx; subst hx; exact h2
    llt := h.llt
    hinv := hhinv
    hlen := by show hi'.len = b.numVals + (b.univ >>> b.lowLen) + 2; rw [hhlen, h.hlen]
    ones := by
      intro q
      show hi'.bitAt q = true ↔ ∃ k, k < (xs ++ [v]).length ∧ ((xs ++ [v])[k]?.getD 0 >>> b.lowLen) + k = q
      rw [hhbits]
      constructor
      · intro hq
        by_cases hqe : q = (v >>> b.lowLen) + b.pos
        · refine ⟨xs.length, by simp, ?_⟩
          rw [List.getElem?_append_right (Nat.le_refl _)]
          simp [hqe, hxl]
        · simp only [hqe, if_false] at hq
          obtain ⟨k, hk, hkq⟩ := (h.ones q).mp hq
          refine ⟨k, by simp; omega, ?_⟩
          rw [List.getElem?_append_left hk]; exact hkq
      · intro ⟨k, hk, hkq⟩
        by_cases hkl : k < xs.length
        · rw [List.getElem?_append_left hkl] at hkq
          have := (h.ones q).mpr ⟨k, hkl, hkq⟩
          split <;> simp [this]
        · have hke : k = xs.length := by simp at hk; omega
          subst hke
          rw [List.getElem?_append_right (Nat.le_refl _)] at hkq
          simp at hkq
          have : q = (v >>> b.lowLen) + b.pos := by omega
          simp [this]
    linv := hlinv
    llen := by show l.len = (xs ++ [v]).length * b.lowLen; simp [hllen]
    lows := by
      intro k hk j hj0
      have hj : j < b.lowLen := hj0
      clear hj0
      show l.bitAt (k * b.lowLen + j) = ((xs ++ [v])[k]?.getD 0).testBit j
      rw [hlbits]
      by_cases hkl : k < xs.length
      · have hin : k * b.lowLen + j < b.low.len := by
          rw [h.llen]
          calc k * b.lowLen + j < k * b.lowLen + b.lowLen := by omega
            _ = (k + 1) * b.lowLen := by rw [Nat.add_mul, Nat.one_mul]
            _ ≤ xs.length * b.lowLen := Nat.mul_le_mul_right _ (by omega)
        rw [List.getElem?_append_left hkl]
        simp only [hin, if_true]
        exact h.lows k hkl j hj
      · have hke : k = xs.length := by simp at hk; omega
        subst hke
        rw [List.getElem?_append_right (Nat.le_refl _)]
        have hnin : ¬ (xs.length * b.lowLen + j < b.low.len) := by rw [h.llen]; omega
        have hin2 : xs.length * b.lowLen + j < b.low.len + b.lowLen := by rw [h.llen]; omega
        have he : xs.length * b.lowLen + j - b.low.len = j := by rw [h.llen]; omega
        have hm := mask_and_testBit v b.lowLen j
        simp only [hj, decide_true, Bool.true_and] at hm
        simp only [hnin, if_false, hin2, decide_true, Bool.true_and, he, hm]
        simp }

end EFB
end Sucds
