import Sucds.Proofs.SpaceDacs
import Sucds.Proofs.DacsOptWidths
/-! # C19, part 4e — `DacsOpt::from_slice`: whatever it returns obeys the per-level bound. -/
set_option linter.unusedSimpArgs false
set_option linter.unusedVariables false
namespace Sucds
namespace Space
open Codec Dac

/-- **DacsOpt** (C19): `from_slice` (any `max_levels`) of 64-bit values (fewer than `2^57` of them, the range of
    the width optimiser's cost table): the returned structure has
    `100·(8·size_in_bytes) ≤ 132·(chunk bits + flag bits) + 204800·levels + 12800`,
    i.e. `B ≤ Σ_levels (1.32·(bits stored on the level) + 2048) + 128`. -/
theorem dacsopt_bound (c : Cfg) (vals : List Nat) (ml : Option Nat) (hv : ∀ v ∈ vals, v < 2^64)
    (hn : vals.length < 2^57) (d : DacO) (e : DacO.fromSlice c vals ml = .ok (some d)) :
    100 * (8 * DacO.codec.size d) ≤
      132 * (DacO.chunkBits d + flagBits d.flags) + 204800 * d.numLevels + 12800 := by
  unfold DacO.fromSlice at e
  simp only [] at e
  by_cases hml : ml.getD 64 < 1 ∨ 64 < ml.getD 64
  · rw [if_pos hml] at e; cases e
  · rw [if_neg hml] at e
    cases hemp : vals.isEmpty with
    | true =>
      rw [hemp] at e
      simp only [if_true] at e
      cases e
      have hd : DataOK DacO.default.data := by
        intro v hv
        have : v = CV.default := by simpa [DacO.default] using hv
        subst this
        exact ⟨[], { len := rfl, inv := BV.new_inv, clen := rfl, wle := by decide, vals := by intro i hi; exact absurd hi (Nat.not_lt_zero _) }⟩
      have hf : FlagsOK c DacO.default.flags := by
        intro x hx
        exact absurd hx (by simp [DacO.default])
      have := dacsopt_bits c DacO.default hd hf
      have h1 : DacO.default.data.size = 1 := rfl
      have h2 : DacO.default.flags.size = 0 := rfl
      unfold DacO.numLevels
      omega
    | false =>
      rw [hemp] at e
      simp only [Bool.false_eq_true, if_false] at e
      have hne : vals ≠ [] := by
        intro h; subst h; simp at hemp
      obtain ⟨ws, a1, a2, a3, a4, a5, _⟩ := DacO.optWidths_ok c vals hne hv hn (ml.getD 64) (by omega) (by omega)
      have hmax := foldl_max_lt (2^64) vals 0 (by decide) hv
      have hsum : ws.sum ≤ 64 := by
        rw [a5]
        exact bitlen_le _ hmax
      obtain ⟨d', hb, hl, hbound⟩ := dacsopt_build_bound c vals ws a2 a4 hsum
      rw [a1, R9Index.bind_ok, hb, R9Index.bind_ok] at e
      cases e
      exact hbound

end Space
end Sucds
