import Sucds.Proofs.GenBroadword
import Sucds.Proofs.GenBitVectorRW
import Sucds.Proofs.GenBitVectorScan
import Sucds.Proofs.GenIterators
import Sucds.Proofs.DacsOptWidths
/-! # `DacsOpt::compute_opt_widths` generated from `src/int_vectors/dacs_opt.rs` agrees with the model

`Sucds.GenFn.DacsOpt.compute_opt_widths` (generated, over `Sucds.RS`) versus `DacO.optWidths` (`Model/Dacs.lean`),
for every build configuration, every non-empty slice of 64-bit values with fewer than `2^57` elements and every
`max_levels ≥ 1`; then the optimality statement exactly as `Props/C18.lean` states it for the model.

The generated code keeps the tables as `dp_s[j][r]` (`Vec<Vec<usize>>`, `num_bits + 1` rows of `max_levels`
entries); the model keeps rows `[r][j]`. Both are related to the functions `DP.S`, `DP.B` of `Proofs/DP.lean`:
the generated tables are, after every loop iteration, `tab W ml f` for an explicit function `f`. -/
set_option linter.unusedSimpArgs false
set_option linter.unusedVariables false
set_option linter.unusedSectionVars false
namespace Sucds.GenEq.Cow
open Sucds Sucds.DacsOptW

/-! ## The generated function, cut into its loops (definitional) -/

abbrev Tab := Array (Array Nat)

/-- body of `for x in vals { maxv = maxv.max(x) }` -/
def cowMaxBody : Nat → Nat → R Nat := fun x maxv =>
  (RS.unwrap (some x)).bind fun t =>
  let maxv1 := (Nat.max maxv t)
  .ok maxv1

/-- body of `for x in vals { nums_ints[needed_bits(x) - 1] += 1 }` -/
def cowHistBody (c : Cfg) : Nat → Array Nat → R (Array Nat) := fun x1 nums_ints1 =>
  (RS.unwrap (some x1)).bind fun t2 =>
  (GenFn.utils.needed_bits c t2).bind fun t3 =>
  (csub c t3 1).bind fun t4 =>
  (RS.index nums_ints1 t4).bind fun w =>
  (cadd c w 1).bind fun nums_ints2 =>
  (RS.setIndex nums_ints1 t4 nums_ints2).bind fun arr =>
  .ok arr

/-- body of `for j in (0..num_bits).rev() { nums_ints[j] += nums_ints[j + 1] }` -/
def cowSufBody (c : Cfg) : Nat → Array Nat → R (Array Nat) := fun j nums_ints4 =>
  (cadd c j 1).bind fun t5 =>
  (RS.index nums_ints4 t5).bind fun t6 =>
  (RS.index nums_ints4 j).bind fun w1 =>
  (cadd c w1 t6).bind fun nums_ints5 =>
  (RS.setIndex nums_ints4 j nums_ints5).bind fun arr1 =>
  .ok arr1

/-- body of the initialisation loop `dp_s[j][0] = (num_bits - j) * nums_ints[j]; dp_b[j][0] = num_bits - j` -/
def cowInitBody (c : Cfg) (num_bits : Nat) (nums_ints6 : Array Nat) : Nat → Tab × Tab → R (Tab × Tab) := fun j1 st6 =>
  let dp_s1 := st6.1
  let dp_b1 := st6.2
  (csub c num_bits j1).bind fun t11 =>
  (RS.index nums_ints6 j1).bind fun t12 =>
  (cmul c t11 t12).bind fun t13 =>
  (RS.index dp_s1 j1).bind fun t14 =>
  (RS.setIndex t14 0 t13).bind fun arr2 =>
  (RS.setIndex dp_s1 j1 arr2).bind fun arr3 =>
  (csub c num_bits j1).bind fun t15 =>
  (RS.index dp_b1 j1).bind fun t16 =>
  (RS.setIndex t16 0 t15).bind fun arr4 =>
  (RS.setIndex dp_b1 j1 arr4).bind fun arr5 =>
  .ok (arr3, arr5)

/-- body of `for b in 1..=num_bits - j` -/
def cowInnerBody (c : Cfg) (nums_ints6 : Array Nat) (j2 r : Nat) : Nat → Tab × Tab → R (Tab × Tab) := fun b st10 =>
  let dp_s5 := st10.1
  let dp_b5 := st10.2
  (cadd c b 1).bind fun t19 =>
  (RS.index nums_ints6 j2).bind fun t20 =>
  (cmul c t19 t20).bind fun t21 =>
  (cadd c j2 b).bind fun t22 =>
  (RS.index dp_s5 t22).bind fun t23 =>
  (csub c r 1).bind fun t24 =>
  (RS.index t23 t24).bind fun t25 =>
  (cadd c t21 t25).bind fun c_ =>
  (RS.index dp_s5 j2).bind fun t26 =>
  (RS.index t26 r).bind fun t27 =>
  (if c_ ≤ t27 then
    (RS.index dp_s5 j2).bind fun t28 =>
    (RS.setIndex t28 r c_).bind fun arr8 =>
    (RS.setIndex dp_s5 j2 arr8).bind fun arr9 =>
    (RS.index dp_b5 j2).bind fun t29 =>
    (RS.setIndex t29 r b).bind fun arr10 =>
    (RS.setIndex dp_b5 j2 arr10).bind fun arr11 =>
    .ok (arr9, arr11)
  else
    .ok (dp_s5, dp_b5) : R _).bind fun j3 =>
  let dp_s6 := j3.1
  let dp_b6 := j3.2
  .ok (dp_s6, dp_b6)

/-- body of `for j in 0..num_bits` (level `r`) -/
def cowMidBody (c : Cfg) (num_bits : Nat) (nums_ints6 : Array Nat) (r : Nat) : Nat → Tab × Tab → R (Tab × Tab) := fun j2 st9 =>
  let dp_s4 := st9.1
  let dp_b4 := st9.2
  (RS.index dp_s4 j2).bind fun t17 =>
  (RS.setIndex t17 r RS.MAX).bind fun arr6 =>
  (RS.setIndex dp_s4 j2 arr6).bind fun arr7 =>
  (csub c num_bits j2).bind fun t18 =>
  (RS.forRange 1 (t18 + 1) (arr7, dp_b4) (cowInnerBody c nums_ints6 j2 r)).bind fun st11 =>
  let dp_s7 := st11.1
  let dp_b7 := st11.2
  .ok (dp_s7, dp_b7)

/-- body of `for r in 1..max_levels` -/
def cowOuterBody (c : Cfg) (num_bits : Nat) (nums_ints6 : Array Nat) : Nat → Tab × Tab → R (Tab × Tab) := fun r st8 =>
  let dp_s3 := st8.1
  let dp_b3 := st8.2
  (RS.forRange 0 num_bits (dp_s3, dp_b3) (cowMidBody c num_bits nums_ints6 r)).bind fun st12 =>
  let dp_s8 := st12.1
  let dp_b8 := st12.2
  .ok (dp_s8, dp_b8)

/-- body of the `min_level_idx` loop -/
def cowMinBody (dp_s9 : Tab) : Nat → Nat → R Nat := fun r1 min_level_idx =>
  (RS.index dp_s9 0).bind fun t30 =>
  (RS.index t30 r1).bind fun t31 =>
  (RS.index dp_s9 0).bind fun t32 =>
  (RS.index t32 min_level_idx).bind fun t33 =>
  (if t31 < t33 then
    .ok r1
  else
    .ok min_level_idx : R _).bind fun min_level_idx1 =>
  .ok min_level_idx1

def cowReconCond (num_bits : Nat) : Array Nat × Nat × Nat → R Bool := fun st16 =>
  let widths1 := st16.1
  let j4 := st16.2.1
  let r2 := st16.2.2
  .ok (decide (j4 < num_bits))

/-- body of the reconstruction loop `while j < num_bits` -/
def cowReconBody (c : Cfg) (dp_b9 : Tab) (num_levels : Nat) : Array Nat × Nat × Nat → R (Array Nat × Nat × Nat) := fun st17 =>
  let widths2 := st17.1
  let j5 := st17.2.1
  let r3 := st17.2.2
  (RS.index dp_b9 j5).bind fun t34 =>
  (csub c num_levels r3).bind fun t35 =>
  (csub c t35 1).bind fun t36 =>
  (RS.index t34 t36).bind fun t37 =>
  (RS.setIndex widths2 r3 t37).bind fun arr12 =>
  (RS.index arr12 r3).bind fun t38 =>
  (cadd c j5 t38).bind fun j6 =>
  (cadd c r3 1).bind fun r4 =>
  .ok (arr12, j6, r4)

/-- everything after the tables are filled: `min_level_idx`, the reconstruction and the three `assert_eq!` -/
def cowTail (c : Cfg) (num_bits max_levels1 : Nat) (st13 : Tab × Tab) : R (Array Nat) :=
  let dp_s9 := st13.1
  let dp_b9 := st13.2
  (RS.forRange 1 max_levels1 0 (cowMinBody dp_s9)).bind fun min_level_idx2 =>
  (cadd c min_level_idx2 1).bind fun num_levels =>
  let widths := (Array.replicate num_levels 0)
  (RS.whileLoop (widths, 0, 0) (cowReconCond num_bits) (cowReconBody c dp_b9 num_levels)).bind fun st18 =>
  let widths3 := st18.1
  let j7 := st18.2.1
  let r5 := st18.2.2
  (RS.assert (j7 == num_bits)).bind fun _ =>
  (RS.assert (r5 == num_levels)).bind fun _ =>
  (RS.sum c widths3).bind fun t39 =>
  (RS.assert (t39 == num_bits)).bind fun _ =>
  .ok widths3

/-- the dynamic program, once `nums_ints` is known -/
def cowDP (c : Cfg) (vals : Array Nat) (num_bits max_levels1 : Nat) (nums_ints6 : Array Nat) : R (Array Nat) :=
  (RS.index nums_ints6 0).bind fun t7 =>
  (dassert c (t7 == vals.size)).bind fun _ =>
  (RS.unwrap (nums_ints6.back?)).bind fun t8 =>
  (dassert c (t8 == 0)).bind fun _ =>
  (cadd c num_bits 1).bind fun t9 =>
  let dp_s := (Array.replicate t9 (Array.replicate max_levels1 0))
  (cadd c num_bits 1).bind fun t10 =>
  let dp_b := (Array.replicate t10 (Array.replicate max_levels1 0))
  (RS.forRange 0 num_bits (dp_s, dp_b) (cowInitBody c num_bits nums_ints6)).bind fun st7 =>
  let dp_s2 := st7.1
  let dp_b2 := st7.2
  (RS.forRange 1 max_levels1 (dp_s2, dp_b2) (cowOuterBody c num_bits nums_ints6)).bind fun st13 =>
  cowTail c num_bits max_levels1 st13

/-- the generated definition is, definitionally, the composition of the pieces above -/
theorem compute_opt_widths_unfold (c : Cfg) (vals : Array Nat) (max_levels : Nat) :
    GenFn.DacsOpt.compute_opt_widths c vals max_levels =
      (RS.assert (!(vals.size == 0))).bind fun _ =>
      (RS.assert (max_levels != 0)).bind fun _ =>
      (RS.forList cowMaxBody vals.toList 0).bind fun maxv2 =>
      (GenFn.utils.needed_bits c maxv2).bind fun num_bits =>
      let max_levels1 := (Nat.min max_levels num_bits)
      (cadd c num_bits 1).bind fun t1 =>
      let nums_ints := (Array.replicate t1 0)
      (RS.forList (cowHistBody c) vals.toList nums_ints).bind fun nums_ints3 =>
      (RS.forRangeRev 0 num_bits nums_ints3 (cowSufBody c)).bind fun nums_ints6 =>
      cowDP c vals num_bits max_levels1 nums_ints6 := rfl

/-! ## General lemmas: counted loops, two-dimensional tables -/

theorem forCount_zero {σ : Type} (body : Nat → σ → R σ) (i : Nat) (s : σ) : RS.forCount body i 0 s = .ok s := rfl
theorem forCount_succ {σ : Type} (body : Nat → σ → R σ) (i n : Nat) (s : σ) :
    RS.forCount body i (n+1) s = (body i s).bind fun s' => RS.forCount body (i+1) n s' := rfl

/-- a counted loop whose state after `k` iterations is known exactly -/
theorem forCount_exact {σ : Type} (body : Nat → σ → R σ) (F : Nat → σ) :
    ∀ (n i : Nat), (∀ k, i ≤ k → k < i + n → body k (F k) = .ok (F (k+1))) →
      RS.forCount body i n (F i) = .ok (F (i + n)) := by
  intro n
  induction n with
  | zero => intro i _; rfl
  | succ n ih =>
    intro i h
    rw [forCount_succ, h i (Nat.le_refl _) (by omega), bok, ih (i+1) (fun k h1 h2 => h k (by omega) (by omega))]
    rw [show i + 1 + n = i + (n + 1) by omega]

theorem forRange_exact {σ : Type} (body : Nat → σ → R σ) (F : Nat → σ) (lo hi : Nat) (hle : lo ≤ hi)
    (h : ∀ k, lo ≤ k → k < hi → body k (F k) = .ok (F (k+1))) :
    RS.forRange lo hi (F lo) body = .ok (F hi) := by
  have := forCount_exact body F (hi - lo) lo (fun k h1 h2 => h k h1 (by omega))
  rw [show lo + (hi - lo) = hi by omega] at this
  exact this

theorem forCount_shift {σ : Type} (g : Nat → σ → R σ) :
    ∀ (n i : Nat) (s : σ), RS.forCount (fun j => g (j+1)) i n s = RS.forCount g (i+1) n s := by
  intro n
  induction n with
  | zero => intro i s; rfl
  | succ n ih =>
    intro i s
    rw [forCount_succ, forCount_succ]
    cases g (i+1) s with
    | error e => rfl
    | ok s' => rw [bok, bok, ih]

/-- `for j in (0..hi).rev()` visits `hi-1, …, 0` -/
theorem forRangeRev_zero {σ : Type} (body : Nat → σ → R σ) :
    ∀ (hi : Nat) (init : σ), RS.forRangeRev 0 hi init body = RS.forList body (List.range hi).reverse init := by
  intro hi
  induction hi with
  | zero => intro init; rfl
  | succ hi ih =>
    intro init
    rw [List.range_succ, List.reverse_append, List.reverse_singleton, List.singleton_append, forList_cons]
    show RS.forCount (fun j s => body (hi + 1 - 1 - (j - 0)) s) 0 (hi + 1 - 0) init = _
    rw [show hi + 1 - 0 = hi + 1 by omega, forCount_succ]
    show (body hi init).bind _ = _
    cases body hi init with
    | error e => rfl
    | ok s' =>
      rw [bok, bok, ← ih s', ← forCount_shift]
      show _ = RS.forCount (fun j s => body (hi - 1 - (j - 0)) s) 0 (hi - 0) s'
      rw [show hi - 0 = hi by omega]
      congr 1
      funext j s
      rw [show hi + 1 - 1 - (j + 1 - 0) = hi - 1 - (j - 0) by omega]

/-- `Vec<Vec<usize>>` with `W+1` rows of `ml` entries, entry `[j][r]` = `f j r` -/
def row (ml : Nat) (g : Nat → Nat) : Array Nat := (Array.range ml).map g
def tab (W ml : Nat) (f : Nat → Nat → Nat) : Tab := (Array.range (W + 1)).map fun j => row ml (f j)

/-- `f` with entry `[j][r]` replaced by `v` -/
def upd (f : Nat → Nat → Nat) (j r v : Nat) : Nat → Nat → Nat := fun j' r' => if j' = j ∧ r' = r then v else f j' r'

theorem row_get (ml : Nat) (g : Nat → Nat) (r : Nat) (hr : r < ml) : (row ml g)[r]? = some (g r) := by
  simp [row, hr]
theorem row_size (ml : Nat) (g : Nat → Nat) : (row ml g).size = ml := by simp [row]
theorem tab_get (W ml : Nat) (f : Nat → Nat → Nat) (j : Nat) (hj : j ≤ W) : (tab W ml f)[j]? = some (row ml (f j)) := by
  simp [tab, show j < W + 1 by omega]
theorem tab_size (W ml : Nat) (f : Nat → Nat → Nat) : (tab W ml f).size = W + 1 := by simp [tab]

theorem row_congr (ml : Nat) (g g' : Nat → Nat) (h : ∀ r, r < ml → g r = g' r) : row ml g = row ml g' := by
  apply Array.ext
  · simp [row]
  · intro i h1 h2
    simp only [row, Array.size_map, Array.size_range] at h1
    simp [row, h i h1]

theorem tab_congr (W ml : Nat) (f f' : Nat → Nat → Nat) (h : ∀ j r, j ≤ W → r < ml → f j r = f' j r) :
    tab W ml f = tab W ml f' := by
  apply Array.ext
  · simp [tab]
  · intro i h1 h2
    simp only [tab, Array.size_map, Array.size_range] at h1
    simp only [tab, Array.getElem_map, Array.getElem_range]
    exact row_congr ml _ _ (fun r hr => h i r (by omega) hr)

theorem tab_replicate (W ml : Nat) : Array.replicate (W + 1) (Array.replicate ml 0) = tab W ml (fun _ _ => 0) := by
  apply Array.ext
  · simp [tab]
  · intro i h1 h2
    simp only [tab, Array.getElem_map, Array.getElem_range, Array.getElem_replicate]
    apply Array.ext
    · simp [row]
    · intro k h3 h4
      simp [row]

theorem row_set (ml : Nat) (g : Nat → Nat) (r v : Nat) :
    (row ml g).setIfInBounds r v = row ml (fun r' => if r' = r then v else g r') := by
  apply Array.ext
  · simp [row]
  · intro i h1 h2
    simp only [row, Array.size_map, Array.size_range] at h2
    by_cases e : r = i
    · subst e; simp [row]
    · have e' : ¬ i = r := fun h => e h.symm
      rw [Array.getElem_setIfInBounds_ne (by simp [row]; omega) e]
      simp [row, e']

theorem tab_set (W ml : Nat) (f : Nat → Nat → Nat) (j : Nat) (g : Nat → Nat) :
    (tab W ml f).setIfInBounds j (row ml g) = tab W ml (fun j' => if j' = j then g else f j') := by
  apply Array.ext
  · simp [tab]
  · intro i h1 h2
    by_cases e : j = i
    · subst e; simp [tab]
    · have e' : ¬ i = j := fun h => e h.symm
      rw [Array.getElem_setIfInBounds_ne (by simp [tab] at h2 ⊢; omega) e]
      simp [tab, e']

theorem index_of_get {α : Type} (v : Array α) (i : Nat) (x : α) (h : v[i]? = some x) : RS.index v i = .ok x := by
  unfold RS.index; rw [h]

/-- `t[j][r]` -/
theorem tab_read {β : Type} (W ml : Nat) (f : Nat → Nat → Nat) (j r : Nat) (hj : j ≤ W) (hr : r < ml) (k : Nat → R β) :
    ((RS.index (tab W ml f) j).bind fun t => (RS.index t r).bind k) = k (f j r) := by
  rw [index_of_get _ _ _ (tab_get W ml f j hj), bok, index_of_get _ _ _ (row_get ml (f j) r hr), bok]

/-- `t[j][r] = v` -/
theorem tab_write {β : Type} (W ml : Nat) (f : Nat → Nat → Nat) (j r v : Nat) (hj : j ≤ W) (hr : r < ml) (k : Tab → R β) :
    ((RS.index (tab W ml f) j).bind fun t => (RS.setIndex t r v).bind fun a => (RS.setIndex (tab W ml f) j a).bind k)
      = k (tab W ml (upd f j r v)) := by
  rw [index_of_get _ _ _ (tab_get W ml f j hj), bok]
  rw [setIndex_ok _ _ _ (by rw [row_size]; exact hr), bok, setIndex_ok _ _ _ (by rw [tab_size]; omega), bok,
    Array.set!_eq_setIfInBounds, Array.set!_eq_setIfInBounds, row_set, tab_set]
  congr 1
  apply tab_congr
  intro j' r' _ _
  unfold upd
  by_cases e1 : j' = j
  · by_cases e2 : r' = r <;> simp [e1, e2]
  · simp [e1]

/-! ## `maxv`, `num_bits`, `nums_ints` -/

theorem max_loop : ∀ (l : List Nat) (a : Nat), RS.forList cowMaxBody l a = .ok (l.foldl max a) := by
  intro l
  induction l with
  | nil => intro a; rfl
  | cons x t ih =>
    intro a
    rw [forList_cons]
    show (Except.ok (Nat.max a x) : R Nat).bind _ = _
    rw [bok, ih]
    rfl

/-- `needed_bits` of the generated code is the model's `neededBits` -/
theorem needed_bits_eq (c : Cfg) (x : Nat) (hx : x < 2^64) : GenFn.utils.needed_bits c x = .ok (neededBits c x) := by
  rw [needed_bits_spec c x hx, DacsOptW.neededBits_eq c x hx]
  rfl

theorem set!_eq_modify (h : Array Nat) (k : Nat) (hk : k < h.size) :
    h.set! k (wordAt h k + 1) = h.modify k (· + 1) := by
  apply Array.ext_getElem?
  intro i
  rw [Array.set!_eq_setIfInBounds, Array.getElem?_setIfInBounds, Array.getElem?_modify]
  by_cases e : k = i
  · subst e
    simp [wordAt, hk]
  · simp [e]

theorem wordAt_modify_le (h : Array Nat) (k i : Nat) : wordAt (h.modify k (· + 1)) i ≤ wordAt h i + 1 := by
  simp only [wordAt, Array.getElem?_modify]
  by_cases e : k = i
  · subst e
    cases h[k]? <;> simp
  · simp [e]

/-- the histogram loop -/
theorem hist_loop (c : Cfg) : ∀ (l : List Nat) (h0 : Array Nat),
    (∀ x ∈ l, x < 2^64 ∧ neededBits c x - 1 < h0.size) → (∀ i, wordAt h0 i + l.length < 2^64) →
    RS.forList (cowHistBody c) l h0 = .ok (l.foldl (fun (h : Array Nat) x => h.modify (neededBits c x - 1) (· + 1)) h0) := by
  intro l
  induction l with
  | nil => intro h0 _ _; rfl
  | cons x t ih =>
    intro h0 hx hb
    obtain ⟨hx1, hx2⟩ := hx x (by simp)
    have hpos : 1 ≤ neededBits c x := by rw [DacsOptW.neededBits_eq c x hx1]; exact DacsOptW.bitlen_pos x
    have hb1 := hb (neededBits c x - 1)
    simp only [List.length_cons] at hb1
    have hstep : cowHistBody c x h0 = .ok (h0.modify (neededBits c x - 1) (· + 1)) := by
      unfold cowHistBody
      show (Except.ok x : R Nat).bind _ = _
      rw [bok, needed_bits_eq c x hx1, bok, csub_ok c hpos, bok, index_wordAt _ _ hx2, bok, cadd_ok c (by omega), bok,
        setIndex_ok _ _ _ hx2, bok, set!_eq_modify _ _ hx2]
    rw [forList_cons, List.foldl_cons, hstep, bok]
    apply ih
    · intro y hy
      obtain ⟨a1, a2⟩ := hx y (List.mem_cons_of_mem _ hy)
      exact ⟨a1, by rw [Array.size_modify]; exact a2⟩
    · intro i
      have := wordAt_modify_le h0 (neededBits c x - 1) i
      have := hb i
      simp only [List.length_cons] at this
      omega

/-- the suffix-sum loop -/
theorem suf_loop (c : Cfg) : ∀ (k : Nat) (h : Array Nat), k < h.size → h.size < 2^64 → tot (wordAt h) (k + 1) < 2^64 →
    RS.forList (cowSufBody c) (List.range k).reverse h = .ok ((List.range k).reverse.foldl sufStep h) := by
  intro k
  induction k with
  | zero => intro h _ _ _; rfl
  | succ k ih =>
    intro h hk hsz htot
    rw [List.range_succ, List.reverse_append, List.reverse_singleton, List.singleton_append, forList_cons, List.foldl_cons]
    have hs : (sufStep h k).size = h.size := by simp [sufStep, Array.set!_eq_setIfInBounds]
    have hlow : ∀ m, m ≤ k → tot (wordAt (sufStep h k)) m = tot (wordAt h) m := by
      intro m hm
      apply tot_congr
      intro t ht
      rw [wordAt_sufStep h k t (by omega), if_neg (by omega)]
    have e1 : tot (wordAt (sufStep h k)) (k+1) = tot (wordAt h) (k+2) := by
      simp only [tot]
      rw [hlow k (Nat.le_refl _), wordAt_sufStep h k k (by omega), if_pos rfl]
      omega
    have hsum : wordAt h k + wordAt h (k+1) < 2^64 := by
      simp only [tot] at htot; omega
    have hstep : cowSufBody c k h = .ok (sufStep h k) := by
      unfold cowSufBody
      rw [cadd_ok c (by omega), bok, index_wordAt _ _ hk, bok, index_wordAt _ _ (by omega), bok, cadd_ok c hsum, bok,
        setIndex_ok _ _ _ (by omega), bok]
      rfl
    rw [hstep, bok]
    exact ih (sufStep h k) (by rw [hs]; omega) (by rw [hs]; exact hsz) (by rw [e1]; exact htot)

theorem tot_le_of_hist (k : Nat → Nat) (vals : List Nat) (hist : Array Nat) (n : Nat)
    (h : ∀ i, i < n → wordAt hist i = cntEq k vals i) : tot (wordAt hist) n ≤ vals.length := by
  rw [tot_congr (wordAt hist) (cntEq k vals) n h, tot_cntEq]
  have := cntLt_add_cntGe k vals n
  omega

/-- the two loops that fill `nums_ints` compute the model's `DacO.numsInts` -/
theorem nums_loops {β : Type} (c : Cfg) (vals : List Nat) (hv : ∀ v ∈ vals, v < 2^64) (hn : vals.length < 2^57) (W : Nat)
    (hW : W = SpecX.bitlen (vals.foldl max 0)) (k : Array Nat → R β) :
    (RS.forList (cowHistBody c) vals (Array.replicate (W + 1) 0)).bind (fun nums_ints3 =>
        (RS.forRangeRev 0 W nums_ints3 (cowSufBody c)).bind k)
      = k (DacO.numsInts c vals W) := by
  have hW64 : W ≤ 64 := by rw [hW]; exact DacsOptW.bitlen_le_64 _ (maxv_lt vals hv)
  have hkW : ∀ v ∈ vals, neededBits c v - 1 < W := by
    intro v hm
    have h1 := DacsOptW.bitlen_mono ((foldl_max_ge vals 0).2 v hm)
    have h2 := DacsOptW.bitlen_pos v
    rw [DacsOptW.neededBits_eq c v (hv v hm)]; omega
  rw [hist_loop c vals _ (fun x hx => ⟨hv x hx, by rw [Array.size_replicate]; have := hkW x hx; omega⟩)
    (fun i => by
      have : wordAt (Array.replicate (W + 1) 0) i = 0 := by
        simp only [wordAt, Array.getElem?_replicate]; split <;> rfl
      omega), bok, forRangeRev_zero]
  obtain ⟨h1, h2⟩ := hist_spec (fun x => neededBits c x - 1) vals (Array.replicate (W + 1) 0)
  generalize hh : vals.foldl (fun (h : Array Nat) x => h.modify (neededBits c x - 1) (· + 1)) (Array.replicate (W + 1) 0) = hist at h1 h2 ⊢
  rw [Array.size_replicate] at h1 h2
  have hhist : ∀ i, i < W + 1 → wordAt hist i = cntEq (fun x => neededBits c x - 1) vals i := by
    intro i hi
    rw [h2 i hi]
    simp [wordAt, hi]
  have htot := tot_le_of_hist _ vals hist (W + 1) hhist
  rw [suf_loop c W hist (by omega) (by omega) (by omega), bok, numsInts_eq_sufStep, hh]

/-! ## The tables `dp_s`, `dp_b` -/

theorem tab_index (W ml : Nat) (f : Nat → Nat → Nat) (j : Nat) (hj : j ≤ W) : RS.index (tab W ml f) j = .ok (row ml (f j)) :=
  index_of_get _ _ _ (tab_get W ml f j hj)
theorem row_index (ml : Nat) (g : Nat → Nat) (r : Nat) (hr : r < ml) : RS.index (row ml g) r = .ok (g r) :=
  index_of_get _ _ _ (row_get ml g r hr)
theorem index_Nf (N : Array Nat) (j : Nat) (h : j < N.size) : RS.index N j = .ok (Nf N j) := index_wordAt N j h

theorem upd_upd (f : Nat → Nat → Nat) (j r v v' : Nat) : upd (upd f j r v) j r v' = upd f j r v' := by
  funext j' r'
  unfold upd
  by_cases e : j' = j ∧ r' = r
  · rw [if_pos e, if_pos e]
  · rw [if_neg e, if_neg e, if_neg e]

theorem upd_same (f : Nat → Nat → Nat) (j r v : Nat) : upd f j r v j r = v := by
  unfold upd; rw [if_pos ⟨rfl, rfl⟩]
theorem upd_other (f : Nat → Nat → Nat) (j r v j' r' : Nat) (h : ¬ (j' = j ∧ r' = r)) : upd f j r v j' r' = f j' r' := by
  unfold upd; rw [if_neg h]

/-- the cost the inner loop forms for `b` -/
def costF (W : Nat) (N : Array Nat) (r' j : Nat) : Nat → Nat := fun b => (b+1) * Nf N j + DP.S W (Nf N) r' (j+b)

/-- state of the tables while level `r'+1` is being filled, after rows `j < k` -/
def lvl (g : Nat → Nat → Nat) (r' k : Nat) : Nat → Nat → Nat :=
  fun j r => if r ≤ r' then g r j else if r = r' + 1 ∧ j < k then g r j else 0

theorem upd_lvl (W ml : Nat) (g : Nat → Nat → Nat) (r' k : Nat) :
    tab W ml (upd (lvl g r' k) k (r'+1) (g (r'+1) k)) = tab W ml (lvl g r' (k+1)) := by
  apply tab_congr
  intro j r _ _
  unfold upd lvl
  by_cases e : j = k ∧ r = r' + 1
  · obtain ⟨rfl, rfl⟩ := e
    rw [if_pos ⟨rfl, rfl⟩, if_neg (by omega), if_pos ⟨rfl, by omega⟩]
  · rw [if_neg e]
    by_cases e1 : r ≤ r'
    · rw [if_pos e1, if_pos e1]
    · rw [if_neg e1, if_neg e1]
      by_cases e2 : r = r' + 1
      · have : ¬ j = k := fun h => e ⟨h, e2⟩
        by_cases e3 : j < k
        · rw [if_pos ⟨e2, e3⟩, if_pos ⟨e2, by omega⟩]
        · rw [if_neg (fun h => e3 h.2), if_neg (fun h => by have := h.2; omega)]
      · rw [if_neg (fun h => e2 h.1), if_neg (fun h => e2 h.1)]

theorem lvl_next (W ml : Nat) (g : Nat → Nat → Nat) (hg : ∀ r, g r W = 0) (r' : Nat) :
    tab W ml (lvl g r' W) = tab W ml (lvl g (r'+1) 0) := by
  apply tab_congr
  intro j r hj _
  unfold lvl
  by_cases e1 : r ≤ r'
  · rw [if_pos e1, if_pos (by omega)]
  · rw [if_neg e1]
    by_cases e2 : r = r' + 1
    · rw [if_pos (by omega : r ≤ r' + 1)]
      by_cases e3 : j < W
      · rw [if_pos ⟨e2, e3⟩]
      · rw [if_neg (fun h => e3 h.2)]
        have : j = W := by omega
        rw [this, hg]
    · rw [if_neg (fun h => e2 h.1), if_neg (by omega), if_neg (by omega)]

section Tables
variable (c : Cfg) (W ml : Nat) (N : Array Nat) (hN : N.size = W + 1) (hW64 : W ≤ 64) (hsmall : DPB.SmallB W (Nf N))
include hN hW64 hsmall

/-- one iteration of the initialisation loop -/
theorem init_step (hml : 1 ≤ ml) (k : Nat) (hk : k < W) (fS fB : Nat → Nat → Nat) :
    cowInitBody c W N k (tab W ml fS, tab W ml fB)
      = .ok (tab W ml (upd fS k 0 (DP.S W (Nf N) 0 k)), tab W ml (upd fB k 0 (DP.B W (Nf N) 0 k))) := by
  have hb := hsmall 0 k (W - k) hk (by omega) (Nat.le_refl _)
  have hle : (W - k) * Nf N k ≤ (W - k + 1) * Nf N k := Nat.mul_le_mul_right _ (by omega)
  unfold cowInitBody
  dsimp only
  rw [csub_ok c (by omega : k ≤ W), bok, index_Nf N k (by omega), bok, cmul_ok c (by omega), bok,
    tab_write W ml fS k 0 _ (by omega) (by omega), bok,
    tab_write W ml fB k 0 _ (by omega) (by omega)]
  rfl

/-- the initialisation loop -/
theorem init_loop (hml : 1 ≤ ml) :
    RS.forRange 0 W (tab W ml (fun _ _ => 0), tab W ml (fun _ _ => 0)) (cowInitBody c W N)
      = .ok (tab W ml (fun j r => if r = 0 then DP.S W (Nf N) 0 j else 0),
             tab W ml (fun j r => if r = 0 then DP.B W (Nf N) 0 j else 0)) := by
  have h := forRange_exact (cowInitBody c W N)
    (fun k => (tab W ml (fun j r => if j < k ∧ r = 0 then DP.S W (Nf N) 0 j else 0),
               tab W ml (fun j r => if j < k ∧ r = 0 then DP.B W (Nf N) 0 j else 0))) 0 W (Nat.zero_le _)
    (by
      intro k _ hk
      rw [init_step c W ml N hN hW64 hsmall hml k hk]
      congr 2
      · apply tab_congr
        intro j r _ _
        unfold upd
        by_cases e : j = k ∧ r = 0
        · obtain ⟨rfl, rfl⟩ := e; simp
        · rw [if_neg e]
          by_cases e2 : r = 0
          · have : ¬ j = k := fun h => e ⟨h, e2⟩
            have h1 : (j < k + 1) ↔ j < k := by omega
            simp [e2, h1]
          · simp [e2]
      · apply tab_congr
        intro j r _ _
        unfold upd
        by_cases e : j = k ∧ r = 0
        · obtain ⟨rfl, rfl⟩ := e; simp
        · rw [if_neg e]
          by_cases e2 : r = 0
          · have : ¬ j = k := fun h => e ⟨h, e2⟩
            have h1 : (j < k + 1) ↔ j < k := by omega
            simp [e2, h1]
          · simp [e2])
  have e0 : ∀ g : Nat → Nat, tab W ml (fun j r => if j < 0 ∧ r = 0 then g j else 0) = tab W ml (fun _ _ => 0) := by
    intro g; apply tab_congr; intro j r _ _; simp
  have eW : ∀ g : Nat → Nat, g W = 0 →
      tab W ml (fun j r => if j < W ∧ r = 0 then g j else 0) = tab W ml (fun j r => if r = 0 then g j else 0) := by
    intro g hg; apply tab_congr; intro j r hj _
    by_cases e : j < W
    · simp [e]
    · have : j = W := by omega
      subst this; simp [hg]
  rw [e0, e0, eW _ (DPB.S_ge W (Nf N) 0 W (Nat.le_refl _)), eW _ (DPB.B_ge W (Nf N) 0 W (Nat.le_refl _))] at h
  exact h

/-- one iteration of `for b in 1..=num_bits - j` at level `r'+1`, row `j` -/
theorem inner_step (j r' b : Nat) (hj : j < W) (hb1 : 1 ≤ b) (hb2 : b ≤ W - j) (hr : r' + 1 < ml) (fS fB : Nat → Nat → Nat)
    (hprev : fS (j + b) r' = DP.S W (Nf N) r' (j + b)) :
    cowInnerBody c N j (r'+1) b (tab W ml fS, tab W ml fB)
      = .ok (if costF W N r' j b ≤ fS j (r'+1)
          then (tab W ml (upd fS j (r'+1) (costF W N r' j b)), tab W ml (upd fB j (r'+1) b))
          else (tab W ml fS, tab W ml fB)) := by
  have hs := hsmall r' j b hj hb1 hb2
  unfold cowInnerBody costF
  dsimp only
  rw [cadd_ok c (by omega : b + 1 < 2^64), bok, index_Nf N j (by omega), bok, cmul_ok c (by omega), bok,
    cadd_ok c (by omega : j + b < 2^64), bok, tab_index W ml fS (j+b) (by omega), bok, csub_ok c (by omega : 1 ≤ r' + 1), bok,
    row_index ml _ (r' + 1 - 1) (by omega), bok, show r' + 1 - 1 = r' by omega, hprev, cadd_ok c (by omega), bok,
    tab_read W ml fS j (r'+1) (by omega) hr]
  by_cases hle : (b + 1) * Nf N j + DP.S W (Nf N) r' (j + b) ≤ fS j (r' + 1)
  · rw [if_pos hle, if_pos hle, tab_write W ml fS j (r'+1) _ (by omega) hr, tab_write W ml fB j (r'+1) _ (by omega) hr, bok]
  · rw [if_neg hle, if_neg hle, bok]

/-- the loop `for b in 1..=num_bits - j` computes `DP.scan` -/
theorem inner_loop (j r' : Nat) (hj : j < W) (hr : r' + 1 < ml) (fS fB : Nat → Nat → Nat)
    (hprev : ∀ b, 1 ≤ b → b ≤ W - j → fS (j + b) r' = DP.S W (Nf N) r' (j + b)) :
    RS.forRange 1 (W - j + 1) (tab W ml (upd fS j (r'+1) RS.MAX), tab W ml (upd fB j (r'+1) 0)) (cowInnerBody c N j (r'+1))
      = .ok (tab W ml (upd fS j (r'+1) (DP.S W (Nf N) (r'+1) j)), tab W ml (upd fB j (r'+1) (DP.B W (Nf N) (r'+1) j))) := by
  have h := forRange_exact (cowInnerBody c N j (r'+1))
    (fun k => (tab W ml (upd fS j (r'+1) (DP.scan (costF W N r' j) (k - 1)).1),
               tab W ml (upd fB j (r'+1) (DP.scan (costF W N r' j) (k - 1)).2))) 1 (W - j + 1) (by omega)
    (by
      intro k hk1 hk2
      obtain ⟨k', rfl⟩ : ∃ k', k = k' + 1 := ⟨k - 1, by omega⟩
      rw [inner_step c W ml N hN hW64 hsmall j r' (k'+1) hj (by omega) (by omega) hr _ _
        (by rw [upd_other _ _ _ _ _ _ (by omega)]; exact hprev (k'+1) (by omega) (by omega))]
      rw [upd_same, upd_upd, upd_upd, show k' + 1 - 1 = k' by omega, show k' + 1 + 1 - 1 = k' + 1 by omega]
      simp only [DP.scan]
      by_cases hle : costF W N r' j (k'+1) ≤ (DP.scan (costF W N r' j) k').1
      · rw [if_pos hle, if_pos hle]
      · rw [if_neg hle, if_neg hle])
  have hS : DP.S W (Nf N) (r'+1) j = (DP.scan (costF W N r' j) (W - j)).1 := by
    simp only [DP.S, hj, if_true]; rfl
  have hB : DP.B W (Nf N) (r'+1) j = (DP.scan (costF W N r' j) (W - j)).2 := by
    simp only [DP.B, hj, if_true]; rfl
  rw [hS, hB]
  exact h

/-- one iteration of `for j in 0..num_bits` at level `r'+1` -/
theorem mid_step (j r' : Nat) (hj : j < W) (hr : r' + 1 < ml) (fS fB : Nat → Nat → Nat)
    (hprev : ∀ b, 1 ≤ b → b ≤ W - j → fS (j + b) r' = DP.S W (Nf N) r' (j + b)) (hB0 : fB j (r'+1) = 0) :
    cowMidBody c W N (r'+1) j (tab W ml fS, tab W ml fB)
      = .ok (tab W ml (upd fS j (r'+1) (DP.S W (Nf N) (r'+1) j)), tab W ml (upd fB j (r'+1) (DP.B W (Nf N) (r'+1) j))) := by
  have e0 : tab W ml fB = tab W ml (upd fB j (r'+1) 0) := by
    apply tab_congr; intro j' r'' _ _
    unfold upd
    by_cases e : j' = j ∧ r'' = r' + 1
    · rw [if_pos e, e.1, e.2, hB0]
    · rw [if_neg e]
  unfold cowMidBody
  dsimp only
  rw [tab_write W ml fS j (r'+1) _ (by omega) hr, csub_ok c (by omega : j ≤ W), bok, e0,
    inner_loop c W ml N hN hW64 hsmall j r' hj hr fS fB hprev, bok]

/-- the loop `for j in 0..num_bits` at level `r'+1` -/
theorem mid_loop (r' : Nat) (hr : r' + 1 < ml) :
    RS.forRange 0 W (tab W ml (lvl (DP.S W (Nf N)) r' 0), tab W ml (lvl (DP.B W (Nf N)) r' 0)) (cowMidBody c W N (r'+1))
      = .ok (tab W ml (lvl (DP.S W (Nf N)) r' W), tab W ml (lvl (DP.B W (Nf N)) r' W)) := by
  apply forRange_exact (cowMidBody c W N (r'+1))
    (fun k => (tab W ml (lvl (DP.S W (Nf N)) r' k), tab W ml (lvl (DP.B W (Nf N)) r' k))) 0 W (Nat.zero_le _)
  intro k _ hk
  rw [mid_step c W ml N hN hW64 hsmall k r' hk hr _ _
    (by intro b _ _; unfold lvl; rw [if_pos (Nat.le_refl _)])
    (by unfold lvl; rw [if_neg (by omega), if_neg (by omega)]),
    upd_lvl W ml, upd_lvl W ml]

/-- one iteration of `for r in 1..max_levels` -/
theorem outer_step (r' : Nat) (hr : r' + 1 < ml) :
    cowOuterBody c W N (r'+1) (tab W ml (lvl (DP.S W (Nf N)) r' 0), tab W ml (lvl (DP.B W (Nf N)) r' 0))
      = .ok (tab W ml (lvl (DP.S W (Nf N)) (r'+1) 0), tab W ml (lvl (DP.B W (Nf N)) (r'+1) 0)) := by
  unfold cowOuterBody
  dsimp only
  rw [mid_loop c W ml N hN hW64 hsmall r' hr, bok]
  dsimp only
  rw [lvl_next W ml _ (fun r => DPB.S_ge W (Nf N) r W (Nat.le_refl _)),
    lvl_next W ml _ (fun r => DPB.B_ge W (Nf N) r W (Nat.le_refl _))]

/-- the three nested loops fill the tables with `DP.S`, `DP.B` -/
theorem outer_loop (hml : 1 ≤ ml) :
    RS.forRange 1 ml (tab W ml (fun j r => if r = 0 then DP.S W (Nf N) 0 j else 0),
                      tab W ml (fun j r => if r = 0 then DP.B W (Nf N) 0 j else 0)) (cowOuterBody c W N)
      = .ok (tab W ml (fun j r => DP.S W (Nf N) r j), tab W ml (fun j r => DP.B W (Nf N) r j)) := by
  have h := forRange_exact (cowOuterBody c W N)
    (fun k => (tab W ml (lvl (DP.S W (Nf N)) (k - 1) 0), tab W ml (lvl (DP.B W (Nf N)) (k - 1) 0))) 1 ml hml
    (by
      intro k hk1 hk2
      obtain ⟨k', rfl⟩ : ∃ k', k = k' + 1 := ⟨k - 1, by omega⟩
      rw [show k' + 1 - 1 = k' by omega, show k' + 1 + 1 - 1 = k' + 1 by omega]
      exact outer_step c W ml N hN hW64 hsmall k' hk2)
  have e1 : ∀ g : Nat → Nat → Nat, tab W ml (lvl g (1 - 1) 0) = tab W ml (fun j r => if r = 0 then g 0 j else 0) := by
    intro g; apply tab_congr; intro j r _ _
    unfold lvl
    by_cases e : r = 0
    · subst e; simp
    · rw [if_neg (by omega), if_neg (by omega), if_neg e]
  have e2 : ∀ g : Nat → Nat → Nat, tab W ml (lvl g (ml - 1) 0) = tab W ml (fun j r => g r j) := by
    intro g; apply tab_congr; intro j r _ hr
    unfold lvl
    rw [if_pos (by omega)]
  rw [e1, e1, e2, e2] at h
  exact h

end Tables

/-! ## `min_level_idx`, the reconstruction loop, the final assertions -/

theorem min_loop (W ml : Nat) (g : Nat → Nat → Nat) (hml : 1 ≤ ml) :
    RS.forRange 1 ml 0 (cowMinBody (tab W ml (fun j r => g r j))) = .ok (amin (fun r => g r 0) ml) := by
  have h := forRange_exact (cowMinBody (tab W ml (fun j r => g r j))) (fun k => amin (fun r => g r 0) k) 1 ml hml
    (by
      intro k hk1 hk2
      have hlt := (amin_spec (fun r => g r 0) k hk1).1
      unfold cowMinBody
      rw [tab_read W ml _ 0 k (Nat.zero_le _) hk2, tab_read W ml _ 0 _ (Nat.zero_le _) (by omega)]
      simp only [amin]
      by_cases e : g k 0 < g (amin (fun r => g r 0) k) 0
      · rw [if_pos e, if_pos ⟨by omega, e⟩, bok]
      · rw [if_neg e, if_neg (fun h => e h.2), bok])
  have e1 : amin (fun r => g r 0) 1 = 0 := by simp [amin]
  rw [e1] at h
  exact h

theorem B_bounds (W : Nat) (N : Nat → Nat) (hs : DPB.SmallB W N) (R j : Nat) (hj : j < W) :
    1 ≤ DP.B W N R j ∧ j + DP.B W N R j ≤ W := by
  have h := (DPB.recon_props W N hs R j hj).1
  cases R with
  | zero => simp only [DP.B]; omega
  | succ R =>
    simp only [DP.recon, hj, if_true] at h
    exact ⟨h.1, h.2.1⟩

theorem index_set!_same (ws : Array Nat) (r v : Nat) (h : r < ws.size) : RS.index (ws.set! r v) r = .ok v := by
  apply index_of_get
  rw [Array.set!_eq_setIfInBounds, Array.getElem?_setIfInBounds, if_pos rfl, if_pos h]

section Recon
variable (c : Cfg) (W ml : Nat) (N : Nat → Nat) (hW64 : W ≤ 64) (hml64 : ml ≤ 64) (hs : DPB.SmallB W N)
include hW64 hml64 hs

/-- one iteration of `while j < num_bits` -/
theorem recon_step (nl : Nat) (hnl : nl ≤ ml) (ws : Array Nat) (j r : Nat) (hj : j < W) (hr : r < ws.size) (hrl : r < nl) :
    cowReconBody c (tab W ml (fun j r => DP.B W N r j)) nl (ws, j, r)
      = .ok (ws.set! r (DP.B W N (nl - r - 1) j), j + DP.B W N (nl - r - 1) j, r + 1) := by
  have hb := B_bounds W N hs (nl - r - 1) j hj
  unfold cowReconBody
  dsimp only
  rw [tab_index W ml _ j (by omega), bok, csub_ok c (by omega : r ≤ nl), bok, csub_ok c (by omega : 1 ≤ nl - r), bok,
    row_index ml _ (nl - r - 1) (by omega), bok, setIndex_ok _ _ _ hr, bok, index_set!_same _ _ _ hr, bok,
    cadd_ok c (by omega), bok, cadd_ok c (by omega), bok]

theorem recon_loop (nl : Nat) (hnl : nl ≤ ml) :
    ∀ (R j r : Nat) (pre suf : List Nat) (ws : Array Nat) (fuel : Nat),
      r + R + 1 = nl → ws.toList = pre ++ suf → pre.length = r → R + 1 ≤ suf.length → R + 2 ≤ fuel →
      ∃ ws', RS.whileFuel (cowReconCond W) (cowReconBody c (tab W ml (fun j r => DP.B W N r j)) nl) fuel (ws, j, r)
          = .ok (ws', j + (DP.recon W N R j).sum, r + (DP.recon W N R j).length) ∧
        ws'.toList = pre ++ DP.recon W N R j ++ suf.drop (DP.recon W N R j).length := by
  intro R
  induction R with
  | zero =>
    intro j r pre suf ws fuel hr hws hpre hsuf hfuel
    obtain ⟨fuel, rfl⟩ : ∃ f, fuel = f + 1 := ⟨fuel - 1, by omega⟩
    have hsz : ws.size = pre.length + suf.length := by rw [← Array.length_toList, hws, List.length_append]
    have hc : cowReconCond W (ws, j, r) = .ok (decide (j < W)) := rfl
    rw [whileFuel_succ, hc, bok]
    by_cases hj : j < W
    · have hrs : r < ws.size := by omega
      have hidx : nl - r - 1 = 0 := by omega
      obtain ⟨fuel, rfl⟩ : ∃ f, fuel = f + 1 := ⟨fuel - 1, by omega⟩
      have hc2 : cowReconCond W (ws.set! r (DP.B W N 0 j), j + DP.B W N 0 j, r + 1) = .ok (decide (j + DP.B W N 0 j < W)) := rfl
      have hB0 : DP.B W N 0 j = W - j := rfl
      rw [decide_eq_true hj, if_pos rfl, recon_step c W ml N hW64 hml64 hs nl hnl ws j r hj hrs (by omega), bok, hidx,
        whileFuel_succ, hc2, bok, decide_eq_false (by omega), if_neg (by simp)]
      refine ⟨ws.set! r (W - j), ?_, ?_⟩
      · simp only [DP.recon, hj, if_true, hB0, List.sum_cons, List.sum_nil, List.length_cons, List.length_nil, Nat.add_zero]
      · simp only [DP.recon, hj, if_true, Array.set!_eq_setIfInBounds, Array.toList_setIfInBounds, hws,
          List.length_cons, List.length_nil]
        rw [List.set_append_right _ _ (by omega)]
        cases suf with
        | nil => simp at hsuf
        | cons s suf' =>
          have : r - pre.length = 0 := by omega
          rw [this]; simp
    · rw [decide_eq_false hj, if_neg (by simp)]
      refine ⟨ws, ?_, ?_⟩
      · simp only [DP.recon, hj, if_false, List.length_nil, List.sum_nil, Nat.add_zero]
      · simp only [DP.recon, hj, if_false, List.length_nil, List.drop_zero, List.append_nil, hws]
  | succ R ih =>
    intro j r pre suf ws fuel hr hws hpre hsuf hfuel
    obtain ⟨fuel, rfl⟩ : ∃ f, fuel = f + 1 := ⟨fuel - 1, by omega⟩
    have hsz : ws.size = pre.length + suf.length := by rw [← Array.length_toList, hws, List.length_append]
    have hc : cowReconCond W (ws, j, r) = .ok (decide (j < W)) := rfl
    rw [whileFuel_succ, hc, bok]
    by_cases hj : j < W
    · have hrs : r < ws.size := by omega
      have hidx : nl - r - 1 = R + 1 := by omega
      rw [decide_eq_true hj, if_pos rfl, recon_step c W ml N hW64 hml64 hs nl hnl ws j r hj hrs (by omega), bok, hidx]
      cases suf with
      | nil => simp at hsuf
      | cons s suf' =>
        have hset : (ws.set! r (DP.B W N (R+1) j)).toList = (pre ++ [DP.B W N (R+1) j]) ++ suf' := by
          rw [Array.set!_eq_setIfInBounds, Array.toList_setIfInBounds, hws, List.set_append_right _ _ (by omega)]
          have : r - pre.length = 0 := by omega
          rw [this]; simp
        obtain ⟨ws', e1, e2⟩ := ih (j + DP.B W N (R+1) j) (r+1) (pre ++ [DP.B W N (R+1) j]) suf'
          (ws.set! r (DP.B W N (R+1) j)) fuel (by omega) hset (by simp; omega)
          (by simp only [List.length_cons] at hsuf; omega) (by omega)
        refine ⟨ws', ?_, ?_⟩
        · rw [e1]
          simp only [DP.recon, hj, if_true, List.length_cons, List.sum_cons]
          congr 3
          · omega
          · omega
        · rw [e2]
          simp only [DP.recon, hj, if_true, List.length_cons, List.drop_succ_cons, List.append_assoc,
            List.singleton_append]
    · rw [decide_eq_false hj, if_neg (by simp)]
      refine ⟨ws, ?_, ?_⟩
      · simp only [DP.recon, hj, if_false, List.length_nil, List.sum_nil, Nat.add_zero]
      · simp only [DP.recon, hj, if_false, List.length_nil, List.drop_zero, List.append_nil, hws]

end Recon

/-- `widths.iter().sum()` without overflow -/
theorem sum_loop (c : Cfg) : ∀ (l : List Nat) (acc : Nat), acc + l.sum < 2^64 →
    l.foldlM (fun a x => cadd c a x) acc = .ok (acc + l.sum) := by
  intro l
  induction l with
  | nil => intro acc _; rfl
  | cons x t ih =>
    intro acc h
    simp only [List.sum_cons] at h
    rw [List.foldlM_cons]
    show (cadd c acc x).bind _ = _
    rw [cadd_ok c (by omega), bok, ih (acc + x) (by omega), List.sum_cons, Nat.add_assoc]

theorem sum_ok (c : Cfg) (v : Array Nat) (h : v.toList.sum < 2^64) : RS.sum c v = .ok v.toList.sum := by
  unfold RS.sum
  rw [sum_loop c v.toList 0 (by omega), Nat.zero_add]

theorem assert_ok (b : Bool) (h : b = true) : RS.assert b = .ok () := by subst h; rfl

/-- `min_level_idx`, the reconstruction and the three `assert_eq!`, on the filled tables -/
theorem tail_ok (c : Cfg) (W ml : Nat) (N : Nat → Nat) (hW1 : 1 ≤ W) (hW64 : W ≤ 64) (hml : 1 ≤ ml) (hmlW : ml ≤ W)
    (hs : DPB.SmallB W N) (hN1 : ∀ i, i < W → 1 ≤ N i) :
    cowTail c W ml (tab W ml (fun j r => DP.S W N r j), tab W ml (fun j r => DP.B W N r j))
      = .ok (DP.recon W N (amin (fun r => DP.S W N r 0) ml) 0).toArray := by
  obtain ⟨m1, m2, m3⟩ := amin_spec (fun r => DP.S W N r 0) ml hml
  generalize hm : amin (fun r => DP.S W N r 0) ml = m at m1 m2 m3
  obtain ⟨c1, c2, c3, _⟩ := DPB.recon_props W N hs m 0 (by omega)
  have hfull := DPB.recon_full W N hs hN1 (by omega) m m2
  have hcomp := (DPB.comp_iff W (DP.recon W N m 0) 0).1 c1
  obtain ⟨ws', e1, e2⟩ := recon_loop c W ml N hW64 (by omega) hs (m+1) (by omega) m 0 0 [] (List.replicate (m+1) 0)
    (Array.replicate (m+1) 0) RS.FUEL (by omega) (by simp) rfl (by simp) (by rw [FUEL_eq]; omega)
  rw [hfull] at e1 e2
  simp only [List.drop_replicate, Nat.sub_self, List.replicate_zero, List.append_nil, List.nil_append] at e2
  unfold cowTail
  dsimp only
  rw [min_loop W ml (DP.S W N) hml, bok, hm, cadd_ok c (by omega), bok, whileLoop_eq, e1, bok]
  dsimp only
  rw [assert_ok _ (by simp; omega), bok, assert_ok _ (by simp), bok, sum_ok c ws' (by rw [e2]; omega), bok,
    assert_ok _ (by rw [e2]; simp; omega), bok]
  congr 1
  rw [← e2]

/-- the dynamic program on the model's `nums_ints` -/
theorem dp_ok (c : Cfg) (vals : Array Nat) (W ml : Nat) (N : Array Nat) (hN : N.size = W + 1)
    (hN0 : wordAt N 0 = vals.size) (hNW : wordAt N W = 0)
    (hW1 : 1 ≤ W) (hW64 : W ≤ 64) (hml : 1 ≤ ml) (hmlW : ml ≤ W)
    (hs : DPB.SmallB W (Nf N)) (hN1 : ∀ i, i < W → 1 ≤ Nf N i) :
    cowDP c vals W ml N = .ok (DP.recon W (Nf N) (amin (fun r => DP.S W (Nf N) r 0) ml) 0).toArray := by
  have hback : N.back? = some (wordAt N W) := by
    simp [Array.back?, hN, wordAt]
  unfold cowDP
  rw [index_wordAt N 0 (by omega), bok, dassert_ok c (by simp [hN0]), bok, hback]
  show (Except.ok (wordAt N W) : R Nat).bind _ = _
  rw [bok, dassert_ok c (by simp [hNW]), bok, cadd_ok c (by omega), bok, bok]
  dsimp only
  rw [tab_replicate, init_loop c W ml N hN hW64 hs hml, bok]
  dsimp only
  rw [outer_loop c W ml N hN hW64 hs hml, bok, tail_ok c W ml (Nf N) hW1 hW64 hml hmlW hs hN1]

/-! ## The two values -/

/-- the facts about the input shared by both sides -/
theorem input_facts (c : Cfg) (vals : List Nat) (hne : vals ≠ []) (hv : ∀ v ∈ vals, v < 2^64) (hn : vals.length < 2^57)
    (W : Nat) (hW : W = SpecX.bitlen (vals.foldl max 0)) :
    1 ≤ W ∧ W ≤ 64 ∧ (DacO.numsInts c vals W).size = W + 1 ∧
      Nf (DacO.numsInts c vals W) = Ncount vals ∧ DPB.SmallB W (Nf (DacO.numsInts c vals W)) ∧
      (∀ i, i < W → 1 ≤ Nf (DacO.numsInts c vals W) i) := by
  subst hW
  obtain ⟨hsz, hNspec⟩ := numsInts_spec c vals hv
  have hNf : Nf (DacO.numsInts c vals (SpecX.bitlen (vals.foldl max 0))) = Ncount vals := by funext j; exact hNspec j
  have hW64 := DacsOptW.bitlen_le_64 _ (maxv_lt vals hv)
  refine ⟨DacsOptW.bitlen_pos _, hW64, hsz, hNf, ?_, ?_⟩
  · apply DPB.smallB_of_bound _ _ vals.length _ hW64 hn
    intro j; rw [hNf]; exact Ncount_le vals j
  · rw [hNf]; exact Ncount_pos vals hne

/-- value of the generated function -/
theorem gen_val (c : Cfg) (vals : Array Nat) (L : Nat) (hne : vals.size ≠ 0) (hL : 1 ≤ L)
    (hv : ∀ x ∈ vals, x < 2^64) (hn : vals.size < 2^57) (W : Nat) (hW : W = SpecX.bitlen (vals.toList.foldl max 0)) :
    GenFn.DacsOpt.compute_opt_widths c vals L
      = .ok (DP.recon W (Nf (DacO.numsInts c vals.toList W))
          (amin (fun r => DP.S W (Nf (DacO.numsInts c vals.toList W)) r 0) (min L W)) 0).toArray := by
  have hv' : ∀ v ∈ vals.toList, v < 2^64 := fun v h => hv v (Array.mem_toList_iff.mp h)
  have hne' : vals.toList ≠ [] := by
    intro h; apply hne; rw [← Array.length_toList, h]; rfl
  have hn' : vals.toList.length < 2^57 := by rw [Array.length_toList]; exact hn
  obtain ⟨hW1, hW64, hsz, hNf, hs, hN1⟩ := input_facts c vals.toList hne' hv' hn' W hW
  have hN0 : wordAt (DacO.numsInts c vals.toList W) 0 = vals.size := by
    show Nf (DacO.numsInts c vals.toList W) 0 = _
    rw [hNf, Ncount_zero, Array.length_toList]
  have hNW : wordAt (DacO.numsInts c vals.toList W) W = 0 := by
    show Nf (DacO.numsInts c vals.toList W) W = _
    rw [hNf]; exact Ncount_top _ _ (by omega)
  have hmax := maxv_lt vals.toList hv'
  rw [compute_opt_widths_unfold, assert_ok _ (by simp [hne]), bok, assert_ok _ (by simp; omega), bok, max_loop, bok,
    needed_bits_eq c _ hmax, bok, DacsOptW.neededBits_eq c _ hmax, ← hW]
  dsimp only
  rw [cadd_ok c (by omega), bok, nums_loops c vals.toList hv' hn' W hW]
  exact dp_ok c vals W (min L W) _ hsz hN0 hNW hW1 hW64 (by omega) (by omega) hs hN1

/-- value of the model -/
theorem model_val (c : Cfg) (vals : List Nat) (L : Nat) (hne : vals ≠ []) (hL : 1 ≤ L)
    (hv : ∀ x ∈ vals, x < 2^64) (hn : vals.length < 2^57) (W : Nat) (hW : W = SpecX.bitlen (vals.foldl max 0)) :
    DacO.optWidths c vals L
      = .ok (DP.recon W (Nf (DacO.numsInts c vals W)) (amin (fun r => DP.S W (Nf (DacO.numsInts c vals W)) r 0) (min L W)) 0) := by
  obtain ⟨hW1, hW64, hsz, hNf, hs, hN1⟩ := input_facts c vals hne hv hn W hW
  have hNB : neededBits c (vals.foldl max 0) = W := by rw [hW]; exact DacsOptW.neededBits_eq c _ (maxv_lt vals hv)
  rw [optWidths_unfold c vals L W hNB]
  generalize hNdef : DacO.numsInts c vals W = N at hs hN1 ⊢
  have hml : 1 ≤ min L W := by omega
  have hmin := minLevel_eq (DacO.dpTables N W (min L W)).1 (fun r => DP.S W (Nf N) r 0) (min L W)
    (fun r hr => dpTables_S N W (min L W) r 0 hr) (min L W) (Nat.le_refl _)
  rw [hmin]
  obtain ⟨m1, m2, m3⟩ := amin_spec (fun r => DP.S W (Nf N) r 0) (min L W) hml
  generalize hmdef : amin (fun r => DP.S W (Nf N) r 0) (min L W) = m at m1 m2 m3 ⊢
  obtain ⟨c1, c2, c3, _⟩ := DPB.recon_props W (Nf N) hs m 0 (by omega)
  have hfull := DPB.recon_full W (Nf N) hs hN1 (by omega) m m2
  have hcomp := (DPB.comp_iff W (DP.recon W (Nf N) m 0) 0).1 c1
  obtain ⟨ws', e1, e2⟩ := recon_eq (DacO.dpTables N W (min L W)).2 W (m+1) (Nf N)
    (fun r j hr => dpTables_B N W (min L W) r j (by omega)) m 0 0 [] (List.replicate (m+1) 0)
    (Array.replicate (m+1) 0) (W+1) (by omega) (by simp) rfl (by simp) (by omega)
  rw [hfull] at e1 e2
  simp only [List.drop_replicate, Nat.sub_self, List.replicate_zero, List.append_nil, List.nil_append] at e2
  rw [e1, bok]
  have hsum : 0 + (DP.recon W (Nf N) m 0).sum = W := hcomp.2
  have h1 : ¬ (0 + (DP.recon W (Nf N) m 0).sum ≠ W) := by omega
  have h2 : ¬ (0 + (m + 1) ≠ m + 1) := by omega
  have h3 : ¬ (ws'.toList.sum ≠ W) := by rw [e2]; omega
  simp only [h1, h2, h3, if_false]
  rw [e2]

end Sucds.GenEq.Cow

namespace Sucds.GenEq
open Sucds Sucds.DacsOptW

/-- **`DacsOpt::compute_opt_widths` (generated) = `DacO.optWidths` (model)**, every build configuration -/
theorem compute_opt_widths_eq' (c : Cfg) (vals : Array Nat) (L : Nat) (hne : vals.size ≠ 0) (hL : 1 ≤ L)
    (hv : ∀ x ∈ vals, x < 2^64) (hn : vals.size < 2^57) :
    GenFn.DacsOpt.compute_opt_widths c vals L = (DacO.optWidths c vals.toList L).map List.toArray := by
  have hv' : ∀ v ∈ vals.toList, v < 2^64 := fun v h => hv v (Array.mem_toList_iff.mp h)
  have hne' : vals.toList ≠ [] := by
    intro h; apply hne; rw [← Array.length_toList, h]; rfl
  have hn' : vals.toList.length < 2^57 := by rw [Array.length_toList]; exact hn
  rw [Cow.gen_val c vals L hne hL hv hn _ rfl, Cow.model_val c vals.toList L hne' hL hv' hn' _ rfl]
  rfl

/-- the same under the requested signature (`_hL64`, true of every `usize`, is not used) -/
theorem compute_opt_widths_eq (c : Cfg) (vals : Array Nat) (L : Nat) (hne : vals.size ≠ 0) (hL : 1 ≤ L) (_hL64 : L < 2^64)
    (hv : ∀ x ∈ vals, x < 2^64) (hn : vals.size < 2^57) :
    GenFn.DacsOpt.compute_opt_widths c vals L = (DacO.optWidths c vals.toList L).map List.toArray :=
  compute_opt_widths_eq' c vals L hne hL hv hn

/-- the same with the result as a list -/
theorem compute_opt_widths_toList (c : Cfg) (vals : Array Nat) (L : Nat) (hne : vals.size ≠ 0) (hL : 1 ≤ L)
    (hv : ∀ x ∈ vals, x < 2^64) (hn : vals.size < 2^57) :
    (GenFn.DacsOpt.compute_opt_widths c vals L).map Array.toList = DacO.optWidths c vals.toList L := by
  have hv' : ∀ v ∈ vals.toList, v < 2^64 := fun v h => hv v (Array.mem_toList_iff.mp h)
  have hne' : vals.toList ≠ [] := by
    intro h; apply hne; rw [← Array.length_toList, h]; rfl
  have hn' : vals.toList.length < 2^57 := by rw [Array.length_toList]; exact hn
  rw [Cow.gen_val c vals L hne hL hv hn _ rfl, Cow.model_val c vals.toList L hne' hL hv' hn' _ rfl]
  rfl

/-- the model does not depend on `max_levels` beyond 64 -/
theorem optWidths_cap (c : Cfg) (vals : List Nat) (L : Nat) (hv : ∀ x ∈ vals, x < 2^64) :
    DacO.optWidths c vals L = DacO.optWidths c vals (min L 64) := by
  have hW := DacsOptW.bitlen_le_64 _ (maxv_lt vals hv)
  have hNB := DacsOptW.neededBits_eq c _ (maxv_lt vals hv)
  rw [optWidths_unfold c vals L _ hNB, optWidths_unfold c vals (min L 64) _ hNB,
    show min (min L 64) (SpecX.bitlen (vals.foldl max 0)) = min L (SpecX.bitlen (vals.foldl max 0)) by omega]

/-- **C18 for the generated function**: for every build configuration, every non-empty slice of 64-bit values with
    fewer than `2^57` elements and every `max_levels ≥ 1`, the function generated from `compute_opt_widths` returns
    (no assertion fires, no overflow, the `while` terminates) a valid split whose cost is minimal among all valid
    splits into at most `max_levels` parts — the predicate and cost function of `Props/C18.lean`. -/
theorem compute_opt_widths_optimal (c : Cfg) (vals : Array Nat) (L : Nat) (hne : vals.size ≠ 0) (hL : 1 ≤ L)
    (hv : ∀ x ∈ vals, x < 2^64) (hn : vals.size < 2^57) :
    ∃ ws, GenFn.DacsOpt.compute_opt_widths c vals L = .ok ws ∧ SpecX.validSplit vals.toList L ws.toList = true ∧
      ∀ ws', SpecX.validSplit vals.toList L ws' = true →
        SpecX.dacCost vals.toList ws.toList ≤ SpecX.dacCost vals.toList ws' := by
  have hv' : ∀ v ∈ vals.toList, v < 2^64 := fun v h => hv v (Array.mem_toList_iff.mp h)
  have hne' : vals.toList ≠ [] := by
    intro h; apply hne; rw [← Array.length_toList, h]; rfl
  have hn' : vals.toList.length < 2^57 := by rw [Array.length_toList]; exact hn
  obtain ⟨ws, a1, a2, a3⟩ := optWidths_ok_spec c vals.toList hne' hv' hn' (min L 64) (by omega) (by omega)
  rw [← optWidths_cap c vals.toList L hv'] at a1
  have hW := DacsOptW.bitlen_le_64 _ (maxv_lt vals.toList hv')
  refine ⟨ws.toArray, ?_, ?_, ?_⟩
  · rw [compute_opt_widths_eq' c vals L hne hL hv hn, a1]; rfl
  · show SpecX.validSplit vals.toList L ws = true
    obtain ⟨b1, b2, b3, b4⟩ := (validSplit_iff _ _ _).1 a2
    exact (validSplit_iff _ _ _).2 ⟨b1, by omega, b3, b4⟩
  · intro ws' h
    show SpecX.dacCost vals.toList ws ≤ SpecX.dacCost vals.toList ws'
    obtain ⟨b1, b2, b3, b4⟩ := (validSplit_iff _ _ _).1 h
    have := length_le_sum ws' b3
    exact a3 ws' ((validSplit_iff _ _ _).2 ⟨b1, by omega, b3, b4⟩)

end Sucds.GenEq
