import Sucds.Proofs.Rank9Zero
/-! `build_select0`: the hint table of the zero side always yields a valid window, for any index whose
    directory is the one of `build_rank` (so also after `build_select1`). -/
set_option linter.unusedSimpArgs false
set_option linter.unusedVariables false
namespace Sucds
open Spec
namespace R9Index

theorem hH0 : Gen.R9_SELECT_ZEROS_PER_HINT = 1024 := rfl

/-- invariant of the `build_select0` loop after `i` blocks -/
structure HInv0 (c : Cfg) (bv : BV) (i : Nat) (st : Array Nat × Nat) : Prop where
  thr : st.2 = (st.1.size + 1) * 1024
  le : prefixZ c bv.words (8 * i) ≤ st.2
  ent : ∀ j, j < st.1.size → wordAt st.1 j < i ∧ prefixZ c bv.words (8 * wordAt st.1 j) ≤ (j + 1) * 1024 ∧
          (j + 1) * 1024 < prefixZ c bv.words (8 * (wordAt st.1 j + 1))

theorem hintStep0_ok (c : Cfg) (bv : BV) (h : bv.Inv) (x : R9Index) (hx : x.pairs = (buildRank c bv).pairs)
    (i : Nat) (hi : i < (buildRank c bv).numBlocks)
    (st : Array Nat × Nat) (hinv : HInv0 c bv i st) :
    ∃ st', hintStep0 c x st i = .ok st' ∧ HInv0 c bv (i + 1) st' := by
  unfold hintStep0
  rw [blockRank0_ok c bv h x hx (i + 1) (by omega), bind_ok, hH0]
  have hstep : prefixZ c bv.words (8 * (i + 1)) ≤ prefixZ c bv.words (8 * i) + 512 := by
    have := (prefixZ_add c bv.words h.lt (8 * i) 8).2
    rw [show 8 * (i + 1) = 8 * i + 8 by omega]; omega
  obtain ⟨h1, h2, h3⟩ := hinv
  by_cases hv : prefixZ c bv.words (8 * (i + 1)) > st.2
  · rw [if_pos hv]
    refine ⟨_, rfl, ⟨?_, ?_, ?_⟩⟩
    · simp only [Array.size_push]; omega
    · simp only []; omega
    · intro j hj
      simp only [Array.size_push] at hj
      simp only [wordAt_push]
      by_cases hjm : j = st.1.size
      · rw [if_pos hjm]; subst hjm
        exact ⟨by omega, by omega, by omega⟩
      · rw [if_neg hjm]
        have := h3 j (by omega)
        exact ⟨by omega, this.2.1, this.2.2⟩
  · rw [if_neg hv]
    refine ⟨st, rfl, ⟨h1, by omega, ?_⟩⟩
    intro j hj
    have := h3 j hj
    exact ⟨by omega, this.2.1, this.2.2⟩

theorem hintLoop0_ok (c : Cfg) (bv : BV) (h : bv.Inv) (x : R9Index) (hx : x.pairs = (buildRank c bv).pairs) :
    ∀ (fuel i : Nat) (st : Array Nat × Nat), i + fuel = (buildRank c bv).numBlocks → HInv0 c bv i st →
      ∃ st', hintLoop0 c x i fuel st = .ok st' ∧ HInv0 c bv (buildRank c bv).numBlocks st' := by
  intro fuel
  induction fuel with
  | zero => intro i st hi hinv; exact ⟨st, rfl, by rw [← hi]; exact hinv⟩
  | succ fuel ih =>
    intro i st hi hinv
    unfold hintLoop0
    obtain ⟨st1, e1, hinv1⟩ := hintStep0_ok c bv h x hx i (by omega) st hinv
    rw [e1, bind_ok]
    exact ih (i + 1) st1 (by omega) hinv1

/-- **the zero hint table always yields a valid window**: `build_select0` succeeds on any index carrying
    the directory of `build_rank`, changes only the `sel0` field, and for every `k` below the number of
    zeros the window it induces brackets `k`. -/
theorem buildSelect0_window (c : Cfg) (bv : BV) (h : bv.Inv) (x : R9Index) (hx : x.pairs = (buildRank c bv).pairs) :
    ∃ y, buildSelect0 c x = .ok y ∧ y.pairs = x.pairs ∧ y.len = x.len ∧ y.sel1 = x.sel1 ∧
      ∀ k, k < cnt (fun i => !bv.bitAt i) bv.len → ∃ a b, window0 y k = .ok (a, b) ∧ a < b ∧
        b ≤ (buildRank c bv).numBlocks + 1 ∧ prefixZ c bv.words (8 * a) ≤ k ∧ k < prefixZ c bv.words (8 * b) := by
  have hnb := numBlocks_eq c bv h
  have e2 : x.numBlocks = (buildRank c bv).numBlocks := numBlocks_congr x _ hx
  have hsdm : 8 * (bv.words.size / 8) + bv.words.size % 8 = bv.words.size := Nat.div_add_mod _ 8
  have hcover : bv.words.size ≤ 8 * (buildRank c bv).numBlocks := by rw [hnb]; split <;> omega
  have hZ := zeros_le_prefixZ c bv h
  have hm := prefixZ_mono c bv.words h.lt hcover
  obtain ⟨st, e, h1, h2, h3⟩ := hintLoop0_ok c bv h x hx (buildRank c bv).numBlocks 0 (#[], Gen.R9_SELECT_ZEROS_PER_HINT)
    (by omega) ⟨by simp [hH0], by simp [prefixZ], fun j hj => by simp at hj⟩
  unfold buildSelect0
  rw [e2, e, bind_ok]
  refine ⟨_, rfl, rfl, rfl, rfl, ?_⟩
  intro k hk
  -- the chunk of `k` is at most the number of threshold crossings
  have hchunk : k / 1024 ≤ st.1.size := by omega
  unfold window0
  generalize hg : Gen.R9_SELECT_ZEROS_PER_HINT = H
  have hH' : H = 1024 := by rw [← hg]; rfl
  subst hH'
  have hlast : ∀ j, idx (st.1.push (buildRank c bv).numBlocks) j
      = if j < st.1.size then .ok (wordAt st.1 j) else if j = st.1.size then .ok (buildRank c bv).numBlocks else .error .oob := by
    intro j
    by_cases hj : j < st.1.size
    · rw [if_pos hj, idx_ok _ _ (by simp; omega), wordAt_push, if_neg (by omega)]
    · rw [if_neg hj]
      by_cases hj2 : j = st.1.size
      · rw [if_pos hj2, idx_ok _ _ (by simp; omega), wordAt_push, if_pos hj2]
      · rw [if_neg hj2, idx_oob _ _ (by simp; omega)]
  -- lower end
  have hlow : ∃ a, (if k / 1024 ≠ 0 then idx (st.1.push (buildRank c bv).numBlocks) (k / 1024 - 1) else .ok 0) = .ok a ∧
      prefixZ c bv.words (8 * a) ≤ k ∧ (k / 1024 < st.1.size → a ≤ wordAt st.1 (k / 1024)) ∧ a ≤ (buildRank c bv).numBlocks := by
    by_cases h0 : k / 1024 = 0
    · exact ⟨0, by simp [h0], by simp [prefixZ], fun _ => Nat.zero_le _, Nat.zero_le _⟩
    · have hl : k / 1024 - 1 < st.1.size := by omega
      have e1 := h3 (k / 1024 - 1) hl
      refine ⟨wordAt st.1 (k / 1024 - 1), by rw [if_pos h0, hlast, if_pos hl], by omega, ?_, by omega⟩
      intro hlt
      -- hints are increasing: rank0(a) ≤ chunk·H < rank0(hint[chunk]+1)
      have e2 := h3 (k / 1024) hlt
      by_cases hq : wordAt st.1 (k / 1024 - 1) ≤ wordAt st.1 (k / 1024)
      · exact hq
      · exfalso
        have := prefixZ_mono c bv.words h.lt (show 8 * (wordAt st.1 (k / 1024) + 1) ≤ 8 * wordAt st.1 (k / 1024 - 1) by omega)
        omega
  obtain ⟨a, ea, ha1, ha2, ha3⟩ := hlow
  try simp only []
  rw [ea, bind_ok, hlast]
  by_cases hlt : k / 1024 < st.1.size
  · rw [if_pos hlt, bind_ok]
    have e2 := h3 (k / 1024) hlt
    exact ⟨a, _, rfl, by have := ha2 hlt; omega, by omega, ha1, by omega⟩
  · rw [if_neg hlt, if_pos (by omega), bind_ok]
    refine ⟨a, _, rfl, by omega, Nat.le_refl _, ha1, ?_⟩
    have := prefixZ_mono c bv.words h.lt (show bv.words.size ≤ 8 * ((buildRank c bv).numBlocks + 1) by omega)
    omega

/-- **select0 with hints** = the specification, exactly as without hints -/
theorem select0_hints_ok (c : Cfg) (bv : BV) (h : bv.Inv) (k : Nat) :
    ∃ x, buildSelect0 c (buildRank c bv) = .ok x ∧
      select0 c x bv k = .ok (sel (fun i => !bv.bitAt i) bv.len k) := by
  obtain ⟨x, e, hp, hl, _, hw⟩ := buildSelect0_window c bv h (buildRank c bv) rfl
  exact ⟨x, e, select0_window_ok c bv h k x hp hl (hw k)⟩

end R9Index
end Sucds
