import Sucds.Proofs.GenWaveletNew
import Sucds.Props.C17
/-! # Specification of the generated `WaveletMatrix<B>` (right-hand sides of `Props/C05.lean`, `C06.lean`, `C17.lean`),
    generically in the backing: from `gw_new_ok`, the `gw_*_eq` equivalences and the model theorems `Wav.*_ok` -/
set_option linter.unusedSimpArgs false
set_option linter.unusedVariables false
namespace Sucds.GenEq
open Sucds Sucds.Spec

/-- the generated wavelet matrix `(ls, alph)` is what `new` builds from `s` -/
structure GBuilt {β : Type} (o : LOps β) (c : Cfg) (ls : Array β) (alph : Nat) (s : List Nat) : Prop where
  wok : WOK o c ls
  built : Wav.Built c ⟨ls.map o.toLay, alph⟩ s
  n63 : s.length < 2^63

section
variable {β ω : Type} (o : LOps β) (c : Cfg)

/-- **`new`**: succeeds like the model's `WM.new`, with the model's layers -/
theorem gw_new_built (mk : Array β → Nat → ω) (cv : CV) (s : List Nat) (h : CV.Rep cv s) (hne : s ≠ [])
    (hmax : s.foldl max 0 + 1 < 2^64) (hn : s.length < 2^63) (hsz : cv.len * cv.width < 2^64)
    (hnW : s.length * SpecX.bitlen (s.foldl max 0 + 1) < 2^64) (hb : BuildOK o c s.length) :
    ∃ ls, GW.new o mk c cv = .ok (.ok (mk ls (s.foldl max 0 + 1))) ∧
      WM.new c o.kind s = .ok (some ⟨ls.map o.toLay, s.foldl max 0 + 1⟩) ∧
      GBuilt o c ls (s.foldl max 0 + 1) s := by
  obtain ⟨ls, wm, hm, hg, hl, hw⟩ := gw_new_ok o c mk cv s h hne hmax hsz hnW hb
  obtain ⟨wm', hm', hbuilt⟩ := Wav.new_ok c o.kind s ((Wav.backing_ok c o.kind).for _) hne hmax (by omega)
  rw [hm] at hm'
  injection hm' with hm'; injection hm' with hm'
  subst hm'
  have ha : wm.alphSize = s.foldl max 0 + 1 := hbuilt.alph
  have hwm : wm = ⟨ls.map o.toLay, s.foldl max 0 + 1⟩ := by
    cases wm; simp only [] at hl ha; subst hl; subst ha; rfl
  subst hwm
  exact ⟨ls, hg, hm, ⟨hw, hbuilt, hn⟩⟩

variable {o c} {ls : Array β} {alph : Nat} {s : List Nat}

theorem GBuilt.len_eq (g : GBuilt o c ls alph s) : GW.len o ls = .ok s.length := by
  rw [gw_len_eq o c ls alph g.wok.lay, g.built.len]

theorem GBuilt.alph_eq (g : GBuilt o c ls alph s) : alph = s.foldl max 0 + 1 := g.built.alph

theorem GBuilt.width_eq (g : GBuilt o c ls alph s) : ls.size = SpecX.bitlen (s.foldl max 0 + 1) := by
  have := g.built.width; simpa using this

theorem GBuilt.isEmpty_eq (g : GBuilt o c ls alph s) : GW.isEmpty o ls = .ok (s.length == 0) := by
  unfold GW.isEmpty; rw [g.len_eq, bok]

theorem GBuilt.access_spec (g : GBuilt o c ls alph s) (i : Nat) (hi : i < 2^64) : GW.access o c ls i = .ok s[i]? := by
  rw [gw_access_eq o c ls alph g.wok i hi, Wav.access_ok c _ s g.built]

theorem GBuilt.rankRange_spec (g : GBuilt o c ls alph s) (a b v : Nat) (ha : a < 2^64) (hb : b < 2^64) :
    GW.rankRange o c ls alph (a, b) v = .ok (if b ≤ s.length then some (((s.take b).drop a).count v) else none) := by
  rw [gw_rankRange_eq o c ls alph g.wok a b v ha hb, Wav.rankRange_ok c _ s g.built]

theorem GBuilt.rank_spec (g : GBuilt o c ls alph s) (p v : Nat) (hp : p < 2^64) :
    GW.rank o c ls alph p v = .ok (if p ≤ s.length then some ((s.take p).count v) else none) := by
  rw [gw_rank_eq o c ls alph g.wok p v hp, Wav.rank_ok c _ s g.built]

theorem GBuilt.select_spec (g : GBuilt o c ls alph s) (k v : Nat) (hk : k < 2^64) :
    GW.select o c ls alph k v = .ok (sel (fun i => decide (s[i]? = some v)) s.length k) := by
  rw [gw_select_eq o c ls alph g.wok k v hk, Wav.select_ok c _ s g.built g.n63]

theorem GBuilt.quantile_spec (g : GBuilt o c ls alph s) (a b k : Nat) (ha : a < 2^64) (hb : b < 2^64) :
    GW.quantile o c ls (a, b) k =
      .ok (if b ≤ s.length ∧ k < b - a then (SpecX.sort ((s.take b).drop a))[k]? else none) := by
  rw [gw_quantile_eq o c ls alph g.wok a b k ha hb, Wav.quantile_ok c _ s g.built g.n63]

theorem inv_ok_none {A : R (Option (Array Nat))}
    (h : (A.bind fun r => .ok (r.map Array.toList)) = .ok none) : A = .ok none := by
  cases A with
  | error e => cases h
  | ok r => cases r with
    | none => rfl
    | some a => rw [bok] at h; injection h with h; cases h

theorem inv_ok_some {A : R (Option (Array Nat))} {out : List Nat}
    (h : (A.bind fun r => .ok (r.map Array.toList)) = .ok (some out)) : ∃ a : Array Nat, A = .ok (some a) ∧ a.toList = out := by
  cases A with
  | error e => cases h
  | ok r => cases r with
    | none => rw [bok] at h; injection h with h; cases h
    | some a =>
      rw [bok] at h; injection h with h
      simp only [Option.map_some] at h
      injection h with h
      exact ⟨a, rfl, h⟩

theorem GBuilt.intersect_spec (g : GBuilt o c ls alph s) (ranges : Array (Nat × Nat)) (j : Nat) :
    (ranges.toList.any (fun r => decide (s.length < r.2)) = true → GW.intersect o c ls ranges j = .ok none) ∧
    (ranges.toList.any (fun r => decide (s.length < r.2)) = false →
      ∃ out : Array Nat, GW.intersect o c ls ranges j = .ok (some out) ∧ out.toList.Pairwise (· < ·) ∧
        ∀ x, x ∈ out.toList ↔
          j < ((ranges.toList.filter fun r => decide (r.1 < r.2)).countP fun r => decide (x ∈ (s.take r.2).drop r.1))) := by
  have heq := gw_intersect_eq o c ls alph g.wok ranges j
  obtain ⟨h1, h2⟩ := Wav.intersect_ok c _ s g.built g.n63 ranges.toList j
  constructor
  · intro ha
    rw [h1 ha] at heq
    exact inv_ok_none heq
  · intro ha
    obtain ⟨out, ho, hp, hm⟩ := h2 ha
    rw [ho] at heq
    obtain ⟨a, ha1, ha2⟩ := inv_ok_some heq
    exact ⟨a, ha1, by rw [ha2]; exact hp, by rw [ha2]; exact hm⟩

/-! ### the iterator -/

theorem GBuilt.iterNext_lt (g : GBuilt o c ls alph s) (pos : Nat) (hp : pos < s.length) :
    GW.iterNext o c ls pos = .ok (pos + 1, some s[pos]) := by
  have := g.n63
  unfold GW.iterNext
  rw [g.len_eq, bok, if_pos hp, g.access_spec pos (by omega), bok, List.getElem?_eq_getElem hp, wv_unwrap_some, bok,
    cadd_ok c (by omega), bok]

theorem GBuilt.iterNext_ge (g : GBuilt o c ls alph s) (pos : Nat) (hp : s.length ≤ pos) :
    GW.iterNext o c ls pos = .ok (pos, none) := by
  unfold GW.iterNext
  rw [g.len_eq, bok, if_neg (by omega)]

theorem GBuilt.iterSizeHint_eq (g : GBuilt o c ls alph s) (pos : Nat) (hp : pos ≤ s.length) :
    GW.iterSizeHint o c ls pos = .ok (s.length - pos, some (s.length - pos)) := by
  unfold GW.iterSizeHint
  rw [g.len_eq, bok, csub_ok c hp, bok]

/-- `n` rounds of `size_hint(); next()` from position `pos` -/
def gwRunN (o : LOps β) (c : Cfg) (ls : Array β) : Nat → Nat → R (List (Option Nat × (Nat × Option Nat)))
  | _, 0 => .ok []
  | pos, n+1 =>
    (GW.iterSizeHint o c ls pos).bind fun sh =>
    (GW.iterNext o c ls pos).bind fun r =>
    (gwRunN o c ls r.1 n).bind fun l => .ok ((r.2, sh) :: l)

theorem GBuilt.runN_eq (g : GBuilt o c ls alph s) : ∀ (n pos : Nat), pos ≤ s.length →
    gwRunN o c ls pos n = .ok ((List.range n).map fun j => (s[pos + j]?, (s.length - (pos + j), some (s.length - (pos + j)))))
  | 0, _, _ => rfl
  | n + 1, pos, hp => by
    rw [gwRunN, g.iterSizeHint_eq pos hp, bok, List.range_succ_eq_map, List.map_cons, List.map_map]
    by_cases hlt : pos < s.length
    · rw [g.iterNext_lt pos hlt, bok]
      simp only []
      rw [g.runN_eq n (pos + 1) (by omega), bok]
      simp only [Nat.add_zero]
      rw [List.getElem?_eq_getElem hlt]
      congr 2
      apply List.map_congr_left
      intro j _
      simp only [Function.comp, Nat.add_assoc, Nat.add_comm 1 j]
    · rw [g.iterNext_ge pos (by omega), bok]
      simp only []
      rw [g.runN_eq n pos hp, bok]
      simp only [Nat.add_zero]
      rw [List.getElem?_eq_none (by omega : s.length ≤ pos)]
      congr 2
      apply List.map_congr_left
      intro j _
      have h1 : s[pos + j]? = none := List.getElem?_eq_none (by omega)
      have h2 : s[pos + (j + 1)]? = none := List.getElem?_eq_none (by omega)
      have h3 : s.length - (pos + j) = s.length - (pos + (j + 1)) := by omega
      simp only [Function.comp, h1, h2, h3, Nat.succ_eq_add_one]

/-- C17 for the generated iterator: the stored values in order, then `None` forever, exact size hints -/
theorem GBuilt.iter_c17 (g : GBuilt o c ls alph s) (n : Nat) : gwRunN o c ls 0 n = .ok (C17.expected s n) := by
  rw [g.runN_eq n 0 (Nat.zero_le _)]
  simp only [C17.expected, Nat.zero_add]
end
end Sucds.GenEq
