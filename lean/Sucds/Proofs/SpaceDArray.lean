import Sucds.Proofs.SpaceRank9
import Sucds.Proofs.DArray
/-! # C19, part 3 — `DArray`: `8·size_in_bytes ≤ u·(1 + 1.02·s + 0.26·r) + 4096`.

Per select index the cost is charged block by block to the span of bit positions the block covers
(spans of consecutive blocks are disjoint and lie inside `[0, u)`):
* a dense block of `m` positions costs `64 + 16·⌈m/32⌉` bits and spans `≥ m` positions;
* a sparse block costs in addition `64·m ≤ 65536` bits and spans `≥ 65537` positions.
Both are `≤ 1.02 · span` for full blocks; the last partial block adds a constant. -/
set_option linter.unusedSimpArgs false
set_option linter.unusedVariables false
namespace Sucds
namespace Space
open Codec DAProof

/-- `DArrayIndex::size_in_bytes` -/
theorem DAIndex.codec_size (x : DAIndex) :
    DAIndex.codec.size x = 33 + 8 * x.blockInv.size + 2 * x.subInv.size + 8 * x.overflow.size := by
  show (arr Codec.i64).size x.blockInv + ((arr u16).size x.subInv + ((arr u64).size x.overflow + (8 + 1))) = _
  rw [arr_i64_size, arr_u16_size, arr_u64_size]; omega

/-- bits of the three inventories held by a build state -/
def cost (s : DAIndex.BSt) : Nat := 64 * s.blockInv.size + 16 * s.subInv.size + 64 * s.overflow.size

/-- sizes after `flush_cur_block` -/
theorem flush_sizes (s : DAIndex.BSt) :
    (DAIndex.flush s).cur = #[] ∧
    (DAIndex.flush s).blockInv.size = s.blockInv.size + 1 ∧
    (DAIndex.flush s).subInv.size = s.subInv.size + (s.cur.size + 31) / 32 ∧
    ((wordAt s.cur (s.cur.size - 1) - wordAt s.cur 0 < 65536 ∧ (DAIndex.flush s).overflow.size = s.overflow.size) ∨
     (65536 ≤ wordAt s.cur (s.cur.size - 1) - wordAt s.cur 0 ∧
        (DAIndex.flush s).overflow.size = s.overflow.size + s.cur.size)) := by
  by_cases hd : wordAt s.cur (s.cur.size - 1) - wordAt s.cur 0 < Gen.DA_MAX_IN_BLOCK_DISTANCE
  · unfold DAIndex.flush
    simp only []
    rw [if_pos hd]
    simp only []
    obtain ⟨_, e2, _⟩ := subPush_spec s.cur (wordAt s.cur 0) true s.cur.size 0 s.subInv (by omega)
    rw [hD] at hd
    exact ⟨trivial, by rw [Array.size_push], by rw [e2, Nat.sub_zero], Or.inl ⟨hd, trivial⟩⟩
  · unfold DAIndex.flush
    simp only []
    rw [if_neg hd]
    simp only []
    obtain ⟨_, e2, _⟩ := subPush_spec s.cur (wordAt s.cur 0) false s.cur.size 0 s.subInv (by omega)
    rw [hD] at hd
    exact ⟨trivial, by rw [Array.size_push], by rw [e2, Nat.sub_zero], Or.inr ⟨by omega, by rw [Array.size_append]⟩⟩

/-- size invariant of the build fold: every position pushed so far is `< nxt`; the finished blocks cover
    positions below `lo` and cost at most `1.02·lo` bits; the open block starts at or after `lo` and its
    positions are distinct -/
structure SzInv (nxt : Nat) (s : DAIndex.BSt) : Prop where
  csz : s.cur.size < 1024
  ex : ∃ lo, lo ≤ nxt ∧ 100 * cost s ≤ 102 * lo ∧ 16 * cost s + 9 * s.cur.size ≤ 9 * s.numPos + 16 * lo ∧
    (0 < s.cur.size → lo ≤ wordAt s.cur 0 ∧ wordAt s.cur 0 + s.cur.size ≤ nxt ∧ wordAt s.cur (s.cur.size - 1) + 1 ≤ nxt)

theorem SzInv.init : SzInv 0 ⟨#[], #[], #[], #[], 0⟩ :=
  ⟨by simp, 0, Nat.le_refl _, by simp [cost], by simp [cost], fun h => by simp at h⟩

theorem SzInv.mono {nxt nxt' : Nat} {s : DAIndex.BSt} (h : SzInv nxt s) (hle : nxt ≤ nxt') : SzInv nxt' s := by
  obtain ⟨h1, lo, h2, h3, h3', h4⟩ := h
  refine ⟨h1, lo, by omega, h3, h3', fun hp => ?_⟩
  have := h4 hp
  omega

set_option maxRecDepth 10000 in
theorem SzInv.push {nxt : Nat} {s : DAIndex.BSt} (h : SzInv nxt s) (p : Nat) (hp : nxt ≤ p) :
    SzInv (p + 1) (pushOne s p) := by
  obtain ⟨h1, lo, h2, h3, h3', h4⟩ := h
  -- the open block after the push
  have hsz : (s.cur.push p).size = s.cur.size + 1 := Array.size_push ..
  have hlast : wordAt (s.cur.push p) ((s.cur.push p).size - 1) = p := by
    rw [hsz, Nat.add_sub_cancel, wordAt_push, if_pos rfl]
  have hfirst : lo ≤ wordAt (s.cur.push p) 0 ∧ wordAt (s.cur.push p) 0 + (s.cur.size + 1) ≤ p + 1 := by
    rw [wordAt_push]
    by_cases h0 : s.cur.size = 0
    · rw [if_pos h0.symm, h0]; omega
    · rw [if_neg (by omega)]
      have := h4 (by omega)
      omega
  unfold pushOne
  simp only []
  by_cases hfull : (s.cur.push p).size = Gen.DA_BLOCK_LEN
  · rw [if_pos hfull]
    rw [hB, hsz] at hfull
    obtain ⟨f1, f2, f3, f4⟩ := flush_sizes { s with cur := s.cur.push p }
    simp only [] at f1 f2 f3 f4
    rw [hlast, hsz, hfull] at f4
    rw [hsz, hfull] at f3
    refine ⟨by simp [f1], p + 1, Nat.le_refl _, ?_, ?_, ?_⟩
    · unfold cost at h3 ⊢
      simp only []
      rw [f2, f3]
      rcases f4 with ⟨_, f4⟩ | ⟨f4a, f4⟩
      · rw [f4]; clear f1 f2 f3 f4; omega
      · rw [f4]; clear f1 f2 f3 f4; omega
    · unfold cost at h3' ⊢
      simp only []
      rw [f1, f2, f3]
      have hnp : (DAIndex.flush { s with cur := s.cur.push p }).numPos = s.numPos := by
        unfold DAIndex.flush; simp only []; split <;> rfl
      rw [hnp]
      rcases f4 with ⟨_, f4⟩ | ⟨f4a, f4⟩
      · rw [f4]; clear f1 f2 f3 f4 hnp; simp only [List.size_toArray, List.length_nil]; omega
      · rw [f4]; clear f1 f2 f3 f4 hnp; simp only [List.size_toArray, List.length_nil]; omega
    · intro hpos
      simp only [f1] at hpos
      simp at hpos
  · rw [if_neg hfull]
    rw [hB, hsz] at hfull
    refine ⟨by simp only [hsz]; omega, lo, by omega, h3,
      by show 16 * cost s + 9 * (s.cur.push p).size ≤ 9 * (s.numPos + 1) + 16 * lo; rw [hsz]; omega, ?_⟩
    intro _
    simp only []
    rw [hlast, hsz]
    exact ⟨hfirst.1, hfirst.2, Nat.le_refl _⟩

/-- the fold over the indexed positions of `[lo, lo+n)` -/
theorem SzInv.pushAll (bv : BV) (o : Bool) : ∀ (n lo : Nat) (s : DAIndex.BSt), SzInv lo s →
    SzInv (lo + n) (pushAll s (plist bv o lo n)) := by
  intro n
  induction n with
  | zero => intro lo s h; exact h
  | succ n ih =>
    intro lo s h
    rw [plist_add, pushAll_append, plist_one]
    have := ih lo s h
    by_cases hp : Pb bv o (lo + n) = true
    · rw [if_pos hp, pushAll_cons, pushAll_nil]
      exact SzInv.push this (lo + n) (Nat.le_refl _)
    · rw [if_neg hp, pushAll_nil]
      exact SzInv.mono this (by omega)

/-- the closing flush of a partial block -/
theorem SzInv.final {nxt : Nat} {s : DAIndex.BSt} (h : SzInv nxt s) :
    100 * cost (if s.cur.size ≠ 0 then DAIndex.flush s else s) ≤ 102 * nxt + 8000 ∧
    16 * cost (if s.cur.size ≠ 0 then DAIndex.flush s else s) ≤ 9 * s.numPos + 16 * nxt + 1280 := by
  obtain ⟨h1, lo, h2, h3, h3', h4⟩ := h
  by_cases hc : s.cur.size ≠ 0
  · rw [if_pos hc]
    obtain ⟨f1, f2, f3, f4⟩ := flush_sizes s
    have := h4 (by omega)
    unfold cost at h3 h3' ⊢
    rw [f2, f3]
    rcases f4 with ⟨_, f4⟩ | ⟨f4a, f4⟩
    · rw [f4]; omega
    · rw [f4]; omega
  · rw [if_neg hc]; omega

theorem pushOne_numPos (s : DAIndex.BSt) (p : Nat) : (pushOne s p).numPos = s.numPos + 1 := by
  unfold pushOne
  simp only []
  split
  · unfold DAIndex.flush; simp only []; split <;> rfl
  · rfl

theorem pushAll_numPos : ∀ (L : List Nat) (s : DAIndex.BSt), (pushAll s L).numPos = s.numPos + L.length := by
  intro L
  induction L with
  | nil => intro s; rfl
  | cons p L ih => intro s; rw [pushAll_cons, ih, pushOne_numPos, List.length_cons]; omega

/-- **inventories of one select index** (over the ones, `o = true`, or over the zeros): together at most
    `1.02·u + 80` bits -/
theorem index_cost (c : Cfg) (bv : BV) (h : bv.Inv) (o : Bool) :
    100 * (64 * (DAIndex.build c bv o).blockInv.size + 16 * (DAIndex.build c bv o).subInv.size
      + 64 * (DAIndex.build c bv o).overflow.size) ≤ 102 * bv.len + 8000 := by
  have := (SzInv.final (SzInv.pushAll bv o bv.len 0 _ SzInv.init)).1
  rw [Nat.zero_add, ← buildLoop_all c bv h o] at this
  exact this

/-- the same inventories charged to the indexed positions: `9/16` bit per position (dense part) plus one
    bit per position of the vector (overflow of the sparse blocks), plus 80 -/
theorem index_cost_pos (c : Cfg) (bv : BV) (h : bv.Inv) (o : Bool) :
    16 * (64 * (DAIndex.build c bv o).blockInv.size + 16 * (DAIndex.build c bv o).subInv.size
      + 64 * (DAIndex.build c bv o).overflow.size) ≤ 9 * (DAIndex.build c bv o).numPos + 16 * bv.len + 1280 := by
  have := (SzInv.final (SzInv.pushAll bv o bv.len 0 _ SzInv.init)).2
  rw [Nat.zero_add, ← buildLoop_all c bv h o] at this
  have hnp : (DAIndex.build c bv o).numPos = (DAIndex.buildLoop c bv o 0 ⟨#[], #[], #[], #[], 0⟩ bv.words.size).numPos := by
    unfold DAIndex.build
    simp only []
    split
    · unfold DAIndex.flush; simp only []; split <;> rfl
    · rfl
  rw [hnp]
  exact this

/-- **one select index**: `100·(8·size_in_bytes) ≤ 102·u + 34400` -/
theorem index_bound (c : Cfg) (bv : BV) (h : bv.Inv) (o : Bool) :
    100 * (8 * DAIndex.codec.size (DAIndex.build c bv o)) ≤ 102 * bv.len + 34400 := by
  have := index_cost c bv h o
  rw [DAIndex.codec_size]; omega

/-- `DArray::size_in_bytes` -/
theorem DA.codec_size (x : DA) :
    DA.codec.size x = BV.codec.size x.bv + DAIndex.codec.size x.s1 +
      (match x.s0 with | none => 1 | some i => 1 + DAIndex.codec.size i) +
      (match x.r9 with | none => 1 | some i => 1 + R9Index.codec.size i) := by
  show BV.codec.size x.bv + (DAIndex.codec.size x.s1 + ((opt DAIndex.codec).size x.s0 + (opt R9Index.codec).size x.r9)) = _
  cases x.s0 <;> cases x.r9 <;> simp only [opt] <;> omega

theorem b2n_le (b : Bool) : (if b then 1 else 0 : Nat) ≤ 1 := by cases b <;> simp

/-- **DArray** (C19): with `s` select indexes (`1`, or `2` when `select0` is enabled) and `r = 1` iff the
    rank index is enabled, `100·(8·size_in_bytes) ≤ u·(100 + 102·s + 26·r) + 409600`,
    i.e. `B ≤ u·(1 + 1.02·s + 0.26·r) + 4096`. -/
theorem darray_bound (c : Cfg) (bv : BV) (h : bv.Inv) (rank sel0 : Bool) :
    100 * (8 * DA.codec.size (DA.build c bv rank sel0)) ≤
      bv.len * (100 + 102 * (1 + (if sel0 then 1 else 0)) + 26 * (if rank then 1 else 0)) + 409600 := by
  rw [DA.codec_size, DA.build_bv, DA.build_s1, DA.build_s0, DA.build_r9, BV.codec_size]
  have i1 := index_bound c bv h true
  have i0 := index_bound c bv h false
  have hr := rank_index_bits c bv h
  have hnb := numBlocks_le c bv h
  have hsz := h.size
  cases rank <;> cases sel0 <;> simp only [if_true, Bool.false_eq_true, if_false] <;> omega

end Space
end Sucds
