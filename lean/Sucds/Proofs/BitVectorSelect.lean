import Sucds.Proofs.BitVectorRank
set_option linter.unusedSimpArgs false
set_option linter.unusedVariables false
namespace Sucds
open Spec

theorem sel_congr (P Q : Nat → Bool) (n k : Nat) (h : ∀ i, i < n → P i = Q i) : sel P n k = sel Q n k := by
  cases hs : sel Q n k with
  | none =>
    have : cnt Q n ≤ k := by
      by_cases hle : cnt Q n ≤ k
      · exact hle
      · exfalso
        -- a k-th position exists below n
        have hex : ∀ m, k < cnt Q m → ∃ p, IsKth Q m k p := by
          intro m
          induction m with
          | zero => intro h0; simp [cnt] at h0
          | succ m ihm =>
            intro hk
            by_cases hQ : Q m = true
            · by_cases hkm : k < cnt Q m
              · obtain ⟨p, hp1, hp2, hp3⟩ := ihm hkm; exact ⟨p, by omega, hp2, hp3⟩
              · rw [cnt_succ_of_true Q m hQ] at hk
                exact ⟨m, by omega, hQ, by omega⟩
            · have hf : Q m = false := by simpa using hQ
              rw [cnt_succ_of_false Q m hf] at hk
              obtain ⟨p, hp1, hp2, hp3⟩ := ihm hk; exact ⟨p, by omega, hp2, hp3⟩
        obtain ⟨p, hp⟩ := hex n (by omega)
        rw [sel_eq_some Q n k p hp] at hs; cases hs
    rw [sel_eq_none P n k (by rw [cnt_congr P Q n h]; exact this)]
  | some p =>
    have hk : IsKth Q n k p := by
      unfold sel at hs
      have h1 := List.find?_some hs
      have h2 := List.mem_of_find?_eq_some hs
      simp only [Bool.and_eq_true, beq_iff_eq] at h1
      exact ⟨by simpa using h2, h1.1, h1.2⟩
    obtain ⟨hp1, hp2, hp3⟩ := hk
    rw [sel_eq_some P n k p ⟨hp1, by rw [h p hp1]; exact hp2, by rw [cnt_congr P Q p (fun i hi => h i (by omega))]; exact hp3⟩]

theorem selectInWordN_eq (c : Cfg) (w k : Nat) (hw : w < 2^64) :
    selectInWordN c w k = sel (fun i => w.testBit i) 64 k := by
  unfold selectInWordN
  rw [C14.selectInWord_ok]
  exact sel_congr _ _ 64 k (fun i hi => by rw [bitsOf_ofNat w i hw]; simp [hi])

theorem sel_isKth (P : Nat → Bool) (n k p : Nat) (h : sel P n k = some p) : IsKth P n k p := by
  unfold sel at h
  have h1 := List.find?_some h
  have h2 := List.mem_of_find?_eq_some h
  simp only [Bool.and_eq_true, beq_iff_eq] at h1
  exact ⟨by simpa using h2, h1.1, h1.2⟩

theorem sel_none_le (P : Nat → Bool) (n k : Nat) (h : sel P n k = none) : cnt P n ≤ k := by
  by_cases hle : cnt P n ≤ k
  · exact hle
  · exfalso
    have hex : ∀ m, k < cnt P m → ∃ p, IsKth P m k p := by
      intro m
      induction m with
      | zero => intro h0; simp [cnt] at h0
      | succ m ihm =>
        intro hk
        by_cases hQ : P m = true
        · by_cases hkm : k < cnt P m
          · obtain ⟨p, hp1, hp2, hp3⟩ := ihm hkm; exact ⟨p, by omega, hp2, hp3⟩
          · rw [cnt_succ_of_true P m hQ] at hk
            exact ⟨m, by omega, hQ, by omega⟩
        · have hf : P m = false := by simpa using hQ
          rw [cnt_succ_of_false P m hf] at hk
          obtain ⟨p, hp1, hp2, hp3⟩ := ihm hk; exact ⟨p, by omega, hp2, hp3⟩
    obtain ⟨p, hp⟩ := hex n (by omega)
    rw [sel_eq_some P n k p hp] at h; cases h

namespace BV

/-- the select loop stops at the first word whose cumulative count exceeds `k` -/
theorem selLoop_id (c : Cfg) (ws : Array Nat) (k : Nat) : ∀ (fuel wpos : Nat),
    sumPop c ws wpos ≤ k → ws.size ≤ wpos + fuel → wpos ≤ ws.size →
    let r := selLoop c id ws k wpos (sumPop c ws wpos) fuel
    r.2 = sumPop c ws r.1 ∧ sumPop c ws r.1 ≤ k ∧ r.1 ≤ ws.size ∧ (r.1 < ws.size → k < sumPop c ws (r.1 + 1)) := by
  intro fuel
  induction fuel with
  | zero =>
    intro wpos h1 h2 h3
    have : wpos = ws.size := by omega
    simp only [selLoop]
    exact ⟨trivial, h1, h3, fun h => by omega⟩
  | succ fuel ih =>
    intro wpos h1 h2 h3
    simp only [selLoop]
    by_cases hlt : wpos < ws.size
    · simp only [hlt, if_true, id]
      by_cases hk : k < sumPop c ws wpos + popcountN c (wordAt ws wpos)
      · simp only [hk, if_true]
        exact ⟨trivial, h1, h3, fun _ => hk⟩
      · simp only [hk, if_false]
        have := ih (wpos + 1) (by simp only [sumPop]; omega) (by omega) (by omega)
        simpa only [sumPop] using this
    · simp only [hlt, if_false]
      exact ⟨trivial, h1, h3, fun h => h.elim⟩

/-- **select1** (linear scan): the position of the k-th set bit, `none` iff there are at most `k` -/
theorem select1_ok (c : Cfg) (b : BV) (h : b.Inv) (k : Nat) : b.select1 c k = .ok (sel b.bitAt b.len k) := by
  have hsz := h.size
  unfold select1
  obtain ⟨r2, rle, rsz, rnext⟩ := selLoop_id c b.words k b.words.size 0 (Nat.zero_le _) (by omega) (Nat.zero_le _)
  simp only [sumPop] at r2 rle rsz rnext
  cases hr : selLoop c id b.words k 0 0 b.words.size with
  | mk wpos cur =>
    rw [hr] at r2 rle rsz rnext
    simp only at r2 rle rsz rnext
    simp only []
    -- all set bits lie below `len`, so counting up to the word boundary is counting up to `len`
    have htot : cnt b.bitAt (64 * b.words.size) = cnt b.bitAt b.len := by
      have hsplit := cnt_add b.bitAt b.len (64 * b.words.size - b.len)
      rw [show b.len + (64 * b.words.size - b.len) = 64 * b.words.size by omega] at hsplit
      rw [hsplit, C14.cnt_zero_of_false _ _ (fun i _ => h.pad (b.len + i) (by omega))]; omega
    by_cases hend : wpos = b.words.size
    · rw [if_pos hend]
      rw [sel_eq_none]
      rw [← htot, ← R9Index.prefixPop_eq c b h, ← sumPop_eq_prefixPop, ← hend]; exact rle
    · rw [if_neg hend]
      have hlt : wpos < b.words.size := by omega
      have hnx := rnext hlt
      rw [selectInWordN_eq c _ _ (h.lt wpos)]
      have hword : cnt (fun i => (wordAt b.words wpos).testBit i) 64 = popcountN c (wordAt b.words wpos) :=
        (popcountN_eq c _ (h.lt wpos)).symm
      cases hs : sel (fun i => (wordAt b.words wpos).testBit i) 64 (k - cur) with
      | none =>
        have := sel_none_le _ _ _ hs
        rw [hword, r2] at this; omega
      | some p =>
        obtain ⟨hp1, hp2, hp3⟩ := sel_isKth _ _ _ _ hs
        simp only []
        have hbit : b.bitAt (64 * wpos + p) = true := by rw [← word_testBit b wpos p hp1]; exact hp2
        have hpl : 64 * wpos + p < b.len := by
          by_cases hq : 64 * wpos + p < b.len
          · exact hq
          · have := h.pad (64 * wpos + p) (by omega); rw [this] at hbit; cases hbit
        have hcnt : cnt b.bitAt (64 * wpos + p) = k := by
          rw [cnt_add, ← R9Index.prefixPop_eq c b h, ← sumPop_eq_prefixPop,
              cnt_congr (fun i => b.bitAt (64 * wpos + i)) (fun i => (wordAt b.words wpos).testBit i) p
                (fun i hi => (word_testBit b wpos i (by omega)).symm), hp3, ← r2]
          omega
        rw [sel_eq_some b.bitAt b.len k (64 * wpos + p) ⟨hpl, hbit, hcnt⟩, Nat.mul_comm]

end BV
end Sucds
