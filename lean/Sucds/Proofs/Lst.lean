namespace L

/-- DACs / wavelet key lemma: the element at `p` that satisfies `f` sits, in the filtered list,
    at index "number of satisfying elements before `p`" -/
theorem filter_getElem_count {α} (f : α → Bool) (l : List α) (p : Nat) (hp : p < l.length) (hf : f l[p] = true) :
    ∃ h : (l.take p).countP f < (l.filter f).length, (l.filter f)[(l.take p).countP f] = l[p] := by
  induction l generalizing p with
  | nil => simp at hp
  | cons a t ih =>
    cases p with
    | zero =>
      simp only [List.getElem_cons_zero] at hf
      simp [List.filter_cons, hf]
    | succ q =>
      simp only [List.length_cons] at hp
      simp only [List.getElem_cons_succ] at hf ⊢
      obtain ⟨h, e⟩ := ih q (by omega) hf
      by_cases ha : f a = true
      · simp only [List.take_succ_cons, List.countP_cons_of_pos ha, List.filter_cons_of_pos ha,
          List.length_cons, List.getElem_cons_succ]
        exact ⟨by omega, e⟩
      · simp only [Bool.not_eq_true] at ha
        have ha' : ¬ f a = true := by simp [ha]
        simp only [List.take_succ_cons, List.countP_cons_of_neg ha', List.filter_cons_of_neg ha']
        exact ⟨h, e⟩

/-- range mapping: the satisfying elements of `l[a..b)` are exactly a contiguous slice of `l.filter f` -/
theorem filter_take (f : α → Bool) (l : List α) (b : Nat) :
    (l.take b).filter f = (l.filter f).take ((l.take b).countP f) := by
  induction l generalizing b with
  | nil => simp
  | cons x t ih =>
    cases b with
    | zero => simp
    | succ c =>
      by_cases hx : f x = true
      · simp [List.take_succ_cons, List.filter_cons_of_pos hx, List.countP_cons_of_pos hx, ih c]
      · have hx' : f x = false := by simpa using hx
        simp [List.take_succ_cons, List.filter_cons, hx', ih c]

theorem count_take_le (f : α → Bool) (l : List α) {a b : Nat} (h : a ≤ b) :
    (l.take a).countP f ≤ (l.take b).countP f := by
  have : l.take a = (l.take b).take a := by rw [List.take_take]; congr 1; omega
  rw [this]
  exact List.Sublist.countP_le (List.take_sublist _ _)

theorem filter_slice (f : α → Bool) (l : List α) (a b : Nat) (h : a ≤ b) :
    ((l.take b).drop a).filter f =
      ((l.filter f).take ((l.take b).countP f)).drop ((l.take a).countP f) := by
  have h2 : (l.take b).take a = l.take a := by rw [List.take_take]; congr 1; omega
  have hsplit : l.take b = l.take a ++ (l.take b).drop a := by
    conv => lhs; rw [← List.take_append_drop a (l.take b), h2]
  have e : (l.take b).filter f = (l.take a).filter f ++ ((l.take b).drop a).filter f := by
    conv => lhs; rw [hsplit, List.filter_append]
  rw [← filter_take f l b, e, List.drop_append]
  have hlen : (List.filter f (l.take a)).length = (l.take a).countP f := by
    rw [List.countP_eq_length_filter]
  simp [hlen]

end L
