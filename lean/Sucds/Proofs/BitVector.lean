import Sucds.Model.BitVector
set_option linter.unusedSimpArgs false
set_option linter.unusedVariables false
namespace Sucds
open BV

/-! ### total word access -/
theorem wordAt_push (ws : Array Nat) (x i : Nat) :
    wordAt (ws.push x) i = if i = ws.size then x else wordAt ws i := by
  unfold wordAt; rw [Array.getElem?_push]; split <;> simp
theorem wordAt_ge (ws : Array Nat) (i : Nat) (h : ws.size ≤ i) : wordAt ws i = 0 := by
  unfold wordAt; rw [Array.getElem?_eq_none h]; rfl
theorem wordAt_modify (ws : Array Nat) (k i : Nat) (f : Nat → Nat) :
    wordAt (ws.modify k f) i = if k = i ∧ i < ws.size then f (wordAt ws i) else wordAt ws i := by
  unfold wordAt; rw [Array.getElem?_modify]
  by_cases hk : k = i
  · subst hk
    by_cases hi : k < ws.size
    · simp [hi]
    · simp [hi]
  · simp [hk]
theorem wordAt_set! (ws : Array Nat) (k i v : Nat) :
    wordAt (ws.set! k v) i = if k = i ∧ i < ws.size then v else wordAt ws i := by
  unfold wordAt
  rw [Array.set!_eq_setIfInBounds, Array.getElem?_setIfInBounds]
  by_cases hk : k = i
  · subst hk
    by_cases hi : k < ws.size
    · simp [hi]
    · simp [hi]
  · simp [hk]
theorem wordAt_lt_elem (ws : Array Nat) (i : Nat) (h : i < ws.size) : wordAt ws i = ws[i] := by
  unfold wordAt; simp [h]
theorem idx_ok (ws : Array Nat) (i : Nat) (h : i < ws.size) : idx ws i = .ok (wordAt ws i) := by
  unfold idx wordAt; simp [h]
theorem idx_oob (ws : Array Nat) (i : Nat) (h : ws.size ≤ i) : idx ws i = .error .oob := by
  unfold idx; rw [Array.getElem?_eq_none h]

namespace BV

theorem testBit_high (b : BV) (h : b.Inv) (w j : Nat) (hj : 64 ≤ j) : (wordAt b.words w).testBit j = false := by
  apply Nat.testBit_lt_two_pow
  calc wordAt b.words w < 2^64 := h.lt w
    _ ≤ 2^j := Nat.pow_le_pow_right (by omega) hj

theorem word_testBit (b : BV) (w j : Nat) (hj : j < 64) : (wordAt b.words w).testBit j = b.bitAt (64 * w + j) := by
  unfold bitAt
  rw [show (64 * w + j) / 64 = w by omega, show (64 * w + j) % 64 = j by omega]

theorem bitAt_div (b : BV) (i : Nat) : b.bitAt i = (wordAt b.words (i / 64)).testBit (i % 64) := rfl

/-- canonicity: valid vectors with the same bits are equal (what derived `PartialEq` compares) -/
theorem canonical (a b : BV) (ha : a.Inv) (hb : b.Inv) (hl : a.len = b.len)
    (hbits : ∀ i, i < a.len → a.bitAt i = b.bitAt i) : a = b := by
  have hsz : a.words.size = b.words.size := by rw [ha.size, hb.size, hl]
  have hall : ∀ i, a.bitAt i = b.bitAt i := by
    intro i
    by_cases hi : i < a.len
    · exact hbits i hi
    · rw [ha.pad i (by omega), hb.pad i (by omega)]
  have hw : a.words = b.words := by
    apply Array.ext hsz
    intro w h1 h2
    rw [← wordAt_lt_elem _ _ h1, ← wordAt_lt_elem _ _ h2]
    apply Nat.eq_of_testBit_eq
    intro j
    by_cases hj : j < 64
    · rw [word_testBit a w j hj, word_testBit b w j hj]; exact hall _
    · rw [testBit_high a ha w j (by omega), testBit_high b hb w j (by omega)]
  cases a; cases b; simp_all

theorem toList_length (b : BV) : b.toList.length = b.len := by simp [toList]
theorem toList_getElem? (b : BV) (i : Nat) : b.toList[i]? = if i < b.len then some (b.bitAt i) else none := by
  unfold toList
  by_cases h : i < b.len
  · simp [h]
  · simp [h]

theorem eq_of_toList (a b : BV) (ha : a.Inv) (hb : b.Inv) (h : a.toList = b.toList) : a = b := by
  have hl : a.len = b.len := by rw [← toList_length a, ← toList_length b, h]
  apply canonical a b ha hb hl
  intro i hi
  have h1 := toList_getElem? a i
  have h2 := toList_getElem? b i
  rw [h] at h1
  rw [h1] at h2
  simp only [hi, hl ▸ hi, if_true, Option.some.injEq] at h2
  exact h2

/-! ### new / push_bit / extend -/
theorem new_inv : new.Inv := by
  refine ⟨rfl, ?_, ?_⟩
  · intro i; simp [new, wordAt]
  · intro i _; simp [new, bitAt, wordAt]
theorem new_toList : new.toList = [] := rfl

theorem b2w_testBit (x : Bool) (j : Nat) : (b2w x).testBit j = (decide (j = 0) && x) := by
  cases x <;> cases j <;> simp [b2w, Nat.testBit_succ]

theorem pushBit_len (b : BV) (x : Bool) : (b.pushBit x).len = b.len + 1 := by
  unfold pushBit; simp only []; split <;> rfl

theorem pushBit_bitAt (b : BV) (h : b.Inv) (x : Bool) (i : Nat) :
    (b.pushBit x).bitAt i = if i = b.len then x else b.bitAt i := by
  have hsz := h.size
  unfold pushBit
  by_cases hp : b.len % 64 = 0
  · simp only [hp, if_true, bitAt, wordAt_push]
    by_cases hi : i = b.len
    · subst hi
      have : b.len / 64 = b.words.size := by omega
      simp only [this, if_true, hp]
      cases x <;> simp [b2w]
    · by_cases hw : i / 64 = b.words.size
      · have : i % 64 ≠ 0 := by omega
        have hz := wordAt_ge b.words b.words.size (Nat.le_refl _)
        simp [hw, hi, b2w_testBit, this, hz]
      · simp [hw, hi]
  · simp only [hp, if_false, bitAt, wordAt_modify]
    by_cases hl : b.words.size - 1 = i / 64 ∧ i / 64 < b.words.size
    · simp only [hl, and_self, if_true, Nat.testBit_or, Nat.testBit_shiftLeft, b2w_testBit]
      by_cases hi : i = b.len
      · subst hi
        have hpad := h.pad b.len (Nat.le_refl _)
        unfold bitAt at hpad
        simp [hpad]
      · by_cases hge : i % 64 ≥ b.len % 64
        · have : i % 64 - b.len % 64 ≠ 0 := by omega
          simp [hi, hge, this]
        · simp [hi, hge]
    · have : i ≠ b.len := by omega
      simp [hl, this]

theorem pushBit_inv (b : BV) (h : b.Inv) (x : Bool) : (b.pushBit x).Inv := by
  have hba := pushBit_bitAt b h x
  refine ⟨?_, ?_, ?_⟩
  · unfold pushBit
    have := h.size
    by_cases hp : b.len % 64 = 0 <;> simp [hp, Array.size_push, Array.size_modify] <;> omega
  · intro i
    unfold pushBit
    by_cases hp : b.len % 64 = 0
    · simp only [hp, if_true, wordAt_push]
      split
      · cases x <;> simp [b2w]
      · exact h.lt i
    · simp only [hp, if_false, wordAt_modify]
      split
      · apply Nat.or_lt_two_pow (h.lt i)
        have : b2w x ≤ 1 := by cases x <;> simp [b2w]
        calc b2w x <<< (b.len % 64) = b2w x * 2 ^ (b.len % 64) := Nat.shiftLeft_eq _ _
          _ ≤ 1 * 2 ^ (b.len % 64) := Nat.mul_le_mul_right _ this
          _ < 2 ^ 64 := by rw [Nat.one_mul]; exact Nat.pow_lt_pow_right (by omega) (by omega)
      · exact h.lt i
  · intro i hi
    rw [pushBit_len] at hi
    rw [hba i]
    have : i ≠ b.len := by omega
    simp only [this, if_false]
    exact h.pad i (by omega)

theorem pushBit_toList (b : BV) (h : b.Inv) (x : Bool) : (b.pushBit x).toList = b.toList ++ [x] := by
  unfold toList
  rw [pushBit_len, List.range_succ, List.map_append]
  congr 1
  · apply List.map_congr_left
    intro i hi
    have : i < b.len := by simpa using hi
    rw [pushBit_bitAt b h]; simp [Nat.ne_of_lt this]
  · simp [pushBit_bitAt b h]

theorem extend_spec (xs : List Bool) : ∀ (b : BV), b.Inv → (b.extend xs).Inv ∧ (b.extend xs).toList = b.toList ++ xs := by
  induction xs with
  | nil => intro b h; simp [extend, h]
  | cons x t ih =>
    intro b h
    have := ih (b.pushBit x) (pushBit_inv b h x)
    simp only [extend, List.foldl_cons] at this ⊢
    rw [pushBit_toList b h x] at this
    simpa using this

theorem fromBits_spec (xs : List Bool) : (fromBits xs).Inv ∧ (fromBits xs).toList = xs := by
  have := extend_spec xs new new_inv
  simpa [fromBits, new_toList] using this

/-! ### get_bit -/
theorem getBit_ok (b : BV) (h : b.Inv) (pos : Nat) :
    b.getBit pos = .ok (if pos < b.len then some (b.bitAt pos) else none) := by
  unfold getBit
  by_cases hp : pos < b.len
  · have hsz := h.size
    simp only [hp, if_true]
    rw [idx_ok _ _ (by omega)]
    simp only [Except.bind]
    congr 2
    unfold bitAt
    rw [Nat.testBit, Nat.shiftRight_eq_div_pow]
    simp [Nat.and_one_is_mod]
  · simp [hp]

end BV
end Sucds
