import Sucds.Proofs.EliasFanoHigh
import Sucds.Proofs.DArrayNth
import Sucds.Proofs.BitVectorRank
/-! `SArray`, part 1: the bridge between the list of set positions `ones P n = (List.range n).filter P`
    (what the Elias-Fano theorems speak about) and the bit-sequence vocabulary `cnt`/`sel`/`predP`/`succP`. -/
set_option linter.unusedSimpArgs false
set_option linter.unusedVariables false
namespace Sucds.SA
open Sucds Sucds.Spec Sucds.EFB Sucds.EFQ

/-- the positions `< n` satisfying `P`, in increasing order -/
def ones (P : Nat → Bool) (n : Nat) : List Nat := (List.range n).filter P

theorem ones_length (P : Nat → Bool) (n : Nat) : (ones P n).length = cnt P n :=
  DAProof.filter_range_length P n

theorem ones_getElem? (P : Nat → Bool) (n k : Nat) : (ones P n)[k]? = sel P n k :=
  DAProof.filter_range_getElem? P n k

theorem mem_ones (P : Nat → Bool) (n p : Nat) : p ∈ ones P n ↔ p < n ∧ P p = true := by
  unfold ones
  rw [List.mem_filter, List.mem_range]

theorem ones_strict (P : Nat → Bool) (n : Nat) : (ones P n).Pairwise (· < ·) :=
  List.Pairwise.filter _ List.pairwise_lt_range

theorem ones_sorted (P : Nat → Bool) (n : Nat) : (ones P n).Pairwise (· ≤ ·) :=
  (ones_strict P n).imp (fun h => Nat.le_of_lt h)

theorem ones_lt (P : Nat → Bool) (n : Nat) : ∀ x ∈ ones P n, x < n :=
  fun x hx => ((mem_ones P n x).mp hx).1

/-- positions at or beyond `p` that do not count -/
theorem cnt_below (P : Nat → Bool) (p n : Nat) (hp : p ≤ n) :
    cnt (fun i => P i && decide (i < p)) n = cnt P p := by
  obtain ⟨d, rfl⟩ := Nat.exists_eq_add_of_le hp
  rw [cnt_add]
  rw [C14.cnt_zero_of_false _ d (fun i hi => by simp)]
  rw [Nat.add_zero]
  exact cnt_congr _ _ p (fun i hi => by simp [hi])

theorem ones_countP (P : Nat → Bool) (n p : Nat) (hp : p ≤ n) :
    (ones P n).countP (fun x => decide (x < p)) = cnt P p := by
  unfold ones
  rw [List.countP_filter, C14.countP_range]
  rw [← cnt_below P p n hp]
  exact cnt_congr _ _ n (fun i hi => by rw [Bool.and_comm])

theorem ones_rk (P : Nat → Bool) (n p : Nat) (hp : p ≤ n) : rk (ones P n) p = cnt P p :=
  ones_countP P n p hp

theorem ones_predV (P : Nat → Bool) (n p : Nat) (hp : p < n) : predV (ones P n) p = Spec.predP P p := by
  cases h : Spec.predP P p with
  | none =>
    rw [predV_none_iff]
    intro x hx
    obtain ⟨_, hx2⟩ := (mem_ones P n x).mp hx
    have := (Spec.predP_eq_none P p).mp h
    by_cases hle : x ≤ p
    · rw [this x hle] at hx2; cases hx2
    · omega
  | some v =>
    obtain ⟨h1, h2, h3⟩ := (Spec.predP_eq_some P p v).mp h
    rw [predV_some_iff _ (ones_sorted P n)]
    refine ⟨(mem_ones P n v).mpr ⟨by omega, h2⟩, h1, ?_⟩
    intro x hx hxp
    obtain ⟨_, hx2⟩ := (mem_ones P n x).mp hx
    by_cases hle : x ≤ v
    · exact hle
    · rw [h3 x (by omega) hxp] at hx2; cases hx2

theorem ones_succV (P : Nat → Bool) (n p : Nat) : succV (ones P n) p = succP P n p := by
  cases h : succP P n p with
  | none =>
    rw [succV_none_iff]
    intro x hx
    obtain ⟨hx1, hx2⟩ := (mem_ones P n x).mp hx
    have := (succP_eq_none P n p).mp h
    by_cases hle : p ≤ x
    · rw [this x hle hx1] at hx2; cases hx2
    · omega
  | some v =>
    obtain ⟨h1, h2, h3, h4⟩ := (succP_eq_some P n p v).mp h
    rw [succV_some_iff _ (ones_sorted P n)]
    refine ⟨(mem_ones P n v).mpr ⟨h2, h3⟩, h1, ?_⟩
    intro x hx hxp
    obtain ⟨_, hx2⟩ := (mem_ones P n x).mp hx
    by_cases hle : v ≤ x
    · exact hle
    · rw [h4 x hxp (by omega)] at hx2; cases hx2

/-- membership through indices -/
theorem ones_index_iff (P : Nat → Bool) (n v : Nat) : (∃ i : Nat, (ones P n)[i]? = some v) ↔ v < n ∧ P v = true := by
  rw [← mem_ones, List.mem_iff_getElem?]

/-! ### the number of ones as the model counts it -/

theorem cnt_pad (P : Nat → Bool) (n m : Nat) (hnm : n ≤ m) (h : ∀ i, n ≤ i → P i = false) : cnt P m = cnt P n := by
  obtain ⟨d, rfl⟩ := Nat.exists_eq_add_of_le hnm
  rw [cnt_add, C14.cnt_zero_of_false _ d (fun i hi => h _ (by omega)), Nat.add_zero]

theorem sumPop_all (c : Cfg) (bv : BV) (h : bv.Inv) : BV.sumPop c bv.words bv.words.size = cnt bv.bitAt bv.len := by
  rw [BV.sumPop_eq_prefixPop, R9Index.prefixPop_eq c bv h]
  have := h.size
  exact cnt_pad _ _ _ (by omega) h.pad

/-! ### the builder accepts a valid list entirely -/

theorem getLast_le_head (xs : List Nat) (v : Nat) (vs : List Nat) (hs : (xs ++ v :: vs).Pairwise (· ≤ ·)) :
    xs.getLast?.getD 0 ≤ v := by
  cases hlast : xs.getLast? with
  | none => simp
  | some l =>
    have hmem : l ∈ xs := List.mem_of_getLast? hlast
    have := List.pairwise_append.mp hs
    simpa using this.2.2 l hmem v (by simp)

theorem pushAll_ok : ∀ (ps : List Nat) (b : EFB) (xs : List Nat), Holds b xs →
    (xs ++ ps).Pairwise (· ≤ ·) → (∀ x ∈ ps, x < b.univ) → xs.length + ps.length ≤ b.numVals →
    ∃ b', EF.pushAll b ps = .ok (some b') ∧ Holds b' (xs ++ ps) ∧ b'.univ = b.univ ∧ b'.numVals = b.numVals := by
  intro ps
  induction ps with
  | nil => intro b xs h _ _ _; exact ⟨b, rfl, by simpa using h, rfl, rfl⟩
  | cons v vs ih =>
    intro b xs h hs hb hl
    have h1 : b.last ≤ v := by rw [h.last]; exact getLast_le_head xs v vs hs
    have h2 : v < b.univ := hb v (by simp)
    have h3 : b.pos < b.numVals := by rw [h.pos]; simp at hl; omega
    obtain ⟨b1, hp, hh, hu, hm, _⟩ := push_holds b xs h v h1 h2 h3
    obtain ⟨b', hr, hh', hu', hm'⟩ := ih b1 (xs ++ [v]) hh (by simpa using hs)
      (fun x hx => by rw [hu]; exact hb x (by simp [hx])) (by rw [hm]; simp at hl ⊢; omega)
    refine ⟨b', ?_, by simpa using hh', by rw [hu', hu], by rw [hm', hm]⟩
    simp only [EF.pushAll]
    rw [hp, EFQ.bind_ok]
    simpa using hr

end Sucds.SA
