import Sucds.Proofs.BitVectorPush
set_option linter.unusedSimpArgs false
set_option linter.unusedVariables false
namespace Sucds
namespace BV

/-! ### set_bit -/
theorem setBit_rej (b : BV) (pos : Nat) (bit : Bool) (h : b.len ≤ pos) : b.setBit pos bit = .ok (b, false) := by
  simp [setBit, h]

theorem setBit_ok (b : BV) (h : b.Inv) (pos : Nat) (bit : Bool) (hp : pos < b.len) :
    ∃ b', b.setBit pos bit = .ok (b', true) ∧ b'.Inv ∧ b'.len = b.len ∧
      ∀ i, b'.bitAt i = if i = pos then bit else b.bitAt i := by
  have hsz := h.size
  unfold setBit
  have hg : ¬ b.len ≤ pos := by omega
  simp only [hg, if_false]
  rw [idx_ok _ _ (by omega)]
  simp only [Except.bind]
  have hp64 : pos % 64 < 64 := Nat.mod_lt _ (by decide)
  have hone : (1 <<< (pos % 64)) < 2^64 := by
    rw [Nat.one_shiftLeft]; exact Nat.pow_lt_pow_right (by omega) hp64
  -- bits of the rewritten word
  have hword : ∀ j, j < 64 →
      (((wordAt b.words (pos / 64)) &&& NOT (1 <<< (pos % 64))) ||| (b2w bit <<< (pos % 64))).testBit j
        = if j = pos % 64 then bit else (wordAt b.words (pos / 64)).testBit j := by
    intro j hj
    rw [Nat.testBit_or, Nat.testBit_and, NOT_testBit _ _ hone, Nat.one_shiftLeft, Nat.testBit_two_pow,
        Nat.testBit_shiftLeft, b2w_testBit]
    by_cases hjp : j = pos % 64
    · subst hjp; simp [hj]
    · have h1 : ¬ (pos % 64 = j) := fun e => hjp e.symm
      by_cases hge : j ≥ pos % 64
      · have : j - pos % 64 ≠ 0 := by omega
        simp [hjp, h1, hj, hge, this]
      · simp [hjp, h1, hj, hge]
  have hbit : ∀ i, BV.bitAt ⟨b.words.set! (pos / 64)
        (((wordAt b.words (pos / 64)) &&& NOT (1 <<< (pos % 64))) ||| (b2w bit <<< (pos % 64))), b.len⟩ i
      = if i = pos then bit else b.bitAt i := by
    intro i
    simp only [bitAt, wordAt_set!]
    by_cases hw : pos / 64 = i / 64 ∧ i / 64 < b.words.size
    · simp only [hw, and_self, if_true]
      rw [← hw.1, hword _ (Nat.mod_lt _ (by decide))]
      by_cases hip : i = pos
      · subst hip; simp
      · have : ¬ (i % 64 = pos % 64) := by omega
        simp [hip, this]
    · have : i ≠ pos := by omega
      simp [hw, this]
  refine ⟨_, rfl, ⟨?_, ?_, ?_⟩, rfl, hbit⟩
  · simp [Array.size_set!, hsz]
  · intro i
    simp only [wordAt_set!]
    split
    · apply Nat.or_lt_two_pow
      · exact Nat.lt_of_le_of_lt Nat.and_le_left (h.lt _)
      · have : b2w bit ≤ 1 := by cases bit <;> simp [b2w]
        calc b2w bit <<< (pos % 64) = b2w bit * 2 ^ (pos % 64) := Nat.shiftLeft_eq _ _
          _ ≤ 1 * 2 ^ (pos % 64) := Nat.mul_le_mul_right _ this
          _ < 2 ^ 64 := by rw [Nat.one_mul]; exact Nat.pow_lt_pow_right (by omega) hp64
    · exact h.lt i
  · intro i hi
    have hi' : b.len ≤ i := hi
    rw [hbit i]
    have : i ≠ pos := by omega
    simp only [this, if_false]
    exact h.pad i hi'

/-! ### get_word64 -/
theorem getWord64_none (b : BV) (pos : Nat) (h : b.len ≤ pos) : b.getWord64 pos = .ok none := by
  simp [getWord64, h]

theorem getWord64_ok (b : BV) (h : b.Inv) (pos : Nat) (hp : pos < b.len) :
    ∃ v, b.getWord64 pos = .ok (some v) ∧ ∀ j, v.testBit j = (decide (j < 64) && b.bitAt (pos + j)) := by
  have hsz := h.size
  unfold getWord64
  have hg : ¬ b.len ≤ pos := by omega
  simp only [hg, if_false]
  rw [idx_ok _ _ (by omega)]
  simp only [Except.bind]
  have hhigh : ∀ w t, 64 ≤ t → (wordAt b.words w).testBit t = false := fun w t ht => testBit_high b h w t ht
  by_cases hc : pos % 64 ≠ 0 ∧ pos / 64 + 1 < b.words.size
  · simp only [hc, and_self, if_true, ne_eq, not_false_eq_true]
    rw [idx_ok _ _ hc.2]
    simp only [Except.bind]
    refine ⟨_, rfl, ?_⟩
    intro j
    rw [Nat.testBit_or, Nat.testBit_shiftRight, Nat.testBit_mod_two_pow, Nat.testBit_shiftLeft]
    by_cases hj : j < 64
    · by_cases h2 : pos % 64 + j < 64
      · have h1 : ¬ (j ≥ 64 - pos % 64) := by omega
        simp only [hj, h1, decide_true, decide_false, Bool.true_and, Bool.false_and, Bool.or_false]
        rw [bitAt_div, show (pos + j) / 64 = pos / 64 by omega, show (pos + j) % 64 = pos % 64 + j by omega]
      · have h1 : j ≥ 64 - pos % 64 := by omega
        have := hhigh (pos / 64) (pos % 64 + j) (by omega)
        simp only [hj, h1, decide_true, Bool.true_and, this, Bool.false_or]
        rw [bitAt_div, show (pos + j) / 64 = pos / 64 + 1 by omega, show (pos + j) % 64 = j - (64 - pos % 64) by omega]
    · have := hhigh (pos / 64) (pos % 64 + j) (by omega)
      simp [hj, this]
  · simp only [hc, if_false]
    refine ⟨_, rfl, ?_⟩
    intro j
    rw [Nat.testBit_shiftRight]
    by_cases hj : j < 64
    · by_cases h2 : pos % 64 + j < 64
      · simp only [hj, decide_true, Bool.true_and]
        rw [bitAt_div, show (pos + j) / 64 = pos / 64 by omega, show (pos + j) % 64 = pos % 64 + j by omega]
      · -- past the current word: either the shift is 0 (impossible here) or there is no next word
        have h3 := hhigh (pos / 64) (pos % 64 + j) (by omega)
        have hnw : ¬ (pos / 64 + 1 < b.words.size) := by
          intro hlt; apply hc; exact ⟨by omega, hlt⟩
        have hz := wordAt_ge b.words ((pos + j) / 64) (by omega)
        simp only [hj, decide_true, Bool.true_and, h3]
        rw [bitAt_div, hz]; simp
    · have := hhigh (pos / 64) (pos % 64 + j) (by omega)
      simp [hj, this]

end BV
end Sucds
