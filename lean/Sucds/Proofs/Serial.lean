import Sucds.Model.Serial
set_option linter.unusedSimpArgs false
set_option linter.unusedVariables false
namespace Sucds
namespace Codec

theorem leBytes_length (n k : Nat) : (leBytes n k).length = k := by
  induction k generalizing n with
  | zero => rfl
  | succ k ih => simp [leBytes, ih]

theorem ofLe_leBytes (n k : Nat) : ofLe (leBytes n k) = n % 256^k := by
  induction k generalizing n with
  | zero => simp [leBytes, ofLe, Nat.mod_one]
  | succ k ih =>
    simp only [leBytes, ofLe, ih]
    rw [Nat.pow_succ, Nat.mul_comm (256^k) 256, Nat.mod_mul]

theorem uint_good (k : Nat) : (uint k).Good (fun n => n < 256^k) where
  rt := by
    intro x rest hx
    simp only [uint]
    have hl := leBytes_length x k
    have h1 : ¬ (leBytes x k ++ rest).length < k := by simp [hl]
    simp only [h1, if_false]
    rw [List.take_append_of_le_length (by omega), List.take_of_length_le (by omega),
        List.drop_append_of_le_length (by omega), List.drop_of_length_le (by omega),
        ofLe_leBytes, Nat.mod_eq_of_lt hx]
    simp
  sz := by intro x; exact leBytes_length x k
  pre := by
    intro x j _ hj
    simp only [uint] at hj ⊢
    rw [leBytes_length] at hj
    have : ((leBytes x k).take j).length < k := by rw [List.length_take, leBytes_length]; omega
    rw [if_pos this]

theorem bool_good : bool.Good (fun _ => True) where
  rt := by intro x rest _; cases x <;> rfl
  sz := by intro x; rfl
  pre := by
    intro x k _ hk
    have : k = 0 := by simp [bool] at hk; omega
    subst this; rfl

theorem seq_good {α β} {a : Codec α} {b : Codec β} {va vb}
    (ha : a.Good va) (hb : b.Good vb) : (seq a b).Good (fun x => va x.1 ∧ vb x.2) where
  rt := by
    intro x rest ⟨h1, h2⟩
    simp only [seq, List.append_assoc, ha.rt _ _ h1, hb.rt _ _ h2]
  sz := by
    intro x; simp [seq, ha.sz, hb.sz]
  pre := by
    intro x k ⟨h1, h2⟩ hk
    simp only [seq, List.length_append] at hk ⊢
    by_cases hka : k < (a.put x.1).length
    · have : (a.put x.1 ++ b.put x.2).take k = (a.put x.1).take k := by
        rw [List.take_append_of_le_length (by omega)]
      rw [this, ha.pre _ _ h1 hka]
    · have : (a.put x.1 ++ b.put x.2).take k = a.put x.1 ++ (b.put x.2).take (k - (a.put x.1).length) := by
        rw [List.take_append]
        have : (a.put x.1).take k = a.put x.1 := List.take_of_length_le (by omega)
        rw [this]
      rw [this, ha.rt _ _ h1]
      simp only [hb.pre _ _ h2 (show k - (a.put x.1).length < (b.put x.2).length by omega)]

theorem iso_good {α β} {a : Codec α} {va} (ha : a.Good va) (f : α → β) (g : β → α) (vb : β → Prop)
    (hfg : ∀ y, vb y → f (g y) = y) (hv : ∀ y, vb y → va (g y)) : (iso a f g).Good vb where
  rt := by
    intro y rest hy
    simp only [iso, ha.rt _ _ (hv y hy), Option.map_some, hfg y hy]
  sz := by intro y; exact ha.sz _
  pre := by
    intro y k hy hk
    simp only [iso] at hk ⊢
    rw [ha.pre _ _ (hv y hy) hk]; rfl

theorem opt_good {α} {a : Codec α} {va} (ha : a.Good va) :
    (opt a).Good (fun o => ∀ x, o = some x → va x) where
  rt := by
    intro o rest ho
    cases o with
    | none => rfl
    | some x =>
      simp only [opt, bool, List.cons_append]
      have : ((1:Nat) != 0) = true := by decide
      simp only [this, ha.rt _ _ (ho x rfl)]
  sz := by
    intro o
    cases o with
    | none => rfl
    | some x => simp [opt, ha.sz, Nat.add_comm]
  pre := by
    intro o k ho hk
    cases o with
    | none =>
      have : k = 0 := by simp [opt] at hk; omega
      subst this; rfl
    | some x =>
      cases k with
      | zero => rfl
      | succ k =>
        simp only [opt, List.length_cons] at hk
        simp only [opt, List.take_succ_cons, bool]
        have h1 : ((1:Nat) != 0) = true := by decide
        simp only [h1, ha.pre _ _ (ho x rfl) (show k < (a.put x).length by omega)]

/-- elements of a vector, read back one by one -/
theorem getN_flatten {α} {a : Codec α} {va} (ha : a.Good va) (xs : List α) (hx : ∀ x ∈ xs, va x) (rest : List Nat) :
    getN a xs.length ((xs.map a.put).flatten ++ rest) = some (xs, rest) := by
  induction xs with
  | nil => rfl
  | cons x t ih =>
    simp only [List.length_cons, getN, List.map_cons, List.flatten_cons, List.append_assoc]
    rw [ha.rt _ _ (hx x (by simp))]
    simp only [ih (fun y hy => hx y (by simp [hy]))]

theorem getN_prefix {α} {a : Codec α} {va} (ha : a.Good va) (xs : List α) (hx : ∀ x ∈ xs, va x) (k : Nat)
    (hk : k < ((xs.map a.put).flatten).length) :
    getN a xs.length (((xs.map a.put).flatten).take k) = none := by
  induction xs generalizing k with
  | nil => simp at hk
  | cons x t ih =>
    simp only [List.length_cons, getN, List.map_cons, List.flatten_cons]
    simp only [List.map_cons, List.flatten_cons, List.length_append] at hk
    by_cases hka : k < (a.put x).length
    · rw [List.take_append_of_le_length (by omega), ha.pre _ _ (hx x (by simp)) hka]
    · have : (a.put x ++ (t.map a.put).flatten).take k = a.put x ++ ((t.map a.put).flatten).take (k - (a.put x).length) := by
        rw [List.take_append]
        have : (a.put x).take k = a.put x := List.take_of_length_le (by omega)
        rw [this]
      rw [this, ha.rt _ _ (hx x (by simp))]
      simp only [ih (fun y hy => hx y (by simp [hy])) (k - (a.put x).length) (by omega)]

theorem vec_good {α} {a : Codec α} {va} (ha : a.Good va) :
    (vec a).Good (fun xs => xs.length < 256^8 ∧ ∀ x ∈ xs, va x) where
  rt := by
    intro xs rest ⟨hl, hx⟩
    simp only [vec, List.append_assoc]
    have := (uint_good 8).rt xs.length ((xs.map a.put).flatten ++ rest) hl
    simp only [u64, uint] at this ⊢
    rw [this]
    exact getN_flatten ha xs hx rest
  sz := by
    intro xs
    simp only [vec, List.length_append, leBytes_length, List.length_flatten, List.map_map]
    congr 2
    apply List.map_congr_left
    intro x _; exact ha.sz x
  pre := by
    intro xs k ⟨hl, hx⟩ hk
    simp only [vec, List.length_append, leBytes_length] at hk ⊢
    by_cases hk8 : k < 8
    · have h1 := (uint_good 8).pre xs.length k hl (by simp [uint, leBytes_length]; exact hk8)
      rw [List.take_append_of_le_length (by rw [leBytes_length]; omega)]
      simp only [u64, uint] at h1 ⊢
      rw [h1]
    · have e : (leBytes xs.length 8 ++ (xs.map a.put).flatten).take k
          = leBytes xs.length 8 ++ ((xs.map a.put).flatten).take (k - 8) := by
        rw [List.take_append, leBytes_length]
        have : (leBytes xs.length 8).take k = leBytes xs.length 8 := List.take_of_length_le (by rw [leBytes_length]; omega)
        rw [this]
      rw [e]
      have := (uint_good 8).rt xs.length (((xs.map a.put).flatten).take (k - 8)) hl
      simp only [u64, uint] at this ⊢
      rw [this]
      exact getN_prefix ha xs hx (k - 8) (by omega)

end Codec

-- `BV.codec_good` is in Sucds/Proofs/SerialStruct.lean (the codec itself is generated from the Rust sources)

end Sucds
