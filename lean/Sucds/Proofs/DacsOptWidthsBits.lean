import Sucds.Proofs.C14Msb
import Sucds.Spec.Exec
import Sucds.Model.Dacs
/-! # `needed_bits` = bit length; the maximum of a slice; `nums_ints` (task F3, part 1)

`neededBits c x = SpecX.bitlen x` for every 64-bit `x` and every build configuration, monotonicity of
`bitlen`, `foldl max 0`, and the array `DacO.numsInts` as the function
`Ncount vals j` = number of values with more than `j` bits. -/
namespace Sucds.DacsOptW
open Sucds Sucds.Spec Sucds.Broadword Sucds.C14

/-! ### bit length -/

theorem bitlen_pos (x : Nat) : 1 ≤ SpecX.bitlen x := by
  unfold SpecX.bitlen; split <;> omega

theorem bitlen_le_iff (x k : Nat) (hk : 1 ≤ k) : SpecX.bitlen x ≤ k ↔ x < 2 ^ k := by
  unfold SpecX.bitlen
  by_cases hx : x = 0
  · subst hx
    have := Nat.two_pow_pos k
    simp only [if_true]; omega
  · simp only [hx, if_false]
    have := @Nat.log2_lt x k hx
    omega

theorem bitlen_le_64 (x : Nat) (hx : x < 2^64) : SpecX.bitlen x ≤ 64 :=
  (bitlen_le_iff x 64 (by omega)).2 hx

theorem lt_two_pow_bitlen (x : Nat) : x < 2 ^ SpecX.bitlen x := by
  unfold SpecX.bitlen
  by_cases hx : x = 0
  · subst hx; simp
  · simp only [hx, if_false]; exact Nat.lt_log2_self

theorem bitlen_mono {x y : Nat} (h : x ≤ y) : SpecX.bitlen x ≤ SpecX.bitlen y := by
  rw [bitlen_le_iff x _ (bitlen_pos y)]
  exact Nat.lt_of_le_of_lt h (lt_two_pow_bitlen y)

/-- the highest set bit of a non-zero word, in the vocabulary of `C14.msb_ok` -/
theorem sel_top_eq_log2 (x : BitVec 64) (hx : x ≠ 0) :
    sel (bitsOf x) 64 (cnt (bitsOf x) 64 - 1) = some x.toNat.log2 := by
  have hne : x.toNat ≠ 0 := by
    intro h; apply hx; apply BitVec.eq_of_toNat_eq; simpa using h
  have hlt : x.toNat.log2 < 64 := (Nat.log2_lt hne).2 x.isLt
  have htop : bitsOf x x.toNat.log2 = true := by
    simp only [bitsOf, BitVec.getLsbD]; exact Nat.testBit_log2 hne
  have hhigh : ∀ i, bitsOf x (x.toNat.log2 + 1 + i) = false := by
    intro i
    simp only [bitsOf, BitVec.getLsbD]
    apply Nat.testBit_lt_two_pow
    exact Nat.lt_of_lt_of_le Nat.lt_log2_self (Nat.pow_le_pow_right (by omega) (by omega))
  apply sel_eq_some
  refine ⟨hlt, htop, ?_⟩
  have e : 64 = (x.toNat.log2 + 1) + (64 - (x.toNat.log2 + 1)) := by omega
  have h1 : cnt (bitsOf x) 64
      = cnt (bitsOf x) (x.toNat.log2 + 1) + cnt (fun i => bitsOf x (x.toNat.log2 + 1 + i)) (64 - (x.toNat.log2 + 1)) := by
    conv => lhs; rw [e]
    exact cnt_add _ _ _
  have h2 : cnt (fun i => bitsOf x (x.toNat.log2 + 1 + i)) (64 - (x.toNat.log2 + 1)) = 0 :=
    cnt_zero_of_false _ _ (fun i _ => hhigh i)
  have h3 := cnt_succ_of_true (bitsOf x) _ htop
  omega

theorem msbW_eq (c : Cfg) (x : Nat) (hx : x < 2^64) :
    msbW c x = if x = 0 then none else some x.log2 := by
  unfold msbW
  rw [msb_ok]
  have htn : (BitVec.ofNat 64 x).toNat = x := by simp [BitVec.toNat_ofNat]; omega
  by_cases h0 : x = 0
  · subst h0; simp
  · have hne : BitVec.ofNat 64 x ≠ 0 := by
      intro h
      have := congrArg BitVec.toNat h
      rw [htn] at this
      simp at this; exact h0 this
    simp only [hne, h0, if_false]
    rw [sel_top_eq_log2 _ hne, htn]

/-- `utils::needed_bits` is the bit length (with `needed_bits(0) = 1`), in every build configuration -/
theorem neededBits_eq (c : Cfg) (x : Nat) (hx : x < 2^64) : neededBits c x = SpecX.bitlen x := by
  unfold neededBits SpecX.bitlen
  rw [msbW_eq c x hx]
  by_cases h0 : x = 0 <;> simp [h0]

/-! ### the maximum -/

theorem foldl_max_ge (l : List Nat) : ∀ (a : Nat), a ≤ l.foldl max a ∧ ∀ v ∈ l, v ≤ l.foldl max a := by
  induction l with
  | nil => intro a; simp
  | cons x t ih =>
    intro a
    obtain ⟨h1, h2⟩ := ih (max a x)
    simp only [List.foldl_cons]
    refine ⟨by omega, ?_⟩
    intro v hv
    rcases List.mem_cons.1 hv with rfl | hv
    · omega
    · exact h2 v hv

theorem foldl_max_mem (l : List Nat) : ∀ (a : Nat), l.foldl max a = a ∨ l.foldl max a ∈ l := by
  induction l with
  | nil => intro a; simp
  | cons x t ih =>
    intro a
    simp only [List.foldl_cons]
    rcases ih (max a x) with h | h
    · rw [h]
      by_cases hx : a ≤ x
      · right; rw [Nat.max_eq_right hx]; simp
      · left; omega
    · right; exact List.mem_cons_of_mem _ h

theorem maxv_mem (l : List Nat) (hne : l ≠ []) : l.foldl max 0 ∈ l := by
  rcases foldl_max_mem l 0 with h | h
  · cases l with
    | nil => exact absurd rfl hne
    | cons x t =>
      have := (foldl_max_ge (x :: t) 0).2 x (by simp)
      rw [h] at this ⊢
      have : x = 0 := by omega
      subst this; simp
  · exact h

theorem maxv_lt (l : List Nat) (hv : ∀ v ∈ l, v < 2^64) : l.foldl max 0 < 2^64 := by
  rcases foldl_max_mem l 0 with h | h
  · rw [h]; omega
  · exact hv _ h

end Sucds.DacsOptW
