import Sucds.Proofs.GenWavelet
import Sucds.Proofs.C09GenAux
/-! # `WaveletMatrix::new(&CompactVector::from_slice(s)?)` over the generated definitions, and non-vacuity of the
    hypotheses of `GenWavelet.lean` -/
set_option linter.unusedSimpArgs false
set_option linter.unusedVariables false
namespace Sucds.GenEq
open Sucds Sucds.Spec

/-- the usual way to obtain the input of `WaveletMatrix::new`: the generated `CompactVector::from_slice` returns a
    vector representing `s` whose size satisfies the hypotheses of `wm_new_eq` -/
theorem cv_from_slice_rep (c : Cfg) (s : List Nat) (hne : s ≠ []) (hmax : s.foldl max 0 + 1 < 2^64)
    (hbits : s.length * SpecX.bitlen (s.foldl max 0 + 1) + 64 < 2^64) :
    ∃ cv, GenFn.CompactVector.from_slice c s.toArray = .ok (.ok cv) ∧ CV.Rep cv s ∧ cv.len * cv.width < 2^64 := by
  have hs : ∀ x ∈ s, x < 2^64 := fun x hx => by
    have := (Wav.foldl_max_ge s 0).2 x hx; omega
  have hmono : CV.bitlen (s.foldl max 0) ≤ SpecX.bitlen (s.foldl max 0 + 1) := CV.bitlen_mono (Nat.le_succ _)
  have hle := Nat.mul_le_mul_left s.length hmono
  obtain ⟨v, hf, hr, hw⟩ := CV.fromSlice_ok c s hne hs
  refine ⟨v, ?_, hr, ?_⟩
  · rw [c09_from_slice_eq c s hs (by omega), hf]; rfl
  · rw [hr.len, hw]; omega

/-- **the pipeline** `WaveletMatrix::<Rank9Sel>::new(&CompactVector::from_slice(s)?)` -/
theorem wm_from_slice (c : Cfg) (s : List Nat) (hne : s ≠ []) (hmax : s.foldl max 0 + 1 < 2^64) (hn : s.length < 2^63)
    (hbits : s.length * SpecX.bitlen (s.foldl max 0 + 1) + 64 < 2^64) :
    ∃ cv g, GenFn.CompactVector.from_slice c s.toArray = .ok (.ok cv) ∧
      GenFn.WaveletMatrix_Rank9Sel.new c cv = .ok (.ok g) ∧ WM.new c .r9 s = .ok (some (absR9 g)) ∧
      GBuilt r9ops c g.layers g.alph_size_ s := by
  obtain ⟨cv, h1, h2, h3⟩ := cv_from_slice_rep c s hne hmax hbits
  obtain ⟨g, g1, g2, _, g4⟩ := wm_new_eq c cv s h2 hne hmax hn h3 (by omega)
  exact ⟨cv, g, h1, g1, g2, g4⟩

/-! ### the hypotheses are satisfiable: a concrete instance -/

/-- `[3, 1, 4, 1, 5, 9, 2, 6]`: in every configuration the generated constructor succeeds and the generated queries
    give the expected answers (obtained from the theorems, not by evaluation) -/
example (c : Cfg) : ∃ cv g, GenFn.CompactVector.from_slice c #[3, 1, 4, 1, 5, 9, 2, 6] = .ok (.ok cv) ∧
    GenFn.WaveletMatrix_Rank9Sel.new c cv = .ok (.ok g) ∧
    GenFn.WaveletMatrix_Rank9Sel.len g = .ok 8 ∧ GenFn.WaveletMatrix_Rank9Sel.alph_size g = 10 ∧
    GenFn.WaveletMatrix_Rank9Sel.access c g 2 = .ok (some 4) ∧
    GenFn.WaveletMatrix_Rank9Sel.access c g 8 = .ok none ∧
    GenFn.WaveletMatrix_Rank9Sel.rank c g 4 1 = .ok (some 2) ∧
    GenFn.WaveletMatrix_Rank9Sel.rank_range c g (1, 7) 1 = .ok (some 2) := by
  have hmax : [3, 1, 4, 1, 5, 9, 2, 6].foldl max 0 + 1 < 2^64 := by decide
  have hb := Wav.bitlen_le _ hmax
  obtain ⟨cv, g, h1, h2, _, hg⟩ := wm_from_slice c [3, 1, 4, 1, 5, 9, 2, 6] (by decide) hmax (by decide)
    (by have := Nat.mul_le_mul_left [3, 1, 4, 1, 5, 9, 2, 6].length hb
        have e : [3, 1, 4, 1, 5, 9, 2, 6].length = 8 := rfl
        rw [e] at this ⊢; omega)
  refine ⟨cv, g, h1, h2, wm_len_spec hg, wm_alph_size_spec hg, ?_, ?_, ?_, ?_⟩
  · rw [wm_access_spec hg 2 (by decide)]; rfl
  · rw [wm_access_spec hg 8 (by decide)]; rfl
  · rw [wm_rank_spec hg 4 1 (by decide)]; rfl
  · rw [wm_rank_range_spec hg 1 7 1 (by decide) (by decide)]; rfl

end Sucds.GenEq
