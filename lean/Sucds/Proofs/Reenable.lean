import Sucds.Proofs.GenRank9Sel
import Sucds.Proofs.GenDArray
import Sucds.Proofs.GenEFQueries
import Sucds.Proofs.GenSArray
/-! # Index builders applied to a structure that already carries the index

`Rank9Sel::select1_hints()` / `select0_hints()` called twice, `DArray::enable_rank()` after
`build_from_bits(.., with_rank = true, ..)`, `EliasFano::enable_rank()` / `SArray::enable_rank()` called twice:
every builder recomputes its table from data the builders never touch (the rank directory `pairs`, the bit
vector), so

* each builder is **idempotent** (`…_idem`),
* two different builders **commute** (`…_comm`), and each one leaves the other's table alone
  (`buildSelect0_of_buildSelect1`, `buildSelect1_of_buildSelect0`),
* `build_select1` never panics at all (`buildSelect1_total`: `block_rank(i + 1)` is read for `i < num_blocks` only).

All of this holds for every input and every configuration, with no hypothesis. The last section transports the
statements to the definitions generated from the Rust code (`Sucds.GenFn.*`), under exactly the hypotheses of the
existing equivalence theorems (`GenRank9Build`, `GenRank9Sel`, `GenDArray`, `GenEFQueries`, `GenSArray`). -/
namespace Sucds

private theorem rbind_ok {ε α β : Type} (v : α) (f : α → Except ε β) : (Except.ok v : Except ε α).bind f = f v := rfl
private theorem rbind_err {ε α β : Type} (e : ε) (f : α → Except ε β) :
    (Except.error e : Except ε α).bind f = .error e := rfl

namespace R9Index

/-! ## the hint loops read the directory only -/

theorem blockRank_of_pairs {x y : R9Index} (h : y.pairs = x.pairs) (t : Nat) : y.blockRank t = x.blockRank t := by
  unfold blockRank; rw [h]

theorem numBlocks_of_pairs {x y : R9Index} (h : y.pairs = x.pairs) : y.numBlocks = x.numBlocks := by
  unfold numBlocks; rw [h]

theorem blockRank0_of_pairs (c : Cfg) {x y : R9Index} (h : y.pairs = x.pairs) (t : Nat) :
    y.blockRank0 c t = x.blockRank0 c t := by
  unfold blockRank0; rw [blockRank_of_pairs h]

theorem hintStep_of_pairs {x y : R9Index} (h : y.pairs = x.pairs) (st : Array Nat × Nat) (i : Nat) :
    hintStep y st i = hintStep x st i := by
  unfold hintStep; rw [blockRank_of_pairs h]

theorem hintLoop_of_pairs {x y : R9Index} (h : y.pairs = x.pairs) (i fuel : Nat) (st : Array Nat × Nat) :
    hintLoop y i fuel st = hintLoop x i fuel st := by
  induction fuel generalizing i st with
  | zero => rfl
  | succ n ih =>
    unfold hintLoop
    rw [hintStep_of_pairs h]
    cases hintStep x st i with
    | error e => rfl
    | ok st' => rw [rbind_ok, rbind_ok, ih]

theorem hintStep0_of_pairs (c : Cfg) {x y : R9Index} (h : y.pairs = x.pairs) (st : Array Nat × Nat) (i : Nat) :
    hintStep0 c y st i = hintStep0 c x st i := by
  unfold hintStep0; rw [blockRank0_of_pairs c h]

theorem hintLoop0_of_pairs (c : Cfg) {x y : R9Index} (h : y.pairs = x.pairs) (i fuel : Nat) (st : Array Nat × Nat) :
    hintLoop0 c y i fuel st = hintLoop0 c x i fuel st := by
  induction fuel generalizing i st with
  | zero => rfl
  | succ n ih =>
    unfold hintLoop0
    rw [hintStep0_of_pairs c h]
    cases hintStep0 c x st i with
    | error e => rfl
    | ok st' => rw [rbind_ok, rbind_ok, ih]

/-! ## what a builder returns -/

/-- `build_select1` only replaces the field `sel1` -/
theorem buildSelect1_shape {x y : R9Index} (h : x.buildSelect1 = .ok y) :
    ∃ s, y = { x with sel1 := some s } := by
  unfold buildSelect1 at h
  cases e : hintLoop x 0 x.numBlocks (#[], Gen.R9_SELECT_ONES_PER_HINT) with
  | error p => rw [e, rbind_err] at h; cases h
  | ok st => rw [e, rbind_ok] at h; cases h; exact ⟨_, rfl⟩

/-- `build_select0` only replaces the field `sel0` -/
theorem buildSelect0_shape (c : Cfg) {x y : R9Index} (h : x.buildSelect0 c = .ok y) :
    ∃ s, y = { x with sel0 := some s } := by
  unfold buildSelect0 at h
  cases e : hintLoop0 c x 0 x.numBlocks (#[], Gen.R9_SELECT_ZEROS_PER_HINT) with
  | error p => rw [e, rbind_err] at h; cases h
  | ok st => rw [e, rbind_ok] at h; cases h; exact ⟨_, rfl⟩

theorem buildSelect1_keeps {x y : R9Index} (h : x.buildSelect1 = .ok y) :
    y.len = x.len ∧ y.pairs = x.pairs ∧ y.sel0 = x.sel0 ∧ y.sel1.isSome := by
  obtain ⟨s, rfl⟩ := buildSelect1_shape h
  exact ⟨rfl, rfl, rfl, rfl⟩

theorem buildSelect0_keeps (c : Cfg) {x y : R9Index} (h : x.buildSelect0 c = .ok y) :
    y.len = x.len ∧ y.pairs = x.pairs ∧ y.sel1 = x.sel1 ∧ y.sel0.isSome := by
  obtain ⟨s, rfl⟩ := buildSelect0_shape c h
  exact ⟨rfl, rfl, rfl, rfl⟩

/-- the result of `build_select1` does not depend on the hint tables already present -/
theorem buildSelect1_of_pairs {x y : R9Index} (h : y.pairs = x.pairs) :
    y.buildSelect1 = x.buildSelect1.map fun z => { y with sel1 := z.sel1 } := by
  unfold buildSelect1
  rw [hintLoop_of_pairs h, numBlocks_of_pairs h]
  cases hintLoop x 0 x.numBlocks (#[], Gen.R9_SELECT_ONES_PER_HINT) <;> rfl

/-- the result of `build_select0` does not depend on the hint tables already present -/
theorem buildSelect0_of_pairs (c : Cfg) {x y : R9Index} (h : y.pairs = x.pairs) :
    y.buildSelect0 c = (x.buildSelect0 c).map fun z => { y with sel0 := z.sel0 } := by
  unfold buildSelect0
  rw [hintLoop0_of_pairs c h, numBlocks_of_pairs h]
  cases hintLoop0 c x 0 x.numBlocks (#[], Gen.R9_SELECT_ZEROS_PER_HINT) <;> rfl

/-! ## idempotence -/

/-- **`build_select1` twice = once** -/
theorem buildSelect1_idem {x y : R9Index} (h : x.buildSelect1 = .ok y) : y.buildSelect1 = .ok y := by
  rw [buildSelect1_of_pairs (buildSelect1_keeps h).2.1, h]
  rfl

/-- **`build_select0` twice = once** -/
theorem buildSelect0_idem (c : Cfg) {x y : R9Index} (h : x.buildSelect0 c = .ok y) : y.buildSelect0 c = .ok y := by
  rw [buildSelect0_of_pairs c (buildSelect0_keeps c h).2.1, h]
  rfl

theorem buildSelect1_idem' (x : R9Index) : x.buildSelect1.bind buildSelect1 = x.buildSelect1 := by
  cases e : x.buildSelect1 with
  | error p => rfl
  | ok y => rw [rbind_ok]; exact buildSelect1_idem e

theorem buildSelect0_idem' (c : Cfg) (x : R9Index) :
    (x.buildSelect0 c).bind (buildSelect0 c) = x.buildSelect0 c := by
  cases e : x.buildSelect0 c with
  | error p => rfl
  | ok y => rw [rbind_ok]; exact buildSelect0_idem c e

/-! ## `build_select1` never panics -/

theorem blockRank_ok_of_le (x : R9Index) (t : Nat) (h1 : 1 ≤ t) (ht : t ≤ x.numBlocks) :
    ∃ v, x.blockRank t = .ok v := by
  unfold numBlocks at ht
  unfold blockRank idx
  have hlt : t * 2 < x.pairs.size := by omega
  rw [Array.getElem?_eq_getElem hlt]
  exact ⟨_, rfl⟩

theorem hintLoop_total (x : R9Index) (i fuel : Nat) (st : Array Nat × Nat) (h : i + fuel ≤ x.numBlocks) :
    ∃ st', hintLoop x i fuel st = .ok st' := by
  induction fuel generalizing i st with
  | zero => exact ⟨st, rfl⟩
  | succ n ih =>
    unfold hintLoop hintStep
    obtain ⟨v, hv⟩ := blockRank_ok_of_le x (i + 1) (by omega) (by omega)
    rw [hv, rbind_ok]
    split
    · rw [rbind_ok]; exact ih _ _ (by omega)
    · rw [rbind_ok]; exact ih _ _ (by omega)

/-- **`build_select1` succeeds on every index** (whatever the directory holds) -/
theorem buildSelect1_total (x : R9Index) : ∃ y, x.buildSelect1 = .ok y := by
  unfold buildSelect1
  obtain ⟨st, hst⟩ := hintLoop_total x 0 x.numBlocks (#[], Gen.R9_SELECT_ONES_PER_HINT) (by omega)
  rw [hst, rbind_ok]
  exact ⟨_, rfl⟩

/-! ## the two builders do not interfere -/

/-- building the one-side table does not change what `build_select0` computes -/
theorem buildSelect0_of_buildSelect1 (c : Cfg) {x y : R9Index} (h : x.buildSelect1 = .ok y) :
    y.buildSelect0 c = (x.buildSelect0 c).map fun z => { z with sel1 := y.sel1 } := by
  obtain ⟨s, rfl⟩ := buildSelect1_shape h
  rw [buildSelect0_of_pairs c (x := x) (y := { x with sel1 := some s }) rfl]
  cases e : x.buildSelect0 c with
  | error p => rfl
  | ok z =>
    obtain ⟨s0, rfl⟩ := buildSelect0_shape c e
    rfl

/-- building the zero-side table does not change what `build_select1` computes -/
theorem buildSelect1_of_buildSelect0 (c : Cfg) {x y : R9Index} (h : x.buildSelect0 c = .ok y) :
    y.buildSelect1 = x.buildSelect1.map fun z => { z with sel0 := y.sel0 } := by
  obtain ⟨s, rfl⟩ := buildSelect0_shape c h
  rw [buildSelect1_of_pairs (x := x) (y := { x with sel0 := some s }) rfl]
  cases e : x.buildSelect1 with
  | error p => rfl
  | ok z =>
    obtain ⟨s1, rfl⟩ := buildSelect1_shape e
    rfl

/-- **the two builders commute** (same value, same panic) -/
theorem buildSelect_comm (c : Cfg) (x : R9Index) :
    x.buildSelect1.bind (buildSelect0 c) = (x.buildSelect0 c).bind buildSelect1 := by
  obtain ⟨y, hy⟩ := buildSelect1_total x
  rw [hy, rbind_ok, buildSelect0_of_buildSelect1 c hy]
  cases e : x.buildSelect0 c with
  | error p => rfl
  | ok z =>
    rw [rbind_ok, buildSelect1_of_buildSelect0 c e, hy]
    obtain ⟨s1, rfl⟩ := buildSelect1_shape hy
    obtain ⟨s0, rfl⟩ := buildSelect0_shape c e
    rfl

end R9Index

/-! ## `Rank9Sel::select1_hints` / `select0_hints` -/
namespace R9

theorem select1Hints_shape {x y : R9} (h : x.select1Hints = .ok y) :
    y.bv = x.bv ∧ x.rs.buildSelect1 = .ok y.rs := by
  unfold select1Hints at h
  cases e : x.rs.buildSelect1 with
  | error p => rw [e, rbind_err] at h; cases h
  | ok rs => rw [e, rbind_ok] at h; cases h; exact ⟨rfl, rfl⟩

theorem select0Hints_shape (c : Cfg) {x y : R9} (h : x.select0Hints c = .ok y) :
    y.bv = x.bv ∧ x.rs.buildSelect0 c = .ok y.rs := by
  unfold select0Hints at h
  cases e : x.rs.buildSelect0 c with
  | error p => rw [e, rbind_err] at h; cases h
  | ok rs => rw [e, rbind_ok] at h; cases h; exact ⟨rfl, rfl⟩

/-- **`select1_hints()` twice = once** -/
theorem select1Hints_idem {x y : R9} (h : x.select1Hints = .ok y) : y.select1Hints = .ok y := by
  obtain ⟨_, h2⟩ := select1Hints_shape h
  unfold select1Hints
  rw [R9Index.buildSelect1_idem h2]
  rfl

/-- **`select0_hints()` twice = once** -/
theorem select0Hints_idem (c : Cfg) {x y : R9} (h : x.select0Hints c = .ok y) : y.select0Hints c = .ok y := by
  obtain ⟨_, h2⟩ := select0Hints_shape c h
  unfold select0Hints
  rw [R9Index.buildSelect0_idem c h2]
  rfl

theorem select1Hints_idem' (x : R9) : x.select1Hints.bind select1Hints = x.select1Hints := by
  cases e : x.select1Hints with
  | error p => rfl
  | ok y => rw [rbind_ok]; exact select1Hints_idem e

theorem select0Hints_idem' (c : Cfg) (x : R9) : (x.select0Hints c).bind (select0Hints c) = x.select0Hints c := by
  cases e : x.select0Hints c with
  | error p => rfl
  | ok y => rw [rbind_ok]; exact select0Hints_idem c e

/-- `select1_hints()` never panics -/
theorem select1Hints_total (x : R9) : ∃ y, x.select1Hints = .ok y := by
  obtain ⟨rs, h⟩ := R9Index.buildSelect1_total x.rs
  unfold select1Hints
  rw [h]
  exact ⟨_, rfl⟩

/-- **`select1_hints()` and `select0_hints()` commute** (same value, same panic) -/
theorem selectHints_comm (c : Cfg) (x : R9) :
    x.select1Hints.bind (select0Hints c) = (x.select0Hints c).bind select1Hints := by
  have hc := R9Index.buildSelect_comm c x.rs
  unfold select1Hints select0Hints
  cases e1 : x.rs.buildSelect1 with
  | error p =>
    obtain ⟨y, hy⟩ := R9Index.buildSelect1_total x.rs
    rw [hy] at e1; cases e1
  | ok y =>
    rw [e1, rbind_ok] at hc
    rw [rbind_ok, rbind_ok]
    show (y.buildSelect0 c).bind (fun rs => (.ok ⟨x.bv, rs⟩ : R R9)) = _
    rw [hc]
    cases e0 : x.rs.buildSelect0 c with
    | error p => rfl
    | ok z => rfl

end R9

/-! ## `DArray::enable_rank` / `enable_select0` -/
namespace DA

/-- **`enable_rank()` twice = once** (also: `enable_rank()` after `build_from_bits(.., with_rank = true, ..)`) -/
theorem enableRank_idem (c : Cfg) (x : DA) : enableRank c (enableRank c x) = enableRank c x := rfl

/-- **`enable_select0()` twice = once** -/
theorem enableSelect0_idem (c : Cfg) (x : DA) : enableSelect0 c (enableSelect0 c x) = enableSelect0 c x := rfl

/-- **`enable_rank()` and `enable_select0()` commute** -/
theorem enable_comm (c : Cfg) (x : DA) : enableSelect0 c (enableRank c x) = enableRank c (enableSelect0 c x) := rfl

/-- `enable_rank()` on the result of `build` with `with_rank = true` changes nothing -/
theorem enableRank_build (c : Cfg) (bv : BV) (sel0 : Bool) :
    enableRank c (build c bv true sel0) = build c bv true sel0 := by
  cases sel0 <;> rfl

/-- `enable_select0()` on the result of `build` with `with_select0 = true` changes nothing -/
theorem enableSelect0_build (c : Cfg) (bv : BV) (rank : Bool) :
    enableSelect0 c (build c bv rank true) = build c bv rank true := by
  cases rank <;> rfl

end DA

/-! ## `EliasFano::enable_rank`, `SArray::enable_rank` -/

/-- **`EliasFano::enable_rank()` twice = once** -/
theorem EF.enableRank_idem (c : Cfg) (e : EF) : EF.enableRank c (EF.enableRank c e) = EF.enableRank c e := rfl

/-- **`SArray::enable_rank()` twice = once** -/
theorem SA.enableRank_idem (c : Cfg) (s : SA) : SA.enableRank c (SA.enableRank c s) = SA.enableRank c s := by
  obtain ⟨ef, nb, no, hr⟩ := s
  cases ef <;> rfl

/-! ## the same for the definitions generated from the Rust code -/
namespace GenEq
open R9Index

theorem dirOk_of_pairs {x y : R9Index} (h : y.pairs = x.pairs) (hx : DirOk x) : DirOk y :=
  ⟨by rw [h]; exact hx.two, by rw [h]; exact hx.size,
   fun t ht => by rw [h]; exact hx.rank t (by rw [← numBlocks_of_pairs h]; exact ht)⟩

theorem dirOk0_of_pairs {x y : R9Index} (h : y.pairs = x.pairs) (hx : DirOk0 x) : DirOk0 y :=
  ⟨by rw [h]; exact hx.two, by rw [h]; exact hx.size,
   fun t ht => by rw [h]; exact hx.le t (by rw [← numBlocks_of_pairs h]; exact ht),
   by rw [numBlocks_of_pairs h]; exact hx.room⟩

/-- generated `Rank9SelIndex::build_select1` twice = once -/
theorem gen_build_select1_idem (c : Cfg) (x y : R9Index) (hx : DirOk x)
    (h : GenFn.Rank9SelIndex.build_select1 c x = .ok y) : GenFn.Rank9SelIndex.build_select1 c y = .ok y := by
  rw [build_select1_eq_of c x hx] at h
  rw [build_select1_eq_of c y (dirOk_of_pairs (buildSelect1_keeps h).2.1 hx)]
  exact buildSelect1_idem h

/-- generated `Rank9SelIndex::build_select0` twice = once -/
theorem gen_build_select0_idem (c : Cfg) (x y : R9Index) (hx : DirOk0 x)
    (h : GenFn.Rank9SelIndex.build_select0 c x = .ok y) : GenFn.Rank9SelIndex.build_select0 c y = .ok y := by
  rw [build_select0_eq_of c x hx] at h
  rw [build_select0_eq_of c y (dirOk0_of_pairs (buildSelect0_keeps c h).2.1 hx)]
  exact buildSelect0_idem c h

/-- generated `Rank9Sel::select1_hints()` twice = once, under the hypotheses of `rs_select1_hints_eq` -/
theorem gen_select1_hints_idem (c : Cfg) (x y : R9) (h : x.bv.Inv) (hl : x.bv.len + 1023 < 2^64)
    (hx : x.rs.pairs = (buildRank c x.bv).pairs) (hy : GenFn.Rank9Sel.select1_hints c x = .ok y) :
    GenFn.Rank9Sel.select1_hints c y = .ok y := by
  rw [rs_select1_hints_eq c x h hl hx] at hy
  obtain ⟨hb, hr⟩ := R9.select1Hints_shape hy
  rw [rs_select1_hints_eq c y (by rw [hb]; exact h) (by rw [hb]; exact hl)
    (by rw [hb, (buildSelect1_keeps hr).2.1]; exact hx)]
  exact R9.select1Hints_idem hy

/-- generated `Rank9Sel::select0_hints()` twice = once, under the hypotheses of `rs_select0_hints_eq` -/
theorem gen_select0_hints_idem (c : Cfg) (x y : R9) (h : x.bv.Inv) (hl : x.bv.len + 1534 < 2^64)
    (hx : x.rs.pairs = (buildRank c x.bv).pairs) (hy : GenFn.Rank9Sel.select0_hints c x = .ok y) :
    GenFn.Rank9Sel.select0_hints c y = .ok y := by
  rw [rs_select0_hints_eq c x h hl hx] at hy
  obtain ⟨hb, hr⟩ := R9.select0Hints_shape c hy
  rw [rs_select0_hints_eq c y (by rw [hb]; exact h) (by rw [hb]; exact hl)
    (by rw [hb, (buildSelect0_keeps c hr).2.1]; exact hx)]
  exact R9.select0Hints_idem c hy

/-- generated `select1_hints()` and `select0_hints()` commute (same value, same panic) -/
theorem gen_select_hints_comm (c : Cfg) (x : R9) (h : x.bv.Inv) (hl : x.bv.len + 1534 < 2^64)
    (hx : x.rs.pairs = (buildRank c x.bv).pairs) :
    (GenFn.Rank9Sel.select1_hints c x).bind (GenFn.Rank9Sel.select0_hints c)
      = (GenFn.Rank9Sel.select0_hints c x).bind (GenFn.Rank9Sel.select1_hints c) := by
  have hc := R9.selectHints_comm c x
  obtain ⟨y, hy⟩ := R9.select1Hints_total x
  obtain ⟨hb, hr⟩ := R9.select1Hints_shape hy
  rw [rs_select1_hints_eq c x h (by omega) hx, rs_select0_hints_eq c x h hl hx, hy, rbind_ok,
    rs_select0_hints_eq c y (by rw [hb]; exact h) (by rw [hb]; exact hl)
      (by rw [hb, (buildSelect1_keeps hr).2.1]; exact hx)]
  rw [hy, rbind_ok] at hc
  rw [hc]
  cases e : x.select0Hints c with
  | error p => rfl
  | ok z =>
    obtain ⟨hb0, hr0⟩ := R9.select0Hints_shape c e
    rw [rbind_ok, rbind_ok]
    exact (rs_select1_hints_eq c z (by rw [hb0]; exact h) (by rw [hb0]; omega)
      (by rw [hb0, (buildSelect0_keeps c hr0).2.1]; exact hx)).symm

/-- generated `DArray::enable_rank()` twice = once, under the hypotheses of `da_enable_rank_eq` -/
theorem gen_da_enable_rank_idem (c : Cfg) (x : DA) (h : x.bv.Inv) (hl : x.bv.len < 2^64) :
    (GenFn.DArray.enable_rank c x).bind (GenFn.DArray.enable_rank c) = GenFn.DArray.enable_rank c x := by
  rw [da_enable_rank_eq c x h hl, rbind_ok]
  exact da_enable_rank_eq c (x.enableRank c) h hl

/-- generated `DArray::enable_select0()` twice = once, under the hypotheses of `da_enable_select0_eq` -/
theorem gen_da_enable_select0_idem (c : Cfg) (x : DA) (h : x.bv.Inv) (hl : x.bv.len < 2^63) :
    (GenFn.DArray.enable_select0 c x).bind (GenFn.DArray.enable_select0 c) = GenFn.DArray.enable_select0 c x := by
  rw [da_enable_select0_eq c x h hl, rbind_ok]
  exact da_enable_select0_eq c (x.enableSelect0 c) h hl

/-- generated `DArray::enable_rank()` and `enable_select0()` commute -/
theorem gen_da_enable_comm (c : Cfg) (x : DA) (h : x.bv.Inv) (hl : x.bv.len < 2^63) :
    (GenFn.DArray.enable_rank c x).bind (GenFn.DArray.enable_select0 c)
      = (GenFn.DArray.enable_select0 c x).bind (GenFn.DArray.enable_rank c) := by
  rw [da_enable_rank_eq c x h (by omega), da_enable_select0_eq c x h hl, rbind_ok, rbind_ok,
    da_enable_select0_eq c (x.enableRank c) h hl, da_enable_rank_eq c (x.enableSelect0 c) h (by omega : x.bv.len < 2^64)]
  rfl

/-- generated `EliasFano::enable_rank()` twice = once, under the hypotheses of `ef_enable_rank_eq` -/
theorem gen_ef_enable_rank_idem (c : Cfg) (e : EF) (h : e.high.bv.Inv) (hl : e.high.bv.len < 2^63) :
    (GenFn.EliasFano.enable_rank c e).bind (GenFn.EliasFano.enable_rank c) = GenFn.EliasFano.enable_rank c e := by
  rw [ef_enable_rank_eq c e h hl, rbind_ok]
  exact ef_enable_rank_eq c (e.enableRank c) h hl

/-- generated `SArray::enable_rank()` twice = once, under the hypotheses of `sa_enable_rank_eq` -/
theorem gen_sa_enable_rank_idem (c : Cfg) (s : SA)
    (h : ∀ e, s.ef = some e → e.high.bv.Inv ∧ e.high.bv.len < 2^63) :
    (GenFn.SArray.enable_rank c s).bind (GenFn.SArray.enable_rank c) = GenFn.SArray.enable_rank c s := by
  rw [sa_enable_rank_eq c s h, rbind_ok, sa_enable_rank_eq c (s.enableRank c), SA.enableRank_idem]
  intro e he
  obtain ⟨ef, nb, no, hr⟩ := s
  cases ef with
  | none => cases he
  | some e' =>
    have : EF.enableRank c e' = e := Option.some.inj he
    subst this
    exact h e' rfl

end GenEq
end Sucds
