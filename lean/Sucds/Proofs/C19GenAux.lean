import Sucds.Props.C19
import Sucds.Proofs.GenBitVectorRW
import Sucds.Proofs.C09GenAux
import Sucds.Proofs.GenRank9Sel
import Sucds.Proofs.GenDArray
import Sucds.Proofs.GenEliasFano
import Sucds.Proofs.GenSArray
import Sucds.Proofs.GenPsef
import Sucds.Proofs.GenDacsByte
import Sucds.Proofs.GenDacsOpt
import Sucds.Proofs.GenWavelet
import Sucds.Proofs.C05GenAux
/-! # Helpers for `Props/C19Gen.lean`: each space bound of C19 transferred to the value the *generated* constructor
    returns (constructor equivalence from `Gen*.lean` + the model-level bound from `Space*.lean`) -/
set_option linter.unusedVariables false
namespace Sucds.GenEq
open Sucds Sucds.Spec Sucds.Space Sucds.EFB

/-- number of set bits of a bit sequence -/
abbrev onesOf (bits : List Bool) : Nat := cnt (fun j => bits.getD j false) bits.length

theorem fromBits_cnt (bits : List Bool) :
    cnt (BV.fromBits bits).bitAt (BV.fromBits bits).len = onesOf bits := by
  have hbit : (BV.fromBits bits).bitAt = fun j => bits.getD j false := funext (fun j => BV.fromBits_bitAt bits j)
  rw [hbit, BV.fromBits_len]

/-- `BitVector::from_bits` -/
theorem c19_bitvector (c : Cfg) (xs : List Bool) (hl : xs.length < 2^64) :
    ∃ b, GenFn.BitVector.from_bits c xs = .ok b ∧ 8 * BV.sizeInBytes b = 64 * ((xs.length + 63) / 64) + 128 := by
  refine ⟨_, from_bits_eq c xs hl, ?_⟩
  rw [BV.sizeInBytes_eq, bitvector_bits _ (BV.fromBits_spec xs).1, BV.fromBits_len]

/-- `CompactVector::from_slice` (the empty slice gives the `Default` vector) -/
theorem c19_cv_from_slice (c : Cfg) (vals : List Nat) (hs : ∀ x ∈ vals, x < 2^64)
    (hsz : vals.length * CV.bitlen (vals.foldl max 0) + 64 < 2^64) :
    ∃ v, GenFn.CompactVector.from_slice c vals.toArray = .ok (.ok v) ∧
      8 * CV.sizeInBytes v = 64 * ((v.len * v.width + 63) / 64) + 256 := by
  have h := CV.construct_spec c (.fromSlice vals) hs
  have e : ∃ p, CV.specCtor (.fromSlice vals) = some p := by
    simp only [CV.specCtor]; split <;> exact ⟨_, rfl⟩
  obtain ⟨⟨w, xs⟩, e⟩ := e
  rw [e] at h
  obtain ⟨v, hv, hr, _⟩ := h
  simp only [CV.construct] at hv
  refine ⟨v, by rw [c09_from_slice_eq c vals hs hsz, hv]; rfl, ?_⟩
  rw [CV.sizeInBytes_eq, compactvector_bits v xs hr]

/-- `CompactVector::from_int` -/
theorem c19_cv_from_int (c : Cfg) (val len width : Nat) (hv : val < 2^64) (hsz : len * width + 64 < 2^64)
    (v : CV) (e : GenFn.CompactVector.from_int c val len width = .ok (.ok v)) :
    8 * CV.sizeInBytes v = 64 * ((v.len * v.width + 63) / 64) + 256 := by
  rw [cv_from_int_eq c val len width hsz] at e
  have h := CV.construct_spec c (.fromInt val len width) hv
  simp only [CV.construct] at h
  cases hsp : CV.specCtor (.fromInt val len width) with
  | none => rw [hsp] at h; rw [h] at e; cases e
  | some p =>
    obtain ⟨w, xs⟩ := p
    rw [hsp] at h
    obtain ⟨v', hv', hr, _⟩ := h
    rw [hv'] at e
    injection e with e; injection e with e
    subst e
    rw [CV.sizeInBytes_eq, compactvector_bits v' xs hr]

/-- `Rank9Sel::build_from_bits`, every hint configuration -/
theorem c19_rank9sel (c : Cfg) (bs : List Bool) (r h1 h0 : Bool)
    (hl : bs.length + (if h0 then 1534 else if h1 then 1023 else 0) < 2^64) :
    ∃ x, GenFn.Rank9Sel.build_from_bits c bs r h1 h0 = .ok (.ok x) ∧
      100 * (8 * R9.sizeInBytes x) ≤ 132 * bs.length + 204800 := by
  obtain ⟨x, hx, hb⟩ := rank9sel_bound c (BV.fromBits bs) (BV.fromBits_spec bs).1 h1 h0
  rw [BV.fromBits_len] at hb
  exact ⟨x, by rw [rs_build_from_bits_eq c bs r h1 h0 hl, hx]; rfl, hb⟩

/-- `DArray::build_from_bits`, every index configuration -/
theorem c19_darray (c : Cfg) (bs : List Bool) (rank sel1 sel0 : Bool) (hl : bs.length < 2^63) :
    ∃ x, GenFn.DArray.build_from_bits c bs rank sel1 sel0 = .ok (.ok x) ∧
      100 * (8 * DA.sizeInBytes x) ≤
        bs.length * (100 + 102 * (1 + (if sel0 then 1 else 0)) + 26 * (if rank then 1 else 0)) + 409600 := by
  have hb := darray_bound c (BV.fromBits bs) (BV.fromBits_spec bs).1 rank sel0
  rw [BV.fromBits_len] at hb
  exact ⟨_, da_build_from_bits_eq c bs rank sel1 sel0 hl, by rw [DA.sizeInBytes_eq]; exact hb⟩

/-- `EliasFanoBuilder::new(u, m)`, any push history, `build()`, `enable_rank()`: the builders do not depend on the
    configuration, the built structures are the model's -/
theorem c19_eliasfano_core (u m : Nat) (hist : List Nat) (hm : m ≠ 0) (hu : u < 2^64)
    (hsz : m + (u >>> (msbN (u / m)).getD 0) + 2 < 2^63) :
    ∃ b0 b' vs, ∀ c : Cfg, GenFn.EliasFanoBuilder.new c u m = .ok (.ok b0) ∧ genRun c b0 hist = .ok (b', vs) ∧
      GenFn.EliasFanoBuilder.build c b' = .ok (EF.ofBuilder c b') ∧
      GenFn.EliasFano.enable_rank c (EF.ofBuilder c b') = .ok ((EF.ofBuilder c b').enableRank c) ∧
      8 * EF.sizeInBytes (EF.ofBuilder c b') ≤ m * (msbN (u / m)).getD 0 + 7 * m + 8192 ∧
      8 * EF.sizeInBytes ((EF.ofBuilder c b').enableRank c) ≤ m * (msbN (u / m)).getD 0 + 11 * m + 8192 := by
  have hsz' : m + (u >>> lowLenOf u m) + 2 < 2^63 := hsz
  obtain ⟨b0, hn, hh, hu0, hm0⟩ := new_holds u m hm hu
  have hf0 : Fits b0 := fits_new u m b0 hu hn (by omega)
  obtain ⟨b', hr, hh', hub, hmb⟩ := run_spec hist b0 [] hh
  have hll : b'.lowLen = lowLenOf u m := by rw [efb_run_lowLen hist b0 b' _ hr, efb_new_lowLen u m b0 hn]
  rw [hu0, hm0] at hr hh'
  rw [hu0] at hub
  rw [hm0] at hmb
  refine ⟨b0, b', (verdicts u m [] hist).map resU, fun c => ?_⟩
  have hgn : GenFn.EliasFanoBuilder.new c u m = .ok (RS.Res.ok b0) := by
    rw [efb_new_eq c u m hu (fun _ => by omega), hn]; rfl
  obtain ⟨e1, e2⟩ := genRun_eq c hist b0 hf0
  have hf' : Fits b' := e2 b' _ hr
  obtain ⟨g1, _⟩ := efb_built_bounds b' _ u m hh' hf' hub hmb hll hsz'
  have hbv : (EF.ofBuilder c b').high.bv = b'.high := EFQ.ofBuilder_bv c b' hh'.hinv
  obtain ⟨s1, s2⟩ := eliasfano_bound c b' _ hh' (by rw [hmb]; exact hm) (by rw [hll, hub, hmb]; rfl)
  rw [hmb, hll] at s1 s2
  refine ⟨hgn, by rw [e1, hr]; rfl,
    ef_build_eq c b' g1, ef_enable_rank_eq c _ (by rw [hbv]; exact hh'.hinv) (by rw [hbv]; exact g1), ?_, ?_⟩
  · rw [EF.sizeInBytes_eq]; exact s1
  · rw [EF.sizeInBytes_eq]; exact s2

theorem c19_eliasfano (c : Cfg) (u m : Nat) (hist : List Nat) (hm : m ≠ 0) (hu : u < 2^64)
    (hsz : m + (u >>> (msbN (u / m)).getD 0) + 2 < 2^63) :
    ∃ b0 b' vs e0 e, GenFn.EliasFanoBuilder.new c u m = .ok (.ok b0) ∧ genRun c b0 hist = .ok (b', vs) ∧
      GenFn.EliasFanoBuilder.build c b' = .ok e0 ∧ GenFn.EliasFano.enable_rank c e0 = .ok e ∧
      8 * EF.sizeInBytes e0 ≤ m * (msbN (u / m)).getD 0 + 7 * m + 8192 ∧
      8 * EF.sizeInBytes e ≤ m * (msbN (u / m)).getD 0 + 11 * m + 8192 := by
  obtain ⟨b0, b', vs, h⟩ := c19_eliasfano_core u m hist hm hu hsz
  exact ⟨b0, b', vs, _, _, h c⟩

/-- `EliasFano::from_bits` then `enable_rank()` -/
theorem c19_eliasfano_from_bits (c : Cfg) (bits : List Bool) (hl : 2 * bits.length + 2 < 2^63)
    (e0 : EF) (he : GenFn.EliasFano.from_bits c bits = .ok (.ok e0)) :
    ∃ e, GenFn.EliasFano.enable_rank c e0 = .ok e ∧
      8 * EF.sizeInBytes e0 ≤ onesOf bits * (msbN (bits.length / onesOf bits)).getD 0 + 7 * onesOf bits + 8192 ∧
      8 * EF.sizeInBytes e ≤ onesOf bits * (msbN (bits.length / onesOf bits)).getD 0 + 11 * onesOf bits + 8192 := by
  have hinv := (BV.fromBits_spec bits).1
  have hlen : (BV.fromBits bits).len = bits.length := BV.fromBits_len bits
  rw [ef_from_bits_eq c bits hl] at he
  obtain ⟨m1, m2⟩ := ef_fromBV_ok c (BV.fromBits bits) hinv (by rw [hlen]; exact hl)
  by_cases hz : cnt (BV.fromBits bits).bitAt (BV.fromBits bits).len = 0
  · rw [m1 hz] at he; cases he
  · obtain ⟨b', hfb, hh', _, g1, _⟩ := m2 hz
    have he' : EF.fromBV c (BV.fromBits bits) = .ok (some e0) := by
      rw [hfb] at he ⊢
      injection he with he; injection he with he
      rw [he]
    obtain ⟨s1, s2⟩ := eliasfano_fromBV_bound c (BV.fromBits bits) hinv (by rw [hlen]; omega) e0 he'
    rw [fromBits_cnt, hlen] at s1 s2
    rw [hfb] at he'
    injection he' with he'; injection he' with he'
    subst he'
    have hbv : (EF.ofBuilder c b').high.bv = b'.high := EFQ.ofBuilder_bv c b' hh'.hinv
    exact ⟨_, ef_enable_rank_eq c _ (by rw [hbv]; exact hh'.hinv) (by rw [hbv]; exact g1),
      by rw [EF.sizeInBytes_eq]; exact s1, by rw [EF.sizeInBytes_eq]; exact s2⟩

/-- `SArray::from_bits` then `enable_rank()` (also without any set bit) -/
theorem c19_sarray (c : Cfg) (bits : List Bool) (hl : 2 * bits.length + 2 < 2^63) :
    ∃ s s', GenFn.SArray.from_bits c bits = .ok s ∧ GenFn.SArray.enable_rank c s = .ok s' ∧
      8 * SA.sizeInBytes s ≤ onesOf bits * (msbN (bits.length / onesOf bits)).getD 0 + 7 * onesOf bits + 8192 ∧
      8 * SA.sizeInBytes s' ≤ onesOf bits * (msbN (bits.length / onesOf bits)).getD 0 + 11 * onesOf bits + 8192 := by
  have hinv := (BV.fromBits_spec bits).1
  have hlen : (BV.fromBits bits).len = bits.length := BV.fromBits_len bits
  obtain ⟨s, hs, s1, s2⟩ := sarray_bound c (BV.fromBits bits) hinv (by rw [hlen]; omega)
  rw [fromBits_cnt, hlen] at s1 s2
  obtain ⟨_, _, her⟩ := sa_fromBV_ok c (BV.fromBits bits) hinv (by rw [hlen]; exact hl) s hs
  exact ⟨s, s.enableRank c, by rw [sa_from_bits_eq c bits hl, hs], her,
    by rw [SA.sizeInBytes_eq]; exact s1, by rw [SA.sizeInBytes_eq]; exact s2⟩

/-- `PrefixSummedEliasFano::from_slice` -/
theorem c19_psef (c : Cfg) (vals : Array Nat) (hne : vals.size ≠ 0) (hs : vals.toList.sum + 1 < 2^64)
    (hn : 3 * vals.size + 2 < 2^63) :
    ∃ p, GenFn.PrefixSummedEliasFano.from_slice c vals = .ok (.ok p) ∧
      8 * PS.sizeInBytes p ≤ vals.size * (msbN ((vals.toList.sum + 1) / vals.size)).getD 0 + 7 * vals.size + 8192 := by
  have hne' : vals.toList ≠ [] := by
    intro h; apply hne; rw [← Array.length_toList, h]; rfl
  obtain ⟨p, hp, hb⟩ := psef_bound c vals.toList hne' hs
  rw [Array.length_toList] at hb
  exact ⟨p, by rw [ps_from_slice_eq c vals hs hn, hp]; rfl, hb⟩

/-- `DacsByte::from_slice` -/
theorem c19_dacsbyte (c : Cfg) (vals : Array Nat) (hv : ∀ x ∈ vals, x < 2^64) (hn : vals.size < 2^64) :
    ∃ d, GenFn.DacsByte.from_slice c vals = .ok (.ok d) ∧
      100 * (8 * DacB.sizeInBytes d) ≤ 132 * (DacB.chunkBits d + flagBits d.flags) + 204800 * d.numLevels + 12800 :=
  ⟨_, dacs_byte_from_slice_eq c vals hv hn,
    dacsbyte_bound c vals.toList (fun v h => hv v (Array.mem_toList_iff.mp h))⟩

/-- `DacsOpt::from_slice` -/
theorem c19_dacsopt (c : Cfg) (vals : Array Nat) (ml : Option Nat) (hv : ∀ x ∈ vals, x < 2^64) (hn : vals.size < 2^57)
    (d : DacO) (e : GenFn.DacsOpt.from_slice c vals ml = .ok (.ok d)) :
    100 * (8 * DacO.sizeInBytes d) ≤ 132 * (DacO.chunkBits d + flagBits d.flags) + 204800 * d.numLevels + 12800 := by
  rw [dacs_opt_from_slice_eq c vals ml hv hn] at e
  refine dacsopt_bound c vals.toList ml (fun v h => hv v (Array.mem_toList_iff.mp h))
    (by rw [Array.length_toList]; exact hn) d ?_
  cases hm : DacO.fromSlice c vals.toList ml with
  | error p => rw [hm] at e; cases e
  | ok o =>
    rw [hm] at e
    cases o with
    | none => cases e
    | some d' => injection e with e; injection e with e; rw [e]

/-- `WaveletMatrix::<Rank9Sel>::new` -/
theorem c19_wavelet (c : Cfg) (cv : CV) (s : List Nat) (h : CV.Rep cv s)
    (hmax : s.foldl max 0 + 1 < 2^64) (hn : s.length < 2^63) (hsz : cv.len * cv.width < 2^64)
    (hnW : s.length * SpecX.bitlen (s.foldl max 0 + 1) < 2^64)
    (g : GenFn.WaveletMatrix_Rank9Sel) (e : GenFn.WaveletMatrix_Rank9Sel.new c cv = .ok (.ok g)) :
    100 * (8 * WM.sizeInBytes .r9 (absR9 g)) ≤
      GenFn.WaveletMatrix_Rank9Sel.alph_width g * (132 * s.length + 204800) + 12800 := by
  by_cases hne : s = []
  · subst hne; rw [(wm_new_nil c cv h).1] at e; cases e
  · obtain ⟨g', h1, h2, _⟩ := wm_new_eq c cv s h hne hmax hn hsz hnW
    rw [h1] at e
    injection e with e; injection e with e
    subst e
    rw [wm_alph_width_eq]
    exact waveletmatrix_r9_bound c s _ h2

/-! ### configuration independence: the generated constructors return the same value in every configuration -/
section
variable (c c' : Cfg)

theorem c19_cfg_bitvector (xs : List Bool) (hl : xs.length < 2^64) :
    GenFn.BitVector.from_bits c xs = GenFn.BitVector.from_bits c' xs := by
  rw [from_bits_eq c xs hl, from_bits_eq c' xs hl]

theorem c19_cfg_cv_from_slice (vals : List Nat) (hs : ∀ x ∈ vals, x < 2^64)
    (hsz : vals.length * CV.bitlen (vals.foldl max 0) + 64 < 2^64) :
    GenFn.CompactVector.from_slice c vals.toArray = GenFn.CompactVector.from_slice c' vals.toArray := by
  rw [c09_from_slice_eq c vals hs hsz, c09_from_slice_eq c' vals hs hsz]
  unfold CV.fromSlice
  simp only [Config.neededBits_cfg c c']

theorem c19_cfg_cv_from_int (val len width : Nat) (hsz : len * width + 64 < 2^64) :
    GenFn.CompactVector.from_int c val len width = GenFn.CompactVector.from_int c' val len width := by
  rw [cv_from_int_eq c val len width hsz, cv_from_int_eq c' val len width hsz]

theorem c19_cfg_rank9sel (bs : List Bool) (r h1 h0 : Bool)
    (hl : bs.length + (if h0 then 1534 else if h1 then 1023 else 0) < 2^64) :
    GenFn.Rank9Sel.build_from_bits c bs r h1 h0 = GenFn.Rank9Sel.build_from_bits c' bs r h1 h0 := by
  rw [rs_build_from_bits_eq c bs r h1 h0 hl, rs_build_from_bits_eq c' bs r h1 h0 hl,
    Config.R9_build_cfg c c' _ (BV.fromBits_spec bs).1]

theorem c19_cfg_darray (bs : List Bool) (rank sel1 sel0 : Bool) (hl : bs.length < 2^63) :
    GenFn.DArray.build_from_bits c bs rank sel1 sel0 = GenFn.DArray.build_from_bits c' bs rank sel1 sel0 := by
  rw [da_build_from_bits_eq c bs rank sel1 sel0 hl, da_build_from_bits_eq c' bs rank sel1 sel0 hl,
    Config.DA_build_cfg c c']

theorem c19_cfg_eliasfano (u m : Nat) (hist : List Nat) (hm : m ≠ 0) (hu : u < 2^64)
    (hsz : m + (u >>> (msbN (u / m)).getD 0) + 2 < 2^63) :
    ∃ b0 b' vs e0 e,
      (GenFn.EliasFanoBuilder.new c u m = .ok (.ok b0) ∧ genRun c b0 hist = .ok (b', vs) ∧
        GenFn.EliasFanoBuilder.build c b' = .ok e0 ∧ GenFn.EliasFano.enable_rank c e0 = .ok e) ∧
      (GenFn.EliasFanoBuilder.new c' u m = .ok (.ok b0) ∧ genRun c' b0 hist = .ok (b', vs) ∧
        GenFn.EliasFanoBuilder.build c' b' = .ok e0 ∧ GenFn.EliasFano.enable_rank c' e0 = .ok e) := by
  obtain ⟨b0, b', vs, h⟩ := c19_eliasfano_core u m hist hm hu hsz
  obtain ⟨a1, a2, a3, a4, _⟩ := h c
  obtain ⟨b1, b2, b3, b4, _⟩ := h c'
  rw [← Config.EF_ofBuilder_cfg c c' b'] at b3 b4
  rw [← Config.EF_enableRank_cfg c c'] at b4
  exact ⟨b0, b', vs, _, _, ⟨a1, a2, a3, a4⟩, ⟨b1, b2, b3, b4⟩⟩

theorem c19_cfg_eliasfano_from_bits (bits : List Bool) (hl : 2 * bits.length + 2 < 2^63) :
    GenFn.EliasFano.from_bits c bits = GenFn.EliasFano.from_bits c' bits := by
  rw [ef_from_bits_eq c bits hl, ef_from_bits_eq c' bits hl, Config.EF_fromBV_cfg c c']

theorem c19_cfg_sarray (bits : List Bool) (hl : 2 * bits.length + 2 < 2^63) :
    GenFn.SArray.from_bits c bits = GenFn.SArray.from_bits c' bits ∧
    ∀ s, GenFn.SArray.from_bits c bits = .ok s → GenFn.SArray.enable_rank c s = GenFn.SArray.enable_rank c' s := by
  have hinv := (BV.fromBits_spec bits).1
  have hlen : (BV.fromBits bits).len = bits.length := BV.fromBits_len bits
  refine ⟨by rw [sa_from_bits_eq c bits hl, sa_from_bits_eq c' bits hl, Config.SA_fromBV_cfg c c'], fun s hs => ?_⟩
  rw [sa_from_bits_eq c bits hl] at hs
  have hs' := hs
  rw [Config.SA_fromBV_cfg c c'] at hs'
  rw [(sa_fromBV_ok c _ hinv (by rw [hlen]; exact hl) s hs).2.2, (sa_fromBV_ok c' _ hinv (by rw [hlen]; exact hl) s hs').2.2,
    Config.SA_enableRank_cfg c c']

theorem c19_cfg_psef (vals : Array Nat) (hs : vals.toList.sum + 1 < 2^64) (hn : 3 * vals.size + 2 < 2^63) :
    GenFn.PrefixSummedEliasFano.from_slice c vals = GenFn.PrefixSummedEliasFano.from_slice c' vals := by
  rw [ps_from_slice_eq c vals hs hn, ps_from_slice_eq c' vals hs hn, Config.PS_fromSlice_cfg c c' _ hs]

theorem c19_cfg_dacsbyte (vals : Array Nat) (hv : ∀ x ∈ vals, x < 2^64) (hn : vals.size < 2^64) :
    GenFn.DacsByte.from_slice c vals = GenFn.DacsByte.from_slice c' vals := by
  rw [dacs_byte_from_slice_eq c vals hv hn, dacs_byte_from_slice_eq c' vals hv hn, Config.DacB_fromSlice_cfg c c']

theorem c19_cfg_dacsopt (vals : Array Nat) (ml : Option Nat) (hv : ∀ x ∈ vals, x < 2^64) (hn : vals.size < 2^57) :
    GenFn.DacsOpt.from_slice c vals ml = GenFn.DacsOpt.from_slice c' vals ml := by
  rw [dacs_opt_from_slice_eq c vals ml hv hn, dacs_opt_from_slice_eq c' vals ml hv hn, Config.DacO_fromSlice_cfg c c']
end
end Sucds.GenEq
