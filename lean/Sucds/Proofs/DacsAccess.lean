import Sucds.Proofs.DacsAccessBuild
import Sucds.Proofs.C14Msb
/-! # C10 / C11 — `DacsByte` and `DacsOpt` are lossless (array-level models)

`DacB.access_ok`, `DacB.len_ok`, `DacB.numLevels_ok` for `DacsByte::from_slice`, and `DacO.build_access_ok` for
`DacsOpt::build` with any valid split of at most 64 bits into positive widths. -/
set_option linter.unusedSimpArgs false
set_option linter.unusedVariables false
namespace Sucds
open Spec Dac

/-! ### `needed_bits` -/
/-- the number of bits needed to write `x` (1 for 0) -/
def bitlen (x : Nat) : Nat := if x = 0 then 1 else Nat.log2 x + 1

theorem msbW_ok (c : Cfg) (x : Nat) (hx : x < 2^64) : msbW c x = if x = 0 then none else some (Nat.log2 x) := by
  unfold msbW
  rw [C14.msb_ok]
  simp only []
  by_cases h0 : x = 0
  · subst h0; simp
  · have hX : BitVec.ofNat 64 x ≠ 0 := by
      intro h
      have := congrArg BitVec.toNat h
      simp only [BitVec.toNat_ofNat, BitVec.toNat_zero] at this
      rw [Nat.mod_eq_of_lt hx] at this
      exact h0 this
    rw [if_neg hX, if_neg h0]
    have hp : Nat.log2 x < 64 := (Nat.log2_lt h0).mpr hx
    have hbits : ∀ i, i < 64 → Broadword.bitsOf (BitVec.ofNat 64 x) i = x.testBit i := by
      intro i hi
      show (BitVec.ofNat 64 x).getLsbD i = _
      rw [BitVec.getLsbD_ofNat]; simp [hi]
    have hb : Broadword.bitsOf (BitVec.ofNat 64 x) (Nat.log2 x) = true := by
      rw [hbits _ hp]; exact Nat.testBit_log2 h0
    have hsplit := cnt_add (Broadword.bitsOf (BitVec.ofNat 64 x)) (Nat.log2 x + 1) (64 - (Nat.log2 x + 1))
    rw [show Nat.log2 x + 1 + (64 - (Nat.log2 x + 1)) = 64 by omega] at hsplit
    have hz := C14.cnt_zero_of_false (fun i => Broadword.bitsOf (BitVec.ofNat 64 x) (Nat.log2 x + 1 + i))
      (64 - (Nat.log2 x + 1)) (fun i hi => by
        show Broadword.bitsOf (BitVec.ofNat 64 x) (Nat.log2 x + 1 + i) = false
        rw [hbits _ (by omega)]
        apply Nat.testBit_lt_two_pow
        exact Nat.lt_of_lt_of_le Nat.lt_log2_self (Nat.pow_le_pow_right (by omega) (by omega)))
    have hs1 := cnt_succ_of_true (Broadword.bitsOf (BitVec.ofNat 64 x)) _ hb
    rw [sel_eq_some (Broadword.bitsOf (BitVec.ofNat 64 x)) 64 _ _ ⟨hp, hb, by omega⟩]

/-- `utils::needed_bits` -/
theorem neededBits_eq (c : Cfg) (x : Nat) (hx : x < 2^64) : neededBits c x = bitlen x := by
  unfold neededBits bitlen
  rw [msbW_ok c x hx]
  by_cases h0 : x = 0 <;> simp [h0]

theorem lt_two_pow_bitlen (x : Nat) : x < 2^bitlen x := by
  unfold bitlen
  by_cases h0 : x = 0
  · subst h0; simp
  · rw [if_neg h0]; exact Nat.lt_log2_self
theorem bitlen_pos (x : Nat) : 1 ≤ bitlen x := by unfold bitlen; split <;> omega
theorem bitlen_le (x : Nat) (hx : x < 2^64) : bitlen x ≤ 64 := by
  unfold bitlen
  by_cases h0 : x = 0
  · simp [h0]
  · rw [if_neg h0]
    have := (Nat.log2_lt h0).mpr hx
    omega

theorem foldl_max_spec (l : List Nat) : ∀ a, a ≤ l.foldl max a ∧ ∀ v ∈ l, v ≤ l.foldl max a := by
  induction l with
  | nil => intro a; simp
  | cons x t ih =>
    intro a
    obtain ⟨h1, h2⟩ := ih (max a x)
    rw [List.foldl_cons]
    refine ⟨by omega, ?_⟩
    intro v hv
    rcases List.mem_cons.mp hv with rfl | hv'
    · omega
    · exact h2 v hv'
theorem foldl_max_lt (B : Nat) (l : List Nat) : ∀ a, a < B → (∀ v ∈ l, v < B) → l.foldl max a < B := by
  induction l with
  | nil => intro a ha _; simpa using ha
  | cons x t ih =>
    intro a ha h
    rw [List.foldl_cons]
    have hx := h x (by simp)
    exact ih (max a x) (by omega) (fun v hv => h v (by simp [hv]))

/-! ## `DacsByte` (C11) -/
namespace DacB

/-- the number of 8-bit levels `from_slice` uses -/
def levels (vals : List Nat) : Nat := if vals.isEmpty then 1 else (bitlen (vals.foldl max 0) + 7) / 8

theorem fromSlice_unfold (c : Cfg) (vals : List Nat) (hne : vals.isEmpty = false) (n : Nat)
    (hn : n = (neededBits c (vals.foldl max 0) + Gen.DACB_LEVEL_WIDTH - 1) / Gen.DACB_LEVEL_WIDTH) :
    fromSlice c vals =
      if n = 1 then ⟨#[vals.toArray.map (· % 256)], #[]⟩
      else ⟨(vals.foldl (fun (s : Array (Array Nat) × Array BV) x =>
                pushVal s.1 s.2 0 (dacSplit (List.replicate n Gen.DACB_LEVEL_WIDTH) x))
              (Array.replicate n #[], Array.replicate (n - 1) BV.new)).1,
            (vals.foldl (fun (s : Array (Array Nat) × Array BV) x =>
                pushVal s.1 s.2 0 (dacSplit (List.replicate n Gen.DACB_LEVEL_WIDTH) x))
              (Array.replicate n #[], Array.replicate (n - 1) BV.new)).2.map (R9.new c)⟩ := by
  subst hn
  unfold fromSlice
  rw [hne]
  rfl

theorem levels_bounds (vals : List Nat) (hv : ∀ v ∈ vals, v < 2^64) :
    1 ≤ levels vals ∧ levels vals ≤ 8 ∧ ∀ v ∈ vals, v < 2^(levels vals * 8) := by
  unfold levels
  cases he : vals.isEmpty with
  | true =>
    have : vals = [] := by simpa using he
    subst this; simp
  | false =>
    simp only [Bool.false_eq_true, if_false]
    have hmax := foldl_max_lt (2^64) vals 0 (by decide) hv
    have h1 := bitlen_pos (vals.foldl max 0)
    have h2 := bitlen_le _ hmax
    refine ⟨by omega, by omega, ?_⟩
    intro v hvm
    have hle := (foldl_max_spec vals 0).2 v hvm
    have hlt := lt_two_pow_bitlen (vals.foldl max 0)
    calc v ≤ vals.foldl max 0 := hle
      _ < 2^bitlen (vals.foldl max 0) := hlt
      _ ≤ 2^((bitlen (vals.foldl max 0) + 7) / 8 * 8) := Nat.pow_le_pow_right (by omega) (by omega)

/-- **the structure built by `from_slice` satisfies the level invariant** (empty input, single-level
    shortcut and the general loop) -/
theorem fromSlice_rep (c : Cfg) (vals : List Nat) (hv : ∀ v ∈ vals, v < 2^64) :
    Rep c (List.replicate (levels vals) 8) vals (fromSlice c vals) := by
  cases he : vals.isEmpty with
  | true =>
    have : vals = [] := by simpa using he
    subst this
    have hl : levels [] = 1 := rfl
    rw [hl]
    refine ⟨rfl, ?_, ?_⟩
    · intro j hj
      have : j = 0 := by simpa using hj
      subst this; rfl
    · intro j hj; simp at hj
  | false =>
    have hmax := foldl_max_lt (2^64) vals 0 (by decide) hv
    have hG : Gen.DACB_LEVEL_WIDTH = 8 := rfl
    have hn : levels vals = (neededBits c (vals.foldl max 0) + Gen.DACB_LEVEL_WIDTH - 1) / Gen.DACB_LEVEL_WIDTH := by
      unfold levels
      rw [he, neededBits_eq c _ hmax, hG]
      simp only [Bool.false_eq_true, if_false]
      omega
    rw [fromSlice_unfold c vals he (levels vals) hn]
    by_cases h1 : levels vals = 1
    · rw [if_pos h1, h1]
      refine ⟨rfl, ?_, ?_⟩
      · intro j hj
        have : j = 0 := by simpa using hj
        subst this
        simp [lev, wd]
      · intro j hj; simp at hj
    · rw [if_neg h1, hG]
      have hne : List.replicate (levels vals) 8 ≠ [] := by
        have := (levels_bounds vals hv).1
        intro h
        have := congrArg List.length h
        simp at this; omega
      have hd := DRep.init (List.replicate (levels vals) 8)
      have hf := FRep.init (List.replicate (levels vals) 8)
      rw [List.length_replicate] at hd hf
      have := foldl_spec (List.replicate (levels vals) 8) hne vals [] _ _ hd hf
      rw [List.nil_append] at this
      exact rep_of_build c _ vals _ _ this.1 this.2

/-- **C11: `DacsByte::access` returns the stored value, `None` beyond the end; no panic** -/
theorem access_ok (c : Cfg) (vals : List Nat) (hv : ∀ v ∈ vals, v < 2^64) (i : Nat) :
    (fromSlice c vals).access c i = .ok vals[i]? := by
  obtain ⟨h1, h2, h3⟩ := levels_bounds vals hv
  have hne : List.replicate (levels vals) 8 ≠ [] := by
    intro h
    have := congrArg List.length h
    simp at this; omega
  apply access_of_rep c (List.replicate (levels vals) 8) vals _ (fromSlice_rep c vals hv) hne
  · intro j hj; exact wd_replicate _ _ _ (by simpa using hj)
  · intro j hj
    have : j < levels vals := by simpa using hj
    exact off_replicate _ _ _ (by omega)
  · rw [Dac.sum_replicate]; omega
  · rw [Dac.sum_replicate]; exact h3

theorem len_ok (c : Cfg) (vals : List Nat) (hv : ∀ v ∈ vals, v < 2^64) :
    (fromSlice c vals).len = .ok vals.length := by
  have h1 := (levels_bounds vals hv).1
  apply len_of_rep c (List.replicate (levels vals) 8) vals _ (fromSlice_rep c vals hv)
  intro h
  have := congrArg List.length h
  simp at this; omega

/-- the number of levels: `⌈bitlen(max)/8⌉`, and 1 for the empty input -/
theorem numLevels_ok (c : Cfg) (vals : List Nat) (hv : ∀ v ∈ vals, v < 2^64) :
    (fromSlice c vals).numLevels = if vals.isEmpty then 1 else (bitlen (vals.foldl max 0) + 7) / 8 := by
  have := (fromSlice_rep c vals hv).dsize
  rw [List.length_replicate] at this
  exact this

theorem widths_ok (c : Cfg) (vals : List Nat) (hv : ∀ v ∈ vals, v < 2^64) :
    (fromSlice c vals).widths = List.replicate (levels vals) 8 := by
  unfold widths
  rw [numLevels_ok c vals hv]; rfl
end DacB

/-! ## `DacsOpt` (C10, the build/access half) -/
namespace DacO

theorem mem_le_sum (ws : List Nat) : ∀ w ∈ ws, w ≤ ws.sum := by
  induction ws with
  | nil => intro w h; simp at h
  | cons a t ih =>
    intro w h
    rw [List.sum_cons]
    rcases List.mem_cons.mp h with rfl | h'
    · omega
    · have := ih w h'; omega

theorem widths_of_rep (c : Cfg) (ws vs : List Nat) (d : DacO) (hr : Rep c ws vs d) : d.widths = ws := by
  unfold widths
  apply List.ext_getElem?
  intro j
  rw [List.getElem?_map, Array.getElem?_toList]
  by_cases hj : j < ws.length
  · obtain ⟨cv, h1, h2, _⟩ := hr.data j hj
    rw [h1, List.getElem?_eq_getElem hj, ← wd_eq ws j hj, ← h2]; rfl
  · rw [List.getElem?_eq_none (by omega), Array.getElem?_eq_none (by rw [hr.dsize]; omega)]; rfl

/-- **C10 (build + access): for every valid split `ws` of at most 64 bits into positive widths that covers all
    values, `build` succeeds (every `push_int` fits), stores the widths, and `access` returns the stored value,
    `None` beyond the end; no index is out of range and no shift overflows** -/
theorem build_access_ok (c : Cfg) (vals ws : List Nat) (hne : ws ≠ []) (hpos : ∀ w ∈ ws, 1 ≤ w)
    (hsum : ws.sum ≤ 64) (hv : ∀ v ∈ vals, v < 2^ws.sum) :
    ∃ d, build c vals ws = .ok d ∧ Rep c ws vals d ∧ d.widths = ws ∧ d.numLevels = ws.length ∧
      d.len = .ok vals.length ∧ ∀ i, d.access c i = .ok vals[i]? := by
  have hrange : ∀ w ∈ ws, 1 ≤ w ∧ w ≤ 64 := fun w hw => ⟨hpos w hw, Nat.le_trans (mem_le_sum ws w hw) hsum⟩
  obtain ⟨r, hr, hd, hf⟩ := pushAll_spec ws hne vals [] _ _ (DRep.init ws hrange) (FRep.init ws)
  rw [List.nil_append] at hd hf
  have hrep := rep_of_build c ws vals r.1 r.2 hd hf
  refine ⟨⟨r.1, r.2.map (R9.new c)⟩, ?_, hrep, widths_of_rep c ws vals _ hrep, hrep.dsize,
    len_of_rep c ws vals _ hrep hne, ?_⟩
  · unfold build
    rw [mapM_new ws hrange]
    simp only []
    rw [hr]; rfl
  · intro i
    apply access_of_rep c ws vals _ hrep hne _ hsum hv
    intro j hj
    rw [wd_eq ws j hj]
    exact hpos _ (List.getElem_mem hj)

/-- the empty structure (`from_slice(&[])`) -/
theorem default_access (c : Cfg) (i : Nat) : DacO.default.access c i = .ok none := by
  simp [access, len, DacO.default, CV.default, Except.bind]

/-- glue for `from_slice`: whenever `compute_opt_widths` returns a valid split, `from_slice` succeeds and the
    result is lossless (the validity of the returned split is the subject of the DP proofs, not of this file) -/
theorem fromSlice_ok_of_widths (c : Cfg) (vals : List Nat) (maxLevels : Option Nat) (ws : List Nat)
    (hml : 1 ≤ maxLevels.getD 64 ∧ maxLevels.getD 64 ≤ 64) (hvals : vals ≠ [])
    (hopt : optWidths c vals (maxLevels.getD 64) = .ok ws)
    (hne : ws ≠ []) (hpos : ∀ w ∈ ws, 1 ≤ w) (hsum : ws.sum ≤ 64) (hv : ∀ v ∈ vals, v < 2^ws.sum) :
    ∃ d, fromSlice c vals maxLevels = .ok (some d) ∧ Rep c ws vals d ∧ d.widths = ws ∧
      d.len = .ok vals.length ∧ ∀ i, d.access c i = .ok vals[i]? := by
  obtain ⟨d, hb, hrep, hw, _, hl, ha⟩ := build_access_ok c vals ws hne hpos hsum hv
  refine ⟨d, ?_, hrep, hw, hl, ha⟩
  unfold fromSlice
  have h1 : ¬ (maxLevels.getD 64 < 1 ∨ 64 < maxLevels.getD 64) := by omega
  have h2 : vals.isEmpty = false := by cases vals with
    | nil => exact absurd rfl hvals
    | cons a t => rfl
  simp only [h1, if_false, h2, Bool.false_eq_true]
  rw [hopt, bind_ok, hb, bind_ok]
end DacO
end Sucds

#print axioms Sucds.DacB.access_ok
#print axioms Sucds.DacB.numLevels_ok
#print axioms Sucds.DacO.build_access_ok
