import Sucds.Proofs.EliasFanoQueriesMain
import Sucds.Proofs.DArray
import Sucds.Proofs.BitVectorPredSucc
import Sucds.Proofs.UnaryIter
/-! Discharges the hypothesis `EFQ.HighOK` of the Elias-Fano query theorems: the `DArray` built over the high
    bits of a builder answers `select1`/`select0`/`access` per the DArray theorems (C02), `predecessor1` of the
    high-bit vector per the BitVector theorems (C07), and the unary iterator per `UIter.next_ok` (C17). -/
namespace Sucds.EFQ
open Sucds Sucds.Spec

theorem predP_eq (P : Nat → Bool) (i : Nat) : EFQ.predP P i = Spec.predP P i := by
  induction i with
  | zero => rfl
  | succ n ih => simp only [EFQ.predP, Spec.predP, ih]

/-- counting from a cursor: below `q ≥ p`, the positions `≥ p` satisfying `P` number `cnt P q − cnt P p` -/
theorem cnt_from (P : Nat → Bool) (p : Nat) : ∀ q, p ≤ q →
    cnt (fun i => decide (p ≤ i) && P i) q = cnt P q - cnt P p := by
  intro q hq
  obtain ⟨d, rfl⟩ := Nat.exists_eq_add_of_le hq
  induction d with
  | zero =>
    simp only [Nat.add_zero, Nat.sub_self]
    rw [cnt_congr _ (fun _ => false) p (fun i hi => by simp; omega)]
    clear hq
    induction p with
    | zero => rfl
    | succ n ih => simp [cnt, ih]
  | succ d ih =>
    have ih' := ih (by omega)
    rw [← Nat.add_assoc]
    simp only [cnt]
    rw [ih']
    have hm := cnt_mono P (show p ≤ p + d by omega)
    have hdec : decide (p ≤ p + d) = true := by simp
    simp only [hdec, Bool.true_and]
    split <;> omega

theorem cnt_from_lt (P : Nat → Bool) (p q : Nat) (hq : q ≤ p) : cnt (fun i => decide (p ≤ i) && P i) q = 0 := by
  rw [cnt_congr _ (fun _ => false) q (fun i hi => by simp; omega)]
  clear hq
  induction q with
  | zero => rfl
  | succ n ih => simp [cnt, ih]

/-- the j-th position `≥ p` satisfying `P` is the `(cnt P p + j)`-th position overall -/
theorem selFrom_eq (P : Nat → Bool) (n p j : Nat) (hp : p ≤ n) :
    selFrom P n p j = sel P n (cnt P p + j) := by
  unfold selFrom
  cases hs : sel P n (cnt P p + j) with
  | none =>
    apply sel_eq_none
    have := sel_none_le P n _ hs
    rw [cnt_from P p n hp]; omega
  | some q =>
    obtain ⟨h1, h2, h3⟩ := sel_isKth P n _ q hs
    have hpq : p ≤ q := by
      by_cases h : p ≤ q
      · exact h
      · have := cnt_lt_of_lt P (show q < p by omega) h2; omega
    apply sel_eq_some
    refine ⟨h1, by simp [hpq, h2], ?_⟩
    rw [cnt_from P p q hpq]; omega

/-- cons-form of the snoc-style `unaryRun` -/
theorem unaryRun_cons (c : Cfg) (bv : BV) : ∀ (n : Nat) (it : UIter),
    unaryRun c bv (n + 1) it =
      (UIter.next c bv it).bind fun s => (unaryRun c bv n s.1).bind fun r => .ok (r.1, s.2 :: r.2) := by
  intro n
  induction n with
  | zero =>
    intro it
    simp only [unaryRun, Except.bind]
    cases h1 : UIter.next c bv it <;> simp
  | succ n ih =>
    intro it
    rw [unaryRun, ih it]
    cases h1 : UIter.next c bv it with
    | error e => rfl
    | ok s =>
      simp only [Except.bind]
      rw [unaryRun]
      cases h2 : unaryRun c bv n s.1 with
      | error e => rfl
      | ok r =>
        simp only [Except.bind]
        cases h3 : UIter.next c bv r.1 with
        | error e => rfl
        | ok t => simp [Except.bind]

theorem unaryRun_of_nexts (c : Cfg) (bv : BV) : ∀ (n : Nat) (it : UIter) (l : List (Option Nat)),
    UIter.nexts c bv n it = .ok l → ∃ it', unaryRun c bv n it = .ok (it', l) := by
  intro n
  induction n with
  | zero => intro it l h; simp only [UIter.nexts] at h; cases h; exact ⟨it, rfl⟩
  | succ n ih =>
    intro it l h
    rw [unaryRun_cons]
    simp only [UIter.nexts] at h
    cases h1 : UIter.next c bv it with
    | error e => rw [h1] at h; simp [Except.bind] at h
    | ok s =>
      rw [h1] at h
      simp only [Except.bind] at h ⊢
      cases h2 : UIter.nexts c bv n s.1 with
      | error e => rw [h2] at h; simp at h
      | ok l' =>
        rw [h2] at h
        simp only [Except.ok.injEq] at h
        obtain ⟨it', hr⟩ := ih s.1 l' h2
        rw [hr]
        exact ⟨it', by simp [← h]⟩

/-- everything `HighOK` asks of a DArray built over a valid bit vector -/
theorem highOK_of_build (c : Cfg) (hb : BV) (hinv : hb.Inv) (sel0 : Bool) (d : DA)
    (hd : d = DA.build c hb false sel0) : HighOK c d hb := by
  subst hd
  obtain ⟨h1, h2, _, _, h5, h6, _, _, _, _⟩ := DA.build_answers c hb hinv false sel0
  have hbv : (DA.build c hb false sel0).bv = hb := DA.build_bv c hb false sel0
  refine ⟨hbv, hinv, h2, h5, h1, ?_, ?_, ?_⟩
  · intro hs
    have : sel0 = true := by
      cases sel0 with
      | true => rfl
      | false => simp [DA.build, DA.fromBV] at hs
    exact h6 this
  · intro p
    rw [BV.predecessor1_ok c hb hinv p]
    by_cases hp : p < hb.len <;> simp [hp, predP_eq]
  · intro p hp _ n _
    have := UIter.nexts_new c hb hinv p n
    obtain ⟨it', hr⟩ := unaryRun_of_nexts c hb n _ _ this
    refine ⟨it', ?_⟩
    rw [hr]
    congr 2
    apply List.map_congr_left
    intro j _
    exact selFrom_eq hb.bitAt hb.len p j (by omega)

theorem high_ofBuilder (c : Cfg) (b : EFB) (xs : List Nat) (h : EFB.Holds b xs) :
    HighOK c (EF.ofBuilder c b).high b.high := by
  apply highOK_of_build c b.high h.hinv false
  show DA.fromBV c (BV.fromBits b.high.toList) = DA.build c b.high false false
  have : BV.fromBits b.high.toList = b.high :=
    BV.eq_of_toList _ _ (BV.fromBits_spec _).1 h.hinv (BV.fromBits_spec _).2
  rw [this]; rfl

theorem high_enableRank (c : Cfg) (b : EFB) (xs : List Nat) (h : EFB.Holds b xs) :
    HighOK c ((EF.ofBuilder c b).enableRank c).high b.high := by
  apply highOK_of_build c b.high h.hinv true
  show (DA.fromBV c (BV.fromBits b.high.toList)).enableSelect0 c = DA.build c b.high false true
  have : BV.fromBits b.high.toList = b.high :=
    BV.eq_of_toList _ _ (BV.fromBits_spec _).1 h.hinv (BV.fromBits_spec _).2
  rw [this]; rfl
end Sucds.EFQ
