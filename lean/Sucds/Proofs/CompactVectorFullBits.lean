import Sucds.Proofs.C14Msb
import Sucds.Model.Dacs
import Sucds.Spec.Exec
/-! C09 (full), part 1: `utils::needed_bits` is the bit length, in every build configuration
    (from `C14.msb_ok`). Reusable by everything that calls `needed_bits` (`from_slice` of `CompactVector`,
    DACs, `WaveletMatrix`). -/
set_option linter.unusedSimpArgs false
set_option linter.unusedVariables false
namespace Sucds
namespace CV
open Sucds.Spec Sucds.C14 Sucds.Broadword

/-- bit length with `bitlen 0 = 1` (what `utils::needed_bits` is documented to return) -/
def bitlen (x : Nat) : Nat := if x = 0 then 1 else Nat.log2 x + 1

/-- the same function as the executable oracle of the differential check -/
theorem bitlen_eq_spec : bitlen = SpecX.bitlen := rfl

theorem lt_two_pow_bitlen (x : Nat) : x < 2 ^ bitlen x := by
  unfold bitlen
  by_cases h : x = 0
  · subst h; decide
  · simp only [h, if_false]; exact Nat.lt_log2_self

theorem bitlen_pos (x : Nat) : 1 ≤ bitlen x := by unfold bitlen; split <;> omega

theorem bitlen_le_64 (x : Nat) (hx : x < 2^64) : bitlen x ≤ 64 := by
  unfold bitlen
  by_cases h : x = 0
  · simp [h]
  · simp only [h, if_false]
    have := (Nat.log2_lt h (k := 64)).mpr hx
    omega

theorem bitlen_mono {a b : Nat} (h : a ≤ b) : bitlen a ≤ bitlen b := by
  unfold bitlen
  by_cases ha : a = 0
  · simp only [ha, if_true]; split <;> omega
  · have hb : b ≠ 0 := by omega
    simp only [ha, hb, if_false]
    have h1 : 2 ^ a.log2 ≤ b := Nat.le_trans (Nat.log2_self_le ha) h
    have := (Nat.le_log2 hb).mpr h1
    omega

/-- the highest set bit of a non-zero 64-bit word, as `msb_ok` describes it, is `Nat.log2` -/
theorem sel_last_eq_log2 (x : Nat) (hx : x < 2^64) (h0 : x ≠ 0) :
    sel (bitsOf (BitVec.ofNat 64 x)) 64 (cnt (bitsOf (BitVec.ofNat 64 x)) 64 - 1) = some x.log2 := by
  have hL : x.log2 < 64 := (Nat.log2_lt h0).mpr hx
  have hP : ∀ i, bitsOf (BitVec.ofNat 64 x) i = (decide (i < 64) && x.testBit i) := by
    intro i; simp [bitsOf, BitVec.getLsbD_ofNat]
  apply sel_eq_some
  refine ⟨hL, ?_, ?_⟩
  · rw [hP]; simp [hL, Nat.testBit_log2 h0]
  · have hsplit := cnt_add (bitsOf (BitVec.ofNat 64 x)) (x.log2 + 1) (64 - (x.log2 + 1))
    rw [show x.log2 + 1 + (64 - (x.log2 + 1)) = 64 by omega] at hsplit
    have hz := cnt_zero_of_false (fun i => bitsOf (BitVec.ofNat 64 x) (x.log2 + 1 + i)) (64 - (x.log2 + 1)) (by
      intro i _
      show bitsOf (BitVec.ofNat 64 x) (x.log2 + 1 + i) = false
      rw [hP]
      have : x.testBit (x.log2 + 1 + i) = false :=
        Nat.testBit_lt_two_pow (Nat.lt_of_lt_of_le Nat.lt_log2_self (Nat.pow_le_pow_right (by omega) (by omega)))
      simp [this])
    have hs1 := cnt_succ_of_true (bitsOf (BitVec.ofNat 64 x)) x.log2 (by rw [hP]; simp [hL, Nat.testBit_log2 h0])
    omega

theorem msbW_eq (c : Cfg) (x : Nat) (hx : x < 2^64) : msbW c x = if x = 0 then none else some x.log2 := by
  unfold msbW
  rw [msb_ok]
  by_cases h0 : x = 0
  · subst h0; simp
  · have hne : BitVec.ofNat 64 x ≠ 0 := by
      intro h
      have := congrArg BitVec.toNat h
      simp only [BitVec.toNat_ofNat, BitVec.toNat_zero] at this
      rw [Nat.mod_eq_of_lt hx] at this
      exact h0 this
    simp only [hne, h0, if_false]
    exact sel_last_eq_log2 x hx h0

/-- **needed_bits** is the bit length (with `needed_bits(0) = 1`) in every build configuration -/
theorem neededBits_eq (c : Cfg) (x : Nat) (hx : x < 2^64) : neededBits c x = bitlen x := by
  unfold neededBits bitlen
  rw [msbW_eq c x hx]
  by_cases h0 : x = 0 <;> simp [h0]


/-- the value just below a power of two, and the power itself -/
example : bitlen 0 = 1 ∧ bitlen 1 = 1 ∧ bitlen 2 = 2 ∧ bitlen 255 = 8 ∧ bitlen 256 = 9 ∧ bitlen (2^64 - 1) = 64 := by decide

end CV
end Sucds
