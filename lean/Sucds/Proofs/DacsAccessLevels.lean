import Sucds.Proofs.DacLevels
import Sucds.Spec.Bits
/-! DACs (C10, C11), list level: the sequence stored on every level, how it grows when one value is
    appended, the position of a continuing element on the next level, and the bit identities that the
    access walk needs. -/
set_option linter.unusedSimpArgs false
set_option linter.unusedVariables false
namespace Sucds.Dac
open Sucds.Spec

/-- width of level `j` (0 beyond the last level) -/
def wd (ws : List Nat) (j : Nat) : Nat := ws[j]?.getD 0
/-- bit offset of level `j` -/
def off (ws : List Nat) (j : Nat) : Nat := (ws.take j).sum
/-- the sequence of (remaining) values stored on level `j`: `vs`, `next w0 vs`, … -/
def lev (ws : List Nat) (vs : List Nat) : Nat → List Nat
  | 0 => vs
  | j+1 => next (wd ws j) (lev ws vs j)

theorem wd_eq (ws : List Nat) (j : Nat) (h : j < ws.length) : wd ws j = ws[j] := by
  simp [wd, h]

theorem next_append (w : Nat) (a b : List Nat) : next w (a ++ b) = next w a ++ next w b := by
  simp [next]
theorem next_nil (w : Nat) : next w [] = [] := rfl
theorem next_singleton (w x : Nat) : next w [x] = if more w x then [x >>> w] else [] := by
  by_cases h : more w x = true
  · simp [next, h]
  · simp [next, h]

theorem lev_append (ws a b : List Nat) (j : Nat) : lev ws (a ++ b) j = lev ws a j ++ lev ws b j := by
  induction j with
  | zero => rfl
  | succ j ih => simp only [lev, ih, next_append]
theorem lev_nil (ws : List Nat) (j : Nat) : lev ws [] j = [] := by
  induction j with
  | zero => rfl
  | succ j ih => simp only [lev, ih, next_nil]

theorem off_zero (ws : List Nat) : off ws 0 = 0 := by simp [off]
theorem off_succ (ws : List Nat) (j : Nat) (h : j < ws.length) : off ws (j+1) = off ws j + wd ws j := by
  unfold off
  rw [List.take_succ_eq_append_getElem h, List.sum_append, wd_eq ws j h]
  simp
theorem off_add_drop (ws : List Nat) (j : Nat) : off ws j + (ws.drop j).sum = ws.sum := by
  unfold off
  rw [← List.sum_append, List.take_append_drop]
theorem drop_sum_succ (ws : List Nat) (j : Nat) (h : j < ws.length) :
    (ws.drop j).sum = wd ws j + (ws.drop (j+1)).sum := by
  rw [List.drop_eq_getElem_cons h, List.sum_cons, wd_eq ws j h]
theorem drop_sum_last (ws : List Nat) (j : Nat) (h : j + 1 = ws.length) : (ws.drop j).sum = wd ws j := by
  rw [drop_sum_succ ws j (by omega), List.drop_of_length_le (by omega)]
  simp
theorem off_replicate (n w j : Nat) (h : j ≤ n) : off (List.replicate n w) j = j * w := by
  unfold off
  rw [List.take_replicate, Nat.min_eq_left h]
  induction j with
  | zero => simp
  | succ k ih => simp [List.replicate_succ, Nat.succ_mul, Nat.add_comm]
theorem wd_replicate (n w j : Nat) (h : j < n) : wd (List.replicate n w) j = w := by
  simp [wd, h]
theorem sum_replicate (n w : Nat) : (List.replicate n w).sum = n * w := by
  simp

/-- every element of level `j` fits in the remaining widths -/
theorem lev_bound (ws vs : List Nat) (hv : ∀ v ∈ vs, v < 2^ws.sum) :
    ∀ j, j ≤ ws.length → ∀ v ∈ lev ws vs j, v < 2^(ws.drop j).sum := by
  intro j
  induction j with
  | zero => intro _ v hm; simpa [lev] using hv v hm
  | succ j ih =>
    intro hj v hm
    simp only [lev, next, List.mem_map, List.mem_filter] at hm
    obtain ⟨u, ⟨hu, _⟩, rfl⟩ := hm
    have := ih (by omega) u hu
    rw [drop_sum_succ ws j (by omega), Nat.pow_add] at this
    rw [Nat.shiftRight_eq_div_pow]
    exact Nat.div_lt_of_lt_mul this

/-- a continuing element at position `p` of level `j` sits on level `j+1` at the rank of its flag -/
theorem lev_succ_get (ws vs : List Nat) (j p : Nat) (hp : p < (lev ws vs j).length)
    (hm : more (wd ws j) (lev ws vs j)[p] = true) :
    ∃ h : ((lev ws vs j).take p).countP (more (wd ws j)) < (lev ws vs (j+1)).length,
      (lev ws vs (j+1))[((lev ws vs j).take p).countP (more (wd ws j))] = (lev ws vs j)[p] >>> wd ws j := by
  obtain ⟨hlt, heq⟩ := filter_getElem_count (more (wd ws j)) (lev ws vs j) p hp hm
  have hlen : ((lev ws vs j).take p).countP (more (wd ws j)) < (lev ws vs (j+1)).length := by
    simpa [lev, next] using hlt
  refine ⟨hlen, ?_⟩
  simp only [lev, next, List.getElem_map, heq]

/-! ### bit identities -/
theorem chunk_or (v w : Nat) : v % 2^w ||| (v >>> w) <<< w = v := by
  apply Nat.eq_of_testBit_eq
  intro i
  rw [Nat.testBit_or, Nat.testBit_mod_two_pow, Nat.testBit_shiftLeft, Nat.testBit_shiftRight]
  by_cases h : i < w
  · have : ¬ i ≥ w := by omega
    simp [h, this]
  · have h' : i ≥ w := by omega
    have : w + (i - w) = i := by omega
    simp [h, h', this]

/-- the chunk of this level or-ed with the rest placed above it is the value -/
theorem combine (v w o : Nat) : (v % 2^w) <<< o ||| (v >>> w) <<< (o + w) = v <<< o := by
  rw [Nat.add_comm o w, Nat.shiftLeft_add, ← Nat.shiftLeft_or_distrib, chunk_or]

theorem chunk_eq_of_not_more (v w : Nat) (h : more w v = false) : v % 2^w = v := by
  have h0 : v >>> w = 0 := by simpa [more] using h
  have := split_chunk v w
  rw [h0, Nat.mul_zero, Nat.add_zero] at this
  exact this

theorem shift_lt (v s o : Nat) (hv : v < 2^s) (hso : o + s ≤ 64) : v <<< o < 2^64 := by
  rw [Nat.shiftLeft_eq]
  calc v * 2^o < 2^s * 2^o := Nat.mul_lt_mul_of_pos_right hv (Nat.two_pow_pos o)
    _ = 2^(s + o) := (Nat.pow_add 2 s o).symm
    _ ≤ 2^64 := Nat.pow_le_pow_right (by omega) (by omega)

theorem mask_eq_mod (x w : Nat) : x &&& ((1 <<< w) - 1) = x % 2^w := by
  rw [Nat.one_shiftLeft, Nat.and_two_pow_sub_one_eq_mod]

/-! ### flags as bit lists -/
theorem cnt_eq_countP_take (P : Nat → Bool) (l : List Bool) (h : ∀ i, (hi : i < l.length) → P i = l[i]) :
    ∀ p, p ≤ l.length → cnt P p = (l.take p).countP id := by
  intro p
  induction p with
  | zero => intro _; simp [cnt]
  | succ p ih =>
    intro hp
    have hp' : p < l.length := by omega
    rw [List.take_succ_eq_append_getElem hp', List.countP_append, ← ih (by omega)]
    simp only [cnt, h p hp']
    cases l[p] <;> simp

end Sucds.Dac
