import Sucds.Proofs.ConfigBuild
import Sucds.Model.SerialStruct
/-! C15, part A (3): the serialized bytes (`serialize_into`, model `X.codec.put`) and the reported
    `size_in_bytes` of every structure are the same in every build configuration — immediate from
    the builders producing the same values. -/
namespace Sucds.Config
open Sucds

theorem bytes_R9 (c c' : Cfg) (bv : BV) (h : bv.Inv) (h1 h0 : Bool) :
    (R9.build c bv h1 h0).map R9.codec.put = (R9.build c' bv h1 h0).map R9.codec.put ∧
    (R9.build c bv h1 h0).map R9.codec.size = (R9.build c' bv h1 h0).map R9.codec.size := by
  rw [R9_build_cfg c c' bv h]; exact ⟨rfl, rfl⟩

theorem bytes_DA (c c' : Cfg) (bv : BV) (r s0 : Bool) :
    DA.codec.put (DA.build c bv r s0) = DA.codec.put (DA.build c' bv r s0) ∧
    DA.codec.size (DA.build c bv r s0) = DA.codec.size (DA.build c' bv r s0) := by
  rw [DA_build_cfg c c']; exact ⟨rfl, rfl⟩

theorem bytes_EF (c c' : Cfg) (b : EFB) :
    EF.codec.put (EF.ofBuilder c b) = EF.codec.put (EF.ofBuilder c' b) ∧
    EF.codec.put ((EF.ofBuilder c b).enableRank c) = EF.codec.put ((EF.ofBuilder c' b).enableRank c') := by
  rw [EF_ofBuilder_cfg c c', EF_enableRank_cfg c c']; exact ⟨rfl, rfl⟩

theorem bytes_SA (c c' : Cfg) (bv : BV) :
    (SA.fromBV c bv).map SA.codec.put = (SA.fromBV c' bv).map SA.codec.put ∧
    (SA.fromBV c bv).map (fun s => SA.codec.put (s.enableRank c)) =
      (SA.fromBV c' bv).map (fun s => SA.codec.put (s.enableRank c')) := by
  rw [SA_fromBV_cfg c c', show SA.enableRank c = SA.enableRank c' from funext (SA_enableRank_cfg c c')]
  exact ⟨rfl, rfl⟩

theorem bytes_DacB (c c' : Cfg) (vals : List Nat) :
    DacB.codec.put (DacB.fromSlice c vals) = DacB.codec.put (DacB.fromSlice c' vals) := by
  rw [DacB_fromSlice_cfg c c']

theorem bytes_DacO (c c' : Cfg) (vals : List Nat) (ml : Option Nat) :
    (DacO.fromSlice c vals ml).map (Option.map DacO.codec.put) =
      (DacO.fromSlice c' vals ml).map (Option.map DacO.codec.put) := by
  rw [DacO_fromSlice_cfg c c']

theorem bytes_PS (c c' : Cfg) (vals : List Nat) (hs : vals.sum + 1 < 2^64) :
    (PS.fromSlice c vals).map (Option.map PS.codec.put) = (PS.fromSlice c' vals).map (Option.map PS.codec.put) := by
  rw [PS_fromSlice_cfg c c' vals hs]

theorem bytes_WM (c c' : Cfg) (k : Backing) (s : List Nat) (hmax : s.foldl max 0 + 1 < 2^64) :
    (WM.new c k s).map (Option.map (WM.codec k).put) = (WM.new c' k s).map (Option.map (WM.codec k).put) := by
  rw [WM_new_cfg c c' k s hmax]

end Sucds.Config
