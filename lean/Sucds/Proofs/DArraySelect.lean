import Sucds.Proofs.DArrayScan
/-! DArray, part 7: `DAIndex.select` returns the `k`-th indexed position. -/
set_option linter.unusedSimpArgs false
set_option linter.unusedVariables false
namespace Sucds
open Spec
namespace DAProof

theorem select_none (c : Cfg) (x : DAIndex) (bv : BV) (k : Nat) (hk : x.numPos ≤ k) : x.select c bv k = .ok none := by
  unfold DAIndex.select; rw [if_pos hk]

theorem select_sparse (c : Cfg) (x : DAIndex) (bv : BV) (k : Nat) (bp : Int) (p : Nat) (hk : ¬ x.numPos ≤ k)
    (hb : x.blockInv[k / Gen.DA_BLOCK_LEN]? = some bp) (hneg : bp < 0)
    (hp : idx x.overflow ((-bp - 1).toNat + k % Gen.DA_BLOCK_LEN) = .ok p) : x.select c bv k = .ok (some p) := by
  unfold DAIndex.select; rw [if_neg hk, hb]; simp only []; rw [if_pos hneg, hp]; rfl

theorem select_dense0 (c : Cfg) (x : DAIndex) (bv : BV) (k : Nat) (bp : Int) (so : Nat) (hk : ¬ x.numPos ≤ k)
    (hb : x.blockInv[k / Gen.DA_BLOCK_LEN]? = some bp) (hneg : ¬ bp < 0)
    (hs : idx x.subInv (k / Gen.DA_SUBBLOCK_LEN) = .ok so) (h0 : k % Gen.DA_SUBBLOCK_LEN = 0) :
    x.select c bv k = .ok (some (bp.toNat + so)) := by
  unfold DAIndex.select; rw [if_neg hk, hb]; simp only []; rw [if_neg hneg, hs]
  simp only [Except.bind]; rw [if_pos h0]

theorem select_dense (c : Cfg) (x : DAIndex) (bv : BV) (k : Nat) (bp : Int) (so w0 p : Nat) (r : Nat × Nat × Nat)
    (hk : ¬ x.numPos ≤ k)
    (hb : x.blockInv[k / Gen.DA_BLOCK_LEN]? = some bp) (hneg : ¬ bp < 0)
    (hs : idx x.subInv (k / Gen.DA_SUBBLOCK_LEN) = .ok so) (h0 : ¬ k % Gen.DA_SUBBLOCK_LEN = 0)
    (hw : DAIndex.getWord x.overOne bv ((bp.toNat + so) / 64) = .ok w0)
    (hscan : DAIndex.scan c x bv ((bp.toNat + so) / 64) (w0 &&& ((BV.MAXW <<< ((bp.toNat + so) % 64)) % 2^64))
      (k % Gen.DA_SUBBLOCK_LEN) (bv.words.size + 1) = .ok r)
    (hsel : selectInWordN c r.2.1 r.2.2 = some p) :
    x.select c bv k = .ok (some (64 * r.1 + p)) := by
  unfold DAIndex.select; rw [if_neg hk, hb]; simp only []; rw [if_neg hneg, hs]
  simp only [Except.bind]; rw [if_neg h0, hw]; simp only []; rw [hscan]; simp only []; rw [hsel]

theorem idx_of_getElem? (a : Array Nat) (i v : Nat) (h : a[i]? = some v) : idx a i = .ok v := by
  unfold idx; rw [h]

theorem mask_testBit (w s j : Nat) (hj : j < 64) :
    (w &&& ((BV.MAXW <<< s) % 2^64)).testBit j = (w.testBit j && decide (s ≤ j)) := by
  rw [Nat.testBit_and, Nat.testBit_mod_two_pow, Nat.testBit_shiftLeft]
  unfold BV.MAXW
  rw [Nat.testBit_two_pow_sub_one]
  by_cases hs : s ≤ j
  · have : j - s < 64 := by omega
    simp [hj, hs, this]
  · simp [hj, hs]

/-- the scan predicate coincides with the indexed predicate between `start` and `len` -/
theorem Q_eq_Pb (bv : BV) (o : Bool) (start i : Nat) (h1 : start ≤ i) (h2 : i < bv.len) : Q bv o start i = Pb bv o i := by
  unfold Q Pb; simp [h1, h2]

theorem Q_below (bv : BV) (o : Bool) (start i : Nat) (h1 : i < start) : Q bv o start i = false := by
  unfold Q
  have : ¬ start ≤ i := by omega
  simp [this]

/-- **select over a finished index** -/
theorem select_of_FInv (c : Cfg) (bv : BV) (h : bv.Inv) (o : Bool) (x : DAIndex) (hxo : x.overOne = o)
    (hx : FInv (nth (Pb bv o) bv.len) (cnt (Pb bv o) bv.len) x) (k : Nat) :
    x.select c bv k = .ok (sel (Pb bv o) bv.len k) := by
  obtain ⟨np, blk⟩ := hx
  by_cases hk : x.numPos ≤ k
  · rw [select_none c x bv k hk, sel_eq_none _ _ _ (by omega)]
  · rw [np] at hk
    have hkM : k < cnt (Pb bv o) bv.len := by omega
    rw [sel_eq_nth _ _ _ hkM]
    rw [← np] at hk
    have hb := blk (k / 1024) (by omega)
    have hn : k % 1024 < min 1024 (cnt (Pb bv o) bv.len - 1024 * (k / 1024)) := by omega
    generalize min 1024 (cnt (Pb bv o) bv.len - 1024 * (k / 1024)) = n at hb hn
    have hdm : 1024 * (k / 1024) + k % 1024 = k := Nat.div_add_mod k 1024
    unfold BlockOK at hb
    by_cases hd : nth (Pb bv o) bv.len (1024 * (k / 1024) + (n - 1)) - nth (Pb bv o) bv.len (1024 * (k / 1024)) < 65536
    · rw [if_pos hd] at hb
      obtain ⟨hb1, hb2⟩ := hb
      have hneg : ¬ Int.ofNat (nth (Pb bv o) bv.len (1024 * (k / 1024))) < 0 := by
        simp only [Int.ofNat_eq_natCast]; omega
      have hs := hb2 (k % 1024 / 32) (by omega)
      rw [show 32 * (k / 1024) + k % 1024 / 32 = k / 32 by omega] at hs
      have hk0 : 1024 * (k / 1024) + 32 * (k % 1024 / 32) = 32 * (k / 32) := by omega
      rw [hk0] at hs
      have hm1 := nth_mono (Pb bv o) bv.len (1024 * (k / 1024)) (32 * (k / 32)) (by omega) (by omega)
      have hstart : (Int.ofNat (nth (Pb bv o) bv.len (1024 * (k / 1024)))).toNat
          + (nth (Pb bv o) bv.len (32 * (k / 32)) - nth (Pb bv o) bv.len (1024 * (k / 1024)))
          = nth (Pb bv o) bv.len (32 * (k / 32)) := by
        simp only [Int.ofNat_eq_natCast, Int.toNat_natCast]; omega
      by_cases h0 : k % Gen.DA_SUBBLOCK_LEN = 0
      · rw [select_dense0 c x bv k _ _ hk hb1 hneg (idx_of_getElem? _ _ _ hs) h0, hstart]
        rw [hS] at h0
        rw [show 32 * (k / 32) = k by omega]
      · -- the scan from the sampled position
        have hS0 := h0
        rw [hS] at h0
        obtain ⟨s1, s2, s3⟩ := nth_isKth (Pb bv o) bv.len (32 * (k / 32)) (by omega)
        obtain ⟨p1, p2, p3⟩ := nth_isKth (Pb bv o) bv.len k hkM
        generalize nth (Pb bv o) bv.len (32 * (k / 32)) = start at hstart s1 s2 s3 hs hm1
        generalize nth (Pb bv o) bv.len k = pstar at p1 p2 p3
        have hsp : start < pstar := by
          by_cases hq : start < pstar
          · exact hq
          · have := cnt_mono (Pb bv o) (show pstar ≤ start by omega); omega
        have hsz := h.size
        have hQ : Q bv o start pstar = true := by rw [Q_eq_Pb bv o start pstar (by omega) p1]; exact p2
        have hcnt : cnt (Q bv o start) pstar = k % 32 := by
          have e1 := cnt_add (Q bv o start) start (pstar - start)
          have e2 := cnt_add (Pb bv o) start (pstar - start)
          rw [show start + (pstar - start) = pstar by omega] at e1 e2
          rw [C14.cnt_zero_of_false _ _ (fun i hi => Q_below bv o start i hi)] at e1
          rw [cnt_congr (fun i => Q bv o start (start + i)) (fun i => Pb bv o (start + i)) _
            (fun i hi => Q_eq_Pb bv o start (start + i) (by omega) (by omega))] at e1
          omega
        have hw0 : DAIndex.getWord x.overOne bv (start / 64) = .ok (gw bv o (start / 64)) := by
          rw [hxo]; exact getWord_ok bv o _ (by omega)
        obtain ⟨wi', word', rem', hsc, hsel, hle⟩ := scan_spec c bv h o x hxo start pstar (k % 32) hQ hcnt p1
          (bv.words.size + 1) (start / 64) (gw bv o (start / 64) &&& ((BV.MAXW <<< (start % 64)) % 2^64)) (k % 32)
          (by
            intro j hj
            rw [mask_testBit _ _ _ hj, gw_testBit bv h o _ j hj]
            unfold Q
            congr 1
            have : (start % 64 ≤ j) ↔ (start ≤ 64 * (start / 64) + j) := by omega
            simp [this])
          (Nat.lt_of_le_of_lt Nat.and_le_left (gw_lt bv h o _))
          (by rw [C14.cnt_zero_of_false _ _ (fun i hi => Q_below bv o start i (by omega))]; omega)
          (by omega) (by omega) (by omega)
        rw [← hstart] at hw0 hsc
        rw [← hS] at hsc
        rw [select_dense c x bv k _ _ _ _ _ hk hb1 hneg (idx_of_getElem? _ _ _ hs) hS0 hw0 hsc hsel]
        simp only []
        rw [show 64 * wi' + (pstar - 64 * wi') = pstar by omega]
    · rw [if_neg hd] at hb
      obtain ⟨ov, hb1, hb2⟩ := hb
      have hneg : -(Int.ofNat (ov + 1)) < 0 := by simp only [Int.ofNat_eq_natCast]; omega
      have hp := hb2 (k % 1024) hn
      rw [hdm] at hp
      have hov : (-(-(Int.ofNat (ov + 1))) - 1).toNat + k % Gen.DA_BLOCK_LEN = ov + k % 1024 := by
        rw [hB]; simp only [Int.ofNat_eq_natCast]; omega
      exact select_sparse c x bv k _ _ hk hb1 hneg (by rw [hov]; exact idx_of_getElem? _ _ _ hp)

end DAProof
end Sucds
