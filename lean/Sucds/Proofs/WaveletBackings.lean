import Sucds.Proofs.Wavelet
import Sucds.Proofs.Rank9Full
import Sucds.Proofs.DArray
import Sucds.Proofs.BitVectorSelect0
import Sucds.Proofs.BitVectorPredSucc
/-! The three supported backings of `WaveletMatrix<B>` build correct layers: `Rank9Sel` (C01), `DArray`
    (C02) and the plain `BitVector` (C07). This discharges the `BackingOK` hypothesis of `Sucds/Proofs/Wavelet*.lean`. -/
namespace Sucds.Wav
open Sucds Sucds.Spec

theorem cnt_not' (P : Nat → Bool) (i : Nat) : cnt (fun j => !P j) i = i - cnt P i := by
  have := cnt_compl P i; omega

theorem backing_r9 (c : Cfg) : BackingOK c .r9 := by
  intro bits
  obtain ⟨x, hx, a1, a2, a3, a4, a5, a6, a7, a8⟩ := R9.build_answers c bits true true
  refine ⟨.r9 x, by simp only [Lay.build, hx, bind_ok], ⟨a1, a2, a3, a4, a5, a6, ?_⟩⟩
  simp only [Lay.numZeros, Lay.numOnes, Lay.numBits, a7, bind_ok, a6]
  exact csub_ok c (cnt_le _ _)

theorem backing_da (c : Cfg) : BackingOK c .da := by
  intro bits
  have hinv := (BV.fromBits_spec bits).1
  have hlen : (BV.fromBits bits).len = bits.length := BV.fromBits_len bits
  have hbit : (BV.fromBits bits).bitAt = fun j => bits.getD j false := funext (fun j => BV.fromBits_bitAt bits j)
  obtain ⟨h1, h2, h3, _, h5, h6, _, h8, h9, _⟩ := DA.build_answers c (BV.fromBits bits) hinv true true
  simp only [hlen, hbit] at h1 h2 h3 h5 h6 h8 h9
  refine ⟨.da (DA.build c (BV.fromBits bits) true true), rfl, ⟨?_, h8 trivial, ?_, h1, h6 trivial, h3, ?_⟩⟩
  · intro i
    show (DA.build c (BV.fromBits bits) true true).access i = _
    rw [h5 i]
    by_cases hi : i < bits.length
    · simp [hi, List.getD_eq_getElem?_getD, List.getElem?_eq_getElem hi]
    · simp [hi, List.getElem?_eq_none (Nat.le_of_not_lt hi)]
  · intro i
    show (DA.build c (BV.fromBits bits) true true).rank0 c i = _
    rw [h9 trivial i, cnt_not']
  · simp only [Lay.numZeros, Lay.numOnes, Lay.numBits, bind_ok, h2, h3]
    exact csub_ok c (cnt_le _ _)

theorem backing_bv (c : Cfg) : BackingOK c .bv := by
  intro bits
  have hinv := (BV.fromBits_spec bits).1
  have hlen : (BV.fromBits bits).len = bits.length := BV.fromBits_len bits
  have hbit : (BV.fromBits bits).bitAt = fun j => bits.getD j false := funext (fun j => BV.fromBits_bitAt bits j)
  refine ⟨.bv (BV.fromBits bits), rfl, ⟨?_, ?_, ?_, ?_, ?_, hlen, ?_⟩⟩
  · intro i
    show (BV.fromBits bits).getBit i = _
    rw [BV.getBit_ok _ hinv i, hlen, hbit]
    by_cases hi : i < bits.length
    · simp [hi, List.getD_eq_getElem?_getD, List.getElem?_eq_getElem hi]
    · simp [hi, List.getElem?_eq_none (Nat.le_of_not_lt hi)]
  · intro i
    show (BV.fromBits bits).rank1 c i = _
    rw [BV.rank1_ok c _ hinv i, hlen, hbit]
  · intro i
    show (BV.fromBits bits).rank0 c i = _
    rw [BV.rank0_ok c _ hinv i, hlen, hbit]
  · intro k
    show (BV.fromBits bits).select1 c k = _
    rw [BV.select1_ok c _ hinv k, hlen, hbit]
  · intro k
    show (BV.fromBits bits).select0 c k = _
    rw [BV.select0_ok c _ hinv k, hlen, hbit]
  · simp only [Lay.numZeros, Lay.numOnes, Lay.numBits, BV.numOnes_ok c _ hinv, bind_ok, hlen, hbit]
    exact csub_ok c (cnt_le _ _)

/-- every supported backing builds correct layers, in every build configuration -/
theorem backing_ok (c : Cfg) (k : Backing) : BackingOK c k := by
  cases k
  · exact backing_r9 c
  · exact backing_da c
  · exact backing_bv c
end Sucds.Wav
