import Sucds.Proofs.SpaceEliasFano
import Sucds.Proofs.SArray
import Sucds.Proofs.Psef
/-! # C19, part 4b — the Elias-Fano bound for what the constructors return:
`EliasFano::from_bits`, `SArray::from_bits` (± `enable_rank`), `PrefixSummedEliasFano::from_slice`. -/
set_option linter.unusedSimpArgs false
set_option linter.unusedVariables false
namespace Sucds
namespace Space
open Codec Spec EFB EFQ

/-- `SArray::size_in_bytes` -/
theorem SA.codec_size (s : SA) :
    SA.codec.size s = (match s.ef with | none => 1 | some e => 1 + EF.codec.size e) + 17 := by
  show (opt EF.codec).size s.ef + (8 + (8 + 1)) = _
  cases s.ef <;> simp only [opt]

/-- `PrefixSummedEliasFano::size_in_bytes` -/
theorem PS.codec_size (p : PS) : PS.codec.size p = EF.codec.size p.ef := rfl

/-- **EliasFano::from_bits** (C19): over a valid bit vector of `u` bits with `n` set bits, whatever is
    returned obeys `8·size_in_bytes ≤ n·⌊lg(u/n)⌋ + 7n + 8192`, and `… + 11n + 8192` after `enable_rank`. -/
theorem eliasfano_fromBV_bound (c : Cfg) (bv : BV) (h : bv.Inv) (hn : bv.len < 2^64) (e : EF)
    (he : EF.fromBV c bv = .ok (some e)) :
    8 * EF.codec.size e ≤ cnt bv.bitAt bv.len * (msbN (bv.len / cnt bv.bitAt bv.len)).getD 0
        + 7 * cnt bv.bitAt bv.len + 8192 ∧
    8 * EF.codec.size (e.enableRank c) ≤ cnt bv.bitAt bv.len * (msbN (bv.len / cnt bv.bitAt bv.len)).getD 0
        + 11 * cnt bv.bitAt bv.len + 8192 := by
  unfold EF.fromBV at he
  simp only [SA.sumPop_all c bv h] at he
  by_cases hl0 : bv.len = 0
  · rw [if_pos hl0] at he; cases he
  · rw [if_neg hl0] at he
    by_cases hz : cnt bv.bitAt bv.len = 0
    · rw [if_pos hz] at he; cases he
    · rw [if_neg hz] at he
      obtain ⟨b0, hnew, hh0, hu0, hm0⟩ := new_holds bv.len (cnt bv.bitAt bv.len) hz hn
      obtain ⟨p1, p2, p3, p4⟩ := new_params _ _ _ hnew
      rw [hnew] at he
      simp only [] at he
      obtain ⟨b', hpa, hh', hu', hm'⟩ := SA.pushAll_ok (SA.ones bv.bitAt bv.len) b0 [] hh0
        (by simpa using SA.ones_sorted bv.bitAt bv.len)
        (by rw [hu0]; exact SA.ones_lt bv.bitAt bv.len)
        (by rw [hm0, SA.ones_length]; simp)
      have hpa' : EF.pushAll b0 ((List.range bv.len).filter bv.bitAt) = .ok (some b') := hpa
      rw [hpa', EFQ.bind_ok] at he
      simp only [] at he
      cases he
      obtain ⟨q1, q2, q3⟩ := pushAll_params _ _ _ hpa
      have := eliasfano_bits c b' _ hh' (by rw [q2, p2]; exact hz) (by rw [q3, q1, q2, p1, p2, p4])
      rw [q2, p2, q3, p4] at this
      generalize cnt bv.bitAt bv.len * (msbN (bv.len / cnt bv.bitAt bv.len)).getD 0 = ml at this ⊢
      omega

/-- **SArray** (C19): `from_bits` over a valid bit vector of `u` bits with `n` set bits succeeds and
    `8·size_in_bytes ≤ n·⌊lg(u/n)⌋ + 7n + 8192`; after `enable_rank`, `≤ n·⌊lg(u/n)⌋ + 11n + 8192`
    (for `n = 0` the structure holds no Elias-Fano part and the product is `0`). -/
theorem sarray_bound (c : Cfg) (bv : BV) (h : bv.Inv) (hn : bv.len < 2^64) :
    ∃ s, SA.fromBV c bv = .ok s ∧
      8 * SA.codec.size s ≤ cnt bv.bitAt bv.len * (msbN (bv.len / cnt bv.bitAt bv.len)).getD 0
        + 7 * cnt bv.bitAt bv.len + 8192 ∧
      8 * SA.codec.size (s.enableRank c) ≤ cnt bv.bitAt bv.len * (msbN (bv.len / cnt bv.bitAt bv.len)).getD 0
        + 11 * cnt bv.bitAt bv.len + 8192 := by
  unfold SA.fromBV
  simp only [SA.sumPop_all c bv h]
  by_cases hz : cnt bv.bitAt bv.len = 0
  · rw [if_neg (by simp [hz])]
    refine ⟨_, rfl, ?_, ?_⟩
    · rw [SA.codec_size]; simp only []; omega
    · rw [SA.codec_size]; simp only [SA.enableRank, Option.map_none]; omega
  · rw [if_pos hz]
    obtain ⟨b0, hnew, hh0, hu0, hm0⟩ := new_holds bv.len (cnt bv.bitAt bv.len) hz hn
    obtain ⟨p1, p2, p3, p4⟩ := new_params _ _ _ hnew
    rw [hnew]
    simp only []
    obtain ⟨ps, hps, hl⟩ := SA.unaryAll_ok c bv h
    rw [hps, EFQ.bind_ok, hl]
    obtain ⟨b', hpa, hh', hu', hm'⟩ := SA.pushAll_ok (SA.ones bv.bitAt bv.len) b0 [] hh0
      (by simpa using SA.ones_sorted bv.bitAt bv.len)
      (by rw [hu0]; exact SA.ones_lt bv.bitAt bv.len)
      (by rw [hm0, SA.ones_length]; simp)
    rw [hpa, EFQ.bind_ok]
    simp only []
    obtain ⟨q1, q2, q3⟩ := pushAll_params _ _ _ hpa
    have := eliasfano_bits c b' _ hh' (by rw [q2, p2]; exact hz) (by rw [q3, q1, q2, p1, p2, p4])
    rw [q2, p2, q3, p4] at this
    refine ⟨_, rfl, ?_, ?_⟩
    · rw [SA.codec_size]; simp only []; omega
    · rw [SA.codec_size]; simp only [SA.enableRank, Option.map_some]; omega

/-! ### `PrefixSummedEliasFano` -/

theorem pushSums_params (c : Cfg) : ∀ (vals : List Nat) (b b' : EFB) (cur : Nat),
    PS.pushSums c b vals cur = .ok (some b') →
    b'.univ = b.univ ∧ b'.numVals = b.numVals ∧ b'.lowLen = b.lowLen := by
  intro vals
  induction vals with
  | nil => intro b b' cur e; cases e; exact ⟨rfl, rfl, rfl⟩
  | cons x xs ih =>
    intro b b' cur e
    unfold PS.pushSums at e
    cases ha : cadd c cur x with
    | error p => rw [ha] at e; cases e
    | ok s =>
      rw [ha, EFQ.bind_ok] at e
      cases hp : b.push s with
      | error p => rw [hp] at e; cases e
      | ok q =>
        rw [hp, EFQ.bind_ok] at e
        obtain ⟨b1, r⟩ := q
        have := push_params b b1 s r hp
        cases r with
        | false => cases e
        | true =>
          have := ih b1 b' s e
          omega

/-- **PrefixSummedEliasFano** (C19): `from_slice` of `n ≥ 1` values whose sum is below `usize::MAX`
    succeeds; its Elias-Fano sequence has `n` elements over the universe `u = sum + 1` and
    `8·size_in_bytes ≤ n·⌊lg(u/n)⌋ + 7n + 8192`. -/
theorem psef_bound (c : Cfg) (vals : List Nat) (hne : vals ≠ []) (hs : vals.sum + 1 < 2^64) :
    ∃ p, PS.fromSlice c vals = .ok (some p) ∧
      8 * PS.codec.size p ≤ vals.length * (msbN ((vals.sum + 1) / vals.length)).getD 0 + 7 * vals.length + 8192 := by
  have hemp : vals.isEmpty = false := by cases vals with
    | nil => exact absurd rfl hne
    | cons _ _ => rfl
  have hm : vals.length ≠ 0 := by cases vals with
    | nil => exact absurd rfl hne
    | cons _ _ => simp
  obtain ⟨b0, hnew, hh0, hu0, hm0⟩ := new_holds (vals.sum + 1) vals.length hm hs
  obtain ⟨p1, p2, p3, p4⟩ := new_params _ _ _ hnew
  obtain ⟨b, hr, hh, hub⟩ := PS.pushSums_ok c vals b0 [] 0 hh0 hh0.last (by rw [hu0]; omega) (by rw [hu0]; omega)
    (by rw [hh0.pos, hm0]; simp)
  obtain ⟨q1, q2, q3⟩ := pushSums_params c _ _ _ _ hr
  have := (eliasfano_bits c b _ hh (by rw [q2, p2]; exact hm) (by rw [q3, q1, q2, p1, p2, p4])).1
  rw [q2, p2, q3, p4] at this
  refine ⟨⟨EF.ofBuilder c b⟩, ?_, by
    show 8 * EF.codec.size (EF.ofBuilder c b) ≤ _
    generalize vals.length * (msbN ((vals.sum + 1) / vals.length)).getD 0 = ml at this ⊢
    omega⟩
  unfold PS.fromSlice
  rw [hemp]
  have hsum := PS.sumAll_ok c vals 0 (by omega)
  rw [Nat.zero_add] at hsum
  simp only [Bool.false_eq_true, if_false]
  rw [hsum, EFQ.bind_ok, cadd_ok c hs, EFQ.bind_ok]
  simp only [hnew]
  rw [hr, EFQ.bind_ok]

end Space
end Sucds
