import Sucds.Model.WaveletMatrix
import Sucds.Spec.Bits
import Sucds.Spec.Exec
import Sucds.Proofs.WMr
import Sucds.Proofs.C14Msb
/-! Wavelet matrix, part 1: abstraction of the backing bit vector (`LayOK`, `BackingOK`), the
    list-level view of one layer (`LayS`), the chain of layers (`Chain`) and the correctness of
    `WM.new` (`new_ok`, `new_nil`). -/
set_option linter.unusedSimpArgs false
set_option linter.unusedVariables false
namespace Sucds.Wav
open Sucds Sucds.Spec WMr L

/-- layer `l` represents the bit list `bits` -/
structure LayOK (c : Cfg) (l : Lay) (bits : List Bool) : Prop where
  access  : ∀ i, l.access i = .ok bits[i]?
  rank1   : ∀ i, l.rank1 c i = .ok (if i ≤ bits.length then some (cnt (fun j => bits.getD j false) i) else none)
  rank0   : ∀ i, l.rank0 c i = .ok (if i ≤ bits.length then some (i - cnt (fun j => bits.getD j false) i) else none)
  select1 : ∀ k, l.select1 c k = .ok (sel (fun j => bits.getD j false) bits.length k)
  select0 : ∀ k, l.select0 c k = .ok (sel (fun j => !bits.getD j false) bits.length k)
  numBits : l.numBits = bits.length
  numZeros : l.numZeros c = .ok (bits.length - cnt (fun j => bits.getD j false) bits.length)

/-- the backing `k` builds correct layers -/
def BackingOK (c : Cfg) (k : Backing) : Prop :=
  ∀ bits : List Bool, ∃ l, Lay.build c k (BV.fromBits bits) = .ok l ∧ LayOK c l bits

/-- the same, restricted to bit lists of length `n` (all that a wavelet matrix over `n` values needs) -/
def BackingOKFor (c : Cfg) (k : Backing) (n : Nat) : Prop :=
  ∀ bits : List Bool, bits.length = n → ∃ l, Lay.build c k (BV.fromBits bits) = .ok l ∧ LayOK c l bits

theorem BackingOK.for {c : Cfg} {k : Backing} (h : BackingOK c k) (n : Nat) : BackingOKFor c k n :=
  fun bits _ => h bits

theorem bind_ok {α β} (v : α) (f : α → R β) : (Except.ok v : R α).bind f = f v := rfl

/-! ### bits of numbers -/

theorem shift_and_one (v sh : Nat) : (((v >>> sh) &&& 1) == 1) = v.testBit sh := by
  rw [Nat.testBit_eq_decide_div_mod_eq, Nat.and_one_is_mod, Nat.shiftRight_eq_div_pow]
  by_cases h : v / 2 ^ sh % 2 = 1 <;> simp [h]

theorem getMsb_eq (v depth width : Nat) : WM.getMsb v depth width = bitOf (width - depth - 1) v := by
  simp only [WM.getMsb, bitOf, shift_and_one]

/-- low `m+1` bits from the low `m` bits and bit `m` -/
theorem mod_succ_bit (x m : Nat) : x % 2 ^ (m + 1) = (if x.testBit m then 2 ^ m else 0) + x % 2 ^ m := by
  rw [Nat.mod_pow_succ, Nat.testBit_eq_decide_div_mod_eq]
  have : x / 2 ^ m % 2 < 2 := Nat.mod_lt _ (by decide)
  by_cases h : x / 2 ^ m % 2 = 1
  · simp [h]; omega
  · have h0 : x / 2 ^ m % 2 = 0 := by omega
    simp [h0]

/-! ### `needed_bits` -/

theorem neededBits_eq (c : Cfg) (x : Nat) (hx : x < 2 ^ 64) : neededBits c x = SpecX.bitlen x := by
  unfold neededBits msbW SpecX.bitlen
  rw [C14.msb_ok]
  by_cases h0 : x = 0
  · subst h0; simp
  · have hne : BitVec.ofNat 64 x ≠ 0 := by
      intro h
      have := congrArg BitVec.toNat h
      simp only [BitVec.toNat_ofNat, BitVec.toNat_zero] at this
      rw [Nat.mod_eq_of_lt hx] at this; exact h0 this
    simp only [hne, h0, if_false]
    have hbits : ∀ i, Broadword.bitsOf (BitVec.ofNat 64 x) i = (decide (i < 64) && x.testBit i) := by
      intro i; simp [Broadword.bitsOf, BitVec.getLsbD_ofNat]
    have hlog : x.log2 < 64 := (Nat.log2_lt h0).mpr hx
    have hset : Broadword.bitsOf (BitVec.ofNat 64 x) x.log2 = true := by
      rw [hbits]; simp [hlog, Nat.testBit_log2 h0]
    have hsplit := cnt_add (Broadword.bitsOf (BitVec.ofNat 64 x)) (x.log2 + 1) (64 - (x.log2 + 1))
    rw [show x.log2 + 1 + (64 - (x.log2 + 1)) = 64 by omega] at hsplit
    have hz := C14.cnt_zero_of_false (fun i => Broadword.bitsOf (BitVec.ofNat 64 x) (x.log2 + 1 + i)) (64 - (x.log2 + 1))
      (fun i _ => by
        simp only [hbits]
        have : x < 2 ^ (x.log2 + 1 + i) :=
          Nat.lt_of_lt_of_le Nat.lt_log2_self (Nat.pow_le_pow_right (by decide) (by omega))
        simp [Nat.testBit_lt_two_pow this])
    have hs1 := cnt_succ_of_true (Broadword.bitsOf (BitVec.ofNat 64 x)) _ hset
    rw [sel_eq_some (Broadword.bitsOf (BitVec.ofNat 64 x)) 64 _ x.log2 ⟨hlog, hset, by omega⟩]

theorem bitlen_pos (x : Nat) : 0 < SpecX.bitlen x := by unfold SpecX.bitlen; split <;> omega
theorem lt_two_pow_bitlen (x : Nat) : x < 2 ^ SpecX.bitlen x := by
  unfold SpecX.bitlen; split
  · subst_vars; decide
  · exact Nat.lt_log2_self
theorem bitlen_le (x : Nat) (hx : x < 2 ^ 64) : SpecX.bitlen x ≤ 64 := by
  unfold SpecX.bitlen; split
  · omega
  · rename_i h; have := (Nat.log2_lt h).mpr hx; omega

/-! ### `cnt` on a mapped list versus `countP` -/

theorem getD_map_false (f : Nat → Bool) (S : List Nat) (j : Nat) :
    (S.map f).getD j false = match S[j]? with | some x => f x | none => false := by
  simp only [List.getD_eq_getElem?_getD, List.getElem?_map]
  cases S[j]? <;> rfl

theorem cnt_map (f : Nat → Bool) (S : List Nat) (i : Nat) :
    cnt (fun j => (S.map f).getD j false) i = (S.take i).countP f := by
  induction i with
  | zero => simp [cnt]
  | succ i ih =>
    rw [cnt, ih, getD_map_false]
    by_cases hi : i < S.length
    · rw [List.take_succ_eq_append_getElem hi, List.countP_append, List.getElem?_eq_getElem hi]
      simp [List.countP_cons]
    · have hi' : S.length ≤ i := by omega
      rw [List.getElem?_eq_none hi', List.take_of_length_le hi', List.take_of_length_le (by omega)]
      simp

theorem nbit_not (sh : Nat) : (fun a => decide ¬ bitOf sh a = true) = nbitOf sh := by
  funext a; simp [nbitOf, bitOf]

theorem countP_split (sh : Nat) (S : List Nat) : S.countP (bitOf sh) + S.countP (nbitOf sh) = S.length := by
  have := List.length_eq_countP_add_countP (bitOf sh) (l := S)
  rw [nbit_not] at this; omega

/-! ### the list-level view of a layer -/

/-- layer `l` stores bit `sh` of every element of `S` -/
structure LayS (c : Cfg) (l : Lay) (sh : Nat) (S : List Nat) : Prop where
  access  : ∀ i, l.access i = .ok (S[i]?.map (bitOf sh))
  rank1   : ∀ i, l.rank1 c i = .ok (if i ≤ S.length then some ((S.take i).countP (bitOf sh)) else none)
  rank0   : ∀ i, l.rank0 c i = .ok (if i ≤ S.length then some ((S.take i).countP (nbitOf sh)) else none)
  select1 : ∀ k, l.select1 c k = .ok (sel (fun j => (S.map (bitOf sh)).getD j false) S.length k)
  select0 : ∀ k, l.select0 c k = .ok (sel (fun j => !(S.map (bitOf sh)).getD j false) S.length k)
  numBits : l.numBits = S.length
  numZeros : l.numZeros c = .ok (S.countP (nbitOf sh))

theorem LayOK.toS {c : Cfg} {l : Lay} {sh : Nat} {S : List Nat} (h : LayOK c l (S.map (bitOf sh))) :
    LayS c l sh S := by
  refine ⟨?_, ?_, ?_, ?_, ?_, ?_, ?_⟩
  · intro i; rw [h.access, List.getElem?_map]
  · intro i; rw [h.rank1, cnt_map, List.length_map]
  · intro i; rw [h.rank0, cnt_map, List.length_map]
    by_cases hi : i ≤ S.length
    · have := countP_split sh (S.take i)
      rw [List.length_take] at this
      simp only [hi, if_true]; congr 2; omega
    · simp [hi]
  · intro k; rw [h.select1, List.length_map]
  · intro k; rw [h.select0, List.length_map]
  · rw [h.numBits, List.length_map]
  · rw [h.numZeros, cnt_map, List.length_map, List.take_length]
    have := countP_split sh S
    congr 1; omega

/-! ### the chain of layers -/

/-- `ls` are the remaining layers for the sequence `S`: the head stores bit `ls.length - 1`
    (the most significant remaining one), the tail belongs to the stable partition by that bit -/
def Chain (c : Cfg) : List Lay → List Nat → Prop
  | [], _ => True
  | l :: ls, S => LayOK c l (S.map (bitOf ls.length)) ∧ Chain c ls (part ls.length S)

theorem Chain.head {c l ls S} (h : Chain c (l :: ls) S) : LayS c l ls.length S := h.1.toS
theorem Chain.tail {c l ls S} (h : Chain c (l :: ls) S) : Chain c ls (part ls.length S) := h.2

/-- layer `d` of a chain of `w` layers stores bit `w-1-d` of `seqAt w s d` -/
theorem Chain.layer {c : Cfg} {w : Nat} {s : List Nat} :
    ∀ (ls : List Lay) (d0 : Nat), d0 + ls.length = w → Chain c ls (seqAt w s d0) →
      ∀ j (hj : j < ls.length), LayOK c ls[j] ((seqAt w s (d0 + j)).map (bitOf (w - 1 - (d0 + j))))
  | [], _, _, _, j, hj => by simp at hj
  | l :: ls, d0, hw, hc, j, hj => by
    simp only [List.length_cons] at hw hj
    cases j with
    | zero =>
      have : ls.length = w - 1 - d0 := by omega
      simpa [this] using hc.1
    | succ j =>
      have e : ls.length = w - 1 - d0 := by omega
      have hc2 : Chain c ls (seqAt w s (d0 + 1)) := by
        have := hc.2; rw [e] at this; exact this
      have := Chain.layer ls (d0 + 1) (by omega) hc2 j (by omega)
      simpa [show d0 + 1 + j = d0 + (j + 1) by omega] using this

/-! ### `buildLayers` and `new` -/

theorem buildLayers_ok (c : Cfg) (k : Backing) (width n : Nat) (hk : BackingOKFor c k n) :
    ∀ (fuel depth : Nat) (zeros ones : List Nat) (acc : Array Lay),
      depth + fuel = width → (zeros ++ ones).length = n →
      ∃ ls, WM.buildLayers c k width depth zeros ones acc fuel = .ok (acc ++ ls.toArray) ∧
        ls.length = fuel ∧ Chain c ls (zeros ++ ones)
  | 0, depth, zeros, ones, acc, _, _ => ⟨[], by simp [WM.buildLayers], rfl, trivial⟩
  | fuel+1, depth, zeros, ones, acc, hw, hn => by
    have hlt : depth < width := by omega
    have hsh : width - depth - 1 = fuel := by omega
    have hbit : (fun (v : Nat) => ((v >>> fuel) &&& 1) == 1) = bitOf fuel := by
      funext v; rw [shift_and_one]; rfl
    have hnbit : (fun (v : Nat) => !(((v >>> fuel) &&& 1) == 1)) = nbitOf fuel := by
      funext v; rw [shift_and_one]; rfl
    obtain ⟨l, hl, hlok⟩ := hk ((zeros ++ ones).map (bitOf fuel)) (by rw [List.length_map, hn])
    obtain ⟨ls, hls, hlen, hch⟩ := buildLayers_ok c k width n hk fuel (depth + 1)
      ((zeros ++ ones).filter (nbitOf fuel)) ((zeros ++ ones).filter (bitOf fuel)) (acc.push l) (by omega)
      (by have := part_length fuel (zeros ++ ones); simp only [part] at this; rw [this, hn])
    refine ⟨l :: ls, ?_, by simp [hlen], ?_⟩
    · rw [WM.buildLayers]
      simp only [hlt, if_true, hsh, hbit, hnbit]
      rw [hl, bind_ok, hls]
      congr 1
      apply Array.ext'
      simp
    · refine ⟨by rw [hlen]; exact hlok, ?_⟩
      rw [hlen]; exact hch

theorem foldl_max_ge (s : List Nat) (a : Nat) : a ≤ s.foldl max a ∧ ∀ x ∈ s, x ≤ s.foldl max a := by
  induction s generalizing a with
  | nil => simp
  | cons y t ih =>
    simp only [List.foldl_cons]
    obtain ⟨h1, h2⟩ := ih (max a y)
    refine ⟨by omega, ?_⟩
    intro x hx
    rcases List.mem_cons.mp hx with rfl | hx
    · omega
    · exact h2 x hx

/-- everything the query proofs need to know about a wavelet matrix built from `s` -/
structure Built (c : Cfg) (wm : WM) (s : List Nat) : Prop where
  alph : wm.alphSize = s.foldl max 0 + 1
  width : wm.layers.toList.length = SpecX.bitlen (s.foldl max 0 + 1)
  chain : Chain c wm.layers.toList s
  small : s.foldl max 0 + 1 < 2 ^ 64
  nlt : s.length < 2 ^ 64
  ne : s ≠ []

theorem Built.len {c wm s} (h : Built c wm s) : wm.len = s.length := by
  have hw := h.width
  have hpos := bitlen_pos (s.foldl max 0 + 1)
  unfold WM.len
  cases hl : wm.layers.toList with
  | nil => rw [hl] at hw; simp at hw; omega
  | cons l ls =>
    have hc := h.chain
    rw [hl] at hc
    have : wm.layers[0]? = some l := by
      have := congrArg (fun x => x[0]?) hl
      simpa using this
    rw [this]
    exact hc.head.numBits

theorem Built.alphWidth {c wm s} (h : Built c wm s) : wm.alphWidth = SpecX.bitlen (s.foldl max 0 + 1) := by
  unfold WM.alphWidth; rw [← h.width]; simp

theorem Built.width_le {c wm s} (h : Built c wm s) : wm.layers.toList.length ≤ 64 := by
  rw [h.width]; exact bitlen_le _ h.small

theorem Built.elem_lt {c wm s} (h : Built c wm s) : ∀ x ∈ s, x < 2 ^ wm.layers.toList.length := by
  intro x hx
  rw [h.width]
  have := (foldl_max_ge s 0).2 x hx
  have := lt_two_pow_bitlen (s.foldl max 0 + 1)
  omega

theorem Built.alph_le {c wm s} (h : Built c wm s) : wm.alphSize ≤ 2 ^ wm.layers.toList.length := by
  rw [h.width, h.alph]
  have := lt_two_pow_bitlen (s.foldl max 0 + 1)
  omega

/-- **`WaveletMatrix::new`** on a non-empty sequence -/
theorem new_ok (c : Cfg) (k : Backing) (s : List Nat) (hk : BackingOKFor c k s.length)
    (hne : s ≠ []) (hmax : s.foldl max 0 + 1 < 2 ^ 64) (hn : s.length < 2 ^ 64) :
    ∃ wm, WM.new c k s = .ok (some wm) ∧ Built c wm s := by
  have hemp : s.isEmpty = false := by cases s <;> simp_all
  obtain ⟨ls, hls, hlen, hch⟩ := buildLayers_ok c k (SpecX.bitlen (s.foldl max 0 + 1)) s.length hk
    (SpecX.bitlen (s.foldl max 0 + 1)) 0 s [] #[] (by omega) (by simp)
  refine ⟨⟨ls.toArray, s.foldl max 0 + 1⟩, ?_, ⟨rfl, by simpa using hlen, by simpa using hch, hmax, hn, hne⟩⟩
  unfold WM.new
  simp only [hemp, Bool.false_eq_true, if_false]
  rw [cadd_ok c hmax, bind_ok]
  simp only [neededBits_eq c _ hmax]
  rw [hls, bind_ok]
  simp

/-- **`WaveletMatrix::new`** on the empty sequence is `Err` -/
theorem new_nil (c : Cfg) (k : Backing) : WM.new c k [] = .ok none := rfl

/-- deliverable 1 in the terms of the task: sizes and the contents of every layer -/
theorem new_spec (c : Cfg) (k : Backing) (s : List Nat) (hk : BackingOKFor c k s.length)
    (hne : s ≠ []) (hmax : s.foldl max 0 + 1 < 2 ^ 64) (hn : s.length < 2 ^ 64) :
    ∃ wm, WM.new c k s = .ok (some wm) ∧ wm.alphSize = s.foldl max 0 + 1 ∧ wm.len = s.length ∧
      wm.alphWidth = SpecX.bitlen (s.foldl max 0 + 1) ∧
      ∀ d (hd : d < wm.layers.size),
        LayOK c wm.layers[d] ((seqAt wm.alphWidth s d).map (bitOf (wm.alphWidth - 1 - d))) := by
  obtain ⟨wm, hnew, hb⟩ := new_ok c k s hk hne hmax hn
  refine ⟨wm, hnew, hb.alph, hb.len, hb.alphWidth, ?_⟩
  intro d hd
  have hch : Chain c wm.layers.toList (seqAt wm.alphWidth s 0) := hb.chain
  have := Chain.layer (w := wm.alphWidth) (s := s) wm.layers.toList 0 (by simp [WM.alphWidth]) hch d (by simpa using hd)
  simpa using this

end Sucds.Wav
