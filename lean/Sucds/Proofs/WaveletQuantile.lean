import Sucds.Proofs.WaveletRank
/-! Wavelet matrix, part 4: `quantile`. -/
set_option linter.unusedSimpArgs false
set_option linter.unusedVariables false
namespace Sucds.Wav
open Sucds Sucds.Spec WMr L

/-! ### the k-th smallest element, by counting -/

/-- `q` is the `k`-th smallest (0-based, with multiplicity) of `T`: at most `k` elements are smaller and
    more than `k` are not larger -/
def IsQuant (T : List Nat) (k q : Nat) : Prop :=
  T.countP (fun y => decide (y < q)) ≤ k ∧ k < T.countP (fun y => decide (y ≤ q))

theorem IsQuant.unique {T : List Nat} {k q q' : Nat} (h : IsQuant T k q) (h' : IsQuant T k q') : q = q' := by
  have key : ∀ a b, a < b → T.countP (fun y => decide (y ≤ a)) ≤ T.countP (fun y => decide (y < b)) := by
    intro a b hab
    apply List.countP_mono_left
    intro x _ hx
    simp only [decide_eq_true_eq] at hx ⊢; omega
  by_cases h1 : q < q'
  · have := key q q' h1; have := h.2; have := h'.1; omega
  · by_cases h2 : q' < q
    · have := key q' q h2; have := h'.2; have := h.1; omega
    · omega

theorem IsQuant.perm {T T' : List Nat} {k q : Nat} (hp : T.Perm T') (h : IsQuant T k q) : IsQuant T' k q := by
  unfold IsQuant at h ⊢
  rw [← hp.countP_eq, ← hp.countP_eq]; exact h

theorem insertSorted_perm (x : Nat) (l : List Nat) : (SpecX.insertSorted x l).Perm (x :: l) := by
  induction l with
  | nil => exact List.Perm.refl _
  | cons y ys ih =>
    simp only [SpecX.insertSorted]
    split
    · exact List.Perm.refl _
    · exact ((List.Perm.cons y ih).trans (List.Perm.swap x y ys))

theorem sort_perm (l : List Nat) : (SpecX.sort l).Perm l := by
  induction l with
  | nil => exact List.Perm.refl _
  | cons x t ih =>
    show (SpecX.insertSorted x (SpecX.sort t)).Perm (x :: t)
    exact (insertSorted_perm x _).trans (List.Perm.cons x ih)

theorem insertSorted_sorted (x : Nat) (l : List Nat) (h : l.Pairwise (· ≤ ·)) :
    (SpecX.insertSorted x l).Pairwise (· ≤ ·) := by
  induction l with
  | nil => simp [SpecX.insertSorted]
  | cons y ys ih =>
    simp only [SpecX.insertSorted]
    obtain ⟨hy, hys⟩ := List.pairwise_cons.mp h
    split
    · rename_i hxy
      refine List.pairwise_cons.mpr ⟨?_, h⟩
      intro a ha
      rcases List.mem_cons.mp ha with rfl | ha
      · exact hxy
      · exact Nat.le_trans hxy (hy a ha)
    · rename_i hxy
      refine List.pairwise_cons.mpr ⟨?_, ih hys⟩
      intro a ha
      rcases List.mem_cons.mp ((insertSorted_perm x ys).mem_iff.mp ha) with rfl | ha
      · omega
      · exact hy a ha

theorem sort_sorted (l : List Nat) : (SpecX.sort l).Pairwise (· ≤ ·) := by
  induction l with
  | nil => simp [SpecX.sort]
  | cons x t ih => exact insertSorted_sorted x _ ih

/-- in a sorted list the element at index `k` is the `k`-th smallest -/
theorem sorted_kth (L : List Nat) (hs : L.Pairwise (· ≤ ·)) (k : Nat) (hk : k < L.length) : IsQuant L k L[k] := by
  have hp := List.pairwise_iff_getElem.mp hs
  have hge : ∀ j (hj : j < L.length), k ≤ j → L[k] ≤ L[j] := by
    intro j hj hkj
    by_cases e : j = k
    · subst e; exact Nat.le_refl _
    · exact hp k j hk hj (by omega)
  have hle : ∀ j (hj : j < L.length), j ≤ k → L[j] ≤ L[k] := by
    intro j hj hjk
    by_cases e : j = k
    · subst e; exact Nat.le_refl _
    · exact hp j k hj hk (by omega)
  generalize L[k] = x at hge hle
  constructor
  · conv => lhs; rw [← List.take_append_drop k L]
    rw [List.countP_append]
    have h1 : (L.take k).countP (fun y => decide (y < x)) ≤ k := by
      have := List.countP_le_length (p := fun y => decide (y < x)) (l := L.take k)
      rw [List.length_take] at this; omega
    have h2 : (L.drop k).countP (fun y => decide (y < x)) = 0 := by
      rw [List.countP_eq_zero]
      intro a ha
      obtain ⟨j, hj, rfl⟩ := List.mem_iff_getElem.mp ha
      rw [List.getElem_drop]
      simp only [decide_eq_true_eq, Nat.not_lt]
      rw [List.length_drop] at hj
      exact hge (k + j) (by omega) (by omega)
    omega
  · have hsub : (L.take (k + 1)).countP (fun y => decide (y ≤ x)) ≤ L.countP (fun y => decide (y ≤ x)) :=
      List.Sublist.countP_le (List.take_sublist _ _)
    have hall : (L.take (k + 1)).countP (fun y => decide (y ≤ x)) = (L.take (k + 1)).length := by
      rw [List.countP_eq_length]
      intro a ha
      obtain ⟨j, hj, rfl⟩ := List.mem_iff_getElem.mp ha
      rw [List.getElem_take]
      rw [List.length_take] at hj
      simp only [decide_eq_true_eq]
      exact hle j (by omega) (by omega)
    rw [List.length_take] at hall
    omega

/-- the counting characterisation determines the element of the sorted list -/
theorem sort_getElem_of_isQuant (T : List Nat) (k q : Nat) (h : IsQuant T k q) : (SpecX.sort T)[k]? = some q := by
  have hlen : (SpecX.sort T).length = T.length := (sort_perm T).length_eq
  have hk : k < (SpecX.sort T).length := by
    have := h.2
    have := List.countP_le_length (p := fun y => decide (y ≤ q)) (l := T)
    omega
  rw [List.getElem?_eq_getElem hk]
  congr 1
  exact (sorted_kth _ (sort_sorted T) k hk).unique (h.perm (sort_perm T).symm)

/-! ### one level of the descent -/

theorem countP_bit_split (p : Nat → Bool) (sh : Nat) (T : List Nat) :
    T.countP p = (T.filter (nbitOf sh)).countP p + (T.filter (bitOf sh)).countP p := by
  induction T with
  | nil => rfl
  | cons x t ih =>
    by_cases hb : bitOf sh x = true
    · have hn : nbitOf sh x = false := by simp only [nbitOf, bitOf] at hb ⊢; simp [hb]
      simp only [List.filter_cons, hb, hn, if_true, Bool.false_eq_true, if_false, List.countP_cons, ih]; omega
    · have hb0 : bitOf sh x = false := by simpa using hb
      have hn : nbitOf sh x = true := by simp only [nbitOf, bitOf] at hb0 ⊢; simp [hb0]
      simp only [List.filter_cons, hb0, hn, if_true, Bool.false_eq_true, if_false, List.countP_cons, ih]; omega

theorem mod_succ_of_nbit (m x : Nat) (h : nbitOf m x = true) : x % 2 ^ (m + 1) = x % 2 ^ m := by
  have : x.testBit m = false := by simpa [nbitOf] using h
  rw [mod_succ_bit, this]; simp
theorem mod_succ_of_bit (m x : Nat) (h : bitOf m x = true) : x % 2 ^ (m + 1) = 2 ^ m + x % 2 ^ m := by
  have : x.testBit m = true := h
  rw [mod_succ_bit, this]; simp

theorem quant_zero (T : List Nat) (m k q : Nat) (hq : q < 2 ^ m)
    (h : IsQuant ((T.filter (nbitOf m)).map (· % 2 ^ m)) k q) : IsQuant (T.map (· % 2 ^ (m + 1))) k q := by
  unfold IsQuant at h ⊢
  simp only [List.countP_map] at h ⊢
  obtain ⟨h1, h2⟩ := h
  constructor
  · rw [countP_bit_split _ m T]
    have e0 : (T.filter (nbitOf m)).countP ((fun y => decide (y < q)) ∘ (· % 2 ^ (m + 1))) =
        (T.filter (nbitOf m)).countP ((fun y => decide (y < q)) ∘ (· % 2 ^ m)) := by
      apply List.countP_congr
      intro x hx
      simp only [Function.comp, mod_succ_of_nbit m x (List.mem_filter.mp hx).2]
    have e1 : (T.filter (bitOf m)).countP ((fun y => decide (y < q)) ∘ (· % 2 ^ (m + 1))) = 0 := by
      rw [List.countP_eq_zero]
      intro x hx
      simp only [Function.comp, mod_succ_of_bit m x (List.mem_filter.mp hx).2, decide_eq_true_eq]
      omega
    omega
  · rw [countP_bit_split _ m T]
    have e0 : (T.filter (nbitOf m)).countP ((fun y => decide (y ≤ q)) ∘ (· % 2 ^ (m + 1))) =
        (T.filter (nbitOf m)).countP ((fun y => decide (y ≤ q)) ∘ (· % 2 ^ m)) := by
      apply List.countP_congr
      intro x hx
      simp only [Function.comp, mod_succ_of_nbit m x (List.mem_filter.mp hx).2]
    omega

theorem quant_one (T : List Nat) (m k q : Nat) (hq : q < 2 ^ m) (hk : (T.filter (nbitOf m)).length ≤ k)
    (h : IsQuant ((T.filter (bitOf m)).map (· % 2 ^ m)) (k - (T.filter (nbitOf m)).length) q) :
    IsQuant (T.map (· % 2 ^ (m + 1))) k (2 ^ m + q) := by
  unfold IsQuant at h ⊢
  simp only [List.countP_map] at h ⊢
  obtain ⟨h1, h2⟩ := h
  have hmod : ∀ x, x % 2 ^ m < 2 ^ m := fun x => Nat.mod_lt _ (Nat.pow_pos (by decide))
  constructor
  · rw [countP_bit_split _ m T]
    have e0 := List.countP_le_length (p := (fun y => decide (y < 2 ^ m + q)) ∘ (· % 2 ^ (m + 1)))
      (l := T.filter (nbitOf m))
    have e1 : (T.filter (bitOf m)).countP ((fun y => decide (y < 2 ^ m + q)) ∘ (· % 2 ^ (m + 1))) =
        (T.filter (bitOf m)).countP ((fun y => decide (y < q)) ∘ (· % 2 ^ m)) := by
      apply List.countP_congr
      intro x hx
      simp only [Function.comp, mod_succ_of_bit m x (List.mem_filter.mp hx).2, decide_eq_true_eq]
      omega
    omega
  · rw [countP_bit_split _ m T]
    have e0 : (T.filter (nbitOf m)).countP ((fun y => decide (y ≤ 2 ^ m + q)) ∘ (· % 2 ^ (m + 1))) =
        (T.filter (nbitOf m)).length := by
      rw [List.countP_eq_length]
      intro x hx
      have := hmod x
      simp only [Function.comp, mod_succ_of_nbit m x (List.mem_filter.mp hx).2, decide_eq_true_eq]
      omega
    have e1 : (T.filter (bitOf m)).countP ((fun y => decide (y ≤ 2 ^ m + q)) ∘ (· % 2 ^ (m + 1))) =
        (T.filter (bitOf m)).countP ((fun y => decide (y ≤ q)) ∘ (· % 2 ^ m)) := by
      apply List.countP_congr
      intro x hx
      simp only [Function.comp, mod_succ_of_bit m x (List.mem_filter.mp hx).2, decide_eq_true_eq]
      omega
    omega

/-- lengths of the two halves of a slice -/
theorem slice_lengths (sh : Nat) (S : List Nat) (a b : Nat) (hab : a ≤ b) (hb : b ≤ S.length) :
    (((S.take b).drop a).filter (nbitOf sh)).length = (S.take b).countP (nbitOf sh) - (S.take a).countP (nbitOf sh) ∧
    (((S.take b).drop a).filter (bitOf sh)).length = (S.take b).countP (bitOf sh) - (S.take a).countP (bitOf sh) := by
  obtain ⟨_, h2, h3⟩ := slice_zero sh S a b hab hb
  obtain ⟨_, g2, g3⟩ := slice_one sh S a b hab hb
  have hlen := part_length sh S
  constructor
  · rw [← h3, List.length_drop, List.length_take, hlen]; omega
  · rw [← g3, List.length_drop, List.length_take, hlen]; omega

theorem quantileLoop_ok (c : Cfg) : ∀ (ls : List Lay) (S : List Nat) (val k a b : Nat),
    Chain c ls S → S.length < 2 ^ 63 → a ≤ b → b ≤ S.length → k < b - a →
    ls.length ≤ 64 → val < 2 ^ (64 - ls.length) →
    ∃ q, WM.quantileLoop c ls val k a b = .ok (val * 2 ^ ls.length + q) ∧ q < 2 ^ ls.length ∧
      IsQuant (((S.take b).drop a).map (· % 2 ^ ls.length)) k q
  | [], S, val, k, a, b, _, _, hab, hb, hk, _, _ => by
    refine ⟨0, by simp [WM.quantileLoop], by simp, ?_⟩
    unfold IsQuant
    simp only [List.countP_map, List.length_nil, Nat.pow_zero, Nat.mod_one]
    constructor
    · have : ((S.take b).drop a).countP ((fun y => decide (y < 0)) ∘ fun x => 0) = 0 := by
        rw [List.countP_eq_zero]; intro x _; simp
      omega
    · have : ((S.take b).drop a).countP ((fun y => decide (y ≤ 0)) ∘ fun x => 0) = ((S.take b).drop a).length := by
        rw [List.countP_eq_length]; intro x _; simp
      rw [this, List.length_drop, List.length_take]; omega
  | l :: ls, S, val, k, a, b, hc, hn, hab, hb, hk, hm, hv => by
    have hd := hc.head
    simp only [List.length_cons] at hm hv ⊢
    obtain ⟨hr1, hr2⟩ := room val ls.length hm hv
    have hlen : (part ls.length S).length = S.length := part_length _ _
    obtain ⟨z1, z2, z3⟩ := slice_zero ls.length S a b hab hb
    obtain ⟨o1, o2, o3⟩ := slice_one ls.length S a b hab hb
    obtain ⟨l0, l1⟩ := slice_lengths ls.length S a b hab hb
    have hspa := countP_split ls.length (S.take a)
    have hspb := countP_split ls.length (S.take b)
    have hsp := countP_split ls.length S
    rw [List.length_take] at hspa hspb
    have hnz : S.countP (nbitOf ls.length) ≤ S.length := List.countP_le_length
    rw [WM.quantileLoop, hd.rank0, if_pos (by omega), unwrapO_some, bind_ok, hd.rank0, if_pos hb, unwrapO_some,
      bind_ok, csub_ok c z1, bind_ok]
    by_cases hkz : k < (S.take b).countP (nbitOf ls.length) - (S.take a).countP (nbitOf ls.length)
    · simp only [hkz, if_true]
      obtain ⟨q, hq, hqlt, hqq⟩ := quantileLoop_ok c ls (part ls.length S) (2 * val) k _ _ hc.tail (by omega) z1
        (by omega) hkz (by omega) (by omega)
      refine ⟨q, ?_, ?_, ?_⟩
      · rw [shl1 val (by omega), hq, Nat.pow_succ]; congr 1
        have := arith0 val (2 ^ ls.length) q; omega
      · rw [Nat.pow_succ]; omega
      · rw [z3] at hqq
        exact quant_zero _ _ _ _ hqlt hqq
    · simp only [hkz, if_false]
      rw [hd.numZeros, bind_ok, cadd_ok c (by omega), bind_ok, csub_ok c (by omega), bind_ok,
        cadd_ok c (by omega), bind_ok, csub_ok c (by omega), bind_ok]
      have ea : S.countP (nbitOf ls.length) + a - (S.take a).countP (nbitOf ls.length) =
          S.countP (nbitOf ls.length) + (S.take a).countP (bitOf ls.length) := by omega
      have eb : S.countP (nbitOf ls.length) + b - (S.take b).countP (nbitOf ls.length) =
          S.countP (nbitOf ls.length) + (S.take b).countP (bitOf ls.length) := by omega
      rw [ea, eb, shl1_or val (by omega)]
      obtain ⟨q, hq, hqlt, hqq⟩ := quantileLoop_ok c ls (part ls.length S) (2 * val + 1)
        (k - ((S.take b).countP (nbitOf ls.length) - (S.take a).countP (nbitOf ls.length))) _ _ hc.tail
        (by omega) o1 (by omega) (by omega) (by omega) hr1
      refine ⟨2 ^ ls.length + q, ?_, ?_, ?_⟩
      · rw [hq, Nat.pow_succ]; congr 1; exact arith1 _ _ _
      · rw [Nat.pow_succ]; omega
      · rw [o3, ← l0] at hqq
        exact quant_one _ _ _ _ hqlt (by rw [l0]; omega) hqq

/-- **`quantile`**: the `k`-th smallest value of `s[a..b)`; `None` iff the range is out of bounds or has
    at most `k` elements; no panic (needs `2·n < 2^64`: the model computes `num_zeros + pos`) -/
theorem quantile_ok (c : Cfg) (wm : WM) (s : List Nat) (h : Built c wm s) (hn : s.length < 2 ^ 63) (a b k : Nat) :
    wm.quantile c a b k = .ok (if b ≤ s.length ∧ k < b - a then (SpecX.sort ((s.take b).drop a))[k]? else none) := by
  unfold WM.quantile
  rw [h.len]
  by_cases hk : b - a ≤ k
  · simp [hk, show ¬ k < b - a by omega]
  · by_cases hb : s.length < b
    · simp [hk, hb, show ¬ b ≤ s.length by omega]
    · have hb' : b ≤ s.length := by omega
      have hk' : k < b - a := by omega
      simp only [hk, hb, if_false, hb', hk', and_self, if_true]
      obtain ⟨q, hq, _, hqq⟩ := quantileLoop_ok c wm.layers.toList s 0 k a b h.chain hn (by omega) hb' hk'
        h.width_le (Nat.pow_pos (by decide))
      rw [hq, bind_ok, Nat.zero_mul, Nat.zero_add]
      have hid : ((s.take b).drop a).map (· % 2 ^ wm.layers.toList.length) = (s.take b).drop a := by
        conv => rhs; rw [← List.map_id ((s.take b).drop a)]
        apply List.map_congr_left
        intro x hx
        exact Nat.mod_eq_of_lt (h.elem_lt x (List.mem_of_mem_take (List.mem_of_mem_drop hx)))
      rw [hid] at hqq
      rw [sort_getElem_of_isQuant _ _ _ hqq]

/-- in the terms of the executable spec of the test driver -/
theorem quantile_spec (c : Cfg) (wm : WM) (s : List Nat) (h : Built c wm s) (hn : s.length < 2 ^ 63) (a b k : Nat) :
    wm.quantile c a b k = .ok (SpecX.quantile s.toArray a b k) := by
  rw [quantile_ok c wm s h hn]; rfl

end Sucds.Wav
