import Sucds.Proofs.GenWaveletOps
/-! # The generated `WaveletMatrix<B>` queries agree with the model `WM`, for every backing satisfying `LOK`

    `LOK o c x`: the layer `x : β` of the generated code answers like the model layer `o.toLay x`, and the model layer
    represents some bit list shorter than `2^64` (`Wav.LayOK`).  `WOK o c layers`: every layer is `LOK` and there are
    at most 64 layers.  Under `WOK` (and `usize` arguments) every `GW` query equals the model query on
    `⟨layers.map o.toLay, alph⟩`. -/
set_option linter.unusedSimpArgs false
set_option linter.unusedVariables false
namespace Sucds.GenEq
open Sucds Sucds.Spec

/-! ### small facts on `R` and checked arithmetic -/
theorem wv_unwrapO_some {α : Type} (v : α) : unwrapO (.ok (some v) : R (Option α)) = .ok v := rfl
theorem wv_unwrapO_none {α : Type} : unwrapO (.ok none : R (Option α)) = .error .unwrapNone := rfl
theorem wv_unwrapO_err {α : Type} (e : Panic) : unwrapO (.error e : R (Option α)) = .error e := rfl
theorem wv_unwrap_some {α : Type} (v : α) : RS.unwrap (some v) = .ok v := rfl
theorem wv_unwrap_none {α : Type} : RS.unwrap (none : Option α) = .error .unwrapNone := rfl

theorem wv_cadd_lt {c : Cfg} {a b v : Nat} (h : cadd c a b = .ok v) : v < 2^64 := by
  unfold cadd at h
  split at h
  · injection h with h; omega
  · split at h
    · cases h
    · injection h with h; subst h; exact Nat.mod_lt _ (by decide)

theorem wv_csub_lt {c : Cfg} {a b v : Nat} (ha : a < 2^64) (h : csub c a b = .ok v) : v < 2^64 := by
  unfold csub at h
  split at h
  · injection h with h; omega
  · split at h
    · cases h
    · injection h with h; subst h; exact Nat.mod_lt _ (by decide)

/-! ### the layer predicate -/

/-- the generated layer `x` answers like the model layer `o.toLay x`, which represents a bit list below `2^64` -/
structure LOK {β : Type} (o : LOps β) (c : Cfg) (x : β) : Prop where
  spec : ∃ bits, Wav.LayOK c (o.toLay x) bits ∧ bits.length < 2^64
  access : ∀ p, p < 2^64 → o.access c x p = (o.toLay x).access p
  rank1 : ∀ p, p < 2^64 → o.rank1 c x p = (o.toLay x).rank1 c p
  rank0 : ∀ p, p < 2^64 → o.rank0 c x p = (o.toLay x).rank0 c p
  select1 : ∀ k, k < 2^64 → o.select1 c x k = (o.toLay x).select1 c k
  select0 : ∀ k, k < 2^64 → o.select0 c x k = (o.toLay x).select0 c k
  numZeros : o.numZeros c x = (o.toLay x).numZeros c
  numBits : o.numBits x = (o.toLay x).numBits

/-- all layers are fine and there are at most 64 of them (`alph_width = needed_bits(..) ≤ 64`) -/
structure WOK {β : Type} (o : LOps β) (c : Cfg) (layers : Array β) : Prop where
  lay : ∀ x ∈ layers.toList, LOK o c x
  size : layers.size ≤ 64

section
variable {β : Type} {o : LOps β} {c : Cfg} {x : β}

theorem LOK.rank1_le (h : LOK o c x) {p r : Nat} (hr : (o.toLay x).rank1 c p = .ok (some r)) : r ≤ p := by
  obtain ⟨bits, hs, _⟩ := h.spec
  rw [hs.rank1] at hr
  injection hr with hr
  split at hr
  · injection hr with hr; subst hr; exact cnt_le _ _
  · cases hr

theorem LOK.rank0_le (h : LOK o c x) {p r : Nat} (hr : (o.toLay x).rank0 c p = .ok (some r)) : r ≤ p := by
  obtain ⟨bits, hs, _⟩ := h.spec
  rw [hs.rank0] at hr
  injection hr with hr
  split at hr
  · injection hr with hr; subst hr; exact Nat.sub_le _ _
  · cases hr

theorem LOK.select1_lt (h : LOK o c x) {k r : Nat} (hr : (o.toLay x).select1 c k = .ok (some r)) : r < 2^64 := by
  obtain ⟨bits, hs, hn⟩ := h.spec
  rw [hs.select1] at hr
  injection hr with hr
  have := (Wav.sel_isKth _ _ _ _ hr).1
  omega

theorem LOK.select0_lt (h : LOK o c x) {k r : Nat} (hr : (o.toLay x).select0 c k = .ok (some r)) : r < 2^64 := by
  obtain ⟨bits, hs, hn⟩ := h.spec
  rw [hs.select0] at hr
  injection hr with hr
  have := (Wav.sel_isKth _ _ _ _ hr).1
  omega

theorem LOK.numBits_lt (h : LOK o c x) : (o.toLay x).numBits < 2^64 := by
  obtain ⟨bits, hs, hn⟩ := h.spec
  rw [hs.numBits]; exact hn

theorem LOK.numZeros_lt (h : LOK o c x) {z : Nat} (hz : (o.toLay x).numZeros c = .ok z) : z < 2^64 := by
  obtain ⟨bits, hs, hn⟩ := h.spec
  rw [hs.numZeros] at hz
  injection hz with hz
  omega
end

/-! ### `len`, accessors -/
section
variable {β : Type} (o : LOps β) (c : Cfg)

theorem gw_len_eq (layers : Array β) (alph : Nat) (h : ∀ x ∈ layers.toList, LOK o c x) :
    GW.len o layers = .ok (WM.len ⟨layers.map o.toLay, alph⟩) := by
  unfold GW.len WM.len
  simp only [Array.getElem?_map]
  cases h0 : layers[0]? with
  | none => rfl
  | some l =>
    have hl : l ∈ layers.toList := by
      rw [Array.mem_toList_iff]; exact Array.mem_of_getElem? h0
    simp only [Option.map_some, bok, Option.getD_some]
    rw [(h l hl).numBits]

theorem wm_len_lt (layers : Array β) (alph : Nat) (h : ∀ x ∈ layers.toList, LOK o c x) :
    WM.len ⟨layers.map o.toLay, alph⟩ < 2^64 := by
  unfold WM.len
  simp only [Array.getElem?_map]
  cases h0 : layers[0]? with
  | none => exact Nat.pow_pos (by decide)
  | some l =>
    have hl : l ∈ layers.toList := by
      rw [Array.mem_toList_iff]; exact Array.mem_of_getElem? h0
    simp only [Option.map_some]
    exact (h l hl).numBits_lt

/-! ### `access` -/

theorem accessLoop_eq : ∀ (ls : List β), (∀ x ∈ ls, LOK o c x) → ∀ (val pos : Nat), pos < 2^64 →
    ((RS.forList (GW.accessBody o c) ls (val, pos)).bind fun st => .ok st.1) =
      WM.accessLoop c (ls.map o.toLay) pos val
  | [], _, val, pos, _ => rfl
  | x :: ls, h, val, pos, hp => by
    have hx := h x List.mem_cons_self
    have ih := accessLoop_eq ls (fun y hy => h y (List.mem_cons_of_mem _ hy))
    rw [forList_cons, List.map_cons, WM.accessLoop]
    rw [GW.accessBody]
    simp only []
    rw [hx.access pos hp]
    cases ha : (o.toLay x).access pos <;> simp only [bok, berr, wv_unwrapO_err]
    rename_i ob
    cases ob <;> simp only [bok, berr, wv_unwrapO_none, wv_unwrapO_some, wv_unwrap_none, wv_unwrap_some]
    rename_i b
    cases b
    · simp only [Bool.false_eq_true, if_false]
      rw [hx.rank0 pos hp]
      cases hr : (o.toLay x).rank0 c pos <;> simp only [bok, berr, wv_unwrapO_err]
      rename_i orr
      cases orr <;> simp only [bok, berr, wv_unwrapO_none, wv_unwrapO_some, wv_unwrap_none, wv_unwrap_some]
      rename_i r
      exact ih _ r (Nat.lt_of_le_of_lt (hx.rank0_le hr) hp)
    · simp only [if_true]
      rw [hx.rank1 pos hp, hx.numZeros]
      cases hr : (o.toLay x).rank1 c pos <;> simp only [bok, berr, wv_unwrapO_err]
      rename_i orr
      cases orr <;> simp only [bok, berr, wv_unwrapO_none, wv_unwrapO_some, wv_unwrap_none, wv_unwrap_some]
      rename_i r
      cases hz : (o.toLay x).numZeros c <;> simp only [bok, berr]
      rename_i z
      cases hc : cadd c r z <;> simp only [bok, berr]
      rename_i p
      exact ih _ p (wv_cadd_lt hc)

theorem gw_access_eq (layers : Array β) (alph : Nat) (h : WOK o c layers) (pos : Nat) (hp : pos < 2^64) :
    GW.access o c layers pos = WM.access c ⟨layers.map o.toLay, alph⟩ pos := by
  unfold GW.access WM.access
  rw [gw_len_eq o c layers alph h.lay, bok]
  by_cases hle : WM.len ⟨layers.map o.toLay, alph⟩ ≤ pos
  · rw [if_pos hle, if_pos hle]
  · rw [if_neg hle, if_neg hle]
    have := accessLoop_eq o c layers.toList h.lay 0 pos hp
    simp only [Array.toList_map]
    rw [← this]
    cases RS.forList (GW.accessBody o c) layers.toList (0, pos) <;> rfl

/-! ### `get_msb`, `rank_range`, `rank` -/

theorem gw_getMsb_eq (val depth width : Nat) (hd : depth < width) (hw : width ≤ 64) :
    GW.getMsb c val depth width = .ok (WM.getMsb val depth width) := by
  unfold GW.getMsb WM.getMsb
  rw [csub_ok c (Nat.le_of_lt hd), bok, csub_ok c (by omega), bok, cshr_ok c (by omega), bok]

theorem rankLoop_eq (W val : Nat) (hW : W ≤ 64) : ∀ (ls : List β), (∀ x ∈ ls, LOK o c x) →
    ∀ (d s e : Nat), d + ls.length = W → s < 2^64 → e < 2^64 →
    RS.forList (GW.rankBody o c W val) ((List.range' d ls.length).zip ls) (s, e) =
      WM.rankLoop c W val (ls.map o.toLay) d s e
  | [], _, d, s, e, _, _, _ => rfl
  | x :: ls, h, d, s, e, hd, hs, he => by
    have hx := h x List.mem_cons_self
    have ih := rankLoop_eq W val hW ls (fun y hy => h y (List.mem_cons_of_mem _ hy)) (d + 1)
    simp only [List.length_cons] at hd
    rw [List.length_cons, List.range'_succ, List.zip_cons_cons, forList_cons, List.map_cons, WM.rankLoop]
    rw [GW.rankBody]
    simp only []
    rw [gw_getMsb_eq c val d W (by omega) hW, bok]
    obtain ⟨bits, hsp, hn⟩ := hx.spec
    have hz := hsp.numZeros
    have hmono : ∀ p, p ≤ bits.length →
        cnt (fun j => bits.getD j false) p + (bits.length - cnt (fun j => bits.getD j false) bits.length) < 2^64 := by
      intro p hp
      have := cnt_mono (fun j => bits.getD j false) hp
      have := cnt_le (fun j => bits.getD j false) bits.length
      omega
    cases hb : WM.getMsb val d W
    · simp only [Bool.false_eq_true, if_false]
      rw [hx.rank0 s hs, hx.rank0 e he, hsp.rank0, hsp.rank0]
      by_cases h1 : s ≤ bits.length <;> by_cases h2 : e ≤ bits.length <;>
        simp only [h1, h2, if_true, if_false, bok, berr, wv_unwrapO_none, wv_unwrapO_some, wv_unwrap_none, wv_unwrap_some]
      exact ih _ _ (by omega) (by omega) (by omega)
    · simp only [if_true]
      rw [hx.rank1 s hs, hx.rank1 e he, hx.numZeros, hsp.rank1, hsp.rank1, hz]
      by_cases h1 : s ≤ bits.length <;> by_cases h2 : e ≤ bits.length <;>
        simp only [h1, h2, if_true, if_false, bok, berr, wv_unwrapO_none, wv_unwrapO_some, wv_unwrap_none, wv_unwrap_some]
      · rw [cadd_ok c (hmono s h1), bok, cadd_ok c (hmono e h2), bok, bok]
        exact ih _ _ (by omega) (hmono s h1) (hmono e h2)
      · rw [cadd_ok c (hmono s h1), bok]; rfl

theorem gw_rankRange_eq (layers : Array β) (alph : Nat) (h : WOK o c layers) (a b val : Nat)
    (ha : a < 2^64) (hb : b < 2^64) :
    GW.rankRange o c layers alph (a, b) val = WM.rankRange c ⟨layers.map o.toLay, alph⟩ a b val := by
  unfold GW.rankRange WM.rankRange
  rw [gw_len_eq o c layers alph h.lay, bok]
  by_cases hlt : WM.len ⟨layers.map o.toLay, alph⟩ < b
  · rw [if_pos hlt, if_pos hlt]
  · rw [if_neg hlt, if_neg hlt]
    by_cases h2 : b ≤ a ∨ alph ≤ val
    · rw [if_pos h2, if_pos (by simpa using h2)]
    · rw [if_neg h2, if_neg (by simpa using h2)]
      unfold RS.enumerate
      rw [List.range_eq_range', rankLoop_eq o c layers.size val h.size layers.toList h.lay 0 a b (by simp) ha hb]
      simp only [WM.alphWidth, Array.toList_map, Array.size_map]

theorem gw_rank_eq (layers : Array β) (alph : Nat) (h : WOK o c layers) (pos val : Nat) (hp : pos < 2^64) :
    GW.rank o c layers alph pos val = WM.rank c ⟨layers.map o.toLay, alph⟩ pos val :=
  gw_rankRange_eq o c layers alph h 0 pos val (by decide) hp

/-! ### `select_helper`, `select` -/

/-- the answer, if any, is a `usize` -/
def OkLt (r : R (Option Nat)) : Prop := ∀ v, r = .ok (some v) → v < 2^64
theorem okLt_err (e : Panic) : OkLt (.error e) := fun v h => by cases h
theorem okLt_none : OkLt (.ok none) := fun v h => by cases h

theorem index_ok {α : Type} (v : Array α) (i : Nat) (h : i < v.size) : RS.index v i = .ok v[i] := by
  unfold RS.index
  rw [Array.getElem?_eq_getElem h]

theorem selectHelper_eq (layers : Array β) (h : WOK o c layers) (k val : Nat) (hk : k < 2^64) :
    ∀ (n fuel depth pos : Nat), depth + n = layers.size → n < fuel → pos < 2^64 →
      GW.selectHelper o c fuel layers k val pos depth =
        WM.selectHelper c layers.size val ((layers.toList.drop depth).map o.toLay) depth k pos ∧
      OkLt (WM.selectHelper c layers.size val ((layers.toList.drop depth).map o.toLay) depth k pos) := by
  intro n
  induction n with
  | zero =>
    intro fuel depth pos hd hf hp
    obtain ⟨f, rfl⟩ : ∃ f, fuel = f + 1 := ⟨fuel - 1, by omega⟩
    have hdz : depth = layers.size := by omega
    rw [GW.selectHelper, if_pos hdz, List.drop_of_length_le (by simp; omega), List.map_nil, WM.selectHelper]
    refine ⟨rfl, ?_⟩
    intro v hv
    cases hc : cadd c pos k <;> rw [hc] at hv
    · cases hv
    · rw [bok] at hv; injection hv with hv; injection hv with hv; subst hv; exact wv_cadd_lt hc
  | succ n ih =>
    intro fuel depth pos hd hf hp
    obtain ⟨f, rfl⟩ : ∃ f, fuel = f + 1 := ⟨fuel - 1, by omega⟩
    have hlt : depth < layers.size := by omega
    have hsz := h.size
    have hdl : depth < layers.toList.length := by simpa using hlt
    have hx : LOK o c layers[depth] := h.lay _ (by rw [Array.mem_toList_iff]; exact Array.getElem_mem hlt)
    rw [GW.selectHelper, if_neg (by omega), gw_getMsb_eq c val depth _ hlt hsz, bok, index_ok layers depth hlt, bok,
      List.drop_eq_getElem_cons hdl, List.map_cons, WM.selectHelper, Array.getElem_toList]
    have hc1 : cadd c depth 1 = .ok (depth + 1) := cadd_ok c (by omega)
    cases hb : WM.getMsb val depth layers.size
    · simp only [Bool.false_eq_true, if_false]
      rw [hx.rank0 pos hp]
      cases hr : (o.toLay layers[depth]).rank0 c pos <;> simp only [bok, berr, wv_unwrapO_err, okLt_err, and_self]
      rename_i orr
      cases orr <;> simp only [bok, berr, wv_unwrapO_none, wv_unwrapO_some, wv_unwrap_none, wv_unwrap_some, okLt_err, and_self]
      rename_i r
      rw [hc1, bok]
      obtain ⟨ih1, ih2⟩ := ih f (depth + 1) r (by omega) (by omega) (Nat.lt_of_le_of_lt (hx.rank0_le hr) hp)
      rw [ih1]
      cases hrec : WM.selectHelper c layers.size val ((layers.toList.drop (depth + 1)).map o.toLay) (depth + 1) k r <;>
        simp only [bok, berr, okLt_err, and_self]
      rename_i orec
      cases orec <;> simp only [okLt_none, and_self]
      rename_i k'
      exact ⟨hx.select0 k' (ih2 k' hrec), fun v hv => hx.select0_lt hv⟩
    · simp only [if_true]
      rw [hx.numZeros, hx.rank1 pos hp]
      cases hz : (o.toLay layers[depth]).numZeros c <;> simp only [bok, berr, okLt_err, and_self]
      rename_i z
      cases hr : (o.toLay layers[depth]).rank1 c pos <;> simp only [bok, berr, wv_unwrapO_err, okLt_err, and_self]
      rename_i orr
      cases orr <;> simp only [bok, berr, wv_unwrapO_none, wv_unwrapO_some, wv_unwrap_none, wv_unwrap_some, okLt_err, and_self]
      rename_i r
      cases hc : cadd c r z <;> simp only [bok, berr, okLt_err, and_self]
      rename_i p
      rw [hc1, bok]
      obtain ⟨ih1, ih2⟩ := ih f (depth + 1) p (by omega) (by omega) (wv_cadd_lt hc)
      rw [ih1]
      cases hrec : WM.selectHelper c layers.size val ((layers.toList.drop (depth + 1)).map o.toLay) (depth + 1) k p <;>
        simp only [bok, berr, okLt_err, and_self]
      rename_i orec
      cases orec <;> simp only [okLt_none, and_self]
      rename_i k'
      cases hs : csub c k' z <;> simp only [bok, berr, okLt_err, and_self]
      rename_i kk
      have hkk := wv_csub_lt (ih2 k' hrec) hs
      exact ⟨hx.select1 kk hkk, fun v hv => hx.select1_lt hv⟩

theorem gw_select_eq (layers : Array β) (alph : Nat) (h : WOK o c layers) (k val : Nat) (hk : k < 2^64) :
    GW.select o c layers alph k val = WM.select c ⟨layers.map o.toLay, alph⟩ k val := by
  unfold GW.select WM.select
  rw [gw_len_eq o c layers alph h.lay, bok]
  have hfuel : layers.size < RS.FUEL := by
    have := h.size; rw [FUEL_eq]; omega
  have hsel := (selectHelper_eq o c layers h k val hk layers.size RS.FUEL 0 0 (by omega) hfuel (by decide)).1
  by_cases h1 : WM.len ⟨layers.map o.toLay, alph⟩ ≤ k
  · rw [if_pos (decide_eq_true h1), bok, if_pos rfl, if_pos (Or.inl h1)]
  · rw [if_neg (by simpa using h1), bok]
    by_cases h2 : alph ≤ val
    · rw [if_pos (decide_eq_true h2), if_pos (Or.inr h2)]
    · rw [if_neg (by simpa using h2), if_neg (by simp only [not_or]; exact ⟨h1, h2⟩), hsel]
      simp only [WM.alphWidth, Array.toList_map, Array.size_map, List.drop_zero]

/-! ### `quantile` -/

theorem quantileLoop_eq : ∀ (ls : List β), (∀ x ∈ ls, LOK o c x) → ∀ (val k s e : Nat), s < 2^64 → e < 2^64 →
    ((RS.forList (GW.quantileBody o c) ls (val, s, e, k)).bind fun st => .ok st.1) =
      WM.quantileLoop c (ls.map o.toLay) val k s e
  | [], _, val, k, s, e, _, _ => rfl
  | x :: ls, h, val, k, s, e, hs, he => by
    have hx := h x List.mem_cons_self
    have ih := quantileLoop_eq ls (fun y hy => h y (List.mem_cons_of_mem _ hy))
    rw [forList_cons, List.map_cons, WM.quantileLoop, GW.quantileBody]
    simp only []
    rw [hx.rank0 s hs, hx.rank0 e he, hx.numZeros]
    cases hr1 : (o.toLay x).rank0 c s <;> simp only [bok, berr, wv_unwrapO_err]
    rename_i o1
    cases o1 <;> simp only [bok, berr, wv_unwrapO_none, wv_unwrapO_some, wv_unwrap_none, wv_unwrap_some]
    rename_i zs
    cases hr2 : (o.toLay x).rank0 c e <;> simp only [bok, berr, wv_unwrapO_err]
    rename_i o2
    cases o2 <;> simp only [bok, berr, wv_unwrapO_none, wv_unwrapO_some, wv_unwrap_none, wv_unwrap_some]
    rename_i ze
    have hzs : zs < 2^64 := Nat.lt_of_le_of_lt (hx.rank0_le hr1) hs
    have hze : ze < 2^64 := Nat.lt_of_le_of_lt (hx.rank0_le hr2) he
    cases hc : csub c ze zs <;> simp only [bok, berr]
    rename_i zeros
    by_cases hk : k < zeros
    · simp only [hk, if_true, bok]
      exact ih _ _ _ _ hzs hze
    · simp only [hk, if_false]
      rw [csub_ok c (Nat.le_of_not_lt hk), bok]
      cases hz : (o.toLay x).numZeros c <;> simp only [bok, berr]
      rename_i nz
      cases h1 : cadd c nz s <;> simp only [bok, berr]
      rename_i t1
      cases h2 : csub c t1 zs <;> simp only [bok, berr]
      rename_i s'
      cases h3 : cadd c nz e <;> simp only [bok, berr]
      rename_i t2
      cases h4 : csub c t2 ze <;> simp only [bok, berr]
      rename_i e'
      exact ih _ _ _ _ (wv_csub_lt (wv_cadd_lt h1) h2) (wv_csub_lt (wv_cadd_lt h3) h4)

theorem gw_quantile_eq (layers : Array β) (alph : Nat) (h : WOK o c layers) (a b k : Nat)
    (ha : a < 2^64) (hb : b < 2^64) :
    GW.quantile o c layers (a, b) k = WM.quantile c ⟨layers.map o.toLay, alph⟩ a b k := by
  unfold GW.quantile WM.quantile
  by_cases hk : b - a ≤ k
  · rw [if_pos hk, if_pos hk]
  · rw [if_neg hk, if_neg hk, gw_len_eq o c layers alph h.lay, bok]
    by_cases hlt : WM.len ⟨layers.map o.toLay, alph⟩ < b
    · rw [if_pos hlt, if_pos hlt]
    · rw [if_neg hlt, if_neg hlt]
      have := quantileLoop_eq o c layers.toList h.lay 0 k a b ha hb
      simp only [Array.toList_map]
      rw [← this]
      cases RS.forList (GW.quantileBody o c) layers.toList (0, a, b, k) <;> rfl

/-! ### `intersect_helper`, `intersect` -/

/-- the result of the per-range loop, as the translator's loop exit -/
def splitConv : Option (List (Nat × Nat) × List (Nat × Nat)) →
    RS.Exit (Array (Nat × Nat) × Array (Nat × Nat)) (Option (Array Nat))
  | none => .ret none
  | some (a, b) => .done (a.toArray, b.toArray)

theorem push_rev {α : Type} (a : Array α) (p : α) : (a.push p).toList.reverse = p :: a.toList.reverse := by simp

theorem wv_forListB_cons {α σ ρ : Type} (body : α → σ → R (RS.Step σ ρ)) (x : α) (xs : List α) (s : σ) :
    RS.forListB body (x :: xs) s = (body x s).bind fun r => match r with
      | .next s' => RS.forListB body xs s'
      | .brk s' => .ok (.done s')
      | .ret v => .ok (.ret v) := rfl

theorem splitLoop_eq (x : β) (hx : LOK o c x) : ∀ (rs : List (Nat × Nat)) (zr or : Array (Nat × Nat)),
    RS.forListB (GW.splitBody o c x) rs (zr, or) =
      (WM.splitRanges c (o.toLay x) rs zr.toList.reverse or.toList.reverse).bind fun r => .ok (splitConv r)
  | [], zr, or => by
    rw [WM.splitRanges, bok]
    simp [RS.forListB, splitConv]
  | (s, e) :: rs, zr, or => by
    have ih := splitLoop_eq x hx rs
    rw [wv_forListB_cons, WM.splitRanges, GW.splitBody]
    simp only []
    rw [hx.numBits]
    by_cases h1 : (o.toLay x).numBits < e
    · simp only [h1, if_true, bok]; rfl
    · simp only [h1, if_false]
      by_cases h2 : e ≤ s
      · simp only [h2, decide_true, if_true, bok]; exact ih zr or
      · simp only [h2, decide_false, Bool.false_eq_true, if_false]
        have he : e < 2^64 := by have := hx.numBits_lt; omega
        have hs : s < 2^64 := by omega
        rw [hx.rank0 s hs, hx.rank0 e he, hx.numZeros]
        cases hr1 : (o.toLay x).rank0 c s <;> simp only [bok, berr, wv_unwrapO_err]
        rename_i o1
        cases o1 <;> simp only [bok, berr, wv_unwrapO_none, wv_unwrapO_some, wv_unwrap_none, wv_unwrap_some]
        rename_i zs
        cases hr2 : (o.toLay x).rank0 c e <;> simp only [bok, berr, wv_unwrapO_err]
        rename_i o2
        cases o2 <;> simp only [bok, berr, wv_unwrapO_none, wv_unwrapO_some, wv_unwrap_none, wv_unwrap_some]
        rename_i ze
        cases hz : (o.toLay x).numZeros c <;> simp only [bok, berr]
        rename_i nz
        cases h3 : cadd c nz s <;> simp only [bok, berr]
        rename_i t1
        cases h4 : csub c t1 zs <;> simp only [bok, berr]
        rename_i os
        cases h5 : cadd c nz e <;> simp only [bok, berr]
        rename_i t2
        cases h6 : csub c t2 ze <;> simp only [bok, berr]
        rename_i oe
        cases h7 : csub c ze zs <;> simp only [bok, berr]
        rename_i dz
        cases h8 : csub c oe os <;> simp only [bok, berr]
        · by_cases hdz : dz > 0 <;> simp only [hdz, if_true, if_false, bok, berr]
        rename_i d1
        by_cases hdz : dz > 0 <;> by_cases hd1 : d1 > 0 <;> simp only [hdz, hd1, if_true, if_false, bok]
        · rw [ih, push_rev, push_rev]
        · rw [ih, push_rev]
        · rw [ih, push_rev]
        · rw [ih]

theorem inv_bind {A : R (Option (Array Nat))} {B : R (Option (List Nat))}
    (h : (A.bind fun r => .ok (r.map Array.toList)) = B) :
    B = A.map (Option.map Array.toList) := by
  subst h; cases A <;> rfl

theorem intersectHelper_eq (layers : Array β) (h : WOK o c layers) (k : Nat) :
    ∀ (n fuel depth : Nat) (ranges : Array (Nat × Nat)) (pre : Nat), depth + n = layers.size → n < fuel →
      ((GW.intersectHelper o c fuel layers ranges k depth pre).bind fun r => .ok (r.map Array.toList)) =
        WM.intersectHelper c k ((layers.toList.drop depth).map o.toLay) ranges.toList pre := by
  intro n
  induction n with
  | zero =>
    intro fuel depth ranges pre hd hf
    obtain ⟨f, rfl⟩ : ∃ f, fuel = f + 1 := ⟨fuel - 1, by omega⟩
    have hdz : depth = layers.size := by omega
    rw [GW.intersectHelper, if_pos hdz, List.drop_of_length_le (by simp; omega), List.map_nil, WM.intersectHelper]
    rfl
  | succ n ih =>
    intro fuel depth ranges pre hd hf
    obtain ⟨f, rfl⟩ : ∃ f, fuel = f + 1 := ⟨fuel - 1, by omega⟩
    have hlt : depth < layers.size := by omega
    have hsz := h.size
    have hdl : depth < layers.toList.length := by simpa using hlt
    have hx : LOK o c layers[depth] := h.lay _ (by rw [Array.mem_toList_iff]; exact Array.getElem_mem hlt)
    have hc1 : cadd c depth 1 = .ok (depth + 1) := cadd_ok c (by omega)
    rw [GW.intersectHelper, if_neg (by omega), index_ok layers depth hlt]
    simp only [bok]
    rw [List.drop_eq_getElem_cons hdl, List.map_cons, WM.intersectHelper, Array.getElem_toList,
      splitLoop_eq o c layers[depth] hx ranges.toList #[] #[]]
    show (((WM.splitRanges c (o.toLay layers[depth]) ranges.toList [] []).bind fun r => .ok (splitConv r)).bind _).bind _ = _
    cases hsp : WM.splitRanges c (o.toLay layers[depth]) ranges.toList [] [] <;> simp only [bok, berr]
    rename_i sp
    cases sp with
    | none => rfl
    | some zo =>
      obtain ⟨zr, or⟩ := zo
      simp only [splitConv, List.size_toArray, hc1, bok]
      have e0 := inv_bind (ih f (depth + 1) zr.toArray (RS.shlConst pre 1) (by omega) (by omega))
      have e1 := inv_bind (ih f (depth + 1) or.toArray (RS.shlConst pre 1 ||| 1) (by omega) (by omega))
      simp only [List.toList_toArray] at e0 e1
      simp only [RS.shlConst] at e0 e1 ⊢
      rw [e0, e1]
      by_cases hz : zr.length > k <;> by_cases ho : or.length > k <;> simp only [hz, ho, if_true, if_false, bok]
      · cases GW.intersectHelper o c f layers zr.toArray k (depth + 1) ((pre <<< 1) % 2^64) <;> simp only [bok, berr, Except.map]
        rename_i r0
        cases r0 <;> simp only [bok, Option.map_none, Option.map_some]
        rename_i z
        cases GW.intersectHelper o c f layers or.toArray k (depth + 1) ((pre <<< 1) % 2^64 ||| 1) <;> simp only [bok, berr, Except.map]
        rename_i r1
        cases r1 <;> simp only [bok, Option.map_none, Option.map_some]
        simp
      · cases GW.intersectHelper o c f layers zr.toArray k (depth + 1) ((pre <<< 1) % 2^64) <;> simp only [bok, berr, Except.map]
        rename_i r0
        cases r0 <;> simp only [bok, Option.map_none, Option.map_some]
        simp
      · cases GW.intersectHelper o c f layers or.toArray k (depth + 1) ((pre <<< 1) % 2^64 ||| 1) <;> simp only [bok, berr, Except.map]
        rename_i r1
        cases r1 <;> simp only [bok, Option.map_none, Option.map_some]
        simp
      · simp

theorem gw_intersect_eq (layers : Array β) (alph : Nat) (h : WOK o c layers) (ranges : Array (Nat × Nat)) (k : Nat) :
    ((GW.intersect o c layers ranges k).bind fun r => .ok (r.map Array.toList)) =
      WM.intersect c ⟨layers.map o.toLay, alph⟩ ranges.toList k := by
  unfold GW.intersect WM.intersect
  have hfuel : layers.size < RS.FUEL := by
    have := h.size; rw [FUEL_eq]; omega
  rw [intersectHelper_eq o c layers h k layers.size RS.FUEL 0 ranges 0 (by omega) hfuel]
  simp only [Array.toList_map, List.drop_zero]

end
end Sucds.GenEq
