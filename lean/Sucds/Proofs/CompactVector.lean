import Sucds.Model.CompactVector
import Sucds.Proofs.BitVectorPush
set_option linter.unusedSimpArgs false
set_option linter.unusedVariables false
namespace Sucds
namespace CV
open BV

theorem misfit_false_iff (w val : Nat) (hw : w ≤ 64) (hv : val < 2^64) : misfit w val = false ↔ val < 2^w := by
  unfold misfit
  by_cases h64 : w = 64
  · subst h64; simp [hv]
  · have : (w != 64) = true := by simp [h64]
    simp only [this, Bool.true_and]
    rw [Nat.shiftRight_eq_div_pow]
    constructor
    · intro h
      have : val / 2^w = 0 := by simpa using h
      exact (Nat.div_eq_zero_iff_lt (Nat.two_pow_pos w)).mp this
    · intro h
      have : val / 2^w = 0 := (Nat.div_eq_zero_iff_lt (Nat.two_pow_pos w)).mpr h
      simp [this]

/-- **get_int**: the i-th stored integer, `none` for every other index -/
theorem getInt_ok (v : CV) (xs : List Nat) (h : Rep v xs) (i : Nat) : v.getInt i = .ok xs[i]? := by
  unfold getInt
  by_cases hi : v.len ≤ i
  · have : xs.length ≤ i := by rw [← h.len]; exact hi
    simp [hi, List.getElem?_eq_none this]
  · simp only [hi, if_false]
    have hi' : i < v.len := by omega
    have hr : i * v.width + v.width ≤ v.chunks.len := by
      rw [h.clen]
      calc i * v.width + v.width = (i + 1) * v.width := by rw [Nat.add_mul, Nat.one_mul]
        _ ≤ v.len * v.width := Nat.mul_le_mul_right _ (by omega)
    obtain ⟨val, hval, hbits⟩ := getBits_ok v.chunks h.inv (i * v.width) v.width h.wle hr
    rw [hval]
    have hx : i < xs.length := by rw [← h.len]; exact hi'
    rw [List.getElem?_eq_getElem hx]
    congr 2
    apply Nat.eq_of_testBit_eq
    intro j
    have := h.vals i hi' j
    rw [List.getElem?_eq_getElem hx] at this
    simp only [Option.getD_some] at this
    rw [hbits j, this]

/-- **push_int** of a fitting value appends it -/
theorem pushInt_ok (v : CV) (xs : List Nat) (h : Rep v xs) (val : Nat) (hv : val < 2^v.width) (hv64 : val < 2^64) :
    ∃ v', v.pushInt val = .ok (v', true) ∧ Rep v' (xs ++ [val]) ∧ v'.width = v.width := by
  unfold pushInt
  have hm : misfit v.width val = false := (misfit_false_iff _ _ h.wle hv64).mpr hv
  simp only [hm]
  obtain ⟨h1, h2, h3, h4⟩ := pushBits_ok v.chunks h.inv val v.width h.wle
  cases hpb : v.chunks.pushBits val v.width with
  | mk ch ok =>
    rw [hpb] at h1 h2 h3 h4
    simp only at h1 h2 h3 h4
    subst h1
    refine ⟨_, rfl, ⟨?_, h2, ?_, h.wle, ?_⟩, rfl⟩
    · simp [h.len]
    · show ch.len = (v.len + 1) * v.width
      rw [h3, h.clen, Nat.add_mul, Nat.one_mul]
    · intro i hi j
      have hi' : i < v.len + 1 := hi
      show ((xs ++ [val])[i]?.getD 0).testBit j = (decide (j < v.width) && ch.bitAt (i * v.width + j))
      rw [h4]
      by_cases hlt : i < v.len
      · have hx : i < xs.length := by rw [← h.len]; exact hlt
        rw [List.getElem?_append_left hx]
        rw [h.vals i hlt j]
        by_cases hj : j < v.width
        · have : i * v.width + j < v.chunks.len := by
            rw [h.clen]
            calc i * v.width + j < i * v.width + v.width := by omega
              _ = (i + 1) * v.width := by rw [Nat.add_mul, Nat.one_mul]
              _ ≤ v.len * v.width := Nat.mul_le_mul_right _ (by omega)
          simp [hj, this]
        · simp [hj]
      · have hie : i = v.len := by omega
        subst hie
        have hx : xs.length ≤ v.len := by rw [h.len]; exact Nat.le_refl _
        rw [List.getElem?_append_right hx]
        have : v.len - xs.length = 0 := by rw [h.len]; omega
        rw [this]
        simp only [List.getElem?_cons_zero, Option.getD_some]
        by_cases hj : j < v.width
        · have h1 : ¬ (v.len * v.width + j < v.chunks.len) := by rw [h.clen]; omega
          have h2 : v.len * v.width + j < v.chunks.len + v.width := by rw [h.clen]; omega
          have h3 : v.len * v.width + j - v.chunks.len = j := by rw [h.clen]; omega
          simp [hj, h1, h2, h3]
        · have : val.testBit j = false := by
            apply Nat.testBit_lt_two_pow
            exact Nat.lt_of_lt_of_le hv (Nat.pow_le_pow_right (by omega) (by omega))
          simp [hj, this]

/-- **push_int** of a value that does not fit is rejected and changes nothing -/
theorem pushInt_rej (v : CV) (xs : List Nat) (h : Rep v xs) (val : Nat) (hv : ¬ val < 2^v.width) (hv64 : val < 2^64) :
    v.pushInt val = .ok (v, false) := by
  unfold pushInt
  have hm : misfit v.width val = true := by
    cases hmf : misfit v.width val with
    | true => rfl
    | false => exact absurd ((misfit_false_iff _ _ h.wle hv64).mp hmf) hv
  simp [hm]

end CV
end Sucds

namespace Sucds
namespace CV
open BV

/-- **set_int** of a fitting value at a valid index replaces that element only -/
theorem setInt_ok (v : CV) (xs : List Nat) (h : Rep v xs) (pos val : Nat) (hp : pos < v.len)
    (hv : val < 2^v.width) (hv64 : val < 2^64) :
    ∃ v', v.setInt pos val = .ok (v', true) ∧ Rep v' (xs.set pos val) ∧ v'.width = v.width := by
  unfold setInt
  have hm : misfit v.width val = false := (misfit_false_iff _ _ h.wle hv64).mpr hv
  have hg : ¬ v.len ≤ pos := by omega
  simp only [hg, if_false, hm]
  have hr : pos * v.width + v.width ≤ v.chunks.len := by
    rw [h.clen]
    calc pos * v.width + v.width = (pos + 1) * v.width := by rw [Nat.add_mul, Nat.one_mul]
      _ ≤ v.len * v.width := Nat.mul_le_mul_right _ (by omega)
  obtain ⟨ch, hset, hinv, hlen, hbits⟩ := setBits_ok v.chunks h.inv (pos * v.width) val v.width h.wle hr
  rw [hset]
  simp only [Except.bind]
  refine ⟨_, rfl, ⟨?_, hinv, ?_, h.wle, ?_⟩, rfl⟩
  · simp [h.len]
  · show ch.len = v.len * v.width
    rw [hlen, h.clen]
  · intro i hi j
    show ((xs.set pos val)[i]?.getD 0).testBit j = (decide (j < v.width) && ch.bitAt (i * v.width + j))
    have hi' : i < v.len := hi
    have hx : i < xs.length := by rw [← h.len]; exact hi'
    rw [hbits]
    by_cases hj : j < v.width
    · by_cases hip : i = pos
      · subst hip
        have hin : i * v.width ≤ i * v.width + j ∧ i * v.width + j < i * v.width + v.width := by omega
        have e : i * v.width + j - i * v.width = j := by omega
        simp [List.getElem?_set_self hx, hj, hin, e]
      · have hne : pos ≠ i := fun e => hip e.symm
        rw [List.getElem?_set_ne hne, h.vals i hi' j]
        have hout : ¬ (pos * v.width ≤ i * v.width + j ∧ i * v.width + j < pos * v.width + v.width) := by
          intro ⟨h1, h2⟩
          by_cases hlt : i < pos
          · have : (i + 1) * v.width ≤ pos * v.width := Nat.mul_le_mul_right _ (by omega)
            rw [Nat.add_mul, Nat.one_mul] at this; omega
          · have : (pos + 1) * v.width ≤ i * v.width := Nat.mul_le_mul_right _ (by omega)
            rw [Nat.add_mul, Nat.one_mul] at this; omega
        simp [hj, hout]
    · by_cases hip : i = pos
      · subst hip
        have : val.testBit j = false := by
          apply Nat.testBit_lt_two_pow
          exact Nat.lt_of_lt_of_le hv (Nat.pow_le_pow_right (by omega) (by omega))
        simp [List.getElem?_set_self hx, hj, this]
      · have hne : pos ≠ i := fun e => hip e.symm
        rw [List.getElem?_set_ne hne, h.vals i hi' j]
        simp [hj]

theorem setInt_rej_pos (v : CV) (pos val : Nat) (hp : v.len ≤ pos) : v.setInt pos val = .ok (v, false) := by
  simp [setInt, hp]

/-- the pinned-tree `get_int` (D6): a panic in checked builds, a bogus value otherwise; the repaired one says `none` -/
def d6 : CV := ⟨⟨#[0b111001], 6⟩, 3, 2⟩
example : getInt0 ⟨true, false⟩ d6 (2^63) = .error .overflow := by rfl
example : getInt0 ⟨false, false⟩ d6 (2^63) = .ok (some 1) := by rfl
example : getInt d6 (2^63) = .ok none := by rfl
/-- (D7) the width-0 vector of `from_slice(&[])` -/
example : getInt0 ⟨true, false⟩ CV.default 7 = .ok (some 0) := by rfl
example : getInt CV.default 7 = .ok none := by rfl

end CV
end Sucds
