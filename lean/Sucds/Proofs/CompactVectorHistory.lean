import Sucds.Proofs.CompactVector
set_option linter.unusedSimpArgs false
set_option linter.unusedVariables false
namespace Sucds
namespace CV
open BV

inductive Op
  | pushInt (v : Nat)
  | setInt (pos v : Nat)
  | extend (vs : List Nat)

/-- list semantics of an operation on a vector of width `w`: new contents and whether it reports `Ok` -/
def specApply (w : Nat) (l : List Nat) : Op → List Nat × Bool
  | .pushInt v => if v < 2^w then (l ++ [v], true) else (l, false)
  | .setInt pos v => if pos < l.length ∧ v < 2^w then (l.set pos v, true) else (l, false)
  | .extend vs => (l ++ vs.takeWhile (fun v => decide (v < 2^w)), vs.all (fun v => decide (v < 2^w)))

def apply (v : CV) : Op → R (CV × Bool)
  | .pushInt x => v.pushInt x
  | .setInt pos x => v.setInt pos x
  | .extend xs => v.extend xs

def Op.Small : Op → Prop
  | .pushInt v => v < 2^64
  | .setInt _ v => v < 2^64
  | .extend vs => ∀ v ∈ vs, v < 2^64

theorem setInt_rej_val (v : CV) (xs : List Nat) (h : Rep v xs) (pos val : Nat) (hv : ¬ val < 2^v.width) (hv64 : val < 2^64) :
    v.setInt pos val = .ok (v, false) := by
  unfold setInt
  by_cases hp : v.len ≤ pos
  · simp [hp]
  · have hm : misfit v.width val = true := by
      cases hmf : misfit v.width val with
      | true => rfl
      | false => exact absurd ((misfit_false_iff _ _ h.wle hv64).mp hmf) hv
    simp [hp, hm]

theorem extend_ok (vs : List Nat) : ∀ (v : CV) (xs : List Nat), Rep v xs → (∀ x ∈ vs, x < 2^64) →
    ∃ v', v.extend vs = .ok (v', vs.all (fun x => decide (x < 2^v.width))) ∧
      Rep v' (xs ++ vs.takeWhile (fun x => decide (x < 2^v.width))) ∧ v'.width = v.width := by
  induction vs with
  | nil => intro v xs h _; exact ⟨v, rfl, by simpa using h, rfl⟩
  | cons a t ih =>
    intro v xs h hs
    simp only [extend]
    have ha64 : a < 2^64 := hs a (by simp)
    by_cases ha : a < 2^v.width
    · obtain ⟨v1, hp, hr, hw⟩ := pushInt_ok v xs h a ha ha64
      rw [hp]
      simp only [Except.bind, if_true]
      obtain ⟨v', he, hr', hw'⟩ := ih v1 (xs ++ [a]) hr (fun x hx => hs x (by simp [hx]))
      rw [hw] at he hr'
      refine ⟨v', ?_, ?_, by rw [hw', hw]⟩
      · rw [he]; simp [ha]
      · simpa [List.takeWhile_cons, ha] using hr'
    · rw [pushInt_rej v xs h a ha ha64]
      simp only [Except.bind]
      refine ⟨v, by simp [ha], by simpa [List.takeWhile_cons, ha] using h, rfl⟩

/-- one operation refines the list semantics; a rejected one returns the vector unchanged -/
theorem apply_spec (v : CV) (xs : List Nat) (h : Rep v xs) (op : Op) (hs : op.Small) :
    ∃ v', v.apply op = .ok (v', (specApply v.width xs op).2) ∧ Rep v' (specApply v.width xs op).1 ∧
      v'.width = v.width ∧ ((specApply v.width xs op).2 = false → (∀ o, op ≠ .extend o) → v' = v) := by
  cases op with
  | pushInt x =>
    simp only [apply, specApply]
    by_cases hx : x < 2^v.width
    · obtain ⟨v', hp, hr, hw⟩ := pushInt_ok v xs h x hx hs
      exact ⟨v', by simp [hx, hp], by simpa [hx] using hr, hw, by simp [hx]⟩
    · exact ⟨v, by simp [hx, pushInt_rej v xs h x hx hs], by simpa [hx] using h, rfl, fun _ _ => rfl⟩
  | setInt pos x =>
    simp only [apply, specApply]
    by_cases hp : pos < xs.length ∧ x < 2^v.width
    · obtain ⟨v', hs', hr, hw⟩ := setInt_ok v xs h pos x (by rw [h.len]; exact hp.1) hp.2 hs
      exact ⟨v', by simp [hp, hs'], by simpa [hp] using hr, hw, by simp [hp]⟩
    · refine ⟨v, ?_, by simpa [hp] using h, rfl, fun _ _ => rfl⟩
      simp only [hp, if_false]
      by_cases hpos : pos < xs.length
      · have hx : ¬ x < 2^v.width := fun hx => hp ⟨hpos, hx⟩
        exact setInt_rej_val v xs h pos x hx hs
      · exact setInt_rej_pos v pos x (by rw [h.len]; omega)
  | extend vs =>
    simp only [apply, specApply]
    obtain ⟨v', he, hr, hw⟩ := extend_ok vs v xs h hs
    exact ⟨v', he, hr, hw, fun _ hne => absurd rfl (hne vs)⟩

def run : CV → List Op → R CV
  | v, [] => .ok v
  | v, op :: ops => (v.apply op).bind fun r => run r.1 ops

/-- **C09 over histories**: any sequence of `push_int`/`set_int`/`extend` refines the list semantics;
    afterwards `get_int i` is the i-th stored integer for every `i` -/
theorem run_spec : ∀ (ops : List Op) (v : CV) (xs : List Nat), Rep v xs → (∀ op ∈ ops, op.Small) →
    ∃ v', run v ops = .ok v' ∧ v'.width = v.width ∧
      Rep v' (ops.foldl (fun l op => (specApply v.width l op).1) xs) ∧
      ∀ i, v'.getInt i = .ok (ops.foldl (fun l op => (specApply v.width l op).1) xs)[i]? := by
  intro ops
  induction ops with
  | nil => intro v xs h _; exact ⟨v, rfl, rfl, h, fun i => getInt_ok v xs h i⟩
  | cons op t ih =>
    intro v xs h hs
    simp only [run, List.foldl_cons]
    obtain ⟨v1, ha, hr, hw, _⟩ := apply_spec v xs h op (hs op (by simp))
    rw [ha]
    simp only [Except.bind]
    obtain ⟨v', hrun, hw', hr', hg⟩ := ih v1 _ hr (fun o ho => hs o (by simp [ho]))
    rw [hw] at hw' hr' hg
    exact ⟨v', hrun, hw', hr', hg⟩

/-- `CompactVector::new(w)` for `1 ≤ w ≤ 64` is the empty list of width `w`; other widths are rejected -/
theorem new_rep (w : Nat) (h1 : 1 ≤ w) (h2 : w ≤ 64) : ∃ v, new w = some v ∧ Rep v [] ∧ v.width = w := by
  refine ⟨⟨BV.new, 0, w⟩, by simp [new, h1, h2], ?_, rfl⟩
  exact { len := rfl, inv := new_inv, clen := by simp [BV.new], wle := h2, vals := by intro i hi; simp at hi }
theorem new_rej (w : Nat) (h : w < 1 ∨ 64 < w) : new w = none := by
  unfold new; have : ¬ (1 ≤ w ∧ w ≤ 64) := by omega
  simp [this]

end CV
end Sucds
