import Sucds.Proofs.Rank9Rank1
set_option linter.unusedSimpArgs false
set_option linter.unusedVariables false
namespace Sucds
open Spec
namespace R9Index

/-- words beyond the end contribute nothing -/
theorem prefixPop_beyond (c : Cfg) (ws : Array Nat) (i : Nat) (h : ws.size ≤ i) :
    prefixPop c ws i = prefixPop c ws ws.size := by
  induction i with
  | zero => have : ws.size = 0 := by omega
            rw [this]
  | succ i ih =>
    by_cases hi : ws.size ≤ i
    · simp only [prefixPop]
      rw [ih hi, wordAt_ge ws i hi]
      have : popcountN c 0 = 0 := by
        rw [popcountN_eq c 0 (by decide)]
        exact C14.cnt_zero_of_false _ _ (fun j _ => by simp)
      omega
    · have : ws.size = i + 1 := by omega
      rw [this]

/-- `num_blocks` = number of 512-bit blocks, the last one possibly partial -/
theorem numBlocks_eq (c : Cfg) (bv : BV) (h : bv.Inv) :
    (buildRank c bv).numBlocks = bv.words.size / 8 + (if bv.words.size % 8 ≠ 0 then 1 else 0) := by
  unfold numBlocks
  rw [pairs_size c bv h]
  split <;> omega

/-- `block_rank(t)`: the number of set bits before block `t`, for every `t ≤ num_blocks` -/
theorem blockRank_ok (c : Cfg) (bv : BV) (h : bv.Inv) (t : Nat) (ht : t ≤ (buildRank c bv).numBlocks) :
    (buildRank c bv).blockRank t = .ok (prefixPop c bv.words (8 * t)) := by
  have hp := pairs_toList c bv h
  have hnb := numBlocks_eq c bv h
  have hsdm : 8 * (bv.words.size / 8) + bv.words.size % 8 = bv.words.size := Nat.div_add_mod _ 8
  unfold blockRank
  apply idx_toList
  rw [hp]
  by_cases hfull : t ≤ bv.words.size / 8
  · rw [List.append_assoc, List.getElem?_append_left (by rw [specList_length]; omega), Nat.mul_comm]
    exact specList_even c bv.words _ _ hfull
  · -- the terminator entry of a partial last block
    have hr : bv.words.size % 8 ≠ 0 := by
      intro h0; rw [hnb] at ht; simp [h0] at ht; omega
    have hte : t = bv.words.size / 8 + 1 := by rw [hnb] at ht; simp [hr] at ht; omega
    rw [if_pos hr, List.getElem?_append_right (by simp [specList_length]; omega)]
    simp only [List.length_append, specList_length, List.length_cons, List.length_nil]
    have : t * 2 - (2 * (bv.words.size / 8) + 1 + (0 + 1)) = 0 := by omega
    rw [this]
    simp only [List.getElem?_cons_zero]
    rw [prefixPop_beyond c bv.words (8 * t) (by omega)]

/-- the counters word of block `t < num_blocks`: in-block prefix counts, the missing words of a
    partial last block counting as the block total -/
theorem subBlockRanks_ok (c : Cfg) (bv : BV) (h : bv.Inv) (t : Nat) (ht : t < (buildRank c bv).numBlocks) :
    (buildRank c bv).subBlockRanks t = .ok (packTo (inBlk c bv.words t) 7) := by
  have hp := pairs_toList c bv h
  have hnb := numBlocks_eq c bv h
  have hsdm : 8 * (bv.words.size / 8) + bv.words.size % 8 = bv.words.size := Nat.div_add_mod _ 8
  unfold subBlockRanks
  apply idx_toList
  rw [hp]
  by_cases hfull : t < bv.words.size / 8
  · rw [List.append_assoc, List.getElem?_append_left (by rw [specList_length]; omega), Nat.mul_comm]
    exact specList_odd c bv.words _ _ hfull
  · have hr : bv.words.size % 8 ≠ 0 := by
      intro h0; rw [hnb] at ht; simp [h0] at ht; omega
    have hr' : ¬ bv.words.size % 8 = 0 := hr
    have hte : t = bv.words.size / 8 := by rw [hnb] at ht; simp [hr] at ht; omega
    subst hte
    rw [List.append_assoc, List.getElem?_append_right (by rw [specList_length]; omega), specList_length]
    have : bv.words.size / 8 * 2 + 1 - (2 * (bv.words.size / 8) + 1) = 0 := by omega
    rw [this]
    simp only [List.cons_append, List.getElem?_cons_zero, padEntry, hr', if_false]
    -- beyond the last word the in-block prefix count stays at the block total
    have e := packTo_congr
      (ext (inBlk c bv.words (bv.words.size / 8)) (bv.words.size % 8 - 1) (inBlk c bv.words (bv.words.size / 8) (bv.words.size % 8)))
      (inBlk c bv.words (bv.words.size / 8)) 7 (by
        intro j hj1 hj7
        simp only [ext]
        by_cases hle : j ≤ bv.words.size % 8 - 1
        · simp [hle]
        · simp only [hle, if_false]
          unfold inBlk
          rw [prefixPop_beyond c bv.words (8 * (bv.words.size / 8) + j) (by omega),
              show 8 * (bv.words.size / 8) + bv.words.size % 8 = bv.words.size from hsdm])
    rw [e]

end R9Index
end Sucds
