import Sucds.Model.SerialStruct
/-! `size_in_bytes()` as written in the Rust sources (`X.sizeInBytes`, generated) equals the number of bytes the
    structure's codec accounts for (`X.codec.size`), for every value: no field is forgotten or counted twice.
    Together with `Codec.Good.sz` (bytes written = `codec.size`) this is the C08 clause "`serialize_into` writes
    exactly `size_in_bytes()` bytes". -/
set_option linter.unusedSimpArgs false
namespace Sucds
open Codec

theorem BV.sizeInBytes_eq (x : BV) : BV.sizeInBytes x = BV.codec.size x := rfl
theorem CV.sizeInBytes_eq (x : CV) : CV.sizeInBytes x = CV.codec.size x := rfl
theorem R9Index.sizeInBytes_eq (x : R9Index) : R9Index.sizeInBytes x = R9Index.codec.size x := by
  simp only [R9Index.sizeInBytes, R9Index.codec, Codec.iso, Codec.seq, Codec.u64, Codec.uint, Codec.bool] <;> omega
theorem R9.sizeInBytes_eq (x : R9) : R9.sizeInBytes x = R9.codec.size x := rfl
theorem DAIndex.sizeInBytes_eq (x : DAIndex) : DAIndex.sizeInBytes x = DAIndex.codec.size x := by
  simp only [DAIndex.sizeInBytes, DAIndex.codec, Codec.iso, Codec.seq, Codec.u64, Codec.uint, Codec.bool] <;> omega
theorem DA.sizeInBytes_eq (x : DA) : DA.sizeInBytes x = DA.codec.size x := by
  simp only [DA.sizeInBytes, DA.codec, Codec.iso, Codec.seq, Codec.u64, Codec.uint, Codec.bool] <;> omega
theorem EF.sizeInBytes_eq (x : EF) : EF.sizeInBytes x = EF.codec.size x := by
  simp only [EF.sizeInBytes, EF.codec, Codec.iso, Codec.seq, Codec.u64, Codec.uint, Codec.bool] <;> omega
theorem SA.sizeInBytes_eq (x : SA) : SA.sizeInBytes x = SA.codec.size x := by
  simp only [SA.sizeInBytes, SA.codec, Codec.iso, Codec.seq, Codec.u64, Codec.uint, Codec.bool] <;> omega
theorem DacB.sizeInBytes_eq (x : DacB) : DacB.sizeInBytes x = DacB.codec.size x := rfl
theorem DacO.sizeInBytes_eq (x : DacO) : DacO.sizeInBytes x = DacO.codec.size x := rfl
theorem PS.sizeInBytes_eq (x : PS) : PS.sizeInBytes x = PS.codec.size x := rfl
theorem WM.sizeInBytes_eq (k : Backing) (x : WM) : WM.sizeInBytes k x = (WM.codec k).size x := rfl
end Sucds
