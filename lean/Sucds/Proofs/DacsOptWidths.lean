import Sucds.Proofs.DacsOptWidthsNums
import Sucds.Proofs.DacsOptWidthsTables
/-! # C18 for the array-level model: `DacO.optWidths` returns a cost-optimal valid split (task F3, deliverable 3)

For every build configuration, every non-empty slice of 64-bit values with fewer than `2^57` elements and every
`1 ≤ L ≤ 64`: the three `assert_eq!` of the reconstruction do not fire, the result is a split of the maximum's
bit length into at most `L` positive widths, and no such split is cheaper — with the cost function of the
property (`DP.cost (Ncount vals) 0`), which equals the executable spec `SpecX.dacCost vals`. -/
namespace Sucds.DacsOptW
open Sucds

/-! ### the executable spec's cost is `DP.cost` over `Ncount` -/

theorem reach_eq (vals : List Nat) (j : Nat) :
    (vals.filter fun v => decide (j = 0 ∨ SpecX.bitlen v > j)).length = Ncount vals j := by
  unfold Ncount
  congr 1
  apply List.filter_congr
  intro v _
  have := bitlen_pos v
  by_cases h : j < SpecX.bitlen v
  · simp [h]
  · have h0 : ¬ j = 0 := by omega
    simp [h, h0]

theorem dacCost_go_eq (vals : List Nat) : ∀ (ws : List Nat) (j : Nat),
    SpecX.dacCost.go vals ws j = DP.cost (Ncount vals) j ws := by
  intro ws
  induction ws with
  | nil => intro j; simp [SpecX.dacCost.go, DP.cost]
  | cons w t ih =>
    intro j
    cases t with
    | nil => simp only [SpecX.dacCost.go, DP.cost, reach_eq]
    | cons w' t' => simp only [SpecX.dacCost.go, DP.cost, reach_eq, ih (j + w)]

/-- the property's cost function is the executable spec used by the test driver -/
theorem dacCost_eq (vals ws : List Nat) : SpecX.dacCost vals ws = DP.cost (Ncount vals) 0 ws :=
  dacCost_go_eq vals ws 0

/-! ### valid splits -/

theorem length_le_sum (ws : List Nat) (h : ∀ w ∈ ws, 1 ≤ w) : ws.length ≤ ws.sum := by
  induction ws with
  | nil => simp
  | cons w t ih =>
    have h1 := h w (by simp)
    have h2 := ih (fun v hv => h v (List.mem_cons_of_mem _ hv))
    simp only [List.length_cons, List.sum_cons]; omega

theorem validSplit_iff (vals : List Nat) (L : Nat) (ws : List Nat) :
    SpecX.validSplit vals L ws = true ↔
      (ws ≠ [] ∧ ws.length ≤ L ∧ (∀ w ∈ ws, 1 ≤ w) ∧ ws.sum = SpecX.bitlen (vals.foldl max 0)) := by
  unfold SpecX.validSplit
  simp only [Bool.and_eq_true, decide_eq_true_eq, List.all_eq_true, beq_iff_eq, ge_iff_le, gt_iff_lt]
  constructor
  · rintro ⟨⟨⟨h1, h2⟩, h3⟩, h4⟩
    refine ⟨?_, h2, fun w hw => ?_, h4⟩
    · intro e; subst e; simp at h1
    · have := h3 w hw; omega
  · rintro ⟨h1, h2, h3, h4⟩
    refine ⟨⟨⟨?_, h2⟩, fun w hw => ?_⟩, h4⟩
    · cases ws with
      | nil => exact absurd rfl h1
      | cons _ _ => simp
    · have := h3 w hw; omega

/-! ### the model, with `needed_bits` of the maximum named -/

theorem bind_ok' {α β} (v : α) (f : α → R β) : (Except.ok v : R α).bind f = f v := rfl

theorem optWidths_unfold (c : Cfg) (vals : List Nat) (L W : Nat) (hW : neededBits c (vals.foldl max 0) = W) :
    DacO.optWidths c vals L =
      (DacO.recon (DacO.dpTables (DacO.numsInts c vals W) W (min L W)).2 W
          (DacO.minLevel (DacO.dpTables (DacO.numsInts c vals W) W (min L W)).1 (min L W) + 1) 0 0
          (Array.replicate (DacO.minLevel (DacO.dpTables (DacO.numsInts c vals W) W (min L W)).1 (min L W) + 1) 0)
          (W + 1)).bind fun r =>
        if r.2.1 ≠ W then .error .assertFail
        else if r.2.2 ≠ DacO.minLevel (DacO.dpTables (DacO.numsInts c vals W) W (min L W)).1 (min L W) + 1 then .error .assertFail
        else if r.1.toList.sum ≠ W then .error .assertFail
        else .ok r.1.toList := by
  subst hW; rfl

/-- **Deliverable 3 (C18 on the array-level model).** -/
theorem optWidths_ok (c : Cfg) (vals : List Nat) (hne : vals ≠ []) (hv : ∀ v ∈ vals, v < 2^64)
    (hn : vals.length < 2^57) (L : Nat) (hL1 : 1 ≤ L) (_hL64 : L ≤ 64) :
    ∃ ws, DacO.optWidths c vals L = .ok ws ∧ ws ≠ [] ∧ ws.length ≤ min L 64 ∧ (∀ w ∈ ws, 1 ≤ w) ∧
      ws.sum = SpecX.bitlen (vals.foldl max 0) ∧
      ∀ ws', ws' ≠ [] → ws'.length ≤ L → (∀ w ∈ ws', 1 ≤ w) → ws'.sum = SpecX.bitlen (vals.foldl max 0) →
        DP.cost (Ncount vals) 0 ws ≤ DP.cost (Ncount vals) 0 ws' := by
  have hmaxlt := maxv_lt vals hv
  have hNB := neededBits_eq c _ hmaxlt
  have hW1 := bitlen_pos (vals.foldl max 0)
  have hW64 := bitlen_le_64 _ hmaxlt
  have hpos := Ncount_pos vals hne
  obtain ⟨_, hNspec⟩ := numsInts_spec c vals hv
  rw [optWidths_unfold c vals L _ hNB]
  generalize hWdef : SpecX.bitlen (vals.foldl max 0) = W at hW1 hW64 hpos hNspec ⊢
  generalize hNdef : DacO.numsInts c vals W = N at hNspec ⊢
  have hNf : Nf N = Ncount vals := by funext j; exact hNspec j
  -- size hypothesis of the dynamic program
  have hsmall : DPB.SmallB W (Nf N) := by
    apply DPB.smallB_of_bound W (Nf N) vals.length _ hW64 hn
    intro j; rw [hNf]; exact Ncount_le vals j
  have hN1 : ∀ i, i < W → 1 ≤ Nf N i := by rw [hNf]; exact hpos
  have hml : 1 ≤ min L W := by omega
  obtain ⟨m1, m2, m3⟩ := minLevel_spec N W (min L W) hml
  generalize hmdef : DacO.minLevel (DacO.dpTables N W (min L W)).1 (min L W) = m at m1 m2 m3 ⊢
  -- the DP analysis at the chosen level count
  have hopt := fun ws' hc hl => DPB.optimal W (Nf N) hsmall hN1 (by omega) (min L W) m m1 m2 m3 ws' hc hl
  obtain ⟨c1, c2, c3, _⟩ := DPB.recon_props W (Nf N) hsmall m 0 (by omega)
  have hfull := DPB.recon_full W (Nf N) hsmall hN1 (by omega) m m2
  have hcomp := (DPB.comp_iff W (DP.recon W (Nf N) m 0) 0).1 c1
  -- the loop
  obtain ⟨ws', e1, e2⟩ := recon_eq (DacO.dpTables N W (min L W)).2 W (m+1) (Nf N)
    (fun r j hr => dpTables_B N W (min L W) r j (by omega)) m 0 0 [] (List.replicate (m+1) 0)
    (Array.replicate (m+1) 0) (W+1) (by omega) (by simp) rfl (by simp) (by omega)
  rw [hfull] at e1 e2
  simp only [List.drop_replicate, Nat.sub_self, List.replicate_zero, List.append_nil, List.nil_append] at e2
  rw [e1, bind_ok']
  have hsum : 0 + (DP.recon W (Nf N) m 0).sum = W := hcomp.2
  have h1 : ¬ (0 + (DP.recon W (Nf N) m 0).sum ≠ W) := by omega
  have h2 : ¬ (0 + (m + 1) ≠ m + 1) := by omega
  have h3 : ¬ (ws'.toList.sum ≠ W) := by rw [e2]; omega
  simp only [h1, h2, h3, if_false]
  refine ⟨ws'.toList, rfl, ?_, ?_, ?_, ?_, ?_⟩
  · rw [e2]; exact c3
  · rw [e2, hfull]; omega
  · rw [e2]; exact hcomp.1
  · rw [e2]; omega
  · intro ws2 g1 g2 g3 g4
    have hc2 : DP.Comp W 0 ws2 := (DPB.comp_iff W ws2 0).2 ⟨g3, by omega⟩
    have hl2 : ws2.length ≤ min L W := by
      have := length_le_sum ws2 g3; omega
    have := (hopt ws2 hc2 hl2).2.2
    rw [e2, ← hNf]; exact this

/-- the same, in the vocabulary of the executable spec of the test driver -/
theorem optWidths_ok_spec (c : Cfg) (vals : List Nat) (hne : vals ≠ []) (hv : ∀ v ∈ vals, v < 2^64)
    (hn : vals.length < 2^57) (L : Nat) (hL1 : 1 ≤ L) (hL64 : L ≤ 64) :
    ∃ ws, DacO.optWidths c vals L = .ok ws ∧ SpecX.validSplit vals L ws = true ∧
      ∀ ws', SpecX.validSplit vals L ws' = true → SpecX.dacCost vals ws ≤ SpecX.dacCost vals ws' := by
  obtain ⟨ws, a1, a2, a3, a4, a5, a6⟩ := optWidths_ok c vals hne hv hn L hL1 hL64
  refine ⟨ws, a1, (validSplit_iff vals L ws).2 ⟨a2, by omega, a4, a5⟩, ?_⟩
  intro ws' h
  obtain ⟨b1, b2, b3, b4⟩ := (validSplit_iff vals L ws').1 h
  rw [dacCost_eq, dacCost_eq]
  exact a6 ws' b1 b2 b3 b4

end Sucds.DacsOptW

namespace Sucds
/-- **C18 / task F3, deliverable 3** under the requested name -/
theorem DacO.optWidths_ok (c : Cfg) (vals : List Nat) (hne : vals ≠ []) (hv : ∀ v ∈ vals, v < 2^64)
    (hn : vals.length < 2^57) (L : Nat) (hL1 : 1 ≤ L) (hL64 : L ≤ 64) :
    ∃ ws, DacO.optWidths c vals L = .ok ws ∧ ws ≠ [] ∧ ws.length ≤ min L 64 ∧ (∀ w ∈ ws, 1 ≤ w) ∧
      ws.sum = SpecX.bitlen (vals.foldl max 0) ∧
      ∀ ws', ws' ≠ [] → ws'.length ≤ L → (∀ w ∈ ws', 1 ≤ w) → ws'.sum = SpecX.bitlen (vals.foldl max 0) →
        DP.cost (DacsOptW.Ncount vals) 0 ws ≤ DP.cost (DacsOptW.Ncount vals) 0 ws' :=
  DacsOptW.optWidths_ok c vals hne hv hn L hL1 hL64
end Sucds
