import Sucds.Proofs.BitVectorFromBit
set_option linter.unusedSimpArgs false
set_option linter.unusedVariables false
namespace Sucds
namespace BV

inductive Op
  | pushBit (b : Bool)
  | pushBits (bits len : Nat)
  | setBit (pos : Nat) (b : Bool)
  | setBits (pos bits len : Nat)
  | extend (bs : List Bool)

/-- the `len` low bits of `bits`, least significant first -/
def bitsOfN (bits len : Nat) : List Bool := (List.range len).map (fun j => bits.testBit j)

/-- list semantics of a mutator: new list and whether the call reports `Ok` -/
def specApply (l : List Bool) : Op → List Bool × Bool
  | .pushBit b => (l ++ [b], true)
  | .pushBits bits len => if len ≤ 64 then (l ++ bitsOfN bits len, true) else (l, false)
  | .setBit pos b => if pos < l.length then (l.set pos b, true) else (l, false)
  | .setBits pos bits len =>
      if len ≤ 64 ∧ pos + len ≤ l.length then (l.take pos ++ bitsOfN bits len ++ l.drop (pos + len), true) else (l, false)
  | .extend bs => (l ++ bs, true)

def apply (b : BV) : Op → R (BV × Bool)
  | .pushBit x => .ok (b.pushBit x, true)
  | .pushBits bits len => .ok (b.pushBits bits len)
  | .setBit pos x => b.setBit pos x
  | .setBits pos bits len => b.setBits pos bits len
  | .extend xs => .ok (b.extend xs, true)

/-- a list is determined by its length and elements; used to compare `toList` with the list semantics -/
theorem toList_eq_of (b : BV) (l : List Bool) (hl : b.len = l.length)
    (h : ∀ i, i < l.length → l[i]? = some (b.bitAt i)) : b.toList = l := by
  apply List.ext_getElem?
  intro i
  rw [toList_getElem?]
  by_cases hi : i < l.length
  · rw [h i hi]; simp [hl, hi]
  · rw [List.getElem?_eq_none (by omega)]; simp [hl, hi]

theorem bitsOfN_length (bits len : Nat) : (bitsOfN bits len).length = len := by simp [bitsOfN]
theorem bitsOfN_getElem? (bits len j : Nat) (hj : j < len) : (bitsOfN bits len)[j]? = some (bits.testBit j) := by
  simp [bitsOfN, hj]

/-- one mutator refines the list semantics; a rejected one returns the vector unchanged -/
theorem apply_spec (b : BV) (h : b.Inv) (op : Op) :
    ∃ b', b.apply op = .ok (b', (specApply b.toList op).2) ∧ b'.Inv ∧ b'.toList = (specApply b.toList op).1 ∧
      ((specApply b.toList op).2 = false → b' = b) := by
  have hlen := toList_length b
  cases op with
  | pushBit x =>
    exact ⟨b.pushBit x, rfl, pushBit_inv b h x, pushBit_toList b h x, fun hf => by simp [specApply] at hf⟩
  | extend xs =>
    obtain ⟨h1, h2⟩ := extend_spec xs b h
    exact ⟨b.extend xs, rfl, h1, h2, fun hf => by simp [specApply] at hf⟩
  | pushBits bits len =>
    simp only [apply, specApply]
    by_cases hl : len ≤ 64
    · obtain ⟨p1, p2, p3, p4⟩ := pushBits_ok b h bits len hl
      refine ⟨(b.pushBits bits len).1, ?_, p2, ?_, by simp [hl]⟩
      · simp only [hl, if_true]
        cases hpb : b.pushBits bits len with
        | mk b1 ok => rw [hpb] at p1; simp only at p1; subst p1; rfl
      · simp only [hl, if_true]
        apply toList_eq_of
        · rw [p3]; simp [hlen, bitsOfN_length]
        · intro i hi
          simp only [List.length_append, hlen, bitsOfN_length] at hi
          rw [p4 i]
          by_cases hlt : i < b.len
          · rw [List.getElem?_append_left (by rw [hlen]; exact hlt), toList_getElem?]
            simp [hlt]
          · rw [List.getElem?_append_right (by rw [hlen]; omega), hlen, bitsOfN_getElem? _ _ _ (by omega)]
            have : i < b.len + len := by omega
            simp [hlt, this]
    · have h64 : 64 < len := by omega
      refine ⟨b, ?_, h, by simp [hl], fun _ => rfl⟩
      simp [hl, pushBits_rej b bits len h64]
  | setBit pos x =>
    simp only [apply, specApply, hlen]
    by_cases hp : pos < b.len
    · obtain ⟨b', hs, hi', hl', hb'⟩ := setBit_ok b h pos x hp
      refine ⟨b', by simp [hp, hs], hi', ?_, by simp [hp]⟩
      simp only [hp, if_true]
      apply toList_eq_of
      · simp [hl', hlen]
      · intro i hi
        simp only [List.length_set, hlen] at hi
        rw [hb' i]
        by_cases hip : i = pos
        · subst hip
          rw [List.getElem?_set_self (by rw [hlen]; exact hi)]; simp
        · have hne : pos ≠ i := fun e => hip e.symm
          rw [List.getElem?_set_ne hne, toList_getElem?]; simp [hi, hip]
    · refine ⟨b, ?_, h, by simp [hp], fun _ => rfl⟩
      simp [hp, setBit_rej b pos x (by omega)]
  | setBits pos bits len =>
    simp only [apply, specApply, hlen]
    by_cases hc : len ≤ 64 ∧ pos + len ≤ b.len
    · obtain ⟨b', hs, hi', hl', hb'⟩ := setBits_ok b h pos bits len hc.1 hc.2
      refine ⟨b', by simp [hc, hs], hi', ?_, by simp [hc]⟩
      simp only [hc, and_self, if_true]
      apply toList_eq_of
      · simp [hl', hlen, bitsOfN_length]; omega
      · intro i hi
        simp only [List.length_append, List.length_take, List.length_drop, hlen, bitsOfN_length] at hi
        rw [hb' i]
        have htl : (b.toList.take pos).length = pos := by rw [List.length_take, hlen]; omega
        by_cases h1 : i < pos
        · have : ¬ (pos ≤ i ∧ i < pos + len) := by omega
          rw [List.append_assoc, List.getElem?_append_left (by rw [htl]; exact h1), List.getElem?_take_of_lt h1,
              toList_getElem?]
          have : i < b.len := by omega
          simp [this]; omega
        · by_cases h2 : i < pos + len
          · have hin : pos ≤ i ∧ i < pos + len := by omega
            rw [List.append_assoc, List.getElem?_append_right (by rw [htl]; omega), htl,
                List.getElem?_append_left (by rw [bitsOfN_length]; omega), bitsOfN_getElem? _ _ _ (by omega)]
            simp [hin]
          · have hout : ¬ (pos ≤ i ∧ i < pos + len) := by omega
            rw [List.getElem?_append_right (by simp [htl, bitsOfN_length]; omega)]
            simp only [List.length_append, htl, bitsOfN_length, List.getElem?_drop]
            rw [toList_getElem?]
            have e : pos + len + (i - (pos + len)) = i := by omega
            have : i < b.len := by omega
            simp [hout, e, this]
    · refine ⟨b, ?_, h, by simp [hc], fun _ => rfl⟩
      simp [hc, setBits_rej b pos bits len hc]

def run : BV → List Op → R BV
  | b, [] => .ok b
  | b, op :: ops => (b.apply op).bind fun r => run r.1 ops

/-- **C07 over histories (mutators)**: any sequence of the five mutators from any valid vector never
    panics, keeps the representation invariant and refines the list semantics -/
theorem run_spec : ∀ (ops : List Op) (b : BV), b.Inv →
    ∃ b', run b ops = .ok b' ∧ b'.Inv ∧ b'.toList = ops.foldl (fun l op => (specApply l op).1) b.toList := by
  intro ops
  induction ops with
  | nil => intro b h; exact ⟨b, rfl, h, rfl⟩
  | cons op t ih =>
    intro b h
    obtain ⟨b1, ha, hi, ht, _⟩ := apply_spec b h op
    obtain ⟨b', hr, hi', ht'⟩ := ih b1 hi
    refine ⟨b', ?_, hi', ?_⟩
    · simp only [run, ha, Except.bind]; exact hr
    · simp only [List.foldl_cons]; rw [← ht]; exact ht'

/-- equal contents ⇒ equal values, whatever the histories (derived `PartialEq` is semantic equality) -/
theorem run_canonical (ops ops' : List Op) (b0 b0' b b' : BV) (h0 : b0.Inv) (h0' : b0'.Inv)
    (hr : run b0 ops = .ok b) (hr' : run b0' ops' = .ok b')
    (heq : ops.foldl (fun l op => (specApply l op).1) b0.toList = ops'.foldl (fun l op => (specApply l op).1) b0'.toList) :
    b = b' := by
  obtain ⟨c, hc, hci, hct⟩ := run_spec ops b0 h0
  obtain ⟨c', hc', hci', hct'⟩ := run_spec ops' b0' h0'
  rw [hr] at hc; rw [hr'] at hc'
  cases hc; cases hc'
  exact eq_of_toList _ _ hci hci' (by rw [hct, hct', heq])

end BV
end Sucds
