import Sucds.Spec.Bits
/-! C04/C16/C12/C03: counting in a bit sequence whose ones sit exactly at a strictly increasing list of
    positions `p 0 < p 1 < … < p (n-1)` — the high part of Elias-Fano, where `p k = (x_k >> l) + k`. -/
set_option linter.unusedSimpArgs false
set_option linter.unusedVariables false
namespace Sucds.UnaryCode
open Sucds.Spec

theorem countP_range_lt (n k : Nat) (h : k ≤ n) : (List.range n).countP (fun j => decide (j < k)) = k := by
  induction n with
  | zero => have : k = 0 := by omega
            subst this; rfl
  | succ n ih =>
    rw [List.range_succ, List.countP_append]
    by_cases hk : k ≤ n
    · have : ¬ n < k := by omega
      simp [ih hk, this]
    · have hk' : k = n + 1 := by omega
      subst hk'
      have e : (List.range n).countP (fun j => decide (j < n + 1)) = n := by
        rw [List.countP_eq_length.mpr (fun j hj => by simp at hj; simp; omega)]; simp
      simp [e]

theorem countP_range_eq (n k : Nat) (h : k < n) : (List.range n).countP (fun j => decide (j = k)) = 1 := by
  induction n with
  | zero => omega
  | succ n ih =>
    rw [List.range_succ, List.countP_append]
    by_cases hk : k < n
    · have : ¬ n = k := by omega
      simp [ih hk, this]
    · have hk' : k = n := by omega
      subst hk'
      have e : (List.range k).countP (fun j => decide (j = k)) = 0 := by
        rw [List.countP_eq_zero]; intro j hj; simp at hj; simp; omega
      simp [e]

variable (n : Nat) (p : Nat → Nat) (P : Nat → Bool)

/-- number of code positions below `m` -/
def below (m : Nat) : Nat := (List.range n).countP (fun k => decide (p k < m))

/-- **the count of ones below any bound is the number of code positions below it** -/
theorem cnt_eq_below (hmono : ∀ i j, i < j → j < n → p i < p j)
    (hP : ∀ q, P q = true ↔ ∃ k, k < n ∧ p k = q) (m : Nat) : cnt P m = below n p m := by
  have hinj : ∀ i j, i < n → j < n → p i = p j → i = j := by
    intro i j hi hj he
    by_cases h1 : i < j
    · have := hmono i j h1 hj; omega
    · by_cases h2 : j < i
      · have := hmono j i h2 hi; omega
      · omega
  induction m with
  | zero => simp [cnt, below]
  | succ m ih =>
    simp only [cnt, ih, below]
    have hsplit : (List.range n).countP (fun k => decide (p k < m + 1))
        = (List.range n).countP (fun k => decide (p k < m)) + (List.range n).countP (fun k => decide (p k = m)) := by
      induction (List.range n) with
      | nil => rfl
      | cons a t iht =>
        simp only [List.countP_cons, iht]
        by_cases h1 : p a < m
        · have : p a < m + 1 := by omega
          have h3 : ¬ p a = m := by omega
          simp [h1, this, h3]; omega
        · by_cases h2 : p a = m
          · have : p a < m + 1 := by omega
            simp [h1, this, h2]; omega
          · have : ¬ p a < m + 1 := by omega
            simp [h1, this, h2]
    rw [hsplit]
    congr 1
    by_cases hPm : P m = true
    · obtain ⟨k0, hk0, hpk0⟩ := (hP m).mp hPm
      have : (List.range n).countP (fun k => decide (p k = m)) = (List.range n).countP (fun j => decide (j = k0)) := by
        apply List.countP_congr
        intro k hk
        have hk' : k < n := by simpa using hk
        simp only [decide_eq_true_eq]
        constructor
        · intro h; exact hinj k k0 hk' hk0 (by rw [h, hpk0])
        · intro h; rw [h, hpk0]
      rw [this, countP_range_eq n k0 hk0]; simp [hPm]
    · have hf : P m = false := by simpa using hPm
      have : (List.range n).countP (fun k => decide (p k = m)) = 0 := by
        rw [List.countP_eq_zero]
        intro k hk
        have hk' : k < n := by simpa using hk
        simp only [decide_eq_true_eq]
        intro h
        have := (hP m).mpr ⟨k, hk', h⟩
        rw [hf] at this; exact absurd this (by simp)
      rw [this]; simp [hf]

/-- the k-th one of the code is at `p k` (what `select1` of the high bits must return) -/
theorem kth_one (hmono : ∀ i j, i < j → j < n → p i < p j)
    (hP : ∀ q, P q = true ↔ ∃ k, k < n ∧ p k = q) (k : Nat) (hk : k < n) (N : Nat) (hN : p k < N) :
    IsKth P N k (p k) := by
  refine ⟨hN, (hP _).mpr ⟨k, hk, rfl⟩, ?_⟩
  rw [cnt_eq_below n p P hmono hP]
  unfold below
  have : (List.range n).countP (fun j => decide (p j < p k)) = (List.range n).countP (fun j => decide (j < k)) := by
    apply List.countP_congr
    intro j hj
    have hj' : j < n := by simpa using hj
    simp only [decide_eq_true_eq]
    constructor
    · intro h
      by_cases hjk : j < k
      · exact hjk
      · by_cases hjk2 : j = k
        · subst hjk2; omega
        · have := hmono k j (by omega) hj'; omega
    · intro h; exact hmono j k h hk
  rw [this, countP_range_lt n k (by omega)]

end Sucds.UnaryCode
