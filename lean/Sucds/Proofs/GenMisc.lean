import Sucds.Gen.Fns
/-! Generated wrappers not mentioned by any other equivalence file (so that every one of the generated
    definitions has at least one theorem about it; `tools/check.py` lists the coverage in the evidence). -/
namespace Sucds.GenEq
open Sucds

/-- `Build::build_from_slice` of `CompactVector` is `from_slice` -/
theorem cv_build_from_slice_eq (c : Cfg) (vals : Array Nat) :
    GenFn.CompactVector.build_from_slice c vals = GenFn.CompactVector.from_slice c vals := rfl
end Sucds.GenEq
