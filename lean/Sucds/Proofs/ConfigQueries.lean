import Sucds.Proofs.ConfigBuild
import Sucds.Props.C01
import Sucds.Props.C02
import Sucds.Props.C03
import Sucds.Props.C06
import Sucds.Props.C17
/-! C15, part B: for each structure, the structure built under configuration `c` and the one built
    under `c'` are the same value and answer every query identically — corollaries of the `holds`
    theorems of C01 … C12, C17 (whose right-hand sides do not mention the configuration) and of the
    builder equalities of part A. -/
set_option linter.unusedSimpArgs false
set_option linter.unusedVariables false
namespace Sucds.Config
open Sucds Sucds.Spec

/-- C01, Rank9Sel: one structure, the same answers -/
theorem c01 (c c' : Cfg) (bs : List Bool) (h1 h0 : Bool) :
    ∃ x, R9.build c (BV.fromBits bs) h1 h0 = .ok x ∧ R9.build c' (BV.fromBits bs) h1 h0 = .ok x ∧
      (∀ a, x.rank1 c a = x.rank1 c' a ∧ x.rank0 c a = x.rank0 c' a ∧
            x.select1 c a = x.select1 c' a ∧ x.select0 c a = x.select0 c' a) ∧
      x.numZeros c = x.numZeros c' := by
  obtain ⟨x, hx, _, a2, a3, a4, a5, _, _, a8⟩ := C01.holds c bs h1 h0
  obtain ⟨y, hy, _, b2, b3, b4, b5, _, _, b8⟩ := C01.holds c' bs h1 h0
  have hxy : y = x := by
    rw [R9_build_cfg c c' _ (BV.fromBits_spec bs).1, hy] at hx; cases hx; rfl
  subst hxy
  exact ⟨y, hx, hy, fun a => ⟨by rw [a2, b2], by rw [a3, b3], by rw [a4, b4], by rw [a5, b5]⟩, by rw [a8, b8]⟩

/-- C02, DArray with any combination of indexes -/
theorem c02 (c c' : Cfg) (bs : List Bool) (rank sel0 : Bool) :
    DA.build c (BV.fromBits bs) rank sel0 = DA.build c' (BV.fromBits bs) rank sel0 ∧
    (let x := DA.build c (BV.fromBits bs) rank sel0
     (∀ k, x.select1 c k = x.select1 c' k) ∧
     (sel0 = true → ∀ k, x.select0 c k = x.select0 c' k) ∧
     (rank = true → ∀ i, x.rank1 c i = x.rank1 c' i ∧ x.rank0 c i = x.rank0 c' i)) := by
  have e := DA_build_cfg c c' (BV.fromBits bs) rank sel0
  refine ⟨e, ?_⟩
  obtain ⟨a1, _, _, _, a5, a6, a7⟩ := C02.holds c bs rank sel0
  obtain ⟨b1, _, _, _, b5, b6, b7⟩ := C02.holds c' bs rank sel0
  simp only [← e] at b1 b5 b6 b7
  exact ⟨fun k => by rw [a1, b1], fun h k => by rw [a5 h, b5 h],
    fun h i => ⟨by rw [a6 h, b6 h], by rw [a7 h, b7 h]⟩⟩

/-- C03, SArray, as built and after `enable_rank` -/
theorem c03 (c c' : Cfg) (bs : List Bool) (hn : bs.length < 2^64) :
    ∃ s t, SA.fromBV c (BV.fromBits bs) = .ok s ∧ SA.fromBV c' (BV.fromBits bs) = .ok s ∧
      s.enableRank c = t ∧ s.enableRank c' = t ∧
      (∀ a, s.access c a = s.access c' a ∧ s.select1 c a = s.select1 c' a ∧
            t.access c a = t.access c' a ∧ t.select1 c a = t.select1 c' a ∧
            t.rank1 c a = t.rank1 c' a ∧ t.rank0 c a = t.rank0 c' a ∧
            t.predecessor1 c a = t.predecessor1 c' a ∧ t.successor1 c a = t.successor1 c' a) := by
  obtain ⟨s, hs, _, p, q, r⟩ := C03.holds c bs hn
  obtain ⟨s', hs', _, p', q', r'⟩ := C03.holds c' bs hn
  have hss : s' = s := by
    rw [SA_fromBV_cfg c c', hs'] at hs; cases hs; rfl
  subst hss
  rw [SA_enableRank_cfg c' c] at q' r'
  exact ⟨s', _, hs, hs', rfl, SA_enableRank_cfg c' c s', fun a =>
    ⟨by rw [p.access, p'.access], by rw [p.select1, p'.select1],
     by rw [q.access, q'.access], by rw [q.select1, q'.select1],
     by rw [r.rank1, r'.rank1], by rw [r.rank0, r'.rank0],
     by rw [r.pred1, r'.pred1], by rw [r.succ1, r'.succ1]⟩⟩

/-- C04, Elias-Fano after `build()` and `enable_rank()`: one structure; `select`, `delta`, `rank`,
    `predecessor`, `successor` agree; the iterators started at any `k` yield the same values; a
    `binsearch_range` on an empty or out-of-bounds range answers the same (the valid ranges are
    `Config.c04_binsearch` in `ConfigEF.lean`) -/
theorem c04 (c c' : Cfg) (u m : Nat) (hist : List Nat) (hm : m ≠ 0) (hu : u < 2^64) :
    ∃ b0 b' e, EFB.new u m = some b0 ∧ EFB.run b0 hist = .ok (b', EFB.verdicts u m [] hist) ∧
      (EF.ofBuilder c b').enableRank c = e ∧ (EF.ofBuilder c' b').enableRank c' = e ∧
      (∀ a, e.select c a = e.select c' a ∧ e.delta c a = e.delta c' a ∧ e.rank c a = e.rank c' a ∧
            e.predecessor c a = e.predecessor c' a ∧ e.successor c a = e.successor c' a) ∧
      (∀ k, ∃ it0 it0', e.iter c k = .ok it0 ∧ e.iter c' k = .ok it0' ∧
        ∀ t, ∃ it' it'' ys,
          EFQ.itRun c e ((EFB.accepted u m [] hist).length - k + t) it0 = .ok (it', ys) ∧
          EFQ.itRun c' e ((EFB.accepted u m [] hist).length - k + t) it0' = .ok (it'', ys)) ∧
      (∀ lo hi v, (hi ≤ lo ∨ (EFB.accepted u m [] hist).length < hi) →
        e.binsearchRange c lo hi v = e.binsearchRange c' lo hi v) := by
  obtain ⟨b0, b', h1, h2, A⟩ := C04.holds c u m hist hm hu
  obtain ⟨b0', b'', h1', h2', A'⟩ := C04.holds c' u m hist hm hu
  have e0 : b0' = b0 := by rw [h1] at h1'; cases h1'; rfl
  subst e0
  have e1 : b'' = b' := by rw [h2] at h2'; cases h2'; rfl
  subst e1
  have ee : (EF.ofBuilder c' b'').enableRank c' = (EF.ofBuilder c b'').enableRank c := by
    rw [EF_ofBuilder_cfg c' c, EF_enableRank_cfg c' c]
  rw [ee] at A'
  refine ⟨b0', b'', _, h1, h2, rfl, ee, fun a => ⟨by rw [A.select, A'.select], by rw [A.delta, A'.delta],
    by rw [A.rank, A'.rank], by rw [A.pred, A'.pred], by rw [A.succ, A'.succ]⟩, ?_, ?_⟩
  · intro k
    obtain ⟨it0, i1, i2⟩ := A.iter k
    obtain ⟨it0', i1', i2'⟩ := A'.iter k
    refine ⟨it0, it0', i1, i1', fun t => ?_⟩
    obtain ⟨it', r⟩ := i2 t
    obtain ⟨it'', r'⟩ := i2' t
    exact ⟨it', it'', _, r, r'⟩
  · intro lo hi v h
    rw [A.bs_none lo hi v h, A'.bs_none lo hi v h]

/-- C05, wavelet matrix over each backing: `access`, `rank_range`, `rank`, `select` -/
theorem c05 (c c' : Cfg) (k : Backing) (s : List Nat) (hne : s ≠ []) (hmax : s.foldl max 0 + 1 < 2^64)
    (hn : s.length < 2^63) :
    ∃ wm, WM.new c k s = .ok (some wm) ∧ WM.new c' k s = .ok (some wm) ∧
      (∀ i, wm.access c i = wm.access c' i) ∧
      (∀ a b v, wm.rankRange c a b v = wm.rankRange c' a b v) ∧
      (∀ p v, wm.rank c p v = wm.rank c' p v) ∧
      (∀ j v, wm.select c j v = wm.select c' j v) := by
  obtain ⟨wm, hw, _, _, a1, a2, a3, a4⟩ := C05.holds c k s hne hmax hn
  obtain ⟨wm', hw', _, _, b1, b2, b3, b4⟩ := C05.holds c' k s hne hmax hn
  have e : wm' = wm := by rw [WM_new_cfg c c' k s hmax, hw'] at hw; cases hw; rfl
  subst e
  exact ⟨wm', hw, hw', fun i => by rw [a1, b1], fun a b v => by rw [a2, b2], fun p v => by rw [a3, b3],
    fun j v => by rw [a4, b4]⟩

/-- strictly ascending lists with the same elements are equal -/
theorem asc_ext : ∀ (l1 l2 : List Nat), l1.Pairwise (· < ·) → l2.Pairwise (· < ·) →
    (∀ x, x ∈ l1 ↔ x ∈ l2) → l1 = l2
  | [], [], _, _, _ => rfl
  | [], y :: ys, _, _, h => by have := (h y).2 (by simp); simp at this
  | x :: xs, [], _, _, h => by have := (h x).1 (by simp); simp at this
  | x :: xs, y :: ys, p1, p2, h => by
    rw [List.pairwise_cons] at p1 p2
    have hxy : x = y := by
      have h1 := (h x).1 (by simp)
      have h2 := (h y).2 (by simp)
      simp only [List.mem_cons] at h1 h2
      rcases h1 with h1 | h1
      · exact h1
      · rcases h2 with h2 | h2
        · exact h2.symm
        · have := p1.1 y h2; have := p2.1 x h1; omega
    subst hxy
    congr 1
    apply asc_ext xs ys p1.2 p2.2
    intro z
    have hz := h z
    simp only [List.mem_cons] at hz
    constructor
    · intro hm
      rcases hz.1 (Or.inr hm) with h3 | h3
      · have := p1.1 z hm; omega
      · exact h3
    · intro hm
      rcases hz.2 (Or.inr hm) with h3 | h3
      · have := p2.1 z hm; omega
      · exact h3

/-- C06, wavelet matrix: `quantile` and `intersect` -/
theorem c06 (c c' : Cfg) (k : Backing) (s : List Nat) (hne : s ≠ []) (hmax : s.foldl max 0 + 1 < 2^64)
    (hn : s.length < 2^63) :
    ∃ wm, WM.new c k s = .ok (some wm) ∧ WM.new c' k s = .ok (some wm) ∧
      (∀ a b j, wm.quantile c a b j = wm.quantile c' a b j) ∧
      (∀ ranges j, wm.intersect c ranges j = wm.intersect c' ranges j) := by
  obtain ⟨wm, hw, a1, a2⟩ := C06.holds c k s hne hmax hn
  obtain ⟨wm', hw', b1, b2⟩ := C06.holds c' k s hne hmax hn
  have e : wm' = wm := by rw [WM_new_cfg c c' k s hmax, hw'] at hw; cases hw; rfl
  subst e
  refine ⟨wm', hw, hw', fun a b j => by rw [a1, b1], fun ranges j => ?_⟩
  cases hany : ranges.any (fun r => decide (s.length < r.2)) with
  | true => rw [(a2 ranges j).1 hany, (b2 ranges j).1 hany]
  | false =>
    obtain ⟨o, ho, hp, hm⟩ := (a2 ranges j).2 hany
    obtain ⟨o', ho', hp', hm'⟩ := (b2 ranges j).2 hany
    rw [ho, ho', asc_ext o o' hp hp' (fun x => by rw [hm x, hm' x])]

/-- C07, plain bit vector: every read that takes the configuration -/
theorem c07 (c c' : Cfg) (b : BV) (h : b.Inv) :
    (∀ a, b.rank1 c a = b.rank1 c' a ∧ b.rank0 c a = b.rank0 c' a ∧
          b.select1 c a = b.select1 c' a ∧ b.select0 c a = b.select0 c' a ∧
          b.predecessor1 c a = b.predecessor1 c' a ∧ b.predecessor0 c a = b.predecessor0 c' a ∧
          b.successor1 c a = b.successor1 c' a ∧ b.successor0 c a = b.successor0 c' a) ∧
    b.numOnes c = b.numOnes c' := by
  have r := C07.reads_ok c b h
  have r' := C07.reads_ok c' b h
  exact ⟨fun a => ⟨by rw [r.rank1, r'.rank1], by rw [r.rank0, r'.rank0], by rw [r.select1, r'.select1],
    by rw [r.select0, r'.select0], by rw [r.pred1, r'.pred1], by rw [r.pred0, r'.pred0],
    by rw [r.succ1, r'.succ1], by rw [r.succ0, r'.succ0]⟩, by rw [r.num_ones, r'.num_ones]⟩

/-- C09, CompactVector: every constructor gives the same value (the operations of a history do not
    take the configuration at all), in particular the same final vector after any history -/
theorem c09 (c c' : Cfg) (k : CV.Ctor) : CV.construct c k = CV.construct c' k := by
  cases k with
  | new w => rfl
  | fromInt val len w => rfl
  | fromSlice vals =>
    show CV.fromSlice c vals = CV.fromSlice c' vals
    unfold CV.fromSlice
    rw [neededBits_cfg c c']

/-- the same from `C09.holds` for `usize` operands: the constructed vector and the vector after the
    history are the same values -/
theorem c09_history (c c' : Cfg) (k : CV.Ctor) (hk : k.Small) (ops : List CV.Op) (hs : ∀ op ∈ ops, op.Small)
    (w : Nat) (xs0 : List Nat) (h : CV.specCtor k = some (w, xs0)) :
    ∃ v0 v, CV.construct c k = .ok (some v0) ∧ CV.construct c' k = .ok (some v0) ∧ CV.run v0 ops = .ok v := by
  obtain ⟨v0, v0', v, h1, h2, h3, _⟩ := C09.canonical c c' k k hk hk ops ops hs hs w xs0 xs0 h h rfl
  have : v0' = v0 := by rw [c09 c c', h2] at h1; cases h1; rfl
  subst this
  exact ⟨v0', v, h1, h2, h3⟩

/-- C10, DacsOpt -/
theorem c10 (c c' : Cfg) (vals : List Nat) (ml : Option Nat) (hv : ∀ v ∈ vals, v < 2^64) (hn : vals.length < 2^57) :
    DacO.fromSlice c vals ml = DacO.fromSlice c' vals ml ∧
    ∀ d, DacO.fromSlice c vals ml = .ok (some d) → ∀ i, d.access c i = d.access c' i := by
  have e := DacO_fromSlice_cfg c c' vals ml
  refine ⟨e, fun d hd i => ?_⟩
  by_cases hml : 1 ≤ ml.getD 64 ∧ ml.getD 64 ≤ 64
  · obtain ⟨d1, h1, _, a1, _⟩ := (C10.holds c vals ml hv hn).2 hml
    obtain ⟨d2, h2, _, a2, _⟩ := (C10.holds c' vals ml hv hn).2 hml
    have e1 : d1 = d := by rw [h1] at hd; cases hd; rfl
    have e2 : d2 = d := by rw [e, h2] at hd; cases hd; rfl
    subst e1; subst e2
    rw [a1, a2]
  · rw [(C10.holds c vals ml hv hn).1 hml] at hd; cases hd

/-- C11, DacsByte -/
theorem c11 (c c' : Cfg) (vals : List Nat) (hv : ∀ v ∈ vals, v < 2^64) :
    DacB.fromSlice c vals = DacB.fromSlice c' vals ∧
    ∀ i, (DacB.fromSlice c vals).access c i = (DacB.fromSlice c vals).access c' i := by
  have e := DacB_fromSlice_cfg c c' vals
  refine ⟨e, fun i => ?_⟩
  have a := (C11.holds c vals hv).1 i
  have b := (C11.holds c' vals hv).1 i
  rw [← e] at b
  rw [a, b]

/-- C12, PrefixSummedEliasFano -/
theorem c12 (c c' : Cfg) (vals : List Nat) (hs : vals.sum + 1 < 2^64) :
    PS.fromSlice c vals = PS.fromSlice c' vals ∧
    ∀ p, PS.fromSlice c vals = .ok (some p) → p.sum c = p.sum c' ∧ ∀ i, p.access c i = p.access c' i := by
  have e := PS_fromSlice_cfg c c' vals hs
  refine ⟨e, fun p hp => ?_⟩
  by_cases hne : vals = []
  · subst hne; rw [C12.holds.1 c] at hp; cases hp
  · obtain ⟨p1, h1, _, s1, a1, _⟩ := C12.holds.2 c vals hne hs
    obtain ⟨p2, h2, _, s2, a2, _⟩ := C12.holds.2 c' vals hne hs
    have e1 : p1 = p := by rw [h1] at hp; cases hp; rfl
    have e2 : p2 = p := by rw [e, h2] at hp; cases hp; rfl
    subst e1; subst e2
    exact ⟨by rw [s1, s2], fun i => by rw [a1, a2]⟩

/-- C17, iterators. The index iterators (`IndexIter.runN len acc`) are functions of the `access`
    answers, which are configuration independent by `c05`, `c07`, `c10`, `c11`, `c12`; the
    Elias-Fano iterator is in `c04`; here the unary iterator: any number of `next` calls and any
    sequence of `skip1`/`skip0` calls from `unary_iter(p)` -/
theorem c17 (c c' : Cfg) (bv : BV) (h : bv.Inv) (p : Nat) :
    (∀ n, UIter.nexts c bv n (UIter.new bv p) = UIter.nexts c' bv n (UIter.new bv p)) ∧
    (∀ ops, UIter.runSkips c bv (UIter.new bv p) ops = UIter.runSkips c' bv (UIter.new bv p) ops) := by
  obtain ⟨_, _, _, _, _, _, _, a8, a9⟩ := C17.holds
  exact ⟨fun n => by rw [a8 c bv h p n, a8 c' bv h p n], fun ops => by rw [a9 c bv h p ops, a9 c' bv h p ops]⟩

/-- C17, index iterators: the access functions the iterators read are the same function -/
theorem c17_index (c c' : Cfg) :
    (∀ (vals : List Nat), (∀ v ∈ vals, v < 2^64) →
      (fun i => C17.okv ((DacB.fromSlice c vals).access c i)) = (fun i => C17.okv ((DacB.fromSlice c' vals).access c' i))) ∧
    (∀ (vals : List Nat) (ml : Option Nat) (d : DacO), (∀ v ∈ vals, v < 2^64) → vals.length < 2^57 →
      DacO.fromSlice c vals ml = .ok (some d) →
      (fun i => C17.okv (d.access c i)) = (fun i => C17.okv (d.access c' i))) ∧
    (∀ (vals : List Nat) (p : PS), vals.sum + 1 < 2^64 → PS.fromSlice c vals = .ok (some p) →
      (fun i => C17.okv (p.access c i)) = (fun i => C17.okv (p.access c' i))) ∧
    (∀ (k : Backing) (s : List Nat) (wm : WM), s ≠ [] → s.foldl max 0 + 1 < 2^64 → s.length < 2^63 →
      WM.new c k s = .ok (some wm) →
      (fun i => C17.okv (wm.access c i)) = (fun i => C17.okv (wm.access c' i))) := by
  refine ⟨?_, ?_, ?_, ?_⟩
  · intro vals hv
    funext i
    rw [← (c11 c c' vals hv).1, (c11 c c' vals hv).2 i]
  · intro vals ml d hv hn hd
    funext i
    rw [(c10 c c' vals ml hv hn).2 d hd i]
  · intro vals p hs hp
    funext i
    rw [((c12 c c' vals hs).2 p hp).2 i]
  · intro k s wm hne hmax hn hw
    obtain ⟨wm', h1, _, a, _⟩ := c05 c c' k s hne hmax hn
    have : wm' = wm := by rw [h1] at hw; cases hw; rfl
    subst this
    funext i
    rw [a i]

end Sucds.Config
